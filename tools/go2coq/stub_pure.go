package main

import (
	"go/ast"
	"strings"
)

// placeholder until mode pure is built: delete this file when genPure is implemented
func genPure(out *strings.Builder, files []*ast.File) { panic(unsupported{"mode pure not built yet"}) }
