package main

import (
	"go/ast"
	"strings"
)

// placeholder until mode hseq is built: delete this file when genHseq is implemented
func genHseq(out *strings.Builder, files []*ast.File) { panic(unsupported{"mode hseq not built yet"}) }
