package main

import (
	"go/ast"
	"strings"
)

func genHseq(out *strings.Builder, files []*ast.File)   { panic(unsupported{"mode hseq not built yet"}) }
func genOptics(out *strings.Builder, files []*ast.File) { panic(unsupported{"mode optics not built yet"}) }
func genShape(out *strings.Builder, files []*ast.File)  { panic(unsupported{"mode shape not built yet"}) }
func genPure(out *strings.Builder, files []*ast.File)   { panic(unsupported{"mode pure not built yet"}) }
