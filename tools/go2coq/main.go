// go2coq translates the pure, hand-unrolled families of fogfish/golem into
// shallow Gallina definitions. It is run on every check so that the theorems
// of coq/theories/Properties are re-checked against what the code says now.
//
//	go2coq <mode> <go source file>... > coq/gen/<File>.v
//
// Anything outside the supported subset makes the tool fail loudly, naming
// the file and the function: the obligation is then broken, not skipped.
package main

import (
	"fmt"
	"go/ast"
	"go/parser"
	"go/token"
	"os"
	"sort"
	"strings"
)

type unsupported struct{ msg string }

func fail(pos token.Pos, format string, args ...any) {
	panic(unsupported{fset.Position(pos).String() + ": " + fmt.Sprintf(format, args...)})
}

var fset = token.NewFileSet()

func main() {
	if len(os.Args) < 3 {
		fmt.Fprintln(os.Stderr, "usage: go2coq <mode> <file.go>...")
		os.Exit(2)
	}
	defer func() {
		if r := recover(); r != nil {
			if u, ok := r.(unsupported); ok {
				fmt.Fprintln(os.Stderr, "go2coq: unsupported construct: "+u.msg)
				os.Exit(3)
			}
			panic(r)
		}
	}()

	var files []*ast.File
	for _, path := range os.Args[2:] {
		f, err := parser.ParseFile(fset, path, nil, 0)
		if err != nil {
			fmt.Fprintln(os.Stderr, "go2coq: parse error: "+err.Error())
			os.Exit(3)
		}
		files = append(files, f)
	}

	var out strings.Builder
	switch os.Args[1] {
	case "pipe":
		genPipe(&out, files)
	case "pure":
		genPure(&out, files)
	case "hseq":
		genHseq(&out, files)
	case "optics":
		genOptics(&out, files)
	case "shape":
		genShape(&out, files)
	case "fold":
		genFold(&out, files)
	default:
		fmt.Fprintln(os.Stderr, "go2coq: unknown mode "+os.Args[1])
		os.Exit(2)
	}
	fmt.Print(out.String())
}

//------------------------------------------------------------------------------
// generic helpers
//------------------------------------------------------------------------------

func funcDecls(files []*ast.File) []*ast.FuncDecl {
	var fds []*ast.FuncDecl
	for _, f := range files {
		for _, d := range f.Decls {
			if fd, ok := d.(*ast.FuncDecl); ok {
				fds = append(fds, fd)
			}
		}
	}
	return fds
}

func typeParams(fd *ast.FuncDecl) []string {
	var tps []string
	if fd.Type.TypeParams == nil {
		return nil
	}
	for _, tp := range fd.Type.TypeParams.List {
		for _, n := range tp.Names {
			tps = append(tps, n.Name)
		}
	}
	return tps
}

type param struct {
	name string
	typ  ast.Expr
}

func params(fl *ast.FieldList) []param {
	var ps []param
	if fl == nil {
		return nil
	}
	for _, p := range fl.List {
		if len(p.Names) == 0 {
			ps = append(ps, param{"_", p.Type})
		}
		for _, n := range p.Names {
			ps = append(ps, param{n.Name, p.Type})
		}
	}
	return ps
}

func sortedKeys[V any](m map[string]V) []string {
	var ks []string
	for k := range m {
		ks = append(ks, k)
	}
	sort.Strings(ks)
	return ks
}

//------------------------------------------------------------------------------
// mode pipe: internal/pipe/pipe.go  (C20)
//
// Supported subset: func F[T...](f1 func(A) B, ...) func(A) Z { body } where the
// body is a sequence of `x := e` followed by `return e`, and expressions are
// identifiers, calls and function literals of the same shape.
//------------------------------------------------------------------------------

func pipeTy(e ast.Expr) string {
	switch t := e.(type) {
	case *ast.Ident:
		return "t" + t.Name
	case *ast.ParenExpr:
		return pipeTy(t.X)
	case *ast.FuncType:
		var ps []string
		for _, p := range params(t.Params) {
			ps = append(ps, pipeTy(p.typ))
		}
		if t.Results == nil || len(t.Results.List) != 1 || len(t.Results.List[0].Names) > 1 {
			fail(e.Pos(), "function type without exactly one result")
		}
		return "(" + strings.Join(append(ps, pipeTy(t.Results.List[0].Type)), " -> ") + ")"
	}
	fail(e.Pos(), "type %T", e)
	return ""
}

// pipeExpr gives the Gallina term; ctree the first-order call tree
func pipeExpr(e ast.Expr) string {
	switch x := e.(type) {
	case *ast.Ident:
		return "v_" + x.Name
	case *ast.ParenExpr:
		return pipeExpr(x.X)
	case *ast.CallExpr:
		if x.Ellipsis.IsValid() {
			fail(e.Pos(), "variadic call")
		}
		var as []string
		for _, a := range x.Args {
			as = append(as, pipeExpr(a))
		}
		if len(as) == 0 {
			fail(e.Pos(), "call without arguments")
		}
		return "(" + pipeExpr(x.Fun) + " " + strings.Join(as, " ") + ")"
	case *ast.FuncLit:
		var ps []string
		for _, p := range params(x.Type.Params) {
			ps = append(ps, fmt.Sprintf("(v_%s : %s)", p.name, pipeTy(p.typ)))
		}
		return "(fun " + strings.Join(ps, " ") + " => " + pipeBody(x.Body) + ")"
	}
	fail(e.Pos(), "expression %T", e)
	return ""
}

func pipeBody(b *ast.BlockStmt) string {
	var sb strings.Builder
	for i, s := range b.List {
		switch st := s.(type) {
		case *ast.AssignStmt:
			if st.Tok != token.DEFINE || len(st.Lhs) != 1 || len(st.Rhs) != 1 {
				fail(s.Pos(), "assignment other than `x := e`")
			}
			id, ok := st.Lhs[0].(*ast.Ident)
			if !ok {
				fail(s.Pos(), "assignment to a non-identifier")
			}
			fmt.Fprintf(&sb, "let v_%s := %s in ", id.Name, pipeExpr(st.Rhs[0]))
		case *ast.ReturnStmt:
			if len(st.Results) != 1 || i != len(b.List)-1 {
				fail(s.Pos(), "return that is not the final single-result return")
			}
			sb.WriteString(pipeExpr(st.Results[0]))
			return sb.String()
		default:
			fail(s.Pos(), "statement %T", s)
		}
	}
	fail(b.Pos(), "body without return")
	return ""
}

// call tree with let-bound variables substituted (each bound variable must be used once,
// otherwise the number of calls would not be the number of tree nodes)
func pipeTree(b *ast.BlockStmt, env map[string]string) string {
	uses := map[string]int{}
	var tree func(e ast.Expr) string
	tree = func(e ast.Expr) string {
		switch x := e.(type) {
		case *ast.Ident:
			if t, ok := env[x.Name]; ok {
				uses[x.Name]++
				if uses[x.Name] > 1 {
					// the value is shared, not recomputed: refer to it by name
					return fmt.Sprintf("(CVar %q)", x.Name)
				}
				return t
			}
			return fmt.Sprintf("(CVar %q)", x.Name)
		case *ast.ParenExpr:
			return tree(x.X)
		case *ast.CallExpr:
			var as []string
			for _, a := range x.Args {
				as = append(as, tree(a))
			}
			id, ok := x.Fun.(*ast.Ident)
			if !ok {
				fail(e.Pos(), "call of a non-identifier")
			}
			return fmt.Sprintf("(CApp %q [%s])", id.Name, strings.Join(as, "; "))
		case *ast.FuncLit:
			return pipeTree(x.Body, env)
		}
		fail(e.Pos(), "expression %T", e)
		return ""
	}
	for _, s := range b.List {
		switch st := s.(type) {
		case *ast.AssignStmt:
			id := st.Lhs[0].(*ast.Ident)
			env[id.Name] = tree(st.Rhs[0])
		case *ast.ReturnStmt:
			return tree(st.Results[0])
		}
	}
	return ""
}

func genPipe(out *strings.Builder, files []*ast.File) {
	out.WriteString("(* GENERATED by tools/go2coq (mode pipe) from internal/pipe/pipe.go. Do not edit. *)\n")
	out.WriteString("From Coq Require Import List String.\nFrom Golem Require Import Base.CallTree.\nImport ListNotations.\nOpen Scope string_scope.\n\n")
	var names []string
	for _, fd := range funcDecls(files) {
		if fd.Recv != nil {
			fail(fd.Pos(), "method %s", fd.Name.Name)
		}
		var tps, ps, pnames []string
		for _, tp := range typeParams(fd) {
			tps = append(tps, "t"+tp)
		}
		for _, p := range params(fd.Type.Params) {
			ps = append(ps, fmt.Sprintf("(v_%s : %s)", p.name, pipeTy(p.typ)))
			pnames = append(pnames, fmt.Sprintf("%q", p.name))
		}
		if fd.Type.Results == nil || len(fd.Type.Results.List) != 1 {
			fail(fd.Pos(), "%s: not exactly one result", fd.Name.Name)
		}
		tp := ""
		if len(tps) > 0 {
			tp = "{" + strings.Join(tps, " ") + " : Type} "
		}
		fmt.Fprintf(out, "Definition %s %s%s : %s :=\n  %s.\n", fd.Name.Name, tp,
			strings.Join(ps, " "), pipeTy(fd.Type.Results.List[0].Type), pipeBody(fd.Body))
		fmt.Fprintf(out, "Definition %s_params : list string := [%s].\n", fd.Name.Name, strings.Join(pnames, "; "))
		fmt.Fprintf(out, "Definition %s_tree : cexp := %s.\n\n", fd.Name.Name, pipeTree(fd.Body, map[string]string{}))
		names = append(names, fmt.Sprintf("%q", fd.Name.Name))
	}
	fmt.Fprintf(out, "Definition functions : list string := [%s].\n", strings.Join(names, "; "))
}
