package main

// Modes hseq, optics, shape: the hand-unrolled families of hseq/hseq.go (New1..9, FMap1..9),
// optics/lens.go + reflector.go (ForProduct1..9, ForSpectrum1..9) and optics/shape.go
// (ForShape2..9, shapeN.Put/Get) as shallow Gallina over coq/theories/Optics/GenPrelude.v.
//
// Supported subset (anything else fails loudly, naming file and position):
//   statements   return e1, .., en | x := e | a, b := f(..) | var x T |
//                if c { x = e1 } else { x = e2 }
//   expressions  identifiers, integer literals, calls (generic instantiation f[T, A], method
//                calls through fields lens.a.Put(x, y), variadic spread xs...), function values
//                f[T, A], composite literals Seq[T]{..} and shapeN[..]{a: a, ..}, index ts[i],
//                slice a[lo:hi], len(x), ==
// Panics are the poison value of the prelude: every call, index and slice is bound in the
// poison monad (`x <- e ;; k`), methods that touch memory in the state+poison monad (`x <~ e ;; k`).
// Type parameters that a body instantiates explicitly (they reach reflection) become explicit
// `ty` arguments named t<Name>; type parameters that only type values become implicit Types
// r<Name>; phantom ones (Seq[T], Type[T]) disappear.

import (
	"fmt"
	"go/ast"
	"go/token"
	"regexp"
	"strings"
)

// callee table: Go name -> prelude name (functions that are not themselves translated)
var preludeNames = map[string]string{
	"hseq.New":     "hseq_New",
	"hseq.ForType": "hseq_ForType",
	"hseq.ForName": "hseq_ForName",
	"New":          "hseq_New",
	"ForType":      "hseq_ForType",
	"ForName":      "hseq_ForName",
	"NewLens":      "NewLens",
	"NewReflector": "NewReflector",
}

// variadic callees of the prelude (trailing arguments are packed into a list)
var preludeVariadic = map[string]bool{"hseq_New": true}

var (
	reNewN      = regexp.MustCompile(`^New[0-9]+$`)
	reFMapN     = regexp.MustCompile(`^FMap[0-9]+$`)
	reProductN  = regexp.MustCompile(`^ForProduct[0-9]+$`)
	reSpectrumN = regexp.MustCompile(`^ForSpectrum[0-9]+$`)
	reForShapeN = regexp.MustCompile(`^ForShape[0-9]+$`)
	reShapeN    = regexp.MustCompile(`^shape[0-9]+$`)
)

func generatedName(n string) bool {
	return reNewN.MatchString(n) || reFMapN.MatchString(n) || reProductN.MatchString(n) ||
		reSpectrumN.MatchString(n) || reForShapeN.MatchString(n)
}

type oGen struct {
	helpers  map[string]*ast.FuncDecl // receiver-less functions of the package that are not members of a family
	emitted  map[string]bool          // helpers already defined in the output
	explicit map[string][]string      // helper -> its reflected type parameters, in declaration order
	out      *strings.Builder
	mode     string
	variadic map[string]bool     // generated functions with a trailing ...T parameter
	structs  map[string][]string // shapeN -> field names in declaration order
}

type oFun struct {
	g        *oGen
	fd       *ast.FuncDecl
	explicit map[string]bool // type parameters -> explicit ty arguments
	implicit map[string]bool // type parameters -> implicit Type arguments
	tparams  map[string]bool // every type parameter in scope (function + receiver)
	vars     map[string]bool // value variables in scope
	declared map[string]bool // `var x T` not yet assigned
	state    bool            // state+poison monad (methods touching memory)
	recv     string          // receiver variable
	recvType string          // receiver struct type (shapeN)
	fresh    int
}

func (f *oFun) bindOp() string {
	if f.state {
		return "<~"
	}
	return "<-"
}

func (f *oFun) ret(a string) string {
	if f.state {
		return "retM " + a
	}
	return "Ok " + a
}

func (f *oFun) newVar() string {
	f.fresh++
	return fmt.Sprintf("x%d", f.fresh)
}

func baseTypeName(e ast.Expr) (string, []ast.Expr) {
	switch t := e.(type) {
	case *ast.Ident:
		return t.Name, nil
	case *ast.SelectorExpr:
		if p, ok := t.X.(*ast.Ident); ok {
			return p.Name + "." + t.Sel.Name, nil
		}
	case *ast.IndexExpr:
		n, _ := baseTypeName(t.X)
		return n, []ast.Expr{t.Index}
	case *ast.IndexListExpr:
		n, _ := baseTypeName(t.X)
		return n, t.Indices
	}
	return "", nil
}

// mapType: the Gallina type of a Go parameter type
func (f *oFun) mapType(e ast.Expr) string {
	switch t := e.(type) {
	case *ast.Ident:
		switch {
		case t.Name == "string":
			return "string"
		case t.Name == "int":
			return "nat"
		case f.implicit[t.Name]:
			return "r" + t.Name
		case f.tparams[t.Name] && f.state:
			return "value" // a value of a focus type: its bytes
		}
		fail(e.Pos(), "parameter type %s", t.Name)
	case *ast.StarExpr:
		if id, ok := t.X.(*ast.Ident); ok && f.tparams[id.Name] {
			return "ptr"
		}
		fail(e.Pos(), "pointer type other than *T for a type parameter T")
	case *ast.IndexExpr, *ast.IndexListExpr, *ast.SelectorExpr:
		n, _ := baseTypeName(e)
		switch n {
		case "Seq", "hseq.Seq":
			return "(list entry)"
		case "Type", "hseq.Type":
			return "entry"
		case "Lens":
			return "optic"
		case "Reflector":
			return "lens"
		}
		fail(e.Pos(), "parameter type %s", n)
	case *ast.FuncType:
		var ps []string
		for _, p := range params(t.Params) {
			ps = append(ps, f.mapType(p.typ))
		}
		if t.Results == nil || len(t.Results.List) == 0 {
			fail(e.Pos(), "function type without result")
		}
		var rs []string
		for _, r := range params(t.Results) {
			rs = append(rs, f.mapType(r.typ))
		}
		return "(" + strings.Join(append(ps, "res ("+strings.Join(rs, " * ")+")"), " -> ") + ")"
	case *ast.Ellipsis:
		return "(list " + f.mapType(t.Elt) + ")"
	case *ast.ArrayType:
		if t.Len == nil {
			return "(list " + f.mapType(t.Elt) + ")"
		}
	}
	fail(e.Pos(), "parameter type %T", e)
	return ""
}

// classify the type parameters of a function declaration
func (f *oFun) classify() {
	fd := f.fd
	f.explicit, f.implicit, f.tparams = map[string]bool{}, map[string]bool{}, map[string]bool{}
	for _, tp := range typeParams(fd) {
		f.tparams[tp] = true
	}
	if fd.Recv != nil {
		_, args := baseTypeName(fd.Recv.List[0].Type)
		for _, a := range args {
			if id, ok := a.(*ast.Ident); ok {
				f.tparams[id.Name] = true
			}
		}
	}
	// explicit: used as a type argument of an instantiation f[..] in the body (not of a composite literal type)
	var lits = map[ast.Expr]bool{}
	ast.Inspect(fd.Body, func(n ast.Node) bool {
		if cl, ok := n.(*ast.CompositeLit); ok {
			lits[cl.Type] = true
		}
		return true
	})
	ast.Inspect(fd.Body, func(n ast.Node) bool {
		var args []ast.Expr
		switch x := n.(type) {
		case *ast.IndexExpr:
			if lits[x] {
				return true
			}
			if id, ok := x.X.(*ast.Ident); ok && f.isValueName(id.Name) {
				return true // indexing a variable
			}
			args = []ast.Expr{x.Index}
		case *ast.IndexListExpr:
			if lits[x] {
				return true
			}
			args = x.Indices
		}
		for _, a := range args {
			if id, ok := a.(*ast.Ident); ok && f.tparams[id.Name] {
				f.explicit[id.Name] = true
			}
		}
		return true
	})
	// implicit: not explicit and used as a plain value type in the signature
	var scan func(e ast.Expr)
	scan = func(e ast.Expr) {
		switch t := e.(type) {
		case *ast.Ident:
			if f.tparams[t.Name] && !f.explicit[t.Name] && !f.state {
				f.implicit[t.Name] = true
			}
		case *ast.FuncType:
			for _, p := range params(t.Params) {
				scan(p.typ)
			}
			for _, p := range params(t.Results) {
				scan(p.typ)
			}
		case *ast.Ellipsis:
			scan(t.Elt)
		}
	}
	for _, p := range params(fd.Type.Params) {
		scan(p.typ)
	}
	for _, p := range params(fd.Type.Results) {
		scan(p.typ)
	}
}

func (f *oFun) isValueName(n string) bool { return f.vars[n] || f.declared[n] }

func (f *oFun) tyArg(e ast.Expr) string {
	id, ok := e.(*ast.Ident)
	if !ok || !f.explicit[id.Name] {
		fail(e.Pos(), "type argument that is not a reflected type parameter of the enclosing function")
	}
	return "t" + id.Name
}

// callee: resolved Gallina head of a call or function value, with its explicit ty arguments
func (f *oFun) callee(e ast.Expr) (head string, variadic bool) {
	var tyargs []string
	switch x := e.(type) {
	case *ast.IndexExpr:
		tyargs = []string{f.tyArg(x.Index)}
		e = x.X
	case *ast.IndexListExpr:
		for _, a := range x.Indices {
			tyargs = append(tyargs, f.tyArg(a))
		}
		e = x.X
	}
	name := ""
	switch x := e.(type) {
	case *ast.Ident:
		if f.isValueName(x.Name) {
			if len(tyargs) > 0 {
				fail(e.Pos(), "instantiation of a variable")
			}
			return "v_" + x.Name, false
		}
		name = x.Name
	case *ast.SelectorExpr:
		if p, ok := x.X.(*ast.Ident); ok && !f.isValueName(p.Name) {
			if p.Name != "hseq" {
				fail(e.Pos(), "call into package %s", p.Name)
			}
			name = "hseq." + x.Sel.Name
		} else {
			// method through a field of the receiver: lens.a.Put
			fx, ok := x.X.(*ast.SelectorExpr)
			if !ok {
				fail(e.Pos(), "method call that does not go through a field of the receiver")
			}
			rid, ok := fx.X.(*ast.Ident)
			if !ok || rid.Name != f.recv {
				fail(e.Pos(), "method call on something else than a field of the receiver")
			}
			if !f.state {
				fail(e.Pos(), "method call outside a method")
			}
			if x.Sel.Name != "Put" && x.Sel.Name != "Get" {
				fail(e.Pos(), "method %s of a lens", x.Sel.Name)
			}
			return fmt.Sprintf("lens_%s (%s_%s v_%s)", x.Sel.Name, f.recvType, fx.Sel.Name, rid.Name), false
		}
	default:
		fail(e.Pos(), "callee %T", e)
	}
	short := strings.TrimPrefix(name, "hseq.")
	if hd, ok := f.g.helpers[name]; ok && !generatedName(short) && preludeNames[name] == "" {
		// a private helper of the package: defined (once) in front of its first caller; the type parameters it
		// reflects on are those of the caller that bear the same name (the call leaves them to inference)
		if !f.g.emitted[name] {
			f.g.emitted[name] = true
			f.g.function(f.g.out, hd)
		}
		if len(tyargs) == 0 {
			for _, tp := range f.g.explicit[name] {
				if !f.explicit[tp] {
					fail(e.Pos(), "helper %s reflects on type parameter %s, which the caller does not", name, tp)
				}
				tyargs = append(tyargs, "t"+tp)
			}
		}
		head = name
		if len(tyargs) > 0 {
			head += " " + strings.Join(tyargs, " ")
		}
		return head, f.g.variadic[name]
	}
	if generatedName(short) {
		head = short
		variadic = f.g.variadic[short] || reProductN.MatchString(short) || reSpectrumN.MatchString(short) || reForShapeN.MatchString(short)
	} else {
		p, ok := preludeNames[name]
		if !ok {
			fail(e.Pos(), "call of %s: not a translated family and not in the prelude table", name)
		}
		head = p
		variadic = preludeVariadic[p]
	}
	if len(tyargs) > 0 {
		head += " " + strings.Join(tyargs, " ")
	}
	return head, variadic
}

// expr returns a pure atom; effects (calls, index, slice) are bound first, appended to *binds
func (f *oFun) expr(e ast.Expr, binds *[]string) string {
	switch x := e.(type) {
	case *ast.ParenExpr:
		return f.expr(x.X, binds)
	case *ast.Ident:
		if f.declared[x.Name] {
			fail(e.Pos(), "variable %s used before assignment", x.Name)
		}
		if !f.vars[x.Name] {
			fail(e.Pos(), "identifier %s is not a variable in scope", x.Name)
		}
		return "v_" + x.Name
	case *ast.BasicLit:
		if x.Kind != token.INT {
			fail(e.Pos(), "literal %s", x.Value)
		}
		return x.Value
	case *ast.BinaryExpr:
		a, b := f.expr(x.X, binds), f.expr(x.Y, binds)
		switch x.Op {
		case token.EQL:
			return fmt.Sprintf("(Nat.eqb %s %s)", a, b)
		case token.NEQ:
			return fmt.Sprintf("(negb (Nat.eqb %s %s))", a, b)
		case token.LSS:
			return fmt.Sprintf("(Nat.ltb %s %s)", a, b)
		case token.GTR:
			return fmt.Sprintf("(Nat.ltb %s %s)", b, a)
		}
		fail(e.Pos(), "operator %s", x.Op)
	case *ast.IndexExpr:
		if id, ok := x.X.(*ast.Ident); ok && f.isValueName(id.Name) {
			v := f.newVar()
			*binds = append(*binds, fmt.Sprintf("%s %s idx %s %s", v, "<-", f.expr(x.X, binds), f.expr(x.Index, binds)))
			return v
		}
		h, _ := f.callee(e)
		return "(" + h + ")"
	case *ast.IndexListExpr:
		h, _ := f.callee(e)
		return "(" + h + ")"
	case *ast.SliceExpr:
		if x.High == nil {
			fail(e.Pos(), "slice expression without an upper bound")
		}
		if x.Slice3 {
			// a[lo:hi:len(a)] - bounded by the length: exactly the prelude's [slice] (poison when hi > length)
			call, ok := x.Max.(*ast.CallExpr)
			okLen := false
			if ok && len(call.Args) == 1 {
				fn, isId := call.Fun.(*ast.Ident)
				arg, isArg := call.Args[0].(*ast.Ident)
				base, isBase := x.X.(*ast.Ident)
				okLen = isId && fn.Name == "len" && isArg && isBase && arg.Name == base.Name
			}
			if !okLen {
				fail(e.Pos(), "three-index slice whose capacity bound is not len of the sliced variable")
			}
		}
		lo := "0"
		if x.Low != nil {
			lo = f.expr(x.Low, binds)
		}
		hi := f.expr(x.High, binds)
		v := f.newVar()
		*binds = append(*binds, fmt.Sprintf("%s <- slice %s %s %s", v, f.expr(x.X, binds), lo, hi))
		return v
	case *ast.CompositeLit:
		n, _ := baseTypeName(x.Type)
		switch {
		case n == "Seq" || n == "hseq.Seq":
			var as []string
			for _, el := range x.Elts {
				if _, ok := el.(*ast.KeyValueExpr); ok {
					fail(el.Pos(), "keyed element in a sequence literal")
				}
				as = append(as, f.expr(el, binds))
			}
			return "[" + strings.Join(as, "; ") + "]"
		case f.g.structs[n] != nil:
			fields := f.g.structs[n]
			vals := map[string]string{}
			for _, el := range x.Elts {
				kv, ok := el.(*ast.KeyValueExpr)
				if !ok {
					fail(el.Pos(), "positional element in a struct literal")
				}
				k, ok := kv.Key.(*ast.Ident)
				if !ok {
					fail(el.Pos(), "struct literal key")
				}
				if _, dup := vals[k.Name]; dup {
					fail(el.Pos(), "duplicate key %s", k.Name)
				}
				vals[k.Name] = f.expr(kv.Value, binds)
			}
			var as []string
			for _, fn := range fields {
				v, ok := vals[fn]
				if !ok {
					fail(e.Pos(), "struct literal leaves field %s of %s unset", fn, n)
				}
				as = append(as, fmt.Sprintf("%s_%s := %s", n, fn, v))
				delete(vals, fn)
			}
			if len(vals) > 0 {
				fail(e.Pos(), "struct literal names unknown fields of %s", n)
			}
			return "{| " + strings.Join(as, "; ") + " |}"
		}
		fail(e.Pos(), "composite literal of type %s", n)
	case *ast.CallExpr:
		if id, ok := x.Fun.(*ast.Ident); ok && id.Name == "len" && !f.isValueName("len") {
			if len(x.Args) != 1 {
				fail(e.Pos(), "len with %d arguments", len(x.Args))
			}
			return "(List.length " + f.expr(x.Args[0], binds) + ")"
		}
		head, variadic := f.callee(x.Fun)
		var as []string
		for _, a := range x.Args {
			as = append(as, f.expr(a, binds))
		}
		if x.Ellipsis.IsValid() {
			if !variadic {
				fail(e.Pos(), "spread into a function that is not variadic")
			}
		} else if variadic {
			// the prelude's variadic functions take exactly the variadic list after their ty arguments;
			// generated ones (ForProductN ..) have only the variadic parameter
			as = []string{"[" + strings.Join(as, "; ") + "]"}
		}
		v := f.newVar()
		*binds = append(*binds, fmt.Sprintf("%s %s %s %s", v, f.bindOp(), head, strings.Join(as, " ")))
		return v
	}
	fail(e.Pos(), "expression %T", e)
	return ""
}

func tuple(as []string) string {
	if len(as) == 1 {
		return as[0]
	}
	return "(" + strings.Join(as, ", ") + ")"
}

// block translates statements ending in a value: either `return ..` (final=nil) or the single
// assignment `<final> = e` of an if/else branch
func (f *oFun) block(stmts []ast.Stmt, final *string, indent string) string {
	var lines []string
	emit := func(binds []string) {
		for _, b := range binds {
			lines = append(lines, indent+b+" ;;")
		}
	}
	for i, s := range stmts {
		last := i == len(stmts)-1
		switch st := s.(type) {
		case *ast.ReturnStmt:
			if final != nil || !last || len(st.Results) == 0 {
				fail(s.Pos(), "return that is not the final statement of the function body")
			}
			var binds, as []string
			for _, r := range st.Results {
				as = append(as, f.expr(r, &binds))
			}
			emit(binds)
			lines = append(lines, indent+f.ret(tuple(as)))
			return strings.Join(lines, "\n")
		case *ast.AssignStmt:
			if len(st.Rhs) != 1 {
				fail(s.Pos(), "assignment with several right-hand sides")
			}
			var names []string
			for _, l := range st.Lhs {
				id, ok := l.(*ast.Ident)
				if !ok {
					fail(s.Pos(), "assignment to a non-identifier")
				}
				names = append(names, id.Name)
			}
			var binds []string
			if st.Tok == token.ASSIGN {
				if final == nil && len(names) == 1 && f.vars[names[0]] && names[0] != f.recv {
					// straight-line re-assignment of a parameter or local at the top level of the function body
					// (no join point follows inside a branch): a shadowing let
					a := f.expr(st.Rhs[0], &binds)
					emit(binds)
					lines = append(lines, fmt.Sprintf("%slet v_%s := %s in", indent, names[0], a))
					continue
				}
				if final == nil || !last || len(names) != 1 || names[0] != *final {
					fail(s.Pos(), "assignment `=` other than the single assignment of an if/else branch to the declared variable, or a top-level re-assignment of a parameter or local")
				}
				a := f.expr(st.Rhs[0], &binds)
				emit(binds)
				lines = append(lines, indent+f.ret(a))
				return strings.Join(lines, "\n")
			}
			if st.Tok != token.DEFINE {
				fail(s.Pos(), "assignment operator %s", st.Tok)
			}
			a := f.expr(st.Rhs[0], &binds)
			emit(binds)
			if len(names) == 1 {
				lines = append(lines, fmt.Sprintf("%slet v_%s := %s in", indent, names[0], a))
			} else {
				if _, ok := st.Rhs[0].(*ast.CallExpr); !ok {
					fail(s.Pos(), "tuple assignment from something else than a call")
				}
				var vs []string
				for _, n := range names {
					vs = append(vs, "v_"+n)
				}
				lines = append(lines, fmt.Sprintf("%slet '(%s) := %s in", indent, strings.Join(vs, ", "), a))
			}
			for _, n := range names {
				f.vars[n] = true
			}
		case *ast.DeclStmt:
			gd, ok := st.Decl.(*ast.GenDecl)
			if !ok || gd.Tok != token.VAR || len(gd.Specs) != 1 {
				fail(s.Pos(), "declaration other than `var x T`")
			}
			vs := gd.Specs[0].(*ast.ValueSpec)
			if len(vs.Names) != 1 || len(vs.Values) != 0 {
				fail(s.Pos(), "declaration other than `var x T`")
			}
			f.declared[vs.Names[0].Name] = true
		case *ast.IfStmt:
			if st.Init == nil && st.Else == nil && final == nil && !last && endsInReturn(st.Body) {
				// `if c { ..; return x }; rest` is `if c then .. x else rest`
				var cb []string
				c := f.expr(st.Cond, &cb)
				if len(cb) > 0 {
					fail(s.Pos(), "condition with calls")
				}
				saved := map[string]bool{}
				for k, v := range f.vars {
					saved[k] = v
				}
				b1 := f.block(st.Body.List, nil, indent+"    ")
				f.vars = saved
				b2 := f.block(stmts[i+1:], nil, indent+"    ")
				lines = append(lines, fmt.Sprintf("%sif %s then\n%s\n%s  else\n%s", indent, c, b1, indent, b2))
				return strings.Join(lines, "\n")
			}
			if st.Init != nil || st.Else == nil {
				fail(s.Pos(), "if statement with an init clause or without else")
			}
			eb, ok := st.Else.(*ast.BlockStmt)
			if !ok {
				fail(s.Pos(), "else-if chain")
			}
			target := assignedVar(st.Body)
			if target == "" || target != assignedVar(eb) || !f.declared[target] {
				fail(s.Pos(), "if/else whose branches do not both end in an assignment to the same declared variable")
			}
			var cb []string
			c := f.expr(st.Cond, &cb)
			if len(cb) > 0 {
				fail(s.Pos(), "condition with calls")
			}
			b1 := f.block(st.Body.List, &target, indent+"    ")
			b2 := f.block(eb.List, &target, indent+"    ")
			lines = append(lines, fmt.Sprintf("%sv_%s %s (if %s then\n%s\n%s  else\n%s) ;;", indent, target, f.bindOp(), c, b1, indent, b2))
			delete(f.declared, target)
			f.vars[target] = true
		default:
			fail(s.Pos(), "statement %T", s)
		}
	}
	fail(f.fd.Pos(), "%s: block without a final value", f.fd.Name.Name)
	return ""
}

func endsInReturn(b *ast.BlockStmt) bool {
	if len(b.List) == 0 {
		return false
	}
	_, ok := b.List[len(b.List)-1].(*ast.ReturnStmt)
	return ok
}

func assignedVar(b *ast.BlockStmt) string {
	if len(b.List) == 0 {
		return ""
	}
	as, ok := b.List[len(b.List)-1].(*ast.AssignStmt)
	if !ok || as.Tok != token.ASSIGN || len(as.Lhs) != 1 {
		return ""
	}
	if id, ok := as.Lhs[0].(*ast.Ident); ok {
		return id.Name
	}
	return ""
}

func (g *oGen) function(out *strings.Builder, fd *ast.FuncDecl) string {
	f := &oFun{g: g, fd: fd, vars: map[string]bool{}, declared: map[string]bool{}}
	name := fd.Name.Name
	var ps []string
	if fd.Recv != nil {
		r := fd.Recv.List[0]
		if len(r.Names) != 1 {
			fail(fd.Pos(), "method %s without a named receiver", name)
		}
		f.state = true
		f.recv = r.Names[0].Name
		f.recvType, _ = baseTypeName(r.Type)
		name = f.recvType + "_" + name
		f.vars[f.recv] = true
		ps = append(ps, fmt.Sprintf("(v_%s : %s)", f.recv, f.recvType))
	}
	for _, p := range params(fd.Type.Params) {
		f.vars[p.name] = true
	}
	f.classify()
	var hdr []string
	var imp, exp []string
	for _, tp := range typeParams(fd) {
		if f.implicit[tp] {
			imp = append(imp, "r"+tp)
		}
		if f.explicit[tp] {
			exp = append(exp, "t"+tp)
		}
	}
	if len(imp) > 0 {
		hdr = append(hdr, "{"+strings.Join(imp, " ")+" : Type}")
	}
	if len(exp) > 0 {
		hdr = append(hdr, "("+strings.Join(exp, " ")+" : ty)")
	}
	for _, p := range params(fd.Type.Params) {
		if p.name == "_" {
			fail(fd.Pos(), "%s: unnamed parameter", name)
		}
		ps = append(ps, fmt.Sprintf("(v_%s : %s)", p.name, f.mapType(p.typ)))
	}
	hdr = append(hdr, ps...)
	if fd.Type.Results == nil || len(fd.Type.Results.List) == 0 {
		fail(fd.Pos(), "%s: no result", name)
	}
	g.explicit[name] = exp2names(exp)
	body := f.block(fd.Body.List, nil, "  ")
	fmt.Fprintf(out, "Definition %s %s :=\n%s.\n", name, strings.Join(hdr, " "), body)
	if g.helpers[name] != nil && fd.Recv == nil {
		fmt.Fprintf(out, "#[export] Hint Unfold %s : golem_helpers.\n", name)
	}
	out.WriteString("\n")
	return name
}

func exp2names(exp []string) []string {
	var ns []string
	for _, e := range exp {
		ns = append(ns, strings.TrimPrefix(e, "t"))
	}
	return ns
}

func (g *oGen) record(out *strings.Builder, ts *ast.TypeSpec) {
	st, ok := ts.Type.(*ast.StructType)
	if !ok {
		fail(ts.Pos(), "type %s is not a struct", ts.Name.Name)
	}
	tparams := map[string]bool{}
	if ts.TypeParams != nil {
		for _, p := range params(ts.TypeParams) {
			tparams[p.name] = true
		}
	}
	var names, decls []string
	for _, p := range params(st.Fields) {
		if p.name == "_" {
			fail(ts.Pos(), "embedded field in %s", ts.Name.Name)
		}
		n, _ := baseTypeName(p.typ)
		if n != "Lens" {
			fail(p.typ.Pos(), "field %s of %s is not a Lens", p.name, ts.Name.Name)
		}
		names = append(names, p.name)
		decls = append(decls, fmt.Sprintf("%s_%s : optic", ts.Name.Name, p.name))
	}
	g.structs[ts.Name.Name] = names
	fmt.Fprintf(out, "Record %s := mk_%s { %s }.\n\n", ts.Name.Name, ts.Name.Name, strings.Join(decls, "; "))
}

func genFamily(out *strings.Builder, files []*ast.File, mode, header string, keepFunc func(fd *ast.FuncDecl) bool, keepType func(string) bool) {
	g := &oGen{mode: mode, variadic: map[string]bool{}, structs: map[string][]string{}, helpers: map[string]*ast.FuncDecl{},
		emitted: map[string]bool{}, explicit: map[string][]string{}, out: out}
	out.WriteString(header)
	for _, f := range files {
		for _, d := range f.Decls {
			gd, ok := d.(*ast.GenDecl)
			if !ok || gd.Tok != token.TYPE {
				continue
			}
			for _, s := range gd.Specs {
				ts := s.(*ast.TypeSpec)
				if keepType != nil && keepType(ts.Name.Name) {
					g.record(out, ts)
				}
			}
		}
	}
	var fds []*ast.FuncDecl
	for _, fd := range funcDecls(files) {
		if !keepFunc(fd) && fd.Recv == nil && fd.Body != nil && !ast.IsExported(fd.Name.Name) {
			g.helpers[fd.Name.Name] = fd
			if ps := params(fd.Type.Params); len(ps) > 0 {
				if _, ok := ps[len(ps)-1].typ.(*ast.Ellipsis); ok {
					g.variadic[fd.Name.Name] = true
				}
			}
		}
		if keepFunc(fd) {
			fds = append(fds, fd)
			ps := params(fd.Type.Params)
			if len(ps) > 0 {
				if _, ok := ps[len(ps)-1].typ.(*ast.Ellipsis); ok {
					g.variadic[fd.Name.Name] = true
				}
			}
		}
	}
	if len(fds) == 0 {
		panic(unsupported{"mode " + mode + ": none of the expected functions found in the given sources"})
	}
	var names []string
	for _, fd := range fds {
		names = append(names, fmt.Sprintf("%q", g.function(out, fd)))
	}
	fmt.Fprintf(out, "Definition functions : list string := [%s]%%string.\n", strings.Join(names, "; "))
}

// private helpers of the package are hints of golem_helpers: the per-arity proofs unfold them, whatever their names are
const genHeader = "From Coq Require Import List String Bool Arith.\nFrom Golem Require Import Optics.GenPrelude.\n%sImport ListNotations.\nOpen Scope res_scope.\nCreate HintDb golem_helpers.\n\n"

func genHseq(out *strings.Builder, files []*ast.File) {
	genFamily(out, files, "hseq",
		"(* GENERATED by tools/go2coq (mode hseq) from hseq/hseq.go. Do not edit. *)\n"+fmt.Sprintf(genHeader, ""),
		func(fd *ast.FuncDecl) bool {
			return fd.Recv == nil && (reNewN.MatchString(fd.Name.Name) || reFMapN.MatchString(fd.Name.Name))
		}, nil)
}

func genOptics(out *strings.Builder, files []*ast.File) {
	genFamily(out, files, "optics",
		"(* GENERATED by tools/go2coq (mode optics) from optics/lens.go, optics/reflector.go. Do not edit. *)\n"+
			fmt.Sprintf(genHeader, "From GolemGen Require Import GenHseq.\n"),
		func(fd *ast.FuncDecl) bool {
			return fd.Recv == nil && (reProductN.MatchString(fd.Name.Name) || reSpectrumN.MatchString(fd.Name.Name))
		}, nil)
}

func genShape(out *strings.Builder, files []*ast.File) {
	genFamily(out, files, "shape",
		"(* GENERATED by tools/go2coq (mode shape) from optics/shape.go. Do not edit. *)\n"+
			fmt.Sprintf(genHeader, "From GolemGen Require Import GenHseq GenOptics.\n"),
		func(fd *ast.FuncDecl) bool {
			if fd.Recv == nil {
				return reForShapeN.MatchString(fd.Name.Name)
			}
			n, _ := baseTypeName(fd.Recv.List[0].Type)
			return reShapeN.MatchString(n)
		}, func(n string) bool { return reShapeN.MatchString(n) })
}
