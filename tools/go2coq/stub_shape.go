package main

import (
	"go/ast"
	"strings"
)

// placeholder until mode shape is built: delete this file when genShape is implemented
func genShape(out *strings.Builder, files []*ast.File) { panic(unsupported{"mode shape not built yet"}) }
