package main

import (
	"go/ast"
	"strings"
)

// placeholder until mode optics is built: delete this file when genOptics is implemented
func genOptics(out *strings.Builder, files []*ast.File) { panic(unsupported{"mode optics not built yet"}) }
