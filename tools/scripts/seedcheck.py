#!/usr/bin/env python3
"""seedcheck.py <seed dir> [...]: confirms a seeded change (existing tests pass with it, its demonstration fails with
it and passes without it), runs the property's quick check against the mutated copy and stores everything under
/verif/seeded/<id>-<x>/.  Never touches /repo."""
import json, os, shutil, subprocess, sys, time
ROOT = os.path.dirname(os.path.dirname(os.path.dirname(os.path.abspath(__file__))))

ENV = dict(os.environ, GOFLAGS="-mod=mod", GOPROXY="off", GOSUMDB="off", GOTOOLCHAIN="local")
GO = "go1.26.8"


def sh(cmd, cwd, timeout=900):
    try:
        p = subprocess.run(cmd, cwd=cwd, env=ENV, capture_output=True, text=True, timeout=timeout, shell=isinstance(cmd, str))
        return p.returncode, (p.stdout + p.stderr)
    except subprocess.TimeoutExpired:
        return 124, "timeout"


def module_of(path):
    return path.split("/")[0]


def one(seed):
    meta = json.load(open(os.path.join(seed, "meta.json")))
    pid = meta["property"]
    inplace = os.path.realpath(seed).startswith(os.path.join(os.path.realpath(ROOT), "seeded") + "/")   # regression run over the stored seeds
    tag = os.path.basename(seed.rstrip("/")) if inplace else "%s-%s" % (pid, os.path.basename(seed.rstrip("/")))
    d = "/tmp/seedrun-%s-%d" % (tag, os.getpid())
    shutil.rmtree(d, ignore_errors=True)
    shutil.copytree("/repo", d, ignore=shutil.ignore_patterns(".git"))
    res = {"seed": tag}
    try:
        demo = meta["demo_path"]
        demos = [demo] if isinstance(demo, str) else list(demo)
        mod = module_of(demos[0])
        moddir = os.path.join(d, mod)
        internal = mod == "internal"
        stage = "/tmp/seedstage-%s-%d" % (tag, os.getpid())

        def restage():
            """internal/* is outside every module: build it from a staging module"""
            shutil.rmtree(stage, ignore_errors=True)
            os.makedirs(stage)
            open(os.path.join(stage, "go.mod"), "w").write(
                "module github.com/fogfish/golem\n\ngo 1.24\n\nrequire github.com/fogfish/golem/pure v0.0.0\n\n"
                "replace github.com/fogfish/golem/pure => %s/pure\n" % d)
            shutil.copy(os.path.join(d, "pure/go.sum"), stage)
            shutil.copytree(os.path.join(d, "internal/maplike"), os.path.join(stage, "maplike"))
            shutil.copytree(os.path.join(d, "internal/seq"), os.path.join(stage, "seq"))
            os.makedirs(os.path.join(stage, "ipipe"))
            for n in os.listdir(os.path.join(d, "internal/pipe")):
                src = open(os.path.join(d, "internal/pipe", n)).read()
                # the stock test imports the package under a path that exists in no module
                src = src.replace('"github.com/fogfish/golem/pure"', '"github.com/fogfish/golem/ipipe"')
                open(os.path.join(stage, "ipipe", n), "w").write(src)

        def staged_pkg(dm):
            rel = os.path.dirname(dm)[len("internal/"):]
            return "./" + ("ipipe" if rel.startswith("pipe") else rel)
        # demonstration on the unchanged library
        for dm in demos:
            shutil.copy(os.path.join(seed, os.path.basename(dm)), os.path.join(d, dm))
        pkg = "./" + os.path.dirname(os.path.relpath(os.path.join(d, demos[0]), moddir))
        if internal:
            restage()
            pkg, moddir = staged_pkg(demos[0]), stage
        rc0, out0 = sh([GO, "test", "-vet=off", "-count=1", pkg], moddir)
        res["demo_without_change"] = "pass" if rc0 == 0 else "FAIL"
        # apply the change
        rc, out = sh("patch -p1 --no-backup-if-mismatch < %s" % os.path.join(seed, "patch.diff"), d)
        if rc != 0:
            res["error"] = "patch does not apply: " + out[-300:]
            return res
        if internal:
            restage()
        rc1, out1 = sh([GO, "test", "-vet=off", "-count=1", pkg], moddir)
        res["demo_with_change"] = "fail" if rc1 != 0 else "PASS"
        # existing tests with the change (demo removed)
        for dm in demos:
            os.remove(os.path.join(d, dm))
        if internal:
            restage()
        rc2, out2 = sh([GO, "test", "-vet=off", "-count=1", "./..."], moddir)
        res["existing_tests_with_change"] = "pass" if rc2 == 0 else "FAIL: " + out2[-300:]
        # our check against the mutated copy
        t0 = time.time()
        env = dict(os.environ, VERIF_REPO=d)
        p = subprocess.run([os.path.join(ROOT, "check"), pid, "--tier", os.environ.get("SEED_TIER", "quick")], env=env, capture_output=True, text=True)
        lines = [l for l in (p.stdout + p.stderr).split("\n") if l.strip()]
        res["check_exit"] = p.returncode
        res["check_output"] = lines[-4:]
        res["check_wall_s"] = round(time.time() - t0, 1)
        res["caught"] = p.returncode == 1 and any("VIOLATION property=" + pid in l for l in lines)
        # keep it
        dst = os.path.join(ROOT, "seeded", tag)
        if not inplace:
            shutil.rmtree(dst, ignore_errors=True)
            os.makedirs(dst)
            for n in os.listdir(seed):
                shutil.copy(os.path.join(seed, n), dst)
        meta["confirmed_by_main"] = {k: res[k] for k in ("demo_without_change", "demo_with_change", "existing_tests_with_change")}
        meta["check_result"] = {k: res[k] for k in ("check_exit", "check_output", "check_wall_s", "caught")}
        json.dump(meta, open(os.path.join(dst, "meta.json"), "w"), indent=1)
        return res
    finally:
        shutil.rmtree(d, ignore_errors=True)
        shutil.rmtree("/tmp/seedstage-%s-%d" % (tag, os.getpid()), ignore_errors=True)


for s in sys.argv[1:]:
    r = one(s)
    print(json.dumps(r))
    sys.stdout.flush()
