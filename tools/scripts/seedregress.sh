#!/bin/bash
# seedregress.sh [regex]: re-runs the stored seeds (all, or those whose directory name matches the regex) against this tree
# and prints one line per seed: "<seed> caught <bool> [nofail] <last line of the check>"
cd "$(dirname "$0")/../.."
./check --setup >/dev/null 2>&1
python3 tools/scripts/seedcheck.py $(ls -d $PWD/seeded/C*/ | grep -E "${1:-.}" | sort) | python3 -c "
import sys, json
for l in sys.stdin:
    try:
        d = json.loads(l)
    except Exception:
        print(l.strip()[:200]); continue
    out = d.get('check_output') or ['']
    print(d.get('seed'), 'caught', d.get('caught'), 'nofail' if any('no-failing-input-found' in x for x in out) else '', out[-1][:110], d.get('error', ''))
    sys.stdout.flush()
"
