"""Per-property claims recorded in MANIFEST.json (edit here, then run mkmanifest.py)."""
HOOK_COMMITS = []
NOTES = ("Every check: go2coq regenerates coq/gen from /repo, make rebuilds the .vo files it needs, the Go harness is rebuilt "
         "from /repo's working tree, cases are evaluated inside Coq (model vs implementation, oracle vs implementation). "
         "See DESIGN.md.")
NOT_YET = {}
CLAIMS = {
 "C20": {
  "text": "Per-arity theorems (N=2..20) proved by the Coq kernel about definitions regenerated from internal/pipe/pipe.go on every run: PipeN f1..fN a = fN(..(f1 a)) for all types, functions and arguments, and the body's call tree calls each parameter exactly once in supply order. The generated definitions are additionally run against the real code on non-commuting function families.",
  "design_ref": "DESIGN.md 3/C20",
  "note": "Trusted: Coq kernel + vm_compute, tools/go2coq (AST -> Gallina), Go's evaluation order for nested calls as modelled by CallTree.calls; user functions total and pure.",
  "technique": "Coq proof over translator-regenerated definitions + differential run of model vs code",
 },
}
