"""Per-property claims recorded in MANIFEST.json (edit here, then run mkmanifest.py)."""
HOOK_COMMITS = []
NOTES = ("Every check: go2coq regenerates coq/gen from /repo, make rebuilds the .vo files it needs, the Go harness is rebuilt "
         "from /repo's working tree, cases are evaluated inside Coq (model vs implementation, oracle vs implementation). "
         "See DESIGN.md.")
NOT_YET = {}
# per-property claims live in tools/runner/props/cXX.py as CLAIM = {text, design_ref, note, technique}
