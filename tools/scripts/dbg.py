#!/usr/bin/env python3
"""developer helper: take the first N-1 lines of a coq file, append the given tactic text + Show + Abort, run coqc.
   tools/scripts/dbg.py theories/Optics/X.v <line> '<tactics>' [tail]"""
import os
import subprocess
import sys

ROOT = os.path.dirname(os.path.dirname(os.path.dirname(os.path.abspath(__file__))))
f, n, tac = sys.argv[1], int(sys.argv[2]), sys.argv[3]
tail = int(sys.argv[4]) if len(sys.argv) > 4 else 30
L = open(os.path.join(ROOT, "coq", f)).read().split("\n")
os.makedirs(os.path.join(ROOT, "work"), exist_ok=True)
p = os.path.join(ROOT, "work", "dbg.v")
open(p, "w").write("\n".join(L[:n - 1]) + "\n" + tac + "\nShow.\nAbort.\n")
r = subprocess.run(["coqc", "-Q", "theories", "Golem", "-Q", "gen", "GolemGen", p], cwd=os.path.join(ROOT, "coq"),
                   capture_output=True, text=True, timeout=600)
out = (r.stdout + r.stderr).split("\n")
print("\n".join(out[-tail:]))
