#!/usr/bin/env python3
"""Writes coq/theories/Check/Derive.v (per-arity dispatch over the generated ForProductN / ForSpectrumN /
ForShapeN is boilerplate).  Run once; the output is committed."""
import os
ROOT = os.path.dirname(os.path.dirname(os.path.dirname(os.path.abspath(__file__))))
L = "abcdefghi"
o = []
o.append('''(* Shared by the checkers of C01 and C02: the model of a derivation request -- the generated
   ForProductN / ForSpectrumN / ForShapeN over Optics/ -- run on the reflected descriptor and the arena,
   compared with the observation. No proofs here.  (Written by tools/scripts/gen_derive_v.py.) *)
From Coq Require Import List String ZArith NArith Bool Arith.
From Golem Require Export Check.DeriveObs.
From Golem Require Import Optics.GenPrelude.
From GolemGen Require Import GenHseq GenOptics GenShape.
Import ListNotations.
Open Scope res_scope.
''')
o.append("Definition run_product (T : ty) (ts : list ty) (attr : list string) : res (list optic) :=\n  match ts with")
for n in range(1, 10):
    vs = [L[i] for i in range(n)]
    xs = ["x" + L[i] for i in range(n)]
    pat = xs[0] if n == 1 else "'(%s)" % ", ".join(xs)
    o.append("  | [%s] => %s <- ForProduct%d T %s attr ;; Ok [%s]" % ("; ".join(vs), pat, n, " ".join(vs), "; ".join(xs)))
o.append("  | _ => Panic\n  end.\n")
o.append("Definition run_spectrum (T : ty) (ts : list ty) (attr : list string) : res (list lens) :=\n  match ts with")
for n in range(1, 10):
    vs = [L[i] for i in range(n)]
    xs = ["x" + L[i] for i in range(n)]
    pat = xs[0] if n == 1 else "'(%s)" % ", ".join(xs)
    o.append("  | [%s] => %s <- ForSpectrum%d T %s attr ;; Ok [%s]" % ("; ".join(vs), pat, n, " ".join(vs), "; ".join(xs)))
o.append("  | _ => Panic\n  end.\n")
o.append("Inductive anyshape :=")
for n in range(2, 10):
    o.append("| Sh%d (s : shape%d)" % (n, n))
o[-1] += "."
o.append("\nDefinition run_shape (T : ty) (ts : list ty) (attr : list string) : res anyshape :=\n  match ts with")
for n in range(2, 10):
    vs = [L[i] for i in range(n)]
    o.append("  | [%s] => rmap Sh%d (ForShape%d T %s attr)" % ("; ".join(vs), n, n, " ".join(vs)))
o.append("  | _ => Panic\n  end.\n")
o.append("Definition shape_components (s : anyshape) : list optic :=\n  match s with")
for n in range(2, 10):
    o.append("  | Sh%d s => [%s]" % (n, "; ".join("shape%d_%s s" % (n, L[i]) for i in range(n))))
o.append("  end.\n")
o.append("Definition shape_put (s : anyshape) (p : ptr) (vs : list value) : M ptr :=\n  match s, vs with")
for n in range(2, 10):
    vs = ["v" + L[i] for i in range(n)]
    o.append("  | Sh%d s, [%s] => shape%d_Put s p %s" % (n, "; ".join(vs), n, " ".join(vs)))
o.append("  | _, _ => fun _ => Panic\n  end.\n")
o.append("Definition shape_get (s : anyshape) (p : ptr) : M (list value) :=\n  match s with")
for n in range(2, 10):
    vs = ["v" + L[i] for i in range(n)]
    o.append("  | Sh%d s => bindM (shape%d_Get s p) (fun '(%s) => retM [%s])" % (n, n, ", ".join(vs), "; ".join(vs)))
o.append("  end.\n")
o.append('''
Definition container (c : case) : ty := if c_ptr c then TPtr (sh_ty (c_shape c)) else sh_ty (c_shape c).

Definition res_opt {A} (r : res A) : option A := match r with Ok a => Some a | Panic => None end.

(* what the model says one optic does on the shape's arena, against one observation *)
Definition lens_agrees (sh : shape) (A : ty) (get : mem -> res value) (put : mem -> value -> res mem)
           (foci : list (nat * ty)) (o : lobs) : bool :=
  let m0 := sh_before sh in
  oval_eqb A (res_opt (get m0)) (lo_get0 o) &&
  match put m0 (lo_v o) with
  | Panic => lo_pput o && match lo_diff o with [] => true | _ => false end
  | Ok m1 =>
      negb (lo_pput o) && lo_same o &&
      arenas_eqb (arena_mask (List.length m0) foci) m1 (apply_diff m0 (lo_diff o)) &&
      oval_eqb A (res_opt (get m1)) (lo_get1 o)
  end.

Definition focus_of (sh : shape) (l : lens) : nat * ty := (lens_addr l (sh_base sh), l_A l).
Definition optic_foci (sh : shape) (o : optic) : list (nat * ty) :=
  match o with Field l => [focus_of sh l] | _ => [] end.

Definition dyn_of (sh : shape) (k : N) : dyn :=
  match k with
  | 0%N => mkDyn (Some (sh_ty sh)) None
  | 1%N => mkDyn (Some (TPtr (TStruct "main.other" 256 []))) (Some (sh_base sh))
  | 2%N => mkDyn None None
  | _ => mkDyn (Some (TPtr (sh_ty sh))) None
  end.

Definition dyn_agrees (sh : shape) (l : lens) (d : dobs) : bool :=
  let m0 := sh_before sh in
  if dy_put d then
    match lens_putt l m0 (dyn_of sh (dy_arg d)) (repeat 0%Z (sizeof (l_A l))) with
    | Panic => dy_panic d && negb (dy_changed d)
    | Ok _ => negb (dy_panic d)
    end
  else
    match lens_gett l m0 (dyn_of sh (dy_arg d)) with
    | Panic => dy_panic d && negb (dy_changed d)
    | Ok _ => negb (dy_panic d)
    end.

Definition all2 {A B} (f : A -> B -> bool) (a : list A) (b : list B) : bool :=
  Nat.eqb (List.length a) (List.length b) && forallb (fun p => f (fst p) (snd p)) (zip a b).

Definition agrees (c : case) : bool :=
  let sh := c_shape c in
  let s := sh_base sh in
  match c_via c with
  | VProduct =>
      match run_product (container c) (c_tys c) (c_attr c), c_obs c with
      | Panic, DPanic => true
      | Ok os, DLenses obs =>
          c_ptr c ||
          all2 (fun oa o => lens_agrees sh (snd oa) (fun m => oget (fst oa) m s) (fun m v => oput (fst oa) m s v)
                                        (optic_foci sh (fst oa)) o) (zip os (c_tys c)) obs
      | _, _ => false
      end
  | VSpectrum =>
      match run_spectrum (container c) (c_tys c) (c_attr c), c_obs c with
      | Panic, DPanic => true
      | Ok ls, DLenses obs =>
          c_ptr c ||
          all2 (fun la o =>
                  let l := fst la in
                  let d := mkDyn (Some (TPtr (sh_ty sh))) (Some s) in
                  lens_agrees sh (snd la) (fun m => lens_gett l m d) (fun m v => rmap snd (lens_putt l m d v)) [focus_of sh l] o &&
                  forallb (dyn_agrees sh l) (lo_dyn o)) (zip ls (c_tys c)) obs
      | _, _ => false
      end
  | VShape =>
      match run_shape (container c) (c_tys c) (c_attr c), c_obs c with
      | Panic, DPanic => true
      | Ok sp, DLenses obs =>
          c_ptr c ||
          let m0 := sh_before sh in
          let foci := flat_map (optic_foci sh) (shape_components sp) in
          let vs := map lo_v obs in
          all2 (fun t og => oval_eqb t (fst og) (snd og)) (c_tys c)
               (match shape_get sp s m0 with
                | Ok (gs, _) => zip (map Some gs) (map lo_get0 obs)
                | Panic => map (fun o => (None, lo_get0 o)) obs
                end) &&
          match shape_put sp s vs m0 with
          | Panic => forallb lo_pput obs
          | Ok (p, m1) =>
              forallb (fun o => negb (lo_pput o) && lo_same o) obs && Nat.eqb p s &&
              arenas_eqb (arena_mask (List.length m0) foci) m1 (apply_diff m0 (flat_map lo_diff obs)) &&
              all2 (fun t og => oval_eqb t (fst og) (snd og)) (c_tys c)
                   (match shape_get sp s m1 with
                    | Ok (gs, _) => zip (map Some gs) (map lo_get1 obs)
                    | Panic => map (fun o => (None, lo_get1 o)) obs
                    end)
          end
      | _, _ => false
      end
  end.

Definition mismatches (cs : list case) : list N := idx_where (fun c => negb (agrees c)) 0%N cs.
''')
open(os.path.join(ROOT, 'coq/theories/Check/Derive.v'), 'w').write("\n".join(o))
print("written")
