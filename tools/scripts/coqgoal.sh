#!/bin/bash
# coqgoal.sh <file.v relative to coq/> <line> : print the proof state just before that line
f=$1; n=$2; cd /verif/coq
head -n $((n-1)) $f > /tmp/_goal.v; echo "Show." >> /tmp/_goal.v
timeout 120 coqtop -Q theories Golem -Q gen GolemGen -batch -l /tmp/_goal.v 2>&1 | tail -${3:-40}
