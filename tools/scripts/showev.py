#!/usr/bin/env python3
"""developer helper: print the interesting part of evidence/<Cxx>.json or of a replay file"""
import json
import os
import sys

ROOT = os.path.dirname(os.path.dirname(os.path.dirname(os.path.abspath(__file__))))
a = sys.argv[1]
if a.endswith(".json"):
    r = json.load(open(a))
    print("kind:", r.get("kind"), "obligation:", r.get("obligation"))
    for b in r.get("broken", [])[:4]:
        print(" broken:", b["kind"], b["obligation"], "|", b["error"][-700:])
    d = r.get("describe")
    if d:
        print(d["shape"]["go"])
        print("request:", d["request"])
        print("observed:", json.dumps(d["observed"])[:1500])
else:
    e = json.load(open(os.path.join(ROOT, "evidence", a + ".json")))
    c = e["coverage"]
    print("wall", e["wall_s"], "violations", e["violations"], "obligations", c["discharged"], "/", c["obligations"])
    print("theorems", len(c["theorems"]), "evaluations", c["evaluations"], "nontrivial", c["distinct_nontrivial"])
    print("histogram", json.dumps(c["histogram"])[:1500])
    print("digest", c["digest"][:1])
    print("broken", c["broken_obligations"])
    print("sample", json.dumps(c["samples"][1])[:600])
