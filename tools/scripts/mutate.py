#!/usr/bin/env python3
"""Mutation self-test helper (DESIGN 11.4): applies ONE textual edit to a scratch copy of /repo and runs a check on it.
   tools/scripts/mutate.py <Cxx> <file relative to repo> <old text> <new text> [count]
/repo itself is never touched."""
import os
import shutil
import subprocess
import sys

ROOT = os.path.dirname(os.path.dirname(os.path.dirname(os.path.abspath(__file__))))


def main():
    pid, rel, old, new = sys.argv[1:5]
    count = int(sys.argv[5]) if len(sys.argv) > 5 else 1
    dst = "/tmp/repo-mut-%d" % os.getpid()
    shutil.rmtree(dst, ignore_errors=True)
    shutil.copytree("/repo", dst, symlinks=True)
    try:
        p = os.path.join(dst, rel)
        s = open(p).read()
        if s.count(old) < 1:
            print("mutate: text not found in", rel)
            return 2
        s = s.replace(old, new, count)
        open(p, "w").write(s)
        r = subprocess.run(["go1.26.8", "vet", "./..."], cwd=os.path.dirname(p), capture_output=True, text=True,
                           env=dict(os.environ, GOFLAGS="-mod=mod", GOPROXY="off", GOTOOLCHAIN="local"))
        env = dict(os.environ, VERIF_REPO=dst)
        r = subprocess.run([os.path.join(ROOT, "check"), pid], env=env, capture_output=True, text=True)
        print(r.stdout.strip())
        print("exit", r.returncode)
        tail = [l for l in r.stderr.split("\n") if l.strip()][-3:]
        for l in tail:
            print("  stderr:", l[:300])
        return 0
    finally:
        shutil.rmtree(dst, ignore_errors=True)


if __name__ == "__main__":
    sys.exit(main())
