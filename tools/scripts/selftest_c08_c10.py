#!/usr/bin/env python3
"""Mutation self-test for C08 and C10 (DESIGN 11.4), run by hand:  python3 tools/scripts/selftest_c08_c10.py [C08|C10]

Every mutant is an edit of a scratch COPY of /repo (never /repo itself); the check is pointed at the copy with
VERIF_REPO. A breaking edit must give exit 1 and a VIOLATION line with a replay that shows the failing trace/input;
a harmless one (marked ~) must stay green or end in no-failing-input-found."""
import json
import os
import re
import shutil
import subprocess
import sys
import time

ROOT = os.path.dirname(os.path.dirname(os.path.dirname(os.path.abspath(__file__))))
SRC = os.environ.get("VERIF_REPO", "/repo")
TMP = "/tmp/repo-mut-selftest-%d" % os.getpid()

DRAIN = """				// accept values already handed over by the sender
				for open := true; open; {
					select {
					case x, ok := <-in:
						if !ok {
							flush()
							return
						}
						enq(&x, mq)
					default:
						open = false
					}
				}
"""

MUTANTS = [
    # (property, name, file, old, new, harmless)
    ("C08", "enq forgets queue.tail = val", "pipe/queue.go", "\tqueue.tail = val\n", "", False),
    ("C08", "deq keeps tail when the queue empties", "pipe/queue.go", "\tif val == queue.tail {\n\t\tqueue.tail = nil\n\t}\n", "", False),
    ("C08", "flush on cancel removed", "pipe/unbound.go", "\t\t\t\t}\n\t\t\t\tflush()\n\t\t\t\treturn\n", "\t\t\t\t}\n\t\t\t\treturn\n", False),
    ("C08", "emit returns ch always", "pipe/queue.go", "\tif queue.head == nil {\n\t\treturn nil\n\t}\n\treturn ch\n", "\treturn ch\n", False),
    ("C08", "defer close(in) re-added", "pipe/unbound.go", "\t\tdefer close(eg)\n", "\t\tdefer close(eg)\n\t\tdefer close(in)\n", False),
    ("C08", "drain-on-cancel loop removed", "pipe/unbound.go", DRAIN, "", False),
    ("C08", "flush on sender close removed", "pipe/unbound.go",
     "\t\t\t\tif !ok {\n\t\t\t\t\t// closed by the sender, end of stream\n\t\t\t\t\tflush()\n\t\t\t\t\treturn\n",
     "\t\t\t\tif !ok {\n\t\t\t\t\t// closed by the sender, end of stream\n\t\t\t\t\treturn\n", False),
    ("C08", "~ egress buffer of another capacity", "pipe/unbound.go", "eg := make(chan T, cap)", "eg := make(chan T, cap+2)", True),
    ("C08", "~ input buffer of another capacity", "pipe/unbound.go", "in := make(chan T, cap)", "in := make(chan T, cap+1)", True),
    ("C10", "collector loops par-1 times", "pipe/fork/fork.go", "\t\tfor i := 1; i <= par; i++ {\n\t\t\tacc = m.Combine(acc, <-vals)", "\t\tfor i := 1; i < par; i++ {\n\t\t\tacc = m.Combine(acc, <-vals)", False),
    ("C10", "var acc A in the collector", "pipe/fork/fork.go", "\t\twg.Wait()\n\n\t\tacc := m.Empty()\n", "\t\twg.Wait()\n\n\t\tvar acc A\n", False),
    ("C10", "worker acc starts from the zero value", "pipe/fork/fork.go", "\tpfold := func() {\n\t\tacc := m.Empty()\n", "\tpfold := func() {\n\t\tvar acc A\n", False),
    ("C10", "Combine(acc, acc)", "pipe/fork/fork.go", "\t\t\tacc = m.Combine(acc, x)\n\t\t\tselect {", "\t\t\tacc = m.Combine(acc, acc)\n\t\t\t_ = x\n\t\t\tselect {", False),
    ("C10", "~ other capacities of vals and done", "pipe/fork/fork.go", "vals := make(chan A, par)\n\tdone := make(chan A, 1)", "vals := make(chan A, par+3)\n\tdone := make(chan A, 2)", True),
]


def main():
    only = sys.argv[1].upper() if len(sys.argv) > 1 else None
    rc_all = 0
    for prop, name, rel, old, new, harmless in MUTANTS:
        if only and prop != only:
            continue
        shutil.rmtree(TMP, ignore_errors=True)
        shutil.copytree(SRC, TMP)
        p = os.path.join(TMP, rel)
        s = open(p).read()
        if s.count(old) != 1:
            print("%s  %-45s  EDIT DOES NOT APPLY (%d matches)" % (prop, name, s.count(old)))
            rc_all = 1
            continue
        open(p, "w").write(s.replace(old, new))
        env = dict(os.environ, VERIF_REPO=TMP)
        t0 = time.time()
        r = subprocess.run([os.path.join(ROOT, "check"), prop], env=env, stdout=subprocess.PIPE, stderr=subprocess.PIPE, text=True)
        dt = time.time() - t0
        viol = [l for l in r.stdout.split("\n") if l.startswith("VIOLATION")]
        shown = ""
        for l in viol[:1]:
            m = re.search(r"replay=(\S+)", l)
            if m and os.path.exists(m.group(1)):
                d = json.load(open(m.group(1)))
                desc = d.get("describe") or {}
                shown = json.dumps({k: desc[k] for k in ("plan", "trace", "crash", "input", "observed", "call", "last operations") if k in desc})[:400]
                os.remove(m.group(1))
        for l in viol[1:]:
            m = re.search(r"replay=(\S+)", l)
            if m and os.path.exists(m.group(1)):
                os.remove(m.group(1))
        nofail = any("no-failing-input-found" in l for l in viol)
        if harmless:
            ok = r.returncode == 0 or (viol and all("no-failing-input-found" in l for l in viol))
        else:
            ok = r.returncode == 1 and viol and not nofail
        print("%s  %-45s  exit %d  %d VIOLATION line(s)%s  %.0fs  %s" % (
            prop, name, r.returncode, len(viol), " (no-failing-input-found)" if nofail else "", dt, "as expected" if ok else "UNEXPECTED"))
        if shown:
            print("      " + shown)
        if not ok:
            rc_all = 1
            print(r.stdout[-600:], r.stderr[-600:])
    shutil.rmtree(TMP, ignore_errors=True)
    # the evidence files were overwritten by runs against mutants: restore them from the unchanged tree
    for prop in sorted({m[0] for m in MUTANTS if not only or m[0] == only}):
        subprocess.run([os.path.join(ROOT, "check"), prop], stdout=subprocess.DEVNULL, stderr=subprocess.DEVNULL)
    return rc_all


if __name__ == "__main__":
    sys.exit(main())
