#!/bin/bash
# usage (from the framework root): bash tools/scripts/mut/mutrun.sh C19 tools/scripts/mut/c19.py slice-alias
# edits a scratch COPY of /repo (never /repo itself) and runs the check against it; expects exit=1 except for "harmless"
rm -rf /tmp/repo-mut-ds
cp -r /repo /tmp/repo-mut-ds
python3 "$2" "$3" || exit 9
start=$(date +%s)
VERIF_REPO=/tmp/repo-mut-ds ./check "$1" 2>&1 | tail -5
rc=${PIPESTATUS[0]}
echo "mutation=$3 exit=$rc wall=$(( $(date +%s) - start ))s"
rm -rf /tmp/repo-mut-ds
