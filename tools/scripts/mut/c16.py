import sys
which = sys.argv[1]
R = '/tmp/repo-mut-ds/duct/'

def edit(path, old, new, count=1):
    s = open(path).read()
    assert old in s, (path, old)
    s = s.replace(old, new, count)
    open(path, 'w').write(s)

if which == 'unit-outermost':
    edit(R + 'ast.go', '''func (f *AstSeq) unit() bool {
	if !f.Deferred {
		return false
	}
''', '''func (f *AstSeq) unit() bool {
	if !f.Deferred {
		return false
	}

	if !f.Root {
		f.Deferred = false
		return true
	}
''')
elif which == 'append-flat':
    edit(R + 'ast.go', '''	switch v := f.Seq[len(f.Seq)-1].(type) {
	case *AstSeq:
		if ok := v.append(n); ok {
			return true
		}
	}
''', '')
elif which == 'join-swap':
    edit(R + 'duct.go', '''	join := &AstMap{
		TypeA: TypeOf[B](),
		TypeB: TypeOf[C](),
		F:     f.f,
	}
	code.append(join)

	return Morphism[A, C]{code: code}''', '''	join := &AstMap{
		TypeA: TypeOf[C](),
		TypeB: TypeOf[B](),
		F:     f.f,
	}
	code.append(join)

	return Morphism[A, C]{code: code}''')
elif which == 'apply-continues':
    edit(R + 'ast.go', '''	for _, x := range n.Seq {
		if err := x.Apply(depth+1, v); err != nil {
			return err
		}
	}
''', '''	var first error
	for _, x := range n.Seq {
		if err := x.Apply(depth+1, v); err != nil && first == nil {
			first = err
		}
	}
	if first != nil {
		return first
	}
''')
elif which == 'apply-swallow-leave':
    edit(R + 'ast.go', '''	if err := v.OnLeaveMap(depth, node); err != nil {
		return err
	}
	return nil''', '''	v.OnLeaveMap(depth, node)
	return nil''')
elif which == 'typename-ptr':
    edit(R + 'duct.go', 'return "*" + typeName(t.Elem())', 'return typeName(t.Elem())')
elif which == 'harmless':
    # append rewritten iteratively along the last-child spine; Apply with a helper
    edit(R + 'ast.go', '''func (f *AstSeq) append(n Ast) bool {
	if !f.Deferred {
		return false
	}

	if len(f.Seq) == 0 {
		f.Seq = append(f.Seq, n)
		return true
	}

	switch v := f.Seq[len(f.Seq)-1].(type) {
	case *AstSeq:
		if ok := v.append(n); ok {
			return true
		}
	}

	f.Seq = append(f.Seq, n)
	return true
}''', '''func (f *AstSeq) append(n Ast) bool {
	if !f.Deferred {
		return false
	}

	at := f
	for len(at.Seq) > 0 {
		v, ok := at.Seq[len(at.Seq)-1].(*AstSeq)
		if !ok || !v.Deferred {
			break
		}
		at = v
	}

	at.Seq = append(at.Seq, n)
	return true
}''')
else:
    raise SystemExit('unknown mutation')
