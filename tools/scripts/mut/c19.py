import sys
which = sys.argv[1]
R = '/tmp/repo-mut-ds/internal/seq/'

def edit(path, old, new):
    s = open(path).read()
    assert old in s, (path, old)
    open(path, 'w').write(s.replace(old, new, 1))

if which == 'slice-alias':
    # append(seq, x)-style: reuses spare capacity of the argument, then shifts in place
    edit(R + 'slice/slice.go', '\treturn append([]A{x}, seq...)\n',
         '\ts := append(seq, x)\n\tcopy(s[1:], s)\n\ts[0] = x\n\treturn s\n')
elif which == 'slice-alias-tail':
    # "prepend into the slot Tail left free": writes x in front of seq when seq is a tail view (unsafe-free variant:
    # re-slices the argument's array up to its capacity and shifts)
    edit(R + 'slice/slice.go', '\treturn append([]A{x}, seq...)\n',
         '\tif cap(seq) > len(seq) {\n\t\ts := seq[:len(seq)+1]\n\t\tcopy(s[1:], seq)\n\t\ts[0] = x\n\t\treturn s\n\t}\n\treturn append([]A{x}, seq...)\n')
elif which == 'list-tail-len':
    edit(R + 'list/list.go', 'Seq[A]{len: seq.len - 1, list: seq.list.tail}', 'Seq[A]{len: seq.len, list: seq.list.tail}')
elif which == 'fold-swap':
    edit(R + 'foldable.go', 'x = m.Combine(x, f.Seq.Head(s))', 'x = m.Combine(f.Seq.Head(s), x)')
elif which == 'fold-right':
    edit(R + 'foldable.go', '''	x := m.Empty()
	s := seq

	for !f.Seq.IsEmpty(s) {
		x = m.Combine(x, f.Seq.Head(s))
		s = f.Seq.Tail(s)
	}

	return x
''', '''	if f.Seq.IsEmpty(seq) {
		return m.Empty()
	}
	return m.Combine(f.Seq.Head(seq), f.Fold(m, f.Seq.Tail(seq)))
''')
elif which == 'list-cons-len':
    edit(R + 'list/list.go', 'len:  seq.len + 1,', 'len:  seq.len,')
elif which == 'harmless':
    edit(R + 'slice/slice.go', '\treturn append([]A{x}, seq...)\n',
         '\ts := make([]A, len(seq)+1, 2*len(seq)+4)\n\ts[0] = x\n\tcopy(s[1:], seq)\n\treturn s\n')
    edit(R + 'slice/slice.go', 'return seq[1:] }', 'return seq[1:len(seq):len(seq)] }')
    edit(R + 'list/list.go', 'return seq.len == 0 }', 'return seq.list == nil }')
else:
    raise SystemExit('unknown mutation')
