#!/usr/bin/env python3
"""Writes the per-arity lemma files about the GENERATED definitions (coq/gen/GenHseq.v, GenOptics.v, GenShape.v):
coq/theories/Optics/GenHseqFacts.v, GenOpticsFacts.v, GenShapeFacts.v and the per-arity theorem blocks that
Properties/C01..C04.v include.  Written once by this script (like Pipe/PipeN.v); the definitions the lemmas talk
about are regenerated from /repo on every run, so the lemmas are re-checked against what the code says now."""
import os

ROOT = os.path.dirname(os.path.dirname(os.path.dirname(os.path.abspath(__file__))))
L = "ABCDEFGHI"
l = "abcdefghi"

TACTICS = '''
Lemma bind_ret : forall {A} (m : res A), (x <- m ;; Ok x) = m.
Proof. intros A m; destruct m; reflexivity. Qed.

Ltac res_crush :=
  cbn;
  repeat (match goal with
          | |- context [match ?r with Ok _ => _ | Panic => _ end] => destruct r; cbn
          | |- context [bind ?r _] => destruct r; cbn
          end);
  try reflexivity.
'''


def fmap_stmt(n):
    tys = " ".join(L[:n])
    fs = " ".join("(f%s : entry -> res %s)" % (l[i], L[i]) for i in range(n))
    pat = " :: ".join("e%d" % (i + 1) for i in range(n)) + " :: _"
    binds = " ;; ".join("%s <- f%s e%d" % (l[i], l[i], i + 1) for i in range(n))
    tup = l[0] if n == 1 else "(" + ", ".join(l[:n]) + ")"
    return ("forall (%s : Type) (ts : list entry) %s,\n  FMap%d ts %s =\n  match ts with\n  | %s => %s ;; Ok %s\n  | _ => Panic\n  end"
            % (tys, fs, n, " ".join("f" + l[i] for i in range(n)), pat, binds, tup))


def newn_stmt(n):
    return ("forall (T %s : ty),\n  New%d T %s = seq <- hseq_New T [] ;; mapM (fun X => hseq_ForType X seq) [%s]"
            % (" ".join(L[:n]), n, " ".join(L[:n]), "; ".join(L[:n])))


def derive_stmt(fn, ctor, n):
    pat = " :: ".join("e%d" % (i + 1) for i in range(n)) + " :: _"
    binds = " ;; ".join("%s <- %s T %s e%d" % (l[i], ctor, L[i], i + 1) for i in range(n))
    tup = l[0] if n == 1 else "(" + ", ".join(l[:n]) + ")"
    return ("forall (T %s : ty) (attr : list string),\n  %s%d T %s attr =\n  seq <- select T [%s] attr ;;\n  match seq with\n  | %s => %s ;; Ok %s\n  | _ => Panic\n  end"
            % (" ".join(L[:n]), fn, n, " ".join(L[:n]), "; ".join(L[:n]), pat, binds, tup))


def shape_put_stmt(n):
    vs = " ".join(l[:n])
    steps = []
    prev = "m"
    for k, i in enumerate(reversed(range(n))):
        steps.append("m%d <- oput (shape%d_%s lens) %s s %s" % (k + 1, n, l[i], prev, l[i]))
        prev = "m%d" % (k + 1)
    return ("forall (lens : shape%d) (s : ptr) (%s : value) (m : mem),\n  shape%d_Put lens s %s m =\n  (%s ;; Ok (s, %s))"
            % (n, vs, n, vs, " ;;\n   ".join(steps), prev))


def shape_get_stmt(n):
    binds = " ;;\n   ".join("%s <- oget (shape%d_%s lens) m s" % (l[i], n, l[i]) for i in range(n))
    return ("forall (lens : shape%d) (s : ptr) (m : mem),\n  shape%d_Get lens s m =\n  (%s ;; Ok ((%s), m))"
            % (n, n, binds, ", ".join(l[:n])))


def shape_puts_stmt(n):
    """shapeN.Put is the fold [puts] (Optics/FocusFacts.v) over its component lenses"""
    vs = " ".join(l[:n])
    comps = "; ".join("(shape%d_%s lens, %s)" % (n, l[i], l[i]) for i in range(n))
    return ("forall (lens : shape%d) (s : ptr) (%s : value) (m : mem),\n  shape%d_Put lens s %s m =\n  rmap (fun m' => (s, m')) (puts [%s] m s)"
            % (n, vs, n, vs, comps))


def shape_nfold_stmt(n):
    """with pairwise disjoint component foci: Get after Put returns the arguments, nothing outside the foci changes"""
    vs = " ".join(l[:n])
    ns = " ".join("n" + l[i] for i in range(n))
    fs = " ".join("f" + l[i] for i in range(n))
    foc = " ->\n  ".join("focused (shape%d_%s lens) n%s f%s" % (n, l[i], l[i], l[i]) for i in range(n))
    lens_ = " -> ".join("List.length %s = n%s" % (l[i], l[i]) for i in range(n))
    fl = "; ".join("f" + l[i] for i in range(n))
    return ("forall (lens : shape%d) (s p : ptr) (%s : value) (m m' : mem) (%s : nat) (%s : list (nat * nat)),\n  %s ->\n  %s ->\n"
            "  ForallOrdPairs disjoint_fp [%s] ->\n  shape%d_Put lens s %s m = Ok (p, m') ->\n"
            "  p = s /\\ shape%d_Get lens s m' = Ok ((%s), m') /\\\n  (forall i, outside (List.concat [%s]) s i -> nth_error m' i = nth_error m i)"
            % (n, vs, ns, fs, foc, lens_, fl, n, vs, n, ", ".join(l[:n]), fl))


def shape_nfold_proof(n):
    vs = " ".join(l[:n])
    ns = " ".join("n" + l[i] for i in range(n))
    fs = " ".join("f" + l[i] for i in range(n))
    Fs = " ".join("F" + l[i] for i in range(n))
    Ls = " ".join("L" + l[i] for i in range(n))
    args = "; ".join("(shape%d_%s lens, %s)" % (n, l[i], l[i]) for i in range(n))
    comps = "; ".join("mkComp (shape%d_%s lens) n%s f%s %s" % (n, l[i], l[i], l[i], l[i]) for i in range(n))
    return ("Proof.\n  intros lens s p %s m m' %s %s %s %s D H.\n"
            "  rewrite shape%d_Put_puts in H.\n"
            "  destruct (puts [%s] m s) as [m1|] eqn:E; cbn [rmap] in H; [|discriminate].\n"
            "  injection H as Hp Hm. subst p m1.\n"
            "  assert (Hok : Forall comp_ok [%s])\n"
            "    by (repeat (apply Forall_cons; [split; cbn [c_o c_n c_fp c_x]; assumption|]); apply Forall_nil).\n"
            "  match type of Hok with Forall _ ?cs =>\n    destruct (puts_spec cs m s m' Hok (FOP_map c_fp disjoint_fp cs D) E) as (_ & G & Fr) end.\n"
            "  split; [reflexivity|]. split; [|exact Fr].\n"
            "  rewrite shape%d_Get_spec.\n"
            "  repeat (apply Forall_cons_iff in G; destruct G as [G0 G]; cbn [c_o c_x] in G0; rewrite G0; clear G0; cbn [bind]).\n"
            "  reflexivity.\nQed.\n"
            % (vs, ns, fs, Fs, Ls, n, args, comps, n))


def forshape_stmt(n):
    return ("forall (T %s : ty) (attr : list string),\n  ForShape%d T %s attr =\n  rmap (fun '(%s) => mk_shape%d %s) (ForProduct%d T %s attr)"
            % (" ".join(L[:n]), n, " ".join(L[:n]), ", ".join(l[:n]), n, " ".join(l[:n]), n, " ".join(L[:n])))


def write(path, text):
    full = os.path.join(ROOT, path)
    if os.path.exists(full) and open(full).read() == text:
        return                      # unchanged: keep the timestamp, make has nothing to redo
    with open(full, "w") as f:
        f.write(text)


def main():
    # ---------------- hseq
    o = ['''(* Per-arity lemmas about the generated NewN / FMapN (coq/gen/GenHseq.v). Written once by
   tools/scripts/gen_arity_facts.py; the definitions are regenerated from hseq/hseq.go on every run. *)
From Coq Require Import List String Bool Arith.
From Golem Require Import Optics.GenPrelude.
From GolemGen Require Import GenHseq.
Import ListNotations.
Open Scope res_scope.
''' + TACTICS]
    for n in range(1, 10):
        pats = "[|" + " [|".join("e%d" % (i + 1) for i in range(n)) + " r" + "]" * n
        o.append("Lemma FMap%d_spec : %s.\nProof.\n  intros. unfold FMap%d, idx. destruct ts as %s; res_crush.\nQed.\n" % (n, fmap_stmt(n), n, pats))
        o.append("Lemma New%d_spec : %s.\nProof.\n  intros. unfold New%d. destruct (hseq_New T []) as [seq|]; res_crush.\nQed.\n" % (n, newn_stmt(n), n))
    write("coq/theories/Optics/GenHseqFacts.v", "\n".join(o))

    # ---------------- optics
    o = ['''(* Per-arity lemmas about the generated ForProductN / ForSpectrumN (coq/gen/GenOptics.v). Written once by
   tools/scripts/gen_arity_facts.py; the definitions are regenerated from optics/lens.go, reflector.go on every run. *)
From Coq Require Import List String Bool Arith.
From Golem Require Import Optics.GenPrelude Optics.GenHseqFacts.
From GolemGen Require Import GenHseq GenOptics.
Import ListNotations.
Open Scope res_scope.

(* the entries a derivation works on: by type when no name is given, else by the first N names;
   fewer than N names (in a slice without spare capacity) is Go's slice-bounds panic *)
Definition select (T : ty) (As : list ty) (attr : list string) : res (list entry) :=
  match attr with
  | [] => seq <- hseq_New T [] ;; mapM (fun X => hseq_ForType X seq) As
  | _ => names <- slice attr 0 (List.length As) ;; hseq_New T names
  end.

Ltac derive_crush NewN_spec FMapN_spec :=
  intros;
  match goal with |- ?f _ = _ => idtac end;
  match goal with
  | attr : list string |- _ =>
      destruct attr as [|a0 attr'];
      [ cbn [List.length Nat.eqb select]; rewrite NewN_spec;
        match goal with |- context [hseq_New ?T []] => destruct (hseq_New T []) as [seq0|]; [|reflexivity] end;
        cbn [bind];
        match goal with |- context [mapM ?f ?l] => destruct (mapM f l) as [sel|]; [|reflexivity] end;
        cbn [bind]; rewrite bind_ret; apply FMapN_spec
      | cbn [List.length Nat.eqb select];
        unfold slice, idx; cbn [List.length Nat.leb andb Nat.sub skipn firstn nth_error bind];
        try (match goal with |- context [if ?c then _ else _] => destruct c; cbn [bind]; [|reflexivity] end);
        match goal with |- context [hseq_New ?T ?ns] => destruct (hseq_New T ns) as [sel|]; [|reflexivity] end;
        cbn [bind]; rewrite bind_ret; apply FMapN_spec ]
  end.
''']
    for n in range(1, 10):
        for fn, ctor in (("ForProduct", "NewLens"), ("ForSpectrum", "NewReflector")):
            o.append("Lemma %s%d_spec : %s.\nProof.\n  unfold %s%d. derive_crush New%d_spec FMap%d_spec.\nQed.\n"
                     % (fn, n, derive_stmt(fn, ctor, n), fn, n, n, n))
    write("coq/theories/Optics/GenOpticsFacts.v", "\n".join(o))

    # ---------------- shape
    o = ['''(* Per-arity lemmas about the generated ForShapeN / shapeN.Put / shapeN.Get (coq/gen/GenShape.v). Written once by
   tools/scripts/gen_arity_facts.py; the definitions are regenerated from optics/shape.go on every run. *)
From Coq Require Import List String Bool Arith.
From Golem Require Import Optics.GenPrelude Optics.GenHseqFacts Optics.CombFacts Optics.FocusFacts.
From GolemGen Require Import GenHseq GenOptics GenShape.
Import ListNotations.
Open Scope res_scope.

Ltac shape_crush :=
  intros; unfold bindM, lens_Put, lens_Get, retM;
  repeat (match goal with
          | |- context [oput ?o ?m ?s ?x] => destruct (oput o m s x); cbn [bind]; try reflexivity
          | |- context [oget ?o ?m ?s] => destruct (oget o m s); cbn [bind]; try reflexivity
          end).
''']
    for n in range(2, 10):
        o.append("Lemma shape%d_Put_spec : %s.\nProof. unfold shape%d_Put. shape_crush. Qed.\n" % (n, shape_put_stmt(n), n))
        o.append("Lemma shape%d_Get_spec : %s.\nProof. unfold shape%d_Get. shape_crush. Qed.\n" % (n, shape_get_stmt(n), n))
        o.append("Lemma ForShape%d_spec : %s.\nProof.\n  intros. unfold ForShape%d. destruct (ForProduct%d T %s attr) as [[%s]|]; reflexivity.\nQed.\n"
                 % (n, forshape_stmt(n), n, n, " ".join(L[:n]), "".join(["[" * (n - 2)]) + l[0] + " " + l[1] + "".join("] " + l[i] for i in range(2, n))))
        o.append("Lemma shape%d_Put_puts : %s.\nProof.\n  intros. rewrite shape%d_Put_spec. cbn [puts bind]. shape_crush.\nQed.\n" % (n, shape_puts_stmt(n), n))
        o.append("Lemma shape%d_nfold : %s.\n%s" % (n, shape_nfold_stmt(n), shape_nfold_proof(n)))
    write("coq/theories/Optics/GenShapeFacts.v", "\n".join(o))

    # ---------------- theorem blocks for Properties/*.v
    blocks = {}
    b = []
    for n in range(1, 10):
        b.append("Theorem C03_FMap%d : %s.\nProof. exact FMap%d_spec. Qed.\nPrint Assumptions C03_FMap%d.\n" % (n, fmap_stmt(n), n, n))
        b.append("Theorem C03_New%d : %s.\nProof. exact New%d_spec. Qed.\nPrint Assumptions C03_New%d.\n" % (n, newn_stmt(n), n, n))
    blocks["C03"] = "\n".join(b)
    b = []
    for n in range(1, 10):
        b.append("Theorem C01_ForProduct%d : %s.\nProof. exact ForProduct%d_spec. Qed.\nPrint Assumptions C01_ForProduct%d.\n"
                 % (n, derive_stmt("ForProduct", "NewLens", n), n, n))
        b.append("Theorem C01_ForSpectrum%d : %s.\nProof. exact ForSpectrum%d_spec. Qed.\nPrint Assumptions C01_ForSpectrum%d.\n"
                 % (n, derive_stmt("ForSpectrum", "NewReflector", n), n, n))
    blocks["C01"] = "\n".join(b)
    b = []
    for n in range(2, 10):
        b.append("Theorem C04_shape%d_Put : %s.\nProof. exact shape%d_Put_spec. Qed.\nPrint Assumptions C04_shape%d_Put.\n" % (n, shape_put_stmt(n), n, n))
        b.append("Theorem C04_shape%d_Get : %s.\nProof. exact shape%d_Get_spec. Qed.\nPrint Assumptions C04_shape%d_Get.\n" % (n, shape_get_stmt(n), n, n))
        b.append("Theorem C04_ForShape%d : %s.\nProof. exact ForShape%d_spec. Qed.\nPrint Assumptions C04_ForShape%d.\n" % (n, forshape_stmt(n), n, n))
        b.append("Theorem C04_shape%d_nfold : %s.\nProof. exact shape%d_nfold. Qed.\nPrint Assumptions C04_shape%d_nfold.\n" % (n, shape_nfold_stmt(n), n, n))
    blocks["C04"] = "\n".join(b)
    for k, v in blocks.items():
        write("tools/scripts/arity_block_%s.txt" % k, v)
    print("written")


if __name__ == "__main__":
    main()
