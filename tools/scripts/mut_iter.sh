#!/bin/bash
# mut_iter.sh <Cxx> <mutation>... : apply each mutation to a fresh copy of /repo and run the check against it
W="$(cd "$(dirname "$0")/../.." && pwd)"
prop=$1; shift
for m in "$@"; do
  echo "=== $prop / $m"
  python3 "$W/tools/scripts/mut_iter.py" "$m" || continue
  s=$(date +%s)
  (cd $W && VERIF_REPO=/tmp/repo-mut-iter ./check "$prop"; echo "rc=$? in $(( $(date +%s) - s ))s")
  for f in $W/replays/$prop-*.json; do
    [ -f "$f" ] || continue
    python3 - "$f" <<'EOF'
import json, sys
r = json.load(open(sys.argv[1]))
d = r.get('describe') or (r.get('broken') or [{}])[0].get('describe') or {}
print('   replay', r['kind'], '|', d.get('expression') or d.get('expr'), '|', d.get('consumed_by'), '| observed', d.get('observed'), '| err', d.get('returned_error'), '| after', d.get('sources_after'), '| post', d.get('next_after_exhaustion'), '| required', d.get('required_list'))
EOF
  done
  rm -f $W/replays/$prop-*.json
done
rm -rf /tmp/repo-mut-iter
