#!/usr/bin/env python3
"""mkseedprompts.py <round tag> <letter1> <letter2> [ids...]: writes /tmp/seedprompt<tag>-Cxx.txt for sub-agents that seed
realistic bugs (they see only the property text and a scratch worktree /tmp/seedwt<tag>-Cxx of the library, nothing of
/verif), creates the worktrees and the deliverable directories /tmp/seed<tag>-Cxx/.  The mechanisms of the seeds already
stored under seeded/ are listed as 'already tried'."""
import glob, json, os, subprocess, sys

ROOT = os.path.dirname(os.path.dirname(os.path.dirname(os.path.abspath(__file__))))
tag, l1, l2 = sys.argv[1:4]
only = sys.argv[4:]
props = [json.loads(l) for l in open(os.path.join(ROOT, "properties.jsonl"))]

INTERNAL = ("The files under internal/ are OUTSIDE every Go module. To compile and test them build a staging module: copy "
            "internal/maplike -> /tmp/seedstage{tag}-{pid}/maplike, internal/seq -> /tmp/seedstage{tag}-{pid}/seq, internal/pipe/*.go -> "
            "/tmp/seedstage{tag}-{pid}/ipipe/ (in ipipe/pipe_test.go replace the import \"github.com/fogfish/golem/pure\" by "
            "\"github.com/fogfish/golem/ipipe\"), with a go.mod `module github.com/fogfish/golem` + `go 1.24` + `require "
            "github.com/fogfish/golem/pure v0.0.0` + `replace github.com/fogfish/golem/pure => {wt}/pure`, and copy pure/go.sum next to it; "
            "re-copy after every edit. Put that recipe into demo_cmd.")

for p in props:
    pid = p["id"]
    if only and pid not in only:
        continue
    wt = "/tmp/seedwt%s-%s" % (tag, pid)
    files = p["anchors"]["files"]
    mod = files[0].split("/")[0]
    tried = []
    for d in sorted(glob.glob(os.path.join(ROOT, "seeded", pid + "-*"))):
        try:
            tried.append("  - " + (json.load(open(os.path.join(d, "meta.json"))).get("what") or "")[:300].replace("\n", " "))
        except Exception:
            pass
    internal = any(f.startswith("internal/") for f in files)
    txt = f"""You are testing a verification tool by producing REALISTIC BUGS. You work in your own scratch git worktree of the Go library fogfish/golem at {wt} (a checkout of the library; edit files only there). Do NOT read or touch /verif or /repo - nothing from there is available to you or relevant. Go toolchain: `export GOFLAGS=-mod=mod GOPROXY=off GOSUMDB=off GOTOOLCHAIN=local` (no network) and use `go1.26.8`; the existing tests of a module run with `cd {wt}/{mod} && go1.26.8 test -vet=off -count=1 ./...`. Never use `git stash` (it is shared between worktrees): save diffs to files and reset with `git -C {wt} checkout -- . && git -C {wt} clean -fd`.
{INTERNAL.format(tag=tag, pid=pid, wt=wt) if internal else ""}

THE PROPERTY the library is supposed to satisfy:

{pid} - {p['title']}

Statement: {p['statement']}

Quantifier: {p['quantifier']['text']}

Why tests cannot settle it: {p['why_tests_cant']}

Code: {', '.join(files)}


YOUR TASK: produce TWO different changes (call them {l1.upper()} and {l2.upper()}) to the library's source (non-test .go files of the files named above or their helpers) such that, for each change:
  1. the library still compiles and ALL existing tests of the module still pass (run them; they must pass WITH your change);
  2. the change BREAKS the property above - on some input / schedule / history the observable behaviour contradicts the statement;
  3. it is the kind of mistake a maintainer could plausibly make in a refactoring or "optimisation" (off-by-one, wrong variable, dropped guard, reordered statements, a race, a forgotten case) - not sabotage that ordinary use exposes at once. Prefer changes that need something SPECIFIC to manifest: a particular interleaving or cancel point, a fault at a particular position, a multi-step sequence of operations, an unusual input (empty, boundary, duplicate, particular sizes/alignment/nesting), or two cooperating edits that each look fine alone. {l1.upper()} and {l2.upper()} should exploit different mechanisms;
  4. you write a demonstration: a small Go test file (package external test or internal as needed) placed in the module that FAILS with the change applied and PASSES on the unchanged library. Verify both directions yourself (apply change -> demo fails; revert -> demo passes). For concurrency, make the demo deterministic (e.g. unbuffered channels and explicit ordering, or `testing/synctest` with go1.26.8) or loop enough to fail reliably.

ALREADY TRIED by others (do NOT repeat these mechanisms or close variants; look for OTHER functions of the named files, OTHER clauses of the statement, other kinds of mistake - a boundary of the quantifier nobody touched, an interaction between two features, state carried across calls, an error path, a cancellation/closing path, aliasing of caller-owned memory, an overflow, a default value, a rarely used constructor or combinator):
{chr(10).join(tried)}

DELIVERABLES: for each change X in {{{l1}, {l2}}} create the directory /tmp/seed{tag}-{pid}/X/ containing
  - patch.diff : output of `git -C {wt} diff` with ONLY the library change (not the demo test);
  - the demonstration test file (keep its intended path in meta.json);
  - meta.json : {{"property": "{pid}", "what": "<one paragraph: what was changed>", "needs": "<what specific input/schedule/sequence is needed for it to manifest>", "demo_path": "<path of the demo test file relative to the repository root>", "demo_cmd": "<command that runs the demo>", "checked": "<what you ran and observed: existing tests pass with change; demo fails with change; demo passes without>"}}.
Leave the worktree clean at the end. Do not commit anything anywhere.

Your final message: a short summary of {l1.upper()} and {l2.upper()} (what, what it needs to manifest) and confirmation of the three checks for each.
"""
    open("/tmp/seedprompt%s-%s.txt" % (tag, pid), "w").write(txt)
    if not os.path.exists(wt):
        subprocess.run(["git", "-C", "/repo", "worktree", "add", "--detach", wt, "HEAD"], capture_output=True)
    os.makedirs("/tmp/seed%s-%s" % (tag, pid), exist_ok=True)
    print(pid, len(tried), "tried")
