#!/bin/bash
# developer helper: show the proof state of coq/<file> just before line N
#   tools/scripts/goal.sh theories/Optics/HseqFacts.v 226
here="$(cd "$(dirname "$0")/../.." && pwd)"
f="$here/coq/$1"; n="$2"
tmp="$here/work/goal_dbg.v"
mkdir -p "$here/work"
head -n $((n-1)) "$f" > "$tmp"
echo "Show. Admitted." | sed 's/Admitted/Abort/' >> "$tmp"
cd "$here/coq" && timeout 300 coqc -Q theories Golem -Q gen GolemGen "$tmp" 2>&1 | tail -${3:-60}
