#!/usr/bin/env python3
"""seedtable.py: prints the markdown table of /verif/seeded (DESIGN.md A.4) from the meta.json files."""
import glob, json, os

rows = []
for d in sorted(glob.glob("/verif/seeded/*/")):
    tag = os.path.basename(d.rstrip("/"))
    try:
        m = json.load(open(os.path.join(d, "meta.json")))
    except Exception:
        continue
    r = m.get("check_result") or {}
    out = " ".join(r.get("check_output") or [])
    if r.get("caught") and "VIOLATION" in out:
        kinds = sorted({w.split("-")[1] for w in out.split() if w.startswith("replay=") and "-" in w})
        res = "caught (%s)" % ", ".join(kinds) + (", no failing input" if "no-failing-input-found" in out and "oracle" not in kinds else "")
    elif r.get("caught"):
        res = "caught"
    else:
        res = "NOT caught"
    note = m.get("note_main", "")
    cut = lambda s: (s or "").replace("|", "/").replace("\n", " ")[:150]
    rows.append("| %s | %s | %s | %s%s |" % (tag, cut(m.get("what")), cut(m.get("needs")), res, (" - " + note) if note else ""))
print("| seed | change | needs | result |\n|---|---|---|---|")
print("\n".join(rows))
