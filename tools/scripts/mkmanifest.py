#!/usr/bin/env python3
"""Writes MANIFEST.json from the table below (kept in one place so it stays valid)."""
import json, os
ROOT = os.path.dirname(os.path.dirname(os.path.dirname(os.path.abspath(__file__))))
import importlib, importlib.util
spec = importlib.util.spec_from_file_location("claims", os.path.join(ROOT, "tools/scripts/claims.py"))
claims = importlib.util.module_from_spec(spec); spec.loader.exec_module(claims)
import sys
sys.path.insert(0, os.path.join(ROOT, "tools/runner"))
sys.path.insert(0, os.path.join(ROOT, "tools/runner/props"))
ALL = ["C%02d" % i for i in range(1, 21)]
CLAIMS = {}
for pid in ALL:
    if os.path.exists(os.path.join(ROOT, "tools/runner/props", pid.lower() + ".py")):
        mod = importlib.import_module("props." + pid.lower())
        if getattr(mod, "CLAIM", None):
            CLAIMS[pid] = mod.CLAIM
checks = []
for pid in ALL:
    c = CLAIMS.get(pid)
    if not c:
        continue
    checks.append({
        "property_id": pid,
        "quick_cmd": "./check %s --tier quick" % pid,
        "thorough_cmd": "./check %s --tier thorough" % pid,
        "evidence_file": "/verif/evidence/%s.json" % pid,
        "replay_cmd_template": "./check %s --replay {path}" % pid,
        "engine": "coq",
        "level_claimed": {"category": "proof", "text": c["text"], "design_ref": c["design_ref"]},
        "level_note": c["note"],
        "technique": c["technique"],
    })
na = [{"property_id": pid, "reason": claims.NOT_YET.get(pid, "check not built yet in this development; no claim is made")} for pid in ALL if pid not in CLAIMS]
m = {
    "version": 1,
    "setup_cmd": "./check --setup",
    "hooks": {
        "guard": "verif",
        "enable": "go build -tags verif (harness modules replace github.com/fogfish/golem/* => /repo/*; GOTOOLCHAIN=local go1.26.8)",
        "baseline_off_cmd": "for m in duct hseq optics pipe pure trait; do (cd /repo/$m && GOPROXY=off GOFLAGS=-mod=mod go test -json -vet=off -count=1 -timeout 25m ./...); done",
        "source_commits": claims.HOOK_COMMITS,
        "add_only": True,
    },
    "engines": [{"name": "coq", "path": "/verif/coq", "serves_properties": [c["property_id"] for c in checks],
                 "kind_free_text": "Coq 8.16.1 development (theories/ hand-written models and proofs, gen/ regenerated from /repo by tools/go2coq on every run) + Go correspondence harnesses evaluated inside Coq by vm_compute"}],
    "checks": checks,
    "notes": claims.NOTES,
    "not_applicable": na,
}
json.dump(m, open(os.path.join(ROOT, "MANIFEST.json"), "w"), indent=1)
print("MANIFEST.json:", len(checks), "checks,", len(na), "not claimed")
