#!/usr/bin/env python3
"""mut.py <check id> <file relative to repo> <old text> <new text> : run a check against a mutated copy of /repo
(VERIF_REPO), never touching /repo. Prints the check's last lines."""
import os, shutil, subprocess, sys
ROOT = os.path.dirname(os.path.dirname(os.path.dirname(os.path.abspath(__file__))))
pid, rel, old, new = sys.argv[1:5]
tier = sys.argv[5] if len(sys.argv) > 5 else "quick"
d = "/tmp/repo-mut-%s-%d" % (pid, os.getpid())
shutil.copytree("/repo", d, ignore=shutil.ignore_patterns(".git"))
try:
    p = os.path.join(d, rel)
    s = open(p).read()
    if s.count(old) < 1:
        print("PATTERN NOT FOUND"); sys.exit(2)
    open(p, "w").write(s.replace(old, new, 1))
    env = dict(os.environ, VERIF_REPO=d)
    r = subprocess.run([os.path.join(ROOT, "check"), pid, "--tier", tier], env=env, capture_output=True, text=True)
    print("\n".join((r.stdout + r.stderr).strip().split("\n")[-4:])); print("exit", r.returncode)
finally:
    shutil.rmtree(d, ignore_errors=True)
