#!/bin/bash
# developer helper: (re)generate coq/gen + _CoqProject, then build the given .vo targets (relative to coq/)
#   tools/scripts/cq.sh theories/Optics/Hseq.vo ...
here="$(cd "$(dirname "$0")/../.." && pwd)"
cd "$here" || exit 1
python3 -c "import sys; sys.path.insert(0,'tools/runner'); import vlib; r=vlib.regen(); [print('go2coq:',k,v) for k,v in r.items() if v]; vlib.coq_prepare()" || exit 1
cd coq && timeout "${CQ_TIMEOUT:-900}" make -j"${CQ_JOBS:-6}" "$@" 2>&1 | grep -v '^COQDEP\|^make\[' | tail -${CQ_TAIL:-40}
exit ${PIPESTATUS[0]}
