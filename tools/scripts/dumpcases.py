#!/usr/bin/env python3
"""dumpcases.py <Pool family, e.g. C06> [out.jsonl]: runs harness/pool for one family against VERIF_REPO (default /repo) and
writes the observed cases, one JSON per line (debugging aid)."""
import json, os, sys
ROOT = os.path.dirname(os.path.dirname(os.path.dirname(os.path.abspath(__file__))))
sys.path.insert(0, os.path.join(ROOT, "tools/runner"))
import check  # noqa
from props import pool_common
pid = sys.argv[1]
ctx = check.Ctx(pid, os.environ.get("VERIF_TIER", "quick"), int(os.environ.get("VERIF_SEED", "1")))
cases = pool_common.run_family(ctx, pid, tier=ctx.tier, seed=ctx.seed)
out = sys.argv[2] if len(sys.argv) > 2 else "/dev/stdout"
with open(out, "w") as f:
    for c in (cases.values() if isinstance(cases, dict) else cases):
        f.write(json.dumps(c) + "\n")
