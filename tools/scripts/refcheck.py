#!/usr/bin/env python3
"""refcheck.py <ref dir> [...]: applies a behaviour-preserving refactoring to a scratch copy of /repo and runs the
quick checks of the properties anchored in the touched files.  Reports which stay quiet."""
import json, os, re, shutil, subprocess, sys
ROOT = os.path.dirname(os.path.dirname(os.path.dirname(os.path.abspath(__file__))))

MAP = [
    (r"^pipe/(pipe|function)\.go", ["C05", "C06", "C07", "C11", "C12", "C13"]),
    (r"^pipe/(unbound|queue)\.go", ["C08"]),
    (r"^pipe/fork/", ["C09", "C10"]),
    (r"hseq/hseq\.go", ["C03", "C01", "C02"]),
    (r"optics/(lens|reflector)\.go", ["C01", "C02", "C04"]),
    (r"optics/(shape|iso)\.go", ["C04"]),
    (r"trait/seq/", ["C14", "C15"]),
    (r"trait/pair/", ["C15"]),
    (r"duct/", ["C16"]),
    (r"pure/", ["C17"]),
    (r"internal/maplike/", ["C18"]),
    (r"internal/seq/", ["C19"]),
    (r"internal/pipe/", ["C20"]),
]

for ref in sys.argv[1:]:
    patch = os.path.join(ref, "patch.diff")
    files = re.findall(r"^\+\+\+ b/(\S+)", open(patch).read(), re.M)
    props = []
    for f in files:
        for pat, ps in MAP:
            if re.search(pat, f):
                props += [p for p in ps if p not in props]
    d = "/tmp/refrun-%d" % os.getpid()
    shutil.rmtree(d, ignore_errors=True)
    shutil.copytree("/repo", d, ignore=shutil.ignore_patterns(".git"))
    try:
        r = subprocess.run("patch -p1 --no-backup-if-mismatch < %s" % patch, cwd=d, shell=True, capture_output=True, text=True)
        if r.returncode != 0:
            print(json.dumps({"ref": ref, "error": "patch does not apply"})); continue
        out = {}
        for p in props:
            q = subprocess.run([os.path.join(ROOT, "check"), p], env=dict(os.environ, VERIF_REPO=d), capture_output=True, text=True)
            lines = [l for l in (q.stdout + q.stderr).split("\n") if "VIOLATION" in l or "holds" in l or "VIOLATED" in l]
            out[p] = "quiet" if q.returncode == 0 else " | ".join(l[:120] for l in lines[:2])
        print(json.dumps({"ref": ref, "files": files, "result": out}))
        sys.stdout.flush()
    finally:
        shutil.rmtree(d, ignore_errors=True)
