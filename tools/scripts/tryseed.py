#!/usr/bin/env python3
"""tryseed.py <seed dir with patch.diff> [check id] [tier]: run a check of THIS tree against a copy of /repo with the
seed's patch applied (VERIF_REPO); nothing is stored, /repo is never touched."""
import json, os, shutil, subprocess, sys
ROOT = os.path.dirname(os.path.dirname(os.path.dirname(os.path.abspath(__file__))))
seed = sys.argv[1].rstrip("/")
pid = sys.argv[2] if len(sys.argv) > 2 else json.load(open(os.path.join(seed, "meta.json")))["property"]
tier = sys.argv[3] if len(sys.argv) > 3 else "quick"
d = "/tmp/repo-try-%s-%d" % (pid, os.getpid())
shutil.copytree("/repo", d, ignore=shutil.ignore_patterns(".git"))
try:
    r = subprocess.run("patch -p1 --no-backup-if-mismatch < %s" % os.path.join(os.path.abspath(seed), "patch.diff"), cwd=d, shell=True, capture_output=True, text=True)
    if r.returncode != 0:
        print("PATCH FAILED", r.stdout[-300:]); sys.exit(2)
    r = subprocess.run([os.path.join(ROOT, "check"), pid, "--tier", tier], env=dict(os.environ, VERIF_REPO=d), capture_output=True, text=True)
    print("\n".join((r.stdout + r.stderr).strip().split("\n")[-int(os.environ.get("LINES", "4")):])); print("exit", r.returncode)
finally:
    shutil.rmtree(d, ignore_errors=True)
