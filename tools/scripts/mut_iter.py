#!/usr/bin/env python3
"""mut_iter.py <name>: fresh copy of /repo at /tmp/repo-mut-iter with one breaking edit of trait/seq or trait/pair
(mutation self-test of C14/C15, DESIGN 11.4; run through tools/scripts/mut_iter.sh <Cxx> <name>...; never touches /repo)"""
import shutil, subprocess, sys, os
D = '/tmp/repo-mut-iter'
shutil.rmtree(D, ignore_errors=True)
subprocess.check_call(['cp', '-r', '/repo', D])
SEQ = D + '/trait/seq/seq.go'
PAIR = D + '/trait/pair/pair.go'

def sub(path, old, new, count=1):
    s = open(path).read()
    assert s.count(old) == count, (s.count(old), old)
    open(path, 'w').write(s.replace(old, new))

LATCH_S = """	if !seq.f(seq.Value()) {
		seq.f = nil
		return false
	}
"""
LATCH_P = """	if !seq.f(seq.Key(), seq.Value()) {
		seq.f = nil
		return false
	}
"""
PLUS = """	hasNext := plus.Seq.Next()

	if !hasNext && plus.rhs != nil {"""
FILT_S = """		if seq.f(seq.Value()) {
			return true
		}
	}
}"""
def swaphelper():
    """a type-correct way to write f(Value, Key): compiles for all K, V, swaps when K = V (as in the harness)"""
    with open(PAIR, 'a') as f:
        f.write("\nfunc swapKV[K, V any](k K, v V) (K, V) {\n	var a any = v\n	var b any = k\n	ka, ok1 := a.(K)\n	vb, ok2 := b.(V)\n	if ok1 && ok2 {\n		return ka, vb\n	}\n	return k, v\n}\n")


M = {
    # seq
    'latch': lambda: sub(SEQ, LATCH_S, LATCH_S.replace("		seq.f = nil\n", "")),
    'plus-early': lambda: sub(SEQ, PLUS, "	hasNext := false\n\n	if !hasNext && plus.rhs != nil {"),
    'plus-early2': lambda: sub(SEQ, PLUS, "	hasNext := plus.Seq.Next()\n\n	if plus.rhs != nil {"),
    'filter-first': lambda: sub(SEQ, FILT_S, "		if seq.f(seq.Value()) {\n			return true\n		}\n		return true\n	}\n}"),
    'dropw-neg': lambda: sub(SEQ, "		if !f(seq.Value()) {\n			return seq\n		}", "		if f(seq.Value()) {\n			return seq\n		}"),
    'seqof-write': lambda: sub(SEQ, "	s.el = s.el[1:]\n	return true", "	s.el[0] = s.el[1]\n	s.el = s.el[1:]\n	return true"),
    'join-noreprime': lambda: sub(SEQ, "			join.Seq = join.rhs(join.lhs.Value())\n			if join.Seq != nil {\n				return true\n			}", "			join.Seq = join.rhs(join.lhs.Value())\n			return true"),
    'foreach-skip': lambda: sub(SEQ, "		if err := f(seq.Value()); err != nil {\n			return err\n		}", "		if err := f(seq.Value()); err != nil {\n			return nil\n		}"),
    'takew-ctor': lambda: sub(SEQ, "	if seq == nil || !f(seq.Value()) {\n		return nil\n	}", "	if seq == nil {\n		return nil\n	}"),
    # harmless
    'harmless-plus': lambda: sub(SEQ, "	if !hasNext && plus.rhs == nil {\n		return false\n	}\n\n	return true", "	return hasNext"),
    # pair
    'p-latch': lambda: sub(PAIR, LATCH_P, LATCH_P.replace("		seq.f = nil\n", "")),
    'p-swap-filter': lambda: (swaphelper(), sub(PAIR, "		if seq.f(seq.Key(), seq.Value()) {\n			return true\n		}", "		if seq.f(swapKV(seq.Key(), seq.Value())) {\n			return true\n		}")),
    'p-swap-takew': lambda: (swaphelper(), sub(PAIR, "	if !seq.f(seq.Key(), seq.Value()) {\n		seq.f = nil", "	if !seq.f(swapKV(seq.Key(), seq.Value())) {\n		seq.f = nil")),
    'p-swap-join': lambda: (swaphelper(), sub(PAIR, "			join.Seq = join.rhs(join.lhs.Key(), join.lhs.Value())\n			if join.Seq != nil {\n				return true", "			join.Seq = join.rhs(swapKV(join.lhs.Key(), join.lhs.Value()))\n			if join.Seq != nil {\n				return true", 2)),
    'p-swap-map': lambda: (swaphelper(), sub(PAIR, "	return seq.f(seq.Seq.Key(), seq.Seq.Value())", "	return seq.f(swapKV(seq.Seq.Key(), seq.Seq.Value()))")),
    'p-swap-foreach': lambda: (swaphelper(), sub(PAIR, "		if err := f(seq.Key(), seq.Value()); err != nil {", "		if err := f(swapKV(seq.Key(), seq.Value())); err != nil {")),
    'p-swap-toseq-ctor': lambda: (swaphelper(), sub(PAIR, "		join.Seq = join.rhs(join.lhs.Key(), join.lhs.Value())\n		if join.Seq != nil {\n			return join\n		}", "		join.Seq = join.rhs(swapKV(join.lhs.Key(), join.lhs.Value()))\n		if join.Seq != nil {\n			return join\n		}", 2)),
    'p-swap-dropw': lambda: (swaphelper(), sub(PAIR, "		if !f(seq.Key(), seq.Value()) {\n			return seq\n		}", "		if !f(swapKV(seq.Key(), seq.Value())) {\n			return seq\n		}")),
    'p-map-key': lambda: sub(PAIR, "	return seq.f(seq.Seq.Key(), seq.Seq.Value())\n}", "	return seq.f(seq.Seq.Key(), seq.Seq.Value())\n}\n\nfunc (seq fmap[K, A, B]) Key() K {\n	var k any = seq.f(seq.Seq.Key(), seq.Seq.Value())\n	if kk, ok := k.(K); ok {\n		return kk\n	}\n	return seq.Seq.Key()\n}"),
    'p-plus-early': lambda: sub(PAIR, PLUS, "	hasNext := plus.Seq.Next()\n\n	if plus.rhs != nil {"),
    'p-filter-first': lambda: sub(PAIR, "		if seq.f(seq.Key(), seq.Value()) {\n			return true\n		}\n	}\n}", "		if seq.f(seq.Key(), seq.Value()) {\n			return true\n		}\n		return true\n	}\n}"),
}
name = sys.argv[1]
M[name]()
r = subprocess.run(['go1.26.8', 'build', './...'], cwd=D + '/trait', env=dict(os.environ, GOFLAGS='-mod=mod', GOPROXY='off', GOSUMDB='off', GOTOOLCHAIN='local'), capture_output=True, text=True)
print(name, 'applied; build rc', r.returncode, r.stderr[-500:])
