#!/bin/bash
# runs every claimed check (quick tier) on /repo and prints one line per property
cd "$(dirname "$0")/../.."
for p in $(python3 -c "import json; print(' '.join(c['property_id'] for c in json.load(open('MANIFEST.json'))['checks']))"); do
  ./check $p --tier ${1:-quick} 2>&1 | grep -E "VIOLATION|KNOWN|holds|VIOLATED" | tail -3
done
python3-vt tools/scripts/validate.py | tail -1
