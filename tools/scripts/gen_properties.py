#!/usr/bin/env python3
"""Assembles coq/theories/Properties/C01..C04.v from the hand-written theorem text in
tools/scripts/properties_src/Cxx.v.in and the per-arity blocks written by gen_arity_facts.py
(the marker line `(*ARITY*)` is replaced by the block)."""
import os

ROOT = os.path.dirname(os.path.dirname(os.path.dirname(os.path.abspath(__file__))))
for pid in ("C01", "C02", "C03", "C04"):
    src = os.path.join(ROOT, "tools/scripts/properties_src", pid + ".v.in")
    if not os.path.exists(src):
        continue
    s = open(src).read()
    blk = os.path.join(ROOT, "tools/scripts/arity_block_%s.txt" % pid)
    if "(*ARITY*)" in s:
        s = s.replace("(*ARITY*)", open(blk).read())
    open(os.path.join(ROOT, "coq/theories/Properties", pid + ".v"), "w").write(s)
    print("wrote", pid)
