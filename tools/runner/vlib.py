"""Shared machinery of ./check: locking, translator, Coq build, case evaluation,
evidence, replay files and known findings.  See DESIGN.md section 1.3 / 1.4."""
import concurrent.futures as cf
import fcntl
import hashlib
import json
import os
import re
import shutil
import subprocess
import sys
import time

ROOT = os.path.dirname(os.path.dirname(os.path.dirname(os.path.abspath(__file__))))
REPO = os.environ.get("VERIF_REPO", "/repo")
COQ = os.path.join(ROOT, "coq")
WORK = os.path.join(ROOT, "work")
CACHE = os.path.join(ROOT, ".cache")
BIN = os.path.join(CACHE, "bin")
GO = "go1.26.8"

GOENV = dict(os.environ)
GOENV.update({
    "GOFLAGS": "-mod=mod", "GOPROXY": "off", "GOSUMDB": "off", "GOTOOLCHAIN": "local",
    "GOWORK": "off", "CGO_ENABLED": os.environ.get("CGO_ENABLED", "1"),
})

COQ_TIMEOUT = 1500


class HarnessError(Exception):
    pass


def log(*a):
    print(*a, file=sys.stderr, flush=True)


def sh(cmd, cwd=None, timeout=600, env=None, stdin=None):
    """run, return (rc, stdout+stderr)"""
    try:
        p = subprocess.run(cmd, cwd=cwd, env=env, input=stdin, stdout=subprocess.PIPE,
                           stderr=subprocess.STDOUT, timeout=timeout, text=True,
                           shell=isinstance(cmd, str))
        return p.returncode, p.stdout
    except subprocess.TimeoutExpired as e:
        out = e.stdout or ""
        if isinstance(out, bytes):
            out = out.decode("utf-8", "replace")
        return 124, out + "\n[timeout after %ss]" % timeout


def sh2(cmd, cwd=None, timeout=600, env=None, stdin=None):
    """run, return (rc, stdout, stderr)"""
    try:
        p = subprocess.run(cmd, cwd=cwd, env=env, input=stdin, stdout=subprocess.PIPE,
                           stderr=subprocess.PIPE, timeout=timeout, text=True,
                           shell=isinstance(cmd, str))
        return p.returncode, p.stdout, p.stderr
    except subprocess.TimeoutExpired as e:
        so = e.stdout or ""
        se = e.stderr or ""
        if isinstance(so, bytes):
            so = so.decode("utf-8", "replace")
        if isinstance(se, bytes):
            se = se.decode("utf-8", "replace")
        return 124, so, se + "\n[timeout after %ss]" % timeout


# ------------------------------------------------------------------------------
# locking: exclusive while the translator / make may rewrite files, shared afterwards
# ------------------------------------------------------------------------------
class Lock:
    def __init__(self):
        self.f = open(os.path.join(ROOT, ".build.lock"), "w")

    def exclusive(self):
        fcntl.flock(self.f, fcntl.LOCK_EX)

    def shared(self):
        fcntl.flock(self.f, fcntl.LOCK_SH)

    def release(self):
        fcntl.flock(self.f, fcntl.LOCK_UN)


# ------------------------------------------------------------------------------
# translator (tie (a))
# ------------------------------------------------------------------------------
def gen_table():
    """(output file, mode, sources relative to REPO): collected from the GEN lists of tools/runner/props/c*.py"""
    import importlib
    pd = os.path.join(os.path.dirname(os.path.abspath(__file__)), "props")
    if pd not in sys.path:
        sys.path.insert(0, pd)
    table = []
    pdir = os.path.join(os.path.dirname(os.path.abspath(__file__)), "props")
    for n in sorted(os.listdir(pdir)):
        if re.match(r"c\d+\.py$", n):
            mod = importlib.import_module("props." + n[:-3])
            for e in getattr(mod, "GEN", []):
                if e not in table:
                    table.append(e)
    return table


def repo_rev():
    rc, out = sh(["git", "-C", REPO, "rev-parse", "HEAD"])
    rev = out.strip() if rc == 0 else "unknown"
    rc, out = sh(["git", "-C", REPO, "status", "--porcelain"])
    if rc == 0 and out.strip():
        rev += "+dirty"
    return rev


def ensure_go2coq():
    os.makedirs(BIN, exist_ok=True)
    src = os.path.join(ROOT, "tools", "go2coq")
    exe = os.path.join(BIN, "go2coq")
    newest = max(os.path.getmtime(os.path.join(src, f)) for f in os.listdir(src))
    if os.path.exists(exe) and os.path.getmtime(exe) >= newest:
        return exe
    rc, out = sh([GO, "build", "-o", exe, "."], cwd=src, env=GOENV, timeout=300)
    if rc != 0:
        raise RuntimeError("go2coq does not build:\n" + out)
    return exe


def regen():
    """Regenerate coq/gen/*.v from /repo. Returns {file: None | error text}."""
    exe = ensure_go2coq()
    gdir = os.path.join(COQ, "gen")
    os.makedirs(gdir, exist_ok=True)
    res = {}
    for name, mode, srcs in gen_table():
        dst = os.path.join(gdir, name)
        rc, so, se = sh2([exe, mode] + [os.path.join(REPO, s) for s in srcs], timeout=120)
        if rc != 0:
            res[name] = se.strip() or ("go2coq exit %d" % rc)
            # the obligation is broken, not skipped: dependents must fail to build
            for ext in ("", "o", "ok", "os"):
                try:
                    os.remove(dst + ext)
                except FileNotFoundError:
                    pass
            continue
        res[name] = None
        old = None
        if os.path.exists(dst):
            with open(dst) as f:
                old = f.read()
        if old != so:
            with open(dst, "w") as f:
                f.write(so)
    return res


# ------------------------------------------------------------------------------
# Coq build
# ------------------------------------------------------------------------------
def coq_files():
    fs = []
    for top in ("theories", "gen"):
        for d, _, names in os.walk(os.path.join(COQ, top)):
            for n in names:
                if n.endswith(".v"):
                    fs.append(os.path.relpath(os.path.join(d, n), COQ))
    # generated files that failed to regenerate are still named, so that their
    # dependents fail instead of silently using nothing
    for name, _, _ in gen_table():
        p = os.path.join("gen", name)
        if p not in fs:
            fs.append(p)
    return sorted(fs)


def coq_prepare():
    with open(os.path.join(COQ, "_CoqProject.in")) as f:
        head = f.read()
    want = head + "\n".join(coq_files()) + "\n"
    cp = os.path.join(COQ, "_CoqProject")
    old = None
    if os.path.exists(cp):
        with open(cp) as f:
            old = f.read()
    if old != want or not os.path.exists(os.path.join(COQ, "Makefile")):
        with open(cp, "w") as f:
            f.write(want)
        rc, out = sh(["coq_makefile", "-f", "_CoqProject", "-o", "Makefile"], cwd=COQ)
        if rc != 0:
            raise RuntimeError("coq_makefile failed:\n" + out)


def coq_make(targets=None, jobs=16, timeout=COQ_TIMEOUT):
    """Full .vo build of the given targets (paths relative to coq/, '.vo'). Returns (ok, log)."""
    coq_prepare()
    cmd = ["make", "-j%d" % jobs, "-k"]
    if targets:
        cmd += targets
    rc, out = sh(cmd, cwd=COQ, timeout=timeout)
    return rc == 0, out


COQ_ERR = re.compile(r'File "\./([^"]+)", line (\d+), characters [\d-]+:\s*\n(Error:.*?)(?=\n(?:make|File|COQC|$))', re.S)


def coq_errors(logtext):
    errs = []
    for m in COQ_ERR.finditer(logtext):
        errs.append({"file": m.group(1), "line": int(m.group(2)), "error": " ".join(m.group(3).split())[:600]})
    if not errs:
        for m in re.finditer(r"No rule to make target '([^']+)'", logtext):
            errs.append({"file": m.group(1), "line": 0, "error": "missing (translator failed or file removed)"})
        for m in re.finditer(r"\*\*\* \[[^\]]*: ([^\]]+\.vo)\] Error", logtext):
            errs.append({"file": m.group(1), "line": 0, "error": "build failed"})
    return errs


def theorem_at(path, line):
    """name of the Theorem/Lemma enclosing a line of a .v file"""
    name = None
    try:
        with open(os.path.join(COQ, path)) as f:
            for i, l in enumerate(f, 1):
                m = re.match(r"\s*(?:Theorem|Lemma|Example|Corollary|Definition|Fixpoint)\s+([\w']+)", l)
                if m:
                    name = m.group(1)
                if i >= line:
                    break
    except OSError:
        pass
    return name


def theorems_of(pid):
    path = os.path.join(COQ, "theories", "Properties", pid + ".v")
    with open(path) as f:
        return re.findall(r"^\s*Theorem\s+([\w']+)", f.read(), re.M)


COQC_FLAGS = ["-Q", os.path.join(COQ, "theories"), "Golem", "-Q", os.path.join(COQ, "gen"), "GolemGen",
              "-w", "-notation-overridden,-deprecated-hint-without-locality,-abstract-large-number,-large-nat"]


def print_assumptions(pid, workdir):
    """Ask the kernel for the axioms of every theorem of Properties/<pid>.v"""
    ths = theorems_of(pid)
    src = "From Golem Require Import Properties.%s.\n" % pid
    for t in ths:
        src += 'Print Assumptions %s.\n' % t
    os.makedirs(workdir, exist_ok=True)
    p = os.path.join(workdir, "pa_%s.v" % pid)
    with open(p, "w") as f:
        f.write(src)
    rc, out = sh(["coqc"] + COQC_FLAGS + [p], cwd=workdir, timeout=600)
    if rc != 0:
        return ths, None, out
    # output: one block per theorem: "Closed under the global context" or "Axioms:\n name : type ..."
    blocks = re.split(r"(?=Closed under the global context|Axioms:)", out)
    blocks = [b.strip() for b in blocks if b.strip()]
    axioms = set()
    closed = 0
    for b in blocks:
        if b.startswith("Closed under"):
            closed += 1
        else:
            for m in re.finditer(r"^([\w.']+)\s*:", b, re.M):
                axioms.add(m.group(1))
    return ths, {"theorems": len(ths), "closed": closed, "axioms": sorted(axioms)}, out


HYGIENE_RE = re.compile(
    r"\b(Admitted|admit|Axiom|Axioms|Parameter|Parameters|Conjecture|Conjectures|Admit Obligations|"
    r"bypass_check|type-in-type|impredicative-set)\b|Unset\s+(Guard|Positivity|Universe)\s+Checking")
SECTION_ONLY = re.compile(r"^\s*(Variable|Variables|Hypothesis|Hypotheses|Context)\b")


def strip_comments(text):
    out = []
    depth = 0
    i = 0
    n = len(text)
    while i < n:
        if text.startswith("(*", i):
            depth += 1
            i += 2
        elif text.startswith("*)", i) and depth > 0:
            depth -= 1
            i += 2
        else:
            if depth == 0:
                out.append(text[i])
            elif text[i] == "\n":
                out.append("\n")
            i += 1
    return "".join(out)


def hygiene():
    """grep gate over the whole development (comments stripped). Returns list of offences."""
    bad = []
    for rel in coq_files():
        p = os.path.join(COQ, rel)
        if not os.path.exists(p):
            continue
        with open(p) as f:
            text = strip_comments(f.read())
        depth = 0
        for i, l in enumerate(text.split("\n"), 1):
            if re.match(r"^\s*Section\b", l):
                depth += 1
            if re.match(r"^\s*End\b", l) and depth > 0:
                depth -= 1
            if HYGIENE_RE.search(l):
                bad.append("%s:%d: %s" % (rel, i, l.strip()))
            if SECTION_ONLY.match(l) and depth == 0 and not re.match(r"^\s*Context\b", l):
                bad.append("%s:%d: Variable/Hypothesis outside a section: %s" % (rel, i, l.strip()))
    return bad


# ------------------------------------------------------------------------------
# Go harness staging
# ------------------------------------------------------------------------------
def scratch_dir(tag):
    d = os.path.join(os.path.expanduser("~"), ".cache", "verif-work", "%s-%d" % (tag, os.getpid()))
    shutil.rmtree(d, ignore_errors=True)
    os.makedirs(d)
    return d


MODS = ["duct", "hseq", "optics", "pipe", "pure", "trait"]


MODPATH = {"pipe": "github.com/fogfish/golem/pipe/v2"}


def modpath(m):
    return MODPATH.get(m, "github.com/fogfish/golem/" + m)


def write_gomod(d, module, requires=(), extra_replace=()):
    """go.mod whose golem requirements all resolve to /repo's working tree (never the module cache)"""
    lines = ["module %s" % module, "", "go 1.24", ""]
    for m in requires:
        lines.append("require %s %s" % (modpath(m), "v2.0.0" if m == "pipe" else "v0.0.0"))
    for m in MODS:
        lines.append("replace %s => %s/%s" % (modpath(m), REPO, m))
    for a, b in extra_replace:
        lines.append("replace %s => %s" % (a, b))
    with open(os.path.join(d, "go.mod"), "w") as f:
        f.write("\n".join(lines) + "\n")
    # go.sum: union of the repo's (third-party deps of the golem modules, e.g. it/v2)
    sums = set()
    for m in MODS:
        p = os.path.join(REPO, m, "go.sum")
        if os.path.exists(p):
            with open(p) as f:
                sums.update(l for l in f.read().split("\n") if l.strip())
    with open(os.path.join(d, "go.sum"), "w") as f:
        f.write("\n".join(sorted(sums)) + "\n")


def stage_internal(tag, packages, harness_files, extra_files=()):
    """Scratch module `github.com/fogfish/golem` holding copies of /repo/internal/<pkg> (which are
    outside every module) under the import paths their sources declare, plus harness sources.
    packages: [(repo-relative dir, staged dir)], harness_files/extra_files: [(abs src, staged rel path)].
    The caller removes the directory."""
    d = scratch_dir(tag)
    for src, dst in packages:
        shutil.copytree(os.path.join(REPO, src), os.path.join(d, dst),
                        ignore=shutil.ignore_patterns("*_test.go"))
    for src, dst in list(harness_files) + list(extra_files):
        os.makedirs(os.path.dirname(os.path.join(d, dst)), exist_ok=True)
        shutil.copy(src, os.path.join(d, dst))
    write_gomod(d, "github.com/fogfish/golem", requires=["pure"])
    return d


def go_build(d, pkg, out, tags="verif", test=False, race=False, timeout=900):
    if test:
        cmd = [GO, "test", "-c", "-vet=off", "-tags", tags, "-o", out]
    else:
        cmd = [GO, "build", "-tags", tags, "-o", out]
    if race:
        cmd.append("-race")
    cmd.append(pkg)
    return sh(cmd, cwd=d, env=GOENV, timeout=timeout)


# ------------------------------------------------------------------------------
# evaluating cases inside Coq (tie (b))
# ------------------------------------------------------------------------------
def zlit(n):
    n = int(n)
    return "(%d)" % n if n < 0 else "%d" % n


def zlist(l):
    # a nil Go slice arrives as JSON null: the empty list
    return "[" + "; ".join(zlit(x) for x in (l or [])) + "]"


def nlit(n):
    return "%d%%N" % int(n)


def natlit(n):
    n = int(n)
    if n > 4000:
        return "(N.to_nat %d%%N)" % n
    return "%d%%nat" % n


def blit(b):
    return "true" if b else "false"


def write_shards(workdir, check_module, cases_coq, shard_size=400, prelude="", defs=("M", "V")):
    """cases_coq: list of Coq terms (strings). Returns list of (path, first index, count)."""
    os.makedirs(workdir, exist_ok=True)
    for n in os.listdir(workdir):
        if n.startswith("cases_"):
            os.remove(os.path.join(workdir, n))
    shards = []
    for k in range(0, max(len(cases_coq), 1), shard_size):
        chunk = cases_coq[k:k + shard_size]
        p = os.path.join(workdir, "cases_%d.v" % (k // shard_size))
        with open(p, "w") as f:
            f.write("From Coq Require Import List ZArith NArith String Bool.\n")
            f.write("From Golem Require Import %s.\nImport ListNotations.\nOpen Scope Z_scope.\n" % check_module)
            f.write(prelude)
            f.write("Definition cases : list case := [\n  ")
            f.write(";\n  ".join(chunk))
            f.write("\n].\n")
            f.write("Definition cM := Eval vm_compute in mismatches cases.\nPrint cM.\n")
            f.write("Definition cV := Eval vm_compute in violations cases.\nPrint cV.\n")
            f.write("Definition cD := Eval vm_compute in digest cases.\nPrint cD.\n")
        shards.append((p, k, len(chunk)))
    return shards


def parse_nlist(out, name):
    m = re.search(r"\b%s\s*=\s*(.*?)\n\s*:\s" % name, out, re.S)
    if not m:
        return None
    body = " ".join(m.group(1).split())
    return body


def eval_shards(shards, timeout=900, jobs=16, memlimit_kb=12_000_000):
    """Run coqc on every shard. Returns dict with mismatches, violations (global indexes),
    digests (raw text per shard), failed shards [(path, log)]."""
    def one(s):
        p, first, count = s
        cmd = "ulimit -v %d; exec coqc %s %s" % (memlimit_kb, " ".join(COQC_FLAGS), p)
        rc, out = sh(["bash", "-c", cmd], cwd=os.path.dirname(p), timeout=timeout)
        return s, rc, out
    res = {"mismatches": [], "violations": [], "digests": [], "failed": [], "shards": len(shards), "ok_shards": 0}
    with cf.ThreadPoolExecutor(max_workers=jobs) as ex:
        for (p, first, count), rc, out in ex.map(one, shards):
            if rc != 0:
                res["failed"].append((p, out[-3000:]))
                continue
            m = parse_nlist(out, "cM")
            v = parse_nlist(out, "cV")
            d = parse_nlist(out, "cD")
            if m is None or v is None:
                res["failed"].append((p, out[-3000:]))
                continue
            res["ok_shards"] += 1
            res["mismatches"] += [first + int(x) for x in re.findall(r"(\d+)%?N?", m.replace("%N", ""))] if m != "[]" else []
            res["violations"] += [first + int(x) for x in re.findall(r"(\d+)", v.replace("%N", ""))] if v != "[]" else []
            res["digests"].append(d)
    return res


# ------------------------------------------------------------------------------
# known findings, replays, evidence
# ------------------------------------------------------------------------------
def known_findings():
    p = os.path.join(ROOT, "known-findings.json")
    if not os.path.exists(p):
        return []
    with open(p) as f:
        return json.load(f)


def match_known(pid, signature):
    for e in known_findings():
        if e.get("property") == pid and e.get("status") == "open" and e.get("match") == signature:
            return e
    return None


def write_replay(pid, kind, payload):
    os.makedirs(os.path.join(ROOT, "replays"), exist_ok=True)
    body = dict(payload)
    body.update({"property": pid, "kind": kind, "repo_rev": repo_rev()})
    h = hashlib.sha1(json.dumps(body.get("case", body.get("obligation", "")), sort_keys=True).encode()).hexdigest()[:12]
    path = os.path.join(ROOT, "replays", "%s-%s-%s.json" % (pid, kind, h))
    body["how_to_replay"] = "./check %s --replay %s" % (pid, os.path.relpath(path, ROOT))
    with open(path, "w") as f:
        json.dump(body, f, indent=1, sort_keys=True)
    return path


def write_evidence(pid, tier, seed, coverage, wall, violations, assumptions, scratch=False):
    evdir = os.path.join(ROOT, "evidence")
    if scratch or os.path.realpath(REPO) != "/repo":
        # a run against a scratch copy of the repository (mutation self-tests): never the committed evidence
        evdir = os.path.join(WORK, "evidence-scratch")
    os.makedirs(evdir, exist_ok=True)
    ev = {
        "property_id": pid, "tier": tier, "seed": int(seed), "level": "proof",
        "coverage": coverage, "assumptions": assumptions, "wall_s": round(wall, 2),
        "violations": int(violations),
    }
    p = os.path.join(evdir, pid + ".json")
    tmp = p + ".tmp"
    with open(tmp, "w") as f:
        json.dump(ev, f, indent=1)
    os.replace(tmp, p)
    return p
