"""C10 - fork.Fold equals the sequential fold for any commutative monoid."""
import atexit
import json
import os
import shutil

import vlib

ID = "C10"
CHECK_MODULE = "Check.C10"
TARGETS_CHECK = ["theories/Check/C10.vo"]
TARGETS_PROP = ["theories/Properties/C10.vo"]
SHARD = 300
MONOIDS = {0: "sum (identity 0)", 1: "product (identity 1)", 2: "max (identity min-int)", 3: "min (identity max-int)",
           4: "bitwise and (identity -1)", 5: "set union = bitmask or (identity 0)"}
MODES = {0: "preloaded closed buffered input, real scheduler",
         1: "synctest bubble, unbuffered input, one send per Wait (round-robin over the parked workers)",
         2: "unbuffered input fed by a yielding producer goroutine, real scheduler",
         4: "sum over reference-typed accumulators with an in-place Combine (every Empty() fresh); preloaded, real scheduler",
         3: "volume: 1..N preloaded, many workers really in parallel (GOMAXPROCS 4..16)"}
RULE = ("the real fork.Fold, pipe.Fold and a plain loop are run for each of six coded commutative monoids (sum, product, max, min, "
        "bitwise and, bitmask or: identities 0, 1, min-int, max-int, -1, 0) x par in {1,2,3,4,7} x input length 0..12 (so also empty "
        "and shorter than par) x three ways of feeding the input (preloaded/free-running, synctest round-robin, yielding producer) x "
        "input families from VERIF_SEED (positional inputs whose fold shows how often each element was combined, and random ones; "
        "products and sums asserted not to overflow); plus volume rounds (sum of 1..N, N = 2000 / 200000, 2..16 workers really in parallel under GOMAXPROCS 4..16, 60 quick / 300 thorough, judged in Go, failing rounds and two passing ones forwarded in compact form); a case is distinct by (monoid, par, mode, input) and non-trivial when the input "
        "is non-empty or the identity is non-zero")
TRUSTED = [
    "modelled, not verified: fork.Fold as the machine of coq/theories/Pipe/ForkFold.v (workers, internal channel of capacity par, collector); "
    "the distribution of elements over workers that the Go scheduler produced is not observed - the model's answer is independent of it "
    "(fork_fold_eq), which is what makes the comparison a function",
    "Go int (64 bit) agrees with Z on the explored inputs: the harness asserts no overflow and Check.C10.fits re-checks it",
]
CLAIM = {
    "text": ("Coq theorems about a machine model of fork.Fold (par workers folding their share from Empty(), partials over a channel of "
             "capacity par, a collector starting from Empty() and combining exactly par partials): for every commutative monoid "
             "(associativity, commutativity, identity as section hypotheses), every par >= 1, every input and every event list "
             "(= every schedule and every distribution and order of elements over workers) at most one value is delivered, it equals "
             "fold_left combine xs empty, every element was taken by exactly one worker, the channel then closes, nothing panics, the "
             "only stuck state is the finished one and every step of the library or consumer decreases a measure (termination). "
             "A vm_compute witness shows that a collector starting from the zero value is wrong for product. The model is run against "
             "the real fork.Fold, pipe.Fold and a plain loop on six monoids with zero and non-zero identities."),
    "design_ref": "DESIGN.md 3/C10",
    "note": ("Trusted: Coq kernel + vm_compute; the hand-written machine model ForkFold.v (tied to the code by differential runs, not by "
             "proof); harness. Cancellation is outside this property and not modelled here. The monoid laws are hypotheses: a "
             "non-commutative Combine is outside the claim."),
    "technique": "Coq proof (invariant over all event lists + pure partition/permutation lemma) + differential run of model vs code",
}
ASSUMPTIONS = [
    "the monoid is commutative, associative and Empty() is its identity (section hypotheses of the theorems); Combine is total and pure",
    "the context is not cancelled during the fold (the property speaks of complete runs)",
    "the producer closes the input once and does not send afterwards",
    "int64 arithmetic of the coded monoids does not overflow on the generated inputs (asserted by the harness, re-checked in Coq)",
]


_BUILT = {}
_SHRUNK = {}


def build():
    """stage + build once per ./check process (the shrinker re-runs the binary many times)"""
    if "exe" in _BUILT:
        return _BUILT["dir"], _BUILT["exe"]
    d = vlib.scratch_dir("c10")
    atexit.register(shutil.rmtree, d, ignore_errors=True)
    shutil.copy(os.path.join(vlib.ROOT, "harness/c10/c10_test.go"), os.path.join(d, "c10_test.go"))
    vlib.write_gomod(d, "harness", requires=["pipe", "pure"])
    exe = os.path.join(d, "c10.test")
    rc, out = vlib.go_build(d, ".", exe, test=True)
    if rc != 0:
        raise vlib.HarnessError("harness does not build against %s/pipe:\n%s" % (vlib.REPO, out[-1500:]))
    _BUILT.update(dir=d, exe=exe)
    return d, exe


def run_harness(ctx, tier=None, only=None):
    d, exe = build()
    env = dict(ctx.env)
    if tier:
        env["VERIF_TIER"] = tier
    outp = os.path.join(d, "cases.jsonl")
    env["VERIF_OUT"] = outp
    if only is not None:
        p = os.path.join(d, "only.jsonl")
        with open(p, "w") as f:
            for c in only:
                f.write(json.dumps({k: c[k] for k in ("monoid", "par", "mode", "input")}) + "\n")
        env["VERIF_CASES"] = p
    rc, so, se = vlib.sh2([exe, "-test.run", "^TestC10$", "-test.timeout", "20m"], cwd=d, env=env, timeout=1500)
    if rc != 0:
        raise vlib.HarnessError("harness failed (rc %d): %s" % (rc, (so + se)[-1500:]))
    cases = []
    with open(outp) as f:
        for l in f:
            if not l.strip():
                continue
            o = json.loads(l)
            if "volume_stats" in o:
                ctx.notes["volume_rounds"] = o["volume_stats"]   # 1..N with N = 2000 / 200000, really parallel workers, judged in Go
                continue
            cases.append(o)
    if only is None:
        cases += race_pass(ctx, d, env)
    return cases


def race_pass(ctx, d, env):
    """a few volume rounds under the race detector (two workers meeting on a shared variable need not collide to be seen);
    a reported race arrives as a volume case without a result"""
    exe = os.path.join(d, "c10_race.test")
    if not os.path.exists(exe):
        rc, out = vlib.go_build(d, ".", exe, test=True, race=True)
        if rc != 0:
            ctx.notes["race_pass"] = "race build failed: " + out[-300:]
            return []
    env = dict(env, VERIF_RACE_PASS="1", GORACE="halt_on_error=1")
    outp = env["VERIF_OUT"]
    if os.path.exists(outp):
        os.remove(outp)
    rc, so, se = vlib.sh2([exe, "-test.run", "^TestC10$", "-test.timeout", "10m"], cwd=d, env=env, timeout=700)
    found = []
    if os.path.exists(outp):
        with open(outp) as f:
            for l in f:
                if l.strip():
                    o = json.loads(l)
                    if "race_stats" in o:
                        ctx.notes["race_pass"] = o["race_stats"]
                    elif "volume_stats" not in o:
                        found.append(o)
    if rc != 0:
        msg = "\n".join(x for x in (so + se).split("\n") if "DATA RACE" in x or "panic" in x or "fatal" in x)[:300] or (so + se)[-300:]
        ctx.notes["race_pass"] = "process ended with exit %d: %s" % (rc, msg)
        found.append({"monoid": 0, "par": 2, "mode": 3, "input": [], "n": 2000, "observed": [], "closed": False,
                      "pfold": [2001000], "pclosed": True, "loop": 2001000, "note": "under the race detector: " + msg})
    return found


def run_impl(ctx, tier=None):
    return run_harness(ctx, tier=tier, only=ctx.replay_cases)


def to_coq(c):
    return "mk %s %s %s %s %s %s %s %s %s" % (
        vlib.nlit(c["monoid"]), vlib.nlit(c["par"]), vlib.nlit(c["mode"]),
        ("(upto %d%%N)" % c["n"]) if c.get("n") else vlib.zlist(c["input"]),
        vlib.zlist(c["observed"]), vlib.blit(c["closed"]), vlib.zlist(c["pfold"]), vlib.blit(c["pclosed"]), vlib.zlit(c["loop"]))


def nontrivial_key(c):
    if not c["input"] and c["monoid"] in (0, 5):
        return None
    return (c["monoid"], c["par"], c["mode"], tuple(c["input"]), c.get("n", 0))


def signature(c):
    return {"kind": "fork-fold-result", "monoid": c["monoid"]}


def describe(c):
    return {"call": "fork.Fold(ctx, par=%d, in, m) with m = %s; input fed as: %s" % (c["par"], MONOIDS[c["monoid"]], MODES[c["mode"]]),
            "input": ("1..%d" % c["n"]) if c.get("n") else c["input"],
            "observed": {"fork.Fold delivered": c["observed"], "then closed": c["closed"], "pipe.Fold delivered": c["pfold"]},
            "note": c.get("note"),
            "required": "exactly one value = left fold of the input = %s (plain loop in Go), then the channel closes" % c["loop"]}


def sample(c):
    return describe(c)


def histogram(cases):
    h = {}
    for c in cases:
        for k in ("monoid=%d" % c["monoid"], "par=%d" % c["par"], "mode=%d" % c["mode"],
                  "len<par" if len(c["input"]) < c["par"] else "len>=par"):
            h[k] = h.get(k, 0) + 1
    return h


def _eval(ctx, cases, tag):
    wd = os.path.join(ctx.workdir, tag)
    shards = vlib.write_shards(wd, CHECK_MODULE, [to_coq(c) for c in cases], shard_size=SHARD)
    return vlib.eval_shards(shards)


def shrink(ctx, case):
    """drop elements / lower par while the real code still violates the oracle (re-run every candidate)"""
    key = json.dumps(signature(case), sort_keys=True)
    if key in _SHRUNK:          # the runner reports one case per signature
        return _SHRUNK[key]
    cur = case
    for _ in range(16):
        cands = []
        xs = cur["input"]
        for i in range(len(xs)):
            cands.append(dict(cur, input=xs[:i] + xs[i + 1:]))
        for p in (1, 2, 3, 4):
            if p < cur["par"]:
                cands.append(dict(cur, par=p))
        if not cands:
            break
        got = run_harness(ctx, only=cands)
        ev = _eval(ctx, got, "shrink")
        bad = sorted(set(ev["violations"]))
        if not bad:
            break
        cur = got[bad[0]]
    _SHRUNK[key] = cur
    return cur


def search(ctx, evaluate):
    """after a broken obligation: thorough-size run of the real code against the oracle"""
    cases = run_harness(ctx, tier="thorough")
    ev = evaluate(cases)
    found = [cases[i] for i in sorted(set(ev["violations"]))]
    return found[:5], {"explored": len(cases), "found": len(found)}
