"""C03 - struct unfolding lists every field once, in order, with its true offset; lookups are first-match."""
import json

import vlib
from props import optics_common as oc

ID = "C03"
CHECK_MODULE = "Check.C03"
ORACLE_MODULE = "Check.C03o"
GEN = oc.GEN
GEN_DEPS = ["GenHseq.v"]
TARGETS_CHECK = ["theories/Check/C03o.vo", "theories/Check/C03.vo"]
TARGETS_PROP = ["theories/Properties/C03.vo"]
SHARD = 300
PRELUDE = "Open Scope string_scope.\n"
RULE = ("8 fixed corner shapes + 44 (quick) / 600 (thorough) random struct shapes "
        "+ 4 fixed and 4 (quick) / 54 (thorough) random HOMONYM shapes (declared inside a function behind local types that shadow the "
        "package-level named types: distinct types of equal reflect String(), Name() and PkgPath(), both as field types of one "
        "struct in either order and across embedding depth, or one of them only), generated as Go source from VERIF_SEED "
        "(1-9 fields per struct, field types of size 0..32 and alignment 1/2/4/8 incl. named variants, value embedding to depth 4, "
        "pointer-embedded structs, embedded non-struct types, unexported names, hseq tags incl. empty/multi-part/escaped, duplicate "
        "names, keys and types across depths); per shape: hseq.New[T]() and New[*T]() listings, ForName and ForNameMaybe on every key, "
        "raw name, whole tag and misses, New[T](names...) on random name tuples incl. duplicates and misses, ForType on every field "
        "type, absent types and the absent namesake of a present type, NewN on random type tuples (N=1..9) incl. both namesakes in "
        "either order and tuples with one absent namesake, FMap, FMap1..9 with index-tagging functions on the whole "
        "listing / exactly N / N-1 names; a case is distinct by (shape layout, request) and non-trivial when the answer is not a panic")
TRUSTED = [
    "tools/go2coq mode hseq (go/parser AST of New1..9 / FMap1..9 -> shallow Gallina in the poison monad of Optics/Res.v)",
    "the shape generator and Go driver (tools/runner/props/optics_common.py, harness/optics): reflected type descriptors, "
    "unsafe.Offsetof chains and &selector addresses written in generated source",
    "modelled, not verified: reflect's struct-tag parsing (Tag.Get), type identity as canonical type name; "
    "that the compiler lays structs out as reflect reports is cross-checked against unsafe.Offsetof on every shape",
]
CLAIM = {
    "text": "Coq theorems for every well-formed struct type tree: the transcription of hseq.unfold equals the depth-first "
            "declaration-order listing (IDs = positions, PureType = type with one pointer stripped), root+offset of every entry "
            "reached without crossing a pointer is the compiler's selector offset, ForName/ForType/ForNameMaybe return the first "
            "match or fail, New(names) keeps the requested order; per-arity theorems (N=1..9) about NewN and FMapN regenerated from "
            "hseq.go on every run. The model, and independently the property oracle, are run against the real code on generated "
            "struct shapes with compiler-computed offsets.",
    "design_ref": "DESIGN.md 3/C03, 2.2",
    "note": "Trusted: Coq kernel + vm_compute, tools/go2coq, reflect's tag parsing, the reflected descriptor (cross-checked with "
            "unsafe.Offsetof and the gc layout rules on every generated shape). Struct types embedding a pointer to themselves are "
            "outside the model (the listing would be infinite; the real code overflows its stack).",
    "technique": "Coq proof by structural induction on type trees + translator-regenerated per-arity definitions + differential "
                 "run of model and oracle against the code on generated Go struct shapes",
}
ASSUMPTIONS = [
    "struct types are finite trees (no struct embeds a pointer to itself)",
    "reflect reports the compiler's layout (checked against unsafe.Offsetof chains and &selector on every shape of the run)",
]

_prelude = oc.Prelude(globals(), with_arena=False)


def run_impl(ctx, tier=None, count=None):
    return oc.run_cases(ctx, ID, tier, count)


def _req(c):
    r = c["req"]
    q = r["q"]
    if q == "listing":
        return "(QListing %s)" % vlib.blit(r["ptr"])
    if q == "names":
        return "(QNames %s %s)" % (vlib.blit(r["ptr"]), oc.cstrs(r["names"]))
    if q == "forname":
        return "(QForName %s)" % oc.cstr(r["name"])
    if q == "maybe":
        return "(QMaybe %s)" % oc.cstr(r["name"])
    if q == "fortype":
        return "(QForType %s%%nat)" % oc.cty(r["tys"][0])
    if q == "newn":
        return "(QNewN %s)" % oc.ctys(r["tys"])
    if q == "fmap":
        return "(QFMap %s)" % oc.cstrs(r["names"])
    if q == "fmapn":
        return "(QFMapN %d%%nat %s)" % (r["n"], oc.cstrs(r["names"]))
    raise ValueError(q)


def _obs(c):
    r, o = c["req"], c["obs"]
    if o.get("panic"):
        return "OPanic"
    q = r["q"]
    if q == "maybe":
        return "(OMaybe %s %s)" % (vlib.blit(o["found"]), oc.centries(o["entries"]) if o["found"] else "[]")
    if q == "fmap":
        return "(OIds %s)" % vlib.zlist(o["ids"])
    if q == "fmapn":
        return "(OTagged [%s])" % "; ".join("(%d, %d)" % (a, b) for a, b in o["tagged"])
    return "(OEntries %s)" % oc.centries(o["entries"])


def to_coq(c):
    return "mk %s %s %s" % (_prelude.use(c["shape"]), _req(c), _obs(c))


def nontrivial_key(c):
    if c["obs"].get("panic"):
        return None
    return (oc.shape_name(c["shape"]), json.dumps(c["req"], sort_keys=True))


def signature(c):
    return {"kind": "hseq-" + c["req"]["q"]}


def describe(c):
    r = dict(c["req"])
    if "tys" in r:
        r["tys"] = [oc.tname(t) for t in r["tys"]]
    return {"shape": oc.shape_summary(c["shape"]), "request": r, "observed": c["obs"],
            "observed_listing": c["shape"]["listing"],
            "compiler_offsets": c["shape"]["offs"],
            "required": "the first-match / depth-first answer computed from the observed listing and the compiler's offsets (Check/C03o.v)"}


def sample(c):
    r = dict(c["req"])
    if "tys" in r:
        r["tys"] = [oc.tname(t) for t in r["tys"]]
    o = c["obs"]
    return {"shape": c["shape"]["id"], "request": r,
            "observed": "panic" if o.get("panic") else (o.get("ids") or o.get("tagged") or [e["name"] for e in o.get("entries", [])])}


def histogram(cases):
    h = {}
    for c in cases:
        k = c["req"]["q"] + ("/panic" if c["obs"].get("panic") else "")
        h[k] = h.get(k, 0) + 1
    h["shapes"] = len({c["shape"]["id"] for c in cases})
    return h


def search(ctx, evaluate):
    """after a broken obligation: more shapes against the oracle alone"""
    cases = run_impl(ctx, count=160)
    ev = evaluate(cases)
    found = [cases[i] for i in sorted(set(ev["violations"]))]
    return found, {"explored": len(cases), "found": len(found)}
