"""C13 - Throttling bounds the rate, and keeps every element in order."""
import pool_common as pc

pc.install(globals(), "C13", "C13", "throttling",
    rule=("pipe.Throttling with ops 1..4, interval 2..10 virtual ticks, capacities 0..3, inputs of 3..12 distinct elements x schedules on "
          "testing/synctest's virtual clock: random (send/recv/sleep), idle-then-burst (sleep 3 intervals, then send and receive as fast as "
          "possible), steady (input always available, consumer always ready, one tick per round), from VERIF_SEED, drained to completion. "
          "The oracle recomputes, over the observed receive time stamps, the maximum number of deliveries in any window of length interval "
          "(<= 2*ops+1+c) and, for steady schedules, element i's delivery time in [floor(i/ops)*interval, +interval]. Distinct by full "
          "observed trace; non-trivial when a value was delivered"),
    claim={
        "text": "Theorems proved by the Coq kernel for every ops, interval, capacity, arrival pattern, consumer pace and any clock advance policy: exactly the input elements in order once each, closes when the input closes, no panic, no deadlock (only the pacer's timer is waited for), the pacer pushes at most ops tokens per interval counted from the start (tokens by time t <= ops*(t/interval+1)), and before cancel the token channel stays open and every delivery (received from or buffered in the output, plus the element the data goroutine holds after its token receive) has consumed a token, so deliveries by time t <= ops*(t/interval+1) as well (C13_deliveries_le_tokens, C13_deliveries_rate). The sliding window is a theorem too: between two points of one run less than interval apart the pacer pushes at most ops tokens (C13_tokens_window) and, before cancel, the consumer receives at most ops + cap(ctl) + 1 + cap(out) elements (C13_window), i.e. no half-open window [t, t+interval) sees more than 2*ops+1+c deliveries with the channels pipe.Throttling makes (C13_window_go); the bound is attained (C13_window_tight) and the closed window [t, t+interval] is not bounded by it (C13_closed_window_refuted: two pacer rounds fit). Element i is never available before floor(i/ops)*interval (C13_delivery_not_early). PARTIAL only for the upper half of the exact schedule (element i no later than one interval after floor(i/ops)*interval under maximal progress with input always available), which is not a theorem; the correspondence oracle checks it on every explored steady virtual-time schedule.",
        "design_ref": "DESIGN.md 3/C13",
        "note": "Trusted: Coq kernel; Pool machine with virtual clock; testing/synctest's fake clock. The window bound is a theorem about the Pool machine (and is also recomputed by the oracle over the observed receive time stamps); only the upper half of the steady schedule rests on differential testing + oracle.",
        "technique": "Coq proof (stream, token-rate, deliveries<=tokens and sliding-window invariants) + trace-acceptance correspondence and rate oracle on virtual time",
    },
    assumptions=["virtual clock of testing/synctest; ops >= 1"])
