"""C04: generated Go source for the composed optics of one shape (Join to depth 3, BiMap with an involution,
BiMapS/B/I/F, Getter, Setter, Iso, Morphism over lists with nils and repeats, NewLensM)."""
import json
import random
import re

XORABLE = {"int8", "uint8", "int16", "uint16", "int32", "uint32", "float32", "int64", "uint64", "int", "uint", "float64",
           "uintptr", "complex64", "complex128", "[3]int16", "[5]byte", "MyInt", "MyI8", "MyI16", "myLow", "MyF", "MyArr"}
AUTO = {  # BiMapX[S, A, B]: field type A -> (constructor, B)
    "string": ("BiMapS", "MyStr"), "MyStr": ("BiMapS", "string"), "[]byte": ("BiMapB", "MyBytes"), "MyBytes": ("BiMapB", "[]byte"),
    "int64": ("BiMapI", "MyInt"), "MyInt": ("BiMapI", "int64"), "int8": ("BiMapI", "MyI8"), "MyI16": ("BiMapI", "int16"),
    "float64": ("BiMapF", "MyF"), "MyF": ("BiMapF", "float64"),
}
# BiMapI[S, A, B] ACROSS WIDTHS: the constraint optics.Int is a union of types of different sizes, so B(a) / A(b) are
# conversions by value (sign extension / truncation), mutually inverse on the values of the narrower type only.
# Signed integer types of the shapes -> bytes.  (BiMapF float32 <-> float64 is not generated: its conversion is not
# a function the byte model has.)
WIDTH = {"int8": 1, "MyI8": 1, "int16": 2, "MyI16": 2, "int32": 4, "myLow": 4, "int64": 8, "int": 8, "MyInt": 8}


def key_of(f):
    tag = f.get("tag") or ""
    m = re.search(r'hseq:"((?:[^"\\]|\\.)*)"', tag)
    if m:
        v = m.group(1).replace('\\"', '"').replace("\\\\", "\\")
        head = v.split(",")[0]
        if head:
            return head
    return f["name"]


def listing_of(spec, top):
    """depth-first listing of struct `top` of the shape, as hseq produces it: entries with key, type text, inline flag, path"""
    byname = {s["name"]: s for s in spec["structs"]}
    res = []

    def walk(sname, path, inline):
        for i, f in enumerate(byname[sname]["fields"]):
            p = path + [i]
            res.append({"path": p, "type": f["type"], "inline": inline, "key": key_of(f), "name": f["name"]})
            if f["embed"] and f.get("struct"):
                walk(f["type"].lstrip("*"), p, inline and f["embed"] == "val")
    walk(top, [], True)
    return res


def leaf_for(spec, top, entry, rng):
    """a ForProduct1[top, A](..) request that selects exactly `entry` (first match), or None"""
    L = listing_of(spec, top)
    if not entry["inline"]:
        return None
    by_name = next((e for e in L if e["key"] == entry["key"]), None)
    by_type = next((e for e in L if e["type"] == entry["type"]), None)
    ways = []
    if by_name is entry or (by_name and by_name["path"] == entry["path"]):
        ways.append([entry["key"]])
    if by_type and by_type["path"] == entry["path"]:
        ways.append([])
    if not ways:
        return None
    attr = rng.choice(ways)
    return {"T": top, "A": entry["type"], "attr": attr, "path": entry["path"]}


def leaf_go(l):
    return "optics.ForProduct1[%s, %s](%s)" % (l["T"], l["A"], ", ".join(json.dumps(a) for a in l["attr"]))


def leaf_json(l, fpath):
    return {"o": "field", "T": l["T"], "A": l["A"], "attr": l["attr"], "fpath": fpath}


def tys_go(names):
    return "map[string]reflect.Type{%s}" % ", ".join("%s: tyOf[%s]()" % (json.dumps(n), n) for n in sorted(set(names)))


def go_combos(rng, spec, L_unused):
    T = spec["id"]
    structs = {s["name"] for s in spec["structs"]}
    # a homonym shape (optics_common.HOMONYM): the names in `local` mean function-local types of another underlying type there,
    # the tables XORABLE / AUTO speak of the package-level ones
    local = spec.get("local", {})
    out = ["func combos%s() []combo {" % T, "\tcs := []combo{}"]

    def add_lens(kind, req, tynames, B, expr):
        # vbits: the values put through the lens are drawn from the signed integers of that many bits (0: any value of B)
        out.append("\tcs = append(cs, lensCombo(%s, obj{\"optic\": %s, \"kind\": %s, \"B\": %s, \"outer_path\": %s, \"vbits\": %d}, %s, tyOf[%s](), func() any { return %s }))"
                   % (json.dumps(kind), go_obj(req["optic"]), json.dumps(req["kind"]), json.dumps(B), go_obj(req.get("outer_path", [])),
                      req.get("vbits", 0), tys_go(tynames + [B]), B, expr))

    top = listing_of(spec, T)
    inline = [e for e in top if e["inline"]]
    # ---- Join chains: S -> struct field -> (struct field ->) leaf
    chains = []

    def extend(container, prefix_leaves, prefix_path, depth):
        for e in listing_of(spec, container):
            if not e["inline"]:
                continue
            l = leaf_for(spec, container, e, rng)
            if l is None:
                continue
            leaves = prefix_leaves + [l]
            fpath = prefix_path + e["path"]
            if len(leaves) >= 2:
                chains.append((leaves, fpath))
            if e["type"] in structs and depth < 3:
                extend(e["type"], leaves, fpath, depth + 1)
    extend(T, [], [], 1)
    rng.shuffle(chains)
    chains.sort(key=lambda c: -len(c[0]))
    for leaves, fpath in chains[:5]:
        expr = leaf_go(leaves[0])
        o = leaf_json(leaves[0], [])
        for l in leaves[1:]:
            expr = "optics.Join(%s, %s)" % (expr, leaf_go(l))
            o = {"o": "join", "a": o, "b": leaf_json(l, [])}
        o["fpath"] = fpath
        names = [x for l in leaves for x in (l["T"], l["A"])]
        add_lens("join", {"optic": o, "kind": "lens", "outer_path": leaves[0]["path"]}, names, leaves[-1]["A"], expr)
    # ---- the same chains behind a first component that is NOT a field lens (an identity BiMap over the struct-typed
    #      field: a lens that can only hand out copies), left-nested as above, and the right-nested association of the
    #      plain chain: Join is associative in what it reads and writes
    for leaves, fpath in chains[:3]:
        A0 = leaves[0]["A"]
        if A0 in local:
            continue
        expr = "optics.BiMap(%s, ident[%s], ident[%s])" % (leaf_go(leaves[0]), A0, A0)
        o = {"o": "bimap", "x": leaf_json(leaves[0], []), "code": 0, "B": A0, "fpath": []}
        for l in leaves[1:]:
            expr = "optics.Join(%s, %s)" % (expr, leaf_go(l))
            o = {"o": "join", "a": o, "b": leaf_json(l, [])}
        o["fpath"] = fpath
        names = [x for l in leaves for x in (l["T"], l["A"])]
        add_lens("join-behind-bimap", {"optic": o, "kind": "lens", "outer_path": leaves[0]["path"]}, names, leaves[-1]["A"], expr)
        if len(leaves) >= 3:
            expr = leaf_go(leaves[-1])
            o = leaf_json(leaves[-1], [])
            for l in reversed(leaves[:-1]):
                expr = "optics.Join(%s, %s)" % (leaf_go(l), expr)
                o = {"o": "join", "a": leaf_json(l, []), "b": o}
            o["fpath"] = fpath
            add_lens("join-right", {"optic": o, "kind": "lens", "outer_path": leaves[0]["path"]}, names, leaves[-1]["A"], expr)
    # ---- BiMap / Getter / Setter with the involution xorBytes, BiMapS/B/I/F
    cands = [e for e in inline if leaf_for(spec, T, e, rng)]
    rng.shuffle(cands)
    n = 0
    for e in cands:
        l = leaf_for(spec, T, e, rng)
        if e["type"] in XORABLE and e["type"] not in local and n < 4:
            n += 1
            A = e["type"]
            o = {"o": "conv", "x": leaf_json(l, e["path"]), "code": 1, "B": A, "fpath": e["path"]}
            which = n % 3
            if which == 0:
                add_lens("bimap", {"optic": dict(o, o="bimap"), "kind": "lens"}, [T, A], A,
                         "optics.BiMap(%s, xorBytes[%s], xorBytes[%s])" % (leaf_go(l), A, A))
            elif which == 1:
                add_lens("getter", {"optic": dict(o, o="getter"), "kind": "getter"}, [T, A], A,
                         "optics.Getter(%s, xorBytes[%s])" % (leaf_go(l), A))
            else:
                add_lens("setter", {"optic": dict(o, o="setter"), "kind": "setter"}, [T, A], A,
                         "optics.Setter(%s, xorBytes[%s])" % (leaf_go(l), A))
        if e["type"] in AUTO and e["type"] not in local and rng.random() < 0.6:
            fn, B = AUTO[e["type"]]
            if B in local:
                B = "pkg" + B
            o = {"o": "bimap", "x": leaf_json(l, e["path"]), "code": 0, "B": B, "fpath": e["path"]}
            add_lens(fn.lower(), {"optic": o, "kind": "lens"}, [T, e["type"], B], B,
                     "optics.%s[%s, %s, %s](%s)" % (fn, T, e["type"], B, ", ".join(json.dumps(a) for a in l["attr"])))
    # ---- everything below draws from a stream of its own (a function of the shape): the requests above stay what they were
    xr = random.Random("c04x/" + json.dumps(spec, sort_keys=True))

    def pkg(t):
        return "pkg" + t if t in local else t

    def bimapi(e, l, B):
        """BiMapI[T, A, B] on the field e of type A: (optic, Go expression)"""
        o = {"o": "bimap", "x": leaf_json(l, e["path"]), "code": 0 if WIDTH[e["type"]] == WIDTH[B] else 2, "B": pkg(B), "fpath": e["path"]}
        return o, "optics.BiMapI[%s, %s, %s](%s)" % (T, e["type"], pkg(B), ", ".join(json.dumps(a) for a in l["attr"]))
    # ---- BiMapI across widths: a narrow field exposed as a wider type and a wide field exposed as a narrower one; the
    #      values put are those of the narrower type (negative ones included: sign extension), on which the conversions
    #      are mutually inverse
    ints = [e for e in cands if e["type"] in WIDTH and e["type"] not in local]
    xr.shuffle(ints)
    want = ["wider", "narrower"]
    for e in ints:
        if not want:
            break
        A = e["type"]
        for w in list(want):
            Bs = sorted(b for b in WIDTH if (WIDTH[b] > WIDTH[A]) == (w == "wider") and WIDTH[b] != WIDTH[A])
            if not Bs:
                continue
            want.remove(w)
            l = leaf_for(spec, T, e, xr)
            B = xr.choice(Bs)
            o, expr = bimapi(e, l, B)
            add_lens("bimapi-width", {"optic": o, "kind": "lens", "vbits": 8 * min(WIDTH[A], WIDTH[B])}, [T, A, pkg(B)], pkg(B), expr)
    # ---- Iso / Morphism between two instances of the shape
    leaves = [(e, leaf_for(spec, T, e, rng)) for e in inline]
    leaves = [(e, l) for e, l in leaves if l is not None]
    pairs = [(a, b) for a in leaves for b in leaves if a[0]["type"] == b[0]["type"]]
    for k in range(3 if pairs else 0):
        n = rng.randint(1, 5) if k else 1
        isos, exprs = [], []
        for i in range(n):
            r = rng.random()
            if r < 0.2 and k:
                isos.append(None)
                exprs.append("optics.Isomorphism[%s, %s](nil)" % (T, T))
            elif r < 0.4 and [x for x in isos if x]:
                j = rng.choice([j for j, x in enumerate(isos) if x])
                isos.append(isos[j])
                exprs.append(exprs[j])
            else:
                (ea, la), (eb, lb) = rng.choice(pairs)
                la2, lb2 = leaf_for(spec, T, ea, rng), leaf_for(spec, T, eb, rng)
                isos.append({"sa": leaf_json(la2, ea["path"]), "ta": leaf_json(lb2, eb["path"])})
                exprs.append("optics.Iso(%s, %s)" % (leaf_go(la2), leaf_go(lb2)))
        names = [T] + [x["sa"]["A"] for x in isos if x]
        if n == 1 and k == 0:
            expr = exprs[0]
            kind = "iso"
        else:
            expr = "optics.Morphism[%s, %s](%s)" % (T, T, ", ".join(exprs))
            kind = "morphism"
        out.append("\tcs = append(cs, isoCombo(%s, obj{\"isos\": %s}, %s, func() any { return %s }))"
                   % (json.dumps(kind), go_obj(isos), tys_go(names), expr))
    # ---- Morphism lists in which an iso over a COMPOSED lens (BiMap, BiMapS/B/I/F, Getter, Setter: their values carry
    #      func fields) occurs twice - adjacent and not, with nil and plain entries in between.  Every entry is bound to
    #      a variable, so a repeated entry is the same iso value.
    by_value = {}     # value type X -> lenses Lens[T, X]: (optic, Go expression, composed?)

    def offer(X, o, expr, composed):
        by_value.setdefault(X, []).append((o, expr, composed))
    for e, l in leaves:
        A = e["type"]
        offer(A, leaf_json(l, e["path"]), leaf_go(l), False)
        if A in local:
            continue
        if A in XORABLE:
            o = {"x": leaf_json(l, e["path"]), "code": 1, "B": A, "fpath": e["path"]}
            offer(A, dict(o, o="bimap"), "optics.BiMap(%s, xorBytes[%s], xorBytes[%s])" % (leaf_go(l), A, A), True)
            offer(A, dict(o, o="getter"), "optics.Getter(%s, xorBytes[%s])" % (leaf_go(l), A), True)
            offer(A, dict(o, o="setter"), "optics.Setter(%s, xorBytes[%s])" % (leaf_go(l), A), True)
        if A in AUTO:
            fn, B = AUTO[A]
            o = {"o": "bimap", "x": leaf_json(l, e["path"]), "code": 0, "B": pkg(B), "fpath": e["path"]}
            offer(pkg(B), o, "optics.%s[%s, %s, %s](%s)" % (fn, T, A, pkg(B), ", ".join(json.dumps(a) for a in l["attr"])), True)
        if A in WIDTH:
            for B in xr.sample(sorted(b for b in WIDTH if WIDTH[b] != WIDTH[A]), 2):
                o, expr = bimapi(e, l, B)
                offer(pkg(B), o, expr, True)

    def disjoint(p, q):
        n = min(len(p), len(q))
        return p[:n] != q[:n]

    def draw_iso(composed, avoid=()):
        """an iso (sa, ta) over one value type; composed: at least one side is a composed lens; its target lies off `avoid`"""
        for _ in range(40):
            X = xr.choice(sorted(by_value))
            sa, ta = xr.choice(by_value[X]), xr.choice(by_value[X])
            if composed != (sa[2] or ta[2]):
                continue
            if composed and sa[0]["o"] == "setter" and ta[0]["o"] == "getter" and xr.random() < 0.8:
                continue    # copies nothing forward
            if all(disjoint(ta[0]["fpath"], p) for p in avoid):
                return {"sa": sa[0], "ta": ta[0]}, "optics.Iso(%s, %s)" % (sa[1], ta[1])
        return None
    NIL = (None, "optics.Isomorphism[%s, %s](nil)" % (T, T))
    for k in range(2):
        X = draw_iso(True)
        if X is None:
            break
        tx = [X[0]["ta"]["fpath"]]
        P = draw_iso(False, tx) or NIL
        Y = draw_iso(True, tx) or X
        form = [[X, X], [X, NIL, X], [X, P, X], [NIL, X, NIL, NIL, X], [X, Y, X, Y], [P, X, X, NIL], [X, NIL, P, Y, NIL, X]]
        entries = xr.choice(form[2:] if k else form[:4])
        var, binds, args = {}, [], []
        for it in entries:
            if it[0] is None:
                args.append(it[1])
                continue
            if it[1] not in var:
                var[it[1]] = "x%d" % len(var)
                binds.append("%s := %s" % (var[it[1]], it[1]))
            args.append(var[it[1]])
        isos = [it[0] for it in entries]
        names = [T]
        for i in isos:
            for o in (i["sa"], i["ta"]) if i else ():
                names += [o["A"]] if o["o"] == "field" else [o["x"]["A"], o["B"]]
        out.append("\tcs = append(cs, isoCombo(\"morphism\", obj{\"isos\": %s}, %s, func() any { %s; return optics.Morphism[%s, %s](%s) }))"
                   % (go_obj(isos), tys_go(names), "; ".join(binds), T, T, ", ".join(args)))
        # a morphism is an isomorphism: the same list with a morphism of its first two entries in front, and with a
        # morphism of its middle entries inside - both mean the flat list (Forward and Inverse run in list order)
        if len(args) >= 3:
            mm = "optics.Morphism[%s, %s]" % (T, T)
            nestings = ["%s(%s(%s), %s)" % (mm, mm, ", ".join(args[:2]), ", ".join(args[2:])),
                        "%s(%s, %s(%s), %s)" % (mm, args[0], mm, ", ".join(args[1:-1]), args[-1])]
            for nx in nestings:
                out.append("\tcs = append(cs, isoCombo(\"morphism-nested\", obj{\"isos\": %s}, %s, func() any { %s; return %s }))"
                           % (go_obj(isos), tys_go(names), "; ".join(binds), nx))
    if T == "K0":
        for k in range(6):
            init = {rng.choice(["a", "b", "c", "k", ""]): rng.randint(-5, 5) for _ in range(rng.randint(0, 4))}
            key = rng.choice(["a", "b", "k", "zz", ""])
            v = rng.randint(-100, 100)
            out.append("\tcs = append(cs, mapCombo(obj{\"init\": %s, \"key\": %s, \"v\": %d}, map[string]int{%s}, %s, %d))"
                       % (go_obj([[a, b] for a, b in sorted(init.items())]), json.dumps(key), v,
                          ", ".join("%s: %d" % (json.dumps(a), b) for a, b in sorted(init.items())), json.dumps(key), v))
    out.append("\treturn cs")
    out.append("}")
    return "\n".join(out)


def go_obj(v):
    """a Go expression of type any (obj / []any / scalars) for a JSON-like Python value"""
    if v is None:
        return "nil"
    if isinstance(v, bool):
        return "true" if v else "false"
    if isinstance(v, int):
        return str(v)
    if isinstance(v, str):
        return json.dumps(v)
    if isinstance(v, list):
        return "[]any{%s}" % ", ".join(go_obj(x) for x in v)
    return "obj{%s}" % ", ".join("%s: %s" % (json.dumps(k), go_obj(x)) for k, x in sorted(v.items()))
