"""C16 - duct builds the AST its combinators describe; visits are well-bracketed."""
import json
import os
import random
import shutil

import vlib

ID = "C16"
CHECK_MODULE = "Check.C16"
ORACLE_MODULE = "Check.C16o"
TARGETS_CHECK = ["theories/Check/C16o.vo", "theories/Check/C16.vo"]
TARGETS_PROP = ["theories/Properties/C16.vo"]
SHARD = 80
RULE = ("combinator programs From[A] followed by Join/LiftF/WrapF/Unit/Yield steps (each intermediate morphism used once, explicit Go "
        "type arguments) are GENERATED as Go source against /repo/duct and compiled: ALL well-typed programs of up to 2 steps (3 in "
        "thorough) over int, []int, [][]int, string, []string (+ Void after Yield; at most 3 open nested contexts, slice depth <= 3), "
        "plus a VERIF_SEED-seeded sample of programs of 3..6 steps (4..7 in thorough) biased towards nesting, also over *int, []*int. "
        "Each program's AST is built once by the real combinators, visited by a recording visitor and by a visitor failing at EVERY "
        "callback position. A case is distinct by its program; non-trivial when it opens a nested context")
TRUSTED = [
    "modelled, not verified: in-place mutation of the shared *AstSeq as a functional update of the tree; reflect-based duct.TypeOf as "
    "Duct/Ast.typeName over the type codes of the generated program; Go's type checker as Duct/Ast.type_step (re-checked on every case)",
    "the Go source generator of tools/runner/props/c16.py, harness/c16/lib.go (recording / failing visitors) and the JSON -> Coq case writer",
]
CLAIM = {
    "text": "Coq theorems: for EVERY program of From/Join/LiftF/WrapF/Unit/Yield (no bound on length or nesting, typing not even needed) the tree "
            "built by the transcribed append/unit of ast.go equals the tree of an explicit stack-of-open-contexts machine (Join/Yield into the "
            "innermost open context, LiftF/WrapF open one there, Unit closes the innermost open nested one, no-op at the root), with exactly one "
            "root and type names = typeName of the step's type parameters; Apply on ANY ast feeds the visitor exactly the in-order enter/children/"
            "leave word until the first error, which is returned (visit_first_error), and that word is well-bracketed as a stack discipline "
            "(same node, same depth, children one level deeper). Model and oracle are run against the real package on generated Go programs "
            "with recording and failing visitors at every callback position.",
    "design_ref": "DESIGN.md 3/C16",
    "note": "Trusted: Coq kernel + vm_compute, the hand transcription of append/unit/Apply (pointer mutation as functional update), typeName as a "
            "model of reflect, the Go source generator and harness. Programs using an intermediate morphism twice are outside the property.",
    "technique": "Coq proof (zipper/stack invariant for append/unit, Apply = feed of the flattened word) + generated Go programs run against model and oracle",
}
ASSUMPTIONS = [
    "every intermediate morphism is used exactly once (the AST is shared and mutated by the combinators)",
    "visitor callbacks do not modify the AST they are shown",
    "type names are compared for the generated universe (named types int, string, Void; slices; pointers), as produced by reflect's Name()",
]

U = ["int", "[]int", "[][]int", "string", "[]string"]
U_EXTRA = U + ["*int", "[]*int"]
MAX_OPEN = 3
MAX_SLICE = 3
EXE = "c16.bin"


# ---- typing of programs (mirrors Duct/Ast.type_step; Coq re-checks every case, Go compiles every case) ----
def sdepth(t):
    n = 0
    while t.startswith("[]"):
        t = t[2:]
        n += 1
    return n


def steps(cur, od, universe):
    """possible next steps: (op dict without id, new current type, new number of open nested contexts)"""
    out = []
    for c in universe:
        out.append(({"op": "join", "b": cur, "c": c}, c, od))
    if cur.startswith("[]") and od < MAX_OPEN:
        for c in universe:
            out.append(({"op": "liftf", "b": cur[2:], "c": c}, c, od + 1))
        out.append(({"op": "wrapf", "b": cur[2:]}, cur[2:], od + 1))
    if sdepth(cur) < MAX_SLICE:
        out.append(({"op": "unit", "b": cur}, "[]" + cur, max(0, od - 1)))
    out.append(({"op": "yield", "b": cur}, "Void", od))
    return out


def with_ids(a, ops):
    ops = [dict(o) for o in ops]
    for k, o in enumerate(ops):
        if o["op"] in ("join", "liftf", "yield"):
            o["id"] = k + 1
    return {"a": a, "src": 0, "ops": ops}


def exhaustive(maxlen):
    progs = []

    def rec(a, cur, od, ops):
        progs.append(with_ids(a, ops))
        if len(ops) == maxlen:
            return
        for o, c, d in steps(cur, od, U):
            rec(a, c, d, ops + [o])
    for a in U:
        rec(a, a, 0, [])
    return progs


def sample_programs(rng, n, lo, hi):
    progs = []
    weight = {"join": 3, "liftf": 4, "wrapf": 3, "unit": 4, "yield": 1}
    for _ in range(n):
        a = rng.choice(U_EXTRA)
        cur, od, ops = a, 0, []
        for _ in range(rng.randint(lo, hi)):
            cands = steps(cur, od, U_EXTRA)
            kinds = sorted({c[0]["op"] for c in cands})
            k = rng.choices(kinds, weights=[weight[x] for x in kinds])[0]
            pool = [c for c in cands if c[0]["op"] == k]
            if k in ("join", "liftf"):
                # slices as targets keep LiftF/WrapF applicable
                sl = [c for c in pool if c[1].startswith("[]")]
                if sl and rng.random() < 0.6:
                    pool = sl
            o, cur, od = rng.choice(pool)
            ops.append(o)
        progs.append(with_ids(a, ops))
    return progs


# ---- Go source of a program ----
def gotype(t):
    return t.replace("Void", "duct.Void")


def go_program(name, p):
    a = gotype(p["a"])
    lines = ["func %s() func(duct.Visitor) error {" % name,
             "\tm0 := duct.From[%s](duct.L1[%s](int64(%d)))" % (a, a, p["src"])]
    for k, o in enumerate(p["ops"], 1):
        b = gotype(o["b"])
        if o["op"] == "join":
            c = gotype(o["c"])
            rhs = "duct.Join[%s, %s, %s](duct.L2[%s, %s](int64(%d)), m%d)" % (a, b, c, b, c, o["id"], k - 1)
        elif o["op"] == "liftf":
            c = gotype(o["c"])
            rhs = "duct.LiftF[%s, %s, %s](duct.L2[%s, %s](int64(%d)), m%d)" % (a, b, c, b, c, o["id"], k - 1)
        elif o["op"] == "wrapf":
            rhs = "duct.WrapF[%s, %s](m%d)" % (a, b, k - 1)
        elif o["op"] == "unit":
            rhs = "duct.Unit[%s, %s](m%d)" % (a, b, k - 1)
        elif o["op"] == "yield":
            rhs = "duct.Yield[%s, %s](duct.L1[%s](int64(%d)), m%d)" % (a, b, b, o["id"], k - 1)
        else:
            raise ValueError(o["op"])
        lines.append("\tm%d := %s" % (k, rhs))
    lines.append("\treturn m%d.Apply" % len(p["ops"]))
    lines.append("}")
    return "\n".join(lines)


def go_source(progs):
    out = ["// GENERATED by tools/runner/props/c16.py - one function per combinator program", "package main", "",
           'import "github.com/fogfish/golem/duct"', ""]
    for i, p in enumerate(progs):
        out.append(go_program("p%d" % i, p))
        out.append("")
    out.append("var programs = []program{")
    for i in range(len(progs)):
        out.append("\tp%d," % i)
    out.append("}")
    return "\n".join(out) + "\n"


def run_programs(ctx, progs, tag="c16"):
    """generate, compile against /repo/duct, run; returns the cases (program + observations)"""
    d = vlib.scratch_dir(tag)
    try:
        shutil.copy(os.path.join(vlib.ROOT, "harness/c16/lib.go"), os.path.join(d, "lib.go"))
        with open(os.path.join(d, "progs.go"), "w") as f:
            f.write(go_source(progs))
        vlib.write_gomod(d, "harness", requires=["duct"])
        exe = os.path.join(ctx.workdir, EXE)
        rc, out = vlib.go_build(d, ".", exe)
        if rc != 0:
            raise vlib.HarnessError("generated programs do not build against /repo/duct:\n" + out[-1500:])
        rc, so, se = vlib.sh2([exe], env=ctx.env, timeout=600)
        if rc != 0:
            raise vlib.HarnessError("harness failed (rc %d): %s" % (rc, se[-1500:]))
        res = [json.loads(l) for l in so.split("\n") if l.strip()]
        if len(res) != len(progs):
            raise vlib.HarnessError("harness reported %d of %d programs" % (len(res), len(progs)))
        cases = []
        for r in res:
            c = dict(progs[r["idx"]])
            c.update({"trace": r["trace"], "clean_err": r["clean_err"], "fails": r["fails"]})
            cases.append(c)
        return cases
    finally:
        shutil.rmtree(d, ignore_errors=True)


def programs_for(tier, seed):
    rng = random.Random(int(seed))
    if tier == "thorough":
        progs = exhaustive(3) + sample_programs(rng, 6000, 4, 7)
    else:
        progs = exhaustive(2) + sample_programs(rng, 2500, 3, 6)
    seen = set()
    out = []
    for p in progs:
        k = json.dumps(p, sort_keys=True)
        if k not in seen:
            seen.add(k)
            out.append(p)
    return out


def run_impl(ctx, tier=None):
    if ctx.replay_cases:
        progs = [{"a": c["a"], "src": c["src"], "ops": c["ops"]} for c in ctx.replay_cases]
    else:
        progs = programs_for(tier or ctx.tier, ctx.seed)
    return run_programs(ctx, progs)


# ---- Coq terms ----
def ty_coq(t):
    if t.startswith("[]"):
        return "(TSlice %s)" % ty_coq(t[2:])
    if t.startswith("*"):
        return "(TPtr %s)" % ty_coq(t[1:])
    return '(TNamed "%s")' % t


def op_coq(o):
    k = o["op"]
    if k == "join":
        return "OJoin %s %s %s" % (ty_coq(o["b"]), ty_coq(o["c"]), vlib.zlit(o["id"]))
    if k == "liftf":
        return "OLiftF %s %s %s" % (ty_coq(o["b"]), ty_coq(o["c"]), vlib.zlit(o["id"]))
    if k == "wrapf":
        return "OWrapF %s" % ty_coq(o["b"])
    if k == "unit":
        return "OUnit %s" % ty_coq(o["b"])
    if k == "yield":
        return "OYield %s %s" % (ty_coq(o["b"]), vlib.zlit(o["id"]))
    raise ValueError(k)


def cb_coq(c):
    return 'mkO %d%%nat %s "%s" "%s" %s %s %s %s' % (c["k"], vlib.zlit(c["d"]), c["n1"], c["n2"], vlib.zlit(c["id"]),
                                                   vlib.zlit(c["nc"]), vlib.blit(c["root"]), vlib.blit(c["def"]))


def to_coq(c):
    prog = "(mkProg %s %s [%s])" % (ty_coq(c["a"]), vlib.zlit(c["src"]), "; ".join(op_coq(o) for o in c["ops"]))
    trace = "[" + "; ".join(cb_coq(x) for x in c["trace"]) + "]"
    fails = "[" + "; ".join("mkF %s %s %s" % (vlib.zlist(f["codes"]), vlib.blit(f["err"]), vlib.blit(f["same"])) for f in c["fails"]) + "]"
    return "mk %s\n    %s %s\n    %s" % (prog, trace, vlib.blit(c["clean_err"]), fails)


# ---- the stack-of-open-contexts reading of a program (diagnosis, shrinking, replay texts only; the verdict is Coq's) ----
def type_name(t):
    return t


def spec_tree(p):
    cur = [("from", type_name(p["a"]), "", p["src"])]
    ctx = []
    for o in p["ops"]:
        k = o["op"]
        if k == "join":
            cur.append(("map", o["b"], o["c"], o["id"]))
        elif k == "liftf":
            ctx.append(cur)
            cur = [("map", o["b"], o["c"], o["id"])]
        elif k == "wrapf":
            ctx.append(cur)
            cur = []
        elif k == "unit":
            if ctx:
                closed = ("seq", False, cur)
                cur = ctx.pop()
                cur.append(closed)
        elif k == "yield":
            cur.append(("yield", o["b"], "", o["id"]))
    node = ("seq", not ctx, cur)
    while ctx:
        parent = ctx.pop()
        parent.append(node)
        node = ("seq", not ctx, parent)
    return node


def flatten(node, d, out):
    if node[0] == "seq":
        k = 0 if node[1] else 2
        rec = {"d": d, "n1": "", "n2": "", "id": 0, "nc": len(node[2]), "root": node[1]}
        out.append(dict(rec, k=k))
        for ch in node[2]:
            flatten(ch, d + 1, out)
        out.append(dict(rec, k=k + 1))
    else:
        k = {"map": 4, "from": 6, "yield": 8}[node[0]]
        rec = {"d": d, "n1": node[1], "n2": node[2], "id": node[3], "nc": -1, "root": False}
        out.append(dict(rec, k=k))
        out.append(dict(rec, k=k + 1))
    return out


def code(c):
    ident = c["id"] if c["nc"] < 0 else 2 * c["nc"] + (1 if c["root"] else 0)
    return c["k"] + 16 * c["d"] + 512 * ident


KEYS = ("k", "d", "n1", "n2", "id", "nc", "root")
KIND = ["EnterMorphism", "LeaveMorphism", "EnterSeq", "LeaveSeq", "EnterMap", "LeaveMap", "EnterFrom", "LeaveFrom", "EnterYield", "LeaveYield"]


def first_diff(c):
    """(aspect, detail) of the first departure of the observation from the specification, or None"""
    want = flatten(spec_tree(c), 0, [])
    obs = c["trace"]
    for i in range(max(len(want), len(obs))):
        if i >= len(obs) or i >= len(want):
            return "tree", {"callback": i, "observed": obs[i] if i < len(obs) else None, "required": want[i] if i < len(want) else None}
        a, b = obs[i], want[i]
        if any(a[k] != b[k] for k in KEYS):
            aspect = "names" if all(a[k] == b[k] for k in ("k", "d", "id", "nc", "root")) else "tree"
            return aspect, {"callback": i, "observed": a, "required": b}
    if c["clean_err"]:
        return "error", {"what": "Apply returned an error although no callback failed"}
    codes = [code(x) for x in want]
    if len(c["fails"]) != len(want):
        return "error", {"what": "failing visits", "observed": len(c["fails"]), "required": len(want)}
    for j, f in enumerate(c["fails"]):
        if f["codes"] != codes[:j + 1] or not f["err"] or not f["same"]:
            return "error", {"failing_callback": j, "callbacks_seen": len(f["codes"]), "required_seen": j + 1,
                             "error_returned": f["err"], "same_error": f["same"]}
    return None


def fmt_op(o):
    k = o["op"]
    if k == "join":
        return "Join[A,%s,%s](f%d)" % (o["b"], o["c"], o["id"])
    if k == "liftf":
        return "LiftF[A,%s,%s](f%d)" % (o["b"], o["c"], o["id"])
    if k == "wrapf":
        return "WrapF[A,%s]" % o["b"]
    if k == "unit":
        return "Unit[A,%s]" % o["b"]
    return "Yield[A,%s](t%d)" % (o["b"], o["id"])


def fmt_prog(c):
    return ["From[%s](s%d)" % (c["a"], c["src"])] + [fmt_op(o) for o in c["ops"]]


def fmt_trace(tr):
    return ["%s%s@%d %s" % ("  " * x["d"], KIND[x["k"]], x["d"],
                            ("children=%d" % x["nc"]) if x["nc"] >= 0 else ("%s %s #%d" % (x["n1"], x["n2"], x["id"])).replace("  ", " "))
            for x in tr]


def nontrivial_key(c):
    if any(o["op"] in ("liftf", "wrapf") for o in c["ops"]):
        return json.dumps([c["a"], c["ops"]], sort_keys=True)
    return None


def signature(c):
    d = first_diff(c)
    return {"kind": "duct-ast", "aspect": d[0] if d else "?"}


def describe(c):
    d = first_diff(c)
    out = {"program": fmt_prog(c), "observed_trace": fmt_trace(c["trace"]),
           "required_trace": fmt_trace(flatten(spec_tree(c), 0, []))}
    if d:
        out["differs_in"] = d[0]
        out["first_difference"] = d[1]
    return out


def sample(c):
    return {"program": fmt_prog(c), "callbacks": len(c["trace"]), "failing_visits": len(c["fails"])}




def histogram(cases):
    h = {}
    for c in cases:
        h["len%d" % len(c["ops"])] = h.get("len%d" % len(c["ops"]), 0) + 1
        for o in c["ops"]:
            h[o["op"]] = h.get(o["op"], 0) + 1
        md = max([x["d"] for x in c["trace"]] or [0])
        h["depth%d" % md] = h.get("depth%d" % md, 0) + 1
    return h


def shrink(ctx, c):
    """shortest failing prefix (every prefix of a well-typed program is well typed): one generated build"""
    d = first_diff(c)
    if d is None:
        return c
    done = getattr(ctx, "shrunk", set())
    ctx.shrunk = done
    if d[0] in done or len(c["ops"]) <= 1:
        return c
    done.add(d[0])
    prefixes = [{"a": c["a"], "src": c["src"], "ops": c["ops"][:n]} for n in range(1, len(c["ops"]))]
    try:
        res = run_programs(ctx, prefixes, tag="c16s")
    except Exception:
        return c
    for r in res:
        d2 = first_diff(r)
        if d2 is not None and d2[0] == d[0]:
            return r
    return c


def search(ctx, evaluate):
    cases = run_impl(ctx, tier="thorough")
    ev = evaluate(cases)
    found = [cases[i] for i in sorted(set(ev["violations"]))]
    return found, {"explored": len(cases), "found": len(found)}
