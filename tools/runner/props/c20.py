"""C20 - PipeN composes its functions left to right, each applied exactly once."""
import json
import os
import shutil

import vlib

ID = "C20"
CHECK_MODULE = "Check.C20"
ORACLE_MODULE = "Check.C20o"
GEN = [("GenPipe.v", "pipe", ["internal/pipe/pipe.go"])]
GEN_DEPS = ["GenPipe.v"]
TARGETS_CHECK = ["theories/Check/C20o.vo", "theories/Check/C20.vo"]
TARGETS_PROP = ["theories/Properties/C20.vo"]
RULE = ("for every N=2..20 and each of the families of pairwise non-commuting functions (affine 2x+i, "
        "mixed x-i / 3x, append-index on lists, append-index on interface values with the nil interface as empty list) the staged copy of /repo/internal/pipe is run on random arguments "
        "(|x| < 2^20, lists of length 0..2) from VERIF_SEED; a case is distinct by (arity, family, input) and "
        "non-trivial when the result separates at least two orders of application (always true for these families)")
TRUSTED = [
    "tools/go2coq mode pipe (go/parser AST -> shallow Gallina definition and call tree of each PipeN; let-bound names substituted)",
    "modelled, not verified: Go's evaluation order of nested calls (operands before the call) as Base/CallTree.calls",
]
CLAIM = {
  "text": "Per-arity theorems (N=2..20) proved by the Coq kernel about definitions regenerated from internal/pipe/pipe.go on every run: PipeN f1..fN a = fN(..(f1 a)) for all types, functions and arguments, and the body's call tree calls each parameter exactly once in supply order. The generated definitions are additionally run against the real code on non-commuting function families.",
  "design_ref": "DESIGN.md 3/C20",
  "note": "Trusted: Coq kernel + vm_compute, tools/go2coq (AST -> Gallina), Go's evaluation order for nested calls as modelled by CallTree.calls; user functions total and pure.",
  "technique": "Coq proof over translator-regenerated definitions + differential run of model vs code",
 }
ASSUMPTIONS = [
    "the functions passed to PipeN are total and side-effect free (the call-count claim is about the call tree of the body)",
    "int64 arithmetic of the coded families does not overflow (inputs are bounded so that it cannot)",
]


def stage(ctx):
    d = vlib.scratch_dir("c20")
    os.makedirs(os.path.join(d, "ipipe"))
    os.makedirs(os.path.join(d, "cmd"))
    shutil.copy(os.path.join(vlib.REPO, "internal/pipe/pipe.go"), os.path.join(d, "ipipe/pipe.go"))
    shutil.copy(os.path.join(vlib.ROOT, "harness/c20/main.go"), os.path.join(d, "cmd/main.go"))
    with open(os.path.join(d, "go.mod"), "w") as f:
        f.write("module github.com/fogfish/golem\n\ngo 1.24\n")
    return d


def run_impl(ctx, tier=None):
    d = stage(ctx)
    try:
        exe = os.path.join(d, "c20.bin")
        rc, out = vlib.go_build(d, "./cmd", exe)
        if rc != 0:
            raise vlib.HarnessError("harness does not build against /repo/internal/pipe:\n" + out[-1500:])
        env = dict(ctx.env)
        if tier:
            env["VERIF_TIER"] = tier
        rc, so, se = vlib.sh2([exe], env=env, timeout=300)
        if rc != 0:
            raise vlib.HarnessError("harness failed (rc %d): %s" % (rc, se[-1500:]))
        cases = [json.loads(l) for l in so.split("\n") if l.strip()]
        if ctx.replay_cases:
            want = {(c["arity"], c["fam"], tuple(c["input"])) for c in ctx.replay_cases}
            # the harness is deterministic in (arity, fam, input): re-run by regenerating with the recorded seed
            cases = [c for c in cases if (c["arity"], c["fam"], tuple(c["input"])) in want] or cases
        return cases
    finally:
        shutil.rmtree(d, ignore_errors=True)


def to_coq(c):
    return "mk %s %s %s %s" % (vlib.nlit(c["arity"]), vlib.nlit(c["fam"]), vlib.zlist(c["input"]), vlib.zlist(c["observed"]))


def nontrivial_key(c):
    return (c["arity"], c["fam"], tuple(c["input"]))


def signature(c):
    return {"kind": "pipeN-result", "arity": c["arity"]}


def describe(c):
    fam = {0: "f_i(x)=2x+i", 1: "f_i(x)= x-i (i odd) | 3x (i even)", 2: "f_i(l)=append(l,i)", 3: "f_i(x any)=append(list(x),i); the nil interface counts as the list [-1000], a typed nil slice inside the interface (input written [-7777]) as the empty list; [-999] = panic",
           5: "f_i(x float64)=x/2+i on quarters (exact dyadic arithmetic; result reported times 2^24)",
           6: "ONE pipeline value called twice on the same argument; f_i(v)=3v+i*setting, setting 1 in the first call and 2 in the second; observed [first result, second result, stage applications in both calls]",
           7: "one float64 pipeline called on +0 then -0 (input [0]) or -0 then +0 (input [1]); f_1 = -1 or +1 by the sign bit, f_i(v)=v/2+i; results times 2^24 in call order",
           4: "f_i(l)=append(l,i), and stage (N+1)/2 of the outermost call calls the pipeline itself on [100] and appends the length of the result"}[c["fam"]]
    return {"call": "Pipe%s(f_1..f_%d)(%s) with %s" % ("" if c["arity"] == 2 else c["arity"], c["arity"], c["input"], fam),
            "observed": c["observed"], "required": "f_N(...f_2(f_1(a)))"}


def sample(c):
    return describe(c)


def histogram(cases):
    h = {}
    for c in cases:
        k = "fam%d" % c["fam"]
        h[k] = h.get(k, 0) + 1
    return h


def search(ctx, evaluate):
    """after a broken obligation: thorough-size run of the real code against the oracle"""
    cases = run_impl(ctx, tier="thorough")
    ev = evaluate(cases)
    found = [cases[i] for i in sorted(set(ev["violations"]))]
    return found, {"explored": len(cases), "found": len(found)}
