"""C06 - Pipe stages always close, terminate on cancel, never leak or panic."""
import pool_common as pc

pc.install(globals(), "C06", "C06", "close / cancel / no leak / no panic",
    rule=("all stages (Map, FMap incl. failing functions under Lift and Try, Filter, Partition, Take, TakeWhile, ForEach, Void, Fold, Join(2), "
          "Unfold, Emit, Throttling) x capacities 0..2 x (a) random schedules with the cancel at a random position and active consumers, "
          "(b) absent consumers: sends, optional early receives, then cancel and close in both orders and nothing else - the census of "
          "goroutines of package pipe is taken without any further receive, (c) enumerated 5-token interleavings over "
          "{send, close, recv, cancel} (seeded sample); virtual time for Emit/Throttling. Emit under Try failing for ever from some index on + cancel; free-running cancel rounds (real goroutines, consumer parked in a blocking receive, producers parked in their sends, cancel mid-stream; judged in Go). Distinct by full observed trace; "
          "non-trivial when a value was delivered or the run was cancelled"),
    claim={
        "text": "Theorems proved by the Coq kernel for every well-formed stage, capacity and schedule: NOPANIC (no send on a closed channel, no double close), channels are closed only by their owner's return / after all workers returned and are closed once those returned; delivered streams are prefixes of the uncancelled result in every reachable state (cancelled or not; Fold never delivers a partial accumulator); DRAIN and CANCEL-EXIT: with the inputs closed, the only states without an enabled step are those where every goroutine has returned and every channel is closed - after cancel without any receive (plain sends proved never to block); NO LIVELOCK: the internal step relation of a stage (worker steps with either select resolution, the closer) is well-founded from every state - for every stage without generator sources, and for generator stages whose rounds contain a send that needs room, a positive timer or a return (Unfold, Emit, Throttling with ops >= 1 or interval > 0) - so only finitely many internal steps happen between two environment events; PROGRESS: for every sequential stage (Map, FMap, Filter, Partition, Take, TakeWhile, ForEach/Void, Fold) and every ordering of the environment's moves, whenever no internal step is enabled the goroutine has returned, or is parked on an empty open input and accepts the next send at once (also unbuffered), or is blocked in a send on an open output without room - only back-pressure from a consumer keeps a stage from taking its input, it never waits for a token or timer and holds nothing back while every output has room (C06_only_backpressure_blocks, C06_stages_only_backpressure_blocks, C06_room_nothing_held). Tied to the code by trace acceptance incl. goroutine census.",
        "design_ref": "DESIGN.md 2.1.3, 3/C06",
        "note": "Trusted: Coq kernel; Pool machine as model of Go channels/select/goroutines/context; harness (synctest, runtime.Stack census). Assumed: scheduler fairness (an enabled goroutine eventually runs). That the internal steps between two environment events terminate is a theorem (C06_internal_steps_terminate, C06_internal_steps_terminate_gen, C06_generator_stages_terminate; a generator without a blocking statement in its round does spin: C06_generator_without_blocker_spins). A panic inside user callbacks is outside the property.",
        "technique": "Coq proof (safety invariants + progress lemmas over a hand-written model) + trace-acceptance correspondence",
    },
    assumptions=[
        "fair Go scheduler; user callbacks do not panic or block",
        "Throttling's pacer is allowed to live until cancel (as the property states)",
    ])
