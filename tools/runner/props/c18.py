"""C18 - the skip list behaves as an ordered map under any operation history."""
import atexit
import hashlib
import json
import os
import shutil

import vlib

ID = "C18"
CHECK_MODULE = "Check.C18"
ORACLE_MODULE = "Check.C18o"
TARGETS_CHECK = ["theories/Check/C18o.vo", "theories/Check/C18.vo"]
TARGETS_PROP = ["theories/Properties/C18.vo"]
SHARD = 400
RULE = ("histories of Put/Get/Remove run on a staged copy of /repo/internal/maplike/skiplist whose rand.Source is injected, so that "
        "the harness chooses the height of every new node (the Int63 value is computed from the list's own probability table; the "
        "height the node really got is read back from String()). Quick tier: one node of every height 1..levels inserted/removed in "
        "both orders; the Int63 values near 2^63 that round to p = 1.0; every history of length 4 over 3 keys x heights 1..3 "
        "(Put(k,h), Remove(k)) and a seeded sample of 1200 of length 6 (half under the reversed order); 64 random histories of "
        "length 30..60 over universes of 3..20 int keys (incl. 0 = the head's zero key, +-2^31) and string keys, natural and "
        "reversed order traits (ord.Int, ord.From, ord.String, a custom Ord), in 8 scenarios: mixed, ascending inserts, descending "
        "inserts, duplicate inserts, tall nodes (heights up to levels, removing the tallest), removing the last/first key, "
        "absent keys, hostile Int63. Thorough: every history of length 5, 3000 of length 7, 320 random histories of length "
        "200..400 over up to 64 keys. After every operation: Get of every key of the universe and the parsed String(). A case is "
        "distinct by its (key type, order, universe, operations with Int63 values); every case is non-trivial (>= 1 operation)")
TRUSTED = [
    "hand-written heap model Skiplist/Model.v (modelled, not verified: Go slices/pointers as a list of nodes indexed by allocation order; "
    "garbage nodes stay in the heap; the inner walks run on fuel = heap size + 1, proved sufficient under the invariant)",
    "harness/c18/hook/verif_hook.go staged next to a copy of the skiplist sources (NewWithSource replaces list.random; VerifTable reads list.levels/list.p)",
    "string keys are compared through their rank in a fixed sorted universe (Go's byte order of strings = ord.String)",
    "the parser of String() in harness/c18/main.go ('{key\\t| finger finger nil }' lines, %p header dropped)",
]
CLAIM = {
    "text": "Coq theorems about a pointer-level heap model of skiplist.go transcribed loop by loop (skip, search, Put with the splice "
            "loop, Get, Remove with the unlink loop, String): for every comparison that is a total order, every number of levels >= 1, "
            "every history of Put/Get/Remove and every node height in 1..levels the answers equal those of a plain association-list "
            "map (0 for absent keys, overwrite on equal keys) and the printed form lists exactly the live keys strictly ascending "
            "with every non-nil finger of a live node pointing to a strictly larger live key (representation invariant Rep proved "
            "preserved by put/remove). The model is run against the real code on exhaustive small and long random histories with "
            "injected heights, comparing answers, Get of all keys and the whole printed finger structure after every operation.",
    "design_ref": "DESIGN.md 3/C18",
    "note": "Trusted: Coq kernel + vm_compute, the hand-written heap model (tied to the code by the differential run only), the "
            "harness hook injecting rand.Source, the String() parser. Keys are modelled as Z with an arbitrary total order; "
            "string keys are run through order-preserving ranks.",
    "technique": "Coq proof (representation invariant + refinement by induction over the history) + differential run of the heap model vs code",
}
ASSUMPTIONS = [
    "the comparison trait is a total order: Compare(a,b)=EQ iff a=b, Compare(b,a) is the opposite of Compare(a,b), LT is transitive (Section hypotheses of the theorems)",
    "mkNode returns a height in 1..levels (true of the repaired code for every Int63 value; the harness reads the height back from String())",
    "single-threaded use of one list (the shared path buffer is not modelled as shared state)",
]

HOOK = os.path.join(vlib.ROOT, "harness/c18/hook/verif_hook.go")
MAIN = os.path.join(vlib.ROOT, "harness/c18/main.go")


def stage():
    return vlib.stage_internal(
        "c18", [("internal/maplike", "maplike")],
        [(MAIN, "cmd/c18/main.go")],
        [(HOOK, "maplike/skiplist/verif_hook.go")])


_BUILT = {}


def _exe():
    """stage + build once per ./check process (shrinking re-runs the same binary many times)"""
    if "exe" in _BUILT:
        return _BUILT["exe"]
    d = stage()
    atexit.register(shutil.rmtree, d, ignore_errors=True)
    exe = os.path.join(d, "c18.bin")
    rc, out = vlib.go_build(d, "./cmd/c18", exe)
    if rc != 0:
        raise vlib.HarnessError("harness does not build against /repo/internal/maplike:\n" + out[-1500:])
    _BUILT["exe"] = exe
    _BUILT["n"] = 0
    return exe


def _run(ctx, tier=None, replay=None):
    exe = _exe()
    env = dict(ctx.env)
    if tier:
        env["VERIF_TIER"] = tier
    rp = None
    if replay is not None:
        _BUILT["n"] += 1
        rp = os.path.join(os.path.dirname(exe), "replay%d.jsonl" % _BUILT["n"])
        with open(rp, "w") as f:
            for c in replay:
                f.write(json.dumps(spec_of(c)) + "\n")
        env["VERIF_REPLAY"] = rp
    rc, so, se = vlib.sh2([exe], env=env, timeout=1800)
    if rp:
        os.remove(rp)
    if rc != 0:
        raise vlib.HarnessError("harness failed (rc %d): %s" % (rc, se[-1500:]))
    return [json.loads(l) for l in so.split("\n") if l.strip()]


def spec_of(c):
    """the inputs of a case only (what the harness needs to run it again)"""
    s = {k: c[k] for k in ("gen", "keytype", "order", "universe") if k in c}
    if c.get("names"):
        s["names"] = c["names"]
    s["levels"] = 0
    s["steps"] = [{"op": st["op"], "k": st["k"], "v": st.get("v", 0), "want": st.get("want", 0), "int63": st.get("int63", 0)}
                  for st in c["steps"]]
    return s


def _balance(cases):
    """reorder so that every shard of SHARD consecutive cases carries about the same amount of text
    (the long random histories would otherwise all land in the last coqc)"""
    n = len(cases)
    nb = max(1, -(-n // SHARD))
    cap = [SHARD] * nb
    cap[-1] = n - SHARD * (nb - 1)
    bins = [[] for _ in range(nb)]
    load = [0] * nb
    size = [sum(len(s["print"]) * 4 + sum(len(e["f"]) for e in s["print"]) + len(s["gets"]) for s in c["steps"]) for c in cases]
    for i in sorted(range(n), key=lambda i: -size[i]):
        b = min((j for j in range(nb) if len(bins[j]) < cap[j]), key=lambda j: load[j])
        bins[b].append(i)
        load[b] += size[i]
    return [cases[i] for b in bins for i in sorted(b)]


def run_impl(ctx, tier=None):
    if ctx.replay_cases:
        return _run(ctx, replay=ctx.replay_cases)
    return _balance(_run(ctx, tier=tier))


def _opt(x):
    return "None" if x is None else "Some %s" % vlib.zlit(x)


def _fingers(f):
    n = len(f)
    while n > 0 and f[n - 1] is None:
        n -= 1
    body = "[%s]" % "; ".join(_opt(x) for x in f[:n])
    t = len(f) - n
    if t >= 3:
        return "%s ++ rn %d" % (body, t) if n else "rn %d" % t
    return "[%s]" % "; ".join(_opt(x) for x in f)


def _print(p):
    return "[" + "; ".join("(%s, %s)" % (vlib.zlit(e["k"]), _fingers(e["f"])) for e in p) + "]"


def _step(st):
    if st["op"] == "put":
        o = "Put %s %s %d" % (vlib.zlit(st["k"]), vlib.zlit(st["v"]), st["ht"])
    elif st["op"] == "get":
        o = "Get %s" % vlib.zlit(st["k"])
    else:
        o = "Remove %s" % vlib.zlit(st["k"])
    return "(%s, mkO %s %s %s)" % (o, vlib.zlit(st["ans"]), vlib.zlist(st["gets"]), _print(st["print"]))


def to_coq(c):
    return "mk %s %d%%nat %s [%s]" % (vlib.nlit(c["order"]), c["levels"], vlib.zlist(c["universe"]),
                                     ";\n    ".join(_step(s) for s in c["steps"]))


def _ops(c):
    return [(s["op"], s["k"], s.get("v", 0), s.get("int63", 0)) for s in c["steps"]]


def nontrivial_key(c):
    if not c["steps"]:
        return None
    return hashlib.sha1(json.dumps([c["keytype"], c["order"], c["universe"], _ops(c)]).encode()).hexdigest()


def _oracle(c):
    """python twin of Check/C18o.oracle, used only to point at the first bad step in reports; returns (index, text) or None"""
    m = {}
    rev = c["order"] == 1
    for i, s in enumerate(c["steps"]):
        if s.get("panic"):
            return i, "%s(%s) panicked: %s" % (s["op"], s["k"], s["panic"])
        want = 0
        if s["op"] == "put":
            m[s["k"]] = s["v"]
        elif s["op"] == "get":
            want = m.get(s["k"], 0)
        else:
            want = m.pop(s["k"], 0)
        if s["ans"] != want:
            return i, "%s(%s) answered %s, an ordinary map answers %s" % (s["op"], s["k"], s["ans"], want)
        gets = [m.get(k, 0) for k in c["universe"]]
        if s["gets"] != gets:
            return i, "after %s(%s): Get of %s = %s, an ordinary map holds %s" % (s["op"], s["k"], c["universe"], s["gets"], gets)
        keys = [e["k"] for e in s["print"][1:]]
        want_keys = sorted(m, reverse=rev)
        if keys != want_keys:
            return i, "after %s(%s): String() lists keys %s, live keys in order are %s" % (s["op"], s["k"], keys, want_keys)
        for e in s["print"][1:]:
            for f in e["f"]:
                if f is not None and (f not in m or not ((f < e["k"]) if rev else (f > e["k"]))):
                    return i, "after %s(%s): node %s has a finger to %s" % (s["op"], s["k"], e["k"], f)
        for f in s["print"][0]["f"]:
            if f is not None and f not in m:
                return i, "after %s(%s): the head has a finger to %s which is not live" % (s["op"], s["k"], f)
    return None


def signature(c):
    bad = _oracle(c)
    kind = "none"
    if bad:
        s = c["steps"][bad[0]]
        kind = s["op"]
    return {"kind": "skiplist-history", "first_bad_op": kind, "keytype": c["keytype"], "order": c["order"]}


def _name(c, k):
    if c["keytype"] == "string" and k in c["universe"]:
        return c["names"][c["universe"].index(k)]
    return k


def describe(c):
    hist = []
    for s in c["steps"]:
        if s["op"] == "put":
            hist.append("Put(%s,%s)[Int63=%s -> height %s]" % (_name(c, s["k"]), s["v"], s["int63"], s["ht"] if s.get("drew") else "-"))
        elif s["op"] == "get":
            hist.append("Get(%s)=%s" % (_name(c, s["k"]), s["ans"]))
        else:
            hist.append("Remove(%s)=%s" % (_name(c, s["k"]), s["ans"]))
    bad = _oracle(c)
    d = {"generator": c.get("gen"), "keys": c["keytype"], "order": "reversed" if c["order"] else "natural",
         "universe": [_name(c, k) for k in c["universe"]], "history": hist,
         "required": "answers of an ordinary map; String() lists the live keys strictly ascending, fingers only to larger keys"}
    if bad:
        d["first_failure"] = {"step": bad[0], "what": bad[1],
                              "printed": [[e["k"], e["f"]] for e in c["steps"][bad[0]]["print"][1:]]}
    return d


def sample(c):
    d = describe(c)
    d["history"] = d["history"][:12] + (["... %d more" % (len(d["history"]) - 12)] if len(d["history"]) > 12 else [])
    return d


def histogram(cases):
    h = {}
    for c in cases:
        g = c.get("gen", "?")
        h["gen:" + g] = h.get("gen:" + g, 0) + 1
        k = "keys:%s/%s" % (c["keytype"], "reversed" if c["order"] else "natural")
        h[k] = h.get(k, 0) + 1
        for s in c["steps"]:
            h["op:" + s["op"]] = h.get("op:" + s["op"], 0) + 1
            if s["op"] == "put" and s.get("drew"):
                hk = "height:%d" % s["ht"]
                h[hk] = h.get(hk, 0) + 1
                if s.get("want") and s["want"] != s["ht"]:
                    h["height-not-as-requested"] = h.get("height-not-as-requested", 0) + 1
    return h


_SHRUNK = {}


def shrink(ctx, c):
    """drop operations (then the tail after the first failure) while the oracle still rejects a re-run of the real code"""
    def failing(x):
        return _oracle(x) is not None

    def rerun(many):
        xs = []
        for steps in many:
            x = dict(c)
            x["steps"] = steps
            xs.append(x)
        return _run(ctx, replay=xs)

    cur = c
    bad = _oracle(cur)
    if bad is None:
        return c
    sig0 = json.dumps(signature(c), sort_keys=True)
    if sig0 in _SHRUNK:
        return _SHRUNK[sig0]
    # cut after the first failing step
    if bad[0] + 1 < len(cur["steps"]):
        t = rerun([cur["steps"][:bad[0] + 1]])[0]
        if failing(t):
            cur = t
    # ddmin-like: drop chunks of n/2, n/4, .. 1 operations; all candidates of one granularity in one harness run
    chunk = max(1, len(cur["steps"]) // 2)
    rounds = 0
    while chunk >= 1 and rounds < 60 and len(cur["steps"]) > 1:
        rounds += 1
        n = len(cur["steps"])
        res = rerun([cur["steps"][:i] + cur["steps"][i + chunk:] for i in range(0, n, chunk)])
        nxt = None
        for t in res:
            if t["steps"] and failing(t):
                b = _oracle(t)
                if b[0] + 1 < len(t["steps"]):
                    t = dict(t)
                    t["steps"] = t["steps"][:b[0] + 1]
                nxt = t
                break
        if nxt is None:
            chunk //= 2
        else:
            cur = nxt
            chunk = min(chunk, max(1, len(cur["steps"]) // 2))
    _SHRUNK[sig0] = cur
    return cur


def search(ctx, evaluate):
    """after a broken obligation: thorough-size run of the real code against the oracle"""
    cases = _run(ctx, tier="thorough")
    bad = [c for c in cases if _oracle(c) is not None]
    found = bad[:20]
    if not found:
        ev = evaluate(cases[:4000])
        found = [cases[i] for i in sorted(set(ev["violations"]))][:20]
    return found, {"explored": len(cases), "found": len(found)}
