"""C02 - lens derivation yields a correctly typed in-bounds focus or panics."""
import json

import vlib
from props import optics_common as oc
from props import optics_derive as od

ID = "C02"
CHECK_MODULE = "Check.C02"
ORACLE_MODULE = "Check.C02o"
GEN = oc.GEN
GEN_DEPS = ["GenHseq.v", "GenOptics.v", "GenShape.v"]
TARGETS_CHECK = ["theories/Check/C02o.vo", "theories/Check/C02.vo"]
TARGETS_PROP = ["theories/Properties/C02.vo"]
SHARD = 1200
PRELUDE = "Open Scope string_scope.\n"
RULE = ("8 fixed corner shapes (incl. the embedded-pointer shapes of finding F5) + 44 (quick) / 600 (thorough) random struct shapes "
        "+ 4 fixed and 4 / 54 random homonym shapes (function-local types that print like the package-level ones, see C03) "
        "generated as Go source from VERIF_SEED (as C03, with pointer-embedded structs and same-named / same-typed fields at several "
        "depths); per shape a request matrix through ForProductN, ForSpectrumN and ForShapeN: every key, raw field name, whole tag "
        "and miss against every unary focus type (the right ones, same-size wrong ones, `type S string` vs string, []byte vs []uint8, "
        "types of fields behind embedded pointers, the homonym of a field's type by type and by the name of that field), right names, too few names, extra names and random names for N-ary tuples, "
        "container type parameters T and *T; accepted optics are exercised on the arena as in C01; every accepted Reflector is also "
        "given S by value, *Other, nil and (*S)(nil). A case is distinct by (shape layout, request) and non-trivial when the "
        "derivation was accepted and its Put changed memory")
TRUSTED = [
    "tools/go2coq modes hseq, optics and shape (go/parser AST -> shallow Gallina in the poison monad)",
    "the shape generator and Go driver (tools/runner/props/optics_common.py, harness/optics): recovered panics as an enum, arena "
    "snapshots, canonical type names (reflect's String() made unique per reflect.Type identity)",
    "modelled, not verified: type identity as equality of canonical descriptors (the reading of "
    "`ft.String()==fv.String() && ft.AssignableTo(fv)`); the dynamic type switch `case *S`",
]
CLAIM = {
    "text": "Coq theorems for every struct type tree: whenever NewLens/NewReflector (hence the regenerated ForProductN, ForSpectrumN, "
            "ForShapeN, N=1..9) return, each focus coincides with a field stored inside the struct whose declared type is identical "
            "to the requested one and whose byte range lies inside the struct; an unknown name, a type no field has, too few names, "
            "a name whose field has another type, a container type parameter that is not a struct, and an entry reached through an "
            "embedded pointer (unless it coincides in offset, name and type with a field of the struct itself) all yield the poison "
            "value; Gett/Putt with a dynamic type other than *S panic and leave the arena unchanged. Model and oracle are run "
            "against the real code on a request matrix over generated shapes.",
    "design_ref": "DESIGN.md 3/C02, 6/F5",
    "note": "About the code after the repair of F5 (the guard `inline` in optics/lens.go). Trusted: Coq kernel + vm_compute, "
            "tools/go2coq, canonical type names as type identity.",
    "technique": "Coq proof (structural induction on type trees) + translator-regenerated per-arity definitions + differential run "
                 "of model and oracle on a generated request matrix",
}
ASSUMPTIONS = [
    "type identity of the generated universe coincides with equality of canonical type descriptors (checked by the correspondence)",
]

_prelude = oc.Prelude(globals())


def run_impl(ctx, tier=None, count=None):
    return oc.run_cases(ctx, ID, tier, count)


def to_coq(c):
    return od.to_coq(_prelude, c)


nontrivial_key = od.nontrivial_key
describe = od.describe
sample = od.sample
histogram = od.histogram


def signature(c):
    r = c["req"]
    if r.get("spare") and not c["obs"]["panic"]:
        return {"kind": "derive-accepted", "names": "too-few-with-spare-capacity"}
    return {"kind": "derive-accepted" if not c["obs"]["panic"] else "derive-panic", "via": r["via"],
            "container": "pointer" if r["ptr"] else "struct"}


def search(ctx, evaluate):
    cases = run_impl(ctx, count=90)
    ev = evaluate(cases)
    found = [cases[i] for i in sorted(set(ev["violations"]))]
    return found, {"explored": len(cases), "found": len(found)}
