"""Shared glue of the Pool family (C05 C06 C07 C09 C11 C12 C13): builds and runs
harness/pool against /repo's working tree, converts cases to Coq terms."""
import json
import os
import shutil

import vlib

TRUSTED = [
    "modelled, not verified: Go channel/select/close semantics, context cancellation as one monotone flag, goroutine "
    "scheduling as arbitrary interleaving of completed events, sync.WaitGroup as 'all workers done', time as "
    "testing/synctest's virtual clock (Pipe/Pool.v)",
    "harness/pool: step-wise driver under testing/synctest (non-blocking attempts + synctest.Wait), runtime.Stack goroutine census",
    "trace acceptance (Check/Pool.v accepts): powerset simulation of the model against the recorded outcomes",
]


RACE_QUICK = {"C09": 30, "C12": 30}   # family -> rounds of the quick tier's pass under the race detector
FREE_ROUNDS = {"C09": (150, 1500), "C12": (150, 1500), "C11": (40, 400), "C06": (60, 600)}   # family -> (quick, thorough) rounds of free-running stress


def z(n):
    return vlib.zlit(n)


def nat(n):
    return "%d%%nat" % int(n)


def natlist(l):
    return "[" + "; ".join(nat(x) for x in l) + "]"


def fail_coq(f):
    if not f or f.get("kind", "none") == "none":
        return "NoFail"
    if f["kind"] == "modeq":
        return "(FailModEq %s %s)" % (z(f.get("m", 0)), z(f.get("r", 0)))
    if f["kind"] == "ge":
        return "(FailGe %s)" % z(f.get("m", 0))
    return "(FailIn %s)" % vlib.zlist(f.get("xs") or [])


def pred_coq(p):
    if p.get("em"):
        q = dict(p)
        em, er = q.pop("em"), q.pop("er", 0)
        return "(PExcept %s %s %s)" % (pred_coq(q), z(em), z(er))
    k = p["kind"]
    if k == "lt":
        return "(PLt %s)" % z(p.get("c", 0))
    if k == "even":
        return "PEven"
    if k == "modeq":
        return "(PModEq %s %s)" % (z(p.get("m", 0)), z(p.get("r", 0)))
    return "PTrue" if k == "true" else "PFalse"


def b(x):
    return "true" if x else "false"


def stage_coq(s):
    k = s["kind"]
    f = "(FAffine %s %s)" % (z(s.get("a", 0)), z(s.get("b", 0)))
    if k == "map":
        return "(SMap %s %s %s)" % (f, fail_coq(s.get("fail")), b(s.get("try")))
    if k == "fmap":
        return "(SFMap %s %s %s)" % (z(s.get("m", 0)), fail_coq(s.get("fail")), b(s.get("try")))
    if k == "filter":
        return "(SFilter %s)" % pred_coq(s["pred"])
    if k == "partition":
        return "(SPartition %s)" % pred_coq(s["pred"])
    if k == "take":
        return "(STake %s)" % z(s.get("n", 0))
    if k == "takewhile":
        return "(STakeWhile %s)" % pred_coq(s["pred"])
    if k == "foreach":
        return "SForEach"
    if k == "void":
        return "SVoid"
    if k == "fold":
        return "(SFold %s)" % {"sum": "MSum", "prod": "MProd", "lin": "MLin"}[s.get("mon", "sum")]
    if k == "join":
        return "(SJoin %s)" % nat(s.get("n", 0))
    if k == "unfold":
        return "(SUnfold %s %s %s %s)" % (z(s.get("seed", 0)), f, fail_coq(s.get("fail")), b(s.get("try")))
    if k == "emit":
        return "(SEmit %d%%N %s %s %s)" % (s.get("freq", 0), f, fail_coq(s.get("fail")), b(s.get("try")))
    if k == "stderr":
        return "SStdErr"
    if k == "seq":
        return "(SSeq %s)" % vlib.zlist(s.get("xs") or [])
    if k == "throttle":
        return "(SThrottle %s %d%%N)" % (nat(s.get("ops", 0)), s.get("freq", 0))
    if k == "fork":
        return "(SFork %s %s %s)" % (stage_coq(s["inner"]), nat(s.get("par", 0)), b(s.get("gate")))
    raise ValueError(k)


def move_coq(m):
    k = m["m"]
    o = m["o"]
    oc = {"done": "ODone", "blocked": "OBlocked", "closed": "OClosed"}.get(o)
    if o == "val":
        oc = "(OVal %s)" % z(m.get("v", 0))
    if k == "send":
        return "(MSend %s %s, %s)" % (nat(m.get("i", 0)), z(m.get("x", 0)), oc)
    if k == "close":
        return "(MCloseIn %s, %s)" % (nat(m.get("i", 0)), oc)
    if k == "recv":
        return "(MRecv %s, %s)" % (nat(m.get("k", 0)), oc)
    if k == "cancel":
        return "(MCancel, ODone)"
    if k == "release":
        return "(MRelease %s, ODone)" % z(m.get("a", 0))
    if k == "sleep":
        return "(MSleep %d%%N, ODone)" % m.get("d", 0)
    if k == "end":
        return "(MEnd, OEnd %d%%N %s)" % (m.get("now", 0), nat(m.get("live", 0)))
    if k == "crash":
        return "(MEnd, OBlocked)"
    raise ValueError(k)


CAP_CLAMP = 4096   # capacities are unary numbers in the model; no recorded trace has that many sends, so a capacity beyond it is
                   # rendered as this one (the trace cannot tell them apart); describe() shows the observed value


def capslist(l):
    return natlist([min(int(x), CAP_CLAMP) for x in l])


def to_coq(c):
    return "mkC (mkP %s %s %s [%s]) %s %s %s [%s]" % (
        stage_coq(c["stage"]), capslist(c.get("icaps") or []), capslist(c.get("ocaps") or []),
        "; ".join(move_coq(m) for m in c["moves"]),
        vlib.zlist(c.get("calls") or []), b(c.get("crash")), "%d%%N" % gen_code(c.get("gen", "")),
        "; ".join("%d%%N" % t for t in (c.get("call_at") or [])))


def gen_code(g):
    if g.startswith("keeps-up"):
        return 1
    if g.startswith("idle-then-burst"):
        return 2
    if g.startswith("absent-consumer"):
        return 3
    if g.startswith("enum"):
        return 4
    if g.startswith("steady"):
        return 5
    if g.startswith("pre-cancelled"):
        return 6
    if g.startswith("free-running"):
        return 9
    return 0


def stage_name(s):
    if s["kind"] == "fork":
        return "fork." + s["inner"]["kind"] + ("/try" if s["inner"].get("try") else "")
    n = s["kind"]
    if s.get("fail") and s["fail"].get("kind", "none") != "none":
        n += "/try" if s.get("try") else "/lift"
    return n


def build(ctx, race=False, family_race=True):
    d = vlib.scratch_dir("pool-" + ctx.pid)
    for n in os.listdir(os.path.join(vlib.ROOT, "harness/pool")):
        if n.endswith(".go"):
            shutil.copy(os.path.join(vlib.ROOT, "harness/pool", n), d)
    vlib.write_gomod(d, "harness/pool", requires=["pipe", "pure"])
    exe = os.path.join(d, "pool.test")
    rc, out = vlib.go_build(d, ".", exe, test=True, race=(race and family_race))
    if rc != 0:
        shutil.rmtree(d, ignore_errors=True)
        raise vlib.HarnessError("harness/pool does not build against /repo/pipe:\n" + out[-2000:])
    return d, exe


def run_family(ctx, family, tier=None, seed=None, replay_cases=None):
    """Runs the harness; restarts after a crashed case. Returns the list of cases (crashed ones flagged)."""
    d, exe = build(ctx)
    try:
        out = os.path.join(d, "cases.jsonl")
        env = dict(ctx.env)
        env["VERIF_FAMILY"] = family
        env["VERIF_OUT"] = out
        if tier:
            env["VERIF_TIER"] = tier
        if seed is not None:
            env["VERIF_SEED"] = str(seed)
        if replay_cases is not None:
            rp = os.path.join(d, "replay.jsonl")
            with open(rp, "w") as f:
                for c in replay_cases:
                    f.write(json.dumps(c) + "\n")
            env["VERIF_REPLAY"] = rp
        cases = {}
        start = 0
        crashes = 0
        while True:
            env["VERIF_START"] = str(start)
            if os.path.exists(out):
                os.remove(out)
            rc, log = vlib.sh([exe, "-test.run", "TestHarness", "-test.timeout", "1200s"], cwd=d, env=env, timeout=1500)
            last_begin = None
            last_plan = {}
            if os.path.exists(out):
                with open(out) as f:
                    for line in f:
                        line = line.strip()
                        if not line:
                            continue
                        try:
                            o = json.loads(line)
                        except ValueError:
                            continue
                        if "begin" in o and "stage" not in o:
                            last_begin = o["begin"]
                            last_plan = o.get("plan") or {}
                        else:
                            cases[o["idx"]] = o
            if rc == 0:
                break
            crashes += 1
            if last_begin is None:
                raise vlib.HarnessError("harness/pool failed (rc %d):\n%s" % (rc, log[-2000:]))
            # the process died inside (or right after) case last_begin: a panic or a deadlocked goroutine
            msg = "\n".join(l for l in log.split("\n") if "panic" in l or "deadlock" in l or "fatal" in l)[:400] or log[-400:]
            c = cases.get(last_begin)
            if c is None:
                c = {"idx": last_begin, "family": family, "stage": last_plan.get("stage") or {"kind": "void"},
                     "icaps": last_plan.get("icaps") or [], "ocaps": [1, 1],
                     "inputs": last_plan.get("inputs") or [], "moves": [], "calls": [],
                     "gen": "crashed-before-observation (" + str(last_plan.get("gen")) + ")"}
                cases[last_begin] = c
            c["crash"] = msg
            start = last_begin + 1
            if crashes >= 8:
                # the library crashes again and again: what has been recorded is enough to report
                break
        ctx.notes["harness_crashes"] = crashes
        result = [cases[k] for k in sorted(cases)]
        # free-running stress (real goroutines, real parallelism): C09 and C12
        if family in FREE_ROUNDS and replay_cases is None:
            rounds = FREE_ROUNDS[family][1 if (tier or ctx.tier) == "thorough" else 0]
            if os.path.exists(out):
                os.remove(out)
            env2 = dict(env)
            env2["VERIF_FREE"] = str(rounds)
            free_exe = exe
            if (tier or ctx.tier) == "thorough":
                # the free-running stress runs under the race detector in the thorough tier
                free_exe = os.path.join(d, "pool_race.test")
                rc_b, out_b = vlib.go_build(d, ".", free_exe, test=True, race=True)
                if rc_b != 0:
                    free_exe = exe
                    ctx.notes["race_build"] = "failed: " + out_b[-300:]
                else:
                    ctx.notes["race_build"] = "free-running stress ran under -race"
                    env2["GORACE"] = "halt_on_error=1"
            rc, log = vlib.sh([free_exe, "-test.run", "TestFree", "-test.timeout", "1200s"], cwd=d, env=env2, timeout=1500)
            free = []
            stats = {}
            if os.path.exists(out):
                with open(out) as f:
                    for line in f:
                        try:
                            o = json.loads(line)
                        except ValueError:
                            continue
                        if "free_stats" in o:
                            stats = o["free_stats"]
                        elif "stage" in o:
                            free.append(o)
            if rc != 0:
                msg = "\n".join(l for l in log.split("\n") if "panic" in l or "fatal" in l or "DATA RACE" in l)[:400] or log[-400:]
                free.append({"idx": 1999999, "family": family, "stage": {"kind": "join", "n": 0} if family == "C12" else {"kind": "fork", "par": 1, "inner": {"kind": "void"}},
                             "icaps": [], "ocaps": [1], "inputs": [], "moves": [], "calls": [], "gen": "free-running: process crashed", "crash": msg})
            ctx.notes["free_running"] = {"rounds": rounds, "runs_per_stage": stats, "cases_forwarded_to_coq": len(free)}
            result += free
            if (tier or ctx.tier) != "thorough" and family in RACE_QUICK and rc == 0:
                # quick tier: a short pass of the same stress under the race detector (whether two goroutines of a stage
                # meet on a shared variable within a few hundred unguarded runs depends on the load of the machine; the
                # detector does not need them to collide)
                race_exe = os.path.join(d, "pool_race.test")
                rc_b, out_b = vlib.go_build(d, ".", race_exe, test=True, race=True)
                if rc_b != 0:
                    ctx.notes["race_build"] = "failed: " + out_b[-300:]
                else:
                    if os.path.exists(out):
                        os.remove(out)
                    env3 = dict(env2)
                    env3["VERIF_FREE"] = str(RACE_QUICK[family])
                    env3["GORACE"] = "halt_on_error=1"
                    rc3, log3 = vlib.sh([race_exe, "-test.run", "TestFree", "-test.timeout", "600s"], cwd=d, env=env3, timeout=700)
                    ctx.notes["race_pass"] = {"rounds": RACE_QUICK[family], "exit": rc3}
                    if rc3 != 0:
                        msg = "\n".join(l for l in log3.split("\n") if "panic" in l or "fatal" in l or "DATA RACE" in l)[:400] or log3[-400:]
                        result.append({"idx": 1999998, "family": family, "stage": {"kind": "join", "n": 0} if family == "C12" else {"kind": "fork", "par": 1, "inner": {"kind": "void"}},
                                       "icaps": [], "ocaps": [1], "inputs": [], "moves": [], "calls": [], "gen": "free-running under -race: process crashed", "crash": msg})
        return result
    finally:
        shutil.rmtree(d, ignore_errors=True)


def describe(c):
    return {"stage": c["stage"], "icaps": c.get("icaps"), "ocaps": c.get("ocaps"), "inputs": c.get("inputs"),
            "moves": [compact(m) for m in c["moves"]], "calls": c.get("calls"), "crash": c.get("crash"), "gen": c.get("gen")}


def compact(m):
    k, o = m["m"], m["o"]
    if k == "send":
        return "send in%d<-%d: %s" % (m.get("i", 0), m.get("x", 0), o)
    if k == "recv":
        return "recv out%d: %s" % (m.get("k", 0), ("%d" % m.get("v", 0)) if o == "val" else o)
    if k == "close":
        return "close in%d" % m.get("i", 0)
    if k == "release":
        return "release f(%d)" % m.get("a", 0)
    if k == "sleep":
        return "sleep %d" % m.get("d", 0)
    if k == "end":
        return "end now=%d live=%d" % (m.get("now", 0), m.get("live", 0))
    return k


def histogram(cases):
    h = {}
    for c in cases:
        k = stage_name(c["stage"]) + " " + c.get("gen", "")
        h[k] = h.get(k, 0) + 1
    h["moves_total"] = sum(len(c["moves"]) for c in cases)
    h["with_cancel"] = sum(1 for c in cases if any(m["m"] == "cancel" for m in c["moves"]))
    return h


def nontrivial_key(c):
    # distinct by stage + capacities + full observed trace; non-trivial: at least one value or error was delivered or a cancel happened
    if not any(m["o"] == "val" or m["m"] == "cancel" for m in c["moves"]):
        return None
    return json.dumps([c["stage"], c.get("icaps"), [compact(m) for m in c["moves"]]], sort_keys=True)


def signature(c):
    return {"kind": "pool-trace", "stage": stage_name(c["stage"])}


def install(g, pid, family, title, rule, claim, assumptions, extra_trusted=()):
    """fills the module namespace g of props/cXX.py for a Pool-family property"""
    def run_impl(ctx, tier=None, seed=None):
        return run_family(ctx, family, tier=tier, seed=seed, replay_cases=ctx.replay_cases)

    def search(ctx, evaluate):
        found = []
        explored = 0
        for sd in range(3):
            cases = run_family(ctx, family, tier="thorough" if sd == 0 else "quick", seed=int(ctx.seed) + 1000 + sd)
            explored += len(cases)
            ev = evaluate(cases)
            found += [cases[i] for i in sorted(set(ev["violations"]))]
            if found:
                break
        return found, {"explored": explored, "found": len(found)}

    def shrink(ctx, c):
        return c

    g.update(dict(
        ID=pid, CHECK_MODULE="Check." + pid, TARGETS_CHECK=["theories/Check/%s.vo" % pid],
        TARGETS_PROP=["theories/Properties/%s.vo" % pid], RULE=rule, TRUSTED=list(TRUSTED) + list(extra_trusted),
        ASSUMPTIONS=assumptions, CLAIM=claim, SHARD=60, run_impl=run_impl, to_coq=to_coq, nontrivial_key=nontrivial_key,
        signature=signature, describe=describe, sample=lambda c: describe(c), histogram=histogram, search=search,
    ))
