"""C09 - Parallel fork stages process every element exactly once, like pipe up to order."""
import pool_common as pc

pc.install(globals(), "C09", "C09", "fork stages",
    rule=("fork.Map / FMap (pure and Try-mode with failing elements), Filter, Partition, ForEach, Void x par in {1,2,3,4,7} x "
          "inputs shorter / equal / longer than par (distinct elements) x input capacities 0..2 x gated user functions whose "
          "completion order the harness decides (release moves) and ungated runs x random schedules from VERIF_SEED with and "
          "without cancel, drained to completion. fork.Map/FMap in fail-fast mode with several failing elements (random and absent-consumer schedules), ForEach with a failing function. Distinct by full observed trace; non-trivial when a value was delivered or the run was cancelled"),
    claim={
        "text": "Theorems proved by the Coq kernel for every worker count, input, capacity, distribution of elements over workers and completion order: in every reachable state the taken elements are a permutation-partition of the consumed input (each applied exactly once) and each output is a permutation of the image of what was taken (nothing lost, duplicated, invented); no send on a closed channel / double close; outputs close only after every worker returned; on completion every output is exactly the multiset the sequential stage delivers. Fail-fast mode (Lift/LiftF/Pure) with failing elements: the plain send `exx <- err` never blocks when par <= cap(exx) (with a proved witness that a smaller capacity leaks a goroutine even after cancel), so on cancel or drain every worker returns and both outputs close, and at most par errors are ever produced. Tied to the code by trace acceptance of gated synctest runs.",
        "design_ref": "DESIGN.md 2.1, 3/C09",
        "note": "Trusted: Coq kernel; Pool machine as model of Go channels/goroutines/WaitGroup; harness. NOT carried by the theorems: data-race freedom (Go memory model) - checked by the race detector in the thorough tier (testing, named as such); scheduler fairness.",
        "technique": "Coq proof (invariants over executions, permutation reasoning) + trace-acceptance correspondence",
    },
    assumptions=[
        "user functions are total and side-effect free; for fork stages under Lift (fail-fast) the theorems give safety, no-panic, exit and the error bound - not which prefix of the input is processed (a fail-fast stage legitimately stops short)",
        "data-race freedom is not modelled; the thorough tier runs the harness under the race detector",
    ])
