"""C14 - iterator combinators over seq.Seq have exactly list semantics, at any nesting."""
import atexit
import json
import os
import shutil

import vlib

ID = "C14"
CHECK_MODULE = "Check.C14"
TARGETS_CHECK = ["theories/Check/C14.vo"]
TARGETS_PROP = ["theories/Properties/C14.vo"]
SHARD = 600
HARNESS = "c14"
REQUIRES = ["trait"]
RULE = ("every expression tree of depth <= 1 over From/FromSlice/TakeWhile/DropWhile/Filter/Map/Plus/Join with 10 leaves "
        "(source slices of length 0..3, From, join-argument leaves), 7 predicates (<c, !=c, parity, true, false), 3 maps, "
        "3 slice-returning join functions (replicate, range, nil) and 8 nested-expression join functions; at depth 2 every unary "
        "operator over every depth-1 tree, Plus of every depth-1 tree with every leaf on either side and a seeded sample of "
        "Plus(depth 1, depth 1); joins whose function is CONDITIONAL - nil for some outer elements (11 guards over 3 outer slices: nil "
        "first, between, several in a row, at the end, alternating, all) and otherwise an early-stopping expression of the argument "
        "(TakeWhile/DropWhile/Filter with 5 non-monotone predicates - parity, mod 3, membership - over 4 slices where the predicate "
        "fails in the middle and holds again later, and 60 compositions of them with Plus/Map/Filter/Join/nested conditional joins): "
        "all 3960, a sample inside a further operator, and seeded random ones; seeded random trees of depth 3..6 (thorough: ..7, slices up to length 6; random trees with more than 1500 result elements or 4000 constructor/join-function calls are skipped). Each tree is built "
        "from the real constructors, drained with the documented loop and (depth <= 1: always, deeper: sampled) consumed by "
        "seq.ForEach with a callback failing at call 0/1/2/never or on a predicate. A case is distinct by (tree, consumption mode) "
        "and non-trivial when the required list is non-empty")
TRUSTED = [
    "hand-written operational model coq/theories/Iter/Model.v (transcription of trait/seq/seq.go; tied to the code by this differential run only)",
    "function codes are interpreted twice: Model.interp_* (Coq) and harness/c14/main.go (Go)",
]
CLAIM = {
    "text": ("Coq theorems about a hand-written operational model of trait/seq/seq.go (one constructor per Go struct, nil as a "
             "constructor, Next() transcribed with its loops, latch, swap and re-priming): for EVERY expression tree over From, "
             "FromSlice, TakeWhile, DropWhile, Filter, Map, Plus, Join (join functions incl. nil-returning and nested expressions) "
             "building and draining with the documented loop yields exactly the list denotation (take-while, drop-while, filter, map, "
             "append, flat-map), and ForEach visits that list in order up to and including the first failing callback and returns its "
             "error, the iterator then standing on the element that failed (no further Next()). The model is run against the real iterators on all trees of depth <= 2 over a code alphabet and on random deeper "
             "trees; the observation is also checked directly against the list denotation and the source slices are compared before/after."),
    "design_ref": "DESIGN.md 2.3, 3/C14",
    "note": ("Trusted: Coq kernel + vm_compute, the hand-written model (fidelity = differential testing, bounded by the generators), "
             "the Go harness. 'Source slices are never modified' is carried by the before/after comparison of the run only: the model "
             "has immutable lists (seqOf.Next re-slices). Sharing one iterator between two parents is outside the property and the model."),
    "technique": "Coq proof (induction on the expression with a positioned-on-the-remaining-list invariant) over a hand-written model + differential run of model vs code",
}
ASSUMPTIONS = [
    "user functions (predicates, maps, join functions, ForEach callbacks) are total and do not touch the iterators they are applied to",
    "expression trees: no iterator value is used by two parents; Next() is not called again after it returned false",
    "int arithmetic of the coded maps does not overflow (values and depths are bounded so that it cannot)",
]


_BIN = {}


def _cleanup():
    for d, _ in _BIN.values():
        shutil.rmtree(d, ignore_errors=True)


atexit.register(_cleanup)


def harness_bin(harness, requires):
    """build harness/<name>/main.go once per process against vlib.REPO's working tree"""
    if harness in _BIN:
        return _BIN[harness][1]
    d = vlib.scratch_dir(harness)
    shutil.copy(os.path.join(vlib.ROOT, "harness", harness, "main.go"), os.path.join(d, "main.go"))
    vlib.write_gomod(d, "harness", requires=requires)
    exe = os.path.join(d, harness + ".bin")
    rc, out = vlib.go_build(d, ".", exe)
    if rc != 0:
        shutil.rmtree(d, ignore_errors=True)
        raise vlib.HarnessError("harness does not build against %s/trait:\n%s" % (vlib.REPO, out[-1500:]))
    _BIN[harness] = (d, exe)
    return exe


def run_harness(ctx, harness, tier=None, cases_in=None, requires=("trait",)):
    exe = harness_bin(harness, list(requires))
    env = dict(ctx.env)
    if tier:
        env["VERIF_TIER"] = tier
    p = None
    if cases_in is not None:
        p = os.path.join(os.path.dirname(exe), "cases_in_%d.jsonl" % os.getpid())
        with open(p, "w") as f:
            for c in cases_in:
                f.write(json.dumps({"expr": c["expr"], "mode": c["mode"]}) + "\n")
        env["VERIF_CASES"] = p
    rc, so, se = vlib.sh2([exe], env=env, timeout=600)
    if rc != 0:
        raise vlib.HarnessError("harness failed (rc %d): %s" % (rc, se[-1500:]))
    return [json.loads(l) for l in so.split("\n") if l.strip()]


def run_impl(ctx, tier=None):
    return run_harness(ctx, HARNESS, tier=tier, cases_in=ctx.replay_cases)


# ---------------------------------------------------------------- Coq terms
def pcode(p):
    k = p["k"]
    if k == "lt":
        return "(PLt %s)" % vlib.zlit(p.get("c", 0))
    if k == "ne":
        return "(PNe %s)" % vlib.zlit(p.get("c", 0))
    if k == "par":
        return "(PPar %s)" % vlib.zlit(p.get("c", 0))
    if k == "mod":
        return "(PMod %s %s)" % (vlib.zlit(p.get("c", 0)), vlib.zlit(p.get("r", 0)))
    if k == "in":
        return "(PIn %s)" % vlib.zlist(p.get("xs", []))
    return {"true": "PTrue", "false": "PFalse"}[k]


def mcode(m):
    if m["k"] == "aff":
        return "(MAff %s %s)" % (vlib.zlit(m.get("a", 0)), vlib.zlit(m.get("b", 0)))
    return "(MConst %s)" % vlib.zlit(m.get("a", 0))


JC = {"repl": "JRepl", "range": "JRange", "nil": "JNil"}


def ecode(t):
    o = t["o"]
    if o == "from":
        return "(EFrom %s)" % vlib.zlit(t.get("v", 0))
    if o == "slice":
        return "(ESlice %s)" % vlib.zlist(t.get("xs", []))
    if o == "arg":
        return "EArg"
    if o == "shift":
        return "(EShift %s)" % vlib.zlist(t.get("xs", []))
    if o in ("takew", "dropw", "filter"):
        return "(%s %s %s)" % ({"takew": "ETakeW", "dropw": "EDropW", "filter": "EFilter"}[o], pcode(t["p"]), ecode(t["s"]))
    if o == "map":
        return "(EMap %s %s)" % (mcode(t["m"]), ecode(t["s"]))
    if o == "plus":
        return "(EPlus %s %s)" % (ecode(t["l"]), ecode(t["r"]))
    if o == "join":
        return "(EJoin %s %s)" % (JC[t["j"]], ecode(t["s"]))
    if o == "joine":
        return "(EJoinE %s %s)" % (ecode(t["b"]), ecode(t["s"]))
    if o == "when":
        return "(EWhen %s %s)" % (pcode(t["p"]), ecode(t["s"]))
    raise ValueError(o)


def mode_coq(m):
    if m["k"] == "drain":
        return "CbDrain"
    if m["k"] == "pos":
        return "(CbPos %s)" % vlib.natlit(m.get("n", 0))
    return "(CbPred %s)" % pcode(m["p"])


def optz(v):
    return "None" if v is None else "(Some %s)" % vlib.zlit(v)


def to_coq(c):
    return "mk %s %s %s %s [%s] [%s] %s" % (
        ecode(c["expr"]), mode_coq(c["mode"]), vlib.zlist(c["obs"]), optz(c.get("err")),
        "; ".join(vlib.zlist(a) for a in c.get("after", [])),
        "; ".join("(%s, %s)" % (vlib.zlit(a), vlib.zlit(b)) for a, b in c.get("post", [])),
        vlib.blit(c.get("panic", False)))


# ---------------------------------------------------------------- pretty printing
def ppred(p):
    return {"lt": "x<%d" % p.get("c", 0), "ne": "x!=%d" % p.get("c", 0), "par": "x%%2==%d" % p.get("c", 0),
            "mod": "x%%%d==%d" % (p.get("c", 0), p.get("r", 0)), "in": "x in %s" % p.get("xs", []),
            "true": "true", "false": "false"}[p["k"]]


def pexpr(t):
    o = t["o"]
    if o == "from":
        return "From(%d)" % t.get("v", 0)
    if o == "slice":
        return "FromSlice(%s)" % t.get("xs", [])
    if o == "arg":
        return "From(x)"
    if o == "shift":
        return "FromSlice([x+y | y<-%s])" % t.get("xs", [])
    if o in ("takew", "dropw", "filter"):
        return "%s(%s, %s)" % ({"takew": "TakeWhile", "dropw": "DropWhile", "filter": "Filter"}[o], pexpr(t["s"]), ppred(t["p"]))
    if o == "map":
        m = t["m"]
        f = "%d*x+%d" % (m.get("a", 0), m.get("b", 0)) if m["k"] == "aff" else "const %d" % m.get("a", 0)
        return "Map(%s, %s)" % (pexpr(t["s"]), f)
    if o == "plus":
        return "Plus(%s, %s)" % (pexpr(t["l"]), pexpr(t["r"]))
    if o == "join":
        return "Join(%s, %s)" % (pexpr(t["s"]), {"repl": "x->FromSlice(x repeated x%3 times)", "range": "x->FromSlice([x..x+x%4))", "nil": "x->nil"}[t["j"]])
    if o == "joine":
        return "Join(%s, x->%s)" % (pexpr(t["s"]), pexpr(t["b"]))
    if o == "when":
        return "[%s ? %s : nil]" % (ppred(t["p"]), pexpr(t["s"]))
    raise ValueError(o)


def pmode(m):
    if m["k"] == "drain":
        return "documented loop"
    if m["k"] == "pos":
        return "ForEach, callback fails at call #%d" % m.get("n", 0)
    return "ForEach, callback fails when %s" % ppred(m["p"])


# ---------------------------------------------------------------- list denotation, for replay files only
# (a third reading of the codes, used to SHOW what was required; the verdict is Coq's Check.C14.oracle)
def ip(p, v):
    k = p["k"]
    if k == "mod":
        return v % p.get("c", 0) == p.get("r", 0)
    if k == "in":
        return v in p.get("xs", [])
    return {"lt": v < p.get("c", 0), "ne": v != p.get("c", 0), "par": v % 2 == p.get("c", 0), "true": True, "false": False}[k]


def im(m, v):
    return m.get("a", 0) * v + m.get("b", 0) if m["k"] == "aff" else m.get("a", 0)


def ij(j, v):
    return {"repl": [v] * (v % 3), "range": [v + i for i in range(v % 4)], "nil": []}[j]


def pden(t, x=0):
    o = t["o"]
    if o == "from":
        return [t.get("v", 0)]
    if o == "slice":
        return list(t.get("xs", []))
    if o == "arg":
        return [x]
    if o == "shift":
        return [x + y for y in t.get("xs", [])]
    if o == "plus":
        return pden(t["l"], x) + pden(t["r"], x)
    if o == "when":
        return pden(t["s"], x) if ip(t["p"], x) else []
    l = pden(t["s"], x)
    if o == "takew":
        r = []
        for v in l:
            if not ip(t["p"], v):
                break
            r.append(v)
        return r
    if o == "dropw":
        i = 0
        while i < len(l) and ip(t["p"], l[i]):
            i += 1
        return l[i:]
    if o == "filter":
        return [v for v in l if ip(t["p"], v)]
    if o == "map":
        return [im(t["m"], v) for v in l]
    if o == "join":
        return [w for v in l for w in ij(t["j"], v)]
    if o == "joine":
        return [w for v in l for w in pden(t["b"], v)]
    raise ValueError(o)


def required(c):
    l = pden(c["expr"])
    m = c["mode"]
    if m["k"] == "drain":
        return l, None
    for k, v in enumerate(l):
        if m["k"] == "pos" and k == m.get("n", 0):
            return l[:k + 1], 7000 + k
        if m["k"] == "pred" and ip(m["p"], v):
            return l[:k + 1], v
    return l, None


def size(t):
    return 1 + sum(size(t[k]) for k in ("s", "l", "r", "b") if k in t) + len(t.get("xs", []))


def ops(t, acc=None):
    acc = set() if acc is None else acc
    acc.add(t["o"])
    for k in ("s", "l", "r", "b"):
        if k in t:
            ops(t[k], acc)
    return acc


def sources(t):
    if t["o"] == "slice":
        return [t.get("xs", [])]
    if t["o"] == "plus":
        return sources(t["l"]) + sources(t["r"])
    if t["o"] == "joine":
        return sources(t["b"]) + sources(t["s"])
    return sources(t["s"]) if "s" in t else []


def nontrivial_key(c):
    if not c["obs"] and not c.get("panic"):
        return None
    return json.dumps([c["expr"], c["mode"]], sort_keys=True)


def signature(c):
    return {"kind": "seq-list-semantics", "root": c["expr"]["o"], "mode": c["mode"]["k"]}


def describe(c):
    return {"expression": pexpr(c["expr"]), "consumed_by": pmode(c["mode"]), "observed": c["obs"],
            "returned_error": c.get("err"), "sources_after": c.get("after"), "panicked": c.get("panic", False),
            "why": c.get("why", ""),
            "next_after_exhaustion": c.get("post", []),
            "required_list": required(c)[0], "required_error": required(c)[1],
            "required_sources_after": sources(c["expr"])}


def sample(c):
    d = describe(c)
    return {"expression": d["expression"], "consumed_by": d["consumed_by"], "observed": d["observed"][:20]}


def histogram(cases):
    h = {}
    for c in cases:
        k = c.get("gen", "?") + ":" + c["mode"]["k"]
        h[k] = h.get(k, 0) + 1
    return h


# ---------------------------------------------------------------- shrinking
def children(t):
    """smaller candidate trees: a sub-tree in place of the tree, a child replaced by its own child, a shorter slice"""
    out = []
    for k in ("s", "l", "r"):
        if k in t:
            out.append(t[k])
    for k in ("s", "l", "r", "b"):
        if k in t:
            for c in children(t[k]):
                n = dict(t)
                n[k] = c
                out.append(n)
    if t["o"] in ("slice", "shift") and t.get("xs"):
        xs = t["xs"]
        for i in range(len(xs)):
            n = dict(t)
            n["xs"] = xs[:i] + xs[i + 1:]
            out.append(n)
    return out


def shrink_with(ctx, case, evaluate, harness):
    """greedy: while some smaller tree still violates the oracle on the real code, take the smallest"""
    cur = case
    for _ in range(12):
        cands = children(cur["expr"])
        if not cands:
            break
        cands.sort(key=size)
        cands = cands[:300]
        res = run_harness(ctx, harness, cases_in=[{"expr": t, "mode": cur["mode"]} for t in cands])
        ev = evaluate(res)
        bad = sorted(set(ev["violations"]))
        if not bad:
            break
        cur = res[bad[0]]
    return cur


def evaluator(ctx, to_coq_fn, module, shard):
    wd = os.path.join(ctx.workdir, "shrink")

    def ev(cases):
        shards = vlib.write_shards(wd, module, [to_coq_fn(c) for c in cases], shard_size=shard)
        return vlib.eval_shards(shards, timeout=300)
    return ev


_SHRUNK = set()


def shrink(ctx, case):
    key = json.dumps(signature(case), sort_keys=True)
    if key in _SHRUNK:
        return case
    _SHRUNK.add(key)
    return shrink_with(ctx, case, evaluator(ctx, to_coq, CHECK_MODULE, SHARD), HARNESS)


def search(ctx, evaluate):
    cases = run_harness(ctx, HARNESS, tier="thorough")
    ev = evaluate(cases)
    found = sorted((cases[i] for i in set(ev["violations"])), key=lambda c: size(c["expr"]))
    return found[:20], {"explored": len(cases), "found": len(found)}
