"""C04 - composed optics are lawful and touch only their component foci."""
import json

import vlib
from props import optics_common as oc
from props import optics_derive as od

ID = "C04"
CHECK_MODULE = "Check.C04"
ORACLE_MODULE = "Check.C04o"
GEN = oc.GEN
GEN_DEPS = ["GenHseq.v", "GenOptics.v", "GenShape.v"]
TARGETS_CHECK = ["theories/Check/C04o.vo", "theories/Check/C04.vo"]
TARGETS_PROP = ["theories/Properties/C04.vo"]
SHARD = 100     # cases per coqc; the shards are evaluated in parallel (set per tier in run_impl)
PRELUDE = "Open Scope string_scope.\n"
RULE = ("8 fixed corner shapes + 44 (quick) / 600 (thorough) random struct shapes + 4 fixed and 4 / 54 random homonym shapes generated as Go source from VERIF_SEED (as C03); per "
        "shape, built in generated typed Go source: up to 5 Join chains of depth 2-3 over struct-typed fields (plain and value-embedded), "
        "BiMap / Getter / Setter with the byte involution xor 0x5a on pointer-free fields, BiMapS/B/I/F on string / []byte / int / float "
        "fields between types of one width, BiMapI ACROSS widths (an int8/16/32-rooted field exposed as a wider integer type and a "
        "wide field exposed as a narrower one, the values put drawn from the narrower type incl. negative ones and its corners; "
        "BiMapF float32<->float64 is not generated), ForShape2..9 on random type tuples incl. a repeated component (by type and by "
        "name), Iso and Morphism over 1-5 isos with nil entries and repeats between two instances of the shape, up to 2 Morphism "
        "lists per shape in which an iso over a composed lens (BiMap, BiMapS/B/I/F incl. across widths, Getter, Setter) occurs twice "
        "as the same value, adjacent and with nil / plain entries in between, and optics.NewLensM on small maps; every optic is exercised "
        "on arenas (guard, struct, guard) with typed random values: Get, Put, Get (Forward, Inverse for isos) with the byte diff of "
        "every structure after each step. A case is distinct by (shape layout, request) and non-trivial when some byte changed")
TRUSTED = [
    "tools/go2coq modes hseq, optics, shape (go/parser AST -> shallow Gallina; shapeN.Put/Get in the state+poison monad)",
    "the shape generator and Go driver (tools/runner/props/optics_common.py, optics_c04gen.py, harness/optics)",
    "modelled, not verified: conversions as functions on the byte representation (same-representation conversions are the identity; "
    "BiMapI across widths: sign extension / truncation of the little-endian bytes, proved to be Go's signed integer conversion on "
    "values - C04_sresize_is_conversion); "
    "a typed copy of a struct may or may not carry its padding bytes (they are compared neither way); Go maps as association lists",
]
CLAIM = {
    "text": "Coq theorems over optics as syntax (Field | Join | BiMap | Getter | Setter) interpreted on byte arenas: Join of two lawful "
            "optics obeys GetPut/PutGet/PutPut and changes nothing outside the outer focus and, with a positional outer optic (a field "
            "lens or a Join chain of field lenses), nothing outside the inner focus (C04_join_frame, C04_chain_framed); BiMap under "
            "g.f = id and f.g = id is lawful; BiMapI across widths (conversions by value, mutually inverse on the values of the narrower "
            "type only) obeys PutGet for the values that fit the narrower type, GetPut where the field holds one, PutPut always, and "
            "writes inside the field only (C04_bimapI_lawful_on, C04_bimapI_framed, from the generic C04_bimap_lawful_on); Getter never writes; Setter writes exactly the converted value; per-arity theorems "
            "(N=2..9) that the regenerated shapeN.Put is the component puts in the code's order, shapeN.Get the tuple of component gets, "
            "ForShapeN = ForProductN, and that with focused components on pairwise disjoint foci shapeN.Get after shapeN.Put returns "
            "the arguments and no byte outside the foci changes (C04_shapeN_nfold, from the generic C04_puts_nfold); a map lens touches "
            "only its key; Iso.Forward then Inverse restores the source focus; Morphism round trip for ANY list of isos (nil entries "
            "skipped, entries repeated, source foci overlapping) when two entries are the same iso or have disjoint target foci "
            "(C04_morphism_roundtrip), a hypothesis shown necessary by a witness; under the same hypothesis the way back into another "
            "source structure copies exactly the source foci (C04_morphism_transport). Model and oracle are run against the real code "
            "on generated shapes.",
    "design_ref": "DESIGN.md 3/C04",
    "note": "Trusted: Coq kernel + vm_compute, tools/go2coq, conversions as byte functions. Map lenses are modelled on association "
            "lists and are not composable with the byte optics in the model. Nothing of DESIGN 3/C04 is left partial. Hypotheses that "
            "the full theorems carry, stated in Properties/C04.v: (1) C04_join_frame needs the OUTER optic positional ('window': "
            "reads/writes exactly n bytes at a fixed offset - field lenses and Joins of them at any depth); for an outer optic that "
            "converts its value the inner focus has no position in the arena and only C04_join_frame_outer (nothing outside the outer "
            "focus changes) is claimed - witness C04_join_frame_needs_positional; (2) C04_shapeN_nfold / C04_puts_nfold need each component 'focused' (lawful, framed by its "
            "focus, Get reading its focus only - proved for field lenses, Join chains, Join over a window, BiMap) and the foci pairwise "
            "disjoint; (3) C04_morphism_roundtrip needs every entry to have a lawful source optic and a focused target optic, and two "
            "entries to be the same iso or to have disjoint TARGET foci - no hypothesis on source foci is needed; the target hypothesis "
            "is necessary (C04_morphism_needs_disjoint_targets with C04_witness_entries_ok / C04_witness_targets_overlap). "
            "C04_morphism_transport (beyond DESIGN) additionally needs the source optics focused and 'transports' (putting the value "
            "read from one arena into another copies the focus bytes - proved for field lenses, Join chains, BiMap, Join over a "
            "window); that extra hypothesis is sufficient, it is not claimed necessary.",
    "technique": "Coq proof by induction on optic syntax / component lists / iso lists + translator-regenerated per-arity definitions + "
                 "differential run of model and oracle on generated Go struct shapes",
}
ASSUMPTIONS = [
    "conversion functions are total and pure; same-representation conversions (BiMapS/B/I/F between types of one width rooted in "
    "one builtin type) are the identity on bytes; conversions between signed integer types of different widths are sign extension / "
    "truncation of little-endian bytes (amd64); float32 <-> float64 conversions are not modelled and not exercised",
    "a typed store through unsafe.Pointer writes exactly the bytes of the value (no GC/write-barrier effects)",
]

_prelude = oc.Prelude(globals())


def run_impl(ctx, tier=None, count=None):
    # every shard parses the definitions of all shapes of the run: small shards pay off in the quick tier only
    globals()["SHARD"] = 100 if (tier or ctx.tier) == "quick" else 300
    return oc.run_cases(ctx, ID, tier, count)


def _cop(o, td):
    k = o["o"]
    if k == "field":
        return "(CField %s%%nat %s%%nat %s)" % (oc.cty(td[o["T"]]), oc.cty(td[o["A"]]), oc.cstrs(o["attr"]))
    if k == "join":
        return "(CJoin %s %s)" % (_cop(o["a"], td), _cop(o["b"], td))
    kind = {"bimap": 0, "getter": 1, "setter": 2}[k]
    return "(CConv %d%%N %s %d%%N %s%%nat)" % (kind, _cop(o["x"], td), o["code"], oc.cty(td[o["B"]]))


def _path(p):
    return "[%s]%%nat" % "; ".join(str(i) for i in p)


def _first_leaf(o):
    while o["o"] != "field":
        o = o["a"] if o["o"] == "join" else o["x"]
    return o


def _req(c):
    r = c["req"]
    if "via" in r:
        return "(RShape %s %s)" % (oc.ctys(r["tys"]), oc.cstrs(r["attr"]))
    td = r["tydesc"]
    cb = r["combo"]
    if cb in ("iso", "morphism", "morphism-nested"):
        items = []
        for i in r["isos"]:
            if i is None:
                items.append("None")
            else:
                items.append("(Some (mkI %s %s %s %s))" % (_cop(i["sa"], td), _path(i["sa"]["fpath"]), _cop(i["ta"], td),
                                                          _path(i["ta"]["fpath"])))
        return "(RMorph [%s])" % "; ".join(items)
    if cb == "mapkey":
        return "(RMapKey [%s] %s %s)" % ("; ".join("(%s, %s)" % (oc.cstr(k), vlib.zlit(v)) for k, v in r["init"]),
                                         oc.cstr(r["key"]), vlib.zlit(r["v"]))
    o = r["optic"]
    kind = {"lens": 0, "getter": 1, "setter": 2}[r["kind"]]
    code = o.get("code", 0)
    outer = "None"
    if o["o"] == "join":
        fl = _first_leaf(o)
        # the outermost struct-typed field the chain copies out and writes back
        outer = "(Some (%s, %s%%nat))" % (_path(r["outer_path"]), oc.cty(td[fl["A"]]))
    return "(RLens %s %d%%N %d%%N %s%%nat %s %s)" % (_cop(o, td), kind, code, oc.cty(td[r["B"]]), _path(o["fpath"]), outer)


def _diff(d):
    return oc.hexdiff(d)


def _obs(c):
    r, o = c["req"], c["obs"]
    if o.get("panic"):
        return "OPanic"
    if "via" in r:
        return "(OLenses [%s])" % "; ".join(od.clobs(x) for x in o["lenses"])
    cb = r["combo"]
    if cb in ("iso", "morphism", "morphism-nested"):
        return "(OMorph %s %s %s %s %s %s %s %s)" % (oc.hexs(o["before_t"]), oc.hexs(o["before_s2"]), vlib.blit(o["pf"]), vlib.blit(o["pi"]),
                                                  _diff(o["ds1"]), _diff(o["dt1"]), _diff(o["ds2"]), _diff(o["dt2"]))
    if cb == "mapkey":
        return "(OMap %s %s %s [%s])" % (vlib.zlit(o["get0"]), vlib.zlit(o["get1"]), vlib.blit(o["same"]),
                                        "; ".join("(%s, %s)" % (oc.cstr(k), vlib.zlit(v)) for k, v in o["after"]))
    return "(OLens %s)" % od.clobs(o["lens"])


def to_coq(c):
    return "mkc %s %s %s" % (_prelude.use(c["shape"]), _req(c), _obs(c))


def _changed(c):
    o = c["obs"]
    if o.get("panic"):
        return False
    if "lenses" in o:
        return any(l["diff"] for l in o["lenses"])
    if "lens" in o:
        return bool(o["lens"]["diff"]) or c["req"].get("kind") == "getter"
    if "dt1" in o:
        return bool(o["dt1"])
    return True


def nontrivial_key(c):
    if not _changed(c):
        return None
    r = {k: v for k, v in c["req"].items() if k != "tydesc"}
    return (oc.shape_name(c["shape"]), json.dumps(r, sort_keys=True))


def _kind(c):
    r = c["req"]
    return "shape%d" % len(r["tys"]) if "via" in r else r["combo"]


def signature(c):
    k = _kind(c)
    return {"kind": "combinator", "combinator": "shapeN" if k.startswith("shape") else k}


def describe(c):
    r = {k: v for k, v in c["req"].items() if k != "tydesc"}
    if "tys" in r:
        r["tys"] = [oc.tname(t) for t in r["tys"]]
    return {"shape": oc.shape_summary(c["shape"]), "request": r, "observed": c["obs"],
            "arena": {"struct_at": c["shape"]["base"], "struct_size": c["shape"]["ty"]["s"], "bytes_before": c["shape"]["before"]},
            "compiler_offsets": c["shape"]["offs"]}


def sample(c):
    r = {k: v for k, v in c["req"].items() if k not in ("tydesc",)}
    if "tys" in r:
        r["tys"] = [oc.tname(t) for t in r["tys"]]
    return {"shape": c["shape"]["id"], "request": json.dumps(r)[:400], "changed": _changed(c)}


def histogram(cases):
    h = {}
    for c in cases:
        k = _kind(c) + ("/panic" if c["obs"].get("panic") else "")
        h[k] = h.get(k, 0) + 1
    h["shapes"] = len({c["shape"]["id"] for c in cases})
    return h


def search(ctx, evaluate):
    cases = run_impl(ctx, count=120)
    ev = evaluate(cases)
    found = [cases[i] for i in sorted(set(ev["violations"]))]
    return found, {"explored": len(cases), "found": len(found)}
