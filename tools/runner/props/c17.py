"""C17 - Built-in Eq/Ord instances, ContraMap and Monoid constructors obey their laws."""
import json
import os
import shutil

import vlib

ID = "C17"
CHECK_MODULE = "Check.C17"
ORACLE_MODULE = "Check.C17o"
GEN = [("GenPure.v", "pure", ["pure/eq/eq.go", "pure/ord/ord.go", "pure/semigroup/semigroup.go", "pure/monoid/monoid.go"])]
GEN_DEPS = ["GenPure.v"]
TARGETS_CHECK = ["theories/Check/C17o.vo", "theories/Check/C17.vo"]
TARGETS_PROP = ["theories/Properties/C17.vo"]
RULE = ("eq.Int / ord.Int on all pairs from a boundary set (+-2^63 edges, +-1, 0, random), eq.String / ord.String on pairs from "
        "{empty, prefixes of each other, non-ASCII and high bytes, random}, ContraMap over Eq and Ord with projections (mod m, half, negate), "
        "From wrappers with order-sensitive functions, semigroup.From, monoid.From and FromOp with non-commutative operations "
        "(a-b, 3a+b) and non-zero empty elements - run on the real instances of /repo/pure and on the generated definitions; from VERIF_SEED. "
        "Distinct by (kind, arguments); non-trivial when the two arguments differ")
TRUSTED = [
    "tools/go2coq mode pure (go/parser AST of pure/eq, ord, semigroup, monoid -> one shallow Gallina definition per method / constructor; "
    "== and < on a type parameter become the parameters go_eq / go_lt; receiver fields become parameters; struct literal = tuple of fields)",
    "modelled, not verified: Go's == and < on int as Z.eqb / Z.ltb, on string as bytewise equality / lexicographic order (Pure/Prelude.v); "
    "method promotion through embedded interface fields (Combine of a monoid = Combine of its Semigroup field)",
]
ASSUMPTIONS = ["projection functions and wrapped functions are total and pure"]
CLAIM = {
    "text": "Theorems proved by the Coq kernel about definitions regenerated from pure/eq, ord, semigroup, monoid on every run: eq.Int / eq.String decide equality (an equivalence); ord.Int / ord.String return LT, EQ, GT (= -1, 0, 1) exactly as the built-in order does, hence total, antisymmetric, transitive and agreeing with Eq on EQ - for every strict total order supplied as the built-in <; ContraMap gives the base instance on the projected values in argument order; From wrappers return what the wrapped function returns; monoid.From / FromOp yield the given empty element and the given operation with arguments in order. The generated definitions are also run against the real instances.",
    "design_ref": "DESIGN.md 3/C17",
    "note": "Trusted: Coq kernel; tools/go2coq mode pure; the prelude's reading of Go's == and < on int and string.",
    "technique": "Coq proof over translator-regenerated definitions + differential run of model vs code",
}


def stage(ctx):
    d = vlib.scratch_dir("c17")
    shutil.copy(os.path.join(vlib.ROOT, "harness/c17/main.go"), os.path.join(d, "main.go"))
    vlib.write_gomod(d, "harness/c17", requires=["pure"])
    return d


def run_impl(ctx, tier=None):
    d = stage(ctx)
    try:
        exe = os.path.join(d, "c17.bin")
        rc, out = vlib.go_build(d, ".", exe)
        if rc != 0:
            raise vlib.HarnessError("harness does not build against /repo/pure:\n" + out[-1500:])
        env = dict(ctx.env)
        if tier:
            env["VERIF_TIER"] = tier
        rc, so, se = vlib.sh2([exe], env=env, timeout=300)
        if rc != 0:
            raise vlib.HarnessError("harness failed (rc %d): %s" % (rc, se[-1500:]))
        cases = [json.loads(l) for l in so.split("\n") if l.strip()]
        if ctx.replay_cases:
            want = {json.dumps([c["kind"], c.get("code"), c["a"], c["b"], c.get("e")]) for c in ctx.replay_cases}
            cases = [c for c in cases if json.dumps([c["kind"], c.get("code"), c["a"], c["b"], c.get("e")]) in want] or ctx.replay_cases
        return cases
    finally:
        shutil.rmtree(d, ignore_errors=True)


KINDS = {"eqint": 0, "eqstr": 1, "ordint": 2, "ordstr": 3, "cmeq": 4, "cmord": 5, "fromeq": 6, "fromord": 7, "sgfrom": 8,
         "monfrom": 9, "monfromop": 10, "cmfromeq": 11, "cmfromord": 12, "fromorddist": 13, "cmfromorddist": 14, "monslice": 15}


def to_coq(c):
    return "mk %d%%N %s %s %s %s %s" % (KINDS[c["kind"]], vlib.zlit(c.get("code", 0)), vlib.zlist(c["a"]), vlib.zlist(c["b"]),
                                       vlib.zlit(c.get("e", 0)), vlib.zlist(c["obs"]))


def nontrivial_key(c):
    if c["a"] == c["b"]:
        return None
    return json.dumps([c["kind"], c.get("code"), c["a"], c["b"], c.get("e")])


def signature(c):
    return {"kind": "pure-instance", "instance": c["kind"]}


def describe(c):
    return dict(c)


def sample(c):
    return dict(c)


def histogram(cases):
    h = {}
    for c in cases:
        h[c["kind"]] = h.get(c["kind"], 0) + 1
    return h


def search(ctx, evaluate):
    cases = run_impl(ctx, tier="thorough")
    ev = evaluate(cases)
    found = [cases[i] for i in sorted(set(ev["violations"]))]
    return found, {"explored": len(cases), "found": len(found)}
