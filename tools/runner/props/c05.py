"""C05 - Sequential pipe stages emit exactly the list image of their input, in order."""
import pool_common as pc

pc.install(globals(), "C05", "C05", "sequential stages = list image",
    rule=("sequential stages Map, FMap, Filter, Partition, Take(n in 0..4), TakeWhile, ForEach, Void, Fold x input capacities 0..3 x "
          "inputs of length 0..6 x schedules: enumerated interleavings of exactly 5 tokens over {send, close, recv out0, recv out1} "
          "(a seeded sample per stage/capacity) and random schedules from VERIF_SEED, each followed by a drain to completion; "
          "non-failing coded functions, no cancel. Distinct by (stage, capacities, full observed trace); non-trivial when a value "
          "was delivered"),
    claim={
        "text": "Theorems proved by the Coq kernel for ALL inputs, capacities and interleavings (induction over the event list of an execution of the Pool machine): for every sequential stage the delivered stream is in every reachable state a prefix of the list image (each element once, in order, nothing invented), Take never consumes more than n, and in every completed state (input closed, not cancelled, nothing enabled, nothing left to receive) the outputs carry exactly map / flat_map / filter / both partition halves / firstn n / take_while / the left fold from empty, the goroutine has returned and the outputs are closed. The model is tied to the code by trace acceptance of recorded synctest runs.",
        "design_ref": "DESIGN.md 2.1, 3/C05",
        "note": "Trusted: Coq kernel; the Pool machine as a model of Go channels/select/goroutines (Pipe/Pool.v) and the per-stage plans (Pipe/Stages.v) - checked against the real code by the correspondence run; fairness of the Go scheduler (turns 'some step is enabled' into 'it happens').",
        "technique": "Coq proof (invariants by induction over executions of a hand-written model) + trace-acceptance correspondence",
    },
    assumptions=[
        "user functions are total and side-effect free (coded families in the harness)",
        "liveness conclusions assume a fair Go scheduler; the theorems show that the completed state is the only state without an enabled step",
    ])
