"""C08 - the unbounded channel (pipe.New) is FIFO, lossless, duplicate-free and never blocks senders."""
import atexit
import json
import os
import shutil

import vlib

ID = "C08"
CHECK_MODULE = "Check.C08"
TARGETS_CHECK = ["theories/Check/C08.vo"]
TARGETS_PROP = ["theories/Properties/C08.vo"]
SHARD = 600
EVAL_TIMEOUT = 1200
RULE = ("(a) pump: the real pipe.New is driven inside a testing/synctest bubble by non-blocking attempts (send / receive / cancel / "
        "close-by-sender, synctest.Wait() after every move so the pump is durably blocked at every observation) for capacities 0..3: "
        "ALL plans up to 7 moves (quick; 9 thorough) with at most one cancel and one close and no send after the close; the same plans up to 4 "
        "(6) moves with one or two moves NOT followed by Wait (so that a value is still parked in the input buffer when the cancel or "
        "close arrives; GOMAXPROCS(1)); plus long random "
        "histories from VERIF_SEED that repeatedly drain the queue to empty and refill it; every case ends with an epilogue that "
        "ends the stream and receives until the receive side closes; recorded per move: done / would-block / value / closed / crash "
        "(a crash of the pump kills the harness process, the runner attributes it to the case that had begun and re-runs it alone with "
        "tracing). (b) queue: the unexported newq/enq/deq/head/emit are reached through `go test -overlay` (nothing is written to "
        "/repo) and run on random histories of 10^4 (quick) / 10^5 (thorough) operations each with fill and drain phases. "
        "A case is distinct by (capacities, plan) resp. by its operation list and non-trivial when at least one send completed "
        "resp. at least one dequeue happened")
TRUSTED = [
    "modelled, not verified: the pump goroutine as the machine of coq/theories/Pipe/Unbound.v over the Go-lite channel rules of DESIGN 2.1.1 "
    "(a select may take any ready arm; rendezvous on an unbuffered channel is a joint step), tied to the code by trace acceptance on the "
    "explored move sequences; the linked queue as the pointer model of Pipe/Queue.v (sync.Pool = any previously released node or a fresh one), "
    "tied by direct comparison of long operation histories",
    "testing/synctest (Go 1.26): synctest.Wait() returns only when every other goroutine of the bubble is durably blocked",
    "go build -overlay (maps harness/c08/verif_export.go.src into package pipe for the harness build only)",
]
CLAIM = {
    "text": ("Coq theorems about (1) a pointer-level model of the linked queue (heap of nodes, head/tail pointers, free list with an arbitrary "
             "pick per enq): under the invariant wfq every enq appends, every deq removes and returns the head, head/emit read the abstract "
             "list, for every pool choice and hence every history incl. drain-to-empty-and-refill; (2) a machine model of the pump of pipe.New "
             "over that FIFO and the channels in/eg of arbitrary capacities: for every event list rcvd ++ egbuf ++ queue ++ inbuf = sent "
             "(FIFO, no loss, no duplicate, nothing invented) and no panic; every quiescent state that is neither cancelled nor closed "
             "accepts a send without any receive, and pump+receiver steps are bounded by a measure; after cancel every value sent before it "
             "is received before the receive side closes; after a sender close (not preceded by sends-after-cancel) everything sent is "
             "received, then the side closes; the only stuck state after cancel/close is the finished one. Both models are run against the "
             "real code: pump traces under testing/synctest (powerset acceptance), queue histories through a build overlay."),
    "design_ref": "DESIGN.md 3/C08",
    "note": ("Trusted: Coq kernel + vm_compute; the two hand-written models (tied to the code by differential runs, not by proof); "
             "testing/synctest; go build -overlay. The channel semantics are the Go-lite rules of DESIGN 2.1.1. Memory growth of the "
             "unbounded queue and data-race freedom are outside the model. Sends completed after the cancel carry no delivery obligation."),
    "technique": "Coq proof (pointer-model refinement + machine invariants over all event lists) + trace-acceptance / differential runs vs code",
}
ASSUMPTIONS = [
    "one sender side: it closes at most once and does not send after its own close (Go would panic in the sender otherwise)",
    "values sent after the context was cancelled carry no delivery obligation (property text: sends completed before the cancel)",
    "the receive side keeps receiving: delivery of the backlog after cancel/close needs the receiver to take it (the pump blocks on a full egress buffer)",
    "sync.Pool hands out either a fresh node or one released earlier by this queue (no foreign Put on the queue's pool)",
]

KMAP = {"init": "MInit", "send": "MSend", "recv": "MRecv", "cancel": "MCancel", "close": "MClose"}
PLANK = {"S": "send", "R": "recv", "C": "cancel", "X": "close"}
MAX_CRASHES = 6
_BUILT = {}
_SHRUNK = {}


def build():
    if "exe" in _BUILT:
        return _BUILT["dir"], _BUILT["exe"]
    d = vlib.scratch_dir("c08")
    atexit.register(shutil.rmtree, d, ignore_errors=True)
    shutil.copy(os.path.join(vlib.ROOT, "harness/c08/c08_test.go"), os.path.join(d, "c08_test.go"))
    vlib.write_gomod(d, "harness", requires=["pipe", "pure"])
    ov = os.path.join(d, "overlay.json")
    with open(ov, "w") as f:
        json.dump({"Replace": {os.path.join(os.path.realpath(vlib.REPO), "pipe", "verif_export.go"):
                               os.path.join(vlib.ROOT, "harness/c08/verif_export.go.src")}}, f)
    exe = os.path.join(d, "c08.test")
    rc, out = vlib.sh([vlib.GO, "test", "-c", "-vet=off", "-tags", "verif", "-overlay", ov, "-o", exe, "."],
                      cwd=d, env=vlib.GOENV, timeout=900)
    if rc != 0 and "verif_export.go" in out:
        # the wrappers around the UNEXPORTED queue functions do not compile (renamed / inlined / removed helpers): that
        # is not a property of pipe.New; exercise the public pump layer alone and say so in the evidence
        with open(ov, "w") as f:
            json.dump({"Replace": {os.path.join(os.path.realpath(vlib.REPO), "pipe", "verif_export.go"):
                                   os.path.join(vlib.ROOT, "harness/c08/verif_export_none.go.src")}}, f)
        _BUILT["queue_layer"] = "not reachable: " + " | ".join(l.strip() for l in out.split("\n") if "verif_export.go" in l)[:400]
        rc, out = vlib.sh([vlib.GO, "test", "-c", "-vet=off", "-tags", "verif", "-overlay", ov, "-o", exe, "."],
                          cwd=d, env=vlib.GOENV, timeout=900)
    if rc != 0:
        raise vlib.HarnessError("harness does not build against %s/pipe (overlay %s):\n%s" % (vlib.REPO, ov, out[-1500:]))
    _BUILT.update(dir=d, exe=exe)
    return d, exe


def _run_once(ctx, env_extra, tier=None):
    """one harness process; returns (rc, lines, stderr tail)"""
    d, exe = build()
    env = dict(ctx.env)
    if tier:
        env["VERIF_TIER"] = tier
    outp = os.path.join(d, "out.jsonl")
    if os.path.exists(outp):
        os.remove(outp)
    env["VERIF_OUT"] = outp
    env.update(env_extra)
    rc, so, se = vlib.sh2([exe, "-test.run", "^TestC08$", "-test.timeout", "30m"], cwd=d, env=env, timeout=2400)
    lines = []
    if os.path.exists(outp):
        with open(outp) as f:
            for l in f:
                l = l.strip()
                if l:
                    try:
                        j = json.loads(l)
                        if j.get("layer") == "pump":
                            j.setdefault("plan", "")      # the empty plan is omitted by the encoder
                            j.setdefault("steps", [])
                        lines.append(j)
                    except ValueError:
                        pass   # a line cut short by the crash
    return rc, lines, (so + se)[-3000:]


def _panic_line(text):
    for l in text.split("\n"):
        if l.startswith("panic:") or l.startswith("fatal error:"):
            return l.strip()[:200]
    return text.strip().split("\n")[0][:200] if text.strip() else "process died"


def _trace_crashed(ctx, begin):
    """re-run the case that killed the process, alone, with per-move tracing"""
    d, _ = build()
    p = os.path.join(d, "one.jsonl")
    with open(p, "w") as f:
        f.write(json.dumps({"cap": begin["cap"], "plan": begin["plan"]}) + "\n")
    rc, lines, err = _run_once(ctx, {"VERIF_CASES": p, "VERIF_TRACE": "1"})
    steps = [l["step"] for l in lines if "t" in l]
    res = [l for l in lines if "idx" in l]
    if rc == 0 and res:
        return res[0], None        # did not crash this time: keep what it did
    return {"layer": "pump", "kind": begin.get("kind", "listed"), "cap": begin["cap"], "cin": begin["cap"], "ceg": begin["cap"],
            "plan": begin["plan"], "steps": steps, "crashed": True, "crash": _panic_line(err)}, err


def _pump_batch(ctx, env_extra, tier=None):
    """run the generator (or a VERIF_CASES list), restarting after every crash of the process"""
    cases = []
    start = 0
    crashes = 0
    while True:
        extra = dict(env_extra)
        extra["VERIF_FROM"] = str(start)
        rc, lines, err = _run_once(ctx, extra, tier)
        done = {}
        begun = {}
        for l in lines:
            if "idx" in l:
                done[l["idx"]] = l
            elif "begin" in l:
                begun[l["begin"]] = l
        for i in sorted(done):
            cases.append(done[i])
        if rc == 0:
            break
        pending = sorted(i for i in begun if i not in done)
        if not pending:
            raise vlib.HarnessError("harness failed (rc %d) outside any case: %s" % (rc, err[-1500:]))
        k = pending[-1]
        c, _ = _trace_crashed(ctx, begun[k])
        if not c.get("crashed"):
            c = dict(c, crashed=True, crash=_panic_line(err), steps=[])     # crashed in the batch, not alone: keep the fact
        c["idx"] = k
        cases.append(c)
        crashes += 1
        start = k + 1
        if crashes >= MAX_CRASHES:
            ctx.notes["harness_note"] = "stopped after %d crashes of the harness process; remaining cases not run" % crashes
            break
    return cases


def run_impl(ctx, tier=None):
    if ctx.replay_cases:
        out = []
        for rc in ctx.replay_cases:
            if rc.get("layer") == "queue":
                out.append(rc)      # a recorded queue history is re-evaluated as recorded
            else:
                out += run_listed(ctx, [rc])
        return out
    cases = _pump_batch(ctx, {}, tier)
    if _BUILT.get("queue_layer"):
        ctx.notes["queue_layer"] = _BUILT["queue_layer"]
    # spread the (large) queue cases over the shards
    qs = [c for c in cases if c["layer"] == "queue"]
    ps = [c for c in cases if c["layer"] != "queue"]
    if qs:
        gap = max(1, len(ps) // len(qs))
        merged = []
        qi = 0
        for i, c in enumerate(ps):
            if i % gap == 0 and qi < len(qs):
                merged.append(qs[qi])
                qi += 1
            merged.append(c)
        merged += qs[qi:]
        cases = merged
    return cases


def run_listed(ctx, plans):
    d, _ = build()
    p = os.path.join(d, "listed.jsonl")
    with open(p, "w") as f:
        for c in plans:
            f.write(json.dumps({"cap": c["cap"], "plan": c["plan"]}) + "\n")
    return _pump_batch(ctx, {"VERIF_CASES": p})


def _z(n):
    return vlib.zlit(n)


def steps_of(c):
    """(move, outcome) pairs as Coq terms; a crashed case gets OCrash on the move during which the process died"""
    out = []
    for s in c.get("steps", []):
        m = KMAP[s["k"]] + (" " + _z(s.get("x", 0)) if s["k"] == "send" else "")
        o = {"done": "ODone", "blocked": "OBlocked", "closed": "OClosed", "crash": "OCrash"}.get(s["o"])
        if s["o"] == "val":
            o = "OVal " + _z(s.get("v", 0))
        if s.get("nw"):
            out.append("(MRacy, ODone)")
        out.append("(%s, %s)" % (m, o))
    if c.get("crashed"):
        nxt = crashed_move(c)
        m = KMAP[nxt["k"]] + (" " + _z(nxt.get("x", 0)) if nxt["k"] == "send" else "")
        out.append("(%s, OCrash)" % m)
    return out


def crashed_move(c):
    """the planned move that was in flight when the process died (steps = init + completed moves, no epilogue yet)"""
    steps = c.get("steps", [])
    if not steps:
        return {"k": "init"}
    n = len(steps) - 1          # completed plan moves (skipped ones never happen before a crash in generated plans)
    plan = c["plan"]
    sends = sum(1 for s in steps if s["k"] == "send")
    if n < len(plan):
        k = PLANK[plan[n].upper()]
        return {"k": k, "x": sends + 1} if k == "send" else {"k": k}
    return {"k": "cancel"} if not any(s["k"] in ("cancel", "close") for s in steps) else {"k": "recv"}


def to_coq(c):
    if c["layer"] == "queue":
        ops = []
        for code, x in c["ops"]:
            if code == 0:
                ops.append("QE " + _z(x))
            elif code == 1:
                ops.append("QD " + _z(x))
            elif code == 2:
                ops.append("QH " + _z(x))
            elif code == 3:
                ops.append("QM true" if x == 1 else ("QM false" if x == 0 else "QDcrash"))
            else:
                ops.append("QDcrash")
        if len(ops) <= 5000:
            return "CQueue [" + "; ".join(ops) + "]"
        # a list literal nests as deep as it is long: keep every literal short (coqc's stack), concatenate in Coq
        chunks = ["[" + "; ".join(ops[i:i + 5000]) + "]" for i in range(0, len(ops), 5000)]
        return "CQueue (List.concat [" + ";\n    ".join(chunks) + "])"
    return "CPump %s %s [%s]" % (vlib.natlit(c["cin"]), vlib.natlit(c["ceg"]), "; ".join(steps_of(c)))


def nontrivial_key(c):
    if c["layer"] == "queue":
        return ("queue", c.get("idx")) if any(o[0] == 1 for o in c["ops"]) else None
    if not any(s["k"] == "send" and s["o"] == "done" for s in c.get("steps", [])):
        return None
    return (c["cin"], c["ceg"], c["plan"])


def signature(c):
    if c["layer"] == "queue":
        return {"kind": "queue-history"}
    return {"kind": "pump-trace", "cap": c["cap"], "crashed": bool(c.get("crashed"))}


def describe(c):
    if c["layer"] == "queue":
        names = {0: "enq", 1: "deq ->", 2: "head ->", 3: "emit ->", 4: "deq CRASHED"}
        ops = c["ops"]
        tail = ops[-40:] if len(ops) > 40 else ops
        return {"what": "history of %d operations on the real linked queue (newq/enq/deq/head/emit via build overlay)" % len(ops),
                "last operations": ["%s %s" % (names[o[0]], o[1]) for o in tail],
                "required": "answers of a FIFO list: deq/head return the oldest value, emit is nil iff empty"}
    tr = []
    for s in c.get("steps", []):
        t = s["k"] + (" %d" % s.get("x", 0) if s["k"] == "send" else "") + " -> " + s["o"] + (" %d" % s.get("v", 0) if s["o"] == "val" else "")
        if s.get("nw"):
            t += "   [no Wait before the next move]"
        tr.append(t)
    d = {"call": "rcv, snd := pipe.New[int](ctx, %d)  (cap(snd)=%d, cap(rcv)=%d), driven under testing/synctest" % (c["cap"], c["cin"], c["ceg"]),
         "plan": c["plan"] + "  (S send attempt, R receive attempt, C cancel, X close(snd), lower case = not followed by Wait; then: end the stream, receive until closed)",
         "trace": tr,
         "required": "received = the completed sends, in order, once; sends never block before cancel/close; after cancel or close "
                     "everything sent before it is received, then the receive side closes; no crash"}
    if c.get("crashed"):
        d["crash"] = "%s during/after move: %s" % (c.get("crash"), json.dumps(crashed_move(c)))
    return d


def sample(c):
    d = describe(c)
    if "trace" in d and len(d["trace"]) > 30:
        d["trace"] = d["trace"][:30] + ["... (%d moves)" % len(d["trace"])]
    return d


def histogram(cases):
    h = {}
    for c in cases:
        if c["layer"] == "queue":
            h["queue-histories"] = h.get("queue-histories", 0) + 1
            h["queue-ops"] = h.get("queue-ops", 0) + len(c["ops"])
            continue
        for k in ("pump-" + c.get("kind", "?"), "cap=%d" % c["cap"]):
            h[k] = h.get(k, 0) + 1
        for s in c.get("steps", []):
            k = "move:%s->%s" % (s["k"], s["o"])
            h[k] = h.get(k, 0) + 1
        if c.get("crashed"):
            h["crashed"] = h.get("crashed", 0) + 1
    return h


def _eval(ctx, cases, tag):
    wd = os.path.join(ctx.workdir, tag)
    shards = vlib.write_shards(wd, CHECK_MODULE, [to_coq(c) for c in cases], shard_size=SHARD)
    return vlib.eval_shards(shards)


def shrink(ctx, case):
    """drop moves of the plan (and, for queue histories, cut the history) while the oracle still rejects the real run"""
    key = json.dumps(signature(case), sort_keys=True)
    if key in _SHRUNK:
        return _SHRUNK[key]
    cur = case
    if case["layer"] == "queue":
        ops = case["ops"]
        # shortest rejected prefix, by bisection on the recorded history (the history itself is the evidence)
        lo, hi = 0, len(ops)
        while lo + 1 < hi:
            mid = (lo + hi) // 2
            ev = _eval(ctx, [dict(case, ops=ops[:mid])], "shrink")
            if ev["violations"]:
                hi = mid
            else:
                lo = mid
        cur = dict(case, ops=ops[:hi])
    else:
        for _ in range(40):
            plan = cur["plan"]
            cands = [dict(cap=cur["cap"], plan=plan[:i] + plan[i + 1:]) for i in range(len(plan))]
            # distinct plans only
            seen = set()
            cands = [c for c in cands if not (c["plan"] in seen or seen.add(c["plan"]))]
            if not cands:
                break
            got = run_listed(ctx, cands)
            ev = _eval(ctx, got, "shrink")
            bad = sorted(set(ev["violations"]))
            if not bad:
                break
            cur = got[bad[0]]
    _SHRUNK[key] = cur
    return cur


def search(ctx, evaluate):
    """after a broken obligation: a deeper run of the real code against the oracle alone"""
    cases = _pump_batch(ctx, {"VERIF_C08_MAXLEN": "7"})
    ev = evaluate(cases)
    found = [cases[i] for i in sorted(set(ev["violations"]))]
    return found[:5], {"explored": len(cases), "found": len(found)}
