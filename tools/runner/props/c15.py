"""C15 - key-value iterator combinators keep list semantics and key/value pairing."""
import json

import vlib
from props import c14 as seqglue

ID = "C15"
CHECK_MODULE = "Check.C15"
TARGETS_CHECK = ["theories/Check/C15.vo"]
TARGETS_PROP = ["theories/Properties/C15.vo"]
SHARD = 600
HARNESS = "c15"
RULE = ("pair sources = pair.From, the join-argument leaf and FromSeq(x -> From(1000+x, x) | two pairs | nil) over 8 plain sources "
        "(From, FromSlice of length 0..3): 12 in all. Every unary pair operator (TakeWhile/DropWhile/Filter with 11 predicates on key, "
        "value, both or key-value; Map with 5 mappings of value, key, key-value, 2*key+value; Join with 3 coded (nil, replicate, skew) and "
        "6 nested-expression functions) over every source and Plus of any two sources (level 1); every unary operator over every level-1 "
        "tree, Plus(level 1, source) both ways and a seeded sample of Plus(level 1, level 1) (level 2); ToSeq with 3 coded and 6 nested "
        "functions over every level <= 1 tree and a sample of level 2; FromSeq with 3 coded and 6 nested functions over a seeded quarter "
        "(thorough: all) of those ToSeq trees; Join / FromSeq / ToSeq whose function is CONDITIONAL - nil for some outer elements (12 guards "
        "over 3 outer sequences: nil first, between, several in a row, at the end, alternating, all) and otherwise an early-stopping "
        "expression of the argument (TakeWhile/DropWhile/Filter with 6 non-monotone predicates on key/value - parity, mod 3, membership "
        "- over 5 pair sequences where the predicate fails in the middle and holds again later, 60 compositions of them, ToSeq of "
        "them): all 5400 under Join, a seeded third (thorough: all) under FromSeq and ToSeq, a sample inside a further operator, and "
        "seeded random ones; seeded random trees mixing both sorts to depth 3..6 (thorough: ..7; random trees with more than 1500 result elements or 4000 constructor/join-function calls are skipped). Each tree is built "
        "from the real constructors and drained with the documented loop reading Key() and Value() at every position, or consumed by "
        "pair.ForEach / seq.ForEach with a callback failing at call 0/1/2/never or on a predicate over (key, value). Keys differ from "
        "values (k = 1000 + v at the sources). A case is distinct by (tree, consumption mode), non-trivial when the required list is non-empty")
TRUSTED = [
    "hand-written operational model coq/theories/Iter/PairModel.v (transcription of trait/pair/pair.go and of seq.From/FromSlice; tied to the code by this differential run only)",
    "function codes are interpreted twice: PairModel.interp_* (Coq) and harness/c15/main.go (Go)",
]
CLAIM = {
    "text": ("Coq theorems about a hand-written operational model of trait/pair/pair.go (one constructor per Go struct incl. toSeq/fromSeq, "
             "Key()/Value() as functions of the iterator object, Next() transcribed with its loops): for EVERY expression tree over "
             "pair.From, TakeWhile, DropWhile, Filter, Map, Plus, Join, ToSeq, FromSeq (plain sources seq.From/FromSlice; join functions "
             "incl. nil-returning and nested expressions) building and draining with the documented loop yields exactly the list of "
             "(key, value) pairs given by take-while, drop-while, filter, map-on-values, append and flat-map, predicates/mappings/join "
             "functions being applied to the key and value of the same element; Map leaves the key list unchanged; ForEach visits that "
             "list in order up to and including the first failing callback and returns its error, the iterator then standing on the element "
             "that failed (no further Next()). The model is run against the real "
             "iterators on all trees up to level 2 over a code alphabet with keys different from values and on random deeper trees; the "
             "observation is also checked directly against the list denotation."),
    "design_ref": "DESIGN.md 2.3, 3/C15",
    "note": ("Trusted: Coq kernel + vm_compute, the hand-written model (fidelity = differential testing, bounded by the generators), the "
             "Go harness. The plain-seq side of the model has From, FromSlice and ToSeq results only (the seq combinators are C14). "
             "Sharing one iterator between two parents is outside the property and the model."),
    "technique": "Coq proof (induction on the mutually defined pair/seq expressions with a positioned-on-the-remaining-list invariant) over a hand-written model + differential run of model vs code",
}
ASSUMPTIONS = [
    "user functions (predicates, mappings, join functions, ForEach callbacks) are total and do not touch the iterators they are applied to",
    "expression trees: no iterator value is used by two parents; Next() is not called again after it returned false",
    "int arithmetic of the coded mappings does not overflow (values and depths are bounded so that it cannot)",
]


def run_impl(ctx, tier=None):
    return seqglue.run_harness(ctx, HARNESS, tier=tier, cases_in=ctx.replay_cases)


# ---------------------------------------------------------------- Coq terms
pcode = seqglue.pcode
mcode = seqglue.mcode
Z = vlib.zlit


def ppcode(p):
    k = p["k"]
    if k == "key":
        return "(OnKey %s)" % pcode(p["p"])
    if k == "val":
        return "(OnVal %s)" % pcode(p["p"])
    if k == "both":
        return "(OnBoth %s %s)" % (pcode(p["p"]), pcode(p["q"]))
    return "(OnDiff %s)" % Z(p.get("c", 0))


def pmcode(m):
    k = m["k"]
    if k == "val":
        return "(MVal %s)" % mcode(m["m"])
    if k == "key":
        return "(MKey %s)" % mcode(m["m"])
    return {"diff": "MDiff", "mix": "MMix"}[k]


PJ = {"nil": "PJNil", "repl": "PJRepl", "skew": "PJSkew"}
TS = {"nil": "TSNil", "kv": "TSKV", "range": "TSRange"}
FS = {"nil": "FSNil", "pair": "FSPair", "two": "FSTwo"}


def ecode(t):
    o = t["o"]
    if o == "pfrom":
        return "(PFrom %s %s)" % (Z(t.get("kk", 0)), Z(t.get("v", 0)))
    if o == "parg":
        return "PArg"
    if o in ("ptakew", "pdropw", "pfilter"):
        return "(%s %s %s)" % ({"ptakew": "PTakeW", "pdropw": "PDropW", "pfilter": "PFilter"}[o], ppcode(t["p"]), ecode(t["s"]))
    if o == "pmap":
        return "(PMap %s %s)" % (pmcode(t["m"]), ecode(t["s"]))
    if o == "pplus":
        return "(PPlus %s %s)" % (ecode(t["l"]), ecode(t["r"]))
    if o == "pjoin":
        return "(PJoin %s %s)" % (PJ[t["j"]], ecode(t["s"]))
    if o == "pjoine":
        return "(PJoinE %s %s)" % (ecode(t["b"]), ecode(t["s"]))
    if o == "pfromseq":
        return "(PFromSeq %s %s)" % (FS[t["j"]], ecode(t["s"]))
    if o == "pfromseqe":
        return "(PFromSeqE %s %s)" % (ecode(t["b"]), ecode(t["s"]))
    if o == "sfrom":
        return "(SFrom %s)" % Z(t.get("v", 0))
    if o == "sslice":
        return "(SSlice %s)" % vlib.zlist(t.get("xs", []))
    if o == "sargk":
        return "SArgK"
    if o == "sargv":
        return "SArgV"
    if o == "sshift":
        return "(SShift %s)" % vlib.zlist(t.get("xs", []))
    if o == "stoseq":
        return "(SToSeq %s %s)" % (TS[t["j"]], ecode(t["s"]))
    if o == "stoseqe":
        return "(SToSeqE %s %s)" % (ecode(t["b"]), ecode(t["s"]))
    if o == "pwhen":
        return "(PWhen %s %s)" % (ppcode(t["p"]), ecode(t["s"]))
    if o == "swhen":
        return "(SWhen %s %s)" % (ppcode(t["p"]), ecode(t["s"]))
    raise ValueError(o)


def is_seq(t):
    return t["o"].startswith("s")


def mode_coq(m):
    if m["k"] == "drain":
        return "CbDrain"
    if m["k"] == "pos":
        return "(CbPos %s)" % vlib.natlit(m.get("n", 0))
    return "(CbPred %s)" % ppcode(m["p"])


def to_coq(c):
    return "mk (%s %s) %s [%s] %s [%s] [%s] %s" % (
        "RS" if is_seq(c["expr"]) else "RP", ecode(c["expr"]), mode_coq(c["mode"]),
        "; ".join("(%s, %s)" % (Z(k), Z(v)) for k, v in c["obs"]), seqglue.optz(c.get("err")),
        "; ".join(vlib.zlist(a) for a in c.get("after", [])),
        "; ".join("(%s, (%s, %s))" % (Z(a), Z(k), Z(v)) for a, k, v in c.get("post", [])),
        vlib.blit(c.get("panic", False)))


# ---------------------------------------------------------------- pretty printing + display denotation
def spred(p, x="x"):
    return seqglue.ppred(p).replace("x", x)


def pppred(p):
    k = p["k"]
    if k == "key":
        return spred(p["p"], "k")
    if k == "val":
        return spred(p["p"], "v")
    if k == "both":
        return "%s && %s" % (spred(p["p"], "k"), spred(p["q"], "v"))
    return "k-v<%d" % p.get("c", 0)


def ppmap(m):
    k = m["k"]
    if k in ("val", "key"):
        mm = m["m"]
        x = "v" if k == "val" else "k"
        return "%d*%s+%d" % (mm.get("a", 0), x, mm.get("b", 0)) if mm["k"] == "aff" else "const %d" % mm.get("a", 0)
    return {"diff": "k-v", "mix": "2*k+v"}[k]


PJT = {"nil": "(k,v)->nil", "repl": "(k,v)->(k,v) repeated v%3 times", "skew": "(k,v)->v even: nil | [(k+1,v+2),(k-v,v)]"}
TST = {"nil": "(k,v)->nil", "kv": "(k,v)->FromSlice([k,v])", "range": "(k,v)->FromSlice([k..k+v%3))"}
FST = {"nil": "x->nil", "pair": "x->From(1000+x,x)", "two": "x->x even: nil | [(1000+x,x),(2000+x,-x)]"}


def pexpr(t):
    o = t["o"]
    if o == "pfrom":
        return "pair.From(%d,%d)" % (t.get("kk", 0), t.get("v", 0))
    if o == "parg":
        return "pair.From(a,b)"
    if o in ("ptakew", "pdropw", "pfilter"):
        return "pair.%s(%s, %s)" % ({"ptakew": "TakeWhile", "pdropw": "DropWhile", "pfilter": "Filter"}[o], pexpr(t["s"]), pppred(t["p"]))
    if o == "pmap":
        return "pair.Map(%s, (k,v)->%s)" % (pexpr(t["s"]), ppmap(t["m"]))
    if o == "pplus":
        return "pair.Plus(%s, %s)" % (pexpr(t["l"]), pexpr(t["r"]))
    if o == "pjoin":
        return "pair.Join(%s, %s)" % (pexpr(t["s"]), PJT[t["j"]])
    if o == "pjoine":
        return "pair.Join(%s, (a,b)->%s)" % (pexpr(t["s"]), pexpr(t["b"]))
    if o == "pfromseq":
        return "pair.FromSeq(%s, %s)" % (pexpr(t["s"]), FST[t["j"]])
    if o == "pfromseqe":
        return "pair.FromSeq(%s, x->[(a,b)=(1000+x,x)] %s)" % (pexpr(t["s"]), pexpr(t["b"]))
    if o == "sfrom":
        return "seq.From(%d)" % t.get("v", 0)
    if o == "sslice":
        return "seq.FromSlice(%s)" % t.get("xs", [])
    if o == "sargk":
        return "seq.From(a)"
    if o == "sargv":
        return "seq.From(b)"
    if o == "sshift":
        return "seq.FromSlice([b+y | y<-%s])" % t.get("xs", [])
    if o == "stoseq":
        return "pair.ToSeq(%s, %s)" % (pexpr(t["s"]), TST[t["j"]])
    if o == "stoseqe":
        return "pair.ToSeq(%s, (a,b)->%s)" % (pexpr(t["s"]), pexpr(t["b"]))
    if o in ("pwhen", "swhen"):
        return "[%s ? %s : nil]" % (pppred(t["p"]).replace("k", "a").replace("v", "b"), pexpr(t["s"]))
    raise ValueError(o)


def ipp(p, k, v):
    kk = p["k"]
    if kk == "key":
        return seqglue.ip(p["p"], k)
    if kk == "val":
        return seqglue.ip(p["p"], v)
    if kk == "both":
        return seqglue.ip(p["p"], k) and seqglue.ip(p["q"], v)
    return k - v < p.get("c", 0)


def ipm(m, k, v):
    kk = m["k"]
    if kk == "val":
        return seqglue.im(m["m"], v)
    if kk == "key":
        return seqglue.im(m["m"], k)
    return k - v if kk == "diff" else 2 * k + v


def ipj(j, k, v):
    return {"nil": [], "repl": [[k, v]] * (v % 3), "skew": [] if v % 2 == 0 else [[k + 1, v + 2], [k - v, v]]}[j]


def its(j, k, v):
    return {"nil": [], "kv": [k, v], "range": [k + i for i in range(v % 3)]}[j]


def ifs(j, x):
    return {"nil": [], "pair": [[1000 + x, x]], "two": [] if x % 2 == 0 else [[1000 + x, x], [2000 + x, -x]]}[j]


def den(t, a=0, b=0):
    """display only (replay files); the verdict is Coq's Check.C15.oracle"""
    o = t["o"]
    if o == "pfrom":
        return [[t.get("kk", 0), t.get("v", 0)]]
    if o == "parg":
        return [[a, b]]
    if o == "pplus":
        return den(t["l"], a, b) + den(t["r"], a, b)
    if o == "sfrom":
        return [t.get("v", 0)]
    if o == "sslice":
        return list(t.get("xs", []))
    if o == "sargk":
        return [a]
    if o == "sargv":
        return [b]
    if o == "sshift":
        return [b + y for y in t.get("xs", [])]
    if o in ("pwhen", "swhen"):
        return den(t["s"], a, b) if ipp(t["p"], a, b) else []
    l = den(t["s"], a, b)
    if o == "ptakew":
        r = []
        for k, v in l:
            if not ipp(t["p"], k, v):
                break
            r.append([k, v])
        return r
    if o == "pdropw":
        i = 0
        while i < len(l) and ipp(t["p"], *l[i]):
            i += 1
        return l[i:]
    if o == "pfilter":
        return [[k, v] for k, v in l if ipp(t["p"], k, v)]
    if o == "pmap":
        return [[k, ipm(t["m"], k, v)] for k, v in l]
    if o == "pjoin":
        return [w for k, v in l for w in ipj(t["j"], k, v)]
    if o == "pjoine":
        return [w for k, v in l for w in den(t["b"], k, v)]
    if o == "pfromseq":
        return [w for x in l for w in ifs(t["j"], x)]
    if o == "pfromseqe":
        return [w for x in l for w in den(t["b"], 1000 + x, x)]
    if o == "stoseq":
        return [w for k, v in l for w in its(t["j"], k, v)]
    if o == "stoseqe":
        return [w for k, v in l for w in den(t["b"], k, v)]
    raise ValueError(o)


def required(c):
    l = den(c["expr"])
    if is_seq(c["expr"]):
        l = [[0, v] for v in l]
    m = c["mode"]
    if m["k"] == "drain":
        return l, None
    for i, (k, v) in enumerate(l):
        if m["k"] == "pos" and i == m.get("n", 0):
            return l[:i + 1], 7000 + i
        if m["k"] == "pred" and ipp(m["p"], k, v):
            return l[:i + 1], 2 * k + v
    return l, None


def sources(t):
    o = t["o"]
    if o == "sslice":
        return [t.get("xs", [])]
    if o == "pplus":
        return sources(t["l"]) + sources(t["r"])
    if o in ("pjoine", "pfromseqe", "stoseqe"):
        return sources(t["b"]) + sources(t["s"])
    return sources(t["s"]) if "s" in t else []


def pmode(m):
    if m["k"] == "drain":
        return "documented loop reading Key() and Value()"
    if m["k"] == "pos":
        return "ForEach, callback fails at call #%d" % m.get("n", 0)
    return "ForEach, callback fails when %s" % pppred(m["p"])


size = seqglue.size


def nontrivial_key(c):
    if not c["obs"] and not c.get("panic"):
        return None
    return json.dumps([c["expr"], c["mode"]], sort_keys=True)


def signature(c):
    return {"kind": "pair-list-semantics", "root": c["expr"]["o"], "mode": c["mode"]["k"]}


def describe(c):
    req = required(c)
    return {"expression": pexpr(c["expr"]), "consumed_by": pmode(c["mode"]),
            "observed": c["obs"], "returned_error": c.get("err"), "sources_after": c.get("after"),
            "panicked": c.get("panic", False), "why": c.get("why", ""), "next_after_exhaustion": c.get("post", []),
            "required_list": req[0], "required_error": req[1], "required_sources_after": sources(c["expr"]),
            "note": "elements of a plain seq.Seq root are shown as [0, value]"}


def sample(c):
    d = describe(c)
    return {"expression": d["expression"], "consumed_by": d["consumed_by"], "observed": d["observed"][:20]}


def histogram(cases):
    h = {}
    for c in cases:
        k = c.get("gen", "?") + ":" + c["mode"]["k"]
        h[k] = h.get(k, 0) + 1
    return h


# ---------------------------------------------------------------- shrinking
def children(t):
    """smaller candidates of the same sort (pair/seq) ... or of the other sort at the root"""
    out = []
    for k in ("s", "l", "r"):
        if k in t:
            out.append(t[k])
    for k in ("s", "l", "r", "b"):
        if k in t:
            for c in children(t[k]):
                if is_seq(c) != is_seq(t[k]):
                    continue
                n = dict(t)
                n[k] = c
                out.append(n)
    if t["o"] in ("sslice", "sshift") and t.get("xs"):
        xs = t["xs"]
        for i in range(len(xs)):
            n = dict(t)
            n["xs"] = xs[:i] + xs[i + 1:]
            out.append(n)
    return out


_SHRUNK = set()


def shrink(ctx, case):
    key = json.dumps(signature(case), sort_keys=True)
    if key in _SHRUNK:
        return case
    _SHRUNK.add(key)
    evaluate = seqglue.evaluator(ctx, to_coq, CHECK_MODULE, SHARD)
    cur = case
    for _ in range(12):
        cands = children(cur["expr"])
        if not cands:
            break
        cands.sort(key=size)
        cands = cands[:300]
        res = seqglue.run_harness(ctx, HARNESS, cases_in=[{"expr": t, "mode": cur["mode"]} for t in cands])
        ev = evaluate(res)
        bad = sorted(set(ev["violations"]))
        if not bad:
            break
        cur = res[bad[0]]
    return cur


def search(ctx, evaluate):
    cases = seqglue.run_harness(ctx, HARNESS, tier="thorough")
    ev = evaluate(cases)
    found = sorted((cases[i] for i in set(ev["violations"])), key=lambda c: size(c["expr"]))
    return found[:20], {"explored": len(cases), "found": len(found)}
