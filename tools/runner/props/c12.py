"""C12 - Join merges all inputs: nothing lost or duplicated, per-input order kept."""
import pool_common as pc

pc.install(globals(), "C12", "C12", "join",
    rule=("pipe.Join over 0..4 inputs with disjoint value ranges (input i carries 100*i+j) x input capacities 0..2 x inputs of length 0..4 x "
          "random interleavings of sends on the different inputs, closes (also early closes) and receives from VERIF_SEED, drained to completion. "
          "0..7 inputs, joins of 17, 18, 24 and 40 inputs of which all but one end at once, one producer 8..15 elements ahead of the consumer; "
          "free-running stress under the real scheduler plus a short pass under the race detector; the slice spread into the variadic parameter is overwritten as soon as Join has returned. Distinct by full observed trace; non-trivial when a value was delivered"),
    claim={
        "text": "Theorems proved by the Coq kernel for every number of inputs, capacities and interleaving: the output is an interleaving of prefixes of the inputs (per-input order, nothing duplicated or invented), it closes only after every input is closed and drained (unless cancelled), and it does close then; with no input it closes immediately. No input is starved by another one, whatever the arrival order: whenever the stage is at rest each input's goroutine has returned (input closed and drained), or is parked on an empty open input whose next send is accepted at once (even unbuffered) and forwarded, or holds one element that only a full output keeps back. Tied to the code by trace acceptance.",
        "design_ref": "DESIGN.md 3/C12",
        "note": "Trusted: Coq kernel; Pool machine as model of Go channels/goroutines/WaitGroup; harness. Scheduler fairness assumed for 'does close'.",
        "technique": "Coq proof (invariants over executions) + trace-acceptance correspondence",
    },
    assumptions=["fair Go scheduler for the liveness conclusion"])
