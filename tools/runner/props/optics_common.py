"""Shared by C01..C04: the struct-shape generator (emits Go SOURCE), the driver staging, and the
Coq case writer.  One PRNG seeded by VERIF_SEED decides the shapes and the generic instantiations;
the Go driver (harness/optics) draws the run-time requests from the same seed."""
import hashlib
import json
import os
import random
import shutil

import vlib

GEN = [
    ("GenHseq.v", "hseq", ["hseq/hseq.go"]),
    ("GenOptics.v", "optics", ["optics/lens.go", "optics/reflector.go"]),
    ("GenShape.v", "shape", ["optics/shape.go"]),
]

# ------------------------------------------------------------------------------------------------
# type alphabet: Go type text -> (size, alignment) on amd64 (only used to steer the generator; the
# truth comes from the compiler)
# ------------------------------------------------------------------------------------------------
BASIC = {
    "bool": (1, 1), "int8": (1, 1), "uint8": (1, 1), "int16": (2, 2), "uint16": (2, 2),
    "int32": (4, 4), "uint32": (4, 4), "float32": (4, 4), "int64": (8, 8), "uint64": (8, 8),
    "int": (8, 8), "uint": (8, 8), "float64": (8, 8), "uintptr": (8, 8), "complex64": (8, 4),
    "complex128": (16, 8), "string": (16, 8), "[]byte": (24, 8), "[]string": (24, 8),
    "*int": (8, 8), "*string": (8, 8), "any": (16, 8), "error": (16, 8), "[3]int16": (6, 2),
    "[2]string": (32, 8), "[0]int32": (0, 4), "struct{}": (0, 1), "map[string]int": (8, 8),
    "func()": (8, 8), "chan int": (8, 8), "[5]byte": (5, 1),
}
NAMED = {  # declared in the static prelude of shapes_gen.go
    "MyStr": "string", "MyInt": "int64", "MyI8": "int8", "MyBytes": "[]byte", "MyBool": "bool",
    "Empty": "struct{}", "MyPair": "struct { A int8; B int64 }", "MyArr": "[5]byte", "MyI16": "int16",
    "myLow": "int32", "MyF": "float64",
}
EMBEDDABLE = ["MyInt", "MyStr", "MyI8", "MyBool", "Empty", "myLow", "MyI16"]
# HOMONYMOUS types: distinct types with the same reflect String().  reflect qualifies a named type by its
# package name only and ignores the scope of the declaration, so a type declared inside a function prints
# (and has the Name and PkgPath) of the package-level type of that name.  A "homonym" shape is declared
# inside the body of the func init() that registers it, after local declarations `type X <underlying>`
# that shadow NAMED ones; inside such a shape the text X means the local type and pkgX (an alias of the
# static prelude; an alias prints as the aliased type) the package-level one.  Candidates per name: the
# first underlying type is the one of the package-level type (same size, same kind: nothing but type
# identity tells the two apart), the others differ in size or kind.
HOMONYM = {
    "MyInt": ["int64", "string", "int8", "[]byte"], "MyStr": ["string", "int64", "[2]string"],
    "MyI8": ["int8", "bool", "int64"], "MyBool": ["bool", "uint8", "string"],
    "MyPair": ["struct { A int8; B int64 }", "struct { B int64; A int8 }", "int64"], "Empty": ["struct{}", "[0]int32"],
    "MyI16": ["int16", "uint16", "string"], "myLow": ["int32", "float32", "int64"], "MyF": ["float64", "int64"],
    "MyBytes": ["[]byte", "[]string", "string"], "MyArr": ["[5]byte", "[5]int8"],
}
PKG = "pkg"   # alias prefix: type pkgMyInt = MyInt


def homonym_of(t, local):
    """the type text of the namesake of t inside a homonym shape with the local declarations `local`, or None"""
    stars = len(t) - len(t.lstrip("*"))
    b = t[stars:]
    if b in local:
        return "*" * stars + PKG + b
    if b.startswith(PKG) and b[len(PKG):] in local:
        return "*" * stars + b[len(PKG):]
    return None
# types a request may confuse with the right one (same size, or same underlying type)
SIMILAR = {
    "int64": ["uint64", "int", "float64", "MyInt", "*int"], "int": ["int64", "uint", "uintptr"],
    "string": ["MyStr", "any", "[2]int64"], "MyStr": ["string"], "[]byte": ["[]uint8", "MyBytes", "[]string", "[3]int64"],
    "MyBytes": ["[]byte"], "int8": ["uint8", "bool", "MyI8"], "bool": ["MyBool", "int8", "uint8"],
    "MyBool": ["bool"], "int16": ["uint16", "MyI16", "[2]int8"], "int32": ["uint32", "float32", "myLow", "[2]int16"],
    "uint8": ["int8", "byte"], "MyInt": ["int64"], "MyI8": ["int8"], "any": ["error", "string", "interface{}"],
    "struct{}": ["Empty", "[0]int32"], "Empty": ["struct{}"], "*int": ["*string", "uintptr", "int64", "*int64"],
    "[3]int16": ["[3]uint16", "[6]byte"], "float64": ["int64", "MyF"], "MyF": ["float64"], "MyPair": ["[2]int64", "complex128"],
    "uint64": ["int64"], "float32": ["int32"], "uint32": ["int32"], "uint16": ["int16"], "error": ["any"],
    "[5]byte": ["MyArr"], "MyArr": ["[5]byte"],
}
NAME_POOL = ["A", "B", "C", "D", "X", "Y", "Z", "Name", "ID", "Val", "id", "name", "val", "x", "y", "N", "S", "F1", "F2", "F3", "F4", "F5"]
TAG_KEYS = ["A", "B", "X", "Y", "id", "name", "k", "key", "Val", "nope", "a b", "ü", "S"]


class Gen:
    def __init__(self, rng, sid, prop, local=None):
        self.rng = rng
        self.sid = sid
        self.prop = prop
        self.local = local or {}   # homonym shape: NAMED name -> underlying type of its function-local namesake
        self.pairs = [x for n in self.local for x in (n, PKG + n)]
        self.structs = []      # [{"name", "fields"}] dependency order
        self.k = 0

    def fresh_struct_name(self, exported):
        self.k += 1
        suffix = "ABCDEFGHIJKLMNOPQRSTUVWXYZ"[self.k - 1] if self.k <= 26 else "Q%d" % self.k
        return ("%s%s" if exported else "%s%s") % (self.sid if exported else self.sid.lower(), suffix)

    def basic_type(self):
        r = self.rng
        if self.pairs and r.random() < 0.5:
            t = r.choice(self.pairs)
            return "*" + t if r.random() < 0.12 else t
        if r.random() < 0.25:
            return r.choice(list(NAMED))
        return r.choice(list(BASIC))

    def tag(self):
        r = self.rng
        k = r.choice(TAG_KEYS)
        form = r.randrange(9)
        if form == 0:
            return 'hseq:"%s"' % k
        if form == 1:
            return 'hseq:"%s,opt"' % k
        if form == 2:
            return 'hseq:",opt"'
        if form == 3:
            return 'json:"j,omitempty" hseq:"%s,a,b"' % k
        if form == 4:
            return 'hseq:"-"'
        if form == 5:
            return 'hseq:""'
        if form == 6:
            return 'json:"%s"' % k
        if form == 7:
            return 'hseq:"we\\"ird,x" xml:"q"'
        return 'hseq:"%s" json:"%s"' % (k, k)

    def struct(self, depth, nmin, nmax, top=False):
        r = self.rng
        name = self.sid if top else self.fresh_struct_name(r.random() < 0.8)
        n = r.randint(nmin, nmax)
        used = set()
        fields = []
        force_embed = top and r.random() < 0.6
        for i in range(n):
            roll = r.random()
            f = None
            if (roll < 0.22 or (force_embed and i == n // 2)) and depth < 4:
                # value-embedded struct (sometimes one already declared in this shape)
                if self.structs and r.random() < 0.2:
                    tname = r.choice(self.structs)["name"]
                else:
                    tname = self.struct(depth + 1, 1, 4)
                if tname not in used:
                    f = {"name": tname, "embed": "val", "type": tname, "struct": True}
            elif roll < 0.30 and depth < 4:
                tname = self.struct(depth + 1, 1, 3)
                f = {"name": tname, "embed": "ptr", "type": "*" + tname, "struct": True}
            elif roll < 0.35:
                t = r.choice(EMBEDDABLE)
                if self.local:
                    both = [x for x in EMBEDDABLE if x in self.local]
                    if both and r.random() < 0.7:
                        t = r.choice(both)
                    if t in self.local and r.random() < 0.5:
                        t = PKG + t      # the field is then called pkgX
                if t not in used:
                    ptr = r.random() < 0.3 and not t.endswith("Empty")
                    f = {"name": t, "embed": "ptr" if ptr else "val", "type": ("*" + t) if ptr else t, "struct": False}
            elif roll < 0.43 and depth < 4:
                tname = self.struct(depth + 1, 1, 3) if r.random() < 0.7 else "MyPair"
                ptr = r.random() < 0.3
                f = {"embed": None, "type": ("*" + tname) if ptr else tname}
            if f is None:
                f = {"embed": None, "type": self.basic_type()}
            if f["embed"] is None:
                cands = [x for x in NAME_POOL if x not in used]
                f["name"] = r.choice(cands)
            if f["name"] in used:
                continue
            used.add(f["name"])
            f["tag"] = self.tag() if r.random() < 0.3 else None
            fields.append(f)
        if not fields:
            fields.append({"embed": None, "type": "int64", "name": "A", "tag": None})
        self.structs.append({"name": name, "fields": fields})
        return name


def gen_shape(rng, sid, prop):
    g = Gen(rng, sid, prop)
    g.struct(0, 1, 9, top=True)
    return {"id": sid, "structs": g.structs}


def gen_homonym_shape(rng, sid, prop):
    names = rng.sample(sorted(HOMONYM), rng.randint(1, 3))
    local = {n: (HOMONYM[n][0] if rng.random() < 0.4 else rng.choice(HOMONYM[n])) for n in names}
    g = Gen(rng, sid, prop, local)
    g.struct(0, 2, 8, top=True)
    return {"id": sid, "structs": g.structs, "local": local}


def fixed_shapes(homonyms=False):
    """seed-independent shapes: the corner cases worth having in every run"""
    def S(name, *fields):
        return {"name": name, "fields": list(fields)}

    def F(name, typ, tag=None):
        return {"embed": None, "type": typ, "name": name, "tag": tag}

    def E(typ, ptr=False, tag=None, struct=True):
        return {"embed": "ptr" if ptr else "val", "type": ("*" + typ) if ptr else typ, "name": typ, "tag": tag, "struct": struct}
    out = []
    out.append({"id": "K0", "structs": [S("K0", F("A", "int64"))]})
    out.append({"id": "K1", "structs": [S("K1", F("A", "bool"), F("B", "int64"), F("C", "int8"), F("D", "int16"),
                                           F("E", "string"), F("F", "[]byte"), F("G", "struct{}"))]})
    out.append({"id": "K2", "structs": [S("K2C", F("Z", "int16"), F("S", "string")), S("K2B", F("Y", "int8"), E("K2C")),
                                        S("K2A", F("X", "bool"), E("K2B"), F("W", "[]byte")),
                                        S("K2", F("A", "int8"), E("K2A"), F("B", "int64"), F("Z", "struct{}"))]})
    # the embedded-pointer shape of finding F5 and the coincidence variant
    out.append({"id": "K3", "structs": [S("K3In", F("X", "int64"), F("Y", "string")),
                                        S("K3", F("A", "int8"), E("K3In", ptr=True), F("B", "int64"))]})
    out.append({"id": "K4", "structs": [S("K4P", F("W", "int"), F("X", "int")),
                                        S("K4", E("K4P", ptr=True), F("X", "int"))]})
    out.append({"id": "K5", "structs": [S("K5", F("A", "int64", 'hseq:"B"'), F("B", "int64", 'hseq:"A,opt"'),
                                           F("C", "int64", 'hseq:",opt"'), F("D", "MyInt", 'json:"x" hseq:"C"'))]})
    out.append({"id": "K6", "structs": [S("K6", E("MyInt", struct=False), E("MyStr", ptr=True, struct=False), F("Z", "[0]int32"),
                                           F("e", "Empty"))]})
    out.append({"id": "K7", "structs": [S("k7in", F("a", "int8"), F("B", "any")),
                                        S("K7", F("p", "*k7in"), E("k7in"), F("q", "MyPair"), F("r", "[3]int16"))]})
    if not homonyms:
        return out
    out = []
    # homonymous types (see HOMONYM): inside these shapes X is a function-local type, pkgX the package-level one
    # the homonym first / the real type first; same and different underlying types
    out.append({"id": "K8", "local": {"MyInt": "string", "MyI8": "int8"},
                "structs": [S("K8", F("A", "MyInt"), F("B", "pkgMyInt"), F("C", "int64"), F("D", "MyI8"), F("E", "pkgMyI8"), F("F", "string"))]})
    out.append({"id": "K9", "local": {"MyInt": "int64", "MyStr": "string", "MyPair": "struct { B int64; A int8 }"},
                "structs": [S("K9", F("A", "pkgMyInt"), F("B", "MyInt"), F("S", "MyStr"), F("P", "pkgMyPair"), F("Q", "MyPair"),
                              F("R", "*MyInt"), F("T", "*pkgMyInt"))]})
    # across embedding depth, as embedded fields (the field of the alias is called pkgMyInt), behind an embedded pointer
    out.append({"id": "K10", "local": {"MyInt": "int64", "MyBool": "bool"},
                "structs": [S("K10C", F("U", "pkgMyBool"), E("MyInt", struct=False)),
                            S("K10B", F("V", "MyBool"), E("K10C")),
                            S("K10P", F("W", "pkgMyInt"), F("X", "MyInt")),
                            S("K10", F("Y", "int8"), E("K10B"), E("pkgMyInt", struct=False), E("K10P", ptr=True), F("Z", "MyBool"))]})
    # only one of the two is present: a request for its namesake must fail loudly
    out.append({"id": "K11", "local": {"MyInt": "int64", "MyStr": "string", "MyI16": "uint16", "Empty": "struct{}", "MyBytes": "[]byte"},
                "structs": [S("K11In", F("N", "pkgMyBytes"), E("Empty", struct=False)),
                            S("K11", F("A", "MyInt"), F("B", "pkgMyStr"), F("C", "*MyI16"), E("K11In"), F("D", "int64"), F("E", "string"))]})
    return out


def shapes_for(seed, tier, prop, count=None):
    rng = random.Random("%s/%s" % (seed, "shapes"))   # same shapes for C01..C04 of one seed
    n = count if count is not None else {"quick": 44, "thorough": 600}.get(tier, 44)
    specs = fixed_shapes()
    for i in range(n):
        specs.append(gen_shape(rng, "S%d" % i, prop))
    # homonym shapes come last, the random ones from their own stream: the other shapes of a seed and the requests
    # the driver draws for them stay what they were
    specs += fixed_shapes(homonyms=True)
    hrng = random.Random("%s/%s" % (seed, "homonyms"))
    for i in range(max(2, n // 11)):
        specs.append(gen_homonym_shape(hrng, "H%d" % i, prop))
    return specs


# ------------------------------------------------------------------------------------------------
# what the generator knows about a shape (mirrors the depth-first listing; used only to write
# selectors / Offsetof chains and to choose instantiations)
# ------------------------------------------------------------------------------------------------
def listing(spec):
    byname = {s["name"]: s for s in spec["structs"]}
    res = []

    def walk(sname, path, sel, inline):
        for i, f in enumerate(byname[sname]["fields"]):
            p = path + [i]
            s = sel + [f["name"]]
            res.append({"path": p, "sel": s, "type": f["type"], "inline": inline, "name": f["name"], "tag": f.get("tag")})
            if f["embed"] and f.get("struct"):
                walk(f["type"].lstrip("*"), p, s, inline and f["embed"] == "val")
    walk(spec["id"], [], [], True)
    return res


def value_paths(spec):
    """every selector path that stays inside the struct: through value-embedded and plain struct-typed fields"""
    byname = {s["name"]: s for s in spec["structs"]}
    res = []

    def walk(sname, path, sel):
        for i, f in enumerate(byname[sname]["fields"]):
            p, s = path + [i], sel + [f["name"]]
            res.append({"path": p, "sel": s})
            t = f["type"]
            if t in byname and (f["embed"] in (None, "val")):
                walk(t, p, s)
    walk(spec["id"], [], [])
    return res


def go_local_decls(spec):
    return ["type %s %s" % (n, u) for n, u in spec.get("local", {}).items()]


def go_type_decls(spec, summary=False):
    out = []
    if summary and spec.get("local"):
        out.append("// declared inside a function, after these declarations, which shadow the package-level types of the same")
        out.append("// names (reflect prints both alike); %sX is an alias of the package-level X" % PKG)
        out += go_local_decls(spec)
    for s in spec["structs"]:
        out.append("type %s struct {" % s["name"])
        for f in s["fields"]:
            tag = (" `%s`" % f["tag"]) if f.get("tag") else ""
            if f["embed"]:
                out.append("\t%s%s" % (f["type"], tag))
            else:
                out.append("\t%s %s%s" % (f["name"], f["type"], tag))
        out.append("}")
    return "\n".join(out)


def tylist(ts):
    return "[]reflect.Type{%s}" % ", ".join("tyOf[%s]()" % t for t in ts)


def instantiations(rng, spec, props, budget):
    """generic instantiations requested for one shape: ForType, NewN, derivers"""
    L = listing(spec)
    T = spec["id"]
    types = []
    for e in L:
        if e["type"] not in types:
            types.append(e["type"])
    inline_types = []
    for e in L:
        if e["inline"] and e["type"] not in inline_types:
            inline_types.append(e["type"])
    forty, newn, derive = [], [], []
    # homonym shapes: the namesakes of the field types; `lonely`: those no field has (while a field of a type that prints alike exists)
    local = spec.get("local", {})
    namesakes = []
    for t in types:
        h = homonym_of(t, local)
        if h and h not in namesakes:
            namesakes.append(h)
    lonely = [h for h in namesakes if h not in types]
    twins = [t for t in types if homonym_of(t, local) in types]
    if "C03" in props:
        absent = [t for t in ["MyStr", "string", "uint16", "[]uint8", "*MyInt", "struct{}", "*" + T, T] if t not in types and t not in lonely]
        for t in types + lonely + rng.sample(absent, min(3, len(absent))):
            forty.append(t)
        for k in range(budget.get("newn", 5)):
            n = rng.randint(1, 9) if k else 9
            tup = [rng.choice(types) if rng.random() < 0.9 else rng.choice(absent or types) for _ in range(n)]
            newn.append(tup)
        if local:
            # both namesakes in one request, in both orders; tuples of types that are all present but for one lonely namesake
            for t in twins[:4]:
                newn.append([t, homonym_of(t, local)])
            if twins:
                newn.append([rng.choice(twins + types) for _ in range(rng.randint(3, 9))])
            for h in lonely[:3]:
                newn.append([h])
                tup = [rng.choice(types) for _ in range(rng.randint(2, 5))]
                tup[rng.randrange(len(tup))] = h
                newn.append(tup)
    if "C01" in props or "C02" in props or "C04" in props:
        foc = inline_types or types
        # every inline type once, by ForProduct1 and ForSpectrum1
        for t in foc[:budget.get("unary", 12)]:
            derive.append(("product", False, [t]))
            derive.append(("spectrum", False, [t]))
        for k in range(budget.get("nary", 4)):
            n = rng.randint(2, 9) if k else 3
            tup = [rng.choice(foc) for _ in range(n)]
            derive.append((rng.choice(["product", "spectrum", "product", "shape"]), False, tup))
        # equal types in adjacent positions (a swap of two constructors must show)
        t = rng.choice(foc)
        derive.append(("product", False, [rng.choice(foc), t, t]))
        derive.append(("shape", False, [t, rng.choice(foc), t]))
        inline_twins = [t for t in foc if homonym_of(t, local) in foc]
        for t in inline_twins[:4]:
            derive.append((rng.choice(["product", "spectrum", "shape"]), False, [t, homonym_of(t, local)]))
    if "C02" in props:
        # the namesake of a field's type is the wrong type that is hardest to tell from the right one
        # (or, when both are fields, the right type for another field: the driver asks for it by the names of both)
        for w in [homonym_of(t, local) for t in (inline_types or types) if homonym_of(t, local)][:6]:
            derive.append(("product", False, [w]))
            derive.append(("spectrum", False, [w]))
        wrong = []
        for t in (inline_types or types)[:8]:
            for w in SIMILAR.get(t, [])[:3]:
                if w not in wrong:
                    wrong.append(w)
        for w in wrong[:budget.get("wrong", 8)]:
            derive.append((rng.choice(["product", "spectrum"]), False, [w]))
        through_ptr = [e["type"] for e in L if not e["inline"]]
        for t in through_ptr[:3]:
            derive.append(("product", False, [t]))
            derive.append(("spectrum", False, [t]))
        # container *T, and a mixed tuple with one wrong type
        foc = inline_types or types
        derive.append(("product", True, [foc[0]]))
        derive.append(("spectrum", True, [rng.choice(foc)]))
        derive.append(("shape", True, [foc[0], rng.choice(foc)]))
        if wrong:
            derive.append(("product", False, [rng.choice(foc), rng.choice(wrong)]))
        for h in lonely[:3]:
            t = homonym_of(h, local)
            derive.append((rng.choice(["product", "spectrum", "shape"]), False, [t, h] if rng.random() < 0.5 else [h, t]))
    # dedupe
    seen, d2 = set(), []
    for d in derive:
        k = (d[0], d[1], tuple(d[2]))
        if k not in seen and not (d[0] == "shape" and len(d[2]) < 2):
            seen.add(k)
            d2.append(d)
    return forty, newn, d2


def go_shape_source(rng, spec, props, budget):
    T = spec["id"]
    L = listing(spec)
    local = spec.get("local")
    forty, newn, derive = instantiations(rng, spec, props, budget)
    decl = [go_type_decls(spec), ""]
    decl.append("type W%s struct {\n\tPre [%d]byte\n\tS %s\n\tPost [%d]byte\n}" % (T, 64, T, 512))
    decl.append("var z%s %s" % (T, T))
    o = []
    o.append("\tshapes = append(shapes, &shapeDef{")
    o.append("\t\tID: %s, T: tyOf[%s]()," % (json.dumps(T), T))
    o.append("\t\tNewW: func() (unsafe.Pointer, unsafe.Pointer, uintptr) { w := new(W%s); return unsafe.Pointer(w), unsafe.Pointer(&w.S), unsafe.Sizeof(*w) }," % T)
    o.append("\t\tOffs: []pathOff{")
    for e in value_paths(spec):
        chain = " + ".join("unsafe.Offsetof(z%s.%s)" % (T, ".".join(e["sel"][:k + 1])) for k in range(len(e["sel"])))
        o.append("\t\t\t{Path: []int{%s}, Off: %s, Addr: func(s unsafe.Pointer) unsafe.Pointer { return unsafe.Pointer(&(*%s)(s).%s) }},"
                 % (", ".join(map(str, e["path"])), chain, T, ".".join(e["sel"])))
    o.append("\t\t},")
    o.append("\t\tSeq: seqFn[%s], Maybe: maybeFn[%s], Name: nameFn[%s], FMap: fmapFn[%s]," % (T, T, T, T))
    if "C03" in props:
        o.append("\t\tFMapN: fmapNs[%s]()," % T)
    o.append("\t\tForTy: []forTypeDef{")
    for t in forty:
        o.append("\t\t\t{A: tyOf[%s](), Fn: forTypeFn[%s, %s]}," % (t, t, T))
    o.append("\t\t},")
    o.append("\t\tNewN: []newNDef{")
    for tup in newn:
        o.append("\t\t\t{Tys: %s, Fn: newN%d[%s, %s]}," % (tylist(tup), len(tup), T, ", ".join(tup)))
    o.append("\t\t},")
    o.append("\t\tDerive: []deriver{")
    for via, ptr, tup in derive:
        o.append("\t\t\t{Via: %s, Ptr: %s, Tys: %s, Fn: %s%d[%s%s, %s]}," % (
            json.dumps(via), "true" if ptr else "false", tylist(tup), via, len(tup), "*" if ptr else "", T, ", ".join(tup)))
    o.append("\t\t},")
    if "C04" in props:
        o.append("\t\tCombos: combos%s()," % T)
    o.append("\t})")
    combos = None
    if "C04" in props:
        import props.optics_c04gen as c04gen
        combos = c04gen.go_combos(rng, spec, L)
    if not local:
        return "\n".join(decl + ["func init() {"] + o + ["}"] + ([combos] if combos else [])) + "\n"
    # a homonym shape: everything lives in the function body, behind the shadowing declarations; the canonical
    # names of the local types are fixed (String() + "#" + shape id) before anything asks for them
    body = go_local_decls(spec)
    body += ["declareType(tyOf[%s](), %s)" % (n, json.dumps(T)) for n in local]
    body += decl + ["_ = z%s" % T]
    if combos:
        head = "func combos%s() []combo {" % T
        assert combos.startswith(head)
        body.append("combos%s := func() []combo {" % T + combos[len(head):])
    return "\n".join(["func init() {"] + body + o + ["}"]) + "\n"


def arity_source():
    o = ['// GENERATED by tools/runner/props/optics_common.py: per-arity helpers. Do not edit.', "package main", "",
         'import (', '\t"github.com/fogfish/golem/hseq"', '\t"github.com/fogfish/golem/optics"', ")", ""]
    L = "ABCDEFGHI"
    for n in range(1, 10):
        tp = ", ".join(L[:n])
        vs = ", ".join("v%d" % i for i in range(n))
        o.append("func newN%d[T, %s any]() []entryObs { return obsSeq(hseq.New%d[T, %s]()) }" % (n, tp, n, tp))
        for via, fn in (("product", "ForProduct"), ("spectrum", "ForSpectrum")):
            o.append("func %s%d[T, %s any](attr ...string) []any { %s := optics.%s%d[T, %s](attr...); return []any{%s} }"
                     % (via, n, tp, vs, fn, n, tp, vs))
        if n >= 2:
            o.append("func shape%d[T, %s any](attr ...string) []any { return []any{optics.ForShape%d[T, %s](attr...)} }" % (n, tp, n, tp))
    o.append("func fmapNs[T any]() []func(names ...string) [][2]int {")
    o.append("\treturn []func(names ...string) [][2]int{")
    for n in range(1, 10):
        vs = ", ".join("v%d" % i for i in range(n))
        tags = ", ".join("tag[T](%d)" % (i + 1) for i in range(n))
        o.append("\t\tfunc(ns ...string) [][2]int { %s := hseq.FMap%d(hseq.New[T](ns...), %s); return [][2]int{%s} }," % (vs, n, tags, vs))
    o.append("\t}")
    o.append("}")
    return "\n".join(o) + "\n"


def shapes_source(specs, seed, props, tier):
    rng = random.Random("%s/%s/%s" % (seed, "inst", ",".join(sorted(props))))
    budget = {"newn": 5, "unary": 10, "nary": 4, "wrong": 6}
    o = ["// GENERATED by tools/runner/props/optics_common.py from VERIF_SEED=%s. Do not edit." % seed, "package main", "",
         "import (", '\t"reflect"', '\t"unsafe"'] + (['\t"github.com/fogfish/golem/optics"'] if "C04" in props else []) + [
         ")", "", "var _ = reflect.TypeOf", "var _ unsafe.Pointer", ""] + (["var _ optics.Lens[int, int]", ""] if "C04" in props else [])
    for n, u in NAMED.items():
        o.append("type %s %s" % (n, u))
    # homonym shapes shadow these names with function-local types and reach the package-level ones through the aliases;
    # the package-level types get their canonical names (plain String()) first, whatever shapes follow
    for n in NAMED:
        o.append("type %s%s = %s" % (PKG, n, n))
    o.append("func init() {")
    for n in NAMED:
        o.append("\tdeclareType(tyOf[%s](), \"\")" % n)
    o.append("}")
    o.append("")
    for spec in specs:
        o.append(go_shape_source(rng, spec, props, budget))
    return "\n".join(o)


# ------------------------------------------------------------------------------------------------
# staging, building, running
# ------------------------------------------------------------------------------------------------
def run_driver(ctx, props, specs, tier=None, tag="optics"):
    tier = tier or ctx.tier
    d = vlib.scratch_dir(tag)
    try:
        src = os.path.join(vlib.ROOT, "harness", "optics")
        for n in os.listdir(src):
            if n.endswith(".go"):
                shutil.copy(os.path.join(src, n), os.path.join(d, n))
        with open(os.path.join(d, "shapes_gen.go"), "w") as f:
            f.write(shapes_source(specs, ctx.seed, props, tier))
        with open(os.path.join(d, "arity_gen.go"), "w") as f:
            f.write(arity_source())
        vlib.write_gomod(d, "harness", requires=["optics", "hseq"])
        exe = os.path.join(d, "optics.bin")
        rc, out = vlib.go_build(d, ".", exe)
        if rc != 0:
            keep = os.path.join(vlib.WORK, "failed-harness-" + tag)
            shutil.rmtree(keep, ignore_errors=True)
            shutil.copytree(d, keep)
            raise vlib.HarnessError("harness does not build against /repo (sources kept in %s):\n%s" % (keep, out[-2500:]))
        env = dict(ctx.env)
        env["VERIF_TIER"] = tier
        env["VERIF_PROPS"] = ",".join(sorted(props))
        rc, so, se = vlib.sh2(["bash", "-c", "ulimit -v 16000000; exec " + exe], env=env, timeout=1200)
        if rc != 0:
            raise vlib.HarnessError("harness failed (rc %d): %s" % (rc, se[-2500:]))
        shapes = {}
        spec_by_id = {s["id"]: s for s in specs}
        cases = []
        for l in so.split("\n"):
            if not l.strip():
                continue
            o = json.loads(l)
            if o["kind"] == "shape":
                o["spec"] = spec_by_id[o["id"]]
                shapes[o["id"]] = o
            else:
                o["shape"] = shapes[o["shape"]]
                cases.append(o)
        return cases
    finally:
        shutil.rmtree(d, ignore_errors=True)


def run_cases(ctx, prop, tier=None, count=None):
    """the cases of one property; a replayed case re-runs its own shape only"""
    if ctx.replay_cases:
        specs = [c["shape"]["spec"] for c in ctx.replay_cases]
        cases = [c for c in run_driver(ctx, {prop}, specs, tier, tag=prop.lower()) if c["prop"] == prop]
        want = {json.dumps(c["req"], sort_keys=True) for c in ctx.replay_cases}
        return [c for c in cases if json.dumps(c["req"], sort_keys=True) in want] or cases
    specs = shapes_for(ctx.seed, tier or ctx.tier, prop, count)
    return [c for c in run_driver(ctx, {prop}, specs, tier, tag=prop.lower()) if c["prop"] == prop]


# ------------------------------------------------------------------------------------------------
# Coq terms
# ------------------------------------------------------------------------------------------------
def hexs(l):
    return '(hx "%s")' % "".join("%02x" % x for x in l)


def hexdiff(d):
    return '(hxd "%s")' % "".join("%04x%02x" % (a, b) for a, b in d)


def cstr(s):
    """a Coq string literal (bytes of the UTF-8 encoding)"""
    b = s.encode("utf-8")
    if all(32 <= x < 127 for x in b):
        return '"%s"' % s.replace('"', '""')
    return "(bytes_string [%s]%%Z)" % "; ".join(str(x) for x in b)


def cty(t):
    """descriptor JSON -> term of type ty (numbers in nat_scope)"""
    k = t["k"]
    if k == "prim":
        return "(TPrim %s %d %d)" % (cstr(t["n"]), t["s"], t["a"])
    if k == "opaque":
        return "(TOpaque %s %d %d)" % (cstr(t["n"]), t["s"], t["a"])
    if k == "ptr":
        return "(TPtr %s)" % cty(t["e"])
    fs = "; ".join("(mkF %s %s %s %d, %s)" % (cstr(f["n"]), cstr(f["t"]), vlib.blit(f["a"]), f["o"], cty(f["ty"])) for f in t.get("f", []))
    return "(TStruct %s %d [%s])" % (cstr(t["n"]), t["s"], fs)


def centry(e):
    return "(mkO %s %s %s %d %d %d %s %s)" % (cstr(e["name"]), cstr(e["key"]), cstr(e["type"]), e["off"], e["root"], e["id"],
                                              vlib.blit(e["anon"]), cstr(e["pure"]))


def centries(l):
    return "[%s]" % "; ".join(centry(e) for e in l)


def cstrs(l):
    return "[%s]" % "; ".join(cstr(s) for s in l)


def ctys(l):
    return "[%s]%%nat" % "; ".join(cty(t) for t in l)


def shape_name(sh):
    h = hashlib.sha1(json.dumps([sh["ty"], sh["offs"], sh["base"], sh["before"], sh["listing"]], sort_keys=True).encode()).hexdigest()[:12]
    return "sh_" + h


def shape_def(sh, with_arena=True):
    offs = "; ".join("([%s]%%nat, %d, %d)" % ("; ".join(str(i) for i in o["path"]), o["off"], o["addr"]) for o in sh["offs"])
    listing_ = "None" if sh["listing_panic"] else "(Some %s)" % centries(sh["listing"])
    return "Definition %s : shape := mkShape %s%%nat [%s] %s %d%%nat %s.\n" % (
        shape_name(sh), cty(sh["ty"]), offs, listing_, sh["base"], hexs(sh["before"]) if with_arena else "[]")


class Prelude:
    """Collects the shapes the emitted cases refer to.  check.py computes every to_coq(case) before it
    reads mod.PRELUDE, so to_coq registers the shape and the module attribute is refreshed."""
    def __init__(self, mod_globals, with_arena=True):
        self.g = mod_globals
        self.with_arena = with_arena
        self.defs = {}

    def use(self, sh):
        n = shape_name(sh)
        if n not in self.defs:
            self.defs[n] = shape_def(sh, self.with_arena)
            self.g["PRELUDE"] = "Open Scope string_scope.\n" + "".join(self.defs.values())
        return n

    def reset(self):
        self.defs = {}
        self.g["PRELUDE"] = "Open Scope string_scope.\n"


def shape_summary(sh):
    return {"id": sh["id"], "go": go_type_decls(sh["spec"], summary=True)}


def tname(t):
    if t["k"] == "ptr":
        return "*" + tname(t["e"])
    return t["n"]
