"""C07 - Fail-fast and try-and-continue error modes behave as documented for every fault."""
import pool_common as pc

pc.install(globals(), "C07", "C07", "error modes",
    rule=("Map and FMap x {Lift, Try} x EVERY subset of failing positions of inputs of length 0..4 (quick) / 0..5 (thorough), distinct elements, "
          "plus random longer inputs with modular failure predicates; Emit x {Lift, Try} and Unfold (fail-fast) with failing indices/seeds on "
          "virtual time; pipe.StdErr fed with nil / non-nil errors (log records observed through slog), with and without cancel; capacities 0..2; random interleavings of receives on the value and the error channel from VERIF_SEED, drained to "
          "completion. Distinct by full observed trace; non-trivial when a value or an error was delivered"),
    claim={
        "text": "Theorems proved by the Coq kernel for EVERY failure pattern (the user function is an arbitrary function into Ok|Err), input, capacity and schedule: under Lift exactly the results before the first failure, that error once, nothing processed further; under Try one error per failing element and no output for it, the normal output for all others; both streams keep input order (prefix in every reachable state, equality and closure on completion); the fail-fast hand-off `exx <- err` never blocks; Unfold/Emit likewise (exact seeds / indices); pipe.StdErr is a reader that never leaves a sender blocked, reads in order, ignores cancel and returns exactly at close. Tied to the code by trace acceptance with exhaustive failing subsets.",
        "design_ref": "DESIGN.md 3/C07",
        "note": "Trusted: Coq kernel; Pool machine; harness. Assumed: the error channel is read (the property's own proviso) and scheduler fairness for 'does not block forever'.",
        "technique": "Coq proof (invariants over executions, list reasoning) + trace-acceptance correspondence",
    },
    assumptions=["the error channel is read (e.g. via StdErr), as the property states", "failing coded functions return the zero value with their error"])
