"""C11 - Unfold and Emit produce the exact successive sequence, paced, until cancelled."""
import pool_common as pc

pc.install(globals(), "C11", "C11", "generators",
    rule=("Emit (frequency 1, 3, 10 ticks; affine functions; optionally failing indices under Try) and Unfold (affine step functions) x "
          "capacities 0..3 x consumer schedules of (sleep d, receive attempt) on testing/synctest's virtual clock incl. the consumer that "
          "keeps up (sleep one period, receive twice) x cancel at a random point or never, from VERIF_SEED. Distinct by full observed trace; "
          "non-trivial when a value was delivered"),
    claim={
        "text": "Theorems proved by the Coq kernel for every capacity, step function, frequency, consumer schedule and cancel point: what is delivered is a prefix of the exact successive sequence (seed, f seed, ... / f(0), f(1), ... with failing indices skipped under Try); pacing lower bound for ANY clock advance policy: k results available => k*frequency elapsed; after cancel the only state without an enabled step (and pending sleep) has the goroutine returned and both channels closed. PARTIAL: the upper bound 'a consumer that keeps up receives one value per tick' is not a theorem; it is checked by the oracle on every explored virtual-time schedule.",
        "design_ref": "DESIGN.md 3/C11",
        "note": "Trusted: Coq kernel; Pool machine with a virtual clock; testing/synctest's fake clock in the harness. Real wall-clock behaviour of time.Sleep (only >= is promised by Go) is outside the model.",
        "technique": "Coq proof (stream invariant + timing invariant by induction over executions) + trace-acceptance correspondence on virtual time",
    },
    assumptions=["virtual clock of testing/synctest", "step functions are total; failing coded functions return the zero value"])
