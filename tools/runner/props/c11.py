"""C11 - Unfold and Emit produce the exact successive sequence, paced, until cancelled."""
import pool_common as pc

pc.install(globals(), "C11", "C11", "generators",
    rule=("Emit (frequency 1, 3, 10 ticks; affine functions; optionally failing indices under Try) and Unfold (affine step functions) x "
          "capacities 0..3 x consumer schedules of (sleep d, receive attempt) on testing/synctest's virtual clock incl. the consumer that "
          "keeps up (sleep one period, receive twice) x cancel at a random point or never, from VERIF_SEED. fail-fast step functions failing while nobody reads the error channel, Unfold under Try with failing seeds, a consumer that parks in a blocking receive after the cancel, and free-running rounds (real goroutines: consumer parked in a blocking receive, step function taking 0/20/200 microseconds, cancel mid-stream, judged in Go). Distinct by full observed trace; "
          "non-trivial when a value was delivered"),
    claim={
        "text": "Theorems proved by the Coq kernel for every capacity, step function, frequency, consumer schedule and cancel point: what is delivered is a prefix of the exact successive sequence (seed, f seed, ... / f(0), f(1), ... with failing indices skipped under Try); pacing lower bound for ANY clock advance policy: k results available => k*frequency elapsed (C11_emit_not_early); pacing upper bound under maximal progress with a consumer that keeps up (the clock moves only when no step of the goroutine is enabled and nothing is receivable on the value/error channel, never past a pending timer, no cancel): whenever the clock may move Emit has made n calls with n*freq <= now < (n+1)*freq and every result of these calls has been received (C11_emit_keeps_up, C11_emit_pace_invariant), so at time k*freq exactly k calls were made and value f(i) arrived at tick i+1 (C11_emit_one_per_tick), results received = now/freq (C11_emit_rate), with concrete maximal-progress runs as non-vacuity witnesses; after cancel the only state without an enabled step (and pending sleep) has the goroutine returned and both channels closed.",
        "design_ref": "DESIGN.md 3/C11",
        "note": "Trusted: Coq kernel; Pool machine with a virtual clock; testing/synctest's fake clock in the harness. The upper bound is a theorem about maximal-progress executions only (the clock policy of the trace checker: C11_checker_clock_policy); the model evaluates f when an iteration starts while Go applies it after the sleep - emit_calls counts the Go applications. Real wall-clock behaviour of time.Sleep (only >= is promised by Go) is outside the model.",
        "technique": "Coq proof (stream invariant + timing invariants by induction over executions; exact-time invariant over maximal-progress executions) + trace-acceptance correspondence on virtual time",
    },
    assumptions=["virtual clock of testing/synctest", "step functions are total; failing coded functions return the zero value"])
