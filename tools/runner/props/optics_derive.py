"""Derivation cases shared by C01 and C02: ForProductN / ForSpectrumN / ForShapeN requests with what the
derived optics did to the arena (Coq terms of Check/DeriveObs.v, descriptions for replays)."""
import json

import vlib
from props import optics_common as oc

VIA = {"product": "VProduct", "spectrum": "VSpectrum", "shape": "VShape"}
DYNARG = {"val": 0, "other": 1, "nil": 2, "typednil": 3, "slice": 4, "ptrptr": 5}


def copt(l, panicked):
    return "None" if panicked or l is None else "(Some %s)" % oc.hexs(l)


def clobs(o):
    dyn = "; ".join("(mkD %d%%N %s %s %s)" % (DYNARG[d["arg"]], vlib.blit(d["put"]), vlib.blit(d["panic"]), vlib.blit(d["changed"]))
                    for d in (o.get("dyn") or []))
    return "(mkL %s %s %s %s %s %s [%s])" % (copt(o.get("get0"), o["p0"]), oc.hexs(o["v"]), vlib.blit(o["pput"]),
                                            vlib.blit(o["same"]), oc.hexdiff(o["diff"]), copt(o.get("get1"), o["p1"]), dyn)


def to_coq(prelude, c):
    r, o = c["req"], c["obs"]
    obs = "DPanic" if o["panic"] else "(DLenses [%s])" % "; ".join(clobs(x) for x in o["lenses"])
    return "mk %s %s %s %s %s %s %s" % (prelude.use(c["shape"]), VIA[r["via"]], vlib.blit(r["ptr"]), oc.ctys(r["tys"]),
                                       oc.cstrs(r["attr"]), oc.cstrs(r.get("spare") or []), obs)


def call_text(c):
    r = c["req"]
    return "optics.For%s%d[%s%s, %s](%s)" % ({"product": "Product", "spectrum": "Spectrum", "shape": "Shape"}[r["via"]], len(r["tys"]),
                                           "*" if r["ptr"] else "", c["shape"]["id"], ", ".join(oc.tname(t) for t in r["tys"]),
                                           ", ".join(json.dumps(a) for a in r["attr"]) +
                                           ((" ... /* spare capacity of the variadic slice holds: %s */" % ", ".join(json.dumps(a) for a in r["spare"]))
                                            if r.get("spare") else ""))


def describe(c):
    return {"shape": oc.shape_summary(c["shape"]), "request": call_text(c), "observed": c["obs"],
            "arena": {"struct_at": c["shape"]["base"], "struct_size": c["shape"]["ty"]["s"], "bytes_before": c["shape"]["before"]},
            "observed_listing": c["shape"]["listing"], "compiler_offsets": c["shape"]["offs"]}


def sample(c):
    o = c["obs"]
    return {"shape": c["shape"]["id"], "request": call_text(c),
            "observed": "panic" if o["panic"] else [{"changed_bytes": [x[0] for x in l["diff"]], "put_panicked": l["pput"]}
                                                     for l in o["lenses"]]}


def histogram(cases):
    h = {}
    for c in cases:
        r = c["req"]
        k = "%s%d%s%s/%s" % (r["via"], len(r["tys"]), "/ptr-container" if r["ptr"] else "", "/by-name" if r["attr"] else "/by-type",
                            "panic" if c["obs"]["panic"] else "accepted")
        h[k] = h.get(k, 0) + 1
    h["shapes"] = len({c["shape"]["id"] for c in cases})
    return h


def nontrivial_key(c):
    """a derivation that was accepted and whose Put visibly changed memory"""
    o = c["obs"]
    if o["panic"] or not any(l["diff"] for l in o["lenses"]):
        return None
    return (oc.shape_name(c["shape"]), json.dumps(c["req"], sort_keys=True))
