"""C19 - list and slice sequence traits implement the same persistent sequence ADT."""
import json
import os
import shutil

import vlib

ID = "C19"
CHECK_MODULE = "Check.C19"
ORACLE_MODULE = "Check.C19o"
TARGETS_CHECK = ["theories/Check/C19o.vo", "theories/Check/C19.vo"]
TARGETS_PROP = ["theories/Properties/C19.vo"]
GEN = [("GenFold.v", "fold", ["internal/seq/foldable.go"])]
GEN_DEPS = ["GenFold.v"]
SHARD = 700
RULE = ("scripts over a store of at most 3 sequences, run on the staged copy of /repo/internal/seq with both list.Trait and "
        "slice.Trait: ALL scripts of 1..4 operations (quick; 5 in thorough) built from New (5 shapes of argument slice incl. spare "
        "capacity), Cons, Tail, Head on every live slot with every destination slot, including Head/Tail of the empty sequence; "
        "plus random scripts of 20..60 operations from VERIF_SEED that also name Length/IsEmpty/Fold. After EVERY operation every "
        "live sequence is re-read on both implementations element by element (Head/Tail/IsEmpty walk) together with Length, "
        "IsEmpty and Fold under two non-commutative monoids (a*31+b; decimal concatenation), so Length/IsEmpty/Fold are observed "
        "at every position of every script. Plus volume cases: New of 200..4200 elements (thorough: up to 20000; around 256, 1024, "
        "2048, 4096), Fold under a third non-commutative monoid closed on int64 (affine maps over Z_65521 under composition; "
        "the operation pauses on the first element) and Length, on both traits. "
        "A case is distinct by its script; non-trivial when it builds a sequence from another one")
TRUSTED = [
    "tools/go2coq mode fold (go/parser AST of internal/seq/foldable.go -> the loop of Foldable.Fold as a fuelled Gallina recursion over the "
    "trait's IsEmpty/Head/Tail and the monoid's Empty/Combine; the signatures and the partiality (Head/Tail of the empty sequence panic) of "
    "those methods are a table of the translator); C19_generated_fold_is_model_fold ties it to the model's fold",
    "modelled, not verified: Go's append/slicing semantics as Seq/Model.go_append / s_tail (in place iff capacity allows), "
    "nil-pointer and index panics as None; pointers to list cells as allocation indexes",
    "harness/c19 (script interpreter over seq.Seq[F,int64], recover() -> panic observation) and the JSON -> Coq case writer",
]
CLAIM = {
    "text": "Coq theorems over heap models of list.go (cell heap + cached length) and slice.go (array heap, views, Go append): for BOTH "
            "implementations New(xs) has length len(xs) and represents xs, Head(Cons(x,s)) = x, Tail(Cons(x,s)) represents s, "
            "Length(Cons(x,s)) = Length(s)+1, IsEmpty iff length 0, every operation leaves every previously built sequence "
            "representing the same list (persistence; the slice model can express in-place appends), Fold = fold_left Combine s Empty "
            "for every Combine/Empty (no monoid law needed), and every script of New/Cons/Tail/Head/Length/IsEmpty/Fold - Head/Tail of "
            "the empty sequence panic on both - yields identical observations on the two implementations and on plain lists. "
            "The models are run against the real traits on exhaustive short and random long scripts, re-reading all live sequences after every step.",
    "design_ref": "DESIGN.md 3/C19",
    "note": "Trusted: Coq kernel + vm_compute, the hand-written heap models (Go append/slice semantics, nil dereference = panic), the Go harness. "
            "Element type is int64 in the harness and Z in the model (the code never inspects elements).",
    "technique": "Coq proof (representation relation + heap extension, simulation of the list ADT) + differential run of models and ADT oracle vs code",
}
ASSUMPTIONS = [
    "the caller of slice.New(xs...) does not write to xs afterwards (New returns the argument slice itself; aliasing with the caller is outside the script language)",
    "element values 1..9 and sequences of at most 12 elements in the scripts, so that the two int64 folds cannot overflow (asserted by the harness and re-checked in Coq); longer sequences only in the volume cases, under the modular monoid",
    "panics are compared as a single observation 'panic' (list: nil dereference, slice: index/slice bounds out of range)",
]

EXE = "c19.bin"


def build(ctx):
    d = vlib.stage_internal("c19", [("internal/seq", "seq")], [(os.path.join(vlib.ROOT, "harness/c19/main.go"), "cmd/main.go")])
    try:
        exe = os.path.join(ctx.workdir, EXE)
        rc, out = vlib.go_build(d, "./cmd", exe)
        if rc != 0:
            raise vlib.HarnessError("harness does not build against /repo/internal/seq:\n" + out[-1500:])
        return exe
    finally:
        shutil.rmtree(d, ignore_errors=True)


def run_scripts(ctx, exe, scripts):
    env = dict(ctx.env)
    env["VERIF_REPLAY"] = "1"
    rc, so, se = vlib.sh2([exe], env=env, timeout=300, stdin="".join(json.dumps(s) + "\n" for s in scripts))
    if rc != 0:
        raise vlib.HarnessError("harness failed (rc %d): %s" % (rc, se[-1500:]))
    return [json.loads(l) for l in so.split("\n") if l.strip()]


def run_impl(ctx, tier=None):
    exe = build(ctx)
    ctx.exe = exe
    if ctx.replay_cases:
        return run_scripts(ctx, exe, [{"vol": c["vol"][:2]} if c.get("kind") == "volume" else c["script"] for c in ctx.replay_cases])
    env = dict(ctx.env)
    if tier:
        env["VERIF_TIER"] = tier
    rc, so, se = vlib.sh2([exe], env=env, timeout=1200)
    if rc != 0:
        raise vlib.HarnessError("harness failed (rc %d): %s" % (rc, se[-1500:]))
    cases = [json.loads(l) for l in so.split("\n") if l.strip()]
    # spread the long random scripts evenly over the shards (balanced coqc runs)
    small = [c for c in cases if c["kind"] != "random"]
    big = [c for c in cases if c["kind"] == "random"]
    if big and small:
        every = max(1, len(small) // len(big))
        out = []
        for k, c in enumerate(small):
            out.append(c)
            if k % every == every - 1 and big:
                out.append(big.pop(0))
        return out + big
    return cases


# ---- Coq terms ----
def nat(n):
    return "%d%%nat" % int(n)


def op_coq(o):
    k = o["op"]
    if k == "new":
        return "ONew %s %s %s" % (nat(o["d"]), vlib.zlist(o.get("xs") or []), nat(o["spare"]))
    if k == "cons":
        return "OCons %s %s %s" % (nat(o["d"]), vlib.zlit(o["x"]), nat(o["i"]))
    if k == "tail":
        return "OTail %s %s" % (nat(o["d"]), nat(o["i"]))
    if k == "head":
        return "OHead %s" % nat(o["i"])
    if k == "length":
        return "OLength %s" % nat(o["i"])
    if k == "isempty":
        return "OIsEmpty %s" % nat(o["i"])
    if k == "fold":
        return "OFold %s %s" % (nat(o["m"]), nat(o["i"]))
    raise ValueError(k)


def res_coq(r):
    k = r["k"]
    if k == "done":
        return "RDone"
    if k == "val":
        return "RVal %s" % vlib.zlit(r["v"])
    if k == "bool":
        return "RBool %s" % vlib.blit(r["b"])
    return "RPanic"


def snap_coq(s):
    f = "[" + "; ".join("None" if x is None else "Some %s" % vlib.zlit(x) for x in s["f"]) + "]"
    return "mkSnap %s %s %s %s %s" % (vlib.zlist(s["e"] or []), vlib.blit(s["ok"]), vlib.zlit(s["len"]), vlib.blit(s["empty"]), f)


def obs_coq(steps):
    return "[" + "; ".join("(%s, [%s])" % (res_coq(st["r"]), "; ".join(snap_coq(s) for s in st["s"])) for st in steps) + "]"


def to_coq(c):
    if c.get("kind") == "volume":
        return "mkv %s" % vlib.zlist(c["vol"])
    ops = "; ".join(op_coq(o) for o in c["script"])
    a, b = obs_coq(c["list"]), obs_coq(c["slice"])
    if a == b:
        # identical observations are written once (shorter file, same term)
        return "(let o := %s in\n    mk [%s] o o)" % (a, ops)
    return "mk [%s]\n    %s\n    %s" % (ops, a, b)


# ---- plain-list reading of a script (diagnosis, shrinking and replay texts only; the verdict is Coq's) ----
def m31(a, b):
    return a * 31 + b


def cat10(a, b):
    p = 1
    while b >= p:
        p *= 10
    return a * p + b


MONOIDS = [m31, cat10]


def fold(m, l):
    x = 0
    for a in l:
        x = MONOIDS[m](x, a)
    return x


def want_snap(l):
    return {"e": list(l), "ok": True, "len": len(l), "empty": len(l) == 0, "f": [fold(0, l), fold(1, l)]}


def adt_run(script):
    """(required steps, script is well formed)"""
    st = []
    out = []
    ok = True
    for o in script:
        k = o["op"]
        r = {"k": "done"}
        new = None
        if k != "new" and not (0 <= o["i"] < len(st)):
            return out, False
        if k == "new":
            new = list(o.get("xs") or [])
        elif k == "cons":
            new = [o["x"]] + st[o["i"]]
        elif k == "tail":
            if st[o["i"]]:
                new = st[o["i"]][1:]
            else:
                r = {"k": "panic"}
        elif k == "head":
            r = {"k": "val", "v": st[o["i"]][0]} if st[o["i"]] else {"k": "panic"}
        elif k == "length":
            r = {"k": "val", "v": len(st[o["i"]])}
        elif k == "isempty":
            r = {"k": "bool", "b": len(st[o["i"]]) == 0}
        elif k == "fold":
            r = {"k": "val", "v": fold(o["m"], st[o["i"]])}
        if new is not None:
            if o["d"] == len(st):
                st.append(new)
            elif 0 <= o["d"] < len(st):
                st[o["d"]] = new
            else:
                return out, False
        out.append({"r": r, "s": [want_snap(l) for l in st]})
    return out, ok


def norm_res(r):
    k = r["k"]
    return (k, r.get("v", 0) if k == "val" else 0, bool(r.get("b", False)) if k == "bool" else False)


def norm_snap(s):
    return (tuple(s["e"] or []), bool(s["ok"]), s["len"], bool(s["empty"]), tuple(s["f"]))


VP = 65521


def vol_required(n, a0):
    xs = [3 * VP] + [(2 + (a0 + i) % 5) * VP + (1 + (a0 + i) % 7) for i in range(n)]
    x = VP
    for v in xs:
        x = ((x // VP) * (v // VP) % VP) * VP + ((x % VP) * (v // VP) + v % VP) % VP
    return x, len(xs)


def first_diff(c):
    """(step, implementation, what) of the first observation that departs from the ADT, or None"""
    if c.get("kind") == "volume":
        n, a0, fl, fs, ll, ls = c["vol"]
        f, ln = vol_required(n, a0)
        if (fl, ll) != (f, ln):
            return 0, "list", "fold" if fl != f else "length"
        if (fs, ls) != (f, ln):
            return 0, "slice", "fold" if fs != f else "length"
        return None
    req, _ = adt_run(c["script"])
    for k in range(len(c["script"])):
        for impl in ("list", "slice"):
            obs = c[impl]
            if k >= len(obs) or k >= len(req):
                return k, impl, "missing"
            if norm_res(obs[k]["r"]) != norm_res(req[k]["r"]):
                return k, impl, "result"
            a = [norm_snap(s) for s in obs[k]["s"]]
            b = [norm_snap(s) for s in req[k]["s"]]
            if a != b:
                slot = next((j for j in range(max(len(a), len(b))) if j >= len(a) or j >= len(b) or a[j] != b[j]), 0)
                return k, impl, "slot %d re-read" % slot
    return None


def nontrivial_key(c):
    if c.get("kind") == "volume":
        return json.dumps(c["vol"][:2])
    if any(o["op"] in ("cons", "tail") for o in c["script"]):
        return json.dumps(c["script"], sort_keys=True)
    return None


def signature(c):
    d = first_diff(c)
    if d is None:
        return {"kind": "seq-adt", "impl": "?", "op": "?"}
    k, impl, what = d
    if c.get("kind") == "volume":
        return {"kind": "seq-adt", "impl": impl, "op": "volume-fold", "what": what}
    return {"kind": "seq-adt", "impl": impl, "op": c["script"][k]["op"], "what": what.split(" ")[0]}


def fmt_op(o):
    k = o["op"]
    if k == "new":
        return "s%d = New(%s) [cap +%d]" % (o["d"], ",".join(str(x) for x in o.get("xs") or []), o["spare"])
    if k == "cons":
        return "s%d = Cons(%d, s%d)" % (o["d"], o["x"], o["i"])
    if k == "tail":
        return "s%d = Tail(s%d)" % (o["d"], o["i"])
    if k == "fold":
        return "Fold(%s, s%d)" % (["a*31+b", "concat"][o["m"]], o["i"])
    return "%s(s%d)" % ({"head": "Head", "length": "Length", "isempty": "IsEmpty"}[k], o["i"])


def describe_volume(c):
    n, a0, fl, fs, ll, ls = c["vol"]
    f, ln = vol_required(n, a0)
    return {"what": "s = New(x0, x1, .., x%d) on list.Trait and slice.Trait, x0 = 3*65521, xi = (2+(a0+i-1) mod 5)*65521 + 1+(a0+i-1) mod 7, a0 = %d; "
                    "Fold(s) under the monoid of affine maps a*65521+b over Z_65521 (composition; empty element 65521); Length(s)" % (n, a0),
            "observed": {"list.Fold": fl, "slice.Fold": fs, "list.Length": ll, "slice.Length": ls, "note": "-1 = panic"},
            "required": {"Fold": f, "Length": ln}}


def describe(c):
    if c.get("kind") == "volume":
        return describe_volume(c)
    d = first_diff(c)
    out = {"script": [fmt_op(o) for o in c["script"]]}
    if d:
        k, impl, what = d
        req, _ = adt_run(c["script"])
        out.update({"implementation": impl + ".Trait", "failing_step": k, "failing_op": fmt_op(c["script"][k]), "differs_in": what,
                    "observed": c[impl][k] if k < len(c[impl]) else None, "required": req[k] if k < len(req) else None})
    return out


def sample(c):
    if c.get("kind") == "volume":
        return describe_volume(c)
    return {"script": [fmt_op(o) for o in c["script"][:8]], "operations": len(c["script"]),
            "last_step_list": c["list"][-1] if c["list"] else None}


def histogram(cases):
    h = {}
    for c in cases:
        h["cases:" + c.get("kind", "?")] = h.get("cases:" + c.get("kind", "?"), 0) + 1
        for k, o in enumerate(c["script"]):
            h[o["op"]] = h.get(o["op"], 0) + 1
            if k < len(c["list"]) and c["list"][k]["r"]["k"] == "panic":
                h["panic:" + o["op"]] = h.get("panic:" + o["op"], 0) + 1
    return h


def cut(c, n):
    return {"kind": c.get("kind", "?"), "script": c["script"][:n], "list": c["list"][:n], "slice": c["slice"][:n]}


def shrink(ctx, c):
    """shortest failing prefix, then drop operations while the real code still departs from the ADT"""
    if c.get("kind") == "volume":
        return c
    d = first_diff(c)
    if d is None:
        return c
    c = cut(c, d[0] + 1)
    exe = getattr(ctx, "exe", None)
    if not exe or not os.path.exists(exe):
        return c
    budget = 60
    j = len(c["script"]) - 2
    while j >= 0 and budget > 0:
        s = c["script"][:j] + c["script"][j + 1:]
        # removing an appending constructor shifts nothing else only if the slots stay defined
        _, ok = adt_run(s)
        if ok:
            budget -= 1
            try:
                r = run_scripts(ctx, exe, [s])[0]
            except Exception:
                break
            d2 = first_diff(r)
            if d2 is not None:
                c = cut(r, d2[0] + 1)
                j = min(j, len(c["script"]) - 1)
        j -= 1
    return c


def search(ctx, evaluate):
    cases = run_impl(ctx, tier="thorough")
    ev = evaluate(cases)
    found = [cases[i] for i in sorted(set(ev["violations"]))]
    return found, {"explored": len(cases), "found": len(found)}
