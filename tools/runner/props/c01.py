"""C01 - a field lens reads and writes exactly its field and nothing else."""
import json

import vlib
from props import optics_common as oc
from props import optics_derive as od

ID = "C01"
CHECK_MODULE = "Check.C01"
ORACLE_MODULE = "Check.C01o"
GEN = oc.GEN
GEN_DEPS = ["GenHseq.v", "GenOptics.v"]
TARGETS_CHECK = ["theories/Check/C01o.vo", "theories/Check/C01.vo"]
TARGETS_PROP = ["theories/Properties/C01.vo"]
SHARD = 400
PRELUDE = "Open Scope string_scope.\n"
RULE = ("8 fixed corner shapes + 44 (quick) / 600 (thorough) random struct shapes + 4 fixed and 4 / 54 random homonym shapes generated as Go source from VERIF_SEED (as C03); per "
        "shape every type of a field stored inside the struct is focused through ForProduct1 and ForSpectrum1, by type and by a name "
        "of a field of that type, plus random N-tuples (N=2..9, incl. equal types in adjacent positions) through ForProductN / "
        "ForSpectrumN; each derived optic is exercised on a copy of the shape's arena (64-byte guard, struct filled with typed random "
        "values over a byte pattern in the padding, 512-byte guard): Get, Put of a fresh typed random value, Get; recorded: returned "
        "pointer, every changed byte, the values. A case is distinct by (shape layout, request) and non-trivial when the derivation "
        "was accepted and the Put changed at least one byte")
TRUSTED = [
    "tools/go2coq modes hseq and optics (go/parser AST of NewN/FMapN/ForProductN/ForSpectrumN -> shallow Gallina in the poison monad)",
    "the shape generator and Go driver (tools/runner/props/optics_common.py, harness/optics): arena snapshots through unsafe, "
    "byte diffs, reflected descriptors, unsafe.Offsetof chains and &selector addresses written in generated source",
    "modelled, not verified: a typed store *(*A)(p) = a is a store of sizeof(A) bytes at p that may leave A's own padding bytes "
    "untouched (GC write barriers, escape analysis are outside the model); struct layout as reported by reflect",
]
CLAIM = {
    "text": "Coq theorems for every well-formed struct layout, every entry of the unfolding reached without crossing a pointer, every "
            "arena and every value of the focus size: root+offset is the compiler's selector offset; Get returns exactly the field's "
            "bytes; Put returns the pointer it was given, makes the field's bytes equal the value and leaves EVERY other byte of the "
            "arena (other fields, padding, guard zones) and its length unchanged; GetPut, PutGet, PutPut; the same through Gett/Putt "
            "with a *S argument; per-arity theorems (N=1..9) that the regenerated ForProductN/ForSpectrumN build the i-th optic from "
            "the i-th selected entry with the i-th focus type. Model and oracle are run against the real code on generated shapes.",
    "design_ref": "DESIGN.md 3/C01, 2.2",
    "note": "Trusted: Coq kernel + vm_compute, tools/go2coq, the byte-store reading of typed unsafe stores, reflect's layout "
            "(cross-checked against unsafe.Offsetof and golayout on every shape). Padding bytes inside a struct-typed focus are "
            "compared neither way (a typed copy may or may not carry them).",
    "technique": "Coq proof (structural induction on type trees, list-segment reasoning on the arena) + translator-regenerated "
                 "per-arity definitions + differential run of model and oracle on generated Go struct shapes",
}
ASSUMPTIONS = [
    "a typed store through unsafe.Pointer writes exactly the bytes of the value at that address (no GC/write-barrier effects)",
    "reflect reports the compiler's layout (checked against unsafe.Offsetof chains and &selector on every shape of the run)",
]

_prelude = oc.Prelude(globals())


def run_impl(ctx, tier=None, count=None):
    return oc.run_cases(ctx, ID, tier, count)


def to_coq(c):
    return od.to_coq(_prelude, c)


nontrivial_key = od.nontrivial_key
describe = od.describe
sample = od.sample
histogram = od.histogram


def signature(c):
    r = c["req"]
    return {"kind": "lens-footprint", "via": r["via"]}


def search(ctx, evaluate):
    cases = run_impl(ctx, count=90)
    ev = evaluate(cases)
    found = [cases[i] for i in sorted(set(ev["violations"]))]
    return found, {"explored": len(cases), "found": len(found)}
