#!/usr/bin/env python3
"""./check <Cxx> [--tier quick|thorough] [--replay file] | --setup | --all

Decides one property: regenerates the translated part of the model from /repo,
rebuilds the Coq development (full .vo), runs the correspondence harness on the
working tree, evaluates the cases inside Coq, writes evidence/<id>.json and
prints KNOWN-FINDING / VIOLATION lines.  Exit 0 = held on everything explored."""
import argparse
import importlib
import json
import os
import sys
import time
import traceback

sys.path.insert(0, os.path.dirname(os.path.abspath(__file__)))
sys.path.insert(0, os.path.join(os.path.dirname(os.path.abspath(__file__)), "props"))
import vlib  # noqa: E402
from vlib import log  # noqa: E402

ALL = ["C%02d" % i for i in range(1, 21)]


HarnessError = vlib.HarnessError


class Ctx:
    def __init__(self, pid, tier, seed, replay_cases=None):
        self.pid = pid
        self.tier = tier
        self.seed = seed
        self.replay_cases = replay_cases
        self.workdir = os.path.join(vlib.WORK, pid)
        os.makedirs(self.workdir, exist_ok=True)
        self.env = dict(vlib.GOENV)
        self.env["VERIF_SEED"] = str(seed)
        self.env["VERIF_TIER"] = tier
        self.notes = {}


def load(pid):
    return importlib.import_module("props." + pid.lower())


def setup():
    lock = vlib.Lock()
    lock.exclusive()
    t0 = time.time()
    gen = vlib.regen()
    for k, v in gen.items():
        if v:
            log("setup: translator failed on %s: %s" % (k, v))
    ok, out = vlib.coq_make(None)
    log("setup: coq build %s in %.0fs" % ("ok" if ok else "FAILED", time.time() - t0))
    if not ok:
        log(out[-4000:])
    bad = vlib.hygiene()
    for b in bad:
        log("setup: hygiene: " + b)
    lock.release()
    return 0 if ok and not bad else 1


def evaluate(mod, ctx, cases, with_model):
    terms = [mod.to_coq(c) for c in cases]
    module = mod.CHECK_MODULE if with_model else getattr(mod, "ORACLE_MODULE", mod.CHECK_MODULE)
    shard = getattr(mod, "SHARD", 400)
    shards = vlib.write_shards(ctx.workdir, module, terms, shard_size=shard,
                               prelude=getattr(mod, "PRELUDE", "") +
                               ("" if with_model else "Definition mismatches (cs : list case) : list N := [].\n"))
    return vlib.eval_shards(shards, timeout=getattr(mod, "EVAL_TIMEOUT", 900))


def run(pid, tier, seed, replay=None):
    t0 = time.time()
    mod = load(pid)
    replay_cases = None
    if replay:
        with open(replay) as f:
            rp = json.load(f)
        if "case" not in rp:
            log("replay file names an obligation, not a case: re-running the whole check")
        else:
            replay_cases = [rp["case"]]
    ctx = Ctx(pid, tier, seed, replay_cases)
    lock = vlib.Lock()
    lock.exclusive()
    broken = []          # obligations that no longer check
    obligations = 0
    discharged = 0

    # 1. translator + Coq build -------------------------------------------------
    gen = vlib.regen()
    for name in getattr(mod, "GEN_DEPS", []):
        obligations += 1
        if gen.get(name):
            broken.append({"kind": "translator", "obligation": "coq/gen/" + name, "error": gen[name]})
        else:
            discharged += 1
    okC, logC = vlib.coq_make(mod.TARGETS_CHECK)
    okP, logP = vlib.coq_make(mod.TARGETS_PROP)
    lock.shared()
    theorems = vlib.theorems_of(pid)
    obligations += len(theorems)
    if okP:
        discharged += len(theorems)
    else:
        errs = vlib.coq_errors(logP)
        names = []
        for e in errs:
            th = vlib.theorem_at(e["file"], e["line"]) if e["line"] else None
            names.append("%s:%s" % (e["file"], th or "?"))
            broken.append({"kind": "proof-obligation", "obligation": "%s:%s" % (e["file"], th or "?"), "error": e["error"]})
        if not errs:
            broken.append({"kind": "proof-obligation", "obligation": "Properties/%s.v" % pid, "error": logP[-800:]})
    if not okC:
        for e in vlib.coq_errors(logC):
            broken.append({"kind": "model-build", "obligation": e["file"], "error": e["error"]})

    # 2. hygiene + axioms ---------------------------------------------------------
    bad = vlib.hygiene()
    obligations += 1
    if bad:
        broken.append({"kind": "hygiene", "obligation": "grep gate", "error": "; ".join(bad[:5])})
    else:
        discharged += 1
    pa = None
    if okP:
        _, pa, paout = vlib.print_assumptions(pid, ctx.workdir)
        if pa is None:
            broken.append({"kind": "proof-obligation", "obligation": "Print Assumptions", "error": paout[-500:]})

    # 2b. independent re-check of the compiled theorems (thorough tier only: minutes) ----------
    chk_note = None
    if okP and tier == "thorough" and os.environ.get("VERIF_NO_COQCHK") != "1":
        obligations += 1
        rc, out = vlib.sh(["coqchk", "-silent", "-o", "-Q", "theories", "Golem", "-Q", "gen", "GolemGen",
                           "Golem.Properties." + pid], cwd=vlib.COQ, timeout=3600)
        tail = out[-1500:]
        if rc == 0:
            discharged += 1
            import re as _re
            m = _re.search(r"\* Axioms:(.*?)(?:\n\s*\n|\* |$)", out, _re.S)
            chk_note = "coqchk -o re-checked Properties/%s.vo and everything it depends on; axioms of the loaded libraries: %s" % (
                pid, " ".join(m.group(1).split()) if m else "see log")
        else:
            broken.append({"kind": "proof-obligation", "obligation": "coqchk Golem.Properties." + pid, "error": tail})

    # 3. correspondence ------------------------------------------------------------
    cases = []
    harness_err = None
    try:
        cases = mod.run_impl(ctx)
    except HarnessError as e:
        harness_err = str(e)
    except Exception:
        harness_err = traceback.format_exc()
    ev = None
    obligations += 1  # the harness ran
    if harness_err:
        broken.append({"kind": "harness", "obligation": "harness/%s builds and runs against /repo" % pid, "error": harness_err[-1500:]})
    else:
        discharged += 1
    oracle_ok = okC
    if cases:
        ev = evaluate(mod, ctx, cases, with_model=okC)
        if not okC and ev["failed"]:
            oracle_ok = False
        elif not okC:
            oracle_ok = True
        obligations += ev["shards"]
        if okC:
            # a shard is discharged when it evaluated and shows no mismatch and no violation
            bad_shards = set()
            shard = getattr(mod, "SHARD", 400)
            for i in ev["mismatches"] + ev["violations"]:
                bad_shards.add(i // shard)
            discharged += ev["ok_shards"] - len(bad_shards)
        for p, out in ev["failed"]:
            broken.append({"kind": "correspondence", "obligation": "evaluation of " + os.path.relpath(p, vlib.ROOT), "error": out[-800:]})

    # 4. decide ----------------------------------------------------------------------
    viol_lines = []
    known_lines = []
    nviol = 0
    reported = set()

    def report_case(c, why):
        nonlocal nviol
        sig = mod.signature(c)
        k = vlib.match_known(pid, sig)
        key = json.dumps(sig, sort_keys=True)
        if k:
            if key not in reported:
                known_lines.append("KNOWN-FINDING: property=%s %s" % (pid, k["what"]))
                reported.add(key)
            return
        nviol += 1
        if key in reported:
            return
        reported.add(key)
        path = vlib.write_replay(pid, "oracle", {"case": c, "why": why, "describe": mod.describe(c),
                                                 "seed": seed, "tier": tier})
        viol_lines.append("VIOLATION property=%s replay=%s" % (pid, path))

    if ev:
        vi = sorted(set(ev["violations"]))
        if hasattr(mod, "shrink") and vi:
            seen = set()
            for i in vi[:40]:
                try:
                    c = mod.shrink(ctx, cases[i])
                except Exception:
                    c = cases[i]
                key = json.dumps(mod.signature(c), sort_keys=True)
                if key in seen:
                    continue
                seen.add(key)
                report_case(c, "the property oracle rejects what the implementation did")
        else:
            for i in vi[:200]:
                report_case(cases[i], "the property oracle rejects what the implementation did")
        mism = sorted(set(ev["mismatches"]) - set(ev["violations"]))
        if mism:
            # model and implementation disagree on cases the oracle accepts
            ex = cases[mism[0]]
            broken.append({"kind": "correspondence", "obligation": "%s.mismatches = [] (%d cases disagree)" % (mod.CHECK_MODULE, len(mism)),
                           "error": "model and implementation differ", "case": ex, "describe": mod.describe(ex)})

    search_info = None
    if broken and nviol == 0:
        # something no longer checks, and no explored case violates the property: directed search
        found = []
        if hasattr(mod, "search") and not harness_err and oracle_ok:
            try:
                found, search_info = mod.search(ctx, lambda cs: evaluate(mod, ctx, cs, with_model=False))
            except Exception:
                search_info = {"error": traceback.format_exc()[-800:]}
        for c in found[:20]:
            report_case(c, "found by the directed search after an obligation broke")
        if nviol == 0:
            ob = broken[0]
            payload = {"obligation": ob["obligation"], "broken": broken[:10], "seed": seed, "tier": tier, "search": search_info}
            if "case" in ob:
                payload["case"] = ob["case"]
            path = vlib.write_replay(pid, ob["kind"], payload)
            viol_lines.append("VIOLATION property=%s replay=%s no-failing-input-found" % (pid, path))
            nviol += 1

    # 5. evidence ----------------------------------------------------------------------
    nontrivial = set()
    for c in cases:
        k = mod.nontrivial_key(c)
        if k is not None:
            nontrivial.add(k)
    trusted = [
        "Coq 8.16.1 kernel; vm_compute (case evaluation, per-arity/finite obligations); no native_compute; no extraction",
        "axioms reported by Print Assumptions over Properties/%s.v: %s" % (
            pid, ("none (all %d theorems closed under the global context)" % pa["closed"] if pa and not pa["axioms"] else
                  (", ".join(pa["axioms"]) if pa else "unavailable: theorems did not build"))),
        "correspondence harness (Go, built from /repo's working tree with -tags verif) and the case writer of tools/runner",
    ] + list(getattr(mod, "TRUSTED", [])) + ([chk_note] if chk_note else [])
    coverage = {
        "obligations": obligations, "discharged": min(discharged, obligations),
        "checker_cmd": "make -C coq -j16 %s (coqc 8.16.1, full .vo) ; coqc work/%s/cases_*.v" % (" ".join(mod.TARGETS_PROP), pid),
        "trusted_base": trusted,
        "theorems": theorems,
        "evaluations": len(cases),
        "distinct_nontrivial": len(nontrivial),
        "rule": mod.RULE,
        "samples": [mod.sample(c) for c in (cases[:1] + cases[len(cases) // 2:len(cases) // 2 + 1] + cases[-1:])] or ["no case was produced"],
        "model_mismatches": len(ev["mismatches"]) if ev else 0,
        "oracle_violations": len(ev["violations"]) if ev else 0,
        "broken_obligations": [b["obligation"] for b in broken],
        "histogram": getattr(mod, "histogram", lambda cs: {})(cases),
        "digest": (ev["digests"][:2] if ev else []),
        "known_findings_seen": known_lines,
        "repo_rev": vlib.repo_rev(),
    }
    coverage.update(ctx.notes)
    vlib.write_evidence(pid, tier, seed, coverage, time.time() - t0, nviol, list(getattr(mod, "ASSUMPTIONS", [])),
                        scratch=bool(replay))   # a replay of one case is not the property's evidence
    lock.release()
    for l in known_lines:
        print(l)
    for l in viol_lines:
        print(l)
    print("%s: %s  obligations %d/%d, cases %d (%d distinct non-trivial), %.1fs" % (
        pid, "VIOLATED" if nviol else "holds", min(discharged, obligations), obligations, len(cases), len(nontrivial), time.time() - t0))
    sys.stdout.flush()
    return 1 if nviol else 0


def main():
    ap = argparse.ArgumentParser()
    ap.add_argument("pid", nargs="?")
    ap.add_argument("--tier", default=os.environ.get("VERIF_TIER", "quick"))
    ap.add_argument("--replay")
    ap.add_argument("--setup", action="store_true")
    ap.add_argument("--all", action="store_true")
    a = ap.parse_args()
    seed = int(os.environ.get("VERIF_SEED", "1") or "1")
    if a.setup:
        sys.exit(setup())
    if a.all:
        rc = 0
        for pid in ALL:
            try:
                rc |= run(pid, a.tier, seed)
            except ModuleNotFoundError:
                log("%s: no check built" % pid)
        sys.exit(rc)
    if not a.pid:
        ap.error("property id required")
    if a.tier not in ("quick", "thorough"):
        a.tier = "quick"
    sys.exit(run(a.pid.upper(), a.tier, seed, a.replay))


if __name__ == "__main__":
    main()
