(* First-order call trees of straight-line Go expressions, and Go's evaluation
   order for nested calls: operands first (left to right), then the call. *)
From Coq Require Import List String.
Import ListNotations.

Inductive cexp := CVar (x : string) | CApp (f : string) (args : list cexp).

Fixpoint calls (e : cexp) : list string :=
  match e with
  | CVar _ => []
  | CApp f args =>
      (fix go (l : list cexp) : list string :=
         match l with [] => [] | a :: r => calls a ++ go r end) args ++ [f]
  end.
