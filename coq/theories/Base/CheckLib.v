(* Small executable helpers shared by the case checkers. No proofs. *)
From Coq Require Import List ZArith NArith Bool.
Import ListNotations.

Fixpoint idx_where {A} (p : A -> bool) (i : N) (l : list A) : list N :=
  match l with [] => [] | x :: r => (if p x then [i] else []) ++ idx_where p (N.succ i) r end.

Fixpoint list_eqb {A} (eqb : A -> A -> bool) (a b : list A) : bool :=
  match a, b with
  | [], [] => true
  | x :: a', y :: b' => eqb x y && list_eqb eqb a' b'
  | _, _ => false
  end.

Definition lz_eqb := list_eqb Z.eqb.

Definition opt_eqb {A} (eqb : A -> A -> bool) (a b : option A) : bool :=
  match a, b with
  | Some x, Some y => eqb x y
  | None, None => true
  | _, _ => false
  end.

Definition count_where {A} (p : A -> bool) (l : list A) : N := N.of_nat (length (filter p l)).
