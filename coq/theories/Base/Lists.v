(* List lemmas shared by the models: prefixes, interleavings, take_while. *)
From Coq Require Import List Arith Lia Permutation.
Import ListNotations.

Definition prefix {A} (a b : list A) : Prop := exists r, b = a ++ r.

Lemma prefix_refl {A} (a : list A) : prefix a a.
Proof. exists []. now rewrite app_nil_r. Qed.
Lemma prefix_nil {A} (a : list A) : prefix [] a.
Proof. exists a. reflexivity. Qed.
Lemma prefix_app_r {A} (a b : list A) : prefix a (a ++ b).
Proof. exists b. reflexivity. Qed.
Lemma prefix_trans {A} (a b c : list A) : prefix a b -> prefix b c -> prefix a c.
Proof. intros [r ->] [r' ->]. exists (r ++ r'). now rewrite app_assoc. Qed.
Lemma prefix_of_app {A} (a b c : list A) : a ++ b = c -> prefix a c.
Proof. intros <-. apply prefix_app_r. Qed.
Lemma prefix_map {A B} (f : A -> B) a b : prefix a b -> prefix (map f a) (map f b).
Proof. intros [r ->]. exists (map f r). apply map_app. Qed.
Lemma prefix_filter {A} (p : A -> bool) a b : prefix a b -> prefix (filter p a) (filter p b).
Proof. intros [r ->]. exists (filter p r). apply filter_app. Qed.
Lemma prefix_flat_map {A B} (f : A -> list B) a b : prefix a b -> prefix (flat_map f a) (flat_map f b).
Proof. intros [r ->]. exists (flat_map f r). apply flat_map_app. Qed.
Lemma prefix_length {A} (a b : list A) : prefix a b -> length a <= length b.
Proof. intros [r ->]. rewrite app_length. lia. Qed.
Lemma prefix_firstn {A} (a b : list A) : prefix a b -> a = firstn (length a) b.
Proof. intros [r ->]. rewrite firstn_app, Nat.sub_diag, firstn_all. simpl. now rewrite app_nil_r. Qed.
Lemma prefix_app_l {A} (x a b : list A) : prefix a b -> prefix (x ++ a) (x ++ b).
Proof. intros [r ->]. exists r. now rewrite app_assoc. Qed.
Lemma prefix_same_length {A} (a b : list A) : prefix a b -> length a = length b -> a = b.
Proof. intros [r ->] H. rewrite app_length in H. destruct r; [now rewrite app_nil_r|simpl in H; lia]. Qed.

Fixpoint take_while {A} (p : A -> bool) (xs : list A) : list A :=
  match xs with [] => [] | x :: r => if p x then x :: take_while p r else [] end.

Lemma take_while_app_all {A} (p : A -> bool) a b :
  forallb p a = true -> take_while p (a ++ b) = a ++ take_while p b.
Proof.
  induction a as [|x a IH]; simpl; auto. intros H. apply andb_prop in H. destruct H as [-> H].
  now rewrite IH.
Qed.
Lemma take_while_all {A} (p : A -> bool) a : forallb p a = true -> take_while p a = a.
Proof. intros H. rewrite <- (app_nil_r a) at 1. rewrite take_while_app_all; auto. simpl. apply app_nil_r. Qed.
Lemma take_while_stop {A} (p : A -> bool) a x b :
  forallb p a = true -> p x = false -> take_while p (a ++ x :: b) = a.
Proof. intros H Hx. rewrite take_while_app_all; auto. simpl. rewrite Hx. apply app_nil_r. Qed.

Lemma removelast_app_one {A} (l : list A) a : removelast (l ++ [a]) = l.
Proof. apply removelast_last. Qed.

(* every list is either empty or ends in a last element *)
Lemma list_snoc_cases {A} (l : list A) : l = [] \/ exists xs a, l = xs ++ [a].
Proof.
  destruct l as [|x l]; auto. right.
  exists (removelast (x :: l)), (last (x :: l) x). apply app_removelast_last. discriminate.
Qed.
