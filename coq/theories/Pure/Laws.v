(* Laws of the definitions regenerated from pure/eq, pure/ord, pure/semigroup, pure/monoid (coq/gen/GenPure.v). *)
From Coq Require Import ZArith Bool List Lia.
From Golem Require Import Pure.Prelude.
From GolemGen Require Import GenPure.
Import ListNotations.
Open Scope Z_scope.

(* unfold whatever the translator generated (helpers extracted in the source included), however deep *)
Ltac gen_unfold := repeat autounfold with golem_gen.

(* ---------- Eq ---------- *)
Lemma eq_is_builtin {T} (go_eq : T -> T -> bool) a b : eq_eq_Equal go_eq a b = go_eq a b.
Proof. reflexivity. Qed.
Lemma eq_int_spec a b : eq_eq_Equal Z.eqb a b = true <-> a = b.
Proof. gen_unfold. apply Z.eqb_eq. Qed.
Lemma eq_string_spec a b : eq_eq_Equal str_eqb a b = true <-> a = b.
Proof. gen_unfold. apply str_eqb_eq. Qed.

(* an equivalence whenever the built-in == decides equality (it does for int and string) *)
Lemma eq_equivalence {T} (go_eq : T -> T -> bool) :
  (forall a b, go_eq a b = true <-> a = b) ->
  (forall a, eq_eq_Equal go_eq a a = true) /\
  (forall a b, eq_eq_Equal go_eq a b = eq_eq_Equal go_eq b a) /\
  (forall a b c, eq_eq_Equal go_eq a b = true -> eq_eq_Equal go_eq b c = true -> eq_eq_Equal go_eq a c = true).
Proof.
  intros H. gen_unfold. repeat split.
  - intros a. apply H. reflexivity.
  - intros a b. destruct (go_eq a b) eqn:E1, (go_eq b a) eqn:E2; auto.
    + apply H in E1. subst. assert (go_eq b b = true) by (apply H; auto). congruence.
    + apply H in E2. subst. assert (go_eq a a = true) by (apply H; auto). congruence.
  - intros a b c H1 H2. apply H in H1. apply H in H2. subst. apply H. reflexivity.
Qed.

Lemma eq_from_spec {T} (f : T -> T -> bool) a b : eq_From_Equal f a b = f a b.
Proof. reflexivity. Qed.
Lemma eq_contramap_spec {A B} (base : A -> A -> bool) (f : B -> A) a b :
  eq_ContraMap_Equal f base a b = base (f a) (f b).
Proof. reflexivity. Qed.

(* ---------- Ord ---------- *)
Lemma ord_values : ord_LT = -1 /\ ord_EQ = 0 /\ ord_GT = 1.
Proof. repeat split; reflexivity. Qed.

Lemma ord_int_spec a b :
  (ord_ord_Compare Z.ltb a b = ord_LT <-> a < b) /\
  (ord_ord_Compare Z.ltb a b = ord_GT <-> b < a) /\
  (ord_ord_Compare Z.ltb a b = ord_EQ <-> a = b).
Proof.
  gen_unfold.
  destruct (Z.ltb_spec a b), (Z.ltb_spec b a); repeat split; intros; try lia; try discriminate; auto.
Qed.

Lemma ord_string_spec a b :
  (ord_ord_Compare str_ltb a b = ord_LT <-> str_ltb a b = true) /\
  (ord_ord_Compare str_ltb a b = ord_GT <-> str_ltb b a = true) /\
  (ord_ord_Compare str_ltb a b = ord_EQ <-> a = b).
Proof.
  gen_unfold.
  destruct (str_trichotomy a b) as [(A & B & C)|[(A & B & C)|(A & B & C)]]; rewrite A, ?C;
    repeat split; intros; try discriminate; try congruence; auto.
Qed.

(* for ANY strict total order given as the built-in <: totality, antisymmetry, transitivity, agreement with Eq *)
Section OrdLaws.
Context {T : Type} (lt : T -> T -> bool) (eqb : T -> T -> bool).
Hypothesis Htri : forall a b,
  (lt a b = true /\ a <> b /\ lt b a = false) \/ (lt a b = false /\ a = b /\ lt b a = false) \/
  (lt a b = false /\ a <> b /\ lt b a = true).
Hypothesis Htrans : forall a b c, lt a b = true -> lt b c = true -> lt a c = true.
Hypothesis Heq : forall a b, eqb a b = true <-> a = b.

Let cmp := ord_ord_Compare lt.

Lemma ord_total a b : cmp a b = ord_LT \/ cmp a b = ord_EQ \/ cmp a b = ord_GT.
Proof. unfold cmp. gen_unfold. destruct (lt a b); auto. destruct (lt b a); auto. Qed.
Lemma ord_antisym a b : cmp a b = ord_LT <-> cmp b a = ord_GT.
Proof.
  unfold cmp. gen_unfold.
  destruct (Htri a b) as [(A & B & C)|[(A & B & C)|(A & B & C)]]; rewrite A, C; split; intros; try discriminate; auto.
Qed.
Lemma ord_trans a b c : cmp a b = ord_LT -> cmp b c = ord_LT -> cmp a c = ord_LT.
Proof.
  unfold cmp. gen_unfold. intros H1 H2.
  destruct (lt a b) eqn:E1; [|destruct (lt b a); discriminate].
  destruct (lt b c) eqn:E2; [|destruct (lt c b); discriminate].
  rewrite (Htrans a b c E1 E2). reflexivity.
Qed.
Lemma ord_eq_agrees a b : cmp a b = ord_EQ <-> eq_eq_Equal eqb a b = true.
Proof.
  unfold cmp. gen_unfold. rewrite Heq.
  destruct (Htri a b) as [(A & B & C)|[(A & B & C)|(A & B & C)]]; rewrite A, ?C; split; intros; try discriminate; try congruence; auto.
Qed.
End OrdLaws.

Lemma ord_from_spec {T} (f : T -> T -> Z) a b : ord_From_Compare f a b = f a b.
Proof. reflexivity. Qed.
Lemma ord_contramap_spec {A B} (base : A -> A -> Z) (f : B -> A) a b :
  ord_ContraMap_Compare f base a b = base (f a) (f b).
Proof. reflexivity. Qed.

(* ---------- Semigroup / Monoid ---------- *)
Lemma semigroup_from_spec {T} (f : T -> T -> T) a b : semigroup_From_Combine f a b = f a b.
Proof. reflexivity. Qed.
(* a monoid value is (its Semigroup, its empty field); Combine is the embedded Semigroup's, Empty reads the field *)
Lemma monoid_from_spec {T} (e : T) (op : T -> T -> T) :
  fst (monoid_From e op) = op /\ monoid_monoid_Empty (snd (monoid_From e op)) = e.
Proof. split; reflexivity. Qed.
Lemma monoid_fromop_spec {T} (e : T) (op : T -> T -> T) a b :
  semigroup_From_Combine (fst (monoid_FromOp e op)) a b = op a b /\ monoid_monoid_Empty (snd (monoid_FromOp e op)) = e.
Proof. split; reflexivity. Qed.

Lemma int_trichotomy (a b : Z) :
  (Z.ltb a b = true /\ a <> b /\ Z.ltb b a = false) \/ (Z.ltb a b = false /\ a = b /\ Z.ltb b a = false) \/
  (Z.ltb a b = false /\ a <> b /\ Z.ltb b a = true).
Proof.
  destruct (Z.ltb_spec a b) as [H1|H1]; destruct (Z.ltb_spec b a) as [H2|H2].
  - lia.
  - left. repeat split; auto. lia.
  - right. right. repeat split; auto. lia.
  - right. left. repeat split; auto. lia.
Qed.
Lemma int_lt_trans (a b c : Z) : Z.ltb a b = true -> Z.ltb b c = true -> Z.ltb a c = true.
Proof. rewrite !Z.ltb_lt. lia. Qed.
