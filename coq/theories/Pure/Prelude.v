(* Go's built-in == and < on int and string, as the generated definitions of coq/gen/GenPure.v take them.
   int is Z (no arithmetic is performed by the code under proof, so no wrap-around is modelled);
   string is the list of its bytes with Go's bytewise lexicographic order. *)
From Coq Require Import ZArith Bool List Lia.
Import ListNotations.
Open Scope Z_scope.

Definition gostring := list Z.

Fixpoint str_eqb (a b : gostring) : bool :=
  match a, b with
  | [], [] => true
  | x :: a', y :: b' => Z.eqb x y && str_eqb a' b'
  | _, _ => false
  end.

Fixpoint str_ltb (a b : gostring) : bool :=
  match a, b with
  | [], [] => false
  | [], _ :: _ => true
  | _ :: _, [] => false
  | x :: a', y :: b' => if Z.ltb x y then true else if Z.ltb y x then false else str_ltb a' b'
  end.

Lemma str_eqb_eq a b : str_eqb a b = true <-> a = b.
Proof.
  revert b. induction a as [|x a IH]; destruct b as [|y b]; simpl; split; try discriminate; auto.
  - intros H. apply andb_prop in H. destruct H as [H1 H2]. apply Z.eqb_eq in H1. apply IH in H2. subst. reflexivity.
  - intros H. inversion H; subst. rewrite Z.eqb_refl. simpl. apply IH. reflexivity.
Qed.

Lemma str_ltb_irrefl a : str_ltb a a = false.
Proof. induction a as [|x a IH]; simpl; auto. rewrite Z.ltb_irrefl. exact IH. Qed.

Lemma str_ltb_trans a b c : str_ltb a b = true -> str_ltb b c = true -> str_ltb a c = true.
Proof.
  revert b c. induction a as [|x a IH]; intros [|y b] [|z c]; simpl; auto; try discriminate.
  intros Hab Hbc.
  destruct (Z.ltb_spec x y) as [Hxy|Hxy].
  - destruct (Z.ltb_spec y z) as [Hyz|Hyz].
    + destruct (Z.ltb_spec x z); [reflexivity|lia].
    + destruct (Z.ltb_spec z y) as [Hzy|Hzy]; [discriminate|]. destruct (Z.ltb_spec x z); [reflexivity|lia].
  - destruct (Z.ltb_spec y x) as [Hyx|Hyx]; [discriminate|]. assert (x = y) by lia. subst y.
    destruct (Z.ltb_spec x z) as [Hxz|Hxz]; [reflexivity|].
    destruct (Z.ltb_spec z x) as [Hzx|Hzx]; [discriminate|]. eapply IH; eauto.
Qed.

(* exactly one of a < b, a = b, b < a *)
Lemma str_trichotomy a b :
  (str_ltb a b = true /\ a <> b /\ str_ltb b a = false) \/
  (str_ltb a b = false /\ a = b /\ str_ltb b a = false) \/
  (str_ltb a b = false /\ a <> b /\ str_ltb b a = true).
Proof.
  revert b. induction a as [|x a IH]; destruct b as [|y b]; simpl.
  - right. left. auto.
  - left. repeat split; auto. discriminate.
  - right. right. repeat split; auto. discriminate.
  - destruct (Z.ltb_spec x y), (Z.ltb_spec y x); try lia.
    + left. repeat split; auto. intros E. inversion E. lia.
    + right. right. repeat split; auto. intros E. inversion E. lia.
    + assert (x = y) by lia. subst. destruct (IH b) as [(A & B & C)|[(A & B & C)|(A & B & C)]].
      * left. repeat split; auto. intros E. inversion E. auto.
      * right. left. repeat split; auto. subst. reflexivity.
      * right. right. repeat split; auto. intros E. inversion E. auto.
Qed.
