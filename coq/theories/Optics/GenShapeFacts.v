(* Per-arity lemmas about the generated ForShapeN / shapeN.Put / shapeN.Get (coq/gen/GenShape.v). Written once by
   tools/scripts/gen_arity_facts.py; the definitions are regenerated from optics/shape.go on every run. *)
From Coq Require Import List String Bool Arith.
From Golem Require Import Optics.GenPrelude Optics.GenHseqFacts.
From GolemGen Require Import GenHseq GenOptics GenShape.
Import ListNotations.
Open Scope res_scope.

Ltac shape_crush :=
  intros; unfold bindM, lens_Put, lens_Get, retM;
  repeat (match goal with
          | |- context [oput ?o ?m ?s ?x] => destruct (oput o m s x); cbn [bind]; try reflexivity
          | |- context [oget ?o ?m ?s] => destruct (oget o m s); cbn [bind]; try reflexivity
          end).

Lemma shape2_Put_spec : forall (lens : shape2) (s : ptr) (a b : value) (m : mem),
  shape2_Put lens s a b m =
  (m1 <- oput (shape2_b lens) m s b ;;
   m2 <- oput (shape2_a lens) m1 s a ;; Ok (s, m2)).
Proof. unfold shape2_Put. shape_crush. Qed.

Lemma shape2_Get_spec : forall (lens : shape2) (s : ptr) (m : mem),
  shape2_Get lens s m =
  (a <- oget (shape2_a lens) m s ;;
   b <- oget (shape2_b lens) m s ;; Ok ((a, b), m)).
Proof. unfold shape2_Get. shape_crush. Qed.

Lemma ForShape2_spec : forall (T A B : ty) (attr : list string),
  ForShape2 T A B attr =
  rmap (fun '(a, b) => mk_shape2 a b) (ForProduct2 T A B attr).
Proof.
  intros. unfold ForShape2. destruct (ForProduct2 T A B attr) as [[a b]|]; reflexivity.
Qed.

Lemma shape3_Put_spec : forall (lens : shape3) (s : ptr) (a b c : value) (m : mem),
  shape3_Put lens s a b c m =
  (m1 <- oput (shape3_c lens) m s c ;;
   m2 <- oput (shape3_b lens) m1 s b ;;
   m3 <- oput (shape3_a lens) m2 s a ;; Ok (s, m3)).
Proof. unfold shape3_Put. shape_crush. Qed.

Lemma shape3_Get_spec : forall (lens : shape3) (s : ptr) (m : mem),
  shape3_Get lens s m =
  (a <- oget (shape3_a lens) m s ;;
   b <- oget (shape3_b lens) m s ;;
   c <- oget (shape3_c lens) m s ;; Ok ((a, b, c), m)).
Proof. unfold shape3_Get. shape_crush. Qed.

Lemma ForShape3_spec : forall (T A B C : ty) (attr : list string),
  ForShape3 T A B C attr =
  rmap (fun '(a, b, c) => mk_shape3 a b c) (ForProduct3 T A B C attr).
Proof.
  intros. unfold ForShape3. destruct (ForProduct3 T A B C attr) as [[[a b] c]|]; reflexivity.
Qed.

Lemma shape4_Put_spec : forall (lens : shape4) (s : ptr) (a b c d : value) (m : mem),
  shape4_Put lens s a b c d m =
  (m1 <- oput (shape4_d lens) m s d ;;
   m2 <- oput (shape4_c lens) m1 s c ;;
   m3 <- oput (shape4_b lens) m2 s b ;;
   m4 <- oput (shape4_a lens) m3 s a ;; Ok (s, m4)).
Proof. unfold shape4_Put. shape_crush. Qed.

Lemma shape4_Get_spec : forall (lens : shape4) (s : ptr) (m : mem),
  shape4_Get lens s m =
  (a <- oget (shape4_a lens) m s ;;
   b <- oget (shape4_b lens) m s ;;
   c <- oget (shape4_c lens) m s ;;
   d <- oget (shape4_d lens) m s ;; Ok ((a, b, c, d), m)).
Proof. unfold shape4_Get. shape_crush. Qed.

Lemma ForShape4_spec : forall (T A B C D : ty) (attr : list string),
  ForShape4 T A B C D attr =
  rmap (fun '(a, b, c, d) => mk_shape4 a b c d) (ForProduct4 T A B C D attr).
Proof.
  intros. unfold ForShape4. destruct (ForProduct4 T A B C D attr) as [[[[a b] c] d]|]; reflexivity.
Qed.

Lemma shape5_Put_spec : forall (lens : shape5) (s : ptr) (a b c d e : value) (m : mem),
  shape5_Put lens s a b c d e m =
  (m1 <- oput (shape5_e lens) m s e ;;
   m2 <- oput (shape5_d lens) m1 s d ;;
   m3 <- oput (shape5_c lens) m2 s c ;;
   m4 <- oput (shape5_b lens) m3 s b ;;
   m5 <- oput (shape5_a lens) m4 s a ;; Ok (s, m5)).
Proof. unfold shape5_Put. shape_crush. Qed.

Lemma shape5_Get_spec : forall (lens : shape5) (s : ptr) (m : mem),
  shape5_Get lens s m =
  (a <- oget (shape5_a lens) m s ;;
   b <- oget (shape5_b lens) m s ;;
   c <- oget (shape5_c lens) m s ;;
   d <- oget (shape5_d lens) m s ;;
   e <- oget (shape5_e lens) m s ;; Ok ((a, b, c, d, e), m)).
Proof. unfold shape5_Get. shape_crush. Qed.

Lemma ForShape5_spec : forall (T A B C D E : ty) (attr : list string),
  ForShape5 T A B C D E attr =
  rmap (fun '(a, b, c, d, e) => mk_shape5 a b c d e) (ForProduct5 T A B C D E attr).
Proof.
  intros. unfold ForShape5. destruct (ForProduct5 T A B C D E attr) as [[[[[a b] c] d] e]|]; reflexivity.
Qed.

Lemma shape6_Put_spec : forall (lens : shape6) (s : ptr) (a b c d e f : value) (m : mem),
  shape6_Put lens s a b c d e f m =
  (m1 <- oput (shape6_f lens) m s f ;;
   m2 <- oput (shape6_e lens) m1 s e ;;
   m3 <- oput (shape6_d lens) m2 s d ;;
   m4 <- oput (shape6_c lens) m3 s c ;;
   m5 <- oput (shape6_b lens) m4 s b ;;
   m6 <- oput (shape6_a lens) m5 s a ;; Ok (s, m6)).
Proof. unfold shape6_Put. shape_crush. Qed.

Lemma shape6_Get_spec : forall (lens : shape6) (s : ptr) (m : mem),
  shape6_Get lens s m =
  (a <- oget (shape6_a lens) m s ;;
   b <- oget (shape6_b lens) m s ;;
   c <- oget (shape6_c lens) m s ;;
   d <- oget (shape6_d lens) m s ;;
   e <- oget (shape6_e lens) m s ;;
   f <- oget (shape6_f lens) m s ;; Ok ((a, b, c, d, e, f), m)).
Proof. unfold shape6_Get. shape_crush. Qed.

Lemma ForShape6_spec : forall (T A B C D E F : ty) (attr : list string),
  ForShape6 T A B C D E F attr =
  rmap (fun '(a, b, c, d, e, f) => mk_shape6 a b c d e f) (ForProduct6 T A B C D E F attr).
Proof.
  intros. unfold ForShape6. destruct (ForProduct6 T A B C D E F attr) as [[[[[[a b] c] d] e] f]|]; reflexivity.
Qed.

Lemma shape7_Put_spec : forall (lens : shape7) (s : ptr) (a b c d e f g : value) (m : mem),
  shape7_Put lens s a b c d e f g m =
  (m1 <- oput (shape7_g lens) m s g ;;
   m2 <- oput (shape7_f lens) m1 s f ;;
   m3 <- oput (shape7_e lens) m2 s e ;;
   m4 <- oput (shape7_d lens) m3 s d ;;
   m5 <- oput (shape7_c lens) m4 s c ;;
   m6 <- oput (shape7_b lens) m5 s b ;;
   m7 <- oput (shape7_a lens) m6 s a ;; Ok (s, m7)).
Proof. unfold shape7_Put. shape_crush. Qed.

Lemma shape7_Get_spec : forall (lens : shape7) (s : ptr) (m : mem),
  shape7_Get lens s m =
  (a <- oget (shape7_a lens) m s ;;
   b <- oget (shape7_b lens) m s ;;
   c <- oget (shape7_c lens) m s ;;
   d <- oget (shape7_d lens) m s ;;
   e <- oget (shape7_e lens) m s ;;
   f <- oget (shape7_f lens) m s ;;
   g <- oget (shape7_g lens) m s ;; Ok ((a, b, c, d, e, f, g), m)).
Proof. unfold shape7_Get. shape_crush. Qed.

Lemma ForShape7_spec : forall (T A B C D E F G : ty) (attr : list string),
  ForShape7 T A B C D E F G attr =
  rmap (fun '(a, b, c, d, e, f, g) => mk_shape7 a b c d e f g) (ForProduct7 T A B C D E F G attr).
Proof.
  intros. unfold ForShape7. destruct (ForProduct7 T A B C D E F G attr) as [[[[[[[a b] c] d] e] f] g]|]; reflexivity.
Qed.

Lemma shape8_Put_spec : forall (lens : shape8) (s : ptr) (a b c d e f g h : value) (m : mem),
  shape8_Put lens s a b c d e f g h m =
  (m1 <- oput (shape8_h lens) m s h ;;
   m2 <- oput (shape8_g lens) m1 s g ;;
   m3 <- oput (shape8_f lens) m2 s f ;;
   m4 <- oput (shape8_e lens) m3 s e ;;
   m5 <- oput (shape8_d lens) m4 s d ;;
   m6 <- oput (shape8_c lens) m5 s c ;;
   m7 <- oput (shape8_b lens) m6 s b ;;
   m8 <- oput (shape8_a lens) m7 s a ;; Ok (s, m8)).
Proof. unfold shape8_Put. shape_crush. Qed.

Lemma shape8_Get_spec : forall (lens : shape8) (s : ptr) (m : mem),
  shape8_Get lens s m =
  (a <- oget (shape8_a lens) m s ;;
   b <- oget (shape8_b lens) m s ;;
   c <- oget (shape8_c lens) m s ;;
   d <- oget (shape8_d lens) m s ;;
   e <- oget (shape8_e lens) m s ;;
   f <- oget (shape8_f lens) m s ;;
   g <- oget (shape8_g lens) m s ;;
   h <- oget (shape8_h lens) m s ;; Ok ((a, b, c, d, e, f, g, h), m)).
Proof. unfold shape8_Get. shape_crush. Qed.

Lemma ForShape8_spec : forall (T A B C D E F G H : ty) (attr : list string),
  ForShape8 T A B C D E F G H attr =
  rmap (fun '(a, b, c, d, e, f, g, h) => mk_shape8 a b c d e f g h) (ForProduct8 T A B C D E F G H attr).
Proof.
  intros. unfold ForShape8. destruct (ForProduct8 T A B C D E F G H attr) as [[[[[[[[a b] c] d] e] f] g] h]|]; reflexivity.
Qed.

Lemma shape9_Put_spec : forall (lens : shape9) (s : ptr) (a b c d e f g h i : value) (m : mem),
  shape9_Put lens s a b c d e f g h i m =
  (m1 <- oput (shape9_i lens) m s i ;;
   m2 <- oput (shape9_h lens) m1 s h ;;
   m3 <- oput (shape9_g lens) m2 s g ;;
   m4 <- oput (shape9_f lens) m3 s f ;;
   m5 <- oput (shape9_e lens) m4 s e ;;
   m6 <- oput (shape9_d lens) m5 s d ;;
   m7 <- oput (shape9_c lens) m6 s c ;;
   m8 <- oput (shape9_b lens) m7 s b ;;
   m9 <- oput (shape9_a lens) m8 s a ;; Ok (s, m9)).
Proof. unfold shape9_Put. shape_crush. Qed.

Lemma shape9_Get_spec : forall (lens : shape9) (s : ptr) (m : mem),
  shape9_Get lens s m =
  (a <- oget (shape9_a lens) m s ;;
   b <- oget (shape9_b lens) m s ;;
   c <- oget (shape9_c lens) m s ;;
   d <- oget (shape9_d lens) m s ;;
   e <- oget (shape9_e lens) m s ;;
   f <- oget (shape9_f lens) m s ;;
   g <- oget (shape9_g lens) m s ;;
   h <- oget (shape9_h lens) m s ;;
   i <- oget (shape9_i lens) m s ;; Ok ((a, b, c, d, e, f, g, h, i), m)).
Proof. unfold shape9_Get. shape_crush. Qed.

Lemma ForShape9_spec : forall (T A B C D E F G H I : ty) (attr : list string),
  ForShape9 T A B C D E F G H I attr =
  rmap (fun '(a, b, c, d, e, f, g, h, i) => mk_shape9 a b c d e f g h i) (ForProduct9 T A B C D E F G H I attr).
Proof.
  intros. unfold ForShape9. destruct (ForProduct9 T A B C D E F G H I attr) as [[[[[[[[[a b] c] d] e] f] g] h] i]|]; reflexivity.
Qed.
