(* Per-arity lemmas about the generated ForShapeN / shapeN.Put / shapeN.Get (coq/gen/GenShape.v). Written once by
   tools/scripts/gen_arity_facts.py; the definitions are regenerated from optics/shape.go on every run. *)
From Coq Require Import List String Bool Arith.
From Golem Require Import Optics.GenPrelude Optics.GenHseqFacts Optics.CombFacts Optics.FocusFacts.
From GolemGen Require Import GenHseq GenOptics GenShape.
Import ListNotations.
Open Scope res_scope.

Ltac shape_crush :=
  intros; repeat autounfold with golem_helpers; unfold bindM, lens_Put, lens_Get, retM;
  repeat (match goal with
          | |- context [oput ?o ?m ?s ?x] => destruct (oput o m s x); cbn [bind]; try reflexivity
          | |- context [oget ?o ?m ?s] => destruct (oget o m s); cbn [bind]; try reflexivity
          end).

Lemma shape2_Put_spec : forall (lens : shape2) (s : ptr) (a b : value) (m : mem),
  shape2_Put lens s a b m =
  (m1 <- oput (shape2_b lens) m s b ;;
   m2 <- oput (shape2_a lens) m1 s a ;; Ok (s, m2)).
Proof. unfold shape2_Put. shape_crush. Qed.

Lemma shape2_Get_spec : forall (lens : shape2) (s : ptr) (m : mem),
  shape2_Get lens s m =
  (a <- oget (shape2_a lens) m s ;;
   b <- oget (shape2_b lens) m s ;; Ok ((a, b), m)).
Proof. unfold shape2_Get. shape_crush. Qed.

Lemma ForShape2_spec : forall (T A B : ty) (attr : list string),
  ForShape2 T A B attr =
  rmap (fun '(a, b) => mk_shape2 a b) (ForProduct2 T A B attr).
Proof.
  intros. unfold ForShape2. destruct (ForProduct2 T A B attr) as [[a b]|]; reflexivity.
Qed.

Lemma shape2_Put_puts : forall (lens : shape2) (s : ptr) (a b : value) (m : mem),
  shape2_Put lens s a b m =
  rmap (fun m' => (s, m')) (puts [(shape2_a lens, a); (shape2_b lens, b)] m s).
Proof.
  intros. rewrite shape2_Put_spec. cbn [puts bind]. shape_crush.
Qed.

Lemma shape2_nfold : forall (lens : shape2) (s p : ptr) (a b : value) (m m' : mem) (na nb : nat) (fa fb : list (nat * nat)),
  focused (shape2_a lens) na fa ->
  focused (shape2_b lens) nb fb ->
  List.length a = na -> List.length b = nb ->
  ForallOrdPairs disjoint_fp [fa; fb] ->
  shape2_Put lens s a b m = Ok (p, m') ->
  p = s /\ shape2_Get lens s m' = Ok ((a, b), m') /\
  (forall i, outside (List.concat [fa; fb]) s i -> nth_error m' i = nth_error m i).
Proof.
  intros lens s p a b m m' na nb fa fb Fa Fb La Lb D H.
  rewrite shape2_Put_puts in H.
  destruct (puts [(shape2_a lens, a); (shape2_b lens, b)] m s) as [m1|] eqn:E; cbn [rmap] in H; [|discriminate].
  injection H as Hp Hm. subst p m1.
  assert (Hok : Forall comp_ok [mkComp (shape2_a lens) na fa a; mkComp (shape2_b lens) nb fb b])
    by (repeat (apply Forall_cons; [split; cbn [c_o c_n c_fp c_x]; assumption|]); apply Forall_nil).
  match type of Hok with Forall _ ?cs =>
    destruct (puts_spec cs m s m' Hok (FOP_map c_fp disjoint_fp cs D) E) as (_ & G & Fr) end.
  split; [reflexivity|]. split; [|exact Fr].
  rewrite shape2_Get_spec.
  repeat (apply Forall_cons_iff in G; destruct G as [G0 G]; cbn [c_o c_x] in G0; rewrite G0; clear G0; cbn [bind]).
  reflexivity.
Qed.

Lemma shape3_Put_spec : forall (lens : shape3) (s : ptr) (a b c : value) (m : mem),
  shape3_Put lens s a b c m =
  (m1 <- oput (shape3_c lens) m s c ;;
   m2 <- oput (shape3_b lens) m1 s b ;;
   m3 <- oput (shape3_a lens) m2 s a ;; Ok (s, m3)).
Proof. unfold shape3_Put. shape_crush. Qed.

Lemma shape3_Get_spec : forall (lens : shape3) (s : ptr) (m : mem),
  shape3_Get lens s m =
  (a <- oget (shape3_a lens) m s ;;
   b <- oget (shape3_b lens) m s ;;
   c <- oget (shape3_c lens) m s ;; Ok ((a, b, c), m)).
Proof. unfold shape3_Get. shape_crush. Qed.

Lemma ForShape3_spec : forall (T A B C : ty) (attr : list string),
  ForShape3 T A B C attr =
  rmap (fun '(a, b, c) => mk_shape3 a b c) (ForProduct3 T A B C attr).
Proof.
  intros. unfold ForShape3. destruct (ForProduct3 T A B C attr) as [[[a b] c]|]; reflexivity.
Qed.

Lemma shape3_Put_puts : forall (lens : shape3) (s : ptr) (a b c : value) (m : mem),
  shape3_Put lens s a b c m =
  rmap (fun m' => (s, m')) (puts [(shape3_a lens, a); (shape3_b lens, b); (shape3_c lens, c)] m s).
Proof.
  intros. rewrite shape3_Put_spec. cbn [puts bind]. shape_crush.
Qed.

Lemma shape3_nfold : forall (lens : shape3) (s p : ptr) (a b c : value) (m m' : mem) (na nb nc : nat) (fa fb fc : list (nat * nat)),
  focused (shape3_a lens) na fa ->
  focused (shape3_b lens) nb fb ->
  focused (shape3_c lens) nc fc ->
  List.length a = na -> List.length b = nb -> List.length c = nc ->
  ForallOrdPairs disjoint_fp [fa; fb; fc] ->
  shape3_Put lens s a b c m = Ok (p, m') ->
  p = s /\ shape3_Get lens s m' = Ok ((a, b, c), m') /\
  (forall i, outside (List.concat [fa; fb; fc]) s i -> nth_error m' i = nth_error m i).
Proof.
  intros lens s p a b c m m' na nb nc fa fb fc Fa Fb Fc La Lb Lc D H.
  rewrite shape3_Put_puts in H.
  destruct (puts [(shape3_a lens, a); (shape3_b lens, b); (shape3_c lens, c)] m s) as [m1|] eqn:E; cbn [rmap] in H; [|discriminate].
  injection H as Hp Hm. subst p m1.
  assert (Hok : Forall comp_ok [mkComp (shape3_a lens) na fa a; mkComp (shape3_b lens) nb fb b; mkComp (shape3_c lens) nc fc c])
    by (repeat (apply Forall_cons; [split; cbn [c_o c_n c_fp c_x]; assumption|]); apply Forall_nil).
  match type of Hok with Forall _ ?cs =>
    destruct (puts_spec cs m s m' Hok (FOP_map c_fp disjoint_fp cs D) E) as (_ & G & Fr) end.
  split; [reflexivity|]. split; [|exact Fr].
  rewrite shape3_Get_spec.
  repeat (apply Forall_cons_iff in G; destruct G as [G0 G]; cbn [c_o c_x] in G0; rewrite G0; clear G0; cbn [bind]).
  reflexivity.
Qed.

Lemma shape4_Put_spec : forall (lens : shape4) (s : ptr) (a b c d : value) (m : mem),
  shape4_Put lens s a b c d m =
  (m1 <- oput (shape4_d lens) m s d ;;
   m2 <- oput (shape4_c lens) m1 s c ;;
   m3 <- oput (shape4_b lens) m2 s b ;;
   m4 <- oput (shape4_a lens) m3 s a ;; Ok (s, m4)).
Proof. unfold shape4_Put. shape_crush. Qed.

Lemma shape4_Get_spec : forall (lens : shape4) (s : ptr) (m : mem),
  shape4_Get lens s m =
  (a <- oget (shape4_a lens) m s ;;
   b <- oget (shape4_b lens) m s ;;
   c <- oget (shape4_c lens) m s ;;
   d <- oget (shape4_d lens) m s ;; Ok ((a, b, c, d), m)).
Proof. unfold shape4_Get. shape_crush. Qed.

Lemma ForShape4_spec : forall (T A B C D : ty) (attr : list string),
  ForShape4 T A B C D attr =
  rmap (fun '(a, b, c, d) => mk_shape4 a b c d) (ForProduct4 T A B C D attr).
Proof.
  intros. unfold ForShape4. destruct (ForProduct4 T A B C D attr) as [[[[a b] c] d]|]; reflexivity.
Qed.

Lemma shape4_Put_puts : forall (lens : shape4) (s : ptr) (a b c d : value) (m : mem),
  shape4_Put lens s a b c d m =
  rmap (fun m' => (s, m')) (puts [(shape4_a lens, a); (shape4_b lens, b); (shape4_c lens, c); (shape4_d lens, d)] m s).
Proof.
  intros. rewrite shape4_Put_spec. cbn [puts bind]. shape_crush.
Qed.

Lemma shape4_nfold : forall (lens : shape4) (s p : ptr) (a b c d : value) (m m' : mem) (na nb nc nd : nat) (fa fb fc fd : list (nat * nat)),
  focused (shape4_a lens) na fa ->
  focused (shape4_b lens) nb fb ->
  focused (shape4_c lens) nc fc ->
  focused (shape4_d lens) nd fd ->
  List.length a = na -> List.length b = nb -> List.length c = nc -> List.length d = nd ->
  ForallOrdPairs disjoint_fp [fa; fb; fc; fd] ->
  shape4_Put lens s a b c d m = Ok (p, m') ->
  p = s /\ shape4_Get lens s m' = Ok ((a, b, c, d), m') /\
  (forall i, outside (List.concat [fa; fb; fc; fd]) s i -> nth_error m' i = nth_error m i).
Proof.
  intros lens s p a b c d m m' na nb nc nd fa fb fc fd Fa Fb Fc Fd La Lb Lc Ld D H.
  rewrite shape4_Put_puts in H.
  destruct (puts [(shape4_a lens, a); (shape4_b lens, b); (shape4_c lens, c); (shape4_d lens, d)] m s) as [m1|] eqn:E; cbn [rmap] in H; [|discriminate].
  injection H as Hp Hm. subst p m1.
  assert (Hok : Forall comp_ok [mkComp (shape4_a lens) na fa a; mkComp (shape4_b lens) nb fb b; mkComp (shape4_c lens) nc fc c; mkComp (shape4_d lens) nd fd d])
    by (repeat (apply Forall_cons; [split; cbn [c_o c_n c_fp c_x]; assumption|]); apply Forall_nil).
  match type of Hok with Forall _ ?cs =>
    destruct (puts_spec cs m s m' Hok (FOP_map c_fp disjoint_fp cs D) E) as (_ & G & Fr) end.
  split; [reflexivity|]. split; [|exact Fr].
  rewrite shape4_Get_spec.
  repeat (apply Forall_cons_iff in G; destruct G as [G0 G]; cbn [c_o c_x] in G0; rewrite G0; clear G0; cbn [bind]).
  reflexivity.
Qed.

Lemma shape5_Put_spec : forall (lens : shape5) (s : ptr) (a b c d e : value) (m : mem),
  shape5_Put lens s a b c d e m =
  (m1 <- oput (shape5_e lens) m s e ;;
   m2 <- oput (shape5_d lens) m1 s d ;;
   m3 <- oput (shape5_c lens) m2 s c ;;
   m4 <- oput (shape5_b lens) m3 s b ;;
   m5 <- oput (shape5_a lens) m4 s a ;; Ok (s, m5)).
Proof. unfold shape5_Put. shape_crush. Qed.

Lemma shape5_Get_spec : forall (lens : shape5) (s : ptr) (m : mem),
  shape5_Get lens s m =
  (a <- oget (shape5_a lens) m s ;;
   b <- oget (shape5_b lens) m s ;;
   c <- oget (shape5_c lens) m s ;;
   d <- oget (shape5_d lens) m s ;;
   e <- oget (shape5_e lens) m s ;; Ok ((a, b, c, d, e), m)).
Proof. unfold shape5_Get. shape_crush. Qed.

Lemma ForShape5_spec : forall (T A B C D E : ty) (attr : list string),
  ForShape5 T A B C D E attr =
  rmap (fun '(a, b, c, d, e) => mk_shape5 a b c d e) (ForProduct5 T A B C D E attr).
Proof.
  intros. unfold ForShape5. destruct (ForProduct5 T A B C D E attr) as [[[[[a b] c] d] e]|]; reflexivity.
Qed.

Lemma shape5_Put_puts : forall (lens : shape5) (s : ptr) (a b c d e : value) (m : mem),
  shape5_Put lens s a b c d e m =
  rmap (fun m' => (s, m')) (puts [(shape5_a lens, a); (shape5_b lens, b); (shape5_c lens, c); (shape5_d lens, d); (shape5_e lens, e)] m s).
Proof.
  intros. rewrite shape5_Put_spec. cbn [puts bind]. shape_crush.
Qed.

Lemma shape5_nfold : forall (lens : shape5) (s p : ptr) (a b c d e : value) (m m' : mem) (na nb nc nd ne : nat) (fa fb fc fd fe : list (nat * nat)),
  focused (shape5_a lens) na fa ->
  focused (shape5_b lens) nb fb ->
  focused (shape5_c lens) nc fc ->
  focused (shape5_d lens) nd fd ->
  focused (shape5_e lens) ne fe ->
  List.length a = na -> List.length b = nb -> List.length c = nc -> List.length d = nd -> List.length e = ne ->
  ForallOrdPairs disjoint_fp [fa; fb; fc; fd; fe] ->
  shape5_Put lens s a b c d e m = Ok (p, m') ->
  p = s /\ shape5_Get lens s m' = Ok ((a, b, c, d, e), m') /\
  (forall i, outside (List.concat [fa; fb; fc; fd; fe]) s i -> nth_error m' i = nth_error m i).
Proof.
  intros lens s p a b c d e m m' na nb nc nd ne fa fb fc fd fe Fa Fb Fc Fd Fe La Lb Lc Ld Le D H.
  rewrite shape5_Put_puts in H.
  destruct (puts [(shape5_a lens, a); (shape5_b lens, b); (shape5_c lens, c); (shape5_d lens, d); (shape5_e lens, e)] m s) as [m1|] eqn:E; cbn [rmap] in H; [|discriminate].
  injection H as Hp Hm. subst p m1.
  assert (Hok : Forall comp_ok [mkComp (shape5_a lens) na fa a; mkComp (shape5_b lens) nb fb b; mkComp (shape5_c lens) nc fc c; mkComp (shape5_d lens) nd fd d; mkComp (shape5_e lens) ne fe e])
    by (repeat (apply Forall_cons; [split; cbn [c_o c_n c_fp c_x]; assumption|]); apply Forall_nil).
  match type of Hok with Forall _ ?cs =>
    destruct (puts_spec cs m s m' Hok (FOP_map c_fp disjoint_fp cs D) E) as (_ & G & Fr) end.
  split; [reflexivity|]. split; [|exact Fr].
  rewrite shape5_Get_spec.
  repeat (apply Forall_cons_iff in G; destruct G as [G0 G]; cbn [c_o c_x] in G0; rewrite G0; clear G0; cbn [bind]).
  reflexivity.
Qed.

Lemma shape6_Put_spec : forall (lens : shape6) (s : ptr) (a b c d e f : value) (m : mem),
  shape6_Put lens s a b c d e f m =
  (m1 <- oput (shape6_f lens) m s f ;;
   m2 <- oput (shape6_e lens) m1 s e ;;
   m3 <- oput (shape6_d lens) m2 s d ;;
   m4 <- oput (shape6_c lens) m3 s c ;;
   m5 <- oput (shape6_b lens) m4 s b ;;
   m6 <- oput (shape6_a lens) m5 s a ;; Ok (s, m6)).
Proof. unfold shape6_Put. shape_crush. Qed.

Lemma shape6_Get_spec : forall (lens : shape6) (s : ptr) (m : mem),
  shape6_Get lens s m =
  (a <- oget (shape6_a lens) m s ;;
   b <- oget (shape6_b lens) m s ;;
   c <- oget (shape6_c lens) m s ;;
   d <- oget (shape6_d lens) m s ;;
   e <- oget (shape6_e lens) m s ;;
   f <- oget (shape6_f lens) m s ;; Ok ((a, b, c, d, e, f), m)).
Proof. unfold shape6_Get. shape_crush. Qed.

Lemma ForShape6_spec : forall (T A B C D E F : ty) (attr : list string),
  ForShape6 T A B C D E F attr =
  rmap (fun '(a, b, c, d, e, f) => mk_shape6 a b c d e f) (ForProduct6 T A B C D E F attr).
Proof.
  intros. unfold ForShape6. destruct (ForProduct6 T A B C D E F attr) as [[[[[[a b] c] d] e] f]|]; reflexivity.
Qed.

Lemma shape6_Put_puts : forall (lens : shape6) (s : ptr) (a b c d e f : value) (m : mem),
  shape6_Put lens s a b c d e f m =
  rmap (fun m' => (s, m')) (puts [(shape6_a lens, a); (shape6_b lens, b); (shape6_c lens, c); (shape6_d lens, d); (shape6_e lens, e); (shape6_f lens, f)] m s).
Proof.
  intros. rewrite shape6_Put_spec. cbn [puts bind]. shape_crush.
Qed.

Lemma shape6_nfold : forall (lens : shape6) (s p : ptr) (a b c d e f : value) (m m' : mem) (na nb nc nd ne nf : nat) (fa fb fc fd fe ff : list (nat * nat)),
  focused (shape6_a lens) na fa ->
  focused (shape6_b lens) nb fb ->
  focused (shape6_c lens) nc fc ->
  focused (shape6_d lens) nd fd ->
  focused (shape6_e lens) ne fe ->
  focused (shape6_f lens) nf ff ->
  List.length a = na -> List.length b = nb -> List.length c = nc -> List.length d = nd -> List.length e = ne -> List.length f = nf ->
  ForallOrdPairs disjoint_fp [fa; fb; fc; fd; fe; ff] ->
  shape6_Put lens s a b c d e f m = Ok (p, m') ->
  p = s /\ shape6_Get lens s m' = Ok ((a, b, c, d, e, f), m') /\
  (forall i, outside (List.concat [fa; fb; fc; fd; fe; ff]) s i -> nth_error m' i = nth_error m i).
Proof.
  intros lens s p a b c d e f m m' na nb nc nd ne nf fa fb fc fd fe ff Fa Fb Fc Fd Fe Ff La Lb Lc Ld Le Lf D H.
  rewrite shape6_Put_puts in H.
  destruct (puts [(shape6_a lens, a); (shape6_b lens, b); (shape6_c lens, c); (shape6_d lens, d); (shape6_e lens, e); (shape6_f lens, f)] m s) as [m1|] eqn:E; cbn [rmap] in H; [|discriminate].
  injection H as Hp Hm. subst p m1.
  assert (Hok : Forall comp_ok [mkComp (shape6_a lens) na fa a; mkComp (shape6_b lens) nb fb b; mkComp (shape6_c lens) nc fc c; mkComp (shape6_d lens) nd fd d; mkComp (shape6_e lens) ne fe e; mkComp (shape6_f lens) nf ff f])
    by (repeat (apply Forall_cons; [split; cbn [c_o c_n c_fp c_x]; assumption|]); apply Forall_nil).
  match type of Hok with Forall _ ?cs =>
    destruct (puts_spec cs m s m' Hok (FOP_map c_fp disjoint_fp cs D) E) as (_ & G & Fr) end.
  split; [reflexivity|]. split; [|exact Fr].
  rewrite shape6_Get_spec.
  repeat (apply Forall_cons_iff in G; destruct G as [G0 G]; cbn [c_o c_x] in G0; rewrite G0; clear G0; cbn [bind]).
  reflexivity.
Qed.

Lemma shape7_Put_spec : forall (lens : shape7) (s : ptr) (a b c d e f g : value) (m : mem),
  shape7_Put lens s a b c d e f g m =
  (m1 <- oput (shape7_g lens) m s g ;;
   m2 <- oput (shape7_f lens) m1 s f ;;
   m3 <- oput (shape7_e lens) m2 s e ;;
   m4 <- oput (shape7_d lens) m3 s d ;;
   m5 <- oput (shape7_c lens) m4 s c ;;
   m6 <- oput (shape7_b lens) m5 s b ;;
   m7 <- oput (shape7_a lens) m6 s a ;; Ok (s, m7)).
Proof. unfold shape7_Put. shape_crush. Qed.

Lemma shape7_Get_spec : forall (lens : shape7) (s : ptr) (m : mem),
  shape7_Get lens s m =
  (a <- oget (shape7_a lens) m s ;;
   b <- oget (shape7_b lens) m s ;;
   c <- oget (shape7_c lens) m s ;;
   d <- oget (shape7_d lens) m s ;;
   e <- oget (shape7_e lens) m s ;;
   f <- oget (shape7_f lens) m s ;;
   g <- oget (shape7_g lens) m s ;; Ok ((a, b, c, d, e, f, g), m)).
Proof. unfold shape7_Get. shape_crush. Qed.

Lemma ForShape7_spec : forall (T A B C D E F G : ty) (attr : list string),
  ForShape7 T A B C D E F G attr =
  rmap (fun '(a, b, c, d, e, f, g) => mk_shape7 a b c d e f g) (ForProduct7 T A B C D E F G attr).
Proof.
  intros. unfold ForShape7. destruct (ForProduct7 T A B C D E F G attr) as [[[[[[[a b] c] d] e] f] g]|]; reflexivity.
Qed.

Lemma shape7_Put_puts : forall (lens : shape7) (s : ptr) (a b c d e f g : value) (m : mem),
  shape7_Put lens s a b c d e f g m =
  rmap (fun m' => (s, m')) (puts [(shape7_a lens, a); (shape7_b lens, b); (shape7_c lens, c); (shape7_d lens, d); (shape7_e lens, e); (shape7_f lens, f); (shape7_g lens, g)] m s).
Proof.
  intros. rewrite shape7_Put_spec. cbn [puts bind]. shape_crush.
Qed.

Lemma shape7_nfold : forall (lens : shape7) (s p : ptr) (a b c d e f g : value) (m m' : mem) (na nb nc nd ne nf ng : nat) (fa fb fc fd fe ff fg : list (nat * nat)),
  focused (shape7_a lens) na fa ->
  focused (shape7_b lens) nb fb ->
  focused (shape7_c lens) nc fc ->
  focused (shape7_d lens) nd fd ->
  focused (shape7_e lens) ne fe ->
  focused (shape7_f lens) nf ff ->
  focused (shape7_g lens) ng fg ->
  List.length a = na -> List.length b = nb -> List.length c = nc -> List.length d = nd -> List.length e = ne -> List.length f = nf -> List.length g = ng ->
  ForallOrdPairs disjoint_fp [fa; fb; fc; fd; fe; ff; fg] ->
  shape7_Put lens s a b c d e f g m = Ok (p, m') ->
  p = s /\ shape7_Get lens s m' = Ok ((a, b, c, d, e, f, g), m') /\
  (forall i, outside (List.concat [fa; fb; fc; fd; fe; ff; fg]) s i -> nth_error m' i = nth_error m i).
Proof.
  intros lens s p a b c d e f g m m' na nb nc nd ne nf ng fa fb fc fd fe ff fg Fa Fb Fc Fd Fe Ff Fg La Lb Lc Ld Le Lf Lg D H.
  rewrite shape7_Put_puts in H.
  destruct (puts [(shape7_a lens, a); (shape7_b lens, b); (shape7_c lens, c); (shape7_d lens, d); (shape7_e lens, e); (shape7_f lens, f); (shape7_g lens, g)] m s) as [m1|] eqn:E; cbn [rmap] in H; [|discriminate].
  injection H as Hp Hm. subst p m1.
  assert (Hok : Forall comp_ok [mkComp (shape7_a lens) na fa a; mkComp (shape7_b lens) nb fb b; mkComp (shape7_c lens) nc fc c; mkComp (shape7_d lens) nd fd d; mkComp (shape7_e lens) ne fe e; mkComp (shape7_f lens) nf ff f; mkComp (shape7_g lens) ng fg g])
    by (repeat (apply Forall_cons; [split; cbn [c_o c_n c_fp c_x]; assumption|]); apply Forall_nil).
  match type of Hok with Forall _ ?cs =>
    destruct (puts_spec cs m s m' Hok (FOP_map c_fp disjoint_fp cs D) E) as (_ & G & Fr) end.
  split; [reflexivity|]. split; [|exact Fr].
  rewrite shape7_Get_spec.
  repeat (apply Forall_cons_iff in G; destruct G as [G0 G]; cbn [c_o c_x] in G0; rewrite G0; clear G0; cbn [bind]).
  reflexivity.
Qed.

Lemma shape8_Put_spec : forall (lens : shape8) (s : ptr) (a b c d e f g h : value) (m : mem),
  shape8_Put lens s a b c d e f g h m =
  (m1 <- oput (shape8_h lens) m s h ;;
   m2 <- oput (shape8_g lens) m1 s g ;;
   m3 <- oput (shape8_f lens) m2 s f ;;
   m4 <- oput (shape8_e lens) m3 s e ;;
   m5 <- oput (shape8_d lens) m4 s d ;;
   m6 <- oput (shape8_c lens) m5 s c ;;
   m7 <- oput (shape8_b lens) m6 s b ;;
   m8 <- oput (shape8_a lens) m7 s a ;; Ok (s, m8)).
Proof. unfold shape8_Put. shape_crush. Qed.

Lemma shape8_Get_spec : forall (lens : shape8) (s : ptr) (m : mem),
  shape8_Get lens s m =
  (a <- oget (shape8_a lens) m s ;;
   b <- oget (shape8_b lens) m s ;;
   c <- oget (shape8_c lens) m s ;;
   d <- oget (shape8_d lens) m s ;;
   e <- oget (shape8_e lens) m s ;;
   f <- oget (shape8_f lens) m s ;;
   g <- oget (shape8_g lens) m s ;;
   h <- oget (shape8_h lens) m s ;; Ok ((a, b, c, d, e, f, g, h), m)).
Proof. unfold shape8_Get. shape_crush. Qed.

Lemma ForShape8_spec : forall (T A B C D E F G H : ty) (attr : list string),
  ForShape8 T A B C D E F G H attr =
  rmap (fun '(a, b, c, d, e, f, g, h) => mk_shape8 a b c d e f g h) (ForProduct8 T A B C D E F G H attr).
Proof.
  intros. unfold ForShape8. destruct (ForProduct8 T A B C D E F G H attr) as [[[[[[[[a b] c] d] e] f] g] h]|]; reflexivity.
Qed.

Lemma shape8_Put_puts : forall (lens : shape8) (s : ptr) (a b c d e f g h : value) (m : mem),
  shape8_Put lens s a b c d e f g h m =
  rmap (fun m' => (s, m')) (puts [(shape8_a lens, a); (shape8_b lens, b); (shape8_c lens, c); (shape8_d lens, d); (shape8_e lens, e); (shape8_f lens, f); (shape8_g lens, g); (shape8_h lens, h)] m s).
Proof.
  intros. rewrite shape8_Put_spec. cbn [puts bind]. shape_crush.
Qed.

Lemma shape8_nfold : forall (lens : shape8) (s p : ptr) (a b c d e f g h : value) (m m' : mem) (na nb nc nd ne nf ng nh : nat) (fa fb fc fd fe ff fg fh : list (nat * nat)),
  focused (shape8_a lens) na fa ->
  focused (shape8_b lens) nb fb ->
  focused (shape8_c lens) nc fc ->
  focused (shape8_d lens) nd fd ->
  focused (shape8_e lens) ne fe ->
  focused (shape8_f lens) nf ff ->
  focused (shape8_g lens) ng fg ->
  focused (shape8_h lens) nh fh ->
  List.length a = na -> List.length b = nb -> List.length c = nc -> List.length d = nd -> List.length e = ne -> List.length f = nf -> List.length g = ng -> List.length h = nh ->
  ForallOrdPairs disjoint_fp [fa; fb; fc; fd; fe; ff; fg; fh] ->
  shape8_Put lens s a b c d e f g h m = Ok (p, m') ->
  p = s /\ shape8_Get lens s m' = Ok ((a, b, c, d, e, f, g, h), m') /\
  (forall i, outside (List.concat [fa; fb; fc; fd; fe; ff; fg; fh]) s i -> nth_error m' i = nth_error m i).
Proof.
  intros lens s p a b c d e f g h m m' na nb nc nd ne nf ng nh fa fb fc fd fe ff fg fh Fa Fb Fc Fd Fe Ff Fg Fh La Lb Lc Ld Le Lf Lg Lh D H.
  rewrite shape8_Put_puts in H.
  destruct (puts [(shape8_a lens, a); (shape8_b lens, b); (shape8_c lens, c); (shape8_d lens, d); (shape8_e lens, e); (shape8_f lens, f); (shape8_g lens, g); (shape8_h lens, h)] m s) as [m1|] eqn:E; cbn [rmap] in H; [|discriminate].
  injection H as Hp Hm. subst p m1.
  assert (Hok : Forall comp_ok [mkComp (shape8_a lens) na fa a; mkComp (shape8_b lens) nb fb b; mkComp (shape8_c lens) nc fc c; mkComp (shape8_d lens) nd fd d; mkComp (shape8_e lens) ne fe e; mkComp (shape8_f lens) nf ff f; mkComp (shape8_g lens) ng fg g; mkComp (shape8_h lens) nh fh h])
    by (repeat (apply Forall_cons; [split; cbn [c_o c_n c_fp c_x]; assumption|]); apply Forall_nil).
  match type of Hok with Forall _ ?cs =>
    destruct (puts_spec cs m s m' Hok (FOP_map c_fp disjoint_fp cs D) E) as (_ & G & Fr) end.
  split; [reflexivity|]. split; [|exact Fr].
  rewrite shape8_Get_spec.
  repeat (apply Forall_cons_iff in G; destruct G as [G0 G]; cbn [c_o c_x] in G0; rewrite G0; clear G0; cbn [bind]).
  reflexivity.
Qed.

Lemma shape9_Put_spec : forall (lens : shape9) (s : ptr) (a b c d e f g h i : value) (m : mem),
  shape9_Put lens s a b c d e f g h i m =
  (m1 <- oput (shape9_i lens) m s i ;;
   m2 <- oput (shape9_h lens) m1 s h ;;
   m3 <- oput (shape9_g lens) m2 s g ;;
   m4 <- oput (shape9_f lens) m3 s f ;;
   m5 <- oput (shape9_e lens) m4 s e ;;
   m6 <- oput (shape9_d lens) m5 s d ;;
   m7 <- oput (shape9_c lens) m6 s c ;;
   m8 <- oput (shape9_b lens) m7 s b ;;
   m9 <- oput (shape9_a lens) m8 s a ;; Ok (s, m9)).
Proof. unfold shape9_Put. shape_crush. Qed.

Lemma shape9_Get_spec : forall (lens : shape9) (s : ptr) (m : mem),
  shape9_Get lens s m =
  (a <- oget (shape9_a lens) m s ;;
   b <- oget (shape9_b lens) m s ;;
   c <- oget (shape9_c lens) m s ;;
   d <- oget (shape9_d lens) m s ;;
   e <- oget (shape9_e lens) m s ;;
   f <- oget (shape9_f lens) m s ;;
   g <- oget (shape9_g lens) m s ;;
   h <- oget (shape9_h lens) m s ;;
   i <- oget (shape9_i lens) m s ;; Ok ((a, b, c, d, e, f, g, h, i), m)).
Proof. unfold shape9_Get. shape_crush. Qed.

Lemma ForShape9_spec : forall (T A B C D E F G H I : ty) (attr : list string),
  ForShape9 T A B C D E F G H I attr =
  rmap (fun '(a, b, c, d, e, f, g, h, i) => mk_shape9 a b c d e f g h i) (ForProduct9 T A B C D E F G H I attr).
Proof.
  intros. unfold ForShape9. destruct (ForProduct9 T A B C D E F G H I attr) as [[[[[[[[[a b] c] d] e] f] g] h] i]|]; reflexivity.
Qed.

Lemma shape9_Put_puts : forall (lens : shape9) (s : ptr) (a b c d e f g h i : value) (m : mem),
  shape9_Put lens s a b c d e f g h i m =
  rmap (fun m' => (s, m')) (puts [(shape9_a lens, a); (shape9_b lens, b); (shape9_c lens, c); (shape9_d lens, d); (shape9_e lens, e); (shape9_f lens, f); (shape9_g lens, g); (shape9_h lens, h); (shape9_i lens, i)] m s).
Proof.
  intros. rewrite shape9_Put_spec. cbn [puts bind]. shape_crush.
Qed.

Lemma shape9_nfold : forall (lens : shape9) (s p : ptr) (a b c d e f g h i : value) (m m' : mem) (na nb nc nd ne nf ng nh ni : nat) (fa fb fc fd fe ff fg fh fi : list (nat * nat)),
  focused (shape9_a lens) na fa ->
  focused (shape9_b lens) nb fb ->
  focused (shape9_c lens) nc fc ->
  focused (shape9_d lens) nd fd ->
  focused (shape9_e lens) ne fe ->
  focused (shape9_f lens) nf ff ->
  focused (shape9_g lens) ng fg ->
  focused (shape9_h lens) nh fh ->
  focused (shape9_i lens) ni fi ->
  List.length a = na -> List.length b = nb -> List.length c = nc -> List.length d = nd -> List.length e = ne -> List.length f = nf -> List.length g = ng -> List.length h = nh -> List.length i = ni ->
  ForallOrdPairs disjoint_fp [fa; fb; fc; fd; fe; ff; fg; fh; fi] ->
  shape9_Put lens s a b c d e f g h i m = Ok (p, m') ->
  p = s /\ shape9_Get lens s m' = Ok ((a, b, c, d, e, f, g, h, i), m') /\
  (forall i, outside (List.concat [fa; fb; fc; fd; fe; ff; fg; fh; fi]) s i -> nth_error m' i = nth_error m i).
Proof.
  intros lens s p a b c d e f g h i m m' na nb nc nd ne nf ng nh ni fa fb fc fd fe ff fg fh fi Fa Fb Fc Fd Fe Ff Fg Fh Fi La Lb Lc Ld Le Lf Lg Lh Li D H.
  rewrite shape9_Put_puts in H.
  destruct (puts [(shape9_a lens, a); (shape9_b lens, b); (shape9_c lens, c); (shape9_d lens, d); (shape9_e lens, e); (shape9_f lens, f); (shape9_g lens, g); (shape9_h lens, h); (shape9_i lens, i)] m s) as [m1|] eqn:E; cbn [rmap] in H; [|discriminate].
  injection H as Hp Hm. subst p m1.
  assert (Hok : Forall comp_ok [mkComp (shape9_a lens) na fa a; mkComp (shape9_b lens) nb fb b; mkComp (shape9_c lens) nc fc c; mkComp (shape9_d lens) nd fd d; mkComp (shape9_e lens) ne fe e; mkComp (shape9_f lens) nf ff f; mkComp (shape9_g lens) ng fg g; mkComp (shape9_h lens) nh fh h; mkComp (shape9_i lens) ni fi i])
    by (repeat (apply Forall_cons; [split; cbn [c_o c_n c_fp c_x]; assumption|]); apply Forall_nil).
  match type of Hok with Forall _ ?cs =>
    destruct (puts_spec cs m s m' Hok (FOP_map c_fp disjoint_fp cs D) E) as (_ & G & Fr) end.
  split; [reflexivity|]. split; [|exact Fr].
  rewrite shape9_Get_spec.
  repeat (apply Forall_cons_iff in G; destruct G as [G0 G]; cbn [c_o c_x] in G0; rewrite G0; clear G0; cbn [bind]).
  reflexivity.
Qed.
