(* Per-arity lemmas about the generated ForProductN / ForSpectrumN (coq/gen/GenOptics.v). Written once by
   tools/scripts/gen_arity_facts.py; the definitions are regenerated from optics/lens.go, reflector.go on every run. *)
From Coq Require Import List String Bool Arith.
From Golem Require Import Optics.GenPrelude Optics.GenHseqFacts.
From GolemGen Require Import GenHseq GenOptics.
Import ListNotations.
Open Scope res_scope.

(* the entries a derivation works on: by type when no name is given, else by the first N names;
   fewer than N names (in a slice without spare capacity) is Go's slice-bounds panic *)
Definition select (T : ty) (As : list ty) (attr : list string) : res (list entry) :=
  match attr with
  | [] => seq <- hseq_New T [] ;; mapM (fun X => hseq_ForType X seq) As
  | _ => names <- slice attr 0 (List.length As) ;; hseq_New T names
  end.

Ltac derive_crush NewN_spec FMapN_spec :=
  intros; repeat autounfold with golem_helpers;
  match goal with |- ?f _ = _ => idtac end;
  match goal with
  | attr : list string |- _ =>
      destruct attr as [|a0 attr'];
      [ cbn [List.length Nat.eqb select]; rewrite NewN_spec;
        match goal with |- context [hseq_New ?T []] => destruct (hseq_New T []) as [seq0|]; [|reflexivity] end;
        cbn [bind];
        match goal with |- context [mapM ?f ?l] => destruct (mapM f l) as [sel|]; [|reflexivity] end;
        cbn [bind]; rewrite bind_ret; apply FMapN_spec
      | cbn [List.length Nat.eqb select];
        unfold slice, idx; cbn [List.length Nat.leb andb Nat.sub skipn firstn nth_error bind];
        try (match goal with |- context [if ?c then _ else _] => destruct c; cbn [bind]; [|reflexivity] end);
        match goal with |- context [hseq_New ?T ?ns] => destruct (hseq_New T ns) as [sel|]; [|reflexivity] end;
        cbn [bind]; rewrite bind_ret; apply FMapN_spec ]
  end.

Lemma ForProduct1_spec : forall (T A : ty) (attr : list string),
  ForProduct1 T A attr =
  seq <- select T [A] attr ;;
  match seq with
  | e1 :: _ => a <- NewLens T A e1 ;; Ok a
  | _ => Panic
  end.
Proof.
  unfold ForProduct1. derive_crush New1_spec FMap1_spec.
Qed.

Lemma ForSpectrum1_spec : forall (T A : ty) (attr : list string),
  ForSpectrum1 T A attr =
  seq <- select T [A] attr ;;
  match seq with
  | e1 :: _ => a <- NewReflector T A e1 ;; Ok a
  | _ => Panic
  end.
Proof.
  unfold ForSpectrum1. derive_crush New1_spec FMap1_spec.
Qed.

Lemma ForProduct2_spec : forall (T A B : ty) (attr : list string),
  ForProduct2 T A B attr =
  seq <- select T [A; B] attr ;;
  match seq with
  | e1 :: e2 :: _ => a <- NewLens T A e1 ;; b <- NewLens T B e2 ;; Ok (a, b)
  | _ => Panic
  end.
Proof.
  unfold ForProduct2. derive_crush New2_spec FMap2_spec.
Qed.

Lemma ForSpectrum2_spec : forall (T A B : ty) (attr : list string),
  ForSpectrum2 T A B attr =
  seq <- select T [A; B] attr ;;
  match seq with
  | e1 :: e2 :: _ => a <- NewReflector T A e1 ;; b <- NewReflector T B e2 ;; Ok (a, b)
  | _ => Panic
  end.
Proof.
  unfold ForSpectrum2. derive_crush New2_spec FMap2_spec.
Qed.

Lemma ForProduct3_spec : forall (T A B C : ty) (attr : list string),
  ForProduct3 T A B C attr =
  seq <- select T [A; B; C] attr ;;
  match seq with
  | e1 :: e2 :: e3 :: _ => a <- NewLens T A e1 ;; b <- NewLens T B e2 ;; c <- NewLens T C e3 ;; Ok (a, b, c)
  | _ => Panic
  end.
Proof.
  unfold ForProduct3. derive_crush New3_spec FMap3_spec.
Qed.

Lemma ForSpectrum3_spec : forall (T A B C : ty) (attr : list string),
  ForSpectrum3 T A B C attr =
  seq <- select T [A; B; C] attr ;;
  match seq with
  | e1 :: e2 :: e3 :: _ => a <- NewReflector T A e1 ;; b <- NewReflector T B e2 ;; c <- NewReflector T C e3 ;; Ok (a, b, c)
  | _ => Panic
  end.
Proof.
  unfold ForSpectrum3. derive_crush New3_spec FMap3_spec.
Qed.

Lemma ForProduct4_spec : forall (T A B C D : ty) (attr : list string),
  ForProduct4 T A B C D attr =
  seq <- select T [A; B; C; D] attr ;;
  match seq with
  | e1 :: e2 :: e3 :: e4 :: _ => a <- NewLens T A e1 ;; b <- NewLens T B e2 ;; c <- NewLens T C e3 ;; d <- NewLens T D e4 ;; Ok (a, b, c, d)
  | _ => Panic
  end.
Proof.
  unfold ForProduct4. derive_crush New4_spec FMap4_spec.
Qed.

Lemma ForSpectrum4_spec : forall (T A B C D : ty) (attr : list string),
  ForSpectrum4 T A B C D attr =
  seq <- select T [A; B; C; D] attr ;;
  match seq with
  | e1 :: e2 :: e3 :: e4 :: _ => a <- NewReflector T A e1 ;; b <- NewReflector T B e2 ;; c <- NewReflector T C e3 ;; d <- NewReflector T D e4 ;; Ok (a, b, c, d)
  | _ => Panic
  end.
Proof.
  unfold ForSpectrum4. derive_crush New4_spec FMap4_spec.
Qed.

Lemma ForProduct5_spec : forall (T A B C D E : ty) (attr : list string),
  ForProduct5 T A B C D E attr =
  seq <- select T [A; B; C; D; E] attr ;;
  match seq with
  | e1 :: e2 :: e3 :: e4 :: e5 :: _ => a <- NewLens T A e1 ;; b <- NewLens T B e2 ;; c <- NewLens T C e3 ;; d <- NewLens T D e4 ;; e <- NewLens T E e5 ;; Ok (a, b, c, d, e)
  | _ => Panic
  end.
Proof.
  unfold ForProduct5. derive_crush New5_spec FMap5_spec.
Qed.

Lemma ForSpectrum5_spec : forall (T A B C D E : ty) (attr : list string),
  ForSpectrum5 T A B C D E attr =
  seq <- select T [A; B; C; D; E] attr ;;
  match seq with
  | e1 :: e2 :: e3 :: e4 :: e5 :: _ => a <- NewReflector T A e1 ;; b <- NewReflector T B e2 ;; c <- NewReflector T C e3 ;; d <- NewReflector T D e4 ;; e <- NewReflector T E e5 ;; Ok (a, b, c, d, e)
  | _ => Panic
  end.
Proof.
  unfold ForSpectrum5. derive_crush New5_spec FMap5_spec.
Qed.

Lemma ForProduct6_spec : forall (T A B C D E F : ty) (attr : list string),
  ForProduct6 T A B C D E F attr =
  seq <- select T [A; B; C; D; E; F] attr ;;
  match seq with
  | e1 :: e2 :: e3 :: e4 :: e5 :: e6 :: _ => a <- NewLens T A e1 ;; b <- NewLens T B e2 ;; c <- NewLens T C e3 ;; d <- NewLens T D e4 ;; e <- NewLens T E e5 ;; f <- NewLens T F e6 ;; Ok (a, b, c, d, e, f)
  | _ => Panic
  end.
Proof.
  unfold ForProduct6. derive_crush New6_spec FMap6_spec.
Qed.

Lemma ForSpectrum6_spec : forall (T A B C D E F : ty) (attr : list string),
  ForSpectrum6 T A B C D E F attr =
  seq <- select T [A; B; C; D; E; F] attr ;;
  match seq with
  | e1 :: e2 :: e3 :: e4 :: e5 :: e6 :: _ => a <- NewReflector T A e1 ;; b <- NewReflector T B e2 ;; c <- NewReflector T C e3 ;; d <- NewReflector T D e4 ;; e <- NewReflector T E e5 ;; f <- NewReflector T F e6 ;; Ok (a, b, c, d, e, f)
  | _ => Panic
  end.
Proof.
  unfold ForSpectrum6. derive_crush New6_spec FMap6_spec.
Qed.

Lemma ForProduct7_spec : forall (T A B C D E F G : ty) (attr : list string),
  ForProduct7 T A B C D E F G attr =
  seq <- select T [A; B; C; D; E; F; G] attr ;;
  match seq with
  | e1 :: e2 :: e3 :: e4 :: e5 :: e6 :: e7 :: _ => a <- NewLens T A e1 ;; b <- NewLens T B e2 ;; c <- NewLens T C e3 ;; d <- NewLens T D e4 ;; e <- NewLens T E e5 ;; f <- NewLens T F e6 ;; g <- NewLens T G e7 ;; Ok (a, b, c, d, e, f, g)
  | _ => Panic
  end.
Proof.
  unfold ForProduct7. derive_crush New7_spec FMap7_spec.
Qed.

Lemma ForSpectrum7_spec : forall (T A B C D E F G : ty) (attr : list string),
  ForSpectrum7 T A B C D E F G attr =
  seq <- select T [A; B; C; D; E; F; G] attr ;;
  match seq with
  | e1 :: e2 :: e3 :: e4 :: e5 :: e6 :: e7 :: _ => a <- NewReflector T A e1 ;; b <- NewReflector T B e2 ;; c <- NewReflector T C e3 ;; d <- NewReflector T D e4 ;; e <- NewReflector T E e5 ;; f <- NewReflector T F e6 ;; g <- NewReflector T G e7 ;; Ok (a, b, c, d, e, f, g)
  | _ => Panic
  end.
Proof.
  unfold ForSpectrum7. derive_crush New7_spec FMap7_spec.
Qed.

Lemma ForProduct8_spec : forall (T A B C D E F G H : ty) (attr : list string),
  ForProduct8 T A B C D E F G H attr =
  seq <- select T [A; B; C; D; E; F; G; H] attr ;;
  match seq with
  | e1 :: e2 :: e3 :: e4 :: e5 :: e6 :: e7 :: e8 :: _ => a <- NewLens T A e1 ;; b <- NewLens T B e2 ;; c <- NewLens T C e3 ;; d <- NewLens T D e4 ;; e <- NewLens T E e5 ;; f <- NewLens T F e6 ;; g <- NewLens T G e7 ;; h <- NewLens T H e8 ;; Ok (a, b, c, d, e, f, g, h)
  | _ => Panic
  end.
Proof.
  unfold ForProduct8. derive_crush New8_spec FMap8_spec.
Qed.

Lemma ForSpectrum8_spec : forall (T A B C D E F G H : ty) (attr : list string),
  ForSpectrum8 T A B C D E F G H attr =
  seq <- select T [A; B; C; D; E; F; G; H] attr ;;
  match seq with
  | e1 :: e2 :: e3 :: e4 :: e5 :: e6 :: e7 :: e8 :: _ => a <- NewReflector T A e1 ;; b <- NewReflector T B e2 ;; c <- NewReflector T C e3 ;; d <- NewReflector T D e4 ;; e <- NewReflector T E e5 ;; f <- NewReflector T F e6 ;; g <- NewReflector T G e7 ;; h <- NewReflector T H e8 ;; Ok (a, b, c, d, e, f, g, h)
  | _ => Panic
  end.
Proof.
  unfold ForSpectrum8. derive_crush New8_spec FMap8_spec.
Qed.

Lemma ForProduct9_spec : forall (T A B C D E F G H I : ty) (attr : list string),
  ForProduct9 T A B C D E F G H I attr =
  seq <- select T [A; B; C; D; E; F; G; H; I] attr ;;
  match seq with
  | e1 :: e2 :: e3 :: e4 :: e5 :: e6 :: e7 :: e8 :: e9 :: _ => a <- NewLens T A e1 ;; b <- NewLens T B e2 ;; c <- NewLens T C e3 ;; d <- NewLens T D e4 ;; e <- NewLens T E e5 ;; f <- NewLens T F e6 ;; g <- NewLens T G e7 ;; h <- NewLens T H e8 ;; i <- NewLens T I e9 ;; Ok (a, b, c, d, e, f, g, h, i)
  | _ => Panic
  end.
Proof.
  unfold ForProduct9. derive_crush New9_spec FMap9_spec.
Qed.

Lemma ForSpectrum9_spec : forall (T A B C D E F G H I : ty) (attr : list string),
  ForSpectrum9 T A B C D E F G H I attr =
  seq <- select T [A; B; C; D; E; F; G; H; I] attr ;;
  match seq with
  | e1 :: e2 :: e3 :: e4 :: e5 :: e6 :: e7 :: e8 :: e9 :: _ => a <- NewReflector T A e1 ;; b <- NewReflector T B e2 ;; c <- NewReflector T C e3 ;; d <- NewReflector T D e4 ;; e <- NewReflector T E e5 ;; f <- NewReflector T F e6 ;; g <- NewReflector T G e7 ;; h <- NewReflector T H e8 ;; i <- NewReflector T I e9 ;; Ok (a, b, c, d, e, f, g, h, i)
  | _ => Panic
  end.
Proof.
  unfold ForSpectrum9. derive_crush New9_spec FMap9_spec.
Qed.
