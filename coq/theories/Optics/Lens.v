(* optics/lens.go, optics/reflector.go: field lenses over a byte arena. Definitions only.
   Transcribes NewLens / NewReflector (with the guard [inline]), lens.Get/Put, lens.Gett/Putt. *)
From Coq Require Import List String Bool Arith.
From Golem Require Export Optics.Hseq Optics.Mem.
Import ListNotations.

(* func inline(cat reflect.Type, base uintptr, f reflect.StructField, root uintptr) bool *)
Fixpoint inline_guard (cat : ty) (base : nat) (f : entry) {struct cat} : bool :=
  match cat with
  | TStruct _ _ fs =>
      (fix loop (fs : list (fdecl * ty)) : bool :=
         match fs with
         | [] => false
         | (fv, fvty) :: rest =>
             if Nat.eqb base (e_root f) && Nat.eqb (foff fv) (e_off f)
                && String.eqb (fname fv) (e_name f) && ty_eqb fvty (e_ty f)
             then true
             else if fanon fv &&
                     match fvty with
                     | TStruct _ _ _ => inline_guard fvty (base + foff fv) f
                     | _ => false
                     end
             then true
             else loop rest
         end) fs
  | _ => false                                   (* cat.Kind() != reflect.Struct *)
  end.

(* type lens[S, A any] struct{ hseq.Type[S] } -- with its two type parameters *)
Record lens := mkLens { l_S : ty; l_A : ty; l_t : entry }.

(* func NewLens[S, A any](t hseq.Type[S]) Lens[S, A] *)
Definition new_lens (S A : ty) (t : entry) : res lens :=
  if negb (inline_guard S 0 t) then Panic
  else if ty_eqb (e_ty t) A then Ok (mkLens S A t)
  else Panic.

(* uintptr(unsafe.Pointer(s)) + lens.Offset + lens.RootOffs *)
Definition lens_addr (l : lens) (s : nat) : nat := s + e_off (l_t l) + e_root (l_t l).

(* func (lens *lens[S, A]) Get(s *S) A  -- a typed load of sizeof(A) bytes *)
Definition lens_get (l : lens) (m : mem) (s : nat) : res value :=
  of_option (load m (lens_addr l s) (sizeof (l_A l))).

(* func (lens *lens[S, A]) Put(s *S, a A) *S -- a typed store, returns s *)
Definition lens_put (l : lens) (m : mem) (s : nat) (a : value) : res (nat * mem) :=
  match store m (lens_addr l s) a with
  | Some m' => Ok (s, m')
  | None => Panic
  end.

(* The dynamic argument of Gett/Putt: an interface value. [d_type] is its dynamic type
   (None for the nil interface), [d_addr] the address when it is a non-nil pointer. *)
Record dyn := mkDyn { d_type : option ty; d_addr : option nat }.

(* switch v := s.(type) { case *S: ... default: panic } *)
Definition dyn_is_ptr_to (S : ty) (d : dyn) : bool :=
  match d_type d with
  | Some (TPtr u) => ty_eqb u S
  | _ => false
  end.

(* func (lens *lens[S, A]) Gett(s any) A *)
Definition lens_gett (l : lens) (m : mem) (d : dyn) : res value :=
  if dyn_is_ptr_to (l_S l) d then
    match d_addr d with
    | Some s => lens_get l m s
    | None => if Nat.eqb (sizeof (l_A l)) 0 then Ok [] else Panic   (* typed nil pointer: a load of at least one byte faults *)
    end
  else Panic.

(* func (lens *lens[S, A]) Putt(s any, a A) any -- returns s *)
Definition lens_putt (l : lens) (m : mem) (d : dyn) (a : value) : res (dyn * mem) :=
  if dyn_is_ptr_to (l_S l) d then
    match d_addr d with
    | Some s => '(_, m') <- lens_put l m s a ;; Ok (d, m')
    | None => if Nat.eqb (List.length a) 0 then Ok (d, m) else Panic   (* typed nil pointer: a store of at least one byte faults *)
    end
  else Panic.

(* func NewReflector[S, A any](t hseq.Type[S]) Reflector[A]  -- the same guard, the same struct *)
Definition new_reflector (S A : ty) (t : entry) : res lens :=
  if negb (inline_guard S 0 t) then Panic
  else if ty_eqb (e_ty t) A then Ok (mkLens S A t)
  else Panic.
