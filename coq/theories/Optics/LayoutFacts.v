(* Facts about type descriptors and layouts: induction principle, decidable identity,
   well-formedness unrolled, golayout produces well-formed layouts, selector paths stay inside. *)
From Coq Require Import List String Bool Arith PeanoNat Lia.
From Golem Require Import Optics.Layout.
Import ListNotations.

(* ---- induction over type trees ------------------------------------------------ *)
Section TyInd.
  Variable P : ty -> Prop.
  Hypothesis Hprim : forall n s a, P (TPrim n s a).
  Hypothesis Hopq : forall n s a, P (TOpaque n s a).
  Hypothesis Hptr : forall t, P t -> P (TPtr t).
  Hypothesis Hstruct : forall n s fs, Forall (fun f => P (snd f)) fs -> P (TStruct n s fs).

  Fixpoint ty_ind' (t : ty) : P t :=
    match t with
    | TPrim n s a => Hprim n s a
    | TOpaque n s a => Hopq n s a
    | TPtr u => Hptr u (ty_ind' u)
    | TStruct n s fs =>
        Hstruct n s fs
          ((fix go (fs : list (fdecl * ty)) : Forall (fun f => P (snd f)) fs :=
              match fs with
              | [] => Forall_nil _
              | (d, t) :: r => Forall_cons (d, t) (ty_ind' t) (go r)
              end) fs)
    end.
End TyInd.

(* ---- the nested loops as top-level functions ------------------------------------ *)
Fixpoint wf_fields (size : nat) (fs : list (fdecl * ty)) (lo : nat) : bool :=
  match fs with
  | [] => Nat.leb lo size
  | (d, t) :: r => Nat.leb lo (foff d) && wf_layout t && wf_fields size r (foff d + sizeof t)
  end.

Lemma wf_layout_struct : forall n size fs, wf_layout (TStruct n size fs) = wf_fields size fs 0.
Proof.
  intros n size fs. cbn [wf_layout]. generalize 0 as lo.
  induction fs as [|[d t] r IH]; intro lo; cbn [wf_fields]; [reflexivity|].
  rewrite <- IH. reflexivity.
Qed.

Fixpoint fields_eqb (fs fs' : list (fdecl * ty)) : bool :=
  match fs, fs' with
  | [], [] => true
  | (d, t) :: r, (d', t') :: r' => fdecl_eqb d d' && ty_eqb t t' && fields_eqb r r'
  | _, _ => false
  end.

Lemma ty_eqb_struct : forall n s fs n' s' fs',
  ty_eqb (TStruct n s fs) (TStruct n' s' fs') = String.eqb n n' && Nat.eqb s s' && fields_eqb fs fs'.
Proof.
  intros. reflexivity.
Qed.

Lemma fdecl_eqb_eq : forall a b, fdecl_eqb a b = true -> a = b.
Proof.
  intros [n t a o] [n' t' a' o'] H. unfold fdecl_eqb in H. cbn in H.
  repeat (apply andb_prop in H; destruct H as [H ?]).
  apply String.eqb_eq in H. apply String.eqb_eq in H2. apply Bool.eqb_prop in H1. apply Nat.eqb_eq in H0.
  subst. reflexivity.
Qed.

Lemma fdecl_eqb_refl : forall a, fdecl_eqb a a = true.
Proof.
  intros [n t a o]. unfold fdecl_eqb. cbn.
  rewrite !String.eqb_refl, Bool.eqb_reflx, Nat.eqb_refl. reflexivity.
Qed.

Lemma ty_eqb_eq : forall a b, ty_eqb a b = true -> a = b.
Proof.
  intro a. induction a as [n s al|n s al|t IH|n s fs IH] using ty_ind'; intros b H; destruct b; try discriminate.
  - cbn in H. repeat (apply andb_prop in H; destruct H as [H ?]).
    apply String.eqb_eq in H. apply Nat.eqb_eq in H1. apply Nat.eqb_eq in H0. subst. reflexivity.
  - cbn in H. repeat (apply andb_prop in H; destruct H as [H ?]).
    apply String.eqb_eq in H. apply Nat.eqb_eq in H1. apply Nat.eqb_eq in H0. subst. reflexivity.
  - cbn in H. f_equal. apply IH. exact H.
  - rewrite ty_eqb_struct in H. repeat (apply andb_prop in H; destruct H as [H ?]).
    apply String.eqb_eq in H. apply Nat.eqb_eq in H1. subst. f_equal.
    revert fields H0. induction IH as [|[d t] r Ht _ IHr]; intros [|[d' t'] r'] H0; try discriminate; [reflexivity|].
    cbn [fields_eqb] in H0. apply andb_prop in H0. destruct H0 as [H0 Hr].
    apply andb_prop in H0. destruct H0 as [Hd Ht'].
    apply fdecl_eqb_eq in Hd. apply Ht in Ht'. apply IHr in Hr. cbn [snd] in Ht'. subst. reflexivity.
Qed.

Lemma ty_eqb_refl : forall a, ty_eqb a a = true.
Proof.
  intro a. induction a as [n s al|n s al|t IH|n s fs IH] using ty_ind'.
  - cbn. rewrite String.eqb_refl, !Nat.eqb_refl. reflexivity.
  - cbn. rewrite String.eqb_refl, !Nat.eqb_refl. reflexivity.
  - cbn. exact IH.
  - rewrite ty_eqb_struct, String.eqb_refl, Nat.eqb_refl. cbn [andb].
    induction IH as [|[d t] r Ht _ IHr]; [reflexivity|].
    cbn [fields_eqb]. cbn [snd] in Ht. rewrite fdecl_eqb_refl, Ht, IHr. reflexivity.
Qed.

Lemma ty_eqb_neq : forall a b, a <> b -> ty_eqb a b = false.
Proof.
  intros a b H. destruct (ty_eqb a b) eqn:E; [|reflexivity]. apply ty_eqb_eq in E. contradiction.
Qed.

(* ---- well-formed structs: every field lies inside, fields are disjoint -------------- *)
Lemma wf_fields_lo : forall size fs lo, wf_fields size fs lo = true -> lo <= size.
Proof.
  intros size fs. induction fs as [|[d t] r IH]; intros lo H; cbn [wf_fields] in H.
  - apply Nat.leb_le. exact H.
  - repeat (apply andb_prop in H; destruct H as [H ?]).
    apply Nat.leb_le in H. apply IH in H0. lia.
Qed.

Lemma wf_fields_nth : forall size fs lo i d t,
  wf_fields size fs lo = true -> nth_error fs i = Some (d, t) ->
  lo <= foff d /\ foff d + sizeof t <= size /\ wf_layout t = true.
Proof.
  intros size fs. induction fs as [|[d0 t0] r IH]; intros lo i d t H Hn.
  - destruct i; discriminate.
  - cbn [wf_fields] in H. repeat (apply andb_prop in H; destruct H as [H ?]).
    apply Nat.leb_le in H. destruct i as [|i].
    + cbn in Hn. inversion Hn; subst. apply wf_fields_lo in H0. repeat split; [lia|lia|assumption].
    + cbn in Hn. destruct (IH _ _ _ _ H0 Hn) as (A & B & C). repeat split; [lia|lia|assumption].
Qed.

(* two different fields of a well-formed struct do not overlap *)
Lemma wf_fields_disjoint : forall size fs lo i j d t d' t',
  wf_fields size fs lo = true -> i < j ->
  nth_error fs i = Some (d, t) -> nth_error fs j = Some (d', t') ->
  foff d + sizeof t <= foff d'.
Proof.
  intros size fs. induction fs as [|[d0 t0] r IH]; intros lo i j d t d' t' H Hij Hi Hj.
  - destruct i; discriminate.
  - cbn [wf_fields] in H. repeat (apply andb_prop in H; destruct H as [H ?]).
    destruct j as [|j]; [lia|]. cbn in Hj. destruct i as [|i].
    + cbn in Hi. inversion Hi; subst. destruct (wf_fields_nth _ _ _ _ _ _ H0 Hj) as (A & _). exact A.
    + cbn in Hi. apply (IH _ i j d t d' t' H0); [lia|exact Hi|exact Hj].
Qed.

(* a selector path through value structs stays inside the outer struct *)
Lemma path_inside : forall p t o u,
  wf_layout t = true -> true_offset t p = Some o -> type_at t p = Some u ->
  o + sizeof u <= sizeof t /\ wf_layout u = true.
Proof.
  induction p as [|i p IH]; intros t o u Hwf Ho Hu.
  - cbn in Ho, Hu. inversion Ho; inversion Hu; subst. split; [lia|assumption].
  - cbn [true_offset type_at] in Ho, Hu.
    destruct (nth_error (fields_of t) i) as [[d ft]|] eqn:En; [|discriminate].
    destruct (true_offset ft p) as [o'|] eqn:Eo; [|discriminate]. inversion Ho; subst.
    destruct t as [| | |n size fs]; try (destruct i; discriminate).
    cbn [fields_of] in En. rewrite wf_layout_struct in Hwf.
    destruct (wf_fields_nth _ _ _ _ _ _ Hwf En) as (_ & B & C).
    destruct (IH _ _ _ C Eo Hu) as (D & E). cbn [sizeof]. split; [lia|assumption].
Qed.

Definition prefix_related (p q : list nat) : Prop := (exists r, q = p ++ r) \/ (exists r, p = q ++ r).

(* selector paths that are not prefix-related address disjoint byte ranges *)
Lemma paths_disjoint : forall p q t o o' u u',
  wf_layout t = true ->
  true_offset t p = Some o -> type_at t p = Some u ->
  true_offset t q = Some o' -> type_at t q = Some u' ->
  ~ prefix_related p q ->
  o + sizeof u <= o' \/ o' + sizeof u' <= o.
Proof.
  induction p as [|i p IH]; intros q t o o' u u' Hwf Ho Hu Ho' Hu' Hnp.
  - exfalso. apply Hnp. left. exists q. reflexivity.
  - destruct q as [|j q]; [exfalso; apply Hnp; right; eexists; reflexivity|].
    cbn [true_offset type_at] in Ho, Hu, Ho', Hu'.
    destruct (nth_error (fields_of t) i) as [[d ft]|] eqn:En; [|discriminate].
    destruct (nth_error (fields_of t) j) as [[d' ft']|] eqn:En'; [|discriminate].
    destruct (true_offset ft p) as [a|] eqn:Ea; [|discriminate].
    destruct (true_offset ft' q) as [a'|] eqn:Ea'; [|discriminate].
    inversion Ho; inversion Ho'; subst.
    destruct t as [| | |n size fs]; try (destruct i; discriminate).
    cbn [fields_of] in En, En'. rewrite wf_layout_struct in Hwf.
    destruct (wf_fields_nth _ _ _ _ _ _ Hwf En) as (_ & _ & C).
    destruct (wf_fields_nth _ _ _ _ _ _ Hwf En') as (_ & _ & C').
    destruct (path_inside _ _ _ _ C Ea Hu) as (D & _).
    destruct (path_inside _ _ _ _ C' Ea' Hu') as (D' & _).
    destruct (Nat.lt_trichotomy i j) as [L|[E|G]].
    + pose proof (wf_fields_disjoint _ _ _ _ _ _ _ _ _ Hwf L En En'). left. lia.
    + subst j. rewrite En in En'. inversion En'; subst.
      assert (Hn : ~ prefix_related p q).
      { intros [[r Hr]|[r Hr]]; apply Hnp; [left|right]; exists r; cbn; rewrite Hr; reflexivity. }
      destruct (IH _ _ _ _ _ _ C' Ea Hu Ea' Hu' Hn); [left|right]; lia.
    + pose proof (wf_fields_disjoint _ _ _ _ _ _ _ _ _ Hwf G En' En). right. lia.
Qed.

(* ---- golayout produces well-formed layouts ------------------------------------------ *)
Lemma align_up_ge : forall x a, x <= align_up x a.
Proof.
  intros x a. unfold align_up. destruct a as [|a]; [lia|].
  pose proof (Nat.div_mod_eq (x + S a - 1) (S a)) as E.
  pose proof (Nat.mod_upper_bound (x + S a - 1) (S a)) as U.
  nia.
Qed.

Fixpoint lay_fields (fs : list (fdecl * ty)) (cur mx : nat) (lastz : bool) : list (fdecl * ty) * nat * nat * bool :=
  match fs with
  | [] => ([], cur, mx, lastz)
  | (d, t) :: r =>
      let t' := golayout t in
      let o := align_up cur (alignof t') in
      let '(r', c', m', z') := lay_fields r (o + sizeof t') (Nat.max mx (alignof t')) (Nat.eqb (sizeof t') 0) in
      ((set_off d o, t') :: r', c', m', z')
  end.

Lemma golayout_struct : forall n s fs,
  golayout (TStruct n s fs) =
  let '(fs', cur, mx, lastz) := lay_fields fs 0 1 false in
  let cur1 := if lastz && negb (Nat.eqb cur 0) then S cur else cur in
  TStruct n (align_up cur1 mx) fs'.
Proof.
  intros n s fs. reflexivity.
Qed.

Lemma lay_fields_wf : forall fs,
  Forall (fun f => wf_layout (golayout (snd f)) = true) fs ->
  forall cur mx z fs' c' m' z', lay_fields fs cur mx z = (fs', c', m', z') ->
  cur <= c' /\ forall size, c' <= size -> wf_fields size fs' cur = true.
Proof.
  intros fs HF. induction HF as [|[d t] r Ht _ IH]; intros cur mx z fs' c' m' z' E.
  - cbn in E. inversion E; subst. split; [lia|]. intros size Hs. cbn. apply Nat.leb_le. exact Hs.
  - cbn [lay_fields] in E. cbn [snd] in Ht.
    destruct (lay_fields r (align_up cur (alignof (golayout t)) + sizeof (golayout t))
                         (Nat.max mx (alignof (golayout t))) (Nat.eqb (sizeof (golayout t)) 0))
      as [[[r' c1] m1] z1] eqn:Er.
    inversion E; subst. destruct (IH _ _ _ _ _ _ _ Er) as (A & B).
    pose proof (align_up_ge cur (alignof (golayout t))) as G.
    split; [lia|]. intros size Hs. cbn [wf_fields set_off foff].
    rewrite Ht, (B size Hs). cbn [foff]. rewrite (proj2 (Nat.leb_le _ _) G). reflexivity.
Qed.

Lemma golayout_wf : forall t, wf_layout (golayout t) = true.
Proof.
  intro t. induction t as [n s al|n s al|t IH|n s fs IH] using ty_ind'; try reflexivity.
  - cbn. exact IH.
  - rewrite golayout_struct.
    destruct (lay_fields fs 0 1 false) as [[[fs' cur] mx] z] eqn:E.
    rewrite wf_layout_struct.
    destruct (lay_fields_wf fs IH _ _ _ _ _ _ _ E) as (_ & B). apply B.
    pose proof (align_up_ge (if z && negb (Nat.eqb cur 0) then S cur else cur) mx).
    destruct (z && negb (Nat.eqb cur 0)); lia.
Qed.
