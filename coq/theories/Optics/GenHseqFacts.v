(* Per-arity lemmas about the generated NewN / FMapN (coq/gen/GenHseq.v). Written once by
   tools/scripts/gen_arity_facts.py; the definitions are regenerated from hseq/hseq.go on every run. *)
From Coq Require Import List String Bool Arith.
From Golem Require Import Optics.GenPrelude.
From GolemGen Require Import GenHseq.
Import ListNotations.
Open Scope res_scope.

Lemma bind_ret : forall {A} (m : res A), (x <- m ;; Ok x) = m.
Proof. intros A m; destruct m; reflexivity. Qed.

Ltac res_crush :=
  repeat autounfold with golem_helpers; cbn;
  repeat (match goal with
          | |- context [match ?r with Ok _ => _ | Panic => _ end] => destruct r; cbn
          | |- context [bind ?r _] => destruct r; cbn
          end);
  try reflexivity.

Lemma FMap1_spec : forall (A : Type) (ts : list entry) (fa : entry -> res A),
  FMap1 ts fa =
  match ts with
  | e1 :: _ => a <- fa e1 ;; Ok a
  | _ => Panic
  end.
Proof.
  intros. unfold FMap1, idx. destruct ts as [|e1 r]; res_crush.
Qed.

Lemma New1_spec : forall (T A : ty),
  New1 T A = seq <- hseq_New T [] ;; mapM (fun X => hseq_ForType X seq) [A].
Proof.
  intros. unfold New1. destruct (hseq_New T []) as [seq|]; res_crush.
Qed.

Lemma FMap2_spec : forall (A B : Type) (ts : list entry) (fa : entry -> res A) (fb : entry -> res B),
  FMap2 ts fa fb =
  match ts with
  | e1 :: e2 :: _ => a <- fa e1 ;; b <- fb e2 ;; Ok (a, b)
  | _ => Panic
  end.
Proof.
  intros. unfold FMap2, idx. destruct ts as [|e1 [|e2 r]]; res_crush.
Qed.

Lemma New2_spec : forall (T A B : ty),
  New2 T A B = seq <- hseq_New T [] ;; mapM (fun X => hseq_ForType X seq) [A; B].
Proof.
  intros. unfold New2. destruct (hseq_New T []) as [seq|]; res_crush.
Qed.

Lemma FMap3_spec : forall (A B C : Type) (ts : list entry) (fa : entry -> res A) (fb : entry -> res B) (fc : entry -> res C),
  FMap3 ts fa fb fc =
  match ts with
  | e1 :: e2 :: e3 :: _ => a <- fa e1 ;; b <- fb e2 ;; c <- fc e3 ;; Ok (a, b, c)
  | _ => Panic
  end.
Proof.
  intros. unfold FMap3, idx. destruct ts as [|e1 [|e2 [|e3 r]]]; res_crush.
Qed.

Lemma New3_spec : forall (T A B C : ty),
  New3 T A B C = seq <- hseq_New T [] ;; mapM (fun X => hseq_ForType X seq) [A; B; C].
Proof.
  intros. unfold New3. destruct (hseq_New T []) as [seq|]; res_crush.
Qed.

Lemma FMap4_spec : forall (A B C D : Type) (ts : list entry) (fa : entry -> res A) (fb : entry -> res B) (fc : entry -> res C) (fd : entry -> res D),
  FMap4 ts fa fb fc fd =
  match ts with
  | e1 :: e2 :: e3 :: e4 :: _ => a <- fa e1 ;; b <- fb e2 ;; c <- fc e3 ;; d <- fd e4 ;; Ok (a, b, c, d)
  | _ => Panic
  end.
Proof.
  intros. unfold FMap4, idx. destruct ts as [|e1 [|e2 [|e3 [|e4 r]]]]; res_crush.
Qed.

Lemma New4_spec : forall (T A B C D : ty),
  New4 T A B C D = seq <- hseq_New T [] ;; mapM (fun X => hseq_ForType X seq) [A; B; C; D].
Proof.
  intros. unfold New4. destruct (hseq_New T []) as [seq|]; res_crush.
Qed.

Lemma FMap5_spec : forall (A B C D E : Type) (ts : list entry) (fa : entry -> res A) (fb : entry -> res B) (fc : entry -> res C) (fd : entry -> res D) (fe : entry -> res E),
  FMap5 ts fa fb fc fd fe =
  match ts with
  | e1 :: e2 :: e3 :: e4 :: e5 :: _ => a <- fa e1 ;; b <- fb e2 ;; c <- fc e3 ;; d <- fd e4 ;; e <- fe e5 ;; Ok (a, b, c, d, e)
  | _ => Panic
  end.
Proof.
  intros. unfold FMap5, idx. destruct ts as [|e1 [|e2 [|e3 [|e4 [|e5 r]]]]]; res_crush.
Qed.

Lemma New5_spec : forall (T A B C D E : ty),
  New5 T A B C D E = seq <- hseq_New T [] ;; mapM (fun X => hseq_ForType X seq) [A; B; C; D; E].
Proof.
  intros. unfold New5. destruct (hseq_New T []) as [seq|]; res_crush.
Qed.

Lemma FMap6_spec : forall (A B C D E F : Type) (ts : list entry) (fa : entry -> res A) (fb : entry -> res B) (fc : entry -> res C) (fd : entry -> res D) (fe : entry -> res E) (ff : entry -> res F),
  FMap6 ts fa fb fc fd fe ff =
  match ts with
  | e1 :: e2 :: e3 :: e4 :: e5 :: e6 :: _ => a <- fa e1 ;; b <- fb e2 ;; c <- fc e3 ;; d <- fd e4 ;; e <- fe e5 ;; f <- ff e6 ;; Ok (a, b, c, d, e, f)
  | _ => Panic
  end.
Proof.
  intros. unfold FMap6, idx. destruct ts as [|e1 [|e2 [|e3 [|e4 [|e5 [|e6 r]]]]]]; res_crush.
Qed.

Lemma New6_spec : forall (T A B C D E F : ty),
  New6 T A B C D E F = seq <- hseq_New T [] ;; mapM (fun X => hseq_ForType X seq) [A; B; C; D; E; F].
Proof.
  intros. unfold New6. destruct (hseq_New T []) as [seq|]; res_crush.
Qed.

Lemma FMap7_spec : forall (A B C D E F G : Type) (ts : list entry) (fa : entry -> res A) (fb : entry -> res B) (fc : entry -> res C) (fd : entry -> res D) (fe : entry -> res E) (ff : entry -> res F) (fg : entry -> res G),
  FMap7 ts fa fb fc fd fe ff fg =
  match ts with
  | e1 :: e2 :: e3 :: e4 :: e5 :: e6 :: e7 :: _ => a <- fa e1 ;; b <- fb e2 ;; c <- fc e3 ;; d <- fd e4 ;; e <- fe e5 ;; f <- ff e6 ;; g <- fg e7 ;; Ok (a, b, c, d, e, f, g)
  | _ => Panic
  end.
Proof.
  intros. unfold FMap7, idx. destruct ts as [|e1 [|e2 [|e3 [|e4 [|e5 [|e6 [|e7 r]]]]]]]; res_crush.
Qed.

Lemma New7_spec : forall (T A B C D E F G : ty),
  New7 T A B C D E F G = seq <- hseq_New T [] ;; mapM (fun X => hseq_ForType X seq) [A; B; C; D; E; F; G].
Proof.
  intros. unfold New7. destruct (hseq_New T []) as [seq|]; res_crush.
Qed.

Lemma FMap8_spec : forall (A B C D E F G H : Type) (ts : list entry) (fa : entry -> res A) (fb : entry -> res B) (fc : entry -> res C) (fd : entry -> res D) (fe : entry -> res E) (ff : entry -> res F) (fg : entry -> res G) (fh : entry -> res H),
  FMap8 ts fa fb fc fd fe ff fg fh =
  match ts with
  | e1 :: e2 :: e3 :: e4 :: e5 :: e6 :: e7 :: e8 :: _ => a <- fa e1 ;; b <- fb e2 ;; c <- fc e3 ;; d <- fd e4 ;; e <- fe e5 ;; f <- ff e6 ;; g <- fg e7 ;; h <- fh e8 ;; Ok (a, b, c, d, e, f, g, h)
  | _ => Panic
  end.
Proof.
  intros. unfold FMap8, idx. destruct ts as [|e1 [|e2 [|e3 [|e4 [|e5 [|e6 [|e7 [|e8 r]]]]]]]]; res_crush.
Qed.

Lemma New8_spec : forall (T A B C D E F G H : ty),
  New8 T A B C D E F G H = seq <- hseq_New T [] ;; mapM (fun X => hseq_ForType X seq) [A; B; C; D; E; F; G; H].
Proof.
  intros. unfold New8. destruct (hseq_New T []) as [seq|]; res_crush.
Qed.

Lemma FMap9_spec : forall (A B C D E F G H I : Type) (ts : list entry) (fa : entry -> res A) (fb : entry -> res B) (fc : entry -> res C) (fd : entry -> res D) (fe : entry -> res E) (ff : entry -> res F) (fg : entry -> res G) (fh : entry -> res H) (fi : entry -> res I),
  FMap9 ts fa fb fc fd fe ff fg fh fi =
  match ts with
  | e1 :: e2 :: e3 :: e4 :: e5 :: e6 :: e7 :: e8 :: e9 :: _ => a <- fa e1 ;; b <- fb e2 ;; c <- fc e3 ;; d <- fd e4 ;; e <- fe e5 ;; f <- ff e6 ;; g <- fg e7 ;; h <- fh e8 ;; i <- fi e9 ;; Ok (a, b, c, d, e, f, g, h, i)
  | _ => Panic
  end.
Proof.
  intros. unfold FMap9, idx. destruct ts as [|e1 [|e2 [|e3 [|e4 [|e5 [|e6 [|e7 [|e8 [|e9 r]]]]]]]]]; res_crush.
Qed.

Lemma New9_spec : forall (T A B C D E F G H I : ty),
  New9 T A B C D E F G H I = seq <- hseq_New T [] ;; mapM (fun X => hseq_ForType X seq) [A; B; C; D; E; F; G; H; I].
Proof.
  intros. unfold New9. destruct (hseq_New T []) as [seq|]; res_crush.
Qed.
