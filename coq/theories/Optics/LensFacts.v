(* C01 / C02: field lenses read and write exactly their field; derivation is sound or panics. *)
From Coq Require Import List String Bool Arith PeanoNat Lia ZArith.
From Golem Require Import Optics.Layout Optics.Res Optics.Hseq Optics.Mem Optics.Lens Optics.LayoutFacts Optics.HseqFacts.
Import ListNotations.

(* ---- byte arenas ---------------------------------------------------------------------- *)
Section Lists.
  Context {A : Type}.
  Implicit Types l : list A.

  Lemma firstn_app_exact : forall l1 l2, firstn (List.length l1) (l1 ++ l2) = l1.
  Proof. induction l1 as [|x l1 IH]; intro l2; cbn; [reflexivity|rewrite IH; reflexivity]. Qed.

  Lemma skipn_app_plus : forall l1 l2 k, skipn (List.length l1 + k) (l1 ++ l2) = skipn k l2.
  Proof. induction l1 as [|x l1 IH]; intros l2 k; cbn; [reflexivity|apply IH]. Qed.

  Lemma skipn_app_exact : forall l1 l2, skipn (List.length l1) (l1 ++ l2) = l2.
  Proof. intros l1 l2. rewrite <- (Nat.add_0_r (List.length l1)). rewrite skipn_app_plus. reflexivity. Qed.

  Lemma skipn_skipn' : forall l a n, skipn n (skipn a l) = skipn (a + n) l.
  Proof.
    induction l as [|x l IH]; intros a n.
    - destruct a, n; reflexivity.
    - destruct a as [|a]; [reflexivity|]. cbn. apply IH.
  Qed.

  Lemma nth_error_firstn' : forall l n i, i < n -> nth_error (firstn n l) i = nth_error l i.
  Proof.
    induction l as [|x l IH]; intros n i H; [destruct n, i; reflexivity|].
    destruct n as [|n]; [lia|]. destruct i as [|i]; [reflexivity|]. cbn. apply IH. lia.
  Qed.

  Lemma nth_error_skipn' : forall l n i, nth_error (skipn n l) i = nth_error l (n + i).
  Proof.
    induction l as [|x l IH]; intros n i; [destruct n, i; reflexivity|].
    destruct n as [|n]; [reflexivity|]. cbn. apply IH.
  Qed.
End Lists.

Lemma load_some : forall m a n v, load m a n = Some v ->
  a + n <= List.length m /\ v = firstn n (skipn a m) /\ List.length v = n.
Proof.
  intros m a n v H. unfold load in H. destruct (Nat.leb (a + n) (List.length m)) eqn:E; [|discriminate].
  apply Nat.leb_le in E. inversion H; subst. repeat split; [exact E|].
  rewrite firstn_length, skipn_length. lia.
Qed.

Lemma store_some : forall m a v m', store m a v = Some m' ->
  a + List.length v <= List.length m /\ m' = firstn a m ++ v ++ skipn (a + List.length v) m /\
  List.length (firstn a m) = a.
Proof.
  intros m a v m' H. unfold store in H. destruct (Nat.leb (a + List.length v) (List.length m)) eqn:E; [|discriminate].
  apply Nat.leb_le in E. inversion H; subst. repeat split; [exact E|]. rewrite firstn_length. lia.
Qed.

Lemma store_length : forall m a v m', store m a v = Some m' -> List.length m' = List.length m.
Proof.
  intros m a v m' H. destruct (store_some _ _ _ _ H) as (L & E & F). subst m'.
  rewrite !app_length, F, skipn_length. lia.
Qed.

(* PutGet on bytes *)
Lemma load_store_same : forall m a v m', store m a v = Some m' -> load m' a (List.length v) = Some v.
Proof.
  intros m a v m' H. pose proof (store_length _ _ _ _ H) as Hl.
  destruct (store_some _ _ _ _ H) as (L & E & F). unfold load.
  rewrite Hl, (proj2 (Nat.leb_le _ _) L). f_equal. subst m'.
  rewrite <- F at 1. rewrite skipn_app_exact. apply firstn_app_exact.
Qed.

(* a store changes no byte outside [a, a + |v|) *)
Lemma store_outside : forall m a v m', store m a v = Some m' ->
  forall i, i < a \/ a + List.length v <= i -> nth_error m' i = nth_error m i.
Proof.
  intros m a v m' H i Hi. destruct (store_some _ _ _ _ H) as (L & E & F). subst m'.
  destruct Hi as [Hi|Hi].
  - rewrite nth_error_app1 by lia. apply nth_error_firstn'. exact Hi.
  - rewrite nth_error_app2 by lia. rewrite nth_error_app2 by lia.
    rewrite nth_error_skipn'. f_equal. lia.
Qed.

Lemma nth_error_ext' : forall {A} (l1 l2 : list A), (forall i, nth_error l1 i = nth_error l2 i) -> l1 = l2.
Proof.
  intros A. induction l1 as [|x l1 IH]; intros [|y l2] H; try reflexivity.
  - specialize (H 0). discriminate.
  - specialize (H 0). discriminate.
  - pose proof (H 0) as H0. cbn in H0. inversion H0; subst. f_equal. apply IH. intro i. exact (H (S i)).
Qed.

Lemma load_store_other : forall m a v m' a' n, store m a v = Some m' ->
  a' + n <= a \/ a + List.length v <= a' -> load m' a' n = load m a' n.
Proof.
  intros m a v m' a' n H Hd. unfold load. rewrite (store_length _ _ _ _ H).
  destruct (Nat.leb (a' + n) (List.length m)); [|reflexivity]. f_equal.
  apply nth_error_ext'. intro i. destruct (Nat.lt_ge_cases i n) as [Hi|Hi].
  - rewrite !nth_error_firstn' by exact Hi. rewrite !nth_error_skipn'.
    apply (store_outside _ _ _ _ H). lia.
  - assert (G : forall l : list byte, nth_error (firstn n l) i = None).
    { intro l. apply nth_error_None. rewrite firstn_length. lia. }
    rewrite !G. reflexivity.
Qed.

(* GetPut on bytes *)
Lemma store_load_id : forall m a n v, load m a n = Some v -> store m a v = Some m.
Proof.
  intros m a n v H. destruct (load_some _ _ _ _ H) as (L & E & F). unfold store.
  rewrite F, (proj2 (Nat.leb_le _ _) L). f_equal. subst v.
  rewrite <- (skipn_skipn' m a n).
  rewrite (firstn_skipn n (skipn a m)). apply firstn_skipn.
Qed.

(* PutPut on bytes *)
Lemma store_store : forall m a v m1 v', store m a v = Some m1 -> List.length v' = List.length v ->
  store m1 a v' = store m a v'.
Proof.
  intros m a v m1 v' H Hl. pose proof (store_length _ _ _ _ H) as Hm.
  destruct (store_some _ _ _ _ H) as (L & E & F). unfold store. rewrite Hm, Hl.
  rewrite (proj2 (Nat.leb_le _ _) L). f_equal. subst m1. f_equal.
  - rewrite <- F at 1. apply firstn_app_exact.
  - f_equal. rewrite <- F at 1. rewrite skipn_app_plus.
    rewrite <- (Nat.add_0_r (List.length v)) at 1. rewrite skipn_app_plus. reflexivity.
Qed.

(* ---- C01: a field lens reads and writes exactly its field -------------------------------- *)
Definition focusable (S : ty) (e : entry) : Prop := In e (unfold S [] 0 [] true) /\ e_inline e = true.

Lemma lens_addr_true : forall S A e s toff, focusable S e -> true_offset S (e_path e) = Some toff ->
  lens_addr (mkLens S A e) s = s + toff.
Proof.
  intros S A e s toff [Hin Hinl] Ht. destruct (unfold_offset _ _ Hin Hinl) as (H & _).
  rewrite H in Ht. inversion Ht; subst. unfold lens_addr. cbn. lia.
Qed.

Lemma focusable_has_offset : forall S e, focusable S e ->
  exists toff, true_offset S (e_path e) = Some toff /\ toff = e_root e + e_off e /\ type_at S (e_path e) = Some (e_ty e).
Proof.
  intros S e [Hin Hinl]. destruct (unfold_offset _ _ Hin Hinl) as (H & H'). eexists. repeat split; eassumption.
Qed.

Lemma get_exact : forall S A e m s toff, focusable S e -> true_offset S (e_path e) = Some toff ->
  lens_get (mkLens S A e) m s = of_option (load m (s + toff) (sizeof A)).
Proof.
  intros S A e m s toff Hf Ht. unfold lens_get. rewrite (lens_addr_true _ _ _ _ _ Hf Ht). reflexivity.
Qed.

Lemma put_exact : forall S A e m s v toff p m', focusable S e -> true_offset S (e_path e) = Some toff ->
  lens_put (mkLens S A e) m s v = Ok (p, m') ->
  p = s /\
  List.length m' = List.length m /\
  load m' (s + toff) (List.length v) = Some v /\
  forall i, i < s + toff \/ s + toff + List.length v <= i -> nth_error m' i = nth_error m i.
Proof.
  intros S A e m s v toff p m' Hf Ht H. unfold lens_put in H. rewrite (lens_addr_true _ _ _ _ _ Hf Ht) in H.
  destruct (store m (s + toff) v) as [m1|] eqn:E; [|discriminate]. inversion H; subst.
  repeat split.
  - eapply store_length; eassumption.
  - eapply load_store_same; eassumption.
  - eapply store_outside; eassumption.
Qed.

Lemma put_other_fields : forall S e e' A m s v p m',
  wf_layout S = true -> focusable S e -> focusable S e' ->
  ~ prefix_related (e_path e) (e_path e') ->
  List.length v = sizeof (e_ty e) ->
  lens_put (mkLens S A e) m s v = Ok (p, m') ->
  lens_get (mkLens S (e_ty e') e') m' s = lens_get (mkLens S (e_ty e') e') m s.
Proof.
  intros S e e' A m s v p m' Hwf Hf Hf' Hnp Hlen H.
  destruct (focusable_has_offset _ _ Hf) as (o & Ho & _ & Hty).
  destruct (focusable_has_offset _ _ Hf') as (o' & Ho' & _ & Hty').
  unfold lens_put in H. rewrite (lens_addr_true _ _ _ _ _ Hf Ho) in H.
  destruct (store m (s + o) v) as [m1|] eqn:E; [|discriminate]. inversion H; subst.
  unfold lens_get. rewrite (lens_addr_true _ _ _ _ _ Hf' Ho'). cbn [l_A]. f_equal.
  apply (load_store_other _ _ _ _ _ _ E).
  destruct (paths_disjoint _ _ _ _ _ _ _ Hwf Ho Hty Ho' Hty' Hnp); lia.
Qed.

(* the three laws, for every lens whatever its address *)
Lemma lens_get_put : forall l m s v, lens_get l m s = Ok v -> lens_put l m s v = Ok (s, m).
Proof.
  intros l m s v H. unfold lens_get in H. unfold lens_put.
  destruct (load m (lens_addr l s) (sizeof (l_A l))) as [w|] eqn:E; cbn in H; [|discriminate].
  inversion H; subst. rewrite (store_load_id _ _ _ _ E). reflexivity.
Qed.

Lemma lens_put_get : forall l m s v p m', lens_put l m s v = Ok (p, m') -> List.length v = sizeof (l_A l) ->
  lens_get l m' s = Ok v.
Proof.
  intros l m s v p m' H Hl. unfold lens_put in H.
  destruct (store m (lens_addr l s) v) as [m1|] eqn:E; [|discriminate]. inversion H; subst.
  unfold lens_get. rewrite <- Hl. rewrite (load_store_same _ _ _ _ E). reflexivity.
Qed.

Lemma lens_put_put : forall l m s v v' p m1, lens_put l m s v = Ok (p, m1) -> List.length v' = List.length v ->
  lens_put l m1 s v' = lens_put l m s v'.
Proof.
  intros l m s v v' p m1 H Hl. unfold lens_put in *.
  destruct (store m (lens_addr l s) v) as [m2|] eqn:E; [|discriminate]. inversion H; subst.
  rewrite (store_store _ _ _ _ _ E Hl). reflexivity.
Qed.

(* the Reflector with a correctly typed dynamic argument is the lens *)
Lemma dyn_is_ptr_to_iff : forall S d, dyn_is_ptr_to S d = true <-> d_type d = Some (TPtr S).
Proof.
  intros S [t a]. unfold dyn_is_ptr_to. cbn. destruct t as [[| |u|]|]; split; intro H; try discriminate.
  - apply ty_eqb_eq in H. subst. reflexivity.
  - inversion H; subst. apply ty_eqb_refl.
Qed.

Lemma reflector_is_lens : forall l m s v,
  let d := mkDyn (Some (TPtr (l_S l))) (Some s) in
  lens_gett l m d = lens_get l m s /\
  lens_putt l m d v = match lens_put l m s v with Ok (_, m') => Ok (d, m') | Panic => Panic end.
Proof.
  intros l m s v d. unfold lens_gett, lens_putt.
  assert (H : dyn_is_ptr_to (l_S l) d = true) by (apply dyn_is_ptr_to_iff; reflexivity).
  rewrite H. cbn [d d_addr]. split; [reflexivity|].
  destruct (lens_put l m s v) as [[p m']|]; reflexivity.
Qed.

(* ---- C02: derivation is sound or panics ------------------------------------------------ *)
Fixpoint guard_loop (fs : list (fdecl * ty)) (base : nat) (f : entry) : bool :=
  match fs with
  | [] => false
  | (fv, fvty) :: rest =>
      if Nat.eqb base (e_root f) && Nat.eqb (foff fv) (e_off f) && String.eqb (fname fv) (e_name f) && ty_eqb fvty (e_ty f)
      then true
      else if fanon fv && match fvty with TStruct _ _ _ => inline_guard fvty (base + foff fv) f | _ => false end
      then true
      else guard_loop rest base f
  end.

Lemma inline_guard_struct : forall n s fs base f, inline_guard (TStruct n s fs) base f = guard_loop fs base f.
Proof.
  intros n s fs base f. cbn [inline_guard].
  induction fs as [|[fv fvty] rest IH]; [reflexivity|].
  cbn [guard_loop]. rewrite <- IH. reflexivity.
Qed.

Definition coincide (e' f : entry) : Prop :=
  e_root e' = e_root f /\ e_off e' = e_off f /\ e_name e' = e_name f /\ e_ty e' = e_ty f.

(* the guard accepts only what coincides with a field stored inside the struct *)
Lemma inline_guard_sound : forall cat base f path, inline_guard cat base f = true ->
  exists e', In e' (flatten cat base path true) /\ e_inline e' = true /\ coincide e' f.
Proof.
  intro cat. induction cat as [n s a|n s a|t IH|n s fs IH] using ty_ind'; intros base f path H; try discriminate.
  rewrite inline_guard_struct in H. rewrite flatten_struct. generalize 0 as i.
  induction IH as [|[fv fvty] rest Hf _ IHrest]; intro i; [discriminate|].
  cbn [guard_loop] in H. cbn [flatten_loop].
  destruct (Nat.eqb base (e_root f) && Nat.eqb (foff fv) (e_off f) && String.eqb (fname fv) (e_name f) && ty_eqb fvty (e_ty f)) eqn:C1.
  - repeat (apply andb_prop in C1; destruct C1 as [C1 ?]).
    apply Nat.eqb_eq in C1. apply Nat.eqb_eq in H2. apply String.eqb_eq in H1. apply ty_eqb_eq in H0.
    eexists. split; [left; reflexivity|]. split; [reflexivity|]. unfold coincide, mk_entry; cbn. repeat split; assumption.
  - destruct (fanon fv && match fvty with TStruct _ _ _ => inline_guard fvty (base + foff fv) f | _ => false end) eqn:C2.
    + apply andb_prop in C2. destruct C2 as [Ha Hg].
      destruct fvty as [| | |n' s' fs']; try discriminate.
      cbn [snd] in Hf. destruct (Hf _ _ (path ++ [i]) Hg) as (e' & Hin & Hinl & Hc).
      exists e'. split; [|split; assumption]. right. apply in_or_app. left.
      unfold descend. rewrite Ha. cbn [andb]. exact Hin.
    + destruct (IHrest H (S i)) as (e' & Hin & Hinl & Hc).
      exists e'. split; [|split; assumption]. right. apply in_or_app. right. exact Hin.
Qed.

(* and it accepts every field stored inside the struct *)
Lemma inline_guard_complete : forall cat base path e f,
  In e (flatten cat base path true) -> e_inline e = true -> coincide e f -> inline_guard cat base f = true.
Proof.
  intro cat. induction cat as [n s a|n s a|t IH|n s fs IH] using ty_ind'; intros base path e f Hin Hinl Hc; try (destruct Hin).
  rewrite inline_guard_struct. rewrite flatten_struct in Hin. revert Hin. generalize 0 as i.
  induction IH as [|[fv fvty] rest Hf _ IHrest]; intros i Hin; [destruct Hin|].
  cbn [flatten_loop] in Hin. cbn [guard_loop].
  destruct (Nat.eqb base (e_root f) && Nat.eqb (foff fv) (e_off f) && String.eqb (fname fv) (e_name f) && ty_eqb fvty (e_ty f)) eqn:C1; [reflexivity|].
  destruct Hin as [Hin|Hin].
  - exfalso. subst e. destruct Hc as (A & B & C & D). unfold mk_entry in *; cbn in *.
    rewrite A, B, C, D in C1. rewrite !Nat.eqb_refl, String.eqb_refl, ty_eqb_refl in C1. discriminate.
  - apply in_app_or in Hin. destruct Hin as [Hin|Hin].
    + destruct (descend fv fvty) as [[u k]|] eqn:Ed; [|destruct Hin].
      destruct (descend_cases _ _ _ _ Ed) as (Hs & [[E Ek]|[E Ek]]); subst.
      * cbn [andb] in Hin. unfold descend in Ed. destruct (fanon fv); [|discriminate].
        cbn [snd] in Hf. rewrite (Hf _ _ _ _ Hin Hinl Hc). cbn [andb].
        destruct fvty; try discriminate. reflexivity.
      * cbn [andb] in Hin. apply flatten_not_inline in Hin. congruence.
    + rewrite (IHrest (S i) Hin).
      destruct (fanon fv && match fvty with TStruct _ _ _ => inline_guard fvty (base + foff fv) f | _ => false end); reflexivity.
Qed.

Lemma new_lens_ok : forall S A e l, new_lens S A e = Ok l ->
  l = mkLens S A e /\ inline_guard S 0 e = true /\ e_ty e = A.
Proof.
  intros S A e l H. unfold new_lens in H. destruct (inline_guard S 0 e); cbn in H; [|discriminate].
  destruct (ty_eqb (e_ty e) A) eqn:E; [|discriminate]. inversion H; subst. apply ty_eqb_eq in E. repeat split. exact E.
Qed.

(* derive_sound: whatever entry NewLens / NewReflector is given, if it returns then the focus coincides with a field
   stored inside the struct, whose declared type is the requested one and whose bytes lie inside the struct *)
Lemma derive_sound : forall S A e l, new_lens S A e = Ok l \/ new_reflector S A e = Ok l ->
  l = mkLens S A e /\ e_ty e = A /\
  exists e', In e' (flatten S 0 [] true) /\ e_inline e' = true /\ coincide e' e /\
    exists toff, true_offset S (e_path e') = Some toff /\ type_at S (e_path e') = Some A /\
      (forall s, lens_addr l s = s + toff) /\
      (wf_layout S = true -> toff + sizeof A <= sizeof S).
Proof.
  intros S A e l H. assert (H' : new_lens S A e = Ok l) by (destruct H as [H|H]; exact H). clear H.
  destruct (new_lens_ok _ _ _ _ H') as (El & Hg & Ht). split; [exact El|]. split; [exact Ht|].
  destruct (inline_guard_sound _ _ _ [] Hg) as (e' & Hin & Hinl & Hc). exists e'. repeat split; try assumption;
    try (destruct Hc as (? & ? & ? & ?); assumption).
  destruct (flatten_offset S 0 [] e' Hin Hinl) as (p & o & P1 & P2 & P3 & P4 & _). cbn [app] in P1.
  destruct Hc as (C1 & C2 & C3 & C4).
  exists o. rewrite P1. repeat split.
  - exact P2.
  - rewrite P4, C4, Ht. reflexivity.
  - intro s. subst l. unfold lens_addr. cbn. lia.
  - intro Hwf. assert (Q : type_at S p = Some A) by (rewrite P4, C4, Ht; reflexivity).
    destruct (path_inside _ _ _ _ Hwf P2 Q) as (R & _). exact R.
Qed.

(* every field stored inside the struct can be focused with its own type (the guard is not vacuous) *)
Lemma derive_complete : forall S e, focusable S e -> new_lens S (e_ty e) e = Ok (mkLens S (e_ty e) e).
Proof.
  intros S e [Hin Hinl]. destruct (unfold_in_flatten _ _ Hin) as (e0 & k & A & B). subst e.
  unfold new_lens. rewrite (inline_guard_complete S 0 [] e0 (set_id e0 k) A Hinl); [|repeat split].
  cbn [negb]. rewrite ty_eqb_refl. reflexivity.
Qed.

(* derive_rejects *)
Lemma reject_wrong_type : forall S A e, e_ty e <> A -> new_lens S A e = Panic /\ new_reflector S A e = Panic.
Proof.
  intros S A e H. unfold new_lens, new_reflector. rewrite (ty_eqb_neq _ _ H).
  destruct (negb (inline_guard S 0 e)); split; reflexivity.
Qed.

Lemma reject_non_struct : forall S A e, is_struct S = false -> new_lens S A e = Panic /\ new_reflector S A e = Panic.
Proof. intros S A e H. unfold new_lens, new_reflector. destruct S; try discriminate; split; reflexivity. Qed.

Lemma reject_not_inside : forall S A e,
  (forall e', In e' (flatten S 0 [] true) -> e_inline e' = true -> ~ coincide e' e) ->
  new_lens S A e = Panic /\ new_reflector S A e = Panic.
Proof.
  intros S A e H. unfold new_lens, new_reflector. destruct (inline_guard S 0 e) eqn:E; [|split; reflexivity].
  exfalso. destruct (inline_guard_sound _ _ _ [] E) as (e' & Hin & Hinl & Hc). exact (H e' Hin Hinl Hc).
Qed.

Lemma mapM_panic : forall {A B} (f : A -> res B) l x, In x l -> f x = Panic -> mapM f l = Panic.
Proof.
  intros A B f l. induction l as [|y l IH]; intros x Hin Hf; [destruct Hin|].
  cbn [mapM]. destruct Hin as [E|Hin].
  - subst. rewrite Hf. reflexivity.
  - destruct (f y); [|reflexivity]. cbn [bind]. rewrite (IH _ Hin Hf). reflexivity.
Qed.

Lemma reject_unknown_name : forall S names n, In n names ->
  (forall y, In y (unfold (strip S) [] 0 [] true) -> e_key y <> n) -> hseq_New S names = Panic.
Proof.
  intros S names n Hin H. unfold hseq_New. destruct (strip S) eqn:E; try reflexivity.
  destruct names as [|n0 names]; [destruct Hin|].
  eapply mapM_panic; [exact Hin|]. apply (proj1 (proj2 (for_name_first _ n))). exact H.
Qed.

Lemma reject_unknown_type : forall seq A, (forall y, In y seq -> e_ty y <> A) -> hseq_ForType A seq = Panic.
Proof. intros seq A H. apply (proj2 (for_type_first seq A)). exact H. Qed.

Lemma reject_too_few : forall {A} (attr : list A) n, List.length attr < n -> slice attr 0 n = Panic.
Proof.
  intros A attr n H. unfold slice. cbn [Nat.leb]. destruct (Nat.leb n (List.length attr)) eqn:E; [|reflexivity].
  apply Nat.leb_le in E. lia.
Qed.

(* reflector_guard: anything but a pointer to the container type panics; no arena is produced *)
Lemma reflector_guard : forall l m d v, d_type d <> Some (TPtr (l_S l)) ->
  lens_gett l m d = Panic /\ lens_putt l m d v = Panic.
Proof.
  intros l m d v H. unfold lens_gett, lens_putt.
  destruct (dyn_is_ptr_to (l_S l) d) eqn:E; [|split; reflexivity].
  apply dyn_is_ptr_to_iff in E. contradiction.
Qed.
