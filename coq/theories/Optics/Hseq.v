(* hseq.go: unfolding a struct type into its heterogeneous sequence, and the lookups.
   Definitions only, no proofs.  Transcribes /repo/hseq/hseq.go (New, unfold, FieldKey,
   ForType, ForName, ForNameMaybe, FMap) line by line. *)
From Coq Require Import List String Ascii Bool Arith.
From Golem Require Export Optics.Layout Optics.Res.
Import ListNotations.

(* hseq.Type[T]: the reflect.StructField plus RootOffs, PureType, ID.
   [e_path] and [e_inline] are ghost fields (not present in the Go value): the selector path
   (field indexes, outermost first) and whether the field is reached without crossing a pointer. *)
Record entry := mkE {
  e_name : string;  e_tag : string;  e_anon : bool;  e_off : nat;  e_ty : ty;
  e_root : nat;     e_pure : ty;     e_id : nat;
  e_path : list nat;
  e_inline : bool
}.

(* strings.Split(tag, ",")[0] *)
Fixpoint tag_head (s : string) : string :=
  match s with
  | EmptyString => EmptyString
  | String c r => if Ascii.eqb c ","%char then EmptyString else String c (tag_head r)
  end.

(* func (t Type[T]) FieldKey() string *)
Definition key_of (tag name : string) : string :=
  let t := tag_head tag in if String.eqb t ""%string then name else t.
Definition e_key (e : entry) : string := key_of (e_tag e) (e_name e).

(* func unfold[T any](cat reflect.Type, seq Seq[T], offset uintptr) Seq[T] *)
Fixpoint unfold (cat : ty) (seq : list entry) (offset : nat) (path : list nat) (inl : bool) {struct cat} : list entry :=
  match cat with
  | TStruct _ _ fs =>
      (fix loop (fs : list (fdecl * ty)) (i : nat) (seq : list entry) {struct fs} : list entry :=
         match fs with
         | [] => seq                                                    (* return seq *)
         | (fv, fvty) :: rest =>
             let ft := strip fvty in                                    (* if ft.Kind()==Ptr { ft = ft.Elem() } *)
             let e := mkE (fname fv) (ftag fv) (fanon fv) (foff fv) fvty
                          offset ft (List.length seq)                       (* RootOffs, PureType, ID: len(seq) *)
                          (path ++ [i]) inl in
             let seq1 := seq ++ [e] in                                  (* both branches append the same entry *)
             let seq2 :=
               if fanon fv then                                         (* fv.Anonymous && ft.Kind()==Struct *)
                 match fvty with
                 | TStruct _ _ _ => unfold fvty seq1 (offset + foff fv) (path ++ [i]) inl
                 | TPtr u =>
                     match u with
                     | TStruct _ _ _ => unfold u seq1 (offset + foff fv) (path ++ [i]) false
                     | _ => seq1
                     end
                 | _ => seq1
                 end
               else seq1 in
             loop rest (S i) seq2
         end) fs 0 seq
  | _ => seq
  end.

(* The specification of the listing: depth-first, declaration order, an embedded struct
   (by value or by pointer) immediately followed by its own fields.  IDs are left 0 here and
   assigned by position ([number]). *)
Fixpoint flatten (cat : ty) (offset : nat) (path : list nat) (inl : bool) {struct cat} : list entry :=
  match cat with
  | TStruct _ _ fs =>
      (fix go (fs : list (fdecl * ty)) (i : nat) {struct fs} : list entry :=
         match fs with
         | [] => []
         | (fv, fvty) :: rest =>
             mkE (fname fv) (ftag fv) (fanon fv) (foff fv) fvty offset (strip fvty) 0 (path ++ [i]) inl
             :: (if fanon fv then
                   match fvty with
                   | TStruct _ _ _ => flatten fvty (offset + foff fv) (path ++ [i]) inl
                   | TPtr u =>
                       match u with
                       | TStruct _ _ _ => flatten u (offset + foff fv) (path ++ [i]) false
                       | _ => []
                       end
                   | _ => []
                   end
                 else [])
             ++ go rest (S i)
         end) fs 0
  | _ => []
  end.

Definition set_id (e : entry) (k : nat) : entry :=
  mkE (e_name e) (e_tag e) (e_anon e) (e_off e) (e_ty e) (e_root e) (e_pure e) k (e_path e) (e_inline e).

Fixpoint number (k : nat) (l : list entry) : list entry :=
  match l with [] => [] | e :: r => set_id e k :: number (S k) r end.

(* for _, f := range seq { if cond f { return f } } *)
Fixpoint first_match {A} (p : A -> bool) (l : list A) : option A :=
  match l with [] => None | x :: r => if p x then Some x else first_match p r end.

(* func ForNameMaybe[T any](seq Seq[T], field string) (Type[T], bool) *)
Definition for_name_maybe (seq : list entry) (n : string) : option entry :=
  first_match (fun f => String.eqb (e_key f) n) seq.

(* func ForName[T any](seq Seq[T], field string) Type[T]: panics on a miss *)
Definition hseq_ForName (seq : list entry) (n : string) : res entry := of_option (for_name_maybe seq n).

(* func ForType[A, T any](seq Seq[T]) Type[T]: ft.String()==val.String() && ft.AssignableTo(val); panics on a miss *)
Definition hseq_ForType (A : ty) (seq : list entry) : res entry :=
  of_option (first_match (fun f => ty_eqb (e_ty f) A) seq).

(* func New[T any](names ...string) Seq[T]
   cat := TypeOf(new(T)).Elem(); one pointer is stripped; NumField of a non-struct panics in reflect *)
Definition hseq_New (T : ty) (names : list string) : res (list entry) :=
  let cat := strip T in
  match cat with
  | TStruct _ _ _ =>
      let seq := unfold cat [] 0 [] true in
      match names with
      | [] => Ok seq
      | _ => mapM (hseq_ForName seq) names
      end
  | _ => Panic
  end.

(* func FMap[T, A any](seq Seq[T], f func(Type[T]) A) []A *)
Definition hseq_FMap {A} (seq : list entry) (f : entry -> res A) : res (list A) := mapM f seq.
