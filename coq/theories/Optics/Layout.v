(* Type descriptors, struct layout and well-formedness. Definitions only, no proofs.

   A [ty] is what reflect reports about a Go type, as a finite tree:
     TPrim   name size align            booleans, integers, floats, complex, uintptr
     TOpaque name size align            strings, slices, interfaces, arrays, maps, funcs, chans: blobs with identity
     TPtr t                             pointer to t (8 bytes, alignment 8)
     TStruct name size fields           fields = declaration order, each with its byte offset
   Type identity is structural equality of descriptors including the qualified name
   (the model's reading of `ft.String()==fv.String() && ft.AssignableTo(fv)`). *)
From Coq Require Import List String Bool Arith PeanoNat.
Import ListNotations.
Local Open Scope string_scope.

Record fdecl := mkF {
  fname : string;      (* StructField.Name *)
  ftag  : string;      (* value of the `hseq` key of the struct tag ("" when absent) *)
  fanon : bool;        (* StructField.Anonymous *)
  foff  : nat          (* StructField.Offset *)
}.

Inductive ty :=
| TPrim (name : string) (size align : nat)
| TOpaque (name : string) (size align : nat)
| TPtr (t : ty)
| TStruct (name : string) (size : nat) (fields : list (fdecl * ty)).

Definition field := (fdecl * ty)%type.
Definition fty (f : field) : ty := snd f.
Definition fd (f : field) : fdecl := fst f.

Definition ptr_size := 8.

Fixpoint alignof (t : ty) : nat :=
  match t with
  | TPrim _ _ a => a
  | TOpaque _ _ a => a
  | TPtr _ => ptr_size
  | TStruct _ _ fs =>
      (fix mx (fs : list (fdecl * ty)) : nat :=
         match fs with [] => 1 | (_, t) :: r => Nat.max (alignof t) (mx r) end) fs
  end.

Definition sizeof (t : ty) : nat :=
  match t with
  | TPrim _ s _ => s
  | TOpaque _ s _ => s
  | TPtr _ => ptr_size
  | TStruct _ s _ => s
  end.

Definition ty_name (t : ty) : string :=
  match t with
  | TPrim n _ _ => n
  | TOpaque n _ _ => n
  | TPtr u => "*" ++ (match u with TPrim n _ _ => n | TOpaque n _ _ => n | TStruct n _ _ => n | TPtr _ => "*" end)
  | TStruct n _ _ => n
  end.

(* reflect.Type.String() of a descriptor *)
Fixpoint ty_string (t : ty) : string :=
  match t with
  | TPrim n _ _ => n
  | TOpaque n _ _ => n
  | TPtr u => "*" ++ ty_string u
  | TStruct n _ _ => n
  end.

Definition is_struct (t : ty) : bool := match t with TStruct _ _ _ => true | _ => false end.
Definition is_ptr (t : ty) : bool := match t with TPtr _ => true | _ => false end.

(* `if ft.Kind() == reflect.Ptr { ft = ft.Elem() }` *)
Definition strip (t : ty) : ty := match t with TPtr u => u | _ => t end.

Definition fields_of (t : ty) : list field := match t with TStruct _ _ fs => fs | _ => [] end.

Definition fdecl_eqb (a b : fdecl) : bool :=
  String.eqb (fname a) (fname b) && String.eqb (ftag a) (ftag b) &&
  Bool.eqb (fanon a) (fanon b) && Nat.eqb (foff a) (foff b).

Fixpoint ty_eqb (a b : ty) {struct a} : bool :=
  match a, b with
  | TPrim n s al, TPrim n' s' al' => String.eqb n n' && Nat.eqb s s' && Nat.eqb al al'
  | TOpaque n s al, TOpaque n' s' al' => String.eqb n n' && Nat.eqb s s' && Nat.eqb al al'
  | TPtr u, TPtr u' => ty_eqb u u'
  | TStruct n s fs, TStruct n' s' fs' =>
      String.eqb n n' && Nat.eqb s s' &&
      (fix go (fs : list (fdecl * ty)) (fs' : list (fdecl * ty)) : bool :=
         match fs, fs' with
         | [], [] => true
         | (d, t) :: r, (d', t') :: r' => fdecl_eqb d d' && ty_eqb t t' && go r r'
         | _, _ => false
         end) fs fs'
  | _, _ => false
  end.

(* ------------------------------------------------------------------------------
   well-formed layouts: every field lies inside the struct, fields are in offset
   order and do not overlap, recursively (also below pointers).
   ------------------------------------------------------------------------------ *)
Fixpoint wf_layout (t : ty) : bool :=
  match t with
  | TPrim _ _ _ => true
  | TOpaque _ _ _ => true
  | TPtr u => wf_layout u
  | TStruct _ size fs =>
      (fix go (fs : list (fdecl * ty)) (lo : nat) : bool :=
         match fs with
         | [] => Nat.leb lo size
         | (d, t) :: r => Nat.leb lo (foff d) && wf_layout t && go r (foff d + sizeof t)
         end) fs 0
  end.

(* ------------------------------------------------------------------------------
   golayout: the gc compiler's layout rules (cmd/compile/internal/types/size.go):
   each field at the next multiple of its alignment, struct alignment = max field
   alignment, one byte of padding when a non-empty struct ends in a zero-size
   field, size rounded up to the alignment.  [golayout t] recomputes every
   offset and struct size of [t] from the field types alone.
   ------------------------------------------------------------------------------ *)
Definition align_up (x a : nat) : nat :=
  match a with 0 => x | _ => ((x + a - 1) / a) * a end.

Definition set_off (d : fdecl) (o : nat) : fdecl := mkF (fname d) (ftag d) (fanon d) o.

Fixpoint golayout (t : ty) : ty :=
  match t with
  | TPrim _ _ _ => t
  | TOpaque _ _ _ => t
  | TPtr u => TPtr (golayout u)
  | TStruct n _ fs =>
      let '(fs', cur, mx, lastz) :=
        (fix go (fs : list (fdecl * ty)) (cur mx : nat) (lastz : bool) : list (fdecl * ty) * nat * nat * bool :=
           match fs with
           | [] => ([], cur, mx, lastz)
           | (d, t) :: r =>
               let t' := golayout t in
               let o := align_up cur (alignof t') in
               let '(r', c', m', z') := go r (o + sizeof t') (Nat.max mx (alignof t')) (Nat.eqb (sizeof t') 0) in
               ((set_off d o, t') :: r', c', m', z')
           end) fs 0 1 false in
      let cur1 := if lastz && negb (Nat.eqb cur 0) then S cur else cur in
      TStruct n (align_up cur1 mx) fs'
  end.

(* ------------------------------------------------------------------------------
   The compiler's address of a selector path: indexes of fields, outermost first
   (reflect's StructField.Index chain; `s.a.b.c` = sum of the field offsets).
   ------------------------------------------------------------------------------ *)
Fixpoint true_offset (t : ty) (path : list nat) {struct path} : option nat :=
  match path with
  | [] => Some 0
  | i :: p =>
      match nth_error (fields_of t) i with
      | Some (d, ft) => match true_offset ft p with Some o => Some (foff d + o) | None => None end
      | None => None
      end
  end.

(* the declared type of the field a selector path ends in *)
Fixpoint type_at (t : ty) (path : list nat) {struct path} : option ty :=
  match path with
  | [] => Some t
  | i :: p =>
      match nth_error (fields_of t) i with
      | Some (_, ft) => type_at ft p
      | None => None
      end
  end.
