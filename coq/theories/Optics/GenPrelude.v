(* The hand-written prelude the translator tools/go2coq (modes hseq, optics, shape) targets.
   Naming convention: hseq.X (not itself translated) -> hseq_X;  NewLens / NewReflector keep their
   names;  ts[i] -> idx ts i;  a[lo:hi] -> slice a lo hi;  len -> List.length;
   l.Put(s, a) / l.Get(s) on a Lens value -> lens_Put l s a / lens_Get l s (state + poison monad).
   Definitions only. *)
From Coq Require Import List String Bool Arith.
From Golem Require Export Optics.Combinators.
Import ListNotations.

Definition ptr := nat.

(* Lens[S, A] values are optics; NewLens builds a field lens *)
Definition NewLens (S A : ty) (t : entry) : res optic := rmap Field (new_lens S A t).
(* Reflector[A] values are the same struct seen through Gett/Putt *)
Definition NewReflector (S A : ty) (t : entry) : res lens := new_reflector S A t.

(* methods that touch memory: state (the arena) + poison *)
Definition M (A : Type) : Type := mem -> res (A * mem).
Definition retM {A} (a : A) : M A := fun m => Ok (a, m).
Definition bindM {A B} (x : M A) (k : A -> M B) : M B :=
  fun m => match x m with Ok (a, m') => k a m' | Panic => Panic end.
Notation "x <~ e ;; k" := (bindM e (fun x => k)) (at level 61, e at next level, right associativity) : res_scope.

Definition lens_Put (o : optic) (s : ptr) (a : value) : M ptr :=
  fun m => match oput o m s a with Ok m' => Ok (s, m') | Panic => Panic end.
Definition lens_Get (o : optic) (s : ptr) : M value :=
  fun m => match oget o m s with Ok v => Ok (v, m) | Panic => Panic end.
