(* C04: positional optics (windows), the full frame of Join, the N-fold consequence of a sequence of component puts
   (shapeN.Put) and the round trip of a morphism over any list of isos. *)
From Coq Require Import List String Bool Arith PeanoNat Lia ZArith.
From Golem Require Import Optics.Layout Optics.Res Optics.Hseq Optics.Mem Optics.Lens Optics.Combinators
  Optics.LayoutFacts Optics.HseqFacts Optics.LensFacts Optics.CombFacts.
Import ListNotations.
Open Scope res_scope.

(* ---- bytes ---------------------------------------------------------------------------------- *)
Lemma load_nth : forall m a n v, load m a n = Some v -> forall j, j < n -> nth_error v j = nth_error m (a + j).
Proof.
  intros m a n v H j Hj. destruct (load_some _ _ _ _ H) as (_ & E & _). subst v.
  rewrite nth_error_firstn' by exact Hj. apply nth_error_skipn'.
Qed.

Lemma load_ext : forall m a n v, a + n <= List.length m -> List.length v = n ->
  (forall j, j < n -> nth_error v j = nth_error m (a + j)) -> load m a n = Some v.
Proof.
  intros m a n v Hb Hl H. unfold load. rewrite (proj2 (Nat.leb_le _ _) Hb). f_equal. apply nth_error_ext'. intro j.
  destruct (Nat.lt_ge_cases j n) as [Hj|Hj].
  - rewrite nth_error_firstn' by exact Hj. rewrite nth_error_skipn'. symmetry. apply H. exact Hj.
  - transitivity (@None byte); [|symmetry]; apply nth_error_None; [rewrite firstn_length; lia|lia].
Qed.

Lemma store_nth_inside : forall m a v m', store m a v = Some m' ->
  forall j, j < List.length v -> nth_error m' (a + j) = nth_error v j.
Proof.
  intros m a v m' H j Hj. destruct (store_some _ _ _ _ H) as (L & E & F). subst m'.
  rewrite nth_error_app2 by (rewrite F; lia). rewrite F.
  replace (a + j - a) with j by lia. apply nth_error_app1. exact Hj.
Qed.

Lemma store_ext : forall m a v m', a + List.length v <= List.length m -> List.length m' = List.length m ->
  (forall j, j < List.length v -> nth_error m' (a + j) = nth_error v j) ->
  (forall i, i < a \/ a + List.length v <= i -> nth_error m' i = nth_error m i) ->
  store m a v = Some m'.
Proof.
  intros m a v m' Hb Hl Hin Hout. unfold store. rewrite (proj2 (Nat.leb_le _ _) Hb). f_equal. symmetry.
  apply nth_error_ext'. intro i.
  assert (F : List.length (firstn a m) = a) by (rewrite firstn_length; lia).
  destruct (Nat.lt_ge_cases i a) as [Hi|Hi].
  - rewrite nth_error_app1 by lia. rewrite nth_error_firstn' by exact Hi. apply Hout. left. exact Hi.
  - rewrite nth_error_app2 by lia. rewrite F. destruct (Nat.lt_ge_cases (i - a) (List.length v)) as [Hj|Hj].
    + rewrite nth_error_app1 by exact Hj. rewrite <- (Hin (i - a) Hj). f_equal. lia.
    + rewrite nth_error_app2 by exact Hj. rewrite nth_error_skipn'. rewrite Hout by lia. f_equal. lia.
Qed.

(* ---- positional optics ------------------------------------------------------------------------
   [window o off n]: o reads and writes exactly the n bytes at offset off of the structure (whenever it returns), and
   whether its Get returns depends on the size of the arena only.  Field lenses are windows and so is every Join of
   windows (any nesting depth); a converting optic (BiMap ...) is not: its values have no position in the arena. *)
Record window (o : optic) (off n : nat) : Prop := mkWindow {
  w_get : forall m s v, oget o m s = Ok v -> load m (s + off) n = Some v;
  w_put : forall m s x m', List.length x = n -> oput o m s x = Ok m' -> store m (s + off) x = Some m';
  w_dom : forall m1 m2 s, List.length m1 = List.length m2 -> oget o m1 s = Panic -> oget o m2 s = Panic
}.

Lemma window_field : forall l, window (Field l) (e_off (l_t l) + e_root (l_t l)) (sizeof (l_A l)).
Proof.
  intro l. constructor.
  - intros m s v H. cbn [oget] in H. unfold lens_get, lens_addr in H. rewrite <- Nat.add_assoc in H.
    destruct (load m (s + (e_off (l_t l) + e_root (l_t l))) (sizeof (l_A l))) as [w|]; cbn in H; [|discriminate].
    inversion H; subst. reflexivity.
  - intros m s x m' Hx H. cbn [oput] in H. unfold lens_put, lens_addr in H. rewrite <- Nat.add_assoc in H.
    destruct (store m (s + (e_off (l_t l) + e_root (l_t l))) x) as [m1|]; cbn in H; [|discriminate].
    inversion H; subst. reflexivity.
  - intros m1 m2 s Hl H. cbn [oget] in *. unfold lens_get, load in *. rewrite <- Hl.
    destruct (Nat.leb (lens_addr l s + sizeof (l_A l)) (List.length m1)); cbn in *; [discriminate|reflexivity].
Qed.

Lemma window_join : forall a b offA nA offB nB, window a offA nA -> window b offB nB -> window (Join a b) (offA + offB) nB.
Proof.
  intros a b offA nA offB nB Wa Wb. constructor.
  - intros m s v H. cbn [oget] in H. destruct (oget a m s) as [va|] eqn:Ea; cbn [bind] in H; [|discriminate].
    pose proof (w_get _ _ _ Wa _ _ _ Ea) as La. pose proof (w_get _ _ _ Wb _ _ _ H) as Lb. cbn [Nat.add] in Lb.
    destruct (load_some _ _ _ _ La) as (BA & _ & LA). destruct (load_some _ _ _ _ Lb) as (BB & _ & LB).
    apply load_ext; [lia|exact LB|]. intros j Hj.
    rewrite (load_nth _ _ _ _ Lb j Hj). rewrite (load_nth _ _ _ _ La (offB + j)) by lia. f_equal. lia.
  - intros m s x m' Hx H. cbn [oput] in H.
    destruct (oget a m s) as [va|] eqn:Ea; cbn [bind] in H; [|discriminate].
    destruct (oput b va 0 x) as [va'|] eqn:Eb; cbn [bind] in H; [|discriminate].
    pose proof (w_get _ _ _ Wa _ _ _ Ea) as La. destruct (load_some _ _ _ _ La) as (BA & _ & LA).
    pose proof (w_put _ _ _ Wb _ _ _ _ Hx Eb) as Sb. cbn [Nat.add] in Sb.
    destruct (store_some _ _ _ _ Sb) as (BB & _ & _).
    pose proof (store_length _ _ _ _ Sb) as LB.
    assert (Sa : store m (s + offA) va' = Some m') by (apply (w_put _ _ _ Wa); [congruence|exact H]).
    apply store_ext.
    + lia.
    + exact (store_length _ _ _ _ Sa).
    + intros j Hj. replace (s + (offA + offB) + j) with (s + offA + (offB + j)) by lia.
      rewrite (store_nth_inside _ _ _ _ Sa) by lia. exact (store_nth_inside _ _ _ _ Sb j Hj).
    + intros i Hi.
      destruct (Nat.lt_ge_cases i (s + offA)) as [H1|H1]; [apply (store_outside _ _ _ _ Sa); lia|].
      destruct (Nat.lt_ge_cases i (s + offA + nA)) as [H2|H2]; [|apply (store_outside _ _ _ _ Sa); lia].
      replace i with (s + offA + (i - (s + offA))) by lia.
      rewrite (store_nth_inside _ _ _ _ Sa) by lia.
      rewrite (store_outside _ _ _ _ Sb) by lia.
      apply (load_nth _ _ _ _ La). lia.
  - intros m1 m2 s Hl H. cbn [oget] in *.
    destruct (oget a m1 s) as [va1|] eqn:E1; destruct (oget a m2 s) as [va2|] eqn:E2; cbn [bind] in *; try reflexivity.
    + destruct (load_some _ _ _ _ (w_get _ _ _ Wa _ _ _ E1)) as (_ & _ & L1).
      destruct (load_some _ _ _ _ (w_get _ _ _ Wa _ _ _ E2)) as (_ & _ & L2).
      apply (w_dom _ _ _ Wb va1 va2 0); [congruence|exact H].
    + pose proof (w_dom _ _ _ Wa _ _ s Hl E1) as E. congruence.
Qed.

(* ---- frames and foci ---------------------------------------------------------------------------- *)
Definition shift (off : nat) (fp : list (nat * nat)) : list (nat * nat) := map (fun r => (off + fst r, snd r)) fp.

Definition inside (fp : list (nat * nat)) (s i : nat) : Prop :=
  exists r, In r fp /\ s + fst r <= i < s + fst r + snd r.

(* Get depends on the bytes of the focus (and the size of the arena) only *)
Definition reads_only (o : optic) (fp : list (nat * nat)) : Prop :=
  forall m1 m2 s, List.length m1 = List.length m2 -> (forall i, inside fp s i -> nth_error m1 i = nth_error m2 i) ->
    oget o m1 s = oget o m2 s.

(* an optic on values of n bytes with focus fp: the three laws, writes inside fp only, reads fp only *)
Record focused (o : optic) (n : nat) (fp : list (nat * nat)) : Prop := mkFocused {
  f_lawful : lawful o n;
  f_framed : framed o n fp;
  f_reads : reads_only o fp
}.

(* two foci share no byte *)
Definition disjoint_fp (fp1 fp2 : list (nat * nat)) : Prop := forall i, inside fp1 0 i -> inside fp2 0 i -> False.

Definition disjointb (fp1 fp2 : list (nat * nat)) : bool :=
  forallb (fun r1 => forallb (fun r2 => Nat.leb (fst r1 + snd r1) (fst r2) || Nat.leb (fst r2 + snd r2) (fst r1)) fp2) fp1.

Lemma disjointb_sound : forall fp1 fp2, disjointb fp1 fp2 = true -> disjoint_fp fp1 fp2.
Proof.
  intros fp1 fp2 H i (r1 & I1 & B1) (r2 & I2 & B2). unfold disjointb in H.
  rewrite forallb_forall in H. specialize (H _ I1). rewrite forallb_forall in H. specialize (H _ I2).
  apply orb_true_iff in H. destruct H as [H|H]; apply Nat.leb_le in H; lia.
Qed.

Lemma disjoint_fp_sym : forall fp1 fp2, disjoint_fp fp1 fp2 -> disjoint_fp fp2 fp1.
Proof. intros fp1 fp2 H i A B. exact (H i B A). Qed.

Lemma inside_disjoint_outside : forall fp1 fp2 s i, disjoint_fp fp1 fp2 -> inside fp1 s i -> outside fp2 s i.
Proof.
  intros fp1 fp2 s i D (r1 & I1 & B1) r2 I2.
  destruct (Nat.lt_ge_cases i (s + fst r2)) as [H1|H1]; [left; exact H1|].
  destruct (Nat.lt_ge_cases i (s + fst r2 + snd r2)) as [H2|H2]; [|right; exact H2].
  exfalso. apply (D (i - s)); [exists r1|exists r2]; (split; [assumption|lia]).
Qed.

Lemma outside_app : forall fp1 fp2 s i, outside (fp1 ++ fp2) s i <-> outside fp1 s i /\ outside fp2 s i.
Proof.
  intros fp1 fp2 s i. unfold outside. split.
  - intro H. split; intros r Hr; apply H; apply in_or_app; [left|right]; exact Hr.
  - intros [H1 H2] r Hr. apply in_app_or in Hr. destruct Hr as [Hr|Hr]; [apply H1|apply H2]; exact Hr.
Qed.

(* a window is framed by, and reads only, its n bytes *)
Lemma window_framed : forall o off n, window o off n -> framed o n [(off, n)].
Proof.
  intros o off n W m s x m' Hx H i Hi. apply (store_outside _ _ _ _ (w_put _ _ _ W _ _ _ _ Hx H)).
  specialize (Hi _ (or_introl eq_refl)). cbn [fst snd] in Hi. lia.
Qed.

Lemma window_reads : forall o off n, window o off n -> reads_only o [(off, n)].
Proof.
  intros o off n W m1 m2 s Hl H.
  destruct (oget o m1 s) as [v1|] eqn:E1; [|symmetry; exact (w_dom _ _ _ W _ _ s Hl E1)].
  destruct (oget o m2 s) as [v2|] eqn:E2; [|pose proof (w_dom _ _ _ W _ _ s (eq_sym Hl) E2); congruence].
  pose proof (w_get _ _ _ W _ _ _ E1) as L1. pose proof (w_get _ _ _ W _ _ _ E2) as L2.
  destruct (load_some _ _ _ _ L1) as (_ & _ & N1). destruct (load_some _ _ _ _ L2) as (_ & _ & N2).
  f_equal. apply nth_error_ext'. intro j. destruct (Nat.lt_ge_cases j n) as [Hj|Hj].
  - rewrite (load_nth _ _ _ _ L1 j Hj), (load_nth _ _ _ _ L2 j Hj). apply H.
    exists (off, n). split; [left; reflexivity|]. cbn [fst snd]. lia.
  - transitivity (@None byte); [|symmetry]; apply nth_error_None; lia.
Qed.

Lemma window_focused : forall o off n, window o off n -> lawful o n -> focused o n [(off, n)].
Proof. intros o off n W L. constructor; [exact L|exact (window_framed _ _ _ W)|exact (window_reads _ _ _ W)]. Qed.

Lemma field_focused : forall l, focused (Field l) (sizeof (l_A l)) [(e_off (l_t l) + e_root (l_t l), sizeof (l_A l))].
Proof. intro l. apply window_focused; [apply window_field|apply field_lawful]. Qed.

(* join_frame in full: through Join a b, with a positional, a Put changes no byte of the arena outside the inner focus
   (the footprint of b moved to where a's value lies) - so inside the outer focus only the inner focus changes *)
Lemma join_frame : forall a b offA nA nB fpB, window a offA nA -> framed b nB fpB ->
  framed (Join a b) nB (shift offA fpB).
Proof.
  intros a b offA nA nB fpB Wa Fb m s x m' Hx H i Hi. cbn [oput] in H.
  destruct (oget a m s) as [va|] eqn:Ea; cbn [bind] in H; [|discriminate].
  destruct (oput b va 0 x) as [va'|] eqn:Eb; cbn [bind] in H; [|discriminate].
  pose proof (w_get _ _ _ Wa _ _ _ Ea) as La. destruct (load_some _ _ _ _ La) as (_ & _ & LA).
  pose proof (oput_length _ _ _ _ _ Eb) as LB.
  assert (Sa : store m (s + offA) va' = Some m') by (apply (w_put _ _ _ Wa); [congruence|exact H]).
  destruct (Nat.lt_ge_cases i (s + offA)) as [H1|H1]; [apply (store_outside _ _ _ _ Sa); lia|].
  destruct (Nat.lt_ge_cases i (s + offA + nA)) as [H2|H2]; [|apply (store_outside _ _ _ _ Sa); lia].
  replace i with (s + offA + (i - (s + offA))) by lia.
  rewrite (store_nth_inside _ _ _ _ Sa) by lia. rewrite <- (load_nth _ _ _ _ La) by lia.
  apply (Fb va 0 x va' Hx Eb). intros r Hr.
  specialize (Hi (offA + fst r, snd r) (in_map (fun r => (offA + fst r, snd r)) _ _ Hr)). cbn [fst snd] in Hi. lia.
Qed.

Lemma join_reads : forall a b offA nA fpB, window a offA nA -> reads_only b fpB -> reads_only (Join a b) (shift offA fpB).
Proof.
  intros a b offA nA fpB Wa Rb m1 m2 s Hl H. cbn [oget].
  destruct (oget a m1 s) as [va1|] eqn:E1; [|rewrite (w_dom _ _ _ Wa _ _ s Hl E1); reflexivity].
  destruct (oget a m2 s) as [va2|] eqn:E2; [|pose proof (w_dom _ _ _ Wa _ _ s (eq_sym Hl) E2); congruence].
  cbn [bind].
  pose proof (w_get _ _ _ Wa _ _ _ E1) as L1. pose proof (w_get _ _ _ Wa _ _ _ E2) as L2.
  destruct (load_some _ _ _ _ L1) as (_ & _ & N1). destruct (load_some _ _ _ _ L2) as (_ & _ & N2).
  apply Rb; [congruence|]. intros j (r & Hr & Hj).
  destruct (Nat.lt_ge_cases j nA) as [Hn|Hn].
  - rewrite (load_nth _ _ _ _ L1 j Hn), (load_nth _ _ _ _ L2 j Hn). apply H.
    exists (offA + fst r, snd r). split; [exact (in_map (fun r => (offA + fst r, snd r)) _ _ Hr)|]. cbn [fst snd]. lia.
  - transitivity (@None byte); [|symmetry]; apply nth_error_None; lia.
Qed.

Lemma join_focused : forall a b offA nA nB fpB, window a offA nA -> lawful a nA -> focused b nB fpB ->
  focused (Join a b) nB (shift offA fpB).
Proof.
  intros a b offA nA nB fpB Wa La Fb. constructor.
  - exact (join_lawful _ _ _ _ La (f_lawful _ _ _ Fb)).
  - exact (join_frame _ _ _ _ _ _ Wa (f_framed _ _ _ Fb)).
  - exact (join_reads _ _ _ _ _ Wa (f_reads _ _ _ Fb)).
Qed.

Lemma bimap_focused : forall o f g nA nB fp, focused o nA fp ->
  (forall a, List.length a = nA -> g (f a) = a /\ List.length (f a) = nB) ->
  (forall b, List.length b = nB -> f (g b) = b /\ List.length (g b) = nA) ->
  focused (BiMap o f g) nB fp.
Proof.
  intros o f g nA nB fp F Hgf Hfg. constructor.
  - exact (bimap_lawful _ _ _ _ _ (f_lawful _ _ _ F) Hgf Hfg).
  - exact (bimap_framed _ _ _ _ _ _ (fun b Hb => proj2 (Hfg b Hb)) (f_framed _ _ _ F)).
  - intros m1 m2 s Hl H. cbn [oget]. rewrite (f_reads _ _ _ F m1 m2 s Hl H). reflexivity.
Qed.

(* ---- Join chains of field lenses: the computed footprint is the frame ----------------------------- *)
Fixpoint is_chain (o : optic) : bool :=
  match o with Field _ => true | Join a b => is_chain a && is_chain b | _ => false end.
Fixpoint chain_off (o : optic) : nat :=
  match o with Field l => e_off (l_t l) + e_root (l_t l) | Join a b => chain_off a + chain_off b | _ => 0 end.
Fixpoint chain_size (o : optic) : nat :=
  match o with Field l => sizeof (l_A l) | Join a b => chain_size b | _ => 0 end.

Lemma chain_window : forall o, is_chain o = true ->
  window o (chain_off o) (chain_size o) /\ lawful o (chain_size o) /\ footprint o = [(chain_off o, chain_size o)].
Proof.
  induction o as [l|a IHa b IHb|o IH f g|o IH f|o IH g z]; intro H; try discriminate.
  - cbn [chain_off chain_size footprint]. split; [apply window_field|]. split; [apply field_lawful|reflexivity].
  - cbn [is_chain] in H. apply andb_prop in H. destruct H as [Ha Hb].
    destruct (IHa Ha) as (Wa & La & Fa). destruct (IHb Hb) as (Wb & Lb & Fb).
    cbn [chain_off chain_size footprint]. split; [exact (window_join _ _ _ _ _ _ Wa Wb)|].
    split; [exact (join_lawful _ _ _ _ La Lb)|]. rewrite Fa, Fb. reflexivity.
Qed.

Lemma chain_framed : forall o, is_chain o = true -> framed o (chain_size o) (footprint o).
Proof.
  intros o H. destruct (chain_window o H) as (W & _ & F). rewrite F. exact (window_framed _ _ _ W).
Qed.

Lemma chain_focused : forall o, is_chain o = true -> focused o (chain_size o) (footprint o).
Proof.
  intros o H. destruct (chain_window o H) as (W & L & F). rewrite F. exact (window_focused _ _ _ W L).
Qed.

(* the footprint computed for Join a b, a a chain, is the inner footprint moved to a's offset *)
Lemma footprint_join_chain : forall a b, is_chain a = true -> footprint (Join a b) = shift (chain_off a) (footprint b).
Proof.
  intros a b H. destruct (chain_window a H) as (_ & _ & F). cbn [footprint]. rewrite F. cbn [flat_map fst].
  apply app_nil_r.
Qed.

(* ---- a sequence of component puts (shapeN.Put): last component first ---------------------------------- *)
Fixpoint puts (cs : list (optic * value)) (m : mem) (s : nat) : res mem :=
  match cs with
  | [] => Ok m
  | (o, x) :: r => m1 <- puts r m s ;; oput o m1 s x
  end.

(* a component: its lens, the size of its values, its focus, the argument given for it *)
Record comp := mkComp { c_o : optic; c_n : nat; c_fp : list (nat * nat); c_x : value }.
Definition comp_ok (c : comp) : Prop := focused (c_o c) (c_n c) (c_fp c) /\ List.length (c_x c) = c_n c.
Definition comp_arg (c : comp) : optic * value := (c_o c, c_x c).

Lemma FOP_map : forall {A B} (f : A -> B) (R : B -> B -> Prop) l,
  ForallOrdPairs R (map f l) -> ForallOrdPairs (fun x y => R (f x) (f y)) l.
Proof.
  intros A B f R l. induction l as [|x l IH]; intro H; [constructor|].
  cbn [map] in H. inversion H as [|y l' Hx Hl]; subst. constructor; [|apply IH; exact Hl].
  apply Forall_forall. intros z Hz. rewrite Forall_forall in Hx. apply Hx. apply in_map. exact Hz.
Qed.

(* with pairwise disjoint component foci: every component reads back its own argument and no byte outside the union
   of the foci changes *)
Lemma puts_spec : forall cs m s m', Forall comp_ok cs ->
  ForallOrdPairs (fun c1 c2 => disjoint_fp (c_fp c1) (c_fp c2)) cs ->
  puts (map comp_arg cs) m s = Ok m' ->
  List.length m' = List.length m /\
  Forall (fun c => oget (c_o c) m' s = Ok (c_x c)) cs /\
  (forall i, outside (flat_map c_fp cs) s i -> nth_error m' i = nth_error m i).
Proof.
  induction cs as [|c r IH]; intros m s m' Hok Hd H.
  - cbn in H. inversion H; subst. split; [reflexivity|]. split; [constructor|]. intros; reflexivity.
  - cbn [map puts comp_arg] in H. fold comp_arg in H.
    destruct (puts (map comp_arg r) m s) as [m1|] eqn:E; cbn [bind] in H; [|discriminate].
    inversion Hok as [|c0 r0 Hc Hr]; subst. inversion Hd as [|c0 r0 Dc Dr]; subst.
    destruct (IH _ _ _ Hr Dr E) as (L1 & G1 & F1). destruct Hc as (Fc & Lc).
    pose proof (oput_length _ _ _ _ _ H) as L2.
    split; [congruence|]. split.
    + constructor; [exact (put_get _ _ (f_lawful _ _ _ Fc) _ _ _ _ Lc H)|].
      rewrite Forall_forall in *. intros c' Hc'. rewrite <- (G1 c' Hc').
      destruct (Hr c' Hc') as (Fc' & _). apply (f_reads _ _ _ Fc'); [exact L2|].
      intros i Hi. apply (f_framed _ _ _ Fc _ _ _ _ Lc H).
      apply (inside_disjoint_outside (c_fp c') (c_fp c)); [apply disjoint_fp_sym; exact (Dc c' Hc')|exact Hi].
    + intros i Hi. cbn [flat_map] in Hi. apply outside_app in Hi. destruct Hi as [Hi1 Hi2].
      rewrite (f_framed _ _ _ Fc _ _ _ _ Lc H i Hi1). exact (F1 i Hi2).
Qed.

(* ---- morphisms: any list of isos, nil entries skipped, entries may repeat ---------------------------- *)
Definition isos (seq : list (option iso)) : list iso :=
  flat_map (fun x => match x with Some i => [i] | None => [] end) seq.

(* the isos that follow keep what iso i has put into the target, when each of them is i itself or has a target focus
   disjoint from that of i *)
Lemma forward_keeps : forall (nof : iso -> nat) (tfp : iso -> list (nat * nat)) i a r w w1,
  lawful (i_ta i) (nof i) -> reads_only (i_ta i) (tfp i) ->
  (forall j, In (Some j) r ->
     lawful (i_sa j) (nof j) /\ framed (i_ta j) (nof j) (tfp j) /\ (i = j \/ disjoint_fp (tfp i) (tfp j))) ->
  oget (i_sa i) (ms w) (ps w) = Ok a -> oget (i_ta i) (mt w) (pt w) = Ok a ->
  morphism_forward r w = Ok w1 ->
  oget (i_ta i) (mt w1) (pt w) = Ok a.
Proof.
  intros nof tfp i a r. induction r as [|[j|] r IH]; intros w w1 Lt Rt Hr Hs Ht H.
  - cbn in H. inversion H; subst. exact Ht.
  - cbn [morphism_forward] in H. destruct (iso_forward j w) as [w'|] eqn:Ej; cbn [bind] in H; [|discriminate].
    unfold iso_forward in Ej.
    destruct (oget (i_sa j) (ms w) (ps w)) as [aj|] eqn:Ea; cbn [bind] in Ej; [|discriminate].
    destruct (oput (i_ta j) (mt w) (pt w) aj) as [mt'|] eqn:Ep; cbn [bind] in Ej; [|discriminate].
    inversion Ej; subst w'. clear Ej.
    destruct (Hr j (or_introl eq_refl)) as (Lsj & Fj & C).
    assert (Ht' : oget (i_ta i) mt' (pt w) = Ok a).
    { destruct C as [C|C].
      - subst j. assert (aj = a) by congruence. subst aj.
        rewrite (get_put _ _ Lt _ _ _ Ht) in Ep. inversion Ep; subst. exact Ht.
      - rewrite <- Ht. apply Rt; [exact (oput_length _ _ _ _ _ Ep)|].
        intros k Hk. apply (Fj _ _ _ _ (get_len _ _ Lsj _ _ _ Ea) Ep).
        exact (inside_disjoint_outside _ _ _ _ C Hk). }
    apply (IH (mkTwo (ms w) (ps w) mt' (pt w)) w1 Lt Rt); cbn [ms ps mt pt]; try assumption.
    intros j' Hj'. apply Hr. right. exact Hj'.
  - cbn [morphism_forward] in H. apply (IH w w1 Lt Rt); try assumption.
    intros j' Hj'. apply Hr. right. exact Hj'.
Qed.

Lemma forward_spec : forall (nof : iso -> nat) (tfp : iso -> list (nat * nat)) seq,
  (forall i, In (Some i) seq -> lawful (i_sa i) (nof i) /\ focused (i_ta i) (nof i) (tfp i)) ->
  (forall i j, In (Some i) seq -> In (Some j) seq -> i = j \/ disjoint_fp (tfp i) (tfp j)) ->
  forall w w1, morphism_forward seq w = Ok w1 ->
  ms w1 = ms w /\ ps w1 = ps w /\ pt w1 = pt w /\ List.length (mt w1) = List.length (mt w) /\
  (forall i, In (Some i) seq -> oget (i_ta i) (mt w1) (pt w) = oget (i_sa i) (ms w) (ps w)) /\
  (forall k, outside (flat_map tfp (isos seq)) (pt w) k -> nth_error (mt w1) k = nth_error (mt w) k).
Proof.
  intros nof tfp seq. induction seq as [|[i|] r IH]; intros Hok Hc w w1 H.
  - cbn in H. inversion H; subst. repeat split; try reflexivity. intros i [].
  - cbn [morphism_forward] in H. destruct (iso_forward i w) as [w'|] eqn:Ei; cbn [bind] in H; [|discriminate].
    unfold iso_forward in Ei.
    destruct (oget (i_sa i) (ms w) (ps w)) as [a|] eqn:Ea; cbn [bind] in Ei; [|discriminate].
    destruct (oput (i_ta i) (mt w) (pt w) a) as [mt'|] eqn:Ep; cbn [bind] in Ei; [|discriminate].
    inversion Ei; subst w'. clear Ei.
    destruct (Hok i (or_introl eq_refl)) as (Ls & Ft).
    assert (Hok' : forall j, In (Some j) r -> lawful (i_sa j) (nof j) /\ focused (i_ta j) (nof j) (tfp j))
      by (intros j Hj; apply Hok; right; exact Hj).
    assert (Hc' : forall j k, In (Some j) r -> In (Some k) r -> j = k \/ disjoint_fp (tfp j) (tfp k))
      by (intros j k Hj Hk; apply Hc; right; assumption).
    destruct (IH Hok' Hc' _ _ H) as (A1 & A2 & A3 & A4 & A5 & A6). cbn [ms ps mt pt] in *.
    pose proof (get_len _ _ Ls _ _ _ Ea) as La.
    repeat split; try assumption.
    + rewrite A4. exact (oput_length _ _ _ _ _ Ep).
    + intros j [Hj|Hj]; [|exact (A5 j Hj)]. inversion Hj; subst j. rewrite Ea.
      apply (forward_keeps nof tfp i a r (mkTwo (ms w) (ps w) mt' (pt w)) w1); cbn [ms ps mt pt];
        try assumption; try exact (f_lawful _ _ _ Ft); try exact (f_reads _ _ _ Ft).
      * intros j Hj'. destruct (Hok' j Hj') as (Lj & Fj). split; [exact Lj|]. split; [exact (f_framed _ _ _ Fj)|].
        apply Hc; [left; reflexivity|right; exact Hj'].
      * exact (put_get _ _ (f_lawful _ _ _ Ft) _ _ _ _ La Ep).
    + intros k Hk. cbn [isos flat_map] in Hk. fold (isos r) in Hk. cbn [app] in Hk.
      change (outside (tfp i ++ flat_map tfp (isos r)) (pt w) k) in Hk.
      apply outside_app in Hk. destruct Hk as [K1 K2].
      rewrite (A6 k K2). exact (f_framed _ _ _ Ft _ _ _ _ La Ep k K1).
  - cbn [morphism_forward] in H.
    assert (Hok' : forall j, In (Some j) r -> lawful (i_sa j) (nof j) /\ focused (i_ta j) (nof j) (tfp j))
      by (intros j Hj; apply Hok; right; exact Hj).
    assert (Hc' : forall j k, In (Some j) r -> In (Some k) r -> j = k \/ disjoint_fp (tfp j) (tfp k))
      by (intros j k Hj Hk; apply Hc; right; assumption).
    destruct (IH Hok' Hc' _ _ H) as (A1 & A2 & A3 & A4 & A5 & A6).
    repeat split; try assumption.
    intros j [Hj|Hj]; [discriminate|exact (A5 j Hj)].
Qed.

(* when the target foci hold what the source foci hold, Inverse returns and changes nothing *)
Lemma inverse_spec : forall (nof : iso -> nat) seq w,
  (forall i, In (Some i) seq -> lawful (i_sa i) (nof i)) ->
  (forall i, In (Some i) seq -> oget (i_ta i) (mt w) (pt w) = oget (i_sa i) (ms w) (ps w)) ->
  (forall i, In (Some i) seq -> oget (i_sa i) (ms w) (ps w) <> Panic) ->
  morphism_inverse seq w = Ok w.
Proof.
  intros nof seq w. induction seq as [|[i|] r IH]; intros Hl He Hn.
  - reflexivity.
  - cbn [morphism_inverse]. unfold iso_inverse. rewrite (He i (or_introl eq_refl)).
    destruct (oget (i_sa i) (ms w) (ps w)) as [a|] eqn:Ea; [|exfalso; exact (Hn i (or_introl eq_refl) Ea)].
    cbn [bind]. rewrite (get_put _ _ (Hl i (or_introl eq_refl)) _ _ _ Ea). cbn [bind].
    replace (mkTwo (ms w) (ps w) (mt w) (pt w)) with w by (destruct w; reflexivity).
    apply IH; intros j Hj; [apply Hl|apply He|apply Hn]; right; exact Hj.
  - cbn [morphism_inverse]. apply IH; intros j Hj; [apply Hl|apply He|apply Hn]; right; exact Hj.
Qed.

(* a forward that returned has read every source focus *)
Lemma forward_reads_sources : forall seq w w1, morphism_forward seq w = Ok w1 ->
  forall i, In (Some i) seq -> oget (i_sa i) (ms w) (ps w) <> Panic.
Proof.
  induction seq as [|[j|] r IH]; intros w w1 H i Hi; [destruct Hi| |].
  - cbn [morphism_forward] in H. destruct (iso_forward j w) as [w'|] eqn:Ej; cbn [bind] in H; [|discriminate].
    unfold iso_forward in Ej.
    destruct (oget (i_sa j) (ms w) (ps w)) as [aj|] eqn:Ea; cbn [bind] in Ej; [|discriminate].
    destruct (oput (i_ta j) (mt w) (pt w) aj) as [mt'|] eqn:Ep; cbn [bind] in Ej; [|discriminate].
    inversion Ej; subst w'. destruct Hi as [Hi|Hi].
    + inversion Hi; subst. congruence.
    + exact (IH _ _ H i Hi).
  - destruct Hi as [Hi|Hi]; [discriminate|]. exact (IH _ _ H i Hi).
Qed.

(* morphism_roundtrip in full.  The only hypothesis relating two entries is on TARGET foci; no disjointness of source
   foci is needed: Forward does not write the source and Inverse writes back, into each source focus, what it holds. *)
Theorem morphism_roundtrip : forall (nof : iso -> nat) (tfp : iso -> list (nat * nat)) seq,
  (forall i, In (Some i) seq -> lawful (i_sa i) (nof i) /\ focused (i_ta i) (nof i) (tfp i)) ->
  (forall i j, In (Some i) seq -> In (Some j) seq -> i = j \/ disjoint_fp (tfp i) (tfp j)) ->
  forall w w1 w2, morphism_forward seq w = Ok w1 -> morphism_inverse seq w1 = Ok w2 ->
  ms w2 = ms w /\ mt w2 = mt w1 /\ ms w1 = ms w /\ ps w2 = ps w /\ pt w2 = pt w /\
  (forall i, In (Some i) seq -> oget (i_ta i) (mt w2) (pt w) = oget (i_sa i) (ms w) (ps w)) /\
  (forall k, outside (flat_map tfp (isos seq)) (pt w) k -> nth_error (mt w2) k = nth_error (mt w) k).
Proof.
  intros nof tfp seq Hok Hc w w1 w2 Hf Hi.
  destruct (forward_spec nof tfp seq Hok Hc w w1 Hf) as (A1 & A2 & A3 & A4 & A5 & A6).
  assert (E : morphism_inverse seq w1 = Ok w1).
  { apply (inverse_spec nof).
    - intros i Hin. exact (proj1 (Hok i Hin)).
    - intros i Hin. rewrite A1, A2, A3. exact (A5 i Hin).
    - intros i Hin. rewrite A1, A2. exact (forward_reads_sources _ _ _ Hf i Hin). }
  rewrite E in Hi. inversion Hi; subst w2. repeat split; assumption.
Qed.

(* .. and Inverse after Forward never panics *)
Theorem morphism_inverse_total : forall (nof : iso -> nat) (tfp : iso -> list (nat * nat)) seq,
  (forall i, In (Some i) seq -> lawful (i_sa i) (nof i) /\ focused (i_ta i) (nof i) (tfp i)) ->
  (forall i j, In (Some i) seq -> In (Some j) seq -> i = j \/ disjoint_fp (tfp i) (tfp j)) ->
  forall w w1, morphism_forward seq w = Ok w1 -> morphism_inverse seq w1 = Ok w1.
Proof.
  intros nof tfp seq Hok Hc w w1 Hf.
  destruct (forward_spec nof tfp seq Hok Hc w w1 Hf) as (A1 & A2 & A3 & A4 & A5 & A6).
  apply (inverse_spec nof).
  - intros i Hin. exact (proj1 (Hok i Hin)).
  - intros i Hin. rewrite A1, A2, A3. exact (A5 i Hin).
  - intros i Hin. rewrite A1, A2. exact (forward_reads_sources _ _ _ Hf i Hin).
Qed.

(* ---- the way back into ANOTHER source structure ------------------------------------------------------------------
   [transports o fp]: putting into m2 the value read from m copies the bytes of the focus from m to m2.  It holds for
   positional optics, is kept by BiMap with g after f = id and by Join over a positional outer optic. *)
Definition transports (o : optic) (fp : list (nat * nat)) : Prop :=
  forall m m2 s a m2', List.length m2 = List.length m -> oget o m s = Ok a -> oput o m2 s a = Ok m2' ->
    forall k, inside fp s k -> nth_error m2' k = nth_error m k.

Lemma window_transports : forall o off n, window o off n -> transports o [(off, n)].
Proof.
  intros o off n W m m2 s a m2' Hl Hg Hp k (r & Hr & Hk). destruct Hr as [Hr|[]]. subst r. cbn [fst snd] in Hk.
  pose proof (w_get _ _ _ W _ _ _ Hg) as L. destruct (load_some _ _ _ _ L) as (_ & _ & N).
  pose proof (w_put _ _ _ W _ _ _ _ N Hp) as S.
  replace k with (s + off + (k - (s + off))) by lia.
  rewrite (store_nth_inside _ _ _ _ S) by lia. apply (load_nth _ _ _ _ L). lia.
Qed.

Lemma field_transports : forall l, transports (Field l) [(e_off (l_t l) + e_root (l_t l), sizeof (l_A l))].
Proof. intro l. exact (window_transports _ _ _ (window_field l)). Qed.

Lemma chain_transports : forall o, is_chain o = true -> transports o (footprint o).
Proof.
  intros o H. destruct (chain_window o H) as (W & _ & F). rewrite F. exact (window_transports _ _ _ W).
Qed.

Lemma bimap_transports :forall o f g nA fp, lawful o nA -> (forall a, List.length a = nA -> g (f a) = a) ->
  transports o fp -> transports (BiMap o f g) fp.
Proof.
  intros o f g nA fp L Hgf T m m2 s a m2' Hl Hg Hp. cbn [oget oput] in *.
  destruct (oget o m s) as [a0|] eqn:E; cbn in Hg; [|discriminate]. inversion Hg; subst a.
  rewrite (Hgf a0 (get_len _ _ L _ _ _ E)) in Hp. exact (T m m2 s a0 m2' Hl E Hp).
Qed.

Lemma join_transports : forall a b offA nA fpB, window a offA nA -> transports b fpB ->
  (forall r, In r fpB -> fst r + snd r <= nA) ->
  transports (Join a b) (shift offA fpB).
Proof.
  intros a b offA nA fpB Wa Tb Hfit m m2 s x m2' Hl Hg Hp k (r' & Hr' & Hk). cbn [oget oput] in *.
  apply in_map_iff in Hr'. destruct Hr' as (r & Er & Hr). subst r'. cbn [fst snd] in Hk.
  destruct (oget a m s) as [va|] eqn:Ea; cbn [bind] in Hg; [|discriminate].
  destruct (oget a m2 s) as [va2|] eqn:Ea2; cbn [bind] in Hp; [|discriminate].
  destruct (oput b va2 0 x) as [va2'|] eqn:Eb; cbn [bind] in Hp; [|discriminate].
  pose proof (w_get _ _ _ Wa _ _ _ Ea) as L1. destruct (load_some _ _ _ _ L1) as (_ & _ & N1).
  pose proof (w_get _ _ _ Wa _ _ _ Ea2) as L2. destruct (load_some _ _ _ _ L2) as (_ & _ & N2).
  pose proof (oput_length _ _ _ _ _ Eb) as N3.
  assert (S : store m2 (s + offA) va2' = Some m2') by (apply (w_put _ _ _ Wa); [congruence|exact Hp]).
  pose proof (Hfit r Hr) as Hf.
  replace k with (s + offA + (k - (s + offA))) by lia.
  rewrite (store_nth_inside _ _ _ _ S) by lia. rewrite <- (load_nth _ _ _ _ L1) by lia.
  apply (Tb va va2 0 x va2'); [congruence|exact Hg|exact Eb|]. exists r. split; [exact Hr|]. lia.
Qed.

Lemma inside_app : forall fp1 fp2 s i, inside (fp1 ++ fp2) s i <-> inside fp1 s i \/ inside fp2 s i.
Proof.
  intros fp1 fp2 s i. split.
  - intros (r & Hr & Hk). apply in_app_or in Hr. destruct Hr as [Hr|Hr]; [left|right]; exists r; split; assumption.
  - intros [(r & Hr & Hk)|(r & Hr & Hk)]; exists r; (split; [apply in_or_app|exact Hk]); [left|right]; exact Hr.
Qed.

Lemma inside_or_outside : forall fp s i, inside fp s i \/ outside fp s i.
Proof.
  induction fp as [|r fp IH]; intros s i; [right; intros r []|].
  destruct (IH s i) as [H|H]; [left; apply (inside_app [r] fp); right; exact H|].
  destruct (Nat.lt_ge_cases i (s + fst r)) as [H1|H1].
  - right. intros r' [E|Hr']; [subst r'; left; exact H1|exact (H r' Hr')].
  - destruct (Nat.lt_ge_cases i (s + fst r + snd r)) as [H2|H2].
    + left. exists r. split; [left; reflexivity|lia].
    + right. intros r' [E|Hr']; [subst r'; right; exact H2|exact (H r' Hr')].
Qed.

(* Inverse into any arena m2 of the size of the source: when the target foci hold the source foci of S, every byte of a
   source focus becomes that of S and every other byte stays as it was in m2 *)
Lemma inverse_transport : forall (nof : iso -> nat) (sfp : iso -> list (nat * nat)) S P T Q seq,
  (forall i, In (Some i) seq -> lawful (i_sa i) (nof i) /\ framed (i_sa i) (nof i) (sfp i) /\ transports (i_sa i) (sfp i)) ->
  (forall i, In (Some i) seq -> oget (i_ta i) T Q = oget (i_sa i) S P) ->
  forall m2 w2, List.length m2 = List.length S -> morphism_inverse seq (mkTwo m2 P T Q) = Ok w2 ->
  mt w2 = T /\ ps w2 = P /\ pt w2 = Q /\ List.length (ms w2) = List.length m2 /\
  (forall k, inside (flat_map sfp (isos seq)) P k -> nth_error (ms w2) k = nth_error S k) /\
  (forall k, outside (flat_map sfp (isos seq)) P k -> nth_error (ms w2) k = nth_error m2 k).
Proof.
  intros nof sfp S P T Q seq. induction seq as [|[i|] r IH]; intros Hok He m2 w2 Hl H.
  - cbn in H. inversion H; subst. cbn. repeat split; try reflexivity. intros k (r & [] & _).
  - cbn [morphism_inverse] in H. unfold iso_inverse in H. cbn [ms ps mt pt] in H.
    rewrite (He i (or_introl eq_refl)) in H.
    destruct (oget (i_sa i) S P) as [a|] eqn:Ea; cbn [bind] in H; [|discriminate].
    destruct (oput (i_sa i) m2 P a) as [m2'|] eqn:Ep; cbn [bind] in H; [|discriminate].
    destruct (Hok i (or_introl eq_refl)) as (Ls & Fs & Ts).
    pose proof (oput_length _ _ _ _ _ Ep) as Lp. pose proof (get_len _ _ Ls _ _ _ Ea) as La.
    assert (Hok' : forall j, In (Some j) r ->
              lawful (i_sa j) (nof j) /\ framed (i_sa j) (nof j) (sfp j) /\ transports (i_sa j) (sfp j))
      by (intros j Hj; apply Hok; right; exact Hj).
    assert (He' : forall j, In (Some j) r -> oget (i_ta j) T Q = oget (i_sa j) S P)
      by (intros j Hj; apply He; right; exact Hj).
    destruct (IH Hok' He' m2' w2 (eq_trans Lp Hl) H) as (A1 & A2 & A3 & A4 & A5 & A6).
    split; [exact A1|]. split; [exact A2|]. split; [exact A3|]. split; [congruence|].
    change (flat_map sfp (isos (Some i :: r))) with (sfp i ++ flat_map sfp (isos r)). split.
    + intros k Hk. destruct (inside_or_outside (flat_map sfp (isos r)) P k) as [Hr|Hr]; [exact (A5 k Hr)|].
      apply inside_app in Hk. destruct Hk as [Hk|Hk]; [|exact (A5 k Hk)].
      rewrite (A6 k Hr). exact (Ts S m2 P a m2' Hl Ea Ep k Hk).
    + intros k Hk. apply outside_app in Hk. destruct Hk as [K1 K2].
      rewrite (A6 k K2). exact (Fs _ _ _ _ La Ep k K1).
  - cbn [morphism_inverse] in H. apply IH; try assumption; intros j Hj; [apply Hok|apply He]; right; exact Hj.
Qed.

(* morphism_transport: Forward (s, t) then Inverse (t, s2) into another structure s2 of the same size gives every source
   focus of s2 the bytes it has in s and leaves every other byte of s2 alone; again no disjointness of SOURCE foci *)
Theorem morphism_transport : forall (nof : iso -> nat) (sfp tfp : iso -> list (nat * nat)) seq,
  (forall i, In (Some i) seq ->
     focused (i_sa i) (nof i) (sfp i) /\ transports (i_sa i) (sfp i) /\ focused (i_ta i) (nof i) (tfp i)) ->
  (forall i j, In (Some i) seq -> In (Some j) seq -> i = j \/ disjoint_fp (tfp i) (tfp j)) ->
  forall w w1 m2 w2, List.length m2 = List.length (ms w) ->
  morphism_forward seq w = Ok w1 -> morphism_inverse seq (mkTwo m2 (ps w) (mt w1) (pt w1)) = Ok w2 ->
  mt w2 = mt w1 /\ List.length (ms w2) = List.length m2 /\
  (forall k, inside (flat_map sfp (isos seq)) (ps w) k -> nth_error (ms w2) k = nth_error (ms w) k) /\
  (forall k, outside (flat_map sfp (isos seq)) (ps w) k -> nth_error (ms w2) k = nth_error m2 k) /\
  (forall i, In (Some i) seq -> oget (i_sa i) (ms w2) (ps w) = oget (i_sa i) (ms w) (ps w)).
Proof.
  intros nof sfp tfp seq Hok Hc w w1 m2 w2 Hl Hf Hi.
  assert (Hok1 : forall i, In (Some i) seq -> lawful (i_sa i) (nof i) /\ focused (i_ta i) (nof i) (tfp i)).
  { intros i Hin. destruct (Hok i Hin) as (F & _ & G). split; [exact (f_lawful _ _ _ F)|exact G]. }
  destruct (forward_spec nof tfp seq Hok1 Hc w w1 Hf) as (A1 & A2 & A3 & A4 & A5 & A6).
  rewrite A3 in Hi.
  assert (Hok2 : forall i, In (Some i) seq ->
            lawful (i_sa i) (nof i) /\ framed (i_sa i) (nof i) (sfp i) /\ transports (i_sa i) (sfp i)).
  { intros i Hin. destruct (Hok i Hin) as (F & T & _).
    split; [exact (f_lawful _ _ _ F)|]. split; [exact (f_framed _ _ _ F)|exact T]. }
  destruct (inverse_transport nof sfp (ms w) (ps w) (mt w1) (pt w) seq Hok2 A5 m2 w2 Hl Hi)
    as (B1 & B2 & B3 & B4 & B5 & B6).
  split; [exact B1|]. split; [exact B4|]. split; [exact B5|]. split; [exact B6|].
  intros i Hin. destruct (Hok i Hin) as (F & _ & _). apply (f_reads _ _ _ F); [congruence|].
  intros k Hk. apply B5. clear - Hin Hk. induction seq as [|[j|] r IH]; [destruct Hin| |].
  - change (flat_map sfp (isos (Some j :: r))) with (sfp j ++ flat_map sfp (isos r)). apply inside_app.
    destruct Hin as [E|Hin]; [inversion E; subst; left; exact Hk|right; exact (IH Hin)].
  - destruct Hin as [E|Hin]; [discriminate|exact (IH Hin)].
Qed.
