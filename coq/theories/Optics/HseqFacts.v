(* C03: the transcription of hseq.unfold equals the depth-first listing; offsets of entries reached
   without crossing a pointer are the compiler's selector offsets; lookups are first-match. *)
From Coq Require Import List String Ascii Bool Arith PeanoNat Lia.
From Golem Require Import Optics.Layout Optics.Res Optics.Hseq Optics.LayoutFacts.
Import ListNotations.

(* ---- induction that also provides the hypothesis for the pointee of a field type ------ *)
Lemma ty_ind_strip : forall P : ty -> Prop,
  (forall n s a, P (TPrim n s a)) ->
  (forall n s a, P (TOpaque n s a)) ->
  (forall t, P t -> P (TPtr t)) ->
  (forall n s fs, Forall (fun f => P (snd f) /\ P (strip (snd f))) fs -> P (TStruct n s fs)) ->
  forall t, P t.
Proof.
  intros P Hp Ho Hptr Hs t.
  enough (H : P t /\ P (strip t)) by exact (proj1 H).
  induction t as [n s a|n s a|t IH|n s fs IH] using ty_ind'; cbn [strip].
  - split; apply Hp.
  - split; apply Ho.
  - destruct IH as [IH _]. split; [apply Hptr|]; exact IH.
  - assert (P (TStruct n s fs)) by (apply Hs; exact IH). split; assumption.
Qed.

(* ---- where unfold descends: an embedded struct, by value (inline kept) or by pointer ---- *)
Definition descend (fv : fdecl) (fvty : ty) : option (ty * bool) :=
  if fanon fv then
    match fvty with
    | TStruct _ _ _ => Some (fvty, true)
    | TPtr u => match u with TStruct _ _ _ => Some (u, false) | _ => None end
    | _ => None
    end
  else None.

Lemma descend_cases : forall fv fvty u k, descend fv fvty = Some (u, k) ->
  is_struct u = true /\ ((u = fvty /\ k = true) \/ (fvty = TPtr u /\ k = false)).
Proof.
  intros fv fvty u k H. unfold descend in H. destruct (fanon fv); [|discriminate].
  destruct fvty as [| |w|n s fs]; try discriminate.
  - destruct w; try discriminate. inversion H; subst. split; [reflexivity|right; split; reflexivity].
  - inversion H; subst. split; [reflexivity|left; split; reflexivity].
Qed.

Definition mk_entry (fv : fdecl) (fvty : ty) (offset id : nat) (p : list nat) (inl : bool) : entry :=
  mkE (fname fv) (ftag fv) (fanon fv) (foff fv) fvty offset (strip fvty) id p inl.

Fixpoint unfold_loop (fs : list (fdecl * ty)) (i : nat) (seq : list entry) (offset : nat) (path : list nat) (inl : bool) : list entry :=
  match fs with
  | [] => seq
  | (fv, fvty) :: rest =>
      let seq1 := seq ++ [mk_entry fv fvty offset (List.length seq) (path ++ [i]) inl] in
      let seq2 := match descend fv fvty with
                  | Some (u, k) => unfold u seq1 (offset + foff fv) (path ++ [i]) (inl && k)
                  | None => seq1
                  end in
      unfold_loop rest (S i) seq2 offset path inl
  end.

Fixpoint flatten_loop (fs : list (fdecl * ty)) (i : nat) (offset : nat) (path : list nat) (inl : bool) : list entry :=
  match fs with
  | [] => []
  | (fv, fvty) :: rest =>
      mk_entry fv fvty offset 0 (path ++ [i]) inl
      :: match descend fv fvty with
         | Some (u, k) => flatten u (offset + foff fv) (path ++ [i]) (inl && k)
         | None => []
         end
      ++ flatten_loop rest (S i) offset path inl
  end.

Lemma andb_true_r' : forall b, b && true = b. Proof. destruct b; reflexivity. Qed.
Lemma andb_false_r' : forall b, b && false = false. Proof. destruct b; reflexivity. Qed.

Lemma unfold_struct : forall n s fs seq off path inl,
  unfold (TStruct n s fs) seq off path inl = unfold_loop fs 0 seq off path inl.
Proof.
  intros n s fs seq off path inl. cbn [unfold]. generalize 0 as i. revert seq.
  induction fs as [|[fv fvty] rest IH]; intros seq i; [reflexivity|].
  cbn [unfold_loop]. rewrite <- IH. unfold descend, mk_entry.
  destruct (fanon fv); [|reflexivity].
  destruct fvty as [| |w|n' s' fs']; try reflexivity.
  - destruct w; try reflexivity. rewrite andb_false_r'. reflexivity.
  - rewrite andb_true_r'. reflexivity.
Qed.

Lemma flatten_struct : forall n s fs off path inl,
  flatten (TStruct n s fs) off path inl = flatten_loop fs 0 off path inl.
Proof.
  intros n s fs off path inl. cbn [flatten]. generalize 0 at 2 3 as i.
  induction fs as [|[fv fvty] rest IH]; intros i; [reflexivity|].
  cbn [flatten_loop]. rewrite <- IH. unfold descend, mk_entry.
  destruct (fanon fv); [|reflexivity].
  destruct fvty as [| |w|n' s' fs']; try reflexivity.
  - destruct w; try reflexivity. rewrite andb_false_r'. reflexivity.
  - rewrite andb_true_r'. reflexivity.
Qed.

Lemma unfold_nonstruct : forall t seq off path inl, is_struct t = false -> unfold t seq off path inl = seq.
Proof. intros t; destruct t; intros; try reflexivity; discriminate. Qed.
Lemma flatten_nonstruct : forall t off path inl, is_struct t = false -> flatten t off path inl = [].
Proof. intros t; destruct t; intros; try reflexivity; discriminate. Qed.

(* ---- numbering ---------------------------------------------------------------------- *)
Lemma number_app : forall a b k, number k (a ++ b) = number k a ++ number (k + List.length a) b.
Proof.
  induction a as [|x a IH]; intros b k; cbn [number app List.length].
  - rewrite Nat.add_0_r. reflexivity.
  - rewrite IH. f_equal. f_equal. f_equal. lia.
Qed.

Lemma number_length : forall l k, List.length (number k l) = List.length l.
Proof. induction l as [|x l IH]; intro k; cbn; [reflexivity|rewrite IH; reflexivity]. Qed.

Lemma number_nth : forall l k i e, nth_error (number k l) i = Some e ->
  exists e0, nth_error l i = Some e0 /\ e = set_id e0 (k + i).
Proof.
  induction l as [|x l IH]; intros k i e H.
  - destruct i; discriminate.
  - destruct i as [|i]; cbn in H.
    + inversion H; subst. exists x. split; [reflexivity|]. rewrite Nat.add_0_r. reflexivity.
    + destruct (IH _ _ _ H) as (e0 & A & B). exists e0. split; [exact A|]. rewrite B. f_equal. lia.
Qed.

Lemma number_in : forall l k e, In e (number k l) -> exists e0 i, In e0 l /\ e = set_id e0 i.
Proof.
  induction l as [|x l IH]; intros k e H; [destruct H|].
  cbn in H. destruct H as [H|H].
  - exists x, k. split; [left; reflexivity|symmetry; exact H].
  - destruct (IH _ _ H) as (e0 & i & A & B). exists e0, i. split; [right; exact A|exact B].
Qed.

(* ---- unfold = depth-first flatten, numbered by position -------------------------------- *)
Definition unfold_is_flatten (t : ty) : Prop :=
  forall seq off path inl, unfold t seq off path inl = seq ++ number (List.length seq) (flatten t off path inl).

Lemma unfold_flatten : forall t, unfold_is_flatten t.
Proof.
  intro t. induction t as [n s a|n s a|t IH|n s fs IH] using ty_ind_strip; unfold unfold_is_flatten in *;
    try (intros; cbn; rewrite app_nil_r; reflexivity).
  intros seq off path inl. rewrite unfold_struct, flatten_struct. generalize 0 as i. revert seq.
  induction IH as [|[fv fvty] rest [_ Hst] _ IHrest]; intros seq i.
  - cbn. rewrite app_nil_r. reflexivity.
  - cbn [unfold_loop flatten_loop]. cbn [snd] in Hst.
    destruct (descend fv fvty) as [[u k]|] eqn:Ed.
    + assert (Hu : forall seq off path inl, unfold u seq off path inl = seq ++ number (List.length seq) (flatten u off path inl)).
      { destruct (descend_cases _ _ _ _ Ed) as (_ & [[E _]|[E _]]); subst.
        - clear - Hst IHrest. destruct fvty; cbn [strip] in Hst; try exact Hst.
          intros; cbn; rewrite app_nil_r; reflexivity.
        - cbn [strip] in Hst. exact Hst. }
      rewrite IHrest, Hu. rewrite !app_length, number_length. cbn [List.length number app].
      rewrite number_app. rewrite <- !app_assoc. cbn [app].
      f_equal. f_equal. f_equal.
      * f_equal. lia.
      * f_equal. lia.
    + rewrite IHrest. rewrite !app_length. cbn [List.length number app].
      rewrite <- !app_assoc. cbn [app]. f_equal. f_equal. f_equal. lia.
Qed.

(* the statement of C03 about the listing *)
Lemma unfold_spec : forall S,
  let l := unfold S [] 0 [] true in
  let spec := flatten S 0 [] true in
  l = number 0 spec /\
  List.length l = List.length spec /\
  forall i e, nth_error l i = Some e ->
    e_id e = i /\ e_pure e = strip (e_ty e) /\
    exists e0, nth_error spec i = Some e0 /\ e = set_id e0 i.
Proof.
  intro S. cbn zeta. pose proof (unfold_flatten S [] 0 [] true) as H. cbn [app List.length] in H.
  split; [exact H|]. split; [rewrite H; apply number_length|].
  intros i e Hn. rewrite H in Hn. destruct (number_nth _ _ _ _ Hn) as (e0 & A & B). cbn in B. subst e.
  split; [reflexivity|]. split; [|exists e0; split; [exact A|reflexivity]].
  cbn [set_id e_pure e_ty].
  (* every entry of flatten carries the stripped type *)
  assert (G : forall t off path inl e, In e (flatten t off path inl) -> e_pure e = strip (e_ty e)).
  { clear. intro t. induction t as [n s a|n s a|t IH|n s fs IH] using ty_ind_strip; try (intros ? ? ? ? []).
    intros off path inl e. rewrite flatten_struct. generalize 0 as i.
    induction IH as [|[fv fvty] rest [Hf Hst] _ IHrest]; intros i Hin; [destruct Hin|].
    cbn [flatten_loop] in Hin. destruct Hin as [Hin|Hin]; [subst; reflexivity|].
    apply in_app_or in Hin. destruct Hin as [Hin|Hin]; [|exact (IHrest _ Hin)].
    destruct (descend fv fvty) as [[u k]|] eqn:Ed; [|destruct Hin].
    destruct (descend_cases _ _ _ _ Ed) as (_ & [[E _]|[E _]]); subst; cbn [snd strip] in *.
    - eapply Hf; exact Hin.
    - eapply Hst; exact Hin. }
  eapply G. eapply nth_error_In. exact A.
Qed.

(* ---- offsets ------------------------------------------------------------------------ *)
Lemma true_offset_cons : forall t i p, true_offset t (i :: p) =
  match nth_error (fields_of t) i with
  | Some (d, ft) => match true_offset ft p with Some o => Some (foff d + o) | None => None end
  | None => None
  end.
Proof. reflexivity. Qed.
Lemma type_at_cons : forall t i p, type_at t (i :: p) =
  match nth_error (fields_of t) i with Some (_, ft) => type_at ft p | None => None end.
Proof. reflexivity. Qed.

Lemma flatten_not_inline : forall t off path e, In e (flatten t off path false) -> e_inline e = false.
Proof.
  intro t. induction t as [n s a|n s a|t IH|n s fs IH] using ty_ind_strip; try (intros ? ? ? []).
  intros off path e. rewrite flatten_struct. generalize 0 as i.
  induction IH as [|[fv fvty] rest [Hf Hst] _ IHrest]; intros i Hin; [destruct Hin|].
  cbn [flatten_loop] in Hin. destruct Hin as [Hin|Hin]; [subst; reflexivity|].
  apply in_app_or in Hin. destruct Hin as [Hin|Hin]; [|exact (IHrest _ Hin)].
  destruct (descend fv fvty) as [[u k]|] eqn:Ed; [|destruct Hin].
  cbn [andb] in Hin.
  destruct (descend_cases _ _ _ _ Ed) as (_ & [[E _]|[E _]]); subst; cbn [snd strip] in *.
  - eapply Hf; exact Hin.
  - eapply Hst; exact Hin.
Qed.

(* an entry reached without crossing a pointer sits at the compiler's offset of its selector path,
   and its declared type is the type at that path *)
Lemma flatten_offset : forall t off path e,
  In e (flatten t off path true) -> e_inline e = true ->
  exists p o, e_path e = path ++ p /\ true_offset t p = Some o /\ e_root e + e_off e = off + o /\
              type_at t p = Some (e_ty e) /\ off <= e_root e.
Proof.
  intro t. induction t as [n s a|n s a|t IH|n s fs IH] using ty_ind_strip; try (intros ? ? ? []).
  intros off path e. rewrite flatten_struct.
  (* the loop runs over a suffix of the fields; i is the index of its head *)
  assert (G : forall pre rest, fs = pre ++ rest ->
            Forall (fun f => (forall off path e, In e (flatten (snd f) off path true) -> e_inline e = true ->
                       exists p o, e_path e = path ++ p /\ true_offset (snd f) p = Some o /\ e_root e + e_off e = off + o /\
                                   type_at (snd f) p = Some (e_ty e) /\ off <= e_root e)) rest ->
            In e (flatten_loop rest (List.length pre) off path true) -> e_inline e = true ->
            exists p o, e_path e = path ++ p /\ true_offset (TStruct n s fs) p = Some o /\ e_root e + e_off e = off + o /\
                        type_at (TStruct n s fs) p = Some (e_ty e) /\ off <= e_root e).
  { intros pre rest. revert pre. induction rest as [|[fv fvty] rest IHrest]; intros pre Efs HF Hin Hinl; [destruct Hin|].
    cbn [flatten_loop] in Hin. inversion HF as [|? ? Hf HF']; subst.
    assert (Hnth : nth_error (pre ++ (fv, fvty) :: rest) (List.length pre) = Some (fv, fvty)).
    { rewrite nth_error_app2 by lia. rewrite Nat.sub_diag. reflexivity. }
    destruct Hin as [Hin|Hin].
    - subst e. cbn in Hinl. exists [List.length pre], (foff fv). cbn [mk_entry e_path e_root e_off e_ty].
      repeat split; try lia.
      + rewrite true_offset_cons. unfold fields_of, field. rewrite Hnth. cbn. f_equal. lia.
      + rewrite type_at_cons. unfold fields_of, field. rewrite Hnth. reflexivity.
    - apply in_app_or in Hin. destruct Hin as [Hin|Hin].
      + destruct (descend fv fvty) as [[u k]|] eqn:Ed; [|destruct Hin].
        destruct (descend_cases _ _ _ _ Ed) as (_ & [[E Ek]|[E Ek]]); subst.
        * cbn [andb snd] in *. destruct (Hf _ _ _ Hin Hinl) as (p & o & A & B & C & D & F).
          exists (List.length pre :: p), (foff fv + o). repeat split; try lia.
          -- rewrite A, <- app_assoc. reflexivity.
          -- rewrite true_offset_cons. unfold fields_of, field. rewrite Hnth, B. reflexivity.
          -- rewrite type_at_cons. unfold fields_of, field. rewrite Hnth. exact D.
        * cbn [andb] in Hin. apply flatten_not_inline in Hin. congruence.
      + specialize (IHrest (pre ++ [(fv, fvty)])). rewrite <- app_assoc in IHrest. cbn [app] in IHrest.
        rewrite app_length in IHrest. cbn [List.length] in IHrest. rewrite Nat.add_1_r in IHrest.
        apply IHrest; auto. }
  intros Hin Hinl. apply (G [] fs eq_refl); [|exact Hin|exact Hinl].
  eapply Forall_impl; [|exact IH]. intros f [Hf _]. exact Hf.
Qed.

Lemma set_id_fields : forall e k,
  e_path (set_id e k) = e_path e /\ e_inline (set_id e k) = e_inline e /\ e_root (set_id e k) = e_root e /\
  e_off (set_id e k) = e_off e /\ e_ty (set_id e k) = e_ty e /\ e_name (set_id e k) = e_name e /\
  e_tag (set_id e k) = e_tag e.
Proof. intros; repeat split. Qed.

Lemma unfold_in_flatten : forall S e, In e (unfold S [] 0 [] true) ->
  exists e0 k, In e0 (flatten S 0 [] true) /\ e = set_id e0 k.
Proof.
  intros S e H. rewrite (unfold_flatten S [] 0 [] true) in H. cbn [app List.length] in H.
  apply number_in in H. exact H.
Qed.

Lemma unfold_offset : forall S e, In e (unfold S [] 0 [] true) -> e_inline e = true ->
  true_offset S (e_path e) = Some (e_root e + e_off e) /\ type_at S (e_path e) = Some (e_ty e).
Proof.
  intros S e Hin Hinl. destruct (unfold_in_flatten _ _ Hin) as (e0 & k & A & B). subst e.
  destruct (flatten_offset S 0 [] e0 A Hinl) as (p & o & P1 & P2 & P3 & P4 & _).
  cbn [set_id e_path e_root e_off e_ty]. cbn [app] in P1. rewrite P1, P2, P4. split; [f_equal; lia|reflexivity].
Qed.

(* ---- lookups -------------------------------------------------------------------------- *)
Lemma first_match_some : forall {A} (p : A -> bool) l x, first_match p l = Some x <->
  exists l1 l2, l = l1 ++ x :: l2 /\ p x = true /\ forall y, In y l1 -> p y = false.
Proof.
  intros A p l. induction l as [|a l IH]; intro x; cbn [first_match].
  - split; [discriminate|]. intros (l1 & l2 & E & _). destruct l1; discriminate.
  - destruct (p a) eqn:Ea.
    + split.
      * intro H. inversion H; subst. exists [], l. repeat split; [exact Ea|intros ? []].
      * intros (l1 & l2 & E & Hx & Hl). destruct l1 as [|b l1]; cbn in E; inversion E; subst; [reflexivity|].
        specialize (Hl b (or_introl eq_refl)). congruence.
    + rewrite IH. split.
      * intros (l1 & l2 & E & Hx & Hl). exists (a :: l1), l2. subst. repeat split; [exact Hx|].
        intros y [Hy|Hy]; [subst; exact Ea|exact (Hl _ Hy)].
      * intros (l1 & l2 & E & Hx & Hl). destruct l1 as [|b l1]; cbn in E; inversion E; subst; [congruence|].
        exists l1, l2. repeat split; [exact Hx|]. intros y Hy. apply Hl. right. exact Hy.
Qed.

Lemma first_match_none : forall {A} (p : A -> bool) l, first_match p l = None <-> forall y, In y l -> p y = false.
Proof.
  intros A p l. induction l as [|a l IH]; cbn [first_match].
  - split; [intros _ ? []|reflexivity].
  - destruct (p a) eqn:Ea.
    + split; [discriminate|]. intro H. specialize (H a (or_introl eq_refl)). congruence.
    + rewrite IH. split; intros H y; [intros [Hy|Hy]; [subst; exact Ea|exact (H _ Hy)]|intro Hy; apply H; right; exact Hy].
Qed.

(* ForName / ForNameMaybe: the first entry whose key is the name, or a loud failure / absence *)
Lemma for_name_first : forall seq n,
  (forall e, hseq_ForName seq n = Ok e <->
             exists l1 l2, seq = l1 ++ e :: l2 /\ e_key e = n /\ forall y, In y l1 -> e_key y <> n) /\
  (hseq_ForName seq n = Panic <-> forall y, In y seq -> e_key y <> n) /\
  (forall e, for_name_maybe seq n = Some e <-> hseq_ForName seq n = Ok e) /\
  (for_name_maybe seq n = None <-> hseq_ForName seq n = Panic).
Proof.
  intros seq n. unfold hseq_ForName, for_name_maybe.
  assert (Hk : forall y : entry, String.eqb (e_key y) n = false <-> e_key y <> n).
  { intro y. rewrite <- String.eqb_neq. reflexivity. }
  repeat split.
  - intro H. destruct (first_match _ seq) as [x|] eqn:E; cbn in H; [|discriminate]. inversion H; subst.
    apply first_match_some in E. destruct E as (l1 & l2 & A & B & C). exists l1, l2.
    repeat split; [exact A|apply String.eqb_eq; exact B|]. intros y Hy. apply Hk. apply C. exact Hy.
  - intros (l1 & l2 & A & B & C).
    assert (E : first_match (fun f => String.eqb (e_key f) n) seq = Some e).
    { apply first_match_some. exists l1, l2. repeat split; [exact A|apply String.eqb_eq; exact B|].
      intros y Hy. apply Hk. apply C. exact Hy. }
    rewrite E. reflexivity.
  - intro H. destruct (first_match _ seq) as [x|] eqn:E; cbn in H; [discriminate|].
    intros y Hy. apply Hk. eapply first_match_none in E; eauto.
  - intro H. assert (E : first_match (fun f => String.eqb (e_key f) n) seq = None).
    { apply first_match_none. intros y Hy. apply Hk. apply H. exact Hy. }
    rewrite E. reflexivity.
  - intro H. rewrite H. reflexivity.
  - intro H. destruct (first_match _ seq); cbn in H; [inversion H; reflexivity|discriminate].
  - intro H. rewrite H. reflexivity.
  - intro H. destruct (first_match _ seq); cbn in H; [discriminate|reflexivity].
Qed.

(* ForType: the first entry whose declared type is identical to A, or a loud failure *)
Lemma for_type_first : forall seq A,
  (forall e, hseq_ForType A seq = Ok e <->
             exists l1 l2, seq = l1 ++ e :: l2 /\ e_ty e = A /\ forall y, In y l1 -> e_ty y <> A) /\
  (hseq_ForType A seq = Panic <-> forall y, In y seq -> e_ty y <> A).
Proof.
  intros seq A. unfold hseq_ForType.
  assert (Hk : forall y : entry, ty_eqb (e_ty y) A = false <-> e_ty y <> A).
  { intro y. split.
    - intros H E. rewrite E, ty_eqb_refl in H. discriminate.
    - apply ty_eqb_neq. }
  assert (Hk' : forall y : entry, ty_eqb (e_ty y) A = true <-> e_ty y = A).
  { intro y. split; [apply ty_eqb_eq|intro E; rewrite E; apply ty_eqb_refl]. }
  repeat split.
  - intro H. destruct (first_match _ seq) as [x|] eqn:E; cbn in H; [|discriminate]. inversion H; subst.
    apply first_match_some in E. destruct E as (l1 & l2 & P & Q & R). exists l1, l2.
    repeat split; [exact P|apply Hk'; exact Q|]. intros y Hy. apply Hk. apply R. exact Hy.
  - intros (l1 & l2 & P & Q & R).
    assert (E : first_match (fun f => ty_eqb (e_ty f) A) seq = Some e).
    { apply first_match_some. exists l1, l2. repeat split; [exact P|apply Hk'; exact Q|].
      intros y Hy. apply Hk. apply R. exact Hy. }
    rewrite E. reflexivity.
  - intro H. destruct (first_match _ seq) as [x|] eqn:E; cbn in H; [discriminate|].
    intros y Hy. apply Hk. eapply first_match_none in E; eauto.
  - intro H. assert (E : first_match (fun f => ty_eqb (e_ty f) A) seq = None).
    { apply first_match_none. intros y Hy. apply Hk. apply H. exact Hy. }
    rewrite E. reflexivity.
Qed.

(* the key is the first comma-part of the hseq tag when that is not empty, else the field name *)
Lemma key_spec : forall e, e_key e = (if String.eqb (tag_head (e_tag e)) "" then e_name e else tag_head (e_tag e)).
Proof. reflexivity. Qed.

Lemma tag_head_no_comma : forall s, ~ In ","%char (list_ascii_of_string (tag_head s)).
Proof.
  induction s as [|c s IH]; cbn; [tauto|].
  destruct (Ascii.eqb c ","%char) eqn:E; cbn; [tauto|].
  intros [H|H]; [subst; rewrite Ascii.eqb_refl in E; discriminate|exact (IH H)].
Qed.

Lemma tag_head_prefix : forall s, exists r, s = (tag_head s ++ r)%string /\ (r = ""%string \/ exists r', r = String ","%char r').
Proof.
  induction s as [|c s (r & A & B)]; cbn.
  - exists ""%string. split; [reflexivity|left; reflexivity].
  - destruct (Ascii.eqb c ","%char) eqn:E.
    + apply Ascii.eqb_eq in E. subst. exists (String ","%char s). split; [reflexivity|right; eexists; reflexivity].
    + exists r. cbn. split; [f_equal; exact A|exact B].
Qed.

Lemma key_facts : forall e,
  e_key e = (if String.eqb (tag_head (e_tag e)) "" then e_name e else tag_head (e_tag e)) /\
  ~ In ","%char (list_ascii_of_string (tag_head (e_tag e))) /\
  exists r, e_tag e = (tag_head (e_tag e) ++ r)%string /\ (r = ""%string \/ exists r', r = String ","%char r').
Proof. intro e. exact (conj (key_spec e) (conj (tag_head_no_comma (e_tag e)) (tag_head_prefix (e_tag e)))). Qed.

(* New(names): selection by names keeps the requested order; one miss fails the whole call *)
Lemma mapM_ok : forall {A B} (f : A -> res B) l r, mapM f l = Ok r <->
  List.length r = List.length l /\ forall i a, nth_error l i = Some a -> exists b, nth_error r i = Some b /\ f a = Ok b.
Proof.
  intros A B f l. induction l as [|x l IH]; intro r; cbn [mapM].
  - split.
    + intro H. inversion H; subst. split; [reflexivity|]. intros i a Hn. destruct i; discriminate.
    + intros [H _]. destruct r; [reflexivity|discriminate].
  - destruct (f x) as [y|] eqn:Ex; cbn [bind].
    + destruct (mapM f l) as [ys|] eqn:Em; cbn [bind].
      * split.
        -- intro H. inversion H; subst. destruct (proj1 (IH ys) eq_refl) as (L & N). split; [cbn; lia|].
           intros [|i] a Hn; cbn in Hn.
           ++ inversion Hn; subst. exists y. split; [reflexivity|exact Ex].
           ++ exact (N _ _ Hn).
        -- intros [L N]. destruct r as [|b r]; [discriminate|].
           destruct (N 0 x eq_refl) as (b' & Hb & Hf). cbn in Hb. inversion Hb; subst. rewrite Ex in Hf. inversion Hf; subst.
           f_equal. f_equal. assert (E : Ok ys = Ok r); [|inversion E; reflexivity].
           apply IH. split; [cbn in L; lia|]. intros i a Hn. exact (N (S i) a Hn).
      * split; [discriminate|]. intros [L N]. destruct r as [|b r]; [discriminate|].
        assert (E : (Panic : res (list B)) = Ok r); [|discriminate].
        apply IH. split; [cbn in L; lia|]. intros i a Hn. exact (N (S i) a Hn).
    + split; [discriminate|]. intros [L N]. destruct (N 0 x eq_refl) as (b & _ & Hf). rewrite Ex in Hf. discriminate.
Qed.

Lemma new_names_order : forall S names, names <> [] -> is_struct (strip S) = true ->
  hseq_New S names = mapM (hseq_ForName (unfold (strip S) [] 0 [] true)) names /\
  forall r, hseq_New S names = Ok r ->
    List.length r = List.length names /\
    forall i n, nth_error names i = Some n ->
      exists e, nth_error r i = Some e /\ hseq_ForName (unfold (strip S) [] 0 [] true) n = Ok e.
Proof.
  intros S names Hne Hs. assert (E : hseq_New S names = mapM (hseq_ForName (unfold (strip S) [] 0 [] true)) names).
  { unfold hseq_New. destruct (strip S); try discriminate. destruct names; [contradiction|reflexivity]. }
  split; [exact E|]. intros r Hr. rewrite E in Hr. apply mapM_ok in Hr. exact Hr.
Qed.

Lemma new_all : forall S, is_struct (strip S) = true -> hseq_New S [] = Ok (unfold (strip S) [] 0 [] true).
Proof. intros S Hs. unfold hseq_New. destruct (strip S); try discriminate. reflexivity. Qed.

Lemma new_nonstruct : forall S names, is_struct (strip S) = false -> hseq_New S names = Panic.
Proof. intros S names Hs. unfold hseq_New. destruct (strip S); try reflexivity. discriminate. Qed.
