(* optics/lens.go (Join, NewLensM), optics/iso.go (Getter, Setter, BiMap, Iso, Morphism):
   optics as syntax, interpreted over byte arenas. Definitions only. *)
From Coq Require Import List String Bool Arith ZArith.
From Golem Require Export Optics.Lens.
Import ListNotations.

(* A Lens[S, X] value.  Conversions are functions on the byte representation of values. *)
Inductive optic :=
| Field (l : lens)                                  (* &lens[S, A]{t} *)
| Join (a b : optic)                                (* join[S, A, B]{a, b} *)
| BiMap (o : optic) (f g : value -> value)          (* codec{lens, fmap, cmap} *)
| Getter (o : optic) (f : value -> value)           (* fmap{lens, f} *)
| Setter (o : optic) (g : value -> value) (zero : value).   (* cmap{lens, f}; Get returns *new(B) *)

(* Get(s *S): the arena [m] holds the structure at address [s] *)
Fixpoint oget (o : optic) (m : mem) (s : nat) {struct o} : res value :=
  match o with
  | Field l => lens_get l m s
  | Join a b =>
      va <- oget a m s ;;                           (* va := lens.a.Get(s) *)
      oget b va 0                                   (* return lens.b.Get(&va): the copy is its own arena *)
  | BiMap o f _ => rmap f (oget o m s)              (* c.fmap(c.lens.Get(s)) *)
  | Getter o f => rmap f (oget o m s)               (* c.f(c.lens.Get(s)) *)
  | Setter _ _ zero => Ok zero                      (* *new(B) *)
  end.

(* Put(s *S, x) *S: returns the arena after the call (the pointer returned is [s] itself) *)
Fixpoint oput (o : optic) (m : mem) (s : nat) (x : value) {struct o} : res mem :=
  match o with
  | Field l => rmap snd (lens_put l m s x)
  | Join a b =>
      va <- oget a m s ;;                           (* va := lens.a.Get(s) *)
      va' <- oput b va 0 x ;;                       (* lens.b.Put(&va, b) *)
      oput a m s va'                                (* lens.a.Put(s, va) *)
  | BiMap o _ g => oput o m s (g x)                 (* c.lens.Put(s, c.cmap(b)) *)
  | Getter _ _ => Ok m                              (* return s *)
  | Setter o g _ => oput o m s (g x)                (* c.lens.Put(s, c.f(b)) *)
  end.

(* The bytes an optic may write, relative to the structure: list of (offset, length). *)
Fixpoint footprint (o : optic) : list (nat * nat) :=
  match o with
  | Field l => [(e_off (l_t l) + e_root (l_t l), sizeof (l_A l))]
  | Join a b =>
      flat_map (fun ra => map (fun rb => (fst ra + fst rb, snd rb)) (footprint b)) (footprint a)
  | BiMap o _ _ => footprint o
  | Getter _ _ => []
  | Setter o _ _ => footprint o
  end.

Definition in_footprint (fp : list (nat * nat)) (s i : nat) : bool :=
  existsb (fun r => in_range (s + fst r) (snd r) i) fp.

(* ------------------------------------------------------------------------------
   type lensM: a lens on map[K]A.  The structure is the map itself (association list,
   first binding wins; Put replaces or adds).
   ------------------------------------------------------------------------------ *)
Section MapLens.
  Context {K V : Type} (keqb : K -> K -> bool).
  Definition gomap := list (K * V).
  Fixpoint map_get (m : gomap) (k : K) : option V :=
    match m with [] => None | (k', v) :: r => if keqb k' k then Some v else map_get r k end.
  Fixpoint map_put (m : gomap) (k : K) (v : V) : gomap :=
    match m with
    | [] => [(k, v)]
    | (k', v') :: r => if keqb k' k then (k', v) :: r else (k', v') :: map_put r k v
    end.
  (* func (lens *lensM) Get(s *S) A returns the map element at lens.key: the zero value when absent *)
  Definition mapkey_get (zero : V) (k : K) (m : gomap) : V :=
    match map_get m k with Some v => v | None => zero end.
  (* func (lens *lensM) Put(s *S, a A) *S assigns the map element at lens.key *)
  Definition mapkey_put (k : K) (m : gomap) (v : V) : gomap := map_put m k v.
End MapLens.

(* ------------------------------------------------------------------------------
   Isomorphisms between two structures, each in its own arena.
   ------------------------------------------------------------------------------ *)
Record iso := mkIso { i_sa : optic; i_ta : optic }.

(* two structures: (arena of S, address of S, arena of T, address of T) *)
Record two := mkTwo { ms : mem; ps : nat; mt : mem; pt : nat }.

(* func (iso iso[S, T, A]) Forward(s *S, t *T) { iso.ta.Put(t, iso.sa.Get(s)) } *)
Definition iso_forward (i : iso) (w : two) : res two :=
  a <- oget (i_sa i) (ms w) (ps w) ;;
  mt' <- oput (i_ta i) (mt w) (pt w) a ;;
  Ok (mkTwo (ms w) (ps w) mt' (pt w)).

(* func (iso iso[S, T, A]) Inverse(t *T, s *S) { iso.sa.Put(s, iso.ta.Get(t)) } *)
Definition iso_inverse (i : iso) (w : two) : res two :=
  a <- oget (i_ta i) (mt w) (pt w) ;;
  ms' <- oput (i_sa i) (ms w) (ps w) a ;;
  Ok (mkTwo ms' (ps w) (mt w) (pt w)).

(* type morphism[S, T any] []Isomorphism[S, T]: nil entries are skipped *)
Fixpoint morphism_forward (seq : list (option iso)) (w : two) : res two :=
  match seq with
  | [] => Ok w
  | None :: r => morphism_forward r w
  | Some i :: r => w' <- iso_forward i w ;; morphism_forward r w'
  end.

Fixpoint morphism_inverse (seq : list (option iso)) (w : two) : res two :=
  match seq with
  | [] => Ok w
  | None :: r => morphism_inverse r w
  | Some i :: r => w' <- iso_inverse i w ;; morphism_inverse r w'
  end.
