(* C04: the hypothesis of the morphism round trip is necessary - a two-iso witness. *)
From Coq Require Import List String Bool Arith ZArith.
From Golem Require Import Optics.GenPrelude Optics.Examples.
From GolemGen Require Import GenHseq GenOptics.
Import ListNotations.
Open Scope res_scope.

(* type KAB struct { A, B int64 };  isos A -> A and B -> A share the target focus A *)
Definition KAB := golayout (TStruct "main.KAB" 0 [fld "A" t_int64; fld "B" t_int64]).

Definition w_seq : list (option iso) :=
  match ForProduct1 KAB t_int64 ["A"%string], ForProduct1 KAB t_int64 ["B"%string] with
  | Ok a, Ok b => [Some (mkIso a a); Some (mkIso b a)]
  | _, _ => []
  end.

(* source: A = 0x0101.., B = 0x0202..; target: zeros *)
Definition w_start : two := mkTwo (repeat 1%Z 8 ++ repeat 2%Z 8) 0 (repeat 0%Z 16) 0.

Lemma morphism_needs_disjoint_targets :
  exists w1 w2, morphism_forward w_seq w_start = Ok w1 /\ morphism_inverse w_seq w1 = Ok w2 /\ ms w2 <> ms w_start.
Proof.
  eexists. eexists. split; [vm_compute; reflexivity|]. split; [vm_compute; reflexivity|].
  vm_compute. intro H. discriminate H.
Qed.
