(* C04: the hypothesis of the morphism round trip is necessary - a two-iso witness;
   the hypotheses of the full theorems (join_frame, shapeN_nfold, morphism_roundtrip) are satisfiable. *)
From Coq Require Import List String Bool Arith ZArith Lia.
From Golem Require Import Optics.GenPrelude Optics.Examples Optics.LensFacts Optics.CombFacts Optics.FocusFacts
  Optics.GenShapeFacts.
From GolemGen Require Import GenHseq GenOptics GenShape.
Import ListNotations.
Open Scope res_scope.

(* type KAB struct { A, B int64 };  isos A -> A and B -> A share the target focus A *)
Definition KAB := golayout (TStruct "main.KAB" 0 [fld "A" t_int64; fld "B" t_int64]).

Definition w_seq : list (option iso) :=
  match ForProduct1 KAB t_int64 ["A"%string], ForProduct1 KAB t_int64 ["B"%string] with
  | Ok a, Ok b => [Some (mkIso a a); Some (mkIso b a)]
  | _, _ => []
  end.

(* source: A = 0x0101.., B = 0x0202..; target: zeros *)
Definition w_start : two := mkTwo (repeat 1%Z 8 ++ repeat 2%Z 8) 0 (repeat 0%Z 16) 0.

Lemma morphism_needs_disjoint_targets :
  exists w1 w2, morphism_forward w_seq w_start = Ok w1 /\ morphism_inverse w_seq w1 = Ok w2 /\ ms w2 <> ms w_start.
Proof.
  eexists. eexists. split; [vm_compute; reflexivity|]. split; [vm_compute; reflexivity|].
  vm_compute. intro H. discriminate H.
Qed.

Ltac in_cases H :=
  repeat (destruct H as [H|H]; [try discriminate H; try (injection H as H); subst|]); try contradiction H.

(* .. and that witness violates nothing but the hypothesis on target foci: every entry has a lawful source optic and a
   focused target optic (the first hypothesis of morphism_roundtrip); the two entries differ and share the target focus *)
Lemma w_seq_entries_ok : forall i, In (Some i) w_seq ->
  lawful (i_sa i) 8 /\ focused (i_ta i) 8 (footprint (i_ta i)).
Proof.
  intros i H. vm_compute in H. in_cases H; (split; [exact (field_lawful _)|exact (field_focused _)]).
Qed.

Lemma w_seq_targets_overlap : exists i j, w_seq = [Some i; Some j] /\ i <> j /\
  footprint (i_ta i) = [(0, 8)] /\ footprint (i_ta j) = [(0, 8)].
Proof.
  eexists. eexists. split; [vm_compute; reflexivity|].
  split; [intro H; discriminate H|]. split; reflexivity.
Qed.

(* join_frame needs a positional outer optic.  type KP struct { X, Y int8 }; type KO struct { P KP }: the outer optic is
   the field P seen through a conversion that swaps its two bytes, the inner optic the field X (byte 0 of the value).
   The framed statement of join_frame with offset 0 would be "only byte 0 of the arena changes"; byte 1 does. *)
Definition KP := golayout (TStruct "main.KP" 0 [fld "X" t_int8; fld "Y" t_int8]).
Definition KO := golayout (TStruct "main.KO" 0 [fld "P" KP]).

Definition swap_join : res optic :=
  a <- ForProduct1 KO KP [] ;; b <- ForProduct1 KP t_int8 ["X"%string] ;; Ok (Join (BiMap a (@rev byte) (@rev byte)) b).

Lemma join_frame_needs_positional : exists a b,
  swap_join = Ok (Join (BiMap a (@rev byte) (@rev byte)) b) /\
  lawful (BiMap a (@rev byte) (@rev byte)) 2 /\ framed (BiMap a (@rev byte) (@rev byte)) 2 [(0, 2)] /\
  framed b 1 [(0, 1)] /\
  ~ framed (Join (BiMap a (@rev byte) (@rev byte)) b) 1 (shift 0 [(0, 1)]).
Proof.
  eexists. eexists. split; [vm_compute; reflexivity|]. split; [|split; [|split]].
  - apply bimap_lawful with (nA := 2); [exact (field_lawful _)| |]; intros v Hv;
      (split; [apply rev_involutive|rewrite rev_length; exact Hv]).
  - apply bimap_framed with (nA := 2); [intros v Hv; rewrite rev_length; exact Hv|exact (field_framed _)].
  - exact (field_framed _).
  - intro F. specialize (F [1; 2]%Z 0 [7%Z] [1; 7]%Z eq_refl).
    match type of F with ?P -> _ => assert (E : P) by (vm_compute; reflexivity) end.
    specialize (F E 1).
    assert (O : outside (shift 0 [(0, 1)]) 0 1) by (intros r [Hr|[]]; subst r; right; cbn; apply le_n).
    specialize (F O). cbn in F. discriminate F.
Qed.

(* ---- the hypotheses of the full theorems are satisfiable (non-vacuity) ---------------------------------------- *)
(* a morphism over KAB with two different isos (A -> B, B -> A), nil entries and a repeated entry *)
Definition r_seq : list (option iso) :=
  match ForProduct1 KAB t_int64 ["A"%string], ForProduct1 KAB t_int64 ["B"%string] with
  | Ok a, Ok b => [None; Some (mkIso a b); None; Some (mkIso b a); Some (mkIso a b); None]
  | _, _ => []
  end.

Lemma r_seq_entries_ok : forall i, In (Some i) r_seq ->
  lawful (i_sa i) 8 /\ focused (i_ta i) 8 (footprint (i_ta i)).
Proof.
  intros i H. vm_compute in H. in_cases H; (split; [exact (field_lawful _)|exact (field_focused _)]).
Qed.

Lemma r_seq_targets_ok : forall i j, In (Some i) r_seq -> In (Some j) r_seq ->
  i = j \/ disjoint_fp (footprint (i_ta i)) (footprint (i_ta j)).
Proof.
  intros i j Hi Hj. vm_compute in Hi. vm_compute in Hj. in_cases Hi; in_cases Hj;
    first [left; reflexivity | right; apply disjointb_sound; vm_compute; reflexivity].
Qed.

(* Forward swaps A and B into the target; Inverse returns and leaves both structures as they were *)
Lemma r_seq_runs : exists w1,
  morphism_forward r_seq w_start = Ok w1 /\ mt w1 = (repeat 2%Z 8 ++ repeat 1%Z 8)%list /\
  morphism_inverse r_seq w1 = Ok w1.
Proof. eexists. split; [vm_compute; reflexivity|]. split; vm_compute; reflexivity. Qed.

(* morphism_roundtrip applied to it *)
Lemma r_seq_roundtrip : forall w1 w2, morphism_forward r_seq w_start = Ok w1 -> morphism_inverse r_seq w1 = Ok w2 ->
  ms w2 = ms w_start /\ mt w2 = mt w1 /\
  (forall k, 16 <= k -> nth_error (mt w2) k = nth_error (mt w_start) k).
Proof.
  intros w1 w2 Hf Hi.
  destruct (morphism_roundtrip (fun _ => 8) (fun i => footprint (i_ta i)) r_seq r_seq_entries_ok r_seq_targets_ok
              _ _ _ Hf Hi) as (A & B & _ & _ & _ & _ & F).
  split; [exact A|]. split; [exact B|]. intros k Hk. apply F.
  intros r Hr. vm_compute in Hr. in_cases Hr; right; cbn; lia.
Qed.

(* the hypotheses of morphism_transport hold for it, and the way back into another structure copies A and B *)
Lemma r_seq_transport_ok : forall i, In (Some i) r_seq ->
  focused (i_sa i) 8 (footprint (i_sa i)) /\ transports (i_sa i) (footprint (i_sa i)) /\
  focused (i_ta i) 8 (footprint (i_ta i)).
Proof.
  intros i H. vm_compute in H.
  in_cases H; (split; [exact (field_focused _)|]; split; [exact (field_transports _)|exact (field_focused _)]).
Qed.

Lemma r_seq_transport_runs : exists w1 w2,
  morphism_forward r_seq w_start = Ok w1 /\
  morphism_inverse r_seq (mkTwo (repeat 9%Z 16) (ps w_start) (mt w1) (pt w1)) = Ok w2 /\ ms w2 = ms w_start.
Proof. eexists. eexists. split; [vm_compute; reflexivity|]. split; vm_compute; reflexivity. Qed.

(* a shape2 over KAB: the component lenses are focused on disjoint foci, and Put returns *)
Lemma shape2_hyps_ok : exists lens,
  ForShape2 KAB t_int64 t_int64 ["A"; "B"]%string = Ok lens /\
  focused (shape2_a lens) 8 [(0, 8)] /\ focused (shape2_b lens) 8 [(8, 8)] /\
  ForallOrdPairs disjoint_fp [[(0, 8)]; [(8, 8)]] /\
  shape2_Put lens 0 (repeat 7%Z 8) (repeat 9%Z 8) (repeat 0%Z 16) = Ok (0, (repeat 7%Z 8 ++ repeat 9%Z 8)%list).
Proof.
  eexists. split; [vm_compute; reflexivity|]. cbn [shape2_a shape2_b].
  split; [exact (field_focused _)|]. split; [exact (field_focused _)|]. split.
  - repeat constructor. apply disjointb_sound. vm_compute. reflexivity.
  - vm_compute. reflexivity.
Qed.

(* a Join chain of depth 3 on K2 is positional: its computed footprint (the 16 bytes of S) is its frame *)
Lemma k2_chain_framed :
  match ForProduct1 K2 K2A [], ForProduct1 K2A K2B [], ForProduct1 K2B K2C [], ForProduct1 K2C t_string ["S"]%string with
  | Ok a, Ok b, Ok c, Ok d =>
      let j := Join (Join (Join a b) c) d in footprint j = [(32, 16)] /\ framed j 16 (footprint j)
  | _, _, _, _ => False
  end.
Proof.
  destruct (ForProduct1 K2 K2A []) as [a|] eqn:Ea; [|vm_compute in Ea; discriminate Ea].
  destruct (ForProduct1 K2A K2B []) as [b|] eqn:Eb; [|vm_compute in Eb; discriminate Eb].
  destruct (ForProduct1 K2B K2C []) as [c|] eqn:Ec; [|vm_compute in Ec; discriminate Ec].
  destruct (ForProduct1 K2C t_string ["S"%string]) as [d|] eqn:Ed; [|vm_compute in Ed; discriminate Ed].
  vm_compute in Ea, Eb, Ec, Ed.
  injection Ea as Ea. injection Eb as Eb. injection Ec as Ec. injection Ed as Ed. subst a b c d.
  split; [vm_compute; reflexivity|]. apply chain_framed. reflexivity.
Qed.
