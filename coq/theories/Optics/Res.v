(* Panics as a poison value propagated strictly. Definitions only. *)
From Coq Require Import List Arith Bool.
Import ListNotations.

Inductive res (A : Type) : Type := Ok (a : A) | Panic.
Arguments Ok {A} a.
Arguments Panic {A}.

Definition bind {A B} (r : res A) (k : A -> res B) : res B :=
  match r with Ok a => k a | Panic => Panic end.
Definition rmap {A B} (f : A -> B) (r : res A) : res B :=
  match r with Ok a => Ok (f a) | Panic => Panic end.

Declare Scope res_scope.
Delimit Scope res_scope with res.
Notation "x <- e ;; k" := (bind e (fun x => k)) (at level 61, e at next level, right associativity) : res_scope.
Notation "' p <- e ;; k" := (bind e (fun p => k)) (at level 61, p pattern, e at next level, right associativity) : res_scope.
Global Open Scope res_scope.

Fixpoint mapM {A B} (f : A -> res B) (l : list A) : res (list B) :=
  match l with
  | [] => Ok []
  | x :: r => y <- f x ;; ys <- mapM f r ;; Ok (y :: ys)
  end.

Definition is_ok {A} (r : res A) : bool := match r with Ok _ => true | Panic => false end.

(* Go's ts[i]: index out of range panics *)
Definition idx {A} (l : list A) (i : nat) : res A :=
  match nth_error l i with Some x => Ok x | None => Panic end.

(* Go's s[lo:hi] on a slice whose capacity is its length: hi > len panics *)
Definition slice {A} (l : list A) (lo hi : nat) : res (list A) :=
  if (Nat.leb lo hi && Nat.leb hi (length l))%bool then Ok (firstn (hi - lo) (skipn lo l)) else Panic.

Definition of_option {A} (o : option A) : res A := match o with Some a => Ok a | None => Panic end.
