(* C04: composed optics are lawful; Getter never writes; Setter writes the converted value; frames. *)
From Coq Require Import List String Bool Arith PeanoNat Lia ZArith.
From Golem Require Import Optics.Layout Optics.Res Optics.Hseq Optics.Mem Optics.Lens Optics.Combinators
  Optics.LayoutFacts Optics.HseqFacts Optics.LensFacts.
Import ListNotations.
Open Scope res_scope.

(* an optic whose values have n bytes obeys the three laws (on every arena, at every address) *)
Record lawful (o : optic) (n : nat) : Prop := mkLawful {
  get_len : forall m s v, oget o m s = Ok v -> List.length v = n;
  get_put : forall m s v, oget o m s = Ok v -> oput o m s v = Ok m;
  put_get : forall m s v m', List.length v = n -> oput o m s v = Ok m' -> oget o m' s = Ok v;
  put_put : forall m s v v' m1, List.length v = n -> List.length v' = n ->
            oput o m s v = Ok m1 -> oput o m1 s v' = oput o m s v'
}.

(* Put never changes the size of the arena *)
Lemma oput_length : forall o m s x m', oput o m s x = Ok m' -> List.length m' = List.length m.
Proof.
  induction o as [l|a IHa b IHb|o IH f g|o IH f|o IH g z]; intros m s x m' H; cbn [oput] in H.
  - unfold lens_put in H. destruct (store m (lens_addr l s) x) as [m1|] eqn:E; cbn in H; [|discriminate].
    inversion H; subst. eapply store_length; eassumption.
  - destruct (oget a m s) as [va|]; cbn [bind] in H; [|discriminate].
    destruct (oput b va 0 x) as [va'|]; cbn [bind] in H; [|discriminate].
    eapply IHa; eassumption.
  - eapply IH; eassumption.
  - inversion H; subst. reflexivity.
  - eapply IH; eassumption.
Qed.

Lemma field_lawful : forall l, lawful (Field l) (sizeof (l_A l)).
Proof.
  intro l. constructor.
  - intros m s v H. cbn [oget] in H. unfold lens_get in H.
    destruct (load m (lens_addr l s) (sizeof (l_A l))) as [w|] eqn:E; cbn in H; [|discriminate].
    inversion H; subst. exact (proj2 (proj2 (load_some _ _ _ _ E))).
  - intros m s v H. cbn [oget oput] in *. rewrite (lens_get_put _ _ _ _ H). reflexivity.
  - intros m s v m' Hl H. cbn [oget oput] in *.
    destruct (lens_put l m s v) as [[p m1]|] eqn:E; cbn in H; [|discriminate]. inversion H; subst.
    eapply lens_put_get; eassumption.
  - intros m s v v' m1 Hl Hl' H. cbn [oput] in *.
    destruct (lens_put l m s v) as [[p m2]|] eqn:E; cbn in H; [|discriminate]. inversion H; subst.
    rewrite (lens_put_put l m s v v' p m1 E) by congruence. reflexivity.
Qed.

(* BiMap with mutually inverse, size-respecting conversions *)
Lemma bimap_lawful : forall o f g nA nB,
  lawful o nA ->
  (forall a, List.length a = nA -> g (f a) = a /\ List.length (f a) = nB) ->
  (forall b, List.length b = nB -> f (g b) = b /\ List.length (g b) = nA) ->
  lawful (BiMap o f g) nB.
Proof.
  intros o f g nA nB L Hgf Hfg. constructor.
  - intros m s v H. cbn [oget] in H. destruct (oget o m s) as [w|] eqn:E; cbn in H; [|discriminate].
    inversion H; subst. apply Hgf. exact (get_len _ _ L _ _ _ E).
  - intros m s v H. cbn [oget oput] in *. destruct (oget o m s) as [w|] eqn:E; cbn in H; [|discriminate].
    inversion H; subst. rewrite (proj1 (Hgf w (get_len _ _ L _ _ _ E))). exact (get_put _ _ L _ _ _ E).
  - intros m s v m' Hl H. cbn [oget oput] in *.
    rewrite (put_get _ _ L m s (g v) m' (proj2 (Hfg v Hl)) H). cbn. rewrite (proj1 (Hfg v Hl)). reflexivity.
  - intros m s v v' m1 Hl Hl' H. cbn [oput] in *.
    exact (put_put _ _ L _ _ _ _ _ (proj2 (Hfg v Hl)) (proj2 (Hfg v' Hl')) H).
Qed.

(* Join: the outer optic focuses a value of nA bytes, the inner optic works on that value as its own arena *)
Lemma join_lawful : forall a b nA nB, lawful a nA -> lawful b nB -> lawful (Join a b) nB.
Proof.
  intros a b nA nB La Lb. constructor.
  - intros m s v H. cbn [oget] in H. destruct (oget a m s) as [va|]; cbn [bind] in H; [|discriminate].
    exact (get_len _ _ Lb _ _ _ H).
  - intros m s v H. cbn [oget oput] in *. destruct (oget a m s) as [va|] eqn:Ea; cbn [bind] in *; [|discriminate].
    rewrite (get_put _ _ Lb _ _ _ H). cbn [bind]. exact (get_put _ _ La _ _ _ Ea).
  - intros m s v m' Hl H. cbn [oget oput] in *.
    destruct (oget a m s) as [va|] eqn:Ea; cbn [bind] in H; [|discriminate].
    destruct (oput b va 0 v) as [va'|] eqn:Eb; cbn [bind] in H; [|discriminate].
    assert (Hva' : List.length va' = nA).
    { rewrite (oput_length _ _ _ _ _ Eb). exact (get_len _ _ La _ _ _ Ea). }
    rewrite (put_get _ _ La _ _ _ _ Hva' H). cbn [bind]. exact (put_get _ _ Lb _ _ _ _ Hl Eb).
  - intros m s v v' m1 Hl Hl' H. cbn [oput] in *.
    destruct (oget a m s) as [va|] eqn:Ea; cbn [bind] in *; [|discriminate].
    destruct (oput b va 0 v) as [va'|] eqn:Eb; cbn [bind] in H; [|discriminate].
    assert (Hva : List.length va = nA) by exact (get_len _ _ La _ _ _ Ea).
    assert (Hva' : List.length va' = nA) by (rewrite (oput_length _ _ _ _ _ Eb); exact Hva).
    rewrite (put_get _ _ La _ _ _ _ Hva' H). cbn [bind].
    rewrite (put_put _ _ Lb _ _ _ _ _ Hl Hl' Eb).
    destruct (oput b va 0 v') as [r|] eqn:Er; cbn [bind]; [|reflexivity].
    assert (Hr : List.length r = nA) by (rewrite (oput_length _ _ _ _ _ Er); exact Hva).
    exact (put_put _ _ La _ _ _ _ _ Hva' Hr H).
Qed.

(* Getter never writes; Setter writes exactly the converted value and reads the zero value *)
Lemma getter_never_writes : forall o f m s x, oput (Getter o f) m s x = Ok m /\ oget (Getter o f) m s = rmap f (oget o m s).
Proof. intros; split; reflexivity. Qed.

Lemma setter_writes_cmap : forall o g z m s x, oput (Setter o g z) m s x = oput o m s (g x) /\ oget (Setter o g z) m s = Ok z.
Proof. intros; split; reflexivity. Qed.

(* ---- frames -------------------------------------------------------------------------------- *)
(* [framed o fp]: a Put through o changes no byte of the arena outside the ranges fp (relative to the structure) *)
Definition outside (fp : list (nat * nat)) (s i : nat) : Prop := forall r, In r fp -> i < s + fst r \/ s + fst r + snd r <= i.
Definition framed (o : optic) (n : nat) (fp : list (nat * nat)) : Prop :=
  forall m s x m', List.length x = n -> oput o m s x = Ok m' -> forall i, outside fp s i -> nth_error m' i = nth_error m i.

(* a field lens writes inside its field only *)
Lemma field_framed : forall l, framed (Field l) (sizeof (l_A l)) [(e_off (l_t l) + e_root (l_t l), sizeof (l_A l))].
Proof.
  intros l m s x m' Hl H i Hi. cbn [oput] in H. unfold lens_put in H.
  destruct (store m (lens_addr l s) x) as [m1|] eqn:E; cbn in H; [|discriminate]. inversion H; subst.
  apply (store_outside _ _ _ _ E). unfold lens_addr.
  specialize (Hi _ (or_introl eq_refl)). cbn [fst snd] in Hi. lia.
Qed.

(* Join changes nothing outside the focus of its OUTER optic, and so do the wrappers *)
Lemma join_frame_outer : forall a b nA nB fp, lawful a nA -> framed a nA fp -> framed (Join a b) nB fp.
Proof.
  intros a b nA nB fp La Fa m s x m' Hl H i Hi. cbn [oput] in H.
  destruct (oget a m s) as [va|] eqn:Ea; cbn [bind] in H; [|discriminate].
  destruct (oput b va 0 x) as [va'|] eqn:Eb; cbn [bind] in H; [|discriminate].
  assert (Hva' : List.length va' = nA).
  { rewrite (oput_length _ _ _ _ _ Eb). exact (get_len _ _ La _ _ _ Ea). }
  exact (Fa _ _ _ _ Hva' H i Hi).
Qed.

Lemma bimap_framed : forall o f g nA nB fp, (forall b, List.length b = nB -> List.length (g b) = nA) ->
  framed o nA fp -> framed (BiMap o f g) nB fp.
Proof. intros o f g nA nB fp Hg F m s x m' Hl H. cbn [oput] in H. exact (F _ _ _ _ (Hg x Hl) H). Qed.

Lemma setter_framed : forall o g z nA nB fp, (forall b, List.length b = nB -> List.length (g b) = nA) ->
  framed o nA fp -> framed (Setter o g z) nB fp.
Proof. intros o g z nA nB fp Hg F m s x m' Hl H. cbn [oput] in H. exact (F _ _ _ _ (Hg x Hl) H). Qed.

Lemma getter_framed : forall o f n, framed (Getter o f) n [].
Proof. intros o f n m s x m' _ H i _. cbn [oput] in H. inversion H; subst. reflexivity. Qed.

(* ---- map lens -------------------------------------------------------------------------------- *)
Section MapKey.
  Context {K V : Type} (keqb : K -> K -> bool).
  Hypothesis keqb_spec : forall a b, keqb a b = true <-> a = b.

  Lemma keqb_refl : forall a, keqb a a = true. Proof. intro a. apply keqb_spec. reflexivity. Qed.

  Lemma map_get_put_same : forall (m : list (K * V)) k v, map_get keqb (map_put keqb m k v) k = Some v.
  Proof.
    induction m as [|[k' v'] m IH]; intros k v; cbn.
    - rewrite keqb_refl. reflexivity.
    - destruct (keqb k' k) eqn:E; cbn; rewrite E; [reflexivity|apply IH].
  Qed.

  Lemma map_get_put_other : forall (m : list (K * V)) k k' v, k' <> k -> map_get keqb (map_put keqb m k v) k' = map_get keqb m k'.
  Proof.
    induction m as [|[k0 v0] m IH]; intros k k' v Hne; cbn.
    - destruct (keqb k k') eqn:E; [apply keqb_spec in E; congruence|reflexivity].
    - destruct (keqb k0 k) eqn:E; cbn.
      + apply keqb_spec in E. subst k0. destruct (keqb k k') eqn:E'; [apply keqb_spec in E'; congruence|reflexivity].
      + destruct (keqb k0 k'); [reflexivity|apply IH; exact Hne].
  Qed.

  (* a map lens touches only its key *)
  Lemma mapkey_frame : forall (zero : V) (m : list (K * V)) k v,
    mapkey_get keqb zero k (mapkey_put keqb k m v) = v /\
    forall k', k' <> k -> map_get keqb (mapkey_put keqb k m v) k' = map_get keqb m k'.
  Proof.
    intros zero m k v. split.
    - unfold mapkey_get, mapkey_put. rewrite map_get_put_same. reflexivity.
    - intros k' H. apply map_get_put_other. exact H.
  Qed.
End MapKey.

(* ---- isomorphisms ------------------------------------------------------------------------------ *)
(* Forward then Inverse restores the source structure and leaves the target as Forward made it *)
Lemma iso_roundtrip : forall i n w w1 w2, lawful (i_sa i) n -> lawful (i_ta i) n ->
  iso_forward i w = Ok w1 -> iso_inverse i w1 = Ok w2 ->
  ms w2 = ms w /\ mt w2 = mt w1 /\ ms w1 = ms w /\ ps w2 = ps w /\ pt w2 = pt w.
Proof.
  intros i n w w1 w2 Ls Lt Hf Hi. unfold iso_forward in Hf. unfold iso_inverse in Hi.
  destruct (oget (i_sa i) (ms w) (ps w)) as [a|] eqn:Ea; cbn [bind] in Hf; [|discriminate].
  destruct (oput (i_ta i) (mt w) (pt w) a) as [mt'|] eqn:Et; cbn [bind] in Hf; [|discriminate].
  inversion Hf; subst w1. cbn [ms ps mt pt] in Hi.
  rewrite (put_get _ _ Lt _ _ _ _ (get_len _ _ Ls _ _ _ Ea) Et) in Hi. cbn [bind] in Hi.
  rewrite (get_put _ _ Ls _ _ _ Ea) in Hi. cbn [bind] in Hi. inversion Hi; subst w2. cbn. repeat split.
Qed.

(* the way back into ANOTHER source structure makes its source focus equal to the original one *)
Lemma iso_transport : forall i n w w1 m2 w2, lawful (i_sa i) n -> lawful (i_ta i) n ->
  iso_forward i w = Ok w1 -> iso_inverse i (mkTwo m2 (ps w) (mt w1) (pt w1)) = Ok w2 ->
  oget (i_sa i) (ms w2) (ps w) = oget (i_sa i) (ms w) (ps w).
Proof.
  intros i n w w1 m2 w2 Ls Lt Hf Hi. unfold iso_forward in Hf. unfold iso_inverse in Hi.
  destruct (oget (i_sa i) (ms w) (ps w)) as [a|] eqn:Ea; cbn [bind] in Hf; [|discriminate].
  destruct (oput (i_ta i) (mt w) (pt w) a) as [mt'|] eqn:Et; cbn [bind] in Hf; [|discriminate].
  inversion Hf; subst w1. cbn [ms ps mt pt] in Hi.
  rewrite (put_get _ _ Lt _ _ _ _ (get_len _ _ Ls _ _ _ Ea) Et) in Hi. cbn [bind] in Hi.
  destruct (oput (i_sa i) m2 (ps w) a) as [m2'|] eqn:E2; cbn [bind] in Hi; [|discriminate].
  inversion Hi; subst w2. cbn [ms]. exact (put_get _ _ Ls _ _ _ _ (get_len _ _ Ls _ _ _ Ea) E2).
Qed.

(* nil entries are skipped *)
Lemma morphism_skips_nil : forall seq w,
  morphism_forward (None :: seq) w = morphism_forward seq w /\ morphism_inverse (None :: seq) w = morphism_inverse seq w.
Proof. intros; split; reflexivity. Qed.

(* a morphism of one iso, with any number of nil entries, round-trips *)
Lemma morphism_roundtrip_single : forall i n w w1 w2 k1 k2, lawful (i_sa i) n -> lawful (i_ta i) n ->
  let seq := repeat None k1 ++ Some i :: repeat None k2 in
  morphism_forward seq w = Ok w1 -> morphism_inverse seq w1 = Ok w2 ->
  ms w2 = ms w /\ mt w2 = mt w1.
Proof.
  intros i n w w1 w2 k1 k2 Ls Lt seq Hf Hi. subst seq.
  assert (F : forall k s x, morphism_forward (repeat None k ++ s) x = morphism_forward s x).
  { induction k; intros; cbn; [reflexivity|apply IHk]. }
  assert (G : forall k s x, morphism_inverse (repeat None k ++ s) x = morphism_inverse s x).
  { induction k; intros; cbn; [reflexivity|apply IHk]. }
  assert (F0 : forall k x, morphism_forward (repeat None k) x = Ok x).
  { induction k; intros; cbn; [reflexivity|apply IHk]. }
  assert (G0 : forall k x, morphism_inverse (repeat None k) x = Ok x).
  { induction k; intros; cbn; [reflexivity|apply IHk]. }
  rewrite F in Hf. rewrite G in Hi. cbn [morphism_forward morphism_inverse] in Hf, Hi.
  destruct (iso_forward i w) as [wa|] eqn:Ea; cbn [bind] in Hf; [|discriminate]. rewrite F0 in Hf. inversion Hf; subst wa.
  destruct (iso_inverse i w1) as [wb|] eqn:Eb; cbn [bind] in Hi; [|discriminate]. rewrite G0 in Hi. inversion Hi; subst wb.
  destruct (iso_roundtrip _ _ _ _ _ Ls Lt Ea Eb) as (A & B & _). split; assumption.
Qed.
