(* C02: the rejections of a derivation request, stated on [select] (what every generated
   ForProductN / ForSpectrumN starts with, see GenOpticsFacts.v) and on the NewLens wrapper. *)
From Coq Require Import List String Bool Arith PeanoNat Lia.
From Golem Require Import Optics.GenPrelude Optics.LayoutFacts Optics.HseqFacts Optics.LensFacts Optics.GenOpticsFacts.
Import ListNotations.
Open Scope res_scope.

Lemma select_too_few : forall T As attr, attr <> [] -> List.length attr < List.length As -> select T As attr = Panic.
Proof.
  intros T As attr Hne Hl. destruct attr as [|a attr]; [contradiction|].
  unfold select. rewrite (reject_too_few _ _ Hl). reflexivity.
Qed.

Lemma slice_prefix : forall {A} (l : list A) n, n <= List.length l -> slice l 0 n = Ok (firstn n l).
Proof.
  intros A l n H. unfold slice. cbn [Nat.leb andb]. rewrite (proj2 (Nat.leb_le _ _) H).
  rewrite Nat.sub_0_r. reflexivity.
Qed.

Lemma select_unknown_name : forall T As attr n,
  attr <> [] -> List.length As <= List.length attr -> In n (firstn (List.length As) attr) ->
  (forall y, In y (unfold (strip T) [] 0 [] true) -> e_key y <> n) ->
  select T As attr = Panic.
Proof.
  intros T As attr n Hne Hl Hin H. destruct attr as [|a attr]; [contradiction|].
  unfold select. rewrite (slice_prefix _ _ Hl). cbn [bind].
  eapply reject_unknown_name; eassumption.
Qed.

Lemma select_unknown_type : forall T As A, In A As ->
  (forall y, In y (unfold (strip T) [] 0 [] true) -> e_ty y <> A) ->
  select T As [] = Panic.
Proof.
  intros T As A Hin H. unfold select. unfold hseq_New. destruct (strip T) eqn:E; try reflexivity.
  cbn [bind]. eapply mapM_panic; [exact Hin|]. apply reject_unknown_type. exact H.
Qed.

Lemma select_non_struct : forall T As attr, is_struct (strip T) = false -> select T As attr = Panic.
Proof.
  intros T As attr H. unfold select. destruct attr as [|a attr].
  - rewrite (new_nonstruct _ _ H). reflexivity.
  - destruct (slice (a :: attr) 0 (List.length As)); [|reflexivity]. cbn [bind]. apply new_nonstruct. exact H.
Qed.

(* the selected entries are the positional lookups: by type (first match) without names, else by the first N names *)
Lemma select_by_type : forall T As, is_struct (strip T) = true ->
  select T As [] = mapM (fun X => hseq_ForType X (unfold (strip T) [] 0 [] true)) As.
Proof. intros T As H. unfold select. rewrite (new_all _ H). reflexivity. Qed.

Lemma select_by_name : forall T As attr, attr <> [] -> List.length As <= List.length attr -> As <> [] ->
  is_struct (strip T) = true ->
  select T As attr = mapM (hseq_ForName (unfold (strip T) [] 0 [] true)) (firstn (List.length As) attr).
Proof.
  intros T As attr Hne Hl HAs Hs. destruct attr as [|a attr]; [contradiction|].
  unfold select. rewrite (slice_prefix _ _ Hl). cbn [bind].
  assert (Hn : firstn (List.length As) (a :: attr) <> []).
  { destruct As; [contradiction|]. cbn. discriminate. }
  exact (proj1 (new_names_order T _ Hn Hs)).
Qed.

(* NewLens (the prelude wrapper the generated code calls) is new_lens *)
Lemma NewLens_ok : forall S A e o, NewLens S A e = Ok o -> exists l, o = Field l /\ new_lens S A e = Ok l.
Proof.
  intros S A e o H. unfold NewLens in H. destruct (new_lens S A e) as [l|]; cbn in H; [|discriminate].
  inversion H; subst. exists l. split; reflexivity.
Qed.

Lemma NewLens_panic : forall S A e, new_lens S A e = Panic -> NewLens S A e = Panic.
Proof. intros S A e H. unfold NewLens. rewrite H. reflexivity. Qed.
