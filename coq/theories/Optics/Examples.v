(* Example struct types for the non-vacuity examples of Properties/C01..C04.v. Definitions only.
   Layouts are computed by golayout (the gc rules), so the examples also exercise it. *)
From Coq Require Import List String Bool Arith ZArith.
From Golem Require Import Optics.Combinators.
Import ListNotations.
Local Open Scope string_scope.

Definition t_bool := TPrim "bool" 1 1.
Definition t_int8 := TPrim "int8" 1 1.
Definition t_int16 := TPrim "int16" 2 2.
Definition t_int32 := TPrim "int32" 4 4.
Definition t_int64 := TPrim "int64" 8 8.
Definition t_string := TOpaque "string" 16 8.
Definition t_bytes := TOpaque "[]uint8" 24 8.
Definition t_empty := TStruct "struct {}" 0 [].
Definition t_mystr := TOpaque "main.MyStr" 16 8.

Definition fld (n : string) (t : ty) : fdecl * ty := (mkF n "" false 0, t).
Definition tagged (n tag : string) (t : ty) : fdecl * ty := (mkF n tag false 0, t).
Definition emb (n : string) (t : ty) : fdecl * ty := (mkF n "" true 0, t).

(* type K2C struct { Z int16; S string }
   type K2B struct { Y int8; K2C }
   type K2A struct { X bool; K2B; W []byte }
   type K2  struct { A int8; K2A; B int64 `hseq:"bee,opt"`; Z struct{} }     -- value embedding of depth 3,
   padding holes after A, X, Y, Z, a zero-size final field (one byte of trailing padding, rounded to 8) *)
Definition K2C := golayout (TStruct "main.K2C" 0 [fld "Z" t_int16; fld "S" t_string]).
Definition K2B := golayout (TStruct "main.K2B" 0 [fld "Y" t_int8; emb "K2C" K2C]).
Definition K2A := golayout (TStruct "main.K2A" 0 [fld "X" t_bool; emb "K2B" K2B; fld "W" t_bytes]).
Definition K2 := golayout (TStruct "main.K2" 0 [fld "A" t_int8; emb "K2A" K2A; tagged "B" "bee,opt" t_int64; fld "Z" t_empty]).

(* type K3In struct { X int64; Y string }
   type K3   struct { A int8; *K3In; B int64 }       -- the embedded-pointer shape of finding F5 *)
Definition K3In := golayout (TStruct "main.K3In" 0 [fld "X" t_int64; fld "Y" t_string]).
Definition K3 := golayout (TStruct "main.K3" 0 [fld "A" t_int8; emb "K3In" (TPtr K3In); fld "B" t_int64]).

(* type K4P struct { W int64; X int64 }
   type K4  struct { *K4P; X int64 }   -- K4P.X behind the pointer coincides in offset, name and type with K4.X *)
Definition K4P := golayout (TStruct "main.K4P" 0 [fld "W" t_int64; fld "X" t_int64]).
Definition K4 := golayout (TStruct "main.K4" 0 [emb "K4P" (TPtr K4P); fld "X" t_int64]).

(* an arena: 8 guard bytes, a K2 (bytes 100..), 8 guard bytes *)
Definition guard := [250; 251; 252; 253; 254; 255; 250; 251]%Z.
Definition k2_bytes : list Z := map Z.of_nat (seq 100 (sizeof K2)).
Definition k2_arena : mem := (guard ++ k2_bytes ++ guard)%list.
Definition k2_base := 8.

Definition listing (t : ty) : list entry := unfold t [] 0 [] true.
Definition entry_named (t : ty) (n : string) : option entry := for_name_maybe (listing t) n.
