(* C04, BiMapI across widths: the conversions by value (Optics/Conv.v) are mutually inverse exactly on the values of
   the narrower type; the laws of a BiMap whose conversions are inverse on part of their domains; what sresize does
   to the VALUE of a byte string (Go's conversion between signed integer types). *)
From Coq Require Import List Bool Arith PeanoNat Lia ZArith.
From Golem Require Import Optics.Layout Optics.Res Optics.Mem Optics.Lens Optics.Combinators Optics.Conv Optics.CombFacts.
Import ListNotations.
Open Scope res_scope.

(* ---- sresize on byte lists --------------------------------------------------------------------- *)
Lemma sresize_length : forall n v, List.length (sresize n v) = n.
Proof.
  intros n v. unfold sresize. destruct (Nat.leb n (List.length v)) eqn:E.
  - apply Nat.leb_le in E. apply firstn_length_le. exact E.
  - apply Nat.leb_gt in E. rewrite app_length, repeat_length. lia.
Qed.

(* a conversion between types of one width is the identity on bytes *)
Lemma sresize_same : forall v, sresize (List.length v) v = v.
Proof. intro v. unfold sresize. rewrite Nat.leb_refl. apply firstn_all. Qed.

(* widening then narrowing: A(B(a)) = a for every a *)
Lemma sresize_narrow_widen : forall nA nB a, List.length a = nA -> nA <= nB -> sresize nA (sresize nB a) = a.
Proof.
  intros nA nB a Hl Hle. unfold sresize at 2. destruct (Nat.leb nB (List.length a)) eqn:E.
  - apply Nat.leb_le in E. assert (nB = nA) by lia. subst nB. rewrite <- Hl at 2. rewrite firstn_all.
    rewrite <- Hl. apply sresize_same.
  - unfold sresize. rewrite app_length, repeat_length.
    assert (H : Nat.leb nA (List.length a + (nB - List.length a)) = true) by (apply Nat.leb_le; lia).
    rewrite H. rewrite firstn_app. rewrite <- Hl. rewrite firstn_all, Nat.sub_diag. cbn [firstn]. apply app_nil_r.
Qed.

(* a value of at most k bytes fits k bytes *)
Lemma representable_short : forall k b, List.length b <= k -> representable k b.
Proof. intros k b H. unfold representable. rewrite (firstn_all2 b H). apply sresize_same. Qed.

(* narrowing then widening: B(A(b)) = b for the b that fit the narrower type *)
Lemma sresize_widen_narrow : forall nA nB b, List.length b = nB -> nA <= nB -> representable nA b ->
  sresize nB (sresize nA b) = b.
Proof.
  intros nA nB b Hl Hle R. unfold sresize at 2. rewrite Hl.
  assert (H : Nat.leb nA nB = true) by (apply Nat.leb_le; exact Hle). rewrite H.
  unfold representable in R. rewrite Hl in R. exact R.
Qed.

(* both directions at once: converting an nA-byte value to nB bytes and back returns it when it fits min nA nB bytes *)
Lemma sresize_inverse : forall nA nB a, List.length a = nA -> representable (Nat.min nA nB) a ->
  sresize nA (sresize nB a) = a.
Proof.
  intros nA nB a Hl R. destruct (Nat.le_gt_cases nA nB) as [Hle|Hgt].
  - apply sresize_narrow_widen; assumption.
  - rewrite Nat.min_r in R by lia. apply sresize_widen_narrow; [exact Hl|lia|exact R].
Qed.

Lemma bytes_eqb_eq : forall a b, bytes_eqb a b = true <-> a = b.
Proof.
  induction a as [|x a IH]; destruct b as [|y b]; cbn [bytes_eqb]; split; intro H; try reflexivity; try discriminate.
  - apply andb_true_iff in H. destruct H as [H1 H2]. apply Z.eqb_eq in H1. apply IH in H2. subst. reflexivity.
  - injection H as H1 H2. subst. rewrite Z.eqb_refl. apply IH. reflexivity.
Qed.

Lemma representableb_spec : forall k b, representableb k b = true <-> representable k b.
Proof. intros k b. unfold representableb, representable. apply bytes_eqb_eq. Qed.

(* ---- a BiMap whose conversions are mutually inverse on part of their domains ------------------------------------
   [lawful_on o n P G]: the laws of an optic with n-byte values where GetPut is claimed on the arenas G only and PutGet
   for the values P only ([lawful o n] is the case of no restriction). *)
Record lawful_on (o : optic) (n : nat) (P : value -> Prop) (G : mem -> nat -> Prop) : Prop := mkLawfulOn {
  on_get_len : forall m s v, oget o m s = Ok v -> List.length v = n;
  on_get_put : forall m s v, G m s -> oget o m s = Ok v -> oput o m s v = Ok m;
  on_put_get : forall m s v m', List.length v = n -> P v -> oput o m s v = Ok m' -> oget o m' s = Ok v;
  on_put_put : forall m s v v' m1, List.length v = n -> List.length v' = n ->
               oput o m s v = Ok m1 -> oput o m1 s v' = oput o m s v'
}.

Lemma lawful_on_all : forall o n, lawful o n <-> lawful_on o n (fun _ => True) (fun _ _ => True).
Proof.
  intros o n. split; intro L.
  - constructor.
    + exact (get_len _ _ L).
    + intros m s v _ H. exact (get_put _ _ L _ _ _ H).
    + intros m s v m' Hl _ H. exact (put_get _ _ L _ _ _ _ Hl H).
    + exact (put_put _ _ L).
  - constructor.
    + exact (on_get_len _ _ _ _ L).
    + intros m s v H. exact (on_get_put _ _ _ _ L _ _ _ I H).
    + intros m s v m' Hl H. exact (on_put_get _ _ _ _ L _ _ _ _ Hl I H).
    + exact (on_put_put _ _ _ _ L).
Qed.

(* g . f = id on the field contents PA, f . g = id on the values PB: GetPut where the field holds a PA, PutGet for the PB *)
Lemma bimap_lawful_on : forall o f g nA nB (PA PB : value -> Prop),
  lawful o nA ->
  (forall a, List.length a = nA -> List.length (f a) = nB) ->
  (forall b, List.length b = nB -> List.length (g b) = nA) ->
  (forall a, List.length a = nA -> PA a -> g (f a) = a) ->
  (forall b, List.length b = nB -> PB b -> f (g b) = b) ->
  lawful_on (BiMap o f g) nB PB (fun m s => forall a, oget o m s = Ok a -> PA a).
Proof.
  intros o f g nA nB PA PB L Hf Hg Hgf Hfg. constructor.
  - intros m s v H. cbn [oget] in H. destruct (oget o m s) as [w|] eqn:E; cbn in H; [|discriminate].
    inversion H; subst. apply Hf. exact (get_len _ _ L _ _ _ E).
  - intros m s v G H. cbn [oget oput] in *. destruct (oget o m s) as [w|] eqn:E; cbn in H; [|discriminate].
    inversion H; subst. rewrite (Hgf w (get_len _ _ L _ _ _ E) (G w eq_refl)). exact (get_put _ _ L _ _ _ E).
  - intros m s v m' Hl Pv H. cbn [oget oput] in *.
    rewrite (put_get _ _ L m s (g v) m' (Hg v Hl) H). cbn. rewrite (Hfg v Hl Pv). reflexivity.
  - intros m s v v' m1 Hl Hl' H. cbn [oput] in *.
    exact (put_put _ _ L _ _ _ _ _ (Hg v Hl) (Hg v' Hl') H).
Qed.

(* BiMapI[S, A, B] over a lawful lens on an nA-byte integer field, exposing nB-byte integers: a lens on the values that
   fit the narrower of the two types.  Same width: no restriction at all (representable_short). *)
Lemma bimapI_lawful_on : forall o nA nB, lawful o nA ->
  lawful_on (BiMap o (sresize nB) (sresize nA)) nB
            (representable (Nat.min nA nB))
            (fun m s => forall a, oget o m s = Ok a -> representable (Nat.min nA nB) a).
Proof.
  intros o nA nB L. apply (bimap_lawful_on o (sresize nB) (sresize nA) nA nB); try exact L.
  - intros a _. apply sresize_length.
  - intros b _. apply sresize_length.
  - intros a Hl R. apply sresize_inverse; assumption.
  - intros b Hl R. apply sresize_inverse; [exact Hl|]. rewrite Nat.min_comm. exact R.
Qed.

(* .. and a Put through it changes nothing outside the frame of the field lens, whatever value is put *)
Lemma bimapI_framed : forall o nA nB fp, framed o nA fp -> framed (BiMap o (sresize nB) (sresize nA)) nB fp.
Proof. intros o nA nB fp F. apply (bimap_framed o _ _ nA nB fp); [|exact F]. intros b _. apply sresize_length. Qed.

(* exposing a wider type: the conversions are inverse on every field content, so the only restriction left is PutGet
   on the values that fit the field *)
Lemma bimapI_widening_get_put : forall o nA nB m s v, lawful o nA -> nA <= nB ->
  oget (BiMap o (sresize nB) (sresize nA)) m s = Ok v -> oput (BiMap o (sresize nB) (sresize nA)) m s v = Ok m.
Proof.
  intros o nA nB m s v L Hle H. refine (on_get_put _ _ _ _ (bimapI_lawful_on o nA nB L) m s v _ H).
  intros a Ha. apply representable_short. pose proof (get_len _ _ L _ _ _ Ha) as Hla.
  rewrite Nat.min_l by exact Hle. apply Nat.eq_le_incl. exact Hla.
Qed.

(* exposing a narrower type: PutGet holds for every value; GetPut needs the field to hold a value of the narrow type *)
Lemma bimapI_narrowing_put_get : forall o nA nB m s v m', lawful o nA -> nB <= nA -> List.length v = nB ->
  oput (BiMap o (sresize nB) (sresize nA)) m s v = Ok m' -> oget (BiMap o (sresize nB) (sresize nA)) m' s = Ok v.
Proof.
  intros o nA nB m s v m' L Hle Hl H. refine (on_put_get _ _ _ _ (bimapI_lawful_on o nA nB L) m s v m' Hl _ H).
  apply representable_short. rewrite Nat.min_r by exact Hle. apply Nat.eq_le_incl. exact Hl.
Qed.

(* ---- what sresize does to the value: Go's conversion between signed integer types ------------------------------ *)
Local Open Scope Z_scope.

Definition W (k : nat) : Z := 256 ^ Z.of_nat k.

Lemma W_pos : forall k, 0 < W k.
Proof. intro k. unfold W. apply Z.pow_pos_nonneg; lia. Qed.

Lemma W_S : forall k, W (S k) = 256 * W k.
Proof. intro k. unfold W. rewrite Nat2Z.inj_succ. rewrite Z.pow_succ_r by lia. reflexivity. Qed.

Lemma W_add : forall a b, W (a + b) = W a * W b.
Proof. intros a b. unfold W. rewrite Nat2Z.inj_add. apply Z.pow_add_r; lia. Qed.

Lemma W_even : forall k, (0 < k)%nat -> W k = 2 * (W k / 2).
Proof.
  intros k H. destruct k as [|k]; [lia|]. rewrite W_S.
  replace (256 * W k) with (W k * 128 * 2) by ring. rewrite Z.div_mul by lia. ring.
Qed.

Lemma W_le : forall a b, (a <= b)%nat -> W a <= W b.
Proof. intros a b H. unfold W. apply Z.pow_le_mono_r; lia. Qed.

Lemma uval_app : forall a b, uval (a ++ b) = uval a + W (List.length a) * uval b.
Proof.
  induction a as [|x a IH]; intro b.
  - unfold uval, W. cbn [app List.length fold_right Z.of_nat]. rewrite Z.pow_0_r. lia.
  - cbn [app List.length]. unfold uval in *. cbn [fold_right]. rewrite IH. rewrite W_S. ring.
Qed.

Lemma bytes_app : forall a b, bytes (a ++ b) <-> bytes a /\ bytes b.
Proof. intros a b. unfold bytes. apply Forall_app. Qed.

Lemma uval_bound : forall v, bytes v -> 0 <= uval v < W (List.length v).
Proof.
  induction v as [|x v IH]; intro B.
  - cbn. unfold W. cbn. lia.
  - inversion B as [|y l Hx Hv]; subst. specialize (IH Hv). cbn [List.length]. rewrite W_S.
    unfold uval in *. cbn [fold_right]. lia.
Qed.

Lemma uval_repeat0 : forall k, uval (repeat 0 k) = 0.
Proof. induction k as [|k IH]; [reflexivity|]. cbn [repeat]. unfold uval in *. cbn [fold_right]. rewrite IH. reflexivity. Qed.

Lemma uval_repeat255 : forall k, uval (repeat 255 k) = W k - 1.
Proof.
  induction k as [|k IH]; [reflexivity|]. cbn [repeat]. rewrite W_S. unfold uval in *. cbn [fold_right]. rewrite IH. ring.
Qed.

Lemma bytes_firstn : forall n v, bytes v -> bytes (firstn n v).
Proof.
  intros n v B. rewrite <- (firstn_skipn n v) in B. apply bytes_app in B. exact (proj1 B).
Qed.

Lemma uval_firstn : forall n v, bytes v -> (n <= List.length v)%nat -> uval (firstn n v) = uval v mod W n.
Proof.
  intros n v B Hn. pose proof (uval_bound _ (bytes_firstn n v B)) as Hb.
  rewrite (firstn_length_le v Hn) in Hb.
  rewrite <- (firstn_skipn n v) at 2. rewrite uval_app. rewrite (firstn_length_le v Hn).
  apply (Z.mod_unique _ _ (uval (skipn n v))); [left; exact Hb|ring].
Qed.

(* the sign byte is 255 exactly when the value is negative *)
Lemma sign_byte_spec : forall v, bytes v -> v <> [] ->
  sign_byte v = if 2 * uval v <? W (List.length v) then 0 else 255.
Proof.
  intros v B Hne. destruct (exists_last Hne) as (ini & l & E). subst v.
  apply bytes_app in B. destruct B as [Bi Bl]. inversion Bl as [|y r Hl _]; subst.
  pose proof (uval_bound _ Bi) as Hi. pose proof (W_pos (List.length ini)) as Hw.
  unfold sign_byte. rewrite last_last. rewrite uval_app. rewrite app_length. cbn [List.length].
  rewrite Nat.add_1_r, W_S. unfold uval at 2. cbn [fold_right]. rewrite Z.mul_0_r, Z.add_0_r.
  destruct (Z.leb_spec 128 l) as [H|H];
    destruct (Z.ltb_spec (2 * (uval ini + W (List.length ini) * l)) (256 * W (List.length ini))) as [H'|H'];
    try reflexivity; exfalso; nia.
Qed.

(* swrap picks the representative in [-W/2, W/2) *)
Lemma swrap_of_residue : forall n u k, (0 < n)%nat -> 0 <= u < W n ->
  swrap n (u + k * W n) = if 2 * u <? W n then u else u - W n.
Proof.
  intros n u k Hn Hu. unfold swrap. fold (W n). pose proof (W_even n Hn) as He. set (h := W n / 2) in *.
  destruct (Z.ltb_spec (2 * u) (W n)) as [H|H].
  - replace (u + k * W n + h) with ((u + h) + k * W n) by ring. rewrite Z.mod_add by lia.
    rewrite Z.mod_small by lia. ring.
  - replace (u + k * W n + h) with ((u + h - W n) + (k + 1) * W n) by ring. rewrite Z.mod_add by lia.
    rewrite Z.mod_small by lia. ring.
Qed.

Lemma swrap_small : forall n x, (0 < n)%nat -> - (W n / 2) <= x < W n / 2 -> swrap n x = x.
Proof.
  intros n x Hn Hx. pose proof (W_even n Hn) as He. destruct (Z.neg_nonneg_cases x) as [Hneg|Hpos].
  - replace x with ((x + W n) + (-1) * W n) at 1 by ring. rewrite swrap_of_residue by lia.
    destruct (Z.ltb_spec (2 * (x + W n)) (W n)); lia.
  - replace x with (x + 0 * W n) at 1 by ring. rewrite swrap_of_residue by lia.
    destruct (Z.ltb_spec (2 * x) (W n)); lia.
Qed.

Lemma sval_range : forall v, bytes v -> v <> [] -> - (W (List.length v) / 2) <= sval v < W (List.length v) / 2.
Proof.
  intros v B Hne. assert (Hn : (0 < List.length v)%nat) by (destruct v; [congruence|cbn; lia]).
  pose proof (W_even _ Hn) as He. pose proof (uval_bound _ B) as Hb. unfold sval. fold (W (List.length v)).
  destruct (Z.ltb_spec (2 * uval v) (W (List.length v))); lia.
Qed.

(* THE conversion: the bytes sresize n v are the value of v truncated to a signed integer of n bytes (Go spec:
   sign extended to infinite precision, then truncated to the size of the result type) *)
Lemma sval_sresize : forall n v, bytes v -> v <> [] -> (0 < n)%nat -> sval (sresize n v) = swrap n (sval v).
Proof.
  intros n v B Hne Hn. assert (Hlv : (0 < List.length v)%nat) by (destruct v; [congruence|cbn; lia]).
  pose proof (uval_bound _ B) as Hb. unfold sresize. destruct (Nat.leb n (List.length v)) eqn:E.
  - (* narrowing: the low n bytes *)
    apply Nat.leb_le in E. unfold sval at 1. rewrite (firstn_length_le v E). fold (W n). rewrite (uval_firstn n v B E).
    pose proof (Z.mod_pos_bound (uval v) (W n) (W_pos n)) as Hm.
    assert (Hd : exists q, W (List.length v) = q * W n).
    { exists (W (List.length v - n)). rewrite <- W_add. f_equal. lia. }
    destruct Hd as [q Hq].
    assert (Hs : exists k, sval v = uval v mod W n + k * W n).
    { pose proof (Z.div_mod (uval v) (W n) ltac:(pose proof (W_pos n); lia)) as Hdm.
      unfold sval. fold (W (List.length v)).
      destruct (2 * uval v <? W (List.length v)).
      - exists (uval v / W n). lia.
      - exists (uval v / W n - q). rewrite Hq. lia. }
    destruct Hs as [k Hk]. rewrite Hk. rewrite swrap_of_residue by assumption. reflexivity.
  - (* widening: copies of the sign byte *)
    apply Nat.leb_gt in E. rewrite (swrap_small n (sval v) Hn).
    2:{ pose proof (sval_range v B Hne) as Hr. pose proof (W_le (List.length v) n ltac:(lia)) as Hle.
        pose proof (W_even _ Hn) as He1. pose proof (W_even _ Hlv) as He2. lia. }
    unfold sval at 1. rewrite app_length, repeat_length. replace (List.length v + (n - List.length v))%nat with n by lia.
    fold (W n). rewrite uval_app. rewrite (sign_byte_spec v B Hne). unfold sval. fold (W (List.length v)).
    assert (Hw : W n = W (List.length v) * W (n - List.length v)) by (rewrite <- W_add; f_equal; lia).
    pose proof (W_pos (List.length v)) as Hp1. pose proof (W_pos (n - List.length v)) as Hp2.
    assert (Hp3 : 256 <= W (n - List.length v)).
    { replace (n - List.length v)%nat with (S (n - List.length v - 1)) by lia. rewrite W_S.
      pose proof (W_pos (n - List.length v - 1)). lia. }
    destruct (Z.ltb_spec (2 * uval v) (W (List.length v))) as [H|H].
    + rewrite uval_repeat0. rewrite Z.mul_0_r, Z.add_0_r.
      destruct (Z.ltb_spec (2 * uval v) (W n)) as [H'|H']; [reflexivity|exfalso; nia].
    + rewrite uval_repeat255.
      destruct (Z.ltb_spec (2 * (uval v + W (List.length v) * (W (n - List.length v) - 1))) (W n)) as [H'|H']; [exfalso; nia|].
      rewrite Hw. ring.
Qed.

Lemma bytes_sresize : forall n v, bytes v -> bytes (sresize n v).
Proof.
  intros n v B. unfold sresize. destruct (Nat.leb n (List.length v)); [apply bytes_firstn; exact B|].
  apply bytes_app. split; [exact B|]. unfold bytes. apply Forall_forall. intros x Hx. apply repeat_spec in Hx. subst x.
  unfold sign_byte. destruct (128 <=? last v 0); lia.
Qed.

Lemma uval_inj : forall a b, bytes a -> bytes b -> List.length a = List.length b -> uval a = uval b -> a = b.
Proof.
  induction a as [|x a IH]; destruct b as [|y b]; intros Ba Bb Hl Hu; try reflexivity; try discriminate Hl.
  inversion Ba as [|x' a' Hx Ha]; subst. inversion Bb as [|y' b' Hy Hb]; subst.
  unfold uval in Hu. cbn [fold_right] in Hu. fold (uval a) in Hu. fold (uval b) in Hu.
  assert (x = y /\ uval a = uval b) as [E1 E2] by lia. subst y. f_equal. apply IH; try assumption.
  cbn [List.length] in Hl. lia.
Qed.

Lemma sval_inj : forall a b, bytes a -> bytes b -> List.length a = List.length b -> sval a = sval b -> a = b.
Proof.
  intros a b Ba Bb Hl Hs. apply uval_inj; try assumption.
  pose proof (uval_bound _ Ba) as Ha. pose proof (uval_bound _ Bb) as Hb. unfold sval in Hs. rewrite <- Hl in *.
  fold (W (List.length a)) in Hs.
  destruct (Z.ltb_spec (2 * uval a) (W (List.length a))); destruct (Z.ltb_spec (2 * uval b) (W (List.length a))); lia.
Qed.

(* [representable k b] in terms of the value: b fits a signed integer type of k bytes *)
Lemma representable_range : forall k b, bytes b -> (0 < k <= List.length b)%nat ->
  (representable k b <-> - (W k / 2) <= sval b < W k / 2).
Proof.
  intros k b B Hk. set (c := firstn k b).
  assert (Bc : bytes c) by (apply bytes_firstn; exact B).
  assert (Lc : List.length c = k) by (apply firstn_length_le; lia).
  assert (Nc : c <> []) by (intro E; rewrite E in Lc; cbn in Lc; lia).
  assert (Nb : b <> []) by (intro E; rewrite E in Hk; cbn in Hk; lia).
  assert (Hlb : (0 < List.length b)%nat) by lia.
  pose proof (sval_range c Bc Nc) as Rc. rewrite Lc in Rc.
  pose proof (W_le k (List.length b) ltac:(lia)) as Hle.
  pose proof (W_even k ltac:(lia)) as He1. pose proof (W_even _ Hlb) as He2.
  assert (Hwide : sval (sresize (List.length b) c) = sval c).
  { rewrite (sval_sresize _ c Bc Nc Hlb). apply swrap_small; [exact Hlb|lia]. }
  split.
  - intro R. unfold representable in R. fold c in R. rewrite <- R. rewrite Hwide. exact Rc.
  - intro Rb. unfold representable. fold c. apply sval_inj.
    + apply bytes_sresize. exact Bc.
    + exact B.
    + apply sresize_length.
    + rewrite Hwide. assert (Ec : c = sresize k b).
      { unfold sresize. assert (H : Nat.leb k (List.length b) = true) by (apply Nat.leb_le; lia). rewrite H. reflexivity. }
      rewrite Ec. rewrite (sval_sresize k b B Nb ltac:(lia)). apply swrap_small; [lia|exact Rb].
Qed.

Lemma sresize_examples :
  sresize 4 [254] = [254; 255; 255; 255] /\ sval [254; 255; 255; 255] = -2 /\
  sresize 2 (sresize 1 [128; 0]) = [128; 255] /\ ~ representable 1 [128; 0] /\ representable 1 [128; 255].
Proof.
  split; [reflexivity|]. split; [reflexivity|]. split; [reflexivity|]. split; [|reflexivity].
  unfold representable. cbn. intro H. discriminate H.
Qed.
