(* optics/iso.go, BiMapI: the conversions B(a) / A(b) between two signed integer types, as functions on the
   little-endian byte representation of the values.  Go (spec, Conversions between numeric types): a signed
   integer is sign extended to implicit infinite precision and then truncated to fit the size of the result type.
   When the two types have one width this is the identity on bytes; across widths it is a conversion BY VALUE:
   widening appends copies of the sign byte, narrowing keeps the low bytes.  Definitions only. *)
From Coq Require Import List ZArith Bool Arith.
From Golem Require Export Optics.Mem.
Import ListNotations.

(* 255 when the most significant (= last) byte has its top bit set, else 0; the empty value counts as 0 *)
Definition sign_byte (v : list Z) : Z := if Z.leb 128 (last v 0%Z) then 255%Z else 0%Z.

(* the value v of a signed integer type, converted to a signed integer type of n bytes *)
Definition sresize (n : nat) (v : list Z) : list Z :=
  if Nat.leb n (List.length v) then firstn n v else v ++ repeat (sign_byte v) (n - List.length v).

(* b is the sign extension of its k low bytes: its value fits a signed integer type of k bytes
   (ConvFacts.representable_range says so in terms of the value); trivially true when b has at most k bytes *)
Definition representable (k : nat) (b : list Z) : Prop := sresize (List.length b) (firstn k b) = b.

Fixpoint bytes_eqb (a b : list Z) : bool :=
  match a, b with
  | [], [] => true
  | x :: a', y :: b' => Z.eqb x y && bytes_eqb a' b'
  | _, _ => false
  end.
Definition representableb (k : nat) (b : list Z) : bool := bytes_eqb (sresize (List.length b) (firstn k b)) b.

(* the value of a little-endian byte string: unsigned, and as a two's complement signed integer *)
Definition uval (v : list Z) : Z := fold_right (fun b acc => (b + 256 * acc)%Z) 0%Z v.
Definition sval (v : list Z) : Z :=
  let u := uval v in
  let w := (256 ^ Z.of_nat (List.length v))%Z in
  if Z.ltb (2 * u) w then u else (u - w)%Z.

(* every element is a byte *)
Definition bytes (v : list Z) : Prop := Forall (fun b => (0 <= b < 256)%Z) v.

(* truncation of an integer x to a signed integer type of n bytes: the representative of x modulo 256^n in
   [-256^n / 2, 256^n / 2) *)
Definition swrap (n : nat) (x : Z) : Z :=
  let w := (256 ^ Z.of_nat n)%Z in
  ((x + w / 2) mod w - w / 2)%Z.
