(* Byte arena with partial load/store. Definitions only.
   The arena is the whole piece of memory observed by the harness: guard zone,
   struct, guard zone.  An access that leaves the arena is a fault. *)
From Coq Require Import List ZArith Arith Bool.
Import ListNotations.

Definition byte := Z.
Definition mem := list byte.
Definition value := list byte.

Definition load (m : mem) (a n : nat) : option value :=
  if Nat.leb (a + n) (length m) then Some (firstn n (skipn a m)) else None.

Definition store (m : mem) (a : nat) (v : value) : option mem :=
  if Nat.leb (a + length v) (length m) then Some (firstn a m ++ v ++ skipn (a + length v) m) else None.

(* byte i of the arena (None outside) *)
Definition byte_at (m : mem) (i : nat) : option byte := nth_error m i.

Definition in_range (lo n i : nat) : bool := Nat.leb lo i && Nat.ltb i (lo + n).
