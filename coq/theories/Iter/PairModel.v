(* Key-value iterators of /repo/trait/pair/pair.go together with the plain iterators of
   /repo/trait/seq/seq.go they are bridged to by ToSeq / FromSeq: expression syntax, list
   denotation and the operational model.  Definitions only - no proofs here.

   Same conventions as Iter/Model.v: nil is a constructor, one constructor per Go struct, a
   mutated receiver is returned, loops and nested calls consume fuel, user functions are codes.
   Two expression sorts: [pe] : pair.Seq[int,int] and [se] : seq.Seq[int].
   Join functions bind an environment (a, b): pair.Join and pair.ToSeq call their function with
   (key, value) = (a, b); pair.FromSeq calls its function with one element x, and the coded
   functions then work with (a, b) = (1000 + x, x)  (so keys differ from values). *)
From Coq Require Import List ZArith Bool.
From Golem Require Export Iter.Model.       (* pcode, mcode, interp_p, interp_m, takew, dropw *)
Import ListNotations.
Open Scope Z_scope.

(* ---------------------------------------------------------------- function codes *)
(* predicates func(K, V) bool: on the key, on the value, on both *)
Inductive ppcode := OnKey (p : pcode) | OnVal (p : pcode) | OnBoth (p q : pcode) | OnDiff (c : Z).
Definition interp_pp (p : ppcode) (kv : Z * Z) : bool :=
  let (k, v) := kv in
  match p with
  | OnKey p => interp_p p k
  | OnVal p => interp_p p v
  | OnBoth p q => interp_p p k && interp_p q v
  | OnDiff c => (k - v) <? c
  end.

(* mappings func(K, A) B *)
Inductive pmcode := MVal (m : mcode) | MKey (m : mcode) | MDiff | MMix.
Definition interp_pm (m : pmcode) (k v : Z) : Z :=
  match m with
  | MVal m => interp_m m v
  | MKey m => interp_m m k
  | MDiff => k - v
  | MMix => 2 * k + v
  end.

(* pair.Join functions func(K, V) pair.Seq given by the list of pairs they return
   (built by the harness as Plus(From(..), Plus(From(..), ..)), nil for the empty list) *)
Inductive pjcode := PJNil | PJRepl | PJSkew.
Definition interp_pj (j : pjcode) (k v : Z) : list (Z * Z) :=
  match j with
  | PJNil => []
  | PJRepl => repeat (k, v) (Z.to_nat (v mod 3))
  | PJSkew => if (v mod 2) =? 0 then [] else [(k + 1, v + 2); (k - v, v)]
  end.

(* pair.ToSeq functions func(K, V) seq.Seq given by the slice handed to FromSlice *)
Inductive tscode := TSNil | TSKV | TSRange.
Definition interp_ts (j : tscode) (k v : Z) : list Z :=
  match j with
  | TSNil => []
  | TSKV => [k; v]
  | TSRange => map (fun i => k + Z.of_nat i) (seq 0 (Z.to_nat (v mod 3)))
  end.

(* pair.FromSeq functions func(X) pair.Seq *)
Inductive fscode := FSNil | FSPair | FSTwo.
Definition interp_fs (j : fscode) (x : Z) : list (Z * Z) :=
  match j with
  | FSNil => []
  | FSPair => [(1000 + x, x)]
  | FSTwo => if (x mod 2) =? 0 then [] else [(1000 + x, x); (2000 + x, - x)]
  end.

(* ---------------------------------------------------------------- expressions *)
Inductive pe :=
| PFrom (k v : Z)                       (* pair.From(k, v) *)
| PArg                                  (* pair.From(a, b) *)
| PTakeW (p : ppcode) (s : pe)
| PDropW (p : ppcode) (s : pe)
| PFilter (p : ppcode) (s : pe)
| PMap (m : pmcode) (s : pe)
| PPlus (l r : pe)
| PJoin (j : pjcode) (s : pe)
| PJoinE (body : pe) (s : pe)           (* pair.Join(s, func(a, b) { return <body> }) *)
| PFromSeq (j : fscode) (s : se)
| PFromSeqE (body : pe) (s : se)        (* pair.FromSeq(s, func(x) { (a, b) = (1000+x, x); return <body> }) *)
| PWhen (p : ppcode) (s : pe)           (* if !p(a, b) { return nil }; return <s>  - a join function answering nil
                                           for SOME elements and a nested expression for the others *)
with se :=
| SFrom (v : Z)                         (* seq.From(v) *)
| SSlice (xs : list Z)                  (* seq.FromSlice(xs) *)
| SArgK                                 (* seq.From(a) *)
| SArgV                                 (* seq.From(b) *)
| SShift (ys : list Z)                  (* seq.FromSlice([b + y | y <- ys]) *)
| SToSeq (j : tscode) (s : pe)
| SToSeqE (body : se) (s : pe)          (* pair.ToSeq(s, func(a, b) { return <body> }) *)
| SWhen (p : ppcode) (s : se).          (* if !p(a, b) { return nil }; return <s> *)

(* ---------------------------------------------------------------- list semantics *)
Fixpoint pden (a b : Z) (t : pe) : list (Z * Z) :=
  match t with
  | PFrom k v => [(k, v)]
  | PArg => [(a, b)]
  | PTakeW p s => takew (interp_pp p) (pden a b s)
  | PDropW p s => dropw (interp_pp p) (pden a b s)
  | PFilter p s => filter (interp_pp p) (pden a b s)
  | PMap m s => map (fun kv => (fst kv, interp_pm m (fst kv) (snd kv))) (pden a b s)
  | PPlus l r => pden a b l ++ pden a b r
  | PJoin j s => flat_map (fun kv => interp_pj j (fst kv) (snd kv)) (pden a b s)
  | PJoinE body s => flat_map (fun kv => pden (fst kv) (snd kv) body) (pden a b s)
  | PFromSeq j s => flat_map (interp_fs j) (sden a b s)
  | PFromSeqE body s => flat_map (fun x => pden (1000 + x) x body) (sden a b s)
  | PWhen p s => if interp_pp p (a, b) then pden a b s else []
  end
with sden (a b : Z) (t : se) : list Z :=
  match t with
  | SFrom v => [v]
  | SSlice xs => xs
  | SArgK => [a]
  | SArgV => [b]
  | SShift ys => map (Z.add b) ys
  | SToSeq j s => flat_map (fun kv => interp_ts j (fst kv) (snd kv)) (pden a b s)
  | SToSeqE body s => flat_map (fun kv => sden (fst kv) (snd kv) body) (pden a b s)
  | SWhen p s => if interp_pp p (a, b) then sden a b s else []
  end.

Fixpoint psources (t : pe) : list (list Z) :=
  match t with
  | PFrom _ _ | PArg => []
  | PTakeW _ s | PDropW _ s | PFilter _ s | PMap _ s | PJoin _ s | PWhen _ s => psources s
  | PPlus l r => psources l ++ psources r
  | PJoinE body s => psources body ++ psources s
  | PFromSeq _ s => ssources s
  | PFromSeqE body s => psources body ++ ssources s
  end
with ssources (t : se) : list (list Z) :=
  match t with
  | SSlice xs => [xs]
  | SFrom _ | SArgK | SArgV | SShift _ => []
  | SToSeq _ s => psources s
  | SToSeqE body s => ssources body ++ psources s
  | SWhen _ s => ssources s
  end.

(* pair.ForEach / seq.ForEach: (elements seen, returned error) required by the property *)
Fixpoint gupto {E} (f : nat -> E -> option Z) (k : nat) (l : list E) : list E * option Z :=
  match l with
  | [] => ([], None)
  | a :: r => match f k a with
              | Some err => ([a], Some err)
              | None => let (v, o) := gupto f (S k) r in (a :: v, o)
              end
  end.

(* ---------------------------------------------------------------- iterator objects *)
Inductive pjfun := PJF (j : pjcode) | PJE (body : pe).
Inductive tsfun := TSF (j : tscode) | TSE (body : se).
Inductive fsfun := FSF (j : fscode) | FSE (body : pe).

Inductive pit :=
| PINil
| PIPair (k v : Z)                          (* pair[K,V]{key, val} *)
| PITakeW (s : pit) (f : option ppcode)     (* &takeWhile{Seq, f}; None = the latch f = nil *)
| PIFilt (s : pit) (f : ppcode)             (* filter{Seq, f} *)
| PIMap (s : pit) (m : pmcode)              (* fmap{Seq, f}: Key() and Next() promoted, Value() overridden *)
| PIPlus (s : pit) (rhs : pit)              (* &plus{Seq, rhs} *)
| PIJoin (cur : pit) (lhs : pit) (j : pjfun)      (* &join{Seq, lhs, rhs} *)
| PIFromSeq (cur : pit) (lhs : sit) (j : fsfun)   (* &fromSeq{Seq, lhs, rhs} *)
with sit :=
| SINil
| SIElem (v : Z)                            (* seq.element *)
| SISeqOf (el : list Z)                     (* &seq.seqOf *)
| SIToSeq (cur : sit) (lhs : pit) (j : tsfun).    (* &toSeq{Seq, lhs, rhs} *)

Definition is_pnil (i : pit) : bool := match i with PINil => true | _ => false end.
Definition is_snil (i : sit) : bool := match i with SINil => true | _ => false end.

(* Key() *)
Fixpoint key (i : pit) : Z :=
  match i with
  | PINil => 0
  | PIPair k _ => k
  | PITakeW s _ => key s
  | PIFilt s _ => key s
  | PIMap s _ => key s
  | PIPlus s _ => key s
  | PIJoin cur _ _ => key cur
  | PIFromSeq cur _ _ => key cur
  end.

(* Value() of a pair iterator *)
Fixpoint pvalue (i : pit) : Z :=
  match i with
  | PINil => 0
  | PIPair _ v => v
  | PITakeW s _ => pvalue s
  | PIFilt s _ => pvalue s
  | PIMap s m => interp_pm m (key s) (pvalue s)     (* seq.f(seq.Seq.Key(), seq.Seq.Value()) *)
  | PIPlus s _ => pvalue s
  | PIJoin cur _ _ => pvalue cur
  | PIFromSeq cur _ _ => pvalue cur
  end.
Definition kv (i : pit) : Z * Z := (key i, pvalue i).

(* Value() of a plain iterator *)
Fixpoint svalue (i : sit) : Z :=
  match i with
  | SINil => 0
  | SIElem v => v
  | SISeqOf el => hd 0 el
  | SIToSeq cur _ _ => svalue cur
  end.

Definition sfrom_slice (xs : list Z) : sit := match xs with [] => SINil | _ => SISeqOf xs end.

Definition ptakew_ctor (p : ppcode) (s : pit) : pit :=
  if is_pnil s || negb (interp_pp p (kv s)) then PINil else PITakeW s (Some p).
Definition pmap_ctor (m : pmcode) (s : pit) : pit := if is_pnil s then PINil else PIMap s m.
Definition pplus_ctor (lhs rhs : pit) : pit :=
  if is_pnil lhs then rhs else if is_pnil rhs then lhs else PIPlus lhs rhs.

(* how the coded join functions build the pair sequence they return: Plus(From(k1,v1), Plus(From(k2,v2), .. nil)) *)
Definition pfrom_list (l : list (Z * Z)) : pit :=
  fold_right (fun e r => pplus_ctor (PIPair (fst e) (snd e)) r) PINil l.

Fixpoint pnext (fuel : nat) (i : pit) {struct fuel} : option (bool * pit) :=
  match fuel with O => None | S n =>
  match i with
  | PINil => None
  | PIPair _ _ => Some (false, i)
  | PITakeW s f =>
      match f, s with
      | None, _ => Some (false, i)
      | _, PINil => Some (false, i)
      | Some p, _ =>
          match pnext n s with
          | None => None
          | Some (false, s') => Some (false, PITakeW s' f)
          | Some (true, s') =>
              if negb (interp_pp p (kv s')) then Some (false, PITakeW s' None)
              else Some (true, PITakeW s' f)
          end
      end
  | PIFilt s p =>
      match s with
      | PINil => Some (false, i)
      | _ => pfilt_loop n s p
      end
  | PIMap s m =>
      match pnext n s with
      | None => None
      | Some (b, s') => Some (b, PIMap s' m)
      end
  | PIPlus s rhs =>
      match pnext n s with
      | None => None
      | Some (hasNext, s') =>
          if negb hasNext && negb (is_pnil rhs) then Some (true, PIPlus rhs PINil)
          else if negb hasNext && is_pnil rhs then Some (false, PIPlus s' rhs)
          else Some (true, PIPlus s' rhs)
      end
  | PIJoin cur lhs j =>
      match pnext n cur with
      | None => None
      | Some (true, cur') => Some (true, PIJoin cur' lhs j)
      | Some (false, cur') => pjoin_loop n cur' lhs j
      end
  | PIFromSeq cur lhs j =>
      match pnext n cur with
      | None => None
      | Some (true, cur') => Some (true, PIFromSeq cur' lhs j)
      | Some (false, cur') => fromseq_loop n cur' lhs j
      end
  end end

with snext (fuel : nat) (i : sit) {struct fuel} : option (bool * sit) :=
  match fuel with O => None | S n =>
  match i with
  | SINil => None
  | SIElem _ => Some (false, i)
  | SISeqOf el =>
      match el with
      | [] => None
      | [_] => Some (false, i)
      | _ :: r => Some (true, SISeqOf r)
      end
  | SIToSeq cur lhs j =>
      match snext n cur with
      | None => None
      | Some (true, cur') => Some (true, SIToSeq cur' lhs j)
      | Some (false, cur') => toseq_loop n cur' lhs j
      end
  end end

with pfilt_loop (fuel : nat) (s : pit) (p : ppcode) {struct fuel} : option (bool * pit) :=
  match fuel with O => None | S n =>
  match pnext n s with
  | None => None
  | Some (false, s') => Some (false, PIFilt s' p)
  | Some (true, s') => if interp_pp p (kv s') then Some (true, PIFilt s' p) else pfilt_loop n s' p
  end end

with pjoin_loop (fuel : nat) (cur lhs : pit) (j : pjfun) {struct fuel} : option (bool * pit) :=
  match fuel with O => None | S n =>
  match pnext n lhs with
  | None => None
  | Some (false, lhs') => Some (false, PIJoin cur lhs' j)
  | Some (true, lhs') =>
      match apply_pj n j (key lhs') (pvalue lhs') with
      | None => None
      | Some c => if is_pnil c then pjoin_loop n c lhs' j else Some (true, PIJoin c lhs' j)
      end
  end end

with fromseq_loop (fuel : nat) (cur : pit) (lhs : sit) (j : fsfun) {struct fuel} : option (bool * pit) :=
  match fuel with O => None | S n =>
  match snext n lhs with
  | None => None
  | Some (false, lhs') => Some (false, PIFromSeq cur lhs' j)
  | Some (true, lhs') =>
      match apply_fs n j (svalue lhs') with
      | None => None
      | Some c => if is_pnil c then fromseq_loop n c lhs' j else Some (true, PIFromSeq c lhs' j)
      end
  end end

with toseq_loop (fuel : nat) (cur : sit) (lhs : pit) (j : tsfun) {struct fuel} : option (bool * sit) :=
  match fuel with O => None | S n =>
  match pnext n lhs with
  | None => None
  | Some (false, lhs') => Some (false, SIToSeq cur lhs' j)
  | Some (true, lhs') =>
      match apply_ts n j (key lhs') (pvalue lhs') with
      | None => None
      | Some c => if is_snil c then toseq_loop n c lhs' j else Some (true, SIToSeq c lhs' j)
      end
  end end

with apply_pj (fuel : nat) (j : pjfun) (k v : Z) {struct fuel} : option pit :=
  match fuel with O => None | S n =>
  match j with
  | PJF c => Some (pfrom_list (interp_pj c k v))
  | PJE body => pbuild n k v body
  end end

with apply_ts (fuel : nat) (j : tsfun) (k v : Z) {struct fuel} : option sit :=
  match fuel with O => None | S n =>
  match j with
  | TSF c => Some (sfrom_slice (interp_ts c k v))
  | TSE body => sbuild n k v body
  end end

with apply_fs (fuel : nat) (j : fsfun) (x : Z) {struct fuel} : option pit :=
  match fuel with O => None | S n =>
  match j with
  | FSF c => Some (pfrom_list (interp_fs c x))
  | FSE body => pbuild n (1000 + x) x body
  end end

with pbuild (fuel : nat) (a b : Z) (t : pe) {struct fuel} : option pit :=
  match fuel with O => None | S n =>
  match t with
  | PFrom k v => Some (PIPair k v)
  | PArg => Some (PIPair a b)
  | PTakeW p s => match pbuild n a b s with None => None | Some i => Some (ptakew_ctor p i) end
  | PDropW p s =>
      match pbuild n a b s with
      | None => None
      | Some i => if is_pnil i then Some PINil else pdropw_loop n p i
      end
  | PFilter p s =>
      match pbuild n a b s with
      | None => None
      | Some i => if is_pnil i then Some PINil else pfiltc_loop n p i
      end
  | PMap m s => match pbuild n a b s with None => None | Some i => Some (pmap_ctor m i) end
  | PPlus l r =>
      match pbuild n a b l with
      | None => None
      | Some il => match pbuild n a b r with None => None | Some ir => Some (pplus_ctor il ir) end
      end
  | PJoin j s =>
      match pbuild n a b s with
      | None => None
      | Some i => if is_pnil i then Some PINil else pjoinc_loop n i (PJF j)
      end
  | PJoinE body s =>
      match pbuild n a b s with
      | None => None
      | Some i => if is_pnil i then Some PINil else pjoinc_loop n i (PJE body)
      end
  | PFromSeq j s =>
      match sbuild n a b s with
      | None => None
      | Some i => if is_snil i then Some PINil else fromseqc_loop n i (FSF j)
      end
  | PFromSeqE body s =>
      match sbuild n a b s with
      | None => None
      | Some i => if is_snil i then Some PINil else fromseqc_loop n i (FSE body)
      end
  | PWhen p s => if interp_pp p (a, b) then pbuild n a b s else Some PINil
  end end

with sbuild (fuel : nat) (a b : Z) (t : se) {struct fuel} : option sit :=
  match fuel with O => None | S n =>
  match t with
  | SFrom v => Some (SIElem v)
  | SSlice xs => Some (sfrom_slice xs)
  | SArgK => Some (SIElem a)
  | SArgV => Some (SIElem b)
  | SShift ys => Some (sfrom_slice (map (Z.add b) ys))
  | SToSeq j s =>
      match pbuild n a b s with
      | None => None
      | Some i => if is_pnil i then Some SINil else toseqc_loop n i (TSF j)
      end
  | SToSeqE body s =>
      match pbuild n a b s with
      | None => None
      | Some i => if is_pnil i then Some SINil else toseqc_loop n i (TSE body)
      end
  | SWhen p s => if interp_pp p (a, b) then sbuild n a b s else Some SINil
  end end

with pdropw_loop (fuel : nat) (p : ppcode) (i : pit) {struct fuel} : option pit :=
  match fuel with O => None | S n =>
  if negb (interp_pp p (kv i)) then Some i
  else match pnext n i with
       | None => None
       | Some (false, _) => Some PINil
       | Some (true, i') => pdropw_loop n p i'
       end
  end

with pfiltc_loop (fuel : nat) (p : ppcode) (i : pit) {struct fuel} : option pit :=
  match fuel with O => None | S n =>
  if interp_pp p (kv i) then Some (PIFilt i p)
  else match pnext n i with
       | None => None
       | Some (false, _) => Some PINil
       | Some (true, i') => pfiltc_loop n p i'
       end
  end

with pjoinc_loop (fuel : nat) (lhs : pit) (j : pjfun) {struct fuel} : option pit :=
  match fuel with O => None | S n =>
  match apply_pj n j (key lhs) (pvalue lhs) with
  | None => None
  | Some c =>
      if negb (is_pnil c) then Some (PIJoin c lhs j)
      else match pnext n lhs with
           | None => None
           | Some (false, _) => Some PINil
           | Some (true, lhs') => pjoinc_loop n lhs' j
           end
  end end

with fromseqc_loop (fuel : nat) (lhs : sit) (j : fsfun) {struct fuel} : option pit :=
  match fuel with O => None | S n =>
  match apply_fs n j (svalue lhs) with
  | None => None
  | Some c =>
      if negb (is_pnil c) then Some (PIFromSeq c lhs j)
      else match snext n lhs with
           | None => None
           | Some (false, _) => Some PINil
           | Some (true, lhs') => fromseqc_loop n lhs' j
           end
  end end

with toseqc_loop (fuel : nat) (lhs : pit) (j : tsfun) {struct fuel} : option sit :=
  match fuel with O => None | S n =>
  match apply_ts n j (key lhs) (pvalue lhs) with
  | None => None
  | Some c =>
      if negb (is_snil c) then Some (SIToSeq c lhs j)
      else match pnext n lhs with
           | None => None
           | Some (false, _) => Some SINil
           | Some (true, lhs') => toseqc_loop n lhs' j
           end
  end end.

(* the documented loop, reading Key() and Value() of the same position *)
Fixpoint pdrain_loop (fuel : nat) (i : pit) : option (list (Z * Z)) :=
  match fuel with O => None | S n =>
  let e := kv i in
  match pnext n i with
  | None => None
  | Some (false, _) => Some [e]
  | Some (true, i') => option_map (cons e) (pdrain_loop n i')
  end end.
Definition pdrain (fuel : nat) (i : pit) : option (list (Z * Z)) :=
  if is_pnil i then Some [] else pdrain_loop fuel i.

Fixpoint sdrain_loop (fuel : nat) (i : sit) : option (list Z) :=
  match fuel with O => None | S n =>
  let e := svalue i in
  match snext n i with
  | None => None
  | Some (false, _) => Some [e]
  | Some (true, i') => option_map (cons e) (sdrain_loop n i')
  end end.
Definition sdrain (fuel : nat) (i : sit) : option (list Z) :=
  if is_snil i then Some [] else sdrain_loop fuel i.

(* pair.ForEach: the callback gets (Key(), Value()) *)
Fixpoint pforeach_loop (fuel : nat) (f : nat -> Z * Z -> option Z) (k : nat) (i : pit) : option (list (Z * Z) * option Z) :=
  match fuel with O => None | S n =>
  let e := kv i in
  match f k e with
  | Some err => Some ([e], Some err)
  | None =>
      match pnext n i with
      | None => None
      | Some (false, _) => Some ([e], None)
      | Some (true, i') =>
          match pforeach_loop n f (S k) i' with
          | None => None
          | Some (vs, o) => Some (e :: vs, o)
          end
      end
  end end.
Definition pforeach (fuel : nat) (f : nat -> Z * Z -> option Z) (i : pit) : option (list (Z * Z) * option Z) :=
  if is_pnil i then Some ([], None) else pforeach_loop fuel f 0%nat i.

(* seq.ForEach on a ToSeq result *)
Fixpoint sforeach_loop (fuel : nat) (f : nat -> Z -> option Z) (k : nat) (i : sit) : option (list Z * option Z) :=
  match fuel with O => None | S n =>
  let e := svalue i in
  match f k e with
  | Some err => Some ([e], Some err)
  | None =>
      match snext n i with
      | None => None
      | Some (false, _) => Some ([e], None)
      | Some (true, i') =>
          match sforeach_loop n f (S k) i' with
          | None => None
          | Some (vs, o) => Some (e :: vs, o)
          end
      end
  end end.
Definition sforeach (fuel : nat) (f : nat -> Z -> option Z) (i : sit) : option (list Z * option Z) :=
  if is_snil i then Some ([], None) else sforeach_loop fuel f 0%nat i.

(* the same loops, also answering WHERE the iterator stands when ForEach returns: after an error, on the element whose
   callback failed (no Next() was asked of it); after the end, on the exhausted iterator *)
Fixpoint pforeach_loop_st (fuel : nat) (f : nat -> Z * Z -> option Z) (k : nat) (i : pit)
  : option (list (Z * Z) * option Z * pit) :=
  match fuel with O => None | S n =>
  let e := kv i in
  match f k e with
  | Some err => Some ([e], Some err, i)
  | None =>
      match pnext n i with
      | None => None
      | Some (false, i') => Some ([e], None, i')
      | Some (true, i') =>
          match pforeach_loop_st n f (S k) i' with
          | None => None
          | Some (vs, o, j) => Some (e :: vs, o, j)
          end
      end
  end end.
Fixpoint sforeach_loop_st (fuel : nat) (f : nat -> Z -> option Z) (k : nat) (i : sit)
  : option (list Z * option Z * sit) :=
  match fuel with O => None | S n =>
  let e := svalue i in
  match f k e with
  | Some err => Some ([e], Some err, i)
  | None =>
      match snext n i with
      | None => None
      | Some (false, i') => Some ([e], None, i')
      | Some (true, i') =>
          match sforeach_loop_st n f (S k) i' with
          | None => None
          | Some (vs, o, j) => Some (e :: vs, o, j)
          end
      end
  end end.

(* top level: environment (0, 0) *)
Definition prun_foreach_st (fuel : nat) (f : nat -> Z * Z -> option Z) (t : pe) : option (list (Z * Z) * option Z * pit) :=
  match pbuild fuel 0 0 t with
  | Some i => if is_pnil i then Some ([], None, i) else pforeach_loop_st fuel f 0%nat i
  | None => None
  end.
Definition srun_foreach_st (fuel : nat) (f : nat -> Z -> option Z) (t : se) : option (list Z * option Z * sit) :=
  match sbuild fuel 0 0 t with
  | Some i => if is_snil i then Some ([], None, i) else sforeach_loop_st fuel f 0%nat i
  | None => None
  end.
Definition prun (fuel : nat) (t : pe) : option (list (Z * Z)) :=
  match pbuild fuel 0 0 t with Some i => pdrain fuel i | None => None end.
Definition srun (fuel : nat) (t : se) : option (list Z) :=
  match sbuild fuel 0 0 t with Some i => sdrain fuel i | None => None end.
Definition prun_foreach (fuel : nat) (f : nat -> Z * Z -> option Z) (t : pe) : option (list (Z * Z) * option Z) :=
  match pbuild fuel 0 0 t with Some i => pforeach fuel f i | None => None end.
Definition srun_foreach (fuel : nat) (f : nat -> Z -> option Z) (t : se) : option (list Z * option Z) :=
  match sbuild fuel 0 0 t with Some i => sforeach fuel f i | None => None end.
