(* Proofs about the operational model of trait/pair (Iter/PairModel.v): building any expression over
   pair.Seq / seq.Seq (bridged by ToSeq and FromSeq) and draining it with the documented loop yields
   its list denotation, pairs (Key(), Value()) being read at the same position.
   Invariants: [PPos l i] / [SPos l i] = the generic [GPos] of Iter/GenProofs.v over (pnext, kv, is_pnil)
   and (snext, svalue, is_snil). *)
From Coq Require Import List ZArith Bool Arith Lia.
From Golem Require Import Iter.PairModel Iter.SeqProofs Iter.GenProofs.
Import ListNotations.
Open Scope Z_scope.

Notation PPos := (GPos pnext kv is_pnil).
Notation SPos := (GPos snext svalue is_snil).
Notation PRepr := (GRepr pnext kv is_pnil PINil).
Notation SRepr := (GRepr snext svalue is_snil SINil).

Definition pnonnil := GPos_nonnil pnext kv is_pnil.
Definition phead := GPos_head pnext kv is_pnil.
Definition prepr_cases := GRepr_nil_or pnext kv is_pnil PINil.
Definition ppos_repr := GPos_GRepr pnext kv is_pnil PINil.
Definition snonnil := GPos_nonnil snext svalue is_snil.
Definition srepr_cases := GRepr_nil_or snext svalue is_snil SINil.

(* ------------------------------------------------------------ unfolding equations *)
Lemma pnext_pair n k v : pnext (S n) (PIPair k v) = Some (false, PIPair k v).
Proof. reflexivity. Qed.
Lemma snext_elem n v : snext (S n) (SIElem v) = Some (false, SIElem v).
Proof. reflexivity. Qed.
Lemma snext_seq1 n a : snext (S n) (SISeqOf [a]) = Some (false, SISeqOf [a]).
Proof. reflexivity. Qed.
Lemma snext_seq2 n a b r : snext (S n) (SISeqOf (a :: b :: r)) = Some (true, SISeqOf (b :: r)).
Proof. reflexivity. Qed.
Lemma pnext_takew n s p : is_pnil s = false ->
  pnext (S n) (PITakeW s (Some p)) =
  match pnext n s with
  | None => None
  | Some (false, s') => Some (false, PITakeW s' (Some p))
  | Some (true, s') =>
      if negb (interp_pp p (kv s')) then Some (false, PITakeW s' None) else Some (true, PITakeW s' (Some p))
  end.
Proof. destruct s; intros H; [discriminate H | reflexivity ..]. Qed.
Lemma pnext_filt n s p : is_pnil s = false -> pnext (S n) (PIFilt s p) = pfilt_loop n s p.
Proof. destruct s; intros H; [discriminate H | reflexivity ..]. Qed.
Lemma pfilt_loop_S n s p :
  pfilt_loop (S n) s p =
  match pnext n s with
  | None => None
  | Some (false, s') => Some (false, PIFilt s' p)
  | Some (true, s') => if interp_pp p (kv s') then Some (true, PIFilt s' p) else pfilt_loop n s' p
  end.
Proof. reflexivity. Qed.
Lemma pnext_map n s m :
  pnext (S n) (PIMap s m) = match pnext n s with None => None | Some (b, s') => Some (b, PIMap s' m) end.
Proof. reflexivity. Qed.
Lemma pnext_plus n s rhs :
  pnext (S n) (PIPlus s rhs) =
  match pnext n s with
  | None => None
  | Some (hasNext, s') =>
      if negb hasNext && negb (is_pnil rhs) then Some (true, PIPlus rhs PINil)
      else if negb hasNext && is_pnil rhs then Some (false, PIPlus s' rhs)
      else Some (true, PIPlus s' rhs)
  end.
Proof. reflexivity. Qed.
Lemma pdropw_loop_S n p i :
  pdropw_loop (S n) p i =
  if negb (interp_pp p (kv i)) then Some i
  else match pnext n i with
       | None => None
       | Some (false, _) => Some PINil
       | Some (true, i') => pdropw_loop n p i'
       end.
Proof. reflexivity. Qed.
Lemma pfiltc_loop_S n p i :
  pfiltc_loop (S n) p i =
  if interp_pp p (kv i) then Some (PIFilt i p)
  else match pnext n i with
       | None => None
       | Some (false, _) => Some PINil
       | Some (true, i') => pfiltc_loop n p i'
       end.
Proof. reflexivity. Qed.
Lemma pbuild_S n a b t :
  pbuild (S n) a b t =
  match t with
  | PFrom k v => Some (PIPair k v)
  | PArg => Some (PIPair a b)
  | PTakeW p s => match pbuild n a b s with None => None | Some i => Some (ptakew_ctor p i) end
  | PDropW p s =>
      match pbuild n a b s with
      | None => None
      | Some i => if is_pnil i then Some PINil else pdropw_loop n p i
      end
  | PFilter p s =>
      match pbuild n a b s with
      | None => None
      | Some i => if is_pnil i then Some PINil else pfiltc_loop n p i
      end
  | PMap m s => match pbuild n a b s with None => None | Some i => Some (pmap_ctor m i) end
  | PPlus l r =>
      match pbuild n a b l with
      | None => None
      | Some il => match pbuild n a b r with None => None | Some ir => Some (pplus_ctor il ir) end
      end
  | PJoin j s =>
      match pbuild n a b s with
      | None => None
      | Some i => if is_pnil i then Some PINil else pjoinc_loop n i (PJF j)
      end
  | PJoinE body s =>
      match pbuild n a b s with
      | None => None
      | Some i => if is_pnil i then Some PINil else pjoinc_loop n i (PJE body)
      end
  | PFromSeq j s =>
      match sbuild n a b s with
      | None => None
      | Some i => if is_snil i then Some PINil else fromseqc_loop n i (FSF j)
      end
  | PFromSeqE body s =>
      match sbuild n a b s with
      | None => None
      | Some i => if is_snil i then Some PINil else fromseqc_loop n i (FSE body)
      end
  | PWhen p s => if interp_pp p (a, b) then pbuild n a b s else Some PINil
  end.
Proof. reflexivity. Qed.
Lemma sbuild_S n a b t :
  sbuild (S n) a b t =
  match t with
  | SFrom v => Some (SIElem v)
  | SSlice xs => Some (sfrom_slice xs)
  | SArgK => Some (SIElem a)
  | SArgV => Some (SIElem b)
  | SShift ys => Some (sfrom_slice (map (Z.add b) ys))
  | SToSeq j s =>
      match pbuild n a b s with
      | None => None
      | Some i => if is_pnil i then Some SINil else toseqc_loop n i (TSF j)
      end
  | SToSeqE body s =>
      match pbuild n a b s with
      | None => None
      | Some i => if is_pnil i then Some SINil else toseqc_loop n i (TSE body)
      end
  | SWhen p s => if interp_pp p (a, b) then sbuild n a b s else Some SINil
  end.
Proof. reflexivity. Qed.

(* ------------------------------------------------------------ sources *)
Lemma ppos_pair k v : PPos [(k, v)] (PIPair k v).
Proof.
  cbn. split; [reflexivity|]. split; [reflexivity|].
  exists (PIPair k v). split; [|congruence]. apply Ev_const. intros n. apply pnext_pair.
Qed.

Lemma spos_elem v : SPos [v] (SIElem v).
Proof.
  cbn. split; [reflexivity|]. split; [reflexivity|].
  exists (SIElem v). split; [|congruence]. apply Ev_const. intros n. apply snext_elem.
Qed.

Lemma spos_seqof xs : xs <> [] -> SPos xs (SISeqOf xs).
Proof.
  induction xs as [|a r IH]; [congruence|]. intros _.
  destruct r as [|b r].
  - cbn. split; [reflexivity|]. split; [reflexivity|].
    exists (SISeqOf [a]). split; [|congruence]. apply Ev_const. intros n. apply snext_seq1.
  - cbn [GPos]. split; [reflexivity|]. split; [reflexivity|].
    exists (SISeqOf (b :: r)). split.
    + apply Ev_const. intros n. apply snext_seq2.
    + intros _. apply IH. discriminate.
Qed.

Lemma srepr_from_slice xs : SRepr xs (sfrom_slice xs).
Proof.
  destruct xs as [|a r]; [reflexivity|]. apply (spos_seqof (a :: r)). discriminate.
Qed.

(* ------------------------------------------------------------ TakeWhile *)
Lemma ppos_takew p : forall l s,
  PPos l s -> interp_pp p (hd (0, 0) l) = true -> PPos (takew (interp_pp p) l) (PITakeW s (Some p)).
Proof.
  induction l as [|a r IH]; intros s HP Hp; [destruct HP|].
  cbn [hd] in Hp. cbn [takew]. rewrite Hp.
  destruct HP as (Hnn & Hv & s' & (N & HN) & Hr).
  cbn [GPos]. split; [reflexivity|]. split; [exact Hv|].
  destruct r as [|b r'].
  - exists (PITakeW s' (Some p)). split; [|cbn; congruence].
    exists (S N). intros n Hn. destruct n as [|n]; [lia|].
    rewrite pnext_takew by exact Hnn. rewrite HN by lia. reflexivity.
  - specialize (Hr ltac:(discriminate)).
    pose proof (phead _ _ _ Hr) as Hvb.
    destruct (interp_pp p b) eqn:Hpb.
    + exists (PITakeW s' (Some p)). split.
      * exists (S N). intros n Hn. destruct n as [|n]; [lia|].
        rewrite pnext_takew by exact Hnn. rewrite HN by lia. cbn [isnil negb].
        rewrite Hvb, Hpb. cbn [takew]. rewrite Hpb. reflexivity.
      * intros _. apply (IH s' Hr). exact Hpb.
    + exists (PITakeW s' None). split.
      * exists (S N). intros n Hn. destruct n as [|n]; [lia|].
        rewrite pnext_takew by exact Hnn. rewrite HN by lia. cbn [isnil negb].
        rewrite Hvb, Hpb. cbn [takew]. rewrite Hpb. reflexivity.
      * cbn [takew]. rewrite Hpb. congruence.
Qed.

Lemma prepr_takew_ctor p l s : PRepr l s -> PRepr (takew (interp_pp p) l) (ptakew_ctor p s).
Proof.
  intros HR. destruct (prepr_cases _ _ HR) as [(-> & ->) | (Hne & HP)].
  - reflexivity.
  - destruct l as [|a r]; [congruence|]. unfold ptakew_ctor.
    rewrite (pnonnil _ _ HP), (phead _ _ _ HP). cbn [orb takew].
    destruct (interp_pp p a) eqn:Hpa; cbn [negb].
    + pose proof (ppos_takew p (a :: r) s HP Hpa) as H. cbn [takew] in H. rewrite Hpa in H. exact H.
    + reflexivity.
Qed.

(* ------------------------------------------------------------ Map: values change, keys do not *)
Definition mapkv (m : pmcode) (e : Z * Z) : Z * Z := (fst e, interp_pm m (fst e) (snd e)).

Lemma ppos_map m : forall l s, PPos l s -> PPos (map (mapkv m) l) (PIMap s m).
Proof.
  induction l as [|a r IH]; intros s HP; [destruct HP|].
  destruct HP as (Hnn & Hv & s' & (N & HN) & Hr).
  cbn [map GPos]. split; [reflexivity|]. split.
  - unfold mapkv. rewrite <- Hv. reflexivity.
  - exists (PIMap s' m). split.
    + exists (S N). intros n Hn. destruct n as [|n]; [lia|].
      rewrite pnext_map. rewrite HN by lia. destruct r; reflexivity.
    + intros Hne. apply IH. apply Hr. destruct r; [cbn in Hne; congruence | discriminate].
Qed.

Lemma prepr_map_ctor m l s : PRepr l s -> PRepr (map (mapkv m) l) (pmap_ctor m s).
Proof.
  intros HR. destruct (prepr_cases _ _ HR) as [(-> & ->) | (Hne & HP)].
  - reflexivity.
  - unfold pmap_ctor. rewrite (pnonnil _ _ HP).
    apply ppos_repr; [destruct l; [congruence | discriminate] | apply ppos_map; exact HP].
Qed.

(* ------------------------------------------------------------ Plus *)
Lemma ppos_plus_nil : forall l s, PPos l s -> PPos l (PIPlus s PINil).
Proof.
  induction l as [|a r IH]; intros s HP; [destruct HP|].
  destruct HP as (Hnn & Hv & s' & (N & HN) & Hr).
  cbn [GPos]. split; [reflexivity|]. split; [exact Hv|].
  exists (PIPlus s' PINil). split.
  - exists (S N). intros n Hn. destruct n as [|n]; [lia|].
    rewrite pnext_plus. rewrite HN by lia. destruct r; reflexivity.
  - intros Hne. apply IH. apply Hr. exact Hne.
Qed.

Lemma ppos_plus l2 rhs : PPos l2 rhs -> forall l1 s, PPos l1 s -> PPos (l1 ++ l2) (PIPlus s rhs).
Proof.
  intros H2. pose proof (pnonnil _ _ H2) as Hnr.
  assert (Hl2 : l2 <> []) by (destruct l2; [destruct H2 | discriminate]).
  induction l1 as [|a r IH]; intros s HP; [destruct HP|].
  destruct HP as (Hnn & Hv & s' & (N & HN) & Hr).
  cbn [app GPos]. split; [reflexivity|]. split; [exact Hv|].
  assert (Hnn2 : isnil (r ++ l2) = false) by (destruct r; [destruct l2; [congruence | reflexivity] | reflexivity]).
  rewrite Hnn2. cbn [negb].
  destruct r as [|b r'].
  - exists (PIPlus rhs PINil). split.
    + exists (S N). intros n Hn. destruct n as [|n]; [lia|].
      rewrite pnext_plus. rewrite HN by lia. cbn [isnil negb andb]. rewrite Hnr. reflexivity.
    + intros _. cbn [app]. apply ppos_plus_nil. exact H2.
  - exists (PIPlus s' rhs). split.
    + exists (S N). intros n Hn. destruct n as [|n]; [lia|].
      rewrite pnext_plus. rewrite HN by lia. reflexivity.
    + intros _. apply IH. apply Hr. discriminate.
Qed.

Lemma prepr_plus_ctor l1 l2 s1 s2 : PRepr l1 s1 -> PRepr l2 s2 -> PRepr (l1 ++ l2) (pplus_ctor s1 s2).
Proof.
  intros H1 H2.
  destruct (prepr_cases _ _ H1) as [(-> & ->) | (Hne1 & HP1)].
  - exact H2.
  - destruct (prepr_cases _ _ H2) as [(-> & ->) | (Hne2 & HP2)].
    + unfold pplus_ctor. rewrite (pnonnil _ _ HP1). cbn [is_pnil]. rewrite app_nil_r. exact H1.
    + unfold pplus_ctor. rewrite (pnonnil _ _ HP1), (pnonnil _ _ HP2).
      apply ppos_repr; [destruct l1; [congruence | discriminate] | apply ppos_plus; assumption].
Qed.

(* the pair sequences returned by the coded join functions *)
Lemma prepr_from_list : forall l, PRepr l (pfrom_list l).
Proof.
  induction l as [|e r IH]; [reflexivity|].
  change (pfrom_list (e :: r)) with (pplus_ctor (PIPair (fst e) (snd e)) (pfrom_list r)).
  change (e :: r) with ([e] ++ r).
  apply prepr_plus_ctor; [|exact IH].
  destruct e as (k, v). apply ppos_pair.
Qed.

(* ------------------------------------------------------------ Filter *)
Lemma pfilter_both p : forall l s, PPos l s ->
  (exists i', Ev (fun n => pfilt_loop n s p) (negb (isnil (filter (interp_pp p) (tl l))), i') /\
              (filter (interp_pp p) (tl l) <> [] -> PPos (filter (interp_pp p) (tl l)) i'))
  /\ (interp_pp p (hd (0, 0) l) = true -> PPos (filter (interp_pp p) l) (PIFilt s p)).
Proof.
  induction l as [|a r IH]; intros s HP; [destruct HP|].
  destruct HP as (Hnn & Hv & s' & (N & HN) & Hr).
  assert (HA : exists i', Ev (fun n => pfilt_loop n s p) (negb (isnil (filter (interp_pp p) r)), i') /\
              (filter (interp_pp p) r <> [] -> PPos (filter (interp_pp p) r) i')).
  { destruct r as [|b r'].
    - exists (PIFilt s' p). split; [|cbn; congruence].
      exists (S N). intros n Hn. destruct n as [|n]; [lia|].
      rewrite pfilt_loop_S. rewrite HN by lia. reflexivity.
    - specialize (Hr ltac:(discriminate)).
      pose proof (phead _ _ _ Hr) as Hvb.
      destruct (IH s' Hr) as ((i2 & (N2 & HN2) & HP2) & HB). cbn [tl hd] in *.
      cbn [filter]. destruct (interp_pp p b) eqn:Hpb.
      + exists (PIFilt s' p). split.
        * exists (S N). intros n Hn. destruct n as [|n]; [lia|].
          rewrite pfilt_loop_S. rewrite HN by lia. cbn [isnil negb]. rewrite Hvb, Hpb. reflexivity.
        * intros _. specialize (HB eq_refl). cbn [filter] in HB. rewrite Hpb in HB. exact HB.
      + exists i2. split.
        * exists (S (Nat.max N N2)). intros n Hn. destruct n as [|n]; [lia|].
          rewrite pfilt_loop_S. rewrite HN by lia. cbn [isnil negb]. rewrite Hvb, Hpb.
          apply HN2. lia.
        * exact HP2. }
  split; [exact HA|].
  cbn [hd filter]. intros Hpa. rewrite Hpa.
  destruct HA as (i' & (N1 & HN1) & HP1).
  cbn [GPos]. split; [reflexivity|]. split; [exact Hv|].
  exists i'. split.
  - exists (S N1). intros n Hn. destruct n as [|n]; [lia|].
    rewrite pnext_filt by exact Hnn. apply HN1. lia.
  - exact HP1.
Qed.

Lemma pfiltc_ok p : forall l s, PPos l s ->
  exists i, Ev (fun n => pfiltc_loop n p s) i /\ PRepr (filter (interp_pp p) l) i.
Proof.
  induction l as [|a r IH]; intros s HP; [destruct HP|].
  pose proof (pfilter_both p _ _ HP) as (_ & HB). cbn [hd] in HB.
  destruct HP as (Hnn & Hv & s' & (N & HN) & Hr).
  cbn [filter]. destruct (interp_pp p a) eqn:Hpa.
  - exists (PIFilt s p). split.
    + apply Ev_const. intros n. rewrite pfiltc_loop_S, Hv, Hpa. reflexivity.
    + specialize (HB eq_refl). cbn [filter] in HB. rewrite Hpa in HB. exact HB.
  - destruct r as [|b r'].
    + exists PINil. split; [|reflexivity].
      exists (S N). intros n Hn. destruct n as [|n]; [lia|].
      rewrite pfiltc_loop_S, Hv, Hpa. rewrite HN by lia. reflexivity.
    + specialize (Hr ltac:(discriminate)).
      destruct (IH s' Hr) as (i & (N2 & HN2) & HR2).
      exists i. split; [|exact HR2].
      exists (S (Nat.max N N2)). intros n Hn. destruct n as [|n]; [lia|].
      rewrite pfiltc_loop_S, Hv, Hpa. rewrite HN by lia. cbn [isnil negb]. apply HN2. lia.
Qed.

(* ------------------------------------------------------------ DropWhile *)
Lemma pdropw_ok p : forall l s, PPos l s ->
  exists i, Ev (fun n => pdropw_loop n p s) i /\ PRepr (dropw (interp_pp p) l) i.
Proof.
  induction l as [|a r IH]; intros s HP; [destruct HP|].
  pose proof HP as HP0.
  destruct HP as (Hnn & Hv & s' & (N & HN) & Hr).
  cbn [dropw]. destruct (interp_pp p a) eqn:Hpa.
  - destruct r as [|b r'].
    + exists PINil. split; [|reflexivity].
      exists (S N). intros n Hn. destruct n as [|n]; [lia|].
      rewrite pdropw_loop_S, Hv, Hpa. cbn [negb]. rewrite HN by lia. reflexivity.
    + specialize (Hr ltac:(discriminate)).
      destruct (IH s' Hr) as (i & (N2 & HN2) & HR2).
      exists i. split; [|exact HR2].
      exists (S (Nat.max N N2)). intros n Hn. destruct n as [|n]; [lia|].
      rewrite pdropw_loop_S, Hv, Hpa. cbn [negb]. rewrite HN by lia. cbn [isnil negb]. apply HN2. lia.
  - exists s. split; [|exact HP0].
    apply Ev_const. intros n. rewrite pdropw_loop_S, Hv, Hpa. reflexivity.
Qed.

(* ------------------------------------------------------------ Join, ToSeq, FromSeq *)
Definition pjden (j : pjfun) (e : Z * Z) : list (Z * Z) :=
  match j with PJF c => interp_pj c (fst e) (snd e) | PJE body => pden (fst e) (snd e) body end.
Definition tsden (j : tsfun) (e : Z * Z) : list Z :=
  match j with TSF c => interp_ts c (fst e) (snd e) | TSE body => sden (fst e) (snd e) body end.
Definition fsden (j : fsfun) (x : Z) : list (Z * Z) :=
  match j with FSF c => interp_fs c x | FSE body => pden (1000 + x) x body end.

(* the join function, called on an element, yields (with enough fuel) an iterator for its denotation *)
Definition PJOk (j : pjfun) := GJOk pnext kv is_pnil PINil (fun n e => apply_pj n j (fst e) (snd e)) (pjden j).
Definition TSOk (j : tsfun) := GJOk snext svalue is_snil SINil (fun n e => apply_ts n j (fst e) (snd e)) (tsden j).
Definition FSOk (j : fsfun) := GJOk pnext kv is_pnil PINil (fun n x => apply_fs n j x) (fsden j).

Lemma pjoin_ctor j (ll : list (Z * Z)) (g f : nat -> option pit) :
  (forall e, PJOk j e) ->
  (exists i, Ev g i /\ PRepr ll i) ->
  (forall n, f (S n) = match g n with
                       | None => None
                       | Some i => if is_pnil i then Some PINil else pjoinc_loop n i j
                       end) ->
  exists i, Ev f i /\ PRepr (flat_map (pjden j) ll) i.
Proof.
  apply (gjoin_ctor pnext kv is_pnil pnext kv is_pnil PINil eq_refl
           (fun c l => PIJoin c l j) (fun n c l => pjoin_loop n c l j)
           (fun n e => apply_pj n j (fst e) (snd e)) (fun n l => pjoinc_loop n l j) (pjden j));
    try reflexivity.
Qed.

Lemma toseq_ctor j (ll : list (Z * Z)) (g : nat -> option pit) (f : nat -> option sit) :
  (forall e, TSOk j e) ->
  (exists i, Ev g i /\ PRepr ll i) ->
  (forall n, f (S n) = match g n with
                       | None => None
                       | Some i => if is_pnil i then Some SINil else toseqc_loop n i j
                       end) ->
  exists i, Ev f i /\ SRepr (flat_map (tsden j) ll) i.
Proof.
  apply (gjoin_ctor pnext kv is_pnil snext svalue is_snil SINil eq_refl
           (fun c l => SIToSeq c l j) (fun n c l => toseq_loop n c l j)
           (fun n e => apply_ts n j (fst e) (snd e)) (fun n l => toseqc_loop n l j) (tsden j));
    try reflexivity.
Qed.

Lemma fromseq_ctor j (ll : list Z) (g : nat -> option sit) (f : nat -> option pit) :
  (forall x, FSOk j x) ->
  (exists i, Ev g i /\ SRepr ll i) ->
  (forall n, f (S n) = match g n with
                       | None => None
                       | Some i => if is_snil i then Some PINil else fromseqc_loop n i j
                       end) ->
  exists i, Ev f i /\ PRepr (flat_map (fsden j) ll) i.
Proof.
  apply (gjoin_ctor snext svalue is_snil pnext kv is_pnil PINil eq_refl
           (fun c l => PIFromSeq c l j) (fun n c l => fromseq_loop n c l j)
           (fun n x => apply_fs n j x) (fun n l => fromseqc_loop n l j) (fsden j));
    try reflexivity.
Qed.

Lemma pjok_F c e : PJOk (PJF c) e.
Proof.
  exists (pfrom_list (interp_pj c (fst e) (snd e))). split.
  - apply Ev_const. intros n. reflexivity.
  - apply prepr_from_list.
Qed.
Lemma tsok_F c e : TSOk (TSF c) e.
Proof.
  exists (sfrom_slice (interp_ts c (fst e) (snd e))). split.
  - apply Ev_const. intros n. reflexivity.
  - apply srepr_from_slice.
Qed.
Lemma fsok_F c x : FSOk (FSF c) x.
Proof.
  exists (pfrom_list (interp_fs c x)). split.
  - apply Ev_const. intros n. reflexivity.
  - apply prepr_from_list.
Qed.

(* ------------------------------------------------------------ every constructor call *)
Definition PBuildOk (t : pe) : Prop :=
  forall a b, exists i, Ev (fun n => pbuild n a b t) i /\ PRepr (pden a b t) i.
Definition SBuildOk (t : se) : Prop :=
  forall a b, exists i, Ev (fun n => sbuild n a b t) i /\ SRepr (sden a b t) i.

Scheme pe_mind := Induction for pe Sort Prop
  with se_mind := Induction for se Sort Prop.
Combined Scheme pe_se_mind from pe_mind, se_mind.

Theorem build_ok_both : (forall t, PBuildOk t) /\ (forall t, SBuildOk t).
Proof.
  apply pe_se_mind; unfold PBuildOk, SBuildOk.
  - (* PFrom *) intros k v a b. exists (PIPair k v). split; [apply Ev_const; intros n; apply pbuild_S | apply ppos_pair].
  - (* PArg *) intros a b. exists (PIPair a b). split; [apply Ev_const; intros n; apply pbuild_S | apply ppos_pair].
  - (* PTakeW *) intros p s IH a b. destruct (IH a b) as (i & (N & HN) & HR).
    exists (ptakew_ctor p i). split; [|apply prepr_takew_ctor; exact HR].
    exists (S N). intros n Hn. destruct n as [|n]; [lia|]. rewrite pbuild_S. rewrite HN by lia. reflexivity.
  - (* PDropW *) intros p s IH a b. destruct (IH a b) as (i & (N & HN) & HR). cbn [pden].
    destruct (prepr_cases _ _ HR) as [(Hl & ->) | (Hl & HP)].
    + rewrite Hl. exists PINil. split; [|reflexivity].
      exists (S N). intros n Hn. destruct n as [|n]; [lia|]. rewrite pbuild_S. rewrite HN by lia. reflexivity.
    + destruct (pdropw_ok p _ _ HP) as (i2 & (N2 & HN2) & HR2).
      exists i2. split; [|exact HR2].
      exists (S (Nat.max N N2)). intros n Hn. destruct n as [|n]; [lia|]. rewrite pbuild_S. rewrite HN by lia.
      rewrite (pnonnil _ _ HP). apply HN2. lia.
  - (* PFilter *) intros p s IH a b. destruct (IH a b) as (i & (N & HN) & HR). cbn [pden].
    destruct (prepr_cases _ _ HR) as [(Hl & ->) | (Hl & HP)].
    + rewrite Hl. exists PINil. split; [|reflexivity].
      exists (S N). intros n Hn. destruct n as [|n]; [lia|]. rewrite pbuild_S. rewrite HN by lia. reflexivity.
    + destruct (pfiltc_ok p _ _ HP) as (i2 & (N2 & HN2) & HR2).
      exists i2. split; [|exact HR2].
      exists (S (Nat.max N N2)). intros n Hn. destruct n as [|n]; [lia|]. rewrite pbuild_S. rewrite HN by lia.
      rewrite (pnonnil _ _ HP). apply HN2. lia.
  - (* PMap *) intros m s IH a b. destruct (IH a b) as (i & (N & HN) & HR).
    exists (pmap_ctor m i). split; [|apply (prepr_map_ctor m); exact HR].
    exists (S N). intros n Hn. destruct n as [|n]; [lia|]. rewrite pbuild_S. rewrite HN by lia. reflexivity.
  - (* PPlus *) intros l IHl r IHr a b.
    destruct (IHl a b) as (il & (Nl & HNl) & HRl). destruct (IHr a b) as (ir & (Nr & HNr) & HRr).
    exists (pplus_ctor il ir). split; [|apply prepr_plus_ctor; assumption].
    exists (S (Nat.max Nl Nr)). intros n Hn. destruct n as [|n]; [lia|]. rewrite pbuild_S.
    rewrite HNl by lia. rewrite HNr by lia. reflexivity.
  - (* PJoin *) intros j s IH a b.
    apply (pjoin_ctor (PJF j) (pden a b s) (fun n => pbuild n a b s) (fun n => pbuild n a b (PJoin j s))
             (pjok_F j) (IH a b)).
    intros n. reflexivity.
  - (* PJoinE *) intros body IHb s IHs a b.
    apply (pjoin_ctor (PJE body) (pden a b s) (fun n => pbuild n a b s) (fun n => pbuild n a b (PJoinE body s))).
    + intros e. destruct (IHb (fst e) (snd e)) as (c & (N & HN) & HR). exists c. split; [|exact HR].
      exists (S N). intros n Hn. destruct n as [|n]; [lia|]. apply HN. lia.
    + apply IHs.
    + intros n. reflexivity.
  - (* PFromSeq *) intros j s IH a b.
    apply (fromseq_ctor (FSF j) (sden a b s) (fun n => sbuild n a b s) (fun n => pbuild n a b (PFromSeq j s))
             (fsok_F j) (IH a b)).
    intros n. reflexivity.
  - (* PFromSeqE *) intros body IHb s IHs a b.
    apply (fromseq_ctor (FSE body) (sden a b s) (fun n => sbuild n a b s) (fun n => pbuild n a b (PFromSeqE body s))).
    + intros x. destruct (IHb (1000 + x) x) as (c & (N & HN) & HR). exists c. split; [|exact HR].
      exists (S N). intros n Hn. destruct n as [|n]; [lia|]. apply HN. lia.
    + apply IHs.
    + intros n. reflexivity.
  - (* PWhen: nil when the guard fails, else the body *) intros p s IH a b. cbn [pden].
    destruct (interp_pp p (a, b)) eqn:Hp.
    + destruct (IH a b) as (i & (N & HN) & HR). exists i. split; [|exact HR].
      exists (S N). intros n Hn. destruct n as [|n]; [lia|]. rewrite pbuild_S, Hp. apply HN. lia.
    + exists PINil. split; [|reflexivity].
      apply Ev_const. intros n. rewrite pbuild_S, Hp. reflexivity.
  - (* SFrom *) intros v a b. exists (SIElem v). split; [apply Ev_const; intros n; apply sbuild_S | apply spos_elem].
  - (* SSlice *) intros xs a b. exists (sfrom_slice xs). split; [apply Ev_const; intros n; apply sbuild_S | apply srepr_from_slice].
  - (* SArgK *) intros a b. exists (SIElem a). split; [apply Ev_const; intros n; apply sbuild_S | apply spos_elem].
  - (* SArgV *) intros a b. exists (SIElem b). split; [apply Ev_const; intros n; apply sbuild_S | apply spos_elem].
  - (* SShift *) intros ys a b. exists (sfrom_slice (map (Z.add b) ys)).
    split; [apply Ev_const; intros n; apply sbuild_S | apply srepr_from_slice].
  - (* SToSeq *) intros j s IH a b.
    apply (toseq_ctor (TSF j) (pden a b s) (fun n => pbuild n a b s) (fun n => sbuild n a b (SToSeq j s))
             (tsok_F j) (IH a b)).
    intros n. reflexivity.
  - (* SToSeqE *) intros body IHb s IHs a b.
    apply (toseq_ctor (TSE body) (pden a b s) (fun n => pbuild n a b s) (fun n => sbuild n a b (SToSeqE body s))).
    + intros e. destruct (IHb (fst e) (snd e)) as (c & (N & HN) & HR). exists c. split; [|exact HR].
      exists (S N). intros n Hn. destruct n as [|n]; [lia|]. apply HN. lia.
    + apply IHs.
    + intros n. reflexivity.
  - (* SWhen *) intros p s IH a b. cbn [sden].
    destruct (interp_pp p (a, b)) eqn:Hp.
    + destruct (IH a b) as (i & (N & HN) & HR). exists i. split; [|exact HR].
      exists (S N). intros n Hn. destruct n as [|n]; [lia|]. rewrite sbuild_S, Hp. apply HN. lia.
    + exists SINil. split; [|reflexivity].
      apply Ev_const. intros n. rewrite sbuild_S, Hp. reflexivity.
Qed.

Definition pbuild_ok := proj1 build_ok_both.
Definition sbuild_ok := proj2 build_ok_both.

(* ------------------------------------------------------------ the documented loop *)
Lemma pdrain_repr l i : PRepr l i -> Ev (fun n => pdrain n i) l.
Proof.
  intros HR. destruct (prepr_cases _ _ HR) as [(-> & ->) | (Hl & HP)].
  - exists 0%nat. intros n _. reflexivity.
  - destruct (g_drain_loop pnext kv is_pnil pdrain_loop (fun n i => eq_refl) _ _ HP) as (N & HN).
    exists N. intros n Hn. unfold pdrain. rewrite (pnonnil _ _ HP). apply HN. exact Hn.
Qed.

Lemma sdrain_repr l i : SRepr l i -> Ev (fun n => sdrain n i) l.
Proof.
  intros HR. destruct (srepr_cases _ _ HR) as [(-> & ->) | (Hl & HP)].
  - exists 0%nat. intros n _. reflexivity.
  - destruct (g_drain_loop snext svalue is_snil sdrain_loop (fun n i => eq_refl) _ _ HP) as (N & HN).
    exists N. intros n Hn. unfold sdrain. rewrite (snonnil _ _ HP). apply HN. exact Hn.
Qed.

(* for EVERY pair expression, in any environment: the drained list of (Key(), Value()) is the denotation *)
Theorem pair_drain_den_env : forall (t : pe) (a b : Z),
  exists N, forall n, (N <= n)%nat ->
    exists i, pbuild n a b t = Some i /\ pdrain n i = Some (pden a b t).
Proof.
  intros t a b. destruct (pbuild_ok t a b) as (i & (N & HN) & HR).
  destruct (pdrain_repr _ _ HR) as (N2 & HN2).
  exists (Nat.max N N2). intros n Hn. exists i. split; [apply HN | apply HN2]; lia.
Qed.

Theorem pair_drain_den : forall t : pe,
  exists N, forall n, (N <= n)%nat -> prun n t = Some (pden 0 0 t).
Proof.
  intros t. destruct (pair_drain_den_env t 0 0) as (N & HN). exists N. intros n Hn.
  destruct (HN n Hn) as (i & Hb & Hd). unfold prun. rewrite Hb. exact Hd.
Qed.

(* the plain sequences obtained through ToSeq *)
Theorem toseq_drain_den_env : forall (t : se) (a b : Z),
  exists N, forall n, (N <= n)%nat ->
    exists i, sbuild n a b t = Some i /\ sdrain n i = Some (sden a b t).
Proof.
  intros t a b. destruct (sbuild_ok t a b) as (i & (N & HN) & HR).
  destruct (sdrain_repr _ _ HR) as (N2 & HN2).
  exists (Nat.max N N2). intros n Hn. exists i. split; [apply HN | apply HN2]; lia.
Qed.

Theorem toseq_drain_den : forall t : se,
  exists N, forall n, (N <= n)%nat -> srun n t = Some (sden 0 0 t).
Proof.
  intros t. destruct (toseq_drain_den_env t 0 0) as (N & HN). exists N. intros n Hn.
  destruct (HN n Hn) as (i & Hb & Hd). unfold srun. rewrite Hb. exact Hd.
Qed.

(* Map never changes keys: draining Map(s, f) gives the keys of draining s, each value being f(key, value) *)
Theorem pair_map_keys : forall (m : pmcode) (s : pe),
  exists N, forall n, (N <= n)%nat ->
    exists l l', prun n s = Some l /\ prun n (PMap m s) = Some l' /\
                 map fst l' = map fst l /\
                 map snd l' = map (fun e => interp_pm m (fst e) (snd e)) l.
Proof.
  intros m s. destruct (pair_drain_den s) as (N1 & H1). destruct (pair_drain_den (PMap m s)) as (N2 & H2).
  exists (Nat.max N1 N2). intros n Hn.
  exists (pden 0 0 s), (pden 0 0 (PMap m s)).
  split; [apply H1; lia|]. split; [apply H2; lia|].
  cbn [pden]. rewrite !map_map. split; reflexivity.
Qed.

(* ------------------------------------------------------------ ForEach *)
Lemma gupto_cons {E} (f : nat -> E -> option Z) k a r :
  gupto f k (a :: r) = match f k a with
                       | Some err => ([a], Some err)
                       | None => let (v, o) := gupto f (S k) r in (a :: v, o)
                       end.
Proof. reflexivity. Qed.

Theorem pair_foreach_first_error : forall (t : pe) (f : nat -> Z * Z -> option Z),
  exists N, forall n, (N <= n)%nat -> prun_foreach n f t = Some (gupto f 0%nat (pden 0 0 t)).
Proof.
  intros t f. destruct (pbuild_ok t 0 0) as (i & (N & HN) & HR).
  destruct (prepr_cases _ _ HR) as [(Hl & ->) | (Hl & HP)].
  - exists N. intros n Hn. unfold prun_foreach. rewrite HN by exact Hn. rewrite Hl. reflexivity.
  - destruct (g_foreach_loop pnext kv is_pnil gupto (fun f k => eq_refl) gupto_cons
                pforeach_loop (fun n f k i => eq_refl) f _ _ 0%nat HP) as (N2 & HN2).
    exists (Nat.max N N2). intros n Hn. unfold prun_foreach. rewrite HN by lia.
    unfold pforeach. rewrite (pnonnil _ _ HP). apply HN2. lia.
Qed.

Theorem toseq_foreach_first_error : forall (t : se) (f : nat -> Z -> option Z),
  exists N, forall n, (N <= n)%nat -> srun_foreach n f t = Some (gupto f 0%nat (sden 0 0 t)).
Proof.
  intros t f. destruct (sbuild_ok t 0 0) as (i & (N & HN) & HR).
  destruct (srepr_cases _ _ HR) as [(Hl & ->) | (Hl & HP)].
  - exists N. intros n Hn. unfold srun_foreach. rewrite HN by exact Hn. rewrite Hl. reflexivity.
  - destruct (g_foreach_loop snext svalue is_snil gupto (fun f k => eq_refl) gupto_cons
                sforeach_loop (fun n f k i => eq_refl) f _ _ 0%nat HP) as (N2 & HN2).
    exists (Nat.max N N2). intros n Hn. unfold srun_foreach. rewrite HN by lia.
    unfold sforeach. rewrite (snonnil _ _ HP). apply HN2. lia.
Qed.

(* what [gupto] says (as Iter/SeqProofs.upto_spec, for any element type) *)
Theorem gupto_spec {E} : forall (f : nat -> E -> option Z) l k vs o, gupto f k l = (vs, o) ->
  exists rest, l = vs ++ rest /\
  (forall j x, nth_error vs j = Some x -> S j < length vs -> f (k + j)%nat x = None)%nat /\
  match o with
  | Some err => exists x, nth_error vs (length vs - 1) = Some x /\ f (k + (length vs - 1))%nat x = Some err
  | None => rest = [] /\ forall j x, nth_error vs j = Some x -> f (k + j)%nat x = None
  end.
Proof.
  intros f. induction l as [|a r IH]; intros k vs o H.
  - cbn in H. inversion H; subst. exists []. split; [reflexivity|]. split.
    + intros j x Hj. destruct j; discriminate Hj.
    + split; [reflexivity|]. intros j x Hj. destruct j; discriminate Hj.
  - cbn [gupto] in H. destruct (f k a) as [err|] eqn:Hf.
    + inversion H; subst. exists r. split; [reflexivity|]. split.
      * intros j x Hj Hlt. cbn in Hlt. lia.
      * exists a. cbn. rewrite Nat.add_0_r. auto.
    + destruct (gupto f (S k) r) as (v2, o2) eqn:Hu. inversion H; subst.
      destruct (IH (S k) v2 o Hu) as (rest & Hl & Hall & Hlast).
      exists rest. split; [cbn; rewrite Hl; reflexivity|]. split.
      * intros j x Hj Hlt. destruct j as [|j].
        -- cbn in Hj. inversion Hj; subst. rewrite Nat.add_0_r. exact Hf.
        -- cbn in Hj, Hlt. replace (k + S j)%nat with (S k + j)%nat by lia. apply (Hall j x Hj). lia.
      * destruct o as [err|].
        -- destruct Hlast as (x & Hn & Hfx). exists x.
           assert (Hlen : (length v2 > 0)%nat).
           { destruct v2; [cbn in Hn; discriminate Hn | cbn; lia]. }
           cbn [length]. replace (S (length v2) - 1)%nat with (S (length v2 - 1)) by lia.
           cbn [nth_error]. split; [exact Hn|].
           replace (k + S (length v2 - 1))%nat with (S k + (length v2 - 1))%nat by lia. exact Hfx.
        -- destruct Hlast as (Hrest & Hno). split; [exact Hrest|].
           intros j x Hj. destruct j as [|j].
           ++ cbn in Hj. inversion Hj; subst. rewrite Nat.add_0_r. exact Hf.
           ++ cbn in Hj. replace (k + S j)%nat with (S k + j)%nat by lia. apply (Hno j x Hj).
Qed.

(* ------------------------------------------------------------ where ForEach leaves the iterator *)
Definition drop_st {E X} (r : option (list E * option Z * X)) : option (list E * option Z) :=
  match r with Some (vs, o, _) => Some (vs, o) | None => None end.

Lemma pforeach_loop_st_proj f : forall n k i, drop_st (pforeach_loop_st n f k i) = pforeach_loop n f k i.
Proof.
  induction n as [|n IH]; intros k i; [reflexivity|].
  cbn [pforeach_loop_st pforeach_loop]. destruct (f k (kv i)) as [err|]; [reflexivity|].
  destruct (pnext n i) as [[[|] i']|]; [|reflexivity|reflexivity].
  rewrite <- IH. destruct (pforeach_loop_st n f (S k) i') as [[[vs o] j]|]; reflexivity.
Qed.
Lemma sforeach_loop_st_proj f : forall n k i, drop_st (sforeach_loop_st n f k i) = sforeach_loop n f k i.
Proof.
  induction n as [|n IH]; intros k i; [reflexivity|].
  cbn [sforeach_loop_st sforeach_loop]. destruct (f k (svalue i)) as [err|]; [reflexivity|].
  destruct (snext n i) as [[[|] i']|]; [|reflexivity|reflexivity].
  rewrite <- IH. destruct (sforeach_loop_st n f (S k) i') as [[[vs o] j]|]; reflexivity.
Qed.

Lemma prun_foreach_st_proj f t n : drop_st (prun_foreach_st n f t) = prun_foreach n f t.
Proof.
  unfold prun_foreach_st, prun_foreach, pforeach. destruct (pbuild n 0 0 t) as [i|]; [|reflexivity].
  destruct (is_pnil i); [reflexivity|apply pforeach_loop_st_proj].
Qed.
Lemma srun_foreach_st_proj f t n : drop_st (srun_foreach_st n f t) = srun_foreach n f t.
Proof.
  unfold srun_foreach_st, srun_foreach, sforeach. destruct (sbuild n 0 0 t) as [i|]; [|reflexivity].
  destruct (is_snil i); [reflexivity|apply sforeach_loop_st_proj].
Qed.

(* after an error the iterator is the one whose element failed: it shows the last element visited, the callback's
   answer on it is the error returned, and the callback was called once per element visited *)
Lemma pforeach_loop_st_stops f : forall n k i vs err j,
  pforeach_loop_st n f k i = Some (vs, Some err, j) ->
  vs <> [] /\ kv j = last vs (0, 0) /\ f (k + (length vs - 1))%nat (kv j) = Some err.
Proof.
  induction n as [|n IH]; intros k i vs err j H; [discriminate|].
  cbn [pforeach_loop_st] in H. destruct (f k (kv i)) as [e|] eqn:Hf.
  - inversion H; subst. split; [discriminate|]. split; [reflexivity|]. cbn. rewrite Nat.add_0_r. exact Hf.
  - destruct (pnext n i) as [[[|] i']|]; [|discriminate|discriminate].
    destruct (pforeach_loop_st n f (S k) i') as [[[vs' o] j']|] eqn:Hr; [|discriminate].
    inversion H; subst. destruct (IH _ _ _ _ _ Hr) as (Hne & Hl & Hf').
    split; [discriminate|]. split.
    + destruct vs' as [|a r]; [contradiction|]. exact Hl.
    + destruct vs' as [|a r]; [contradiction|]. cbn [length] in *.
      replace (k + (S (S (length r)) - 1))%nat with (S k + (S (length r) - 1))%nat by lia. exact Hf'.
Qed.
Lemma sforeach_loop_st_stops f : forall n k i vs err j,
  sforeach_loop_st n f k i = Some (vs, Some err, j) ->
  vs <> [] /\ svalue j = last vs 0 /\ f (k + (length vs - 1))%nat (svalue j) = Some err.
Proof.
  induction n as [|n IH]; intros k i vs err j H; [discriminate|].
  cbn [sforeach_loop_st] in H. destruct (f k (svalue i)) as [e|] eqn:Hf.
  - inversion H; subst. split; [discriminate|]. split; [reflexivity|]. cbn. rewrite Nat.add_0_r. exact Hf.
  - destruct (snext n i) as [[[|] i']|]; [|discriminate|discriminate].
    destruct (sforeach_loop_st n f (S k) i') as [[[vs' o] j']|] eqn:Hr; [|discriminate].
    inversion H; subst. destruct (IH _ _ _ _ _ Hr) as (Hne & Hl & Hf').
    split; [discriminate|]. split.
    + destruct vs' as [|a r]; [contradiction|]. exact Hl.
    + destruct vs' as [|a r]; [contradiction|]. cbn [length] in *.
      replace (k + (S (S (length r)) - 1))%nat with (S k + (S (length r) - 1))%nat by lia. exact Hf'.
Qed.

Theorem pair_foreach_stops_at_error : forall (t : pe) (f : nat -> Z * Z -> option Z) n vs err j,
  prun_foreach_st n f t = Some (vs, Some err, j) ->
  prun_foreach n f t = Some (vs, Some err) /\
  vs <> [] /\ kv j = last vs (0, 0) /\ f (length vs - 1)%nat (kv j) = Some err.
Proof.
  intros t f n vs err j H. split.
  - rewrite <- prun_foreach_st_proj, H. reflexivity.
  - unfold prun_foreach_st in H. destruct (pbuild n 0 0 t) as [i|]; [|discriminate].
    destruct (is_pnil i); [discriminate|]. exact (pforeach_loop_st_stops f _ _ _ _ _ _ H).
Qed.
Theorem toseq_foreach_stops_at_error : forall (t : se) (f : nat -> Z -> option Z) n vs err j,
  srun_foreach_st n f t = Some (vs, Some err, j) ->
  srun_foreach n f t = Some (vs, Some err) /\
  vs <> [] /\ svalue j = last vs 0 /\ f (length vs - 1)%nat (svalue j) = Some err.
Proof.
  intros t f n vs err j H. split.
  - rewrite <- srun_foreach_st_proj, H. reflexivity.
  - unfold srun_foreach_st in H. destruct (sbuild n 0 0 t) as [i|]; [|discriminate].
    destruct (is_snil i); [discriminate|]. exact (sforeach_loop_st_stops f _ _ _ _ _ _ H).
Qed.
