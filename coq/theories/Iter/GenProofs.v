(* Generic part of the iterator proofs, shared by the pair and plain sorts of Iter/PairModel.v:
   the position invariant over any iterator type given by (Next, element at the position, is-nil),
   the documented loop and ForEach over it, and the join-shaped combinators (pair.Join, pair.ToSeq,
   pair.FromSeq all have the same Next() and constructor loops over different iterator types). *)
From Coq Require Import List ZArith Bool Arith Lia.
From Golem Require Import Iter.SeqProofs.     (* Ev, isnil *)
Import ListNotations.

Section GenPos.
  Context {X E : Type}.
  Variable nx : nat -> X -> option (bool * X).     (* Next() with fuel *)
  Variable hdx : X -> E.                           (* the element at the position: Value() / (Key(), Value()) *)
  Variable nilx : X -> bool.
  Variable xnil : X.

  Fixpoint GPos (l : list E) (i : X) : Prop :=
    match l with
    | [] => False
    | a :: r => nilx i = false /\ hdx i = a /\
                exists i', Ev (fun n => nx n i) (negb (isnil r), i') /\ (r <> [] -> GPos r i')
    end.

  Definition GRepr (l : list E) (i : X) : Prop :=
    match l with [] => i = xnil | _ => GPos l i end.

  Lemma GPos_nonnil l i : GPos l i -> nilx i = false.
  Proof. destruct l; cbn; [intros [] | intros (H & _); exact H]. Qed.

  Lemma GPos_head a r i : GPos (a :: r) i -> hdx i = a.
  Proof. cbn. intros (_ & H & _). exact H. Qed.

  Lemma GPos_GRepr l i : l <> [] -> GPos l i -> GRepr l i.
  Proof. destruct l; [congruence | cbn; auto]. Qed.

  Lemma GRepr_nil_or l i : GRepr l i -> (l = [] /\ i = xnil) \/ (l <> [] /\ GPos l i).
  Proof. destruct l; cbn; intros H; [left; auto | right; split; [discriminate | exact H]]. Qed.

  (* ---- the documented loop *)
  Variable dloop : nat -> X -> option (list E).
  Hypothesis dloop_S : forall n i,
    dloop (S n) i = match nx n i with
                    | None => None
                    | Some (false, _) => Some [hdx i]
                    | Some (true, i') => option_map (cons (hdx i)) (dloop n i')
                    end.

  Lemma g_drain_loop : forall l i, GPos l i -> Ev (fun n => dloop n i) l.
  Proof.
    induction l as [|a r IH]; intros i HP; [destruct HP|].
    destruct HP as (Hnn & Hv & i' & (N & HN) & Hr).
    destruct r as [|b r'].
    - exists (S N). intros n Hn. destruct n as [|n]; [lia|].
      rewrite dloop_S. rewrite HN by lia. rewrite Hv. reflexivity.
    - destruct (IH i' (Hr ltac:(discriminate))) as (N2 & HN2).
      exists (S (Nat.max N N2)). intros n Hn. destruct n as [|n]; [lia|].
      rewrite dloop_S. rewrite HN by lia. cbn [isnil negb]. rewrite HN2 by lia. rewrite Hv. reflexivity.
  Qed.

  (* ---- ForEach *)
  Variable upto : (nat -> E -> option Z) -> nat -> list E -> list E * option Z.
  Hypothesis upto_nil : forall f k, upto f k [] = ([], None).
  Hypothesis upto_cons : forall f k a r,
    upto f k (a :: r) = match f k a with
                        | Some err => ([a], Some err)
                        | None => let (v, o) := upto f (S k) r in (a :: v, o)
                        end.
  Variable floop : nat -> (nat -> E -> option Z) -> nat -> X -> option (list E * option Z).
  Hypothesis floop_S : forall n f k i,
    floop (S n) f k i =
    match f k (hdx i) with
    | Some err => Some ([hdx i], Some err)
    | None =>
        match nx n i with
        | None => None
        | Some (false, _) => Some ([hdx i], None)
        | Some (true, i') =>
            match floop n f (S k) i' with
            | None => None
            | Some (vs, o) => Some (hdx i :: vs, o)
            end
        end
    end.

  Lemma g_foreach_loop f : forall l i k, GPos l i -> Ev (fun n => floop n f k i) (upto f k l).
  Proof.
    induction l as [|a r IH]; intros i k HP; [destruct HP|].
    destruct HP as (Hnn & Hv & i' & (N & HN) & Hr).
    rewrite upto_cons. destruct (f k a) as [err|] eqn:Hf.
    - exists 1%nat. intros n Hn. destruct n as [|n]; [lia|]. rewrite floop_S, Hv, Hf. reflexivity.
    - destruct r as [|b r'].
      + exists (S N). intros n Hn. destruct n as [|n]; [lia|].
        rewrite floop_S, Hv, Hf. rewrite HN by lia. rewrite upto_nil. reflexivity.
      + destruct (IH i' (S k) (Hr ltac:(discriminate))) as (N2 & HN2).
        exists (S (Nat.max N N2)). intros n Hn. destruct n as [|n]; [lia|].
        rewrite floop_S, Hv, Hf. rewrite HN by lia. cbn [isnil negb].
        rewrite HN2 by lia. destruct (upto f (S k) (b :: r')). reflexivity.
  Qed.
End GenPos.

(* ------------------------------------------------------------ join-shaped combinators *)
Section GenJoin.
  Context {L C A B : Type}.
  (* lhs iterator (elements A) *)
  Variable nxL : nat -> L -> option (bool * L).
  Variable hdL : L -> A.
  Variable nilL : L -> bool.
  (* current / resulting iterator (elements B) *)
  Variable nxC : nat -> C -> option (bool * C).
  Variable hdC : C -> B.
  Variable nilC : C -> bool.
  Variable cnil : C.
  Hypothesis nilC_cnil : nilC cnil = true.

  Variable mk : C -> L -> C.                             (* &join{Seq: cur, lhs: lhs, rhs} *)
  Variable loop : nat -> C -> L -> option (bool * C).    (* the [for] of Next() *)
  Variable callj : nat -> A -> option C.                 (* calling rhs *)
  Variable cloop : nat -> L -> option C.                 (* the [for] of the constructor *)
  Variable jd : A -> list B.                             (* what rhs denotes *)

  Hypothesis mk_nonnil : forall c l, nilC (mk c l) = false.
  Hypothesis mk_hd : forall c l, hdC (mk c l) = hdC c.
  Hypothesis nx_mk : forall n cur lhs,
    nxC (S n) (mk cur lhs) =
    match nxC n cur with
    | None => None
    | Some (true, cur') => Some (true, mk cur' lhs)
    | Some (false, cur') => loop n cur' lhs
    end.
  Hypothesis loop_S : forall n cur lhs,
    loop (S n) cur lhs =
    match nxL n lhs with
    | None => None
    | Some (false, lhs') => Some (false, mk cur lhs')
    | Some (true, lhs') =>
        match callj n (hdL lhs') with
        | None => None
        | Some c => if nilC c then loop n c lhs' else Some (true, mk c lhs')
        end
    end.
  Hypothesis cloop_S : forall n lhs,
    cloop (S n) lhs =
    match callj n (hdL lhs) with
    | None => None
    | Some c =>
        if negb (nilC c) then Some (mk c lhs)
        else match nxL n lhs with
             | None => None
             | Some (false, _) => Some cnil
             | Some (true, lhs') => cloop n lhs'
             end
    end.

  Notation PosL := (GPos nxL hdL nilL).
  Notation PosC := (GPos nxC hdC nilC).
  Notation ReprC := (GRepr nxC hdC nilC cnil).

  Definition GJOk (a : A) : Prop := exists c, Ev (fun n => callj n a) c /\ ReprC (jd a) c.

  Lemma gjoin_both : forall rl, (forall x, In x rl -> GJOk x) ->
    (forall a lhs cur, PosL (a :: rl) lhs ->
       exists i', Ev (fun n => loop n cur lhs) (negb (isnil (flat_map jd rl)), i') /\
                  (flat_map jd rl <> [] -> PosC (flat_map jd rl) i'))
    /\ (forall lc cur a lhs, PosC lc cur -> PosL (a :: rl) lhs ->
          PosC (lc ++ flat_map jd rl) (mk cur lhs)).
  Proof.
    induction rl as [|b rl' IH]; intros Hj.
    - assert (HA : forall a lhs cur, PosL [a] lhs ->
         exists i', Ev (fun n => loop n cur lhs) (negb (isnil (flat_map jd [])), i') /\
                    (flat_map jd [] <> [] -> PosC (flat_map jd []) i')).
      { intros a lhs cur (Hnn & Hv & lhs' & (N & HN) & _).
        exists (mk cur lhs'). split; [|cbn; congruence].
        exists (S N). intros n Hn. destruct n as [|n]; [lia|].
        rewrite loop_S. rewrite HN by lia. reflexivity. }
      split; [exact HA|].
      induction lc as [|c rc IHc]; intros cur a lhs HPc HPl; [destruct HPc|].
      destruct HPc as (Hnn & Hv & cur' & (N & HN) & Hr).
      cbn [flat_map]. rewrite app_nil_r.
      cbn [GPos]. split; [apply mk_nonnil|]. split; [rewrite mk_hd; exact Hv|].
      destruct rc as [|c2 rc'].
      + destruct (HA a lhs cur' HPl) as (i' & (N2 & HN2) & _).
        exists i'. split; [|congruence].
        exists (S (Nat.max N N2)). intros n Hn. destruct n as [|n]; [lia|].
        rewrite nx_mk. rewrite HN by lia. cbn [isnil negb]. apply HN2. lia.
      + exists (mk cur' lhs). split.
        * exists (S N). intros n Hn. destruct n as [|n]; [lia|].
          rewrite nx_mk. rewrite HN by lia. reflexivity.
        * intros _. specialize (IHc cur' a lhs (Hr ltac:(discriminate)) HPl).
          cbn [flat_map] in IHc. rewrite app_nil_r in IHc. exact IHc.
    - destruct (IH (fun x Hx => Hj x (or_intror Hx))) as (IHA & IHB).
      destruct (Hj b (or_introl eq_refl)) as (c & (Nc & HNc) & HRc).
      assert (HA : forall a lhs cur, PosL (a :: b :: rl') lhs ->
         exists i', Ev (fun n => loop n cur lhs) (negb (isnil (flat_map jd (b :: rl'))), i') /\
                    (flat_map jd (b :: rl') <> [] -> PosC (flat_map jd (b :: rl')) i')).
      { intros a lhs cur (Hnn & Hv & lhs' & (N & HN) & Hr).
        specialize (Hr ltac:(discriminate)).
        pose proof (GPos_head nxL hdL nilL b rl' lhs' Hr) as Hvb.
        cbn [flat_map].
        destruct (GRepr_nil_or nxC hdC nilC cnil _ _ HRc) as [(Hjb & ->) | (Hjb & HPc)].
        - rewrite Hjb. cbn [List.app].
          destruct (IHA b lhs' cnil Hr) as (i' & (N2 & HN2) & HP2).
          exists i'. split; [|exact HP2].
          exists (S (Nat.max N (S (Nat.max Nc N2)))). intros n Hn. destruct n as [|n]; [lia|].
          rewrite loop_S. rewrite HN by lia. cbn [isnil negb]. rewrite Hvb.
          rewrite HNc by lia. rewrite nilC_cnil. apply HN2. lia.
        - exists (mk c lhs'). split.
          + exists (S (Nat.max N Nc)). intros n Hn. destruct n as [|n]; [lia|].
            rewrite loop_S. rewrite HN by lia. cbn [isnil negb]. rewrite Hvb.
            rewrite HNc by lia. rewrite (GPos_nonnil nxC hdC nilC _ _ HPc).
            rewrite app_isnil. destruct (jd b); [congruence | reflexivity].
          + intros _. apply (IHB _ c b lhs' HPc Hr). }
      split; [exact HA|].
      induction lc as [|c1 rc IHc]; intros cur a lhs HPc HPl; [destruct HPc|].
      destruct HPc as (Hnn & Hv & cur' & (N & HN) & Hr).
      cbn [List.app GPos]. split; [apply mk_nonnil|]. split; [rewrite mk_hd; exact Hv|].
      destruct rc as [|c2 rc'].
      + destruct (HA a lhs cur' HPl) as (i' & (N2 & HN2) & HP2).
        exists i'. cbn [List.app]. split; [|exact HP2].
        exists (S (Nat.max N N2)). intros n Hn. destruct n as [|n]; [lia|].
        rewrite nx_mk. rewrite HN by lia. cbn [isnil negb]. apply HN2. lia.
      + exists (mk cur' lhs). split.
        * exists (S N). intros n Hn. destruct n as [|n]; [lia|].
          rewrite nx_mk. rewrite HN by lia. reflexivity.
        * intros _. apply (IHc cur' a lhs (Hr ltac:(discriminate)) HPl).
  Qed.

  Lemma gjoinc_ok : forall rl a lhs, (forall x, In x (a :: rl) -> GJOk x) -> PosL (a :: rl) lhs ->
    exists i, Ev (fun n => cloop n lhs) i /\ ReprC (flat_map jd (a :: rl)) i.
  Proof.
    induction rl as [|b rl' IH]; intros a lhs Hj HP.
    - destruct (Hj a (or_introl eq_refl)) as (c & (Nc & HNc) & HRc).
      pose proof HP as (Hnn & Hv & lhs' & (N & HN) & _).
      cbn [flat_map]. rewrite app_nil_r.
      destruct (GRepr_nil_or nxC hdC nilC cnil _ _ HRc) as [(Hja & ->) | (Hja & HPc)].
      + rewrite Hja. exists cnil. split; [|reflexivity].
        exists (S (Nat.max N Nc)). intros n Hn. destruct n as [|n]; [lia|].
        rewrite cloop_S, Hv. rewrite HNc by lia. rewrite nilC_cnil. cbn [negb]. rewrite HN by lia. reflexivity.
      + exists (mk c lhs). split.
        * exists (S Nc). intros n Hn. destruct n as [|n]; [lia|].
          rewrite cloop_S, Hv. rewrite HNc by lia. rewrite (GPos_nonnil nxC hdC nilC _ _ HPc). reflexivity.
        * apply GPos_GRepr; [exact Hja|].
          destruct (gjoin_both [] (fun x (Hx : In x []) => match Hx with end)) as (_ & HB).
          specialize (HB _ c a lhs HPc HP). cbn [flat_map] in HB. rewrite app_nil_r in HB. exact HB.
    - destruct (Hj a (or_introl eq_refl)) as (c & (Nc & HNc) & HRc).
      pose proof HP as (Hnn & Hv & lhs' & (N & HN) & Hr).
      specialize (Hr ltac:(discriminate)).
      change (flat_map jd (a :: b :: rl')) with (jd a ++ flat_map jd (b :: rl')).
      destruct (GRepr_nil_or nxC hdC nilC cnil _ _ HRc) as [(Hja & ->) | (Hja & HPc)].
      + rewrite Hja. cbn [List.app].
        destruct (IH b lhs' (fun x Hx => Hj x (or_intror Hx)) Hr) as (i & (N2 & HN2) & HR2).
        exists i. split; [|exact HR2].
        exists (S (Nat.max (Nat.max N Nc) N2)). intros n Hn. destruct n as [|n]; [lia|].
        rewrite cloop_S, Hv. rewrite HNc by lia. rewrite nilC_cnil. cbn [negb]. rewrite HN by lia.
        cbn [isnil negb]. apply HN2. lia.
      + exists (mk c lhs). split.
        * exists (S Nc). intros n Hn. destruct n as [|n]; [lia|].
          rewrite cloop_S, Hv. rewrite HNc by lia. rewrite (GPos_nonnil nxC hdC nilC _ _ HPc). reflexivity.
        * destruct (gjoin_both (b :: rl') (fun x Hx => Hj x (or_intror Hx))) as (_ & HB).
          apply GPos_GRepr.
          -- destruct (jd a); [congruence | discriminate].
          -- apply (HB _ c a lhs HPc HP).
  Qed.

  (* the whole constructor: build lhs, [if lhs == nil { return nil }], then the loop *)
  Variable lnil : L.
  Hypothesis nilL_lnil : nilL lnil = true.

  Lemma gjoin_ctor (ll : list A) (g : nat -> option L) (f : nat -> option C) :
    (forall a, GJOk a) ->
    (exists i, Ev g i /\ GRepr nxL hdL nilL lnil ll i) ->
    (forall n, f (S n) = match g n with
                         | None => None
                         | Some i => if nilL i then Some cnil else cloop n i
                         end) ->
    exists i, Ev f i /\ ReprC (flat_map jd ll) i.
  Proof.
    intros Hj (i & (N & HN) & HR) Hf.
    destruct (GRepr_nil_or nxL hdL nilL lnil _ _ HR) as [(Hl & ->) | (Hl & HP)].
    - rewrite Hl. exists cnil. split; [|reflexivity].
      exists (S N). intros n Hn. destruct n as [|n]; [lia|].
      rewrite Hf. rewrite HN by lia. rewrite nilL_lnil. reflexivity.
    - destruct ll as [|a rl]; [congruence|].
      destruct (gjoinc_ok rl a i (fun y _ => Hj y) HP) as (i2 & (N2 & HN2) & HR2).
      exists i2. split; [|exact HR2].
      exists (S (Nat.max N N2)). intros n Hn. destruct n as [|n]; [lia|].
      rewrite Hf. rewrite HN by lia. rewrite (GPos_nonnil nxL hdL nilL _ _ HP). apply HN2. lia.
  Qed.
End GenJoin.
