(* Proofs about the operational model of trait/seq (Iter/Model.v):
   building any expression and draining it with the documented loop yields its list denotation.

   Invariant [Pos l i]: the iterator i is not nil, is positioned on the first element of the
   non-empty list l, and stepping it (with enough fuel) walks exactly through l: Next() answers
   true and leaves an iterator positioned on the rest, or answers false when l has one element.
   [Repr l i]: i = nil when l is empty, else [Pos l i]. *)
From Coq Require Import List ZArith Bool Arith Lia.
From Golem Require Import Iter.Model.
Import ListNotations.
Open Scope Z_scope.

Definition isnil {A} (l : list A) : bool := match l with [] => true | _ => false end.

(* "with enough fuel, f answers v" *)
Definition Ev {A} (f : nat -> option A) (v : A) : Prop :=
  exists N, forall n, (N <= n)%nat -> f n = Some v.

Lemma Ev_S {A} (f g : nat -> option A) v :
  (forall n, f (S n) = g n) -> Ev g v -> Ev f v.
Proof.
  intros Hfg (N & HN). exists (S N). intros n Hn.
  destruct n as [|n]; [lia|]. rewrite Hfg. apply HN. lia.
Qed.

Lemma Ev_const {A} (f : nat -> option A) v : (forall n, f (S n) = Some v) -> Ev f v.
Proof. intros H. exists 1%nat. intros n Hn. destruct n as [|n]; [lia|]. apply H. Qed.

Definition Step (i : it) (b : bool) (i' : it) : Prop := Ev (fun n => next n i) (b, i').

Fixpoint Pos (l : list Z) (i : it) : Prop :=
  match l with
  | [] => False
  | a :: r => is_nil i = false /\ value i = a /\
              exists i', Step i (negb (isnil r)) i' /\ (r <> [] -> Pos r i')
  end.

Definition Repr (l : list Z) (i : it) : Prop :=
  match l with [] => i = INil | _ => Pos l i end.

Lemma Pos_nonnil l i : Pos l i -> is_nil i = false.
Proof. destruct l; cbn; [tauto | intros (H & _); exact H]. Qed.

Lemma Pos_value a r i : Pos (a :: r) i -> value i = a.
Proof. cbn. intros (_ & H & _). exact H. Qed.

Lemma Pos_Repr l i : l <> [] -> Pos l i -> Repr l i.
Proof. destruct l; [congruence | cbn; auto]. Qed.

Lemma Repr_nil_or l i : Repr l i -> (l = [] /\ i = INil) \/ (l <> [] /\ Pos l i).
Proof. destruct l; cbn; intros H; [left; auto | right; split; [discriminate | exact H]]. Qed.

(* ------------------------------------------------------------ unfolding equations *)
Lemma next_elem n v : next (S n) (IElem v) = Some (false, IElem v).
Proof. reflexivity. Qed.
Lemma next_seq1 n a : next (S n) (ISeqOf [a]) = Some (false, ISeqOf [a]).
Proof. reflexivity. Qed.
Lemma next_seq2 n a b r : next (S n) (ISeqOf (a :: b :: r)) = Some (true, ISeqOf (b :: r)).
Proof. reflexivity. Qed.
Lemma next_takew n s p : is_nil s = false ->
  next (S n) (ITakeW s (Some p)) =
  match next n s with
  | None => None
  | Some (false, s') => Some (false, ITakeW s' (Some p))
  | Some (true, s') =>
      if negb (interp_p p (value s')) then Some (false, ITakeW s' None) else Some (true, ITakeW s' (Some p))
  end.
Proof. destruct s; intros H; [discriminate H | reflexivity ..]. Qed.
Lemma next_filt n s p : is_nil s = false -> next (S n) (IFilt s p) = filt_loop n s p.
Proof. destruct s; intros H; [discriminate H | reflexivity ..]. Qed.
Lemma filt_loop_S n s p :
  filt_loop (S n) s p =
  match next n s with
  | None => None
  | Some (false, s') => Some (false, IFilt s' p)
  | Some (true, s') => if interp_p p (value s') then Some (true, IFilt s' p) else filt_loop n s' p
  end.
Proof. reflexivity. Qed.
Lemma next_map n s m :
  next (S n) (IMap s m) = match next n s with None => None | Some (b, s') => Some (b, IMap s' m) end.
Proof. reflexivity. Qed.
Lemma next_plus n s rhs :
  next (S n) (IPlus s rhs) =
  match next n s with
  | None => None
  | Some (hasNext, s') =>
      if negb hasNext && negb (is_nil rhs) then Some (true, IPlus rhs INil)
      else if negb hasNext && is_nil rhs then Some (false, IPlus s' rhs)
      else Some (true, IPlus s' rhs)
  end.
Proof. reflexivity. Qed.
Lemma next_join n cur lhs j :
  next (S n) (IJoin cur lhs j) =
  match next n cur with
  | None => None
  | Some (true, cur') => Some (true, IJoin cur' lhs j)
  | Some (false, cur') => join_loop n cur' lhs j
  end.
Proof. reflexivity. Qed.
Lemma join_loop_S n cur lhs j :
  join_loop (S n) cur lhs j =
  match next n lhs with
  | None => None
  | Some (false, lhs') => Some (false, IJoin cur lhs' j)
  | Some (true, lhs') =>
      match apply_j n j (value lhs') with
      | None => None
      | Some c => if is_nil c then join_loop n c lhs' j else Some (true, IJoin c lhs' j)
      end
  end.
Proof. reflexivity. Qed.
Lemma apply_j_F n c x : apply_j (S n) (JF c) x = Some (from_slice (interp_j c x)).
Proof. reflexivity. Qed.
Lemma apply_j_E n b x : apply_j (S n) (JE b) x = build n x b.
Proof. reflexivity. Qed.
Lemma dropw_loop_S n p i :
  dropw_loop (S n) p i =
  if negb (interp_p p (value i)) then Some i
  else match next n i with
       | None => None
       | Some (false, _) => Some INil
       | Some (true, i') => dropw_loop n p i'
       end.
Proof. reflexivity. Qed.
Lemma filtc_loop_S n p i :
  filtc_loop (S n) p i =
  if interp_p p (value i) then Some (IFilt i p)
  else match next n i with
       | None => None
       | Some (false, _) => Some INil
       | Some (true, i') => filtc_loop n p i'
       end.
Proof. reflexivity. Qed.
Lemma joinc_loop_S n lhs j :
  joinc_loop (S n) lhs j =
  match apply_j n j (value lhs) with
  | None => None
  | Some c =>
      if negb (is_nil c) then Some (IJoin c lhs j)
      else match next n lhs with
           | None => None
           | Some (false, _) => Some INil
           | Some (true, lhs') => joinc_loop n lhs' j
           end
  end.
Proof. reflexivity. Qed.
Lemma build_S n x t :
  build (S n) x t =
  match t with
  | EFrom v => Some (IElem v)
  | ESlice xs => Some (from_slice xs)
  | EArg => Some (IElem x)
  | EShift ys => Some (from_slice (map (Z.add x) ys))
  | ETakeW p s => match build n x s with None => None | Some i => Some (takew_ctor p i) end
  | EDropW p s =>
      match build n x s with
      | None => None
      | Some i => if is_nil i then Some INil else dropw_loop n p i
      end
  | EFilter p s =>
      match build n x s with
      | None => None
      | Some i => if is_nil i then Some INil else filtc_loop n p i
      end
  | EMap m s => match build n x s with None => None | Some i => Some (map_ctor m i) end
  | EPlus l r =>
      match build n x l with
      | None => None
      | Some il => match build n x r with None => None | Some ir => Some (plus_ctor il ir) end
      end
  | EJoin j s =>
      match build n x s with
      | None => None
      | Some i => if is_nil i then Some INil else joinc_loop n i (JF j)
      end
  | EJoinE b s =>
      match build n x s with
      | None => None
      | Some i => if is_nil i then Some INil else joinc_loop n i (JE b)
      end
  | EWhen p s => if interp_p p x then build n x s else Some INil
  end.
Proof. reflexivity. Qed.

(* ------------------------------------------------------------ sources *)
Lemma pos_elem v : Pos [v] (IElem v).
Proof.
  cbn. split; [reflexivity|]. split; [reflexivity|].
  exists (IElem v). split; [|congruence]. apply Ev_const. intros n. apply next_elem.
Qed.

Lemma pos_seqof xs : xs <> [] -> Pos xs (ISeqOf xs).
Proof.
  induction xs as [|a r IH]; [congruence|]. intros _.
  destruct r as [|b r].
  - cbn. split; [reflexivity|]. split; [reflexivity|].
    exists (ISeqOf [a]). split; [|congruence]. apply Ev_const. intros n. apply next_seq1.
  - cbn [Pos]. split; [reflexivity|]. split; [reflexivity|].
    exists (ISeqOf (b :: r)). split.
    + apply Ev_const. intros n. apply next_seq2.
    + intros _. apply IH. discriminate.
Qed.

Lemma repr_from_slice xs : Repr xs (from_slice xs).
Proof.
  destruct xs as [|a r]; [reflexivity|]. apply (pos_seqof (a :: r)). discriminate.
Qed.

(* ------------------------------------------------------------ TakeWhile *)
(* Remark.  The latch [seq.f = nil] is set when the predicate fails, but no lemma below ever steps an
   [ITakeW s None]: on expression trees consumed by the documented loop no Next() is called again after
   it answered false (plus swaps to rhs, join re-primes, the constructors return nil), so list semantics
   does not depend on the latch.  The check therefore sees its removal only through the extra Next()
   calls it makes after exhaustion (model comparison), never through the property oracle. *)
Lemma pos_takew p : forall l s,
  Pos l s -> interp_p p (hd 0 l) = true -> Pos (takew (interp_p p) l) (ITakeW s (Some p)).
Proof.
  induction l as [|a r IH]; intros s HP Hp; [destruct HP|].
  cbn [hd] in Hp. cbn [takew]. rewrite Hp.
  destruct HP as (Hnn & Hv & s' & (N & HN) & Hr).
  cbn [Pos]. split; [reflexivity|]. split; [exact Hv|].
  destruct r as [|b r'].
  - exists (ITakeW s' (Some p)). split; [|cbn; congruence].
    exists (S N). intros n Hn. destruct n as [|n]; [lia|].
    rewrite next_takew by exact Hnn. rewrite HN by lia. reflexivity.
  - specialize (Hr ltac:(discriminate)).
    pose proof (Pos_value _ _ _ Hr) as Hvb.
    destruct (interp_p p b) eqn:Hpb.
    + exists (ITakeW s' (Some p)). split.
      * exists (S N). intros n Hn. destruct n as [|n]; [lia|].
        rewrite next_takew by exact Hnn. rewrite HN by lia. cbn [isnil negb].
        rewrite Hvb, Hpb. cbn [takew]. rewrite Hpb. reflexivity.
      * intros _. apply (IH s' Hr). exact Hpb.
    + exists (ITakeW s' None). split.
      * exists (S N). intros n Hn. destruct n as [|n]; [lia|].
        rewrite next_takew by exact Hnn. rewrite HN by lia. cbn [isnil negb].
        rewrite Hvb, Hpb. cbn [takew]. rewrite Hpb. reflexivity.
      * cbn [takew]. rewrite Hpb. congruence.
Qed.

Lemma repr_takew_ctor p l s : Repr l s -> Repr (takew (interp_p p) l) (takew_ctor p s).
Proof.
  intros HR. destruct (Repr_nil_or _ _ HR) as [(-> & ->) | (Hne & HP)].
  - reflexivity.
  - destruct l as [|a r]; [congruence|]. unfold takew_ctor.
    rewrite (Pos_nonnil _ _ HP), (Pos_value _ _ _ HP). cbn [orb takew].
    destruct (interp_p p a) eqn:Hpa; cbn [negb].
    + pose proof (pos_takew p (a :: r) s HP Hpa) as H. cbn [takew] in H. rewrite Hpa in H. exact H.
    + reflexivity.
Qed.

(* ------------------------------------------------------------ Map *)
Lemma pos_map m : forall l s, Pos l s -> Pos (map (interp_m m) l) (IMap s m).
Proof.
  induction l as [|a r IH]; intros s HP; [destruct HP|].
  destruct HP as (Hnn & Hv & s' & (N & HN) & Hr).
  cbn [map Pos]. split; [reflexivity|]. split; [cbn [value]; rewrite Hv; reflexivity|].
  exists (IMap s' m). split.
  - exists (S N). intros n Hn. destruct n as [|n]; [lia|].
    rewrite next_map. rewrite HN by lia. destruct r; reflexivity.
  - intros Hne. apply IH. apply Hr. destruct r; [cbn in Hne; congruence | discriminate].
Qed.

Lemma repr_map_ctor m l s : Repr l s -> Repr (map (interp_m m) l) (map_ctor m s).
Proof.
  intros HR. destruct (Repr_nil_or _ _ HR) as [(-> & ->) | (Hne & HP)].
  - reflexivity.
  - unfold map_ctor. rewrite (Pos_nonnil _ _ HP).
    apply Pos_Repr; [destruct l; [congruence | discriminate] | apply pos_map; exact HP].
Qed.

(* ------------------------------------------------------------ Plus *)
Lemma pos_plus_nil : forall l s, Pos l s -> Pos l (IPlus s INil).
Proof.
  induction l as [|a r IH]; intros s HP; [destruct HP|].
  destruct HP as (Hnn & Hv & s' & (N & HN) & Hr).
  cbn [Pos]. split; [reflexivity|]. split; [exact Hv|].
  exists (IPlus s' INil). split.
  - exists (S N). intros n Hn. destruct n as [|n]; [lia|].
    rewrite next_plus. rewrite HN by lia. destruct r; reflexivity.
  - intros Hne. apply IH. apply Hr. exact Hne.
Qed.

Lemma pos_plus l2 rhs : Pos l2 rhs -> forall l1 s, Pos l1 s -> Pos (l1 ++ l2) (IPlus s rhs).
Proof.
  intros H2. pose proof (Pos_nonnil _ _ H2) as Hnr.
  assert (Hl2 : l2 <> []) by (destruct l2; [destruct H2 | discriminate]).
  induction l1 as [|a r IH]; intros s HP; [destruct HP|].
  destruct HP as (Hnn & Hv & s' & (N & HN) & Hr).
  cbn [app Pos]. split; [reflexivity|]. split; [exact Hv|].
  assert (Hnn2 : isnil (r ++ l2) = false) by (destruct r; [destruct l2; [congruence | reflexivity] | reflexivity]).
  rewrite Hnn2. cbn [negb].
  destruct r as [|b r'].
  - exists (IPlus rhs INil). split.
    + exists (S N). intros n Hn. destruct n as [|n]; [lia|].
      rewrite next_plus. rewrite HN by lia. cbn [isnil negb andb]. rewrite Hnr. reflexivity.
    + intros _. cbn [app]. apply pos_plus_nil. exact H2.
  - exists (IPlus s' rhs). split.
    + exists (S N). intros n Hn. destruct n as [|n]; [lia|].
      rewrite next_plus. rewrite HN by lia. reflexivity.
    + intros _. apply IH. apply Hr. discriminate.
Qed.

Lemma repr_plus_ctor l1 l2 s1 s2 : Repr l1 s1 -> Repr l2 s2 -> Repr (l1 ++ l2) (plus_ctor s1 s2).
Proof.
  intros H1 H2.
  destruct (Repr_nil_or _ _ H1) as [(-> & ->) | (Hne1 & HP1)].
  - exact H2.
  - destruct (Repr_nil_or _ _ H2) as [(-> & ->) | (Hne2 & HP2)].
    + unfold plus_ctor. rewrite (Pos_nonnil _ _ HP1). cbn [is_nil]. rewrite app_nil_r. exact H1.
    + unfold plus_ctor. rewrite (Pos_nonnil _ _ HP1), (Pos_nonnil _ _ HP2).
      apply Pos_Repr; [destruct l1; [congruence | discriminate] | apply pos_plus; assumption].
Qed.

(* ------------------------------------------------------------ Filter *)
(* [filt_loop] started on an iterator positioned on l looks for the next hit in the tail of l *)
Lemma filter_both p : forall l s, Pos l s ->
  (exists i', Ev (fun n => filt_loop n s p) (negb (isnil (filter (interp_p p) (tl l))), i') /\
              (filter (interp_p p) (tl l) <> [] -> Pos (filter (interp_p p) (tl l)) i'))
  /\ (interp_p p (hd 0 l) = true -> Pos (filter (interp_p p) l) (IFilt s p)).
Proof.
  induction l as [|a r IH]; intros s HP; [destruct HP|].
  destruct HP as (Hnn & Hv & s' & (N & HN) & Hr).
  assert (HA : exists i', Ev (fun n => filt_loop n s p) (negb (isnil (filter (interp_p p) r)), i') /\
              (filter (interp_p p) r <> [] -> Pos (filter (interp_p p) r) i')).
  { destruct r as [|b r'].
    - exists (IFilt s' p). split; [|cbn; congruence].
      exists (S N). intros n Hn. destruct n as [|n]; [lia|].
      rewrite filt_loop_S. rewrite HN by lia. reflexivity.
    - specialize (Hr ltac:(discriminate)).
      pose proof (Pos_value _ _ _ Hr) as Hvb.
      destruct (IH s' Hr) as ((i2 & (N2 & HN2) & HP2) & HB). cbn [tl hd] in *.
      cbn [filter]. destruct (interp_p p b) eqn:Hpb.
      + exists (IFilt s' p). split.
        * exists (S N). intros n Hn. destruct n as [|n]; [lia|].
          rewrite filt_loop_S. rewrite HN by lia. cbn [isnil negb]. rewrite Hvb, Hpb. reflexivity.
        * intros _. specialize (HB eq_refl). cbn [filter] in HB. rewrite Hpb in HB. exact HB.
      + exists i2. split.
        * exists (S (Nat.max N N2)). intros n Hn. destruct n as [|n]; [lia|].
          rewrite filt_loop_S. rewrite HN by lia. cbn [isnil negb]. rewrite Hvb, Hpb.
          apply HN2. lia.
        * exact HP2. }
  split; [exact HA|].
  cbn [hd filter]. intros Hpa. rewrite Hpa.
  destruct HA as (i' & (N1 & HN1) & HP1).
  cbn [Pos]. split; [reflexivity|]. split; [exact Hv|].
  exists i'. split.
  - exists (S N1). intros n Hn. destruct n as [|n]; [lia|].
    rewrite next_filt by exact Hnn. apply HN1. lia.
  - exact HP1.
Qed.

Lemma filtc_ok p : forall l s, Pos l s ->
  exists i, Ev (fun n => filtc_loop n p s) i /\ Repr (filter (interp_p p) l) i.
Proof.
  induction l as [|a r IH]; intros s HP; [destruct HP|].
  pose proof (filter_both p _ _ HP) as (_ & HB). cbn [hd] in HB.
  destruct HP as (Hnn & Hv & s' & (N & HN) & Hr).
  cbn [filter]. destruct (interp_p p a) eqn:Hpa.
  - exists (IFilt s p). split.
    + apply Ev_const. intros n. rewrite filtc_loop_S, Hv, Hpa. reflexivity.
    + specialize (HB eq_refl). cbn [filter] in HB. rewrite Hpa in HB. exact HB.
  - destruct r as [|b r'].
    + exists INil. split; [|reflexivity].
      exists (S N). intros n Hn. destruct n as [|n]; [lia|].
      rewrite filtc_loop_S, Hv, Hpa. rewrite HN by lia. reflexivity.
    + specialize (Hr ltac:(discriminate)).
      destruct (IH s' Hr) as (i & (N2 & HN2) & HR2).
      exists i. split; [|exact HR2].
      exists (S (Nat.max N N2)). intros n Hn. destruct n as [|n]; [lia|].
      rewrite filtc_loop_S, Hv, Hpa. rewrite HN by lia. cbn [isnil negb]. apply HN2. lia.
Qed.

(* ------------------------------------------------------------ DropWhile *)
Lemma dropw_ok p : forall l s, Pos l s ->
  exists i, Ev (fun n => dropw_loop n p s) i /\ Repr (dropw (interp_p p) l) i.
Proof.
  induction l as [|a r IH]; intros s HP; [destruct HP|].
  pose proof HP as HP0.
  destruct HP as (Hnn & Hv & s' & (N & HN) & Hr).
  cbn [dropw]. destruct (interp_p p a) eqn:Hpa.
  - destruct r as [|b r'].
    + exists INil. split; [|reflexivity].
      exists (S N). intros n Hn. destruct n as [|n]; [lia|].
      rewrite dropw_loop_S, Hv, Hpa. cbn [negb]. rewrite HN by lia. reflexivity.
    + specialize (Hr ltac:(discriminate)).
      destruct (IH s' Hr) as (i & (N2 & HN2) & HR2).
      exists i. split; [|exact HR2].
      exists (S (Nat.max N N2)). intros n Hn. destruct n as [|n]; [lia|].
      rewrite dropw_loop_S, Hv, Hpa. cbn [negb]. rewrite HN by lia. cbn [isnil negb]. apply HN2. lia.
  - exists s. split; [|exact HP0].
    apply Ev_const. intros n. rewrite dropw_loop_S, Hv, Hpa. reflexivity.
Qed.

(* ------------------------------------------------------------ Join *)
Definition jden (j : jfun) (a : Z) : list Z :=
  match j with JF c => interp_j c a | JE b => den a b end.

(* calling the join function on a yields (with enough fuel) an iterator for its denotation *)
Definition JOk (j : jfun) (a : Z) : Prop :=
  exists c, Ev (fun n => apply_j n j a) c /\ Repr (jden j a) c.

Lemma app_isnil {A} (l1 l2 : list A) : isnil (l1 ++ l2) = isnil l1 && isnil l2.
Proof. destruct l1; reflexivity. Qed.

Lemma join_both j : forall rl, (forall x, In x rl -> JOk j x) ->
  (forall a lhs cur, Pos (a :: rl) lhs ->
     exists i', Ev (fun n => join_loop n cur lhs j) (negb (isnil (flat_map (jden j) rl)), i') /\
                (flat_map (jden j) rl <> [] -> Pos (flat_map (jden j) rl) i'))
  /\ (forall lc cur a lhs, Pos lc cur -> Pos (a :: rl) lhs ->
        Pos (lc ++ flat_map (jden j) rl) (IJoin cur lhs j)).
Proof.
  induction rl as [|b rl' IH]; intros Hj.
  - assert (HA : forall a lhs cur, Pos [a] lhs ->
       exists i', Ev (fun n => join_loop n cur lhs j) (negb (isnil (flat_map (jden j) [])), i') /\
                  (flat_map (jden j) [] <> [] -> Pos (flat_map (jden j) []) i')).
    { intros a lhs cur (Hnn & Hv & lhs' & (N & HN) & _).
      exists (IJoin cur lhs' j). split; [|cbn; congruence].
      exists (S N). intros n Hn. destruct n as [|n]; [lia|].
      rewrite join_loop_S. rewrite HN by lia. reflexivity. }
    split; [exact HA|].
    induction lc as [|c rc IHc]; intros cur a lhs HPc HPl; [destruct HPc|].
    destruct HPc as (Hnn & Hv & cur' & (N & HN) & Hr).
    cbn [flat_map]. rewrite app_nil_r.
    cbn [Pos]. split; [reflexivity|]. split; [exact Hv|].
    destruct rc as [|c2 rc'].
    + destruct (HA a lhs cur' HPl) as (i' & (N2 & HN2) & _).
      exists i'. split; [|congruence].
      exists (S (Nat.max N N2)). intros n Hn. destruct n as [|n]; [lia|].
      rewrite next_join. rewrite HN by lia. cbn [isnil negb]. apply HN2. lia.
    + exists (IJoin cur' lhs j). split.
      * exists (S N). intros n Hn. destruct n as [|n]; [lia|].
        rewrite next_join. rewrite HN by lia. reflexivity.
      * intros _. specialize (IHc cur' a lhs (Hr ltac:(discriminate)) HPl).
        cbn [flat_map] in IHc. rewrite app_nil_r in IHc. exact IHc.
  - destruct (IH (fun x Hx => Hj x (or_intror Hx))) as (IHA & IHB).
    destruct (Hj b (or_introl eq_refl)) as (c & (Nc & HNc) & HRc).
    assert (HA : forall a lhs cur, Pos (a :: b :: rl') lhs ->
       exists i', Ev (fun n => join_loop n cur lhs j) (negb (isnil (flat_map (jden j) (b :: rl'))), i') /\
                  (flat_map (jden j) (b :: rl') <> [] -> Pos (flat_map (jden j) (b :: rl')) i')).
    { intros a lhs cur (Hnn & Hv & lhs' & (N & HN) & Hr).
      specialize (Hr ltac:(discriminate)).
      pose proof (Pos_value _ _ _ Hr) as Hvb.
      cbn [flat_map].
      destruct (Repr_nil_or _ _ HRc) as [(Hjb & ->) | (Hjb & HPc)].
      - rewrite Hjb. cbn [app].
        destruct (IHA b lhs' INil Hr) as (i' & (N2 & HN2) & HP2).
        exists i'. split; [|exact HP2].
        exists (S (Nat.max N (S (Nat.max Nc N2)))). intros n Hn. destruct n as [|n]; [lia|].
        rewrite join_loop_S. rewrite HN by lia. cbn [isnil negb]. rewrite Hvb.
        rewrite HNc by lia. cbn [is_nil]. apply HN2. lia.
      - exists (IJoin c lhs' j). split.
        + exists (S (Nat.max N Nc)). intros n Hn. destruct n as [|n]; [lia|].
          rewrite join_loop_S. rewrite HN by lia. cbn [isnil negb]. rewrite Hvb.
          rewrite HNc by lia. rewrite (Pos_nonnil _ _ HPc).
          rewrite app_isnil. destruct (jden j b); [congruence | reflexivity].
        + intros _. apply (IHB _ c b lhs' HPc Hr). }
    split; [exact HA|].
    induction lc as [|c1 rc IHc]; intros cur a lhs HPc HPl; [destruct HPc|].
    destruct HPc as (Hnn & Hv & cur' & (N & HN) & Hr).
    cbn [app Pos]. split; [reflexivity|]. split; [exact Hv|].
    destruct rc as [|c2 rc'].
    + destruct (HA a lhs cur' HPl) as (i' & (N2 & HN2) & HP2).
      exists i'. cbn [app]. split; [|exact HP2].
      exists (S (Nat.max N N2)). intros n Hn. destruct n as [|n]; [lia|].
      rewrite next_join. rewrite HN by lia. cbn [isnil negb]. apply HN2. lia.
    + exists (IJoin cur' lhs j). split.
      * exists (S N). intros n Hn. destruct n as [|n]; [lia|].
        rewrite next_join. rewrite HN by lia. reflexivity.
      * intros _. apply (IHc cur' a lhs (Hr ltac:(discriminate)) HPl).
Qed.

Lemma joinc_ok j : forall rl a lhs, (forall x, In x (a :: rl) -> JOk j x) -> Pos (a :: rl) lhs ->
  exists i, Ev (fun n => joinc_loop n lhs j) i /\ Repr (flat_map (jden j) (a :: rl)) i.
Proof.
  induction rl as [|b rl' IH]; intros a lhs Hj HP.
  - destruct (Hj a (or_introl eq_refl)) as (c & (Nc & HNc) & HRc).
    pose proof HP as (Hnn & Hv & lhs' & (N & HN) & _).
    cbn [flat_map]. rewrite app_nil_r.
    destruct (Repr_nil_or _ _ HRc) as [(Hja & ->) | (Hja & HPc)].
    + rewrite Hja. exists INil. split; [|reflexivity].
      exists (S (Nat.max N Nc)). intros n Hn. destruct n as [|n]; [lia|].
      rewrite joinc_loop_S, Hv. rewrite HNc by lia. cbn [is_nil negb]. rewrite HN by lia. reflexivity.
    + exists (IJoin c lhs j). split.
      * exists (S Nc). intros n Hn. destruct n as [|n]; [lia|].
        rewrite joinc_loop_S, Hv. rewrite HNc by lia. rewrite (Pos_nonnil _ _ HPc). reflexivity.
      * apply Pos_Repr; [exact Hja|].
        destruct (join_both j [] (fun x (Hx : In x []) => match Hx with end)) as (_ & HB).
        specialize (HB _ c a lhs HPc HP). cbn [flat_map] in HB. rewrite app_nil_r in HB. exact HB.
  - destruct (Hj a (or_introl eq_refl)) as (c & (Nc & HNc) & HRc).
    pose proof HP as (Hnn & Hv & lhs' & (N & HN) & Hr).
    specialize (Hr ltac:(discriminate)).
    change (flat_map (jden j) (a :: b :: rl')) with (jden j a ++ flat_map (jden j) (b :: rl')).
    destruct (Repr_nil_or _ _ HRc) as [(Hja & ->) | (Hja & HPc)].
    + rewrite Hja. cbn [app].
      destruct (IH b lhs' (fun x Hx => Hj x (or_intror Hx)) Hr) as (i & (N2 & HN2) & HR2).
      exists i. split; [|exact HR2].
      exists (S (Nat.max (Nat.max N Nc) N2)). intros n Hn. destruct n as [|n]; [lia|].
      rewrite joinc_loop_S, Hv. rewrite HNc by lia. cbn [is_nil negb]. rewrite HN by lia.
      cbn [isnil negb]. apply HN2. lia.
    + exists (IJoin c lhs j). split.
      * exists (S Nc). intros n Hn. destruct n as [|n]; [lia|].
        rewrite joinc_loop_S, Hv. rewrite HNc by lia. rewrite (Pos_nonnil _ _ HPc). reflexivity.
      * destruct (join_both j (b :: rl') (fun x Hx => Hj x (or_intror Hx))) as (_ & HB).
        apply Pos_Repr.
        -- destruct (jden j a); [congruence | discriminate].
        -- apply (HB _ c a lhs HPc HP).
Qed.

Lemma jok_F c x : JOk (JF c) x.
Proof.
  exists (from_slice (interp_j c x)). split.
  - apply Ev_const. intros n. apply apply_j_F.
  - apply repr_from_slice.
Qed.

(* ------------------------------------------------------------ every constructor call *)
Definition BuildOk (x : Z) (t : e) : Prop :=
  exists i, Ev (fun n => build n x t) i /\ Repr (den x t) i.

Lemma flat_map_ext_in' {A B} (f g : A -> list B) l : (forall a, f a = g a) -> flat_map f l = flat_map g l.
Proof. intros H. induction l as [|a r IH]; [reflexivity|]. cbn. rewrite H, IH. reflexivity. Qed.

Lemma build_join j (t : e) x (dj : Z -> list Z) :
  (forall a, jden j a = dj a) -> (forall a, JOk j a) -> BuildOk x t ->
  forall f : nat -> option it,
  (forall n, f (S n) = match build n x t with
                       | None => None
                       | Some i => if is_nil i then Some INil else joinc_loop n i j
                       end) ->
  exists i, Ev f i /\ Repr (flat_map dj (den x t)) i.
Proof.
  intros Hd Hj (i & (N & HN) & HR) f Hf.
  rewrite <- (flat_map_ext_in' _ _ (den x t) Hd).
  destruct (Repr_nil_or _ _ HR) as [(Hl & ->) | (Hl & HP)].
  - rewrite Hl. exists INil. split; [|reflexivity].
    exists (S N). intros n Hn. destruct n as [|n]; [lia|].
    rewrite Hf. rewrite HN by lia. reflexivity.
  - destruct (den x t) as [|a rl]; [congruence|].
    destruct (joinc_ok j rl a i (fun y _ => Hj y) HP) as (i2 & (N2 & HN2) & HR2).
    exists i2. split; [|exact HR2].
    exists (S (Nat.max N N2)). intros n Hn. destruct n as [|n]; [lia|].
    rewrite Hf. rewrite HN by lia. rewrite (Pos_nonnil _ _ HP). apply HN2. lia.
Qed.

Theorem build_ok : forall t x, BuildOk x t.
Proof.
  induction t as [v | xs | | ys | p s IH | p s IH | p s IH | m s IH | l IHl r IHr | j s IH | b IHb s IHs | p s IH]; intros x.
  - exists (IElem v). split; [apply Ev_const; intros n; apply build_S | apply pos_elem].
  - exists (from_slice xs). split; [apply Ev_const; intros n; apply build_S | apply repr_from_slice].
  - exists (IElem x). split; [apply Ev_const; intros n; apply build_S | apply pos_elem].
  - exists (from_slice (map (Z.add x) ys)). split; [apply Ev_const; intros n; apply build_S | apply repr_from_slice].
  - destruct (IH x) as (i & (N & HN) & HR).
    exists (takew_ctor p i). split; [|apply repr_takew_ctor; exact HR].
    exists (S N). intros n Hn. destruct n as [|n]; [lia|]. rewrite build_S. rewrite HN by lia. reflexivity.
  - destruct (IH x) as (i & (N & HN) & HR). unfold BuildOk. cbn [den].
    destruct (Repr_nil_or _ _ HR) as [(Hl & ->) | (Hl & HP)].
    + rewrite Hl. exists INil. split; [|reflexivity].
      exists (S N). intros n Hn. destruct n as [|n]; [lia|]. rewrite build_S. rewrite HN by lia. reflexivity.
    + destruct (dropw_ok p _ _ HP) as (i2 & (N2 & HN2) & HR2).
      exists i2. split; [|exact HR2].
      exists (S (Nat.max N N2)). intros n Hn. destruct n as [|n]; [lia|]. rewrite build_S. rewrite HN by lia.
      rewrite (Pos_nonnil _ _ HP). apply HN2. lia.
  - destruct (IH x) as (i & (N & HN) & HR). unfold BuildOk. cbn [den].
    destruct (Repr_nil_or _ _ HR) as [(Hl & ->) | (Hl & HP)].
    + rewrite Hl. exists INil. split; [|reflexivity].
      exists (S N). intros n Hn. destruct n as [|n]; [lia|]. rewrite build_S. rewrite HN by lia. reflexivity.
    + destruct (filtc_ok p _ _ HP) as (i2 & (N2 & HN2) & HR2).
      exists i2. split; [|exact HR2].
      exists (S (Nat.max N N2)). intros n Hn. destruct n as [|n]; [lia|]. rewrite build_S. rewrite HN by lia.
      rewrite (Pos_nonnil _ _ HP). apply HN2. lia.
  - destruct (IH x) as (i & (N & HN) & HR).
    exists (map_ctor m i). split; [|apply repr_map_ctor; exact HR].
    exists (S N). intros n Hn. destruct n as [|n]; [lia|]. rewrite build_S. rewrite HN by lia. reflexivity.
  - destruct (IHl x) as (il & (Nl & HNl) & HRl). destruct (IHr x) as (ir & (Nr & HNr) & HRr).
    exists (plus_ctor il ir). split; [|apply repr_plus_ctor; assumption].
    exists (S (Nat.max Nl Nr)). intros n Hn. destruct n as [|n]; [lia|]. rewrite build_S.
    rewrite HNl by lia. rewrite HNr by lia. reflexivity.
  - apply (build_join (JF j) s x (interp_j j) (fun a => eq_refl) (jok_F j) (IH x) (fun n => build n x (EJoin j s))).
    intros n. reflexivity.
  - apply (build_join (JE b) s x (fun a => den a b) (fun a => eq_refl)) with (f := fun n => build n x (EJoinE b s)).
    + intros a. destruct (IHb a) as (c & (N & HN) & HR). exists c. split; [|exact HR].
      exists (S N). intros n Hn. destruct n as [|n]; [lia|]. rewrite apply_j_E. apply HN. lia.
    + apply IHs.
    + intros n. reflexivity.
  - (* EWhen: nil when the guard fails, else the body *)
    unfold BuildOk. cbn [den]. destruct (interp_p p x) eqn:Hp.
    + destruct (IH x) as (i & (N & HN) & HR). exists i. split; [|exact HR].
      exists (S N). intros n Hn. destruct n as [|n]; [lia|]. rewrite build_S, Hp. apply HN. lia.
    + exists INil. split; [|reflexivity].
      apply Ev_const. intros n. rewrite build_S, Hp. reflexivity.
Qed.

(* ------------------------------------------------------------ the documented loop *)
Lemma drain_loop_pos : forall l i, Pos l i -> Ev (fun n => drain_loop n i) l.
Proof.
  induction l as [|a r IH]; intros i HP; [destruct HP|].
  destruct HP as (Hnn & Hv & i' & (N & HN) & Hr).
  destruct r as [|b r'].
  - exists (S N). intros n Hn. destruct n as [|n]; [lia|].
    cbn [drain_loop]. rewrite HN by lia. rewrite Hv. reflexivity.
  - destruct (IH i' (Hr ltac:(discriminate))) as (N2 & HN2).
    exists (S (Nat.max N N2)). intros n Hn. destruct n as [|n]; [lia|].
    cbn [drain_loop]. rewrite HN by lia. cbn [isnil negb]. rewrite HN2 by lia. rewrite Hv. reflexivity.
Qed.

Lemma drain_repr l i : Repr l i -> Ev (fun n => drain n i) l.
Proof.
  intros HR. destruct (Repr_nil_or _ _ HR) as [(-> & ->) | (Hl & HP)].
  - exists 0%nat. intros n _. reflexivity.
  - destruct (drain_loop_pos _ _ HP) as (N & HN). exists N. intros n Hn.
    unfold drain. rewrite (Pos_nonnil _ _ HP). apply HN. exact Hn.
Qed.

(* for EVERY expression there is enough fuel, and with it building + draining gives the list denotation *)
Theorem drain_den_arg : forall (t : e) (x : Z),
  exists N, forall n, (N <= n)%nat ->
    exists i, build n x t = Some i /\ drain n i = Some (den x t).
Proof.
  intros t x. destruct (build_ok t x) as (i & (N & HN) & HR).
  destruct (drain_repr _ _ HR) as (N2 & HN2).
  exists (Nat.max N N2). intros n Hn. exists i. split; [apply HN | apply HN2]; lia.
Qed.

Theorem drain_den : forall t : e, exists N, forall n, (N <= n)%nat -> run n t = Some (den 0 t).
Proof.
  intros t. destruct (drain_den_arg t 0) as (N & HN). exists N. intros n Hn.
  destruct (HN n Hn) as (i & Hb & Hd). unfold run. rewrite Hb. exact Hd.
Qed.

(* the constructors answer nil exactly for the empty denotation *)
Theorem build_nil_iff : forall (t : e) (x : Z),
  exists N i, (forall n, (N <= n)%nat -> build n x t = Some i) /\ (i = INil <-> den x t = []).
Proof.
  intros t x. destruct (build_ok t x) as (i & (N & HN) & HR). exists N, i. split; [exact HN|].
  destruct (Repr_nil_or _ _ HR) as [(Hl & Hi) | (Hl & HP)].
  - tauto.
  - split; intros H; [|contradiction]. subst i. cbn in HP. destruct (den x t); [contradiction | destruct HP as (HP & _); discriminate HP].
Qed.

(* ------------------------------------------------------------ ForEach *)
Lemma foreach_loop_pos f : forall l i k, Pos l i -> Ev (fun n => foreach_loop n f k i) (upto f k l).
Proof.
  induction l as [|a r IH]; intros i k HP; [destruct HP|].
  destruct HP as (Hnn & Hv & i' & (N & HN) & Hr).
  cbn [upto]. destruct (f k a) as [err|] eqn:Hf.
  - apply Ev_const. intros n. cbn [foreach_loop]. rewrite Hv, Hf. reflexivity.
  - destruct r as [|b r'].
    + exists (S N). intros n Hn. destruct n as [|n]; [lia|].
      cbn [foreach_loop]. rewrite Hv, Hf. rewrite HN by lia. reflexivity.
    + destruct (IH i' (S k) (Hr ltac:(discriminate))) as (N2 & HN2).
      exists (S (Nat.max N N2)). intros n Hn. destruct n as [|n]; [lia|].
      cbn [foreach_loop]. rewrite Hv, Hf. rewrite HN by lia. cbn [isnil negb].
      rewrite HN2 by lia. destruct (upto f (S k) (b :: r')). reflexivity.
Qed.

Theorem foreach_first_error : forall (t : e) (f : nat -> Z -> option Z),
  exists N, forall n, (N <= n)%nat -> run_foreach n f t = Some (upto f 0%nat (den 0 t)).
Proof.
  intros t f. destruct (build_ok t 0) as (i & (N & HN) & HR).
  destruct (Repr_nil_or _ _ HR) as [(Hl & ->) | (Hl & HP)].
  - exists N. intros n Hn. unfold run_foreach. rewrite HN by exact Hn. rewrite Hl. reflexivity.
  - destruct (foreach_loop_pos f _ _ 0%nat HP) as (N2 & HN2).
    exists (Nat.max N N2). intros n Hn. unfold run_foreach. rewrite HN by lia.
    unfold foreach. rewrite (Pos_nonnil _ _ HP). apply HN2. lia.
Qed.

(* what [upto] says: the callback saw a prefix of the list, in order; it returned no error on all but
   possibly the last element seen; ForEach returns the error of that last call, or nil after the whole list *)
Theorem upto_spec : forall f l k vs o, upto f k l = (vs, o) ->
  exists rest, l = vs ++ rest /\
  (forall j x, nth_error vs j = Some x -> S j < length vs -> f (k + j)%nat x = None)%nat /\
  match o with
  | Some err => exists x, nth_error vs (length vs - 1) = Some x /\ f (k + (length vs - 1))%nat x = Some err
  | None => rest = [] /\ forall j x, nth_error vs j = Some x -> f (k + j)%nat x = None
  end.
Proof.
  intros f. induction l as [|a r IH]; intros k vs o H.
  - cbn in H. inversion H; subst. exists []. split; [reflexivity|]. split.
    + intros j x Hj. destruct j; discriminate Hj.
    + split; [reflexivity|]. intros j x Hj. destruct j; discriminate Hj.
  - cbn [upto] in H. destruct (f k a) as [err|] eqn:Hf.
    + inversion H; subst. exists r. split; [reflexivity|]. split.
      * intros j x Hj Hlt. cbn in Hlt. lia.
      * exists a. cbn. rewrite Nat.add_0_r. auto.
    + destruct (upto f (S k) r) as (v2, o2) eqn:Hu. inversion H; subst.
      destruct (IH (S k) v2 o Hu) as (rest & Hl & Hall & Hlast).
      exists rest. split; [cbn; rewrite Hl; reflexivity|]. split.
      * intros j x Hj Hlt. destruct j as [|j].
        -- cbn in Hj. inversion Hj; subst. rewrite Nat.add_0_r. exact Hf.
        -- cbn in Hj, Hlt. replace (k + S j)%nat with (S k + j)%nat by lia. apply (Hall j x Hj). lia.
      * destruct o as [err|].
        -- destruct Hlast as (x & Hn & Hfx). exists x.
           assert (Hlen : (length v2 > 0)%nat).
           { destruct v2; [cbn in Hn; discriminate Hn | cbn; lia]. }
           cbn [length]. replace (S (length v2) - 1)%nat with (S (length v2 - 1)) by lia.
           cbn [nth_error]. split; [exact Hn|].
           replace (k + S (length v2 - 1))%nat with (S k + (length v2 - 1))%nat by lia. exact Hfx.
        -- destruct Hlast as (Hrest & Hno). split; [exact Hrest|].
           intros j x Hj. destruct j as [|j].
           ++ cbn in Hj. inversion Hj; subst. rewrite Nat.add_0_r. exact Hf.
           ++ cbn in Hj. replace (k + S j)%nat with (S k + j)%nat by lia. apply (Hno j x Hj).
Qed.

(* seqOf.Next only re-slices: the source list is never rebuilt, the new view is its tail *)
Theorem seqof_next_reslices : forall n el b i', next n (ISeqOf el) = Some (b, i') ->
  i' = ISeqOf (if b then tl el else el).
Proof.
  intros n el b i' H. destruct n as [|n]; [discriminate H|].
  destruct el as [|a [|c r]]; cbn in H; inversion H; reflexivity.
Qed.

(* ------------------------------------------------------------ where ForEach leaves the iterator *)
Definition drop_it {X} (r : option (list Z * option Z * X)) : option (list Z * option Z) :=
  match r with Some (vs, o, _) => Some (vs, o) | None => None end.

Lemma foreach_loop_st_proj f : forall n k i, drop_it (foreach_loop_st n f k i) = foreach_loop n f k i.
Proof.
  induction n as [|n IH]; intros k i; [reflexivity|].
  cbn [foreach_loop_st foreach_loop]. destruct (f k (value i)) as [err|]; [reflexivity|].
  destruct (next n i) as [[[|] i']|]; [|reflexivity|reflexivity].
  rewrite <- IH. destruct (foreach_loop_st n f (S k) i') as [[[vs o] j]|]; reflexivity.
Qed.

Lemma run_foreach_st_proj f t n : drop_it (run_foreach_st n f t) = run_foreach n f t.
Proof.
  unfold run_foreach_st, run_foreach, foreach. destruct (build n 0 t) as [i|]; [|reflexivity].
  destruct (is_nil i); [reflexivity|apply foreach_loop_st_proj].
Qed.

Lemma foreach_loop_st_stops f : forall n k i vs err j,
  foreach_loop_st n f k i = Some (vs, Some err, j) ->
  vs <> [] /\ value j = last vs 0 /\ f (k + (length vs - 1))%nat (value j) = Some err.
Proof.
  induction n as [|n IH]; intros k i vs err j H; [discriminate|].
  cbn [foreach_loop_st] in H. destruct (f k (value i)) as [e0|] eqn:Hf.
  - inversion H; subst. split; [discriminate|]. split; [reflexivity|]. cbn. rewrite Nat.add_0_r. exact Hf.
  - destruct (next n i) as [[[|] i']|]; [|discriminate|discriminate].
    destruct (foreach_loop_st n f (S k) i') as [[[vs' o] j']|] eqn:Hr; [|discriminate].
    inversion H; subst. destruct (IH _ _ _ _ _ Hr) as (Hne & Hl & Hf').
    split; [discriminate|]. split.
    + destruct vs' as [|a r]; [contradiction|]. exact Hl.
    + destruct vs' as [|a r]; [contradiction|]. cbn [length] in *.
      replace (k + (S (S (length r)) - 1))%nat with (S k + (S (length r) - 1))%nat by lia. exact Hf'.
Qed.

(* after an error the iterator is the one whose element failed: it shows the last element visited, the callback's answer
   on it is the error returned *)
Theorem foreach_stops_at_error : forall (t : e) (f : nat -> Z -> option Z) n vs err j,
  run_foreach_st n f t = Some (vs, Some err, j) ->
  run_foreach n f t = Some (vs, Some err) /\
  vs <> [] /\ value j = last vs 0 /\ f (length vs - 1)%nat (value j) = Some err.
Proof.
  intros t f n vs err j H. split.
  - rewrite <- run_foreach_st_proj, H. reflexivity.
  - unfold run_foreach_st in H. destruct (build n 0 t) as [i|]; [|discriminate].
    destruct (is_nil i); [discriminate|]. exact (foreach_loop_st_stops f _ _ _ _ _ _ H).
Qed.
