(* Iterators of /repo/trait/seq/seq.go: expression syntax, list denotation and the
   operational model (the iterator object itself).  Definitions only - no proofs here,
   so the model still runs when a proof breaks.

   Conventions of the transcription
   * Go's nil Seq is the constructor [INil]; every Go struct has one constructor.
   * A method that mutates its receiver returns the new iterator; expression trees have
     no sharing, so threading the receiver functionally is exact.
   * [for { .. }] loops and nested Next() calls consume fuel; [None] = out of fuel, or a
     nil dereference / index out of range (Go would panic).
   * User functions are CODES interpreted by [interp_*]; the Go harness interprets the
     same codes (harness/c14/main.go). *)
From Coq Require Import List ZArith Bool.
Import ListNotations.
Open Scope Z_scope.

(* ---------------------------------------------------------------- function codes *)
(* PMod / PIn are the non-monotone ones: they may fail in the middle of a slice and hold again later *)
Inductive pcode := PLt (c : Z) | PNe (c : Z) | PPar (r : Z) | PTrue | PFalse
                 | PMod (m r : Z)          (* x mod m == r  (m > 0, mathematical modulo) *)
                 | PIn (xs : list Z).      (* x is one of xs *)
Definition interp_p (p : pcode) (x : Z) : bool :=
  match p with
  | PLt c => x <? c
  | PNe c => negb (x =? c)
  | PPar r => (x mod 2) =? r
  | PTrue => true
  | PFalse => false
  | PMod m r => (x mod m) =? r
  | PIn xs => existsb (Z.eqb x) xs
  end.

Inductive mcode := MAff (a b : Z) | MConst (c : Z).
Definition interp_m (m : mcode) (x : Z) : Z :=
  match m with MAff a b => a * x + b | MConst c => c end.

(* join functions that hand a fresh slice to FromSlice (or return nil) *)
Inductive jcode := JRepl | JRange | JNil.
Definition interp_j (j : jcode) (x : Z) : list Z :=
  match j with
  | JRepl => repeat x (Z.to_nat (x mod 3))
  | JRange => map (fun k => x + Z.of_nat k) (seq 0 (Z.to_nat (x mod 4)))
  | JNil => []
  end.

(* ---------------------------------------------------------------- expressions *)
(* [EArg] / [EShift] are the leaves that mention the argument x of the innermost enclosing
   join function (x = 0 at top level): From(x) and FromSlice([x+y | y <- ys]).
   [EWhen p s] is the conditional body  if !p(x) { return nil }; return <s>  : a join function that
   answers nil for SOME elements and a nested expression for the others. *)
Inductive e :=
| EFrom (v : Z)
| ESlice (xs : list Z)
| EArg
| EShift (ys : list Z)
| ETakeW (p : pcode) (s : e)
| EDropW (p : pcode) (s : e)
| EFilter (p : pcode) (s : e)
| EMap (m : mcode) (s : e)
| EPlus (l r : e)
| EJoin (j : jcode) (s : e)          (* Join(s, interp_j j) *)
| EJoinE (body : e) (s : e)          (* Join(s, func(x) { return <body> }) *)
| EWhen (p : pcode) (s : e).         (* if p(x) then <s> else nil *)

(* ---------------------------------------------------------------- list semantics *)
Fixpoint takew {A} (f : A -> bool) (l : list A) : list A :=
  match l with [] => [] | x :: r => if f x then x :: takew f r else [] end.
Fixpoint dropw {A} (f : A -> bool) (l : list A) : list A :=
  match l with [] => [] | x :: r => if f x then dropw f r else l end.

Fixpoint den (x : Z) (t : e) : list Z :=
  match t with
  | EFrom v => [v]
  | ESlice xs => xs
  | EArg => [x]
  | EShift ys => map (Z.add x) ys
  | ETakeW p s => takew (interp_p p) (den x s)
  | EDropW p s => dropw (interp_p p) (den x s)
  | EFilter p s => filter (interp_p p) (den x s)
  | EMap m s => map (interp_m m) (den x s)
  | EPlus l r => den x l ++ den x r
  | EJoin j s => flat_map (interp_j j) (den x s)
  | EJoinE b s => flat_map (fun a => den a b) (den x s)
  | EWhen p s => if interp_p p x then den x s else []
  end.

(* the source slices of an expression, in pre-order *)
Fixpoint sources (t : e) : list (list Z) :=
  match t with
  | ESlice xs => [xs]
  | EFrom _ | EArg | EShift _ => []
  | ETakeW _ s | EDropW _ s | EFilter _ s | EMap _ s | EJoin _ s | EWhen _ s => sources s
  | EPlus l r => sources l ++ sources r
  | EJoinE b s => sources b ++ sources s
  end.

(* ForEach: the callback sees (number of earlier calls, element) and may return an error code.
   [upto f k l] = (visited elements, returned error) required by the property. *)
Fixpoint upto (f : nat -> Z -> option Z) (k : nat) (l : list Z) : list Z * option Z :=
  match l with
  | [] => ([], None)
  | a :: r => match f k a with
              | Some err => ([a], Some err)
              | None => let (v, o) := upto f (S k) r in (a :: v, o)
              end
  end.

(* ---------------------------------------------------------------- iterator objects *)
Inductive jfun := JF (j : jcode) | JE (body : e).      (* the closure stored in join.rhs *)

Inductive it :=
| INil                                      (* nil *)
| IElem (v : Z)                             (* element[T]{v} *)
| ISeqOf (el : list Z)                      (* &seqOf[T]{el} *)
| ITakeW (s : it) (f : option pcode)        (* &takeWhile{Seq, f};  f = None is the latch f = nil *)
| IFilt (s : it) (f : pcode)                (* filter{Seq, f} *)
| IMap (s : it) (m : mcode)                 (* fmap{Seq, f} *)
| IPlus (s : it) (rhs : it)                 (* &plus{Seq, rhs};  rhs = INil once swapped in *)
| IJoin (cur : it) (lhs : it) (j : jfun).   (* &join{Seq, lhs, rhs} *)

(* Not represented: [filter.f == nil] (the constructor always stores the function it was given and nothing
   ever clears it; the harness passes no nil functions), so IFilt carries a plain code. *)

Definition is_nil (i : it) : bool := match i with INil => true | _ => false end.

(* Value(): embedded Seq promotes Value() of the inner iterator; fmap overrides it.
   nil.Value() / seqOf{[]}.Value() would panic: 0 here, never reached from expression trees. *)
Fixpoint value (i : it) : Z :=
  match i with
  | INil => 0
  | IElem v => v
  | ISeqOf el => hd 0 el
  | ITakeW s _ => value s
  | IFilt s _ => value s
  | IMap s m => interp_m m (value s)
  | IPlus s _ => value s
  | IJoin cur _ _ => value cur
  end.

(* func FromSlice *)
Definition from_slice (xs : list Z) : it :=
  match xs with [] => INil | _ => ISeqOf xs end.

(* func TakeWhile *)
Definition takew_ctor (p : pcode) (s : it) : it :=
  if is_nil s || negb (interp_p p (value s)) then INil else ITakeW s (Some p).

(* func Map *)
Definition map_ctor (m : mcode) (s : it) : it :=
  if is_nil s then INil else IMap s m.

(* func Plus *)
Definition plus_ctor (lhs rhs : it) : it :=
  if is_nil lhs then rhs else if is_nil rhs then lhs else IPlus lhs rhs.

Fixpoint next (fuel : nat) (i : it) {struct fuel} : option (bool * it) :=
  match fuel with O => None | S n =>
  match i with
  | INil => None                                        (* nil.Next() *)
  | IElem v => Some (false, i)
  | ISeqOf el =>
      match el with
      | [] => None                                      (* s.el[1:] of an empty slice *)
      | [_] => Some (false, i)                          (* len(s.el) == 1 *)
      | _ :: r => Some (true, ISeqOf r)                 (* s.el = s.el[1:] *)
      end
  | ITakeW s f =>
      match f, s with
      | None, _ => Some (false, i)                      (* seq.f == nil *)
      | _, INil => Some (false, i)                      (* seq.Seq == nil *)
      | Some p, _ =>
          match next n s with
          | None => None
          | Some (false, s') => Some (false, ITakeW s' f)
          | Some (true, s') =>
              if negb (interp_p p (value s')) then Some (false, ITakeW s' None)   (* seq.f = nil *)
              else Some (true, ITakeW s' f)
          end
      end
  | IFilt s p =>
      match s with
      | INil => Some (false, i)                         (* seq.Seq == nil *)
      | _ => filt_loop n s p
      end
  | IMap s m =>                                         (* promoted Next of the embedded Seq *)
      match next n s with
      | None => None
      | Some (b, s') => Some (b, IMap s' m)
      end
  | IPlus s rhs =>
      match next n s with
      | None => None
      | Some (hasNext, s') =>
          if negb hasNext && negb (is_nil rhs) then Some (true, IPlus rhs INil)   (* plus.Seq, plus.rhs = plus.rhs, nil *)
          else if negb hasNext && is_nil rhs then Some (false, IPlus s' rhs)
          else Some (true, IPlus s' rhs)
      end
  | IJoin cur lhs j =>
      match next n cur with
      | None => None
      | Some (true, cur') => Some (true, IJoin cur' lhs j)
      | Some (false, cur') => join_loop n cur' lhs j
      end
  end end

(* the [for] of filter.Next *)
with filt_loop (fuel : nat) (s : it) (p : pcode) {struct fuel} : option (bool * it) :=
  match fuel with O => None | S n =>
  match next n s with
  | None => None
  | Some (false, s') => Some (false, IFilt s' p)
  | Some (true, s') => if interp_p p (value s') then Some (true, IFilt s' p) else filt_loop n s' p
  end end

(* the [for] of join.Next: advance lhs until rhs(lhs.Value()) is not nil *)
with join_loop (fuel : nat) (cur lhs : it) (j : jfun) {struct fuel} : option (bool * it) :=
  match fuel with O => None | S n =>
  match next n lhs with
  | None => None
  | Some (false, lhs') => Some (false, IJoin cur lhs' j)
  | Some (true, lhs') =>
      match apply_j n j (value lhs') with
      | None => None
      | Some c => if is_nil c then join_loop n c lhs' j else Some (true, IJoin c lhs' j)
      end
  end end

(* calling the closure join.rhs *)
with apply_j (fuel : nat) (j : jfun) (x : Z) {struct fuel} : option it :=
  match fuel with O => None | S n =>
  match j with
  | JF c => Some (from_slice (interp_j c x))          (* JNil: interp_j = [] and from_slice [] = nil *)
  | JE body => build n x body
  end end

(* the constructors, children first (the harness builds the tree bottom-up) *)
with build (fuel : nat) (x : Z) (t : e) {struct fuel} : option it :=
  match fuel with O => None | S n =>
  match t with
  | EFrom v => Some (IElem v)
  | ESlice xs => Some (from_slice xs)
  | EArg => Some (IElem x)
  | EShift ys => Some (from_slice (map (Z.add x) ys))
  | ETakeW p s => match build n x s with None => None | Some i => Some (takew_ctor p i) end
  | EDropW p s =>
      match build n x s with
      | None => None
      | Some i => if is_nil i then Some INil else dropw_loop n p i
      end
  | EFilter p s =>
      match build n x s with
      | None => None
      | Some i => if is_nil i then Some INil else filtc_loop n p i
      end
  | EMap m s => match build n x s with None => None | Some i => Some (map_ctor m i) end
  | EPlus l r =>
      match build n x l with
      | None => None
      | Some il => match build n x r with None => None | Some ir => Some (plus_ctor il ir) end
      end
  | EJoin j s =>
      match build n x s with
      | None => None
      | Some i => if is_nil i then Some INil else joinc_loop n i (JF j)
      end
  | EJoinE b s =>
      match build n x s with
      | None => None
      | Some i => if is_nil i then Some INil else joinc_loop n i (JE b)
      end
  | EWhen p s => if interp_p p x then build n x s else Some INil
  end end

(* the [for] of func DropWhile *)
with dropw_loop (fuel : nat) (p : pcode) (i : it) {struct fuel} : option it :=
  match fuel with O => None | S n =>
  if negb (interp_p p (value i)) then Some i
  else match next n i with
       | None => None
       | Some (false, _) => Some INil
       | Some (true, i') => dropw_loop n p i'
       end
  end

(* the [for] of func Filter *)
with filtc_loop (fuel : nat) (p : pcode) (i : it) {struct fuel} : option it :=
  match fuel with O => None | S n =>
  if interp_p p (value i) then Some (IFilt i p)
  else match next n i with
       | None => None
       | Some (false, _) => Some INil
       | Some (true, i') => filtc_loop n p i'
       end
  end

(* the [for] of func Join *)
with joinc_loop (fuel : nat) (lhs : it) (j : jfun) {struct fuel} : option it :=
  match fuel with O => None | S n =>
  match apply_j n j (value lhs) with
  | None => None
  | Some c =>
      if negb (is_nil c) then Some (IJoin c lhs j)
      else match next n lhs with
           | None => None
           | Some (false, _) => Some INil
           | Some (true, lhs') => joinc_loop n lhs' j
           end
  end end.

(* the documented loop:  for has := seq != nil; has; has = seq.Next() { use seq.Value() } *)
Fixpoint drain_loop (fuel : nat) (i : it) : option (list Z) :=
  match fuel with O => None | S n =>
  let v := value i in
  match next n i with
  | None => None
  | Some (false, _) => Some [v]
  | Some (true, i') => option_map (cons v) (drain_loop n i')
  end end.
Definition drain (fuel : nat) (i : it) : option (list Z) :=
  if is_nil i then Some [] else drain_loop fuel i.

(* func ForEach: returns (elements the callback saw, returned error) *)
Fixpoint foreach_loop (fuel : nat) (f : nat -> Z -> option Z) (k : nat) (i : it) : option (list Z * option Z) :=
  match fuel with O => None | S n =>
  let v := value i in
  match f k v with
  | Some err => Some ([v], Some err)
  | None =>
      match next n i with
      | None => None
      | Some (false, _) => Some ([v], None)
      | Some (true, i') =>
          match foreach_loop n f (S k) i' with
          | None => None
          | Some (vs, o) => Some (v :: vs, o)
          end
      end
  end end.
Definition foreach (fuel : nat) (f : nat -> Z -> option Z) (i : it) : option (list Z * option Z) :=
  if is_nil i then Some ([], None) else foreach_loop fuel f 0%nat i.

(* the same loop, also answering WHERE the iterator stands when ForEach returns: after an error, on the element whose
   callback failed (no Next() was asked of it) *)
Fixpoint foreach_loop_st (fuel : nat) (f : nat -> Z -> option Z) (k : nat) (i : it) : option (list Z * option Z * it) :=
  match fuel with O => None | S n =>
  let v := value i in
  match f k v with
  | Some err => Some ([v], Some err, i)
  | None =>
      match next n i with
      | None => None
      | Some (false, i') => Some ([v], None, i')
      | Some (true, i') =>
          match foreach_loop_st n f (S k) i' with
          | None => None
          | Some (vs, o, j) => Some (v :: vs, o, j)
          end
      end
  end end.

(* build at top level (no enclosing join function: x = 0), then drain / ForEach *)
Definition run (fuel : nat) (t : e) : option (list Z) :=
  match build fuel 0 t with Some i => drain fuel i | None => None end.
Definition run_foreach (fuel : nat) (f : nat -> Z -> option Z) (t : e) : option (list Z * option Z) :=
  match build fuel 0 t with Some i => foreach fuel f i | None => None end.
Definition run_foreach_st (fuel : nat) (f : nat -> Z -> option Z) (t : e) : option (list Z * option Z * it) :=
  match build fuel 0 t with
  | Some i => if is_nil i then Some ([], None, i) else foreach_loop_st fuel f 0%nat i
  | None => None
  end.
