(* Take and Fold: the two sequential stages with local state (remaining count, accumulator). *)
From Coq Require Import List ZArith NArith Bool Arith PeanoNat Lia.
From Golem Require Import Base.Lists Pipe.Pool Pipe.Stages Pipe.PoolEffects Pipe.PoolSteps Pipe.PoolInv Pipe.PoolInv2
     Pipe.PoolSafe Pipe.PoolClosed Pipe.PoolStop Pipe.PoolLive Pipe.PoolSimple Pipe.PoolSeq Pipe.PoolStages.
Import ListNotations.
Open Scope Z_scope.

(* ---------- Take ---------- *)
Section TakeStage.
Variables (n : Z) (icaps ocaps : list nat).
Definition take_cfg : cfg := seq_stage plan_take no_eof pre_take n [0%nat] icaps ocaps.
Let c := take_cfg.

Lemma take_wf : wf_cfg c.
Proof. apply seq_wf. repeat constructor; simpl; intuition. Qed.
Lemma take_simple : simple_cfg c.
Proof.
  apply seq_simple; [|constructor]. intros l a. simpl. constructor; simpl; auto.
  destruct (l - 1 =? 0); repeat constructor.
Qed.

Lemma take_emits k l a : emits k (fst (plan_take l a)) = if Nat.eqb 0 k then [a] else [].
Proof. unfold plan_take. simpl. destruct (Nat.eqb 0 k); destruct (l - 1 =? 0); reflexivity. Qed.
Lemma take_spec0 l xs : spec c 0 0 l xs = xs.
Proof.
  revert l. induction xs as [|x xs IH]; intros l; simpl; auto.
  rewrite IH. destruct (l - 1 =? 0); reflexivity.
Qed.
Lemma take_lafter l xs : lafter c 0 l xs = l - Z.of_nat (length xs).
Proof. revert l. induction xs as [|x xs IH]; intros l; simpl lafter; [simpl; lia|]. rewrite IH. simpl length. lia. Qed.
Lemma take_stopped l xs : 0 < l -> stopped c 0 l xs = (l <=? Z.of_nat (length xs)).
Proof.
  revert l. induction xs as [|x xs IH]; intros l Hl; simpl stopped.
  - simpl. symmetry. apply Z.leb_gt. lia.
  - simpl length. destruct (l - 1 =? 0) eqn:E.
    + simpl. symmetry. apply Z.leb_le. apply Z.eqb_eq in E. lia.
    + simpl. apply Z.eqb_neq in E. rewrite IH by lia.
      destruct (l - 1 <=? Z.of_nat (length xs)) eqn:E2; symmetry.
      * apply Z.leb_le. apply Z.leb_le in E2. lia.
      * apply Z.leb_gt. apply Z.leb_gt in E2. lia.
Qed.
Lemma take_full_spec x : full_spec c 0 0 x = wtaken x.
Proof. unfold full_spec. rewrite take_spec0. simpl. destruct (weof x); apply app_nil_r. Qed.

(* SAFETY: never more than n elements are consumed, and what is delivered is a prefix of the first n *)
Theorem take_safe s :
  reachable c s ->
  (length (wtaken (ws s 0)) <= Z.to_nat n)%nat /\
  prefix (delivered s 0) (firstn (Z.to_nat n) (sent s 0)).
Proof.
  intros Hr.
  assert (Hlen : (length (wtaken (ws s 0)) <= Z.to_nat n)%nat).
  { destruct (Z.ltb_spec 0 n) as [Hn|Hn].
    - destruct (seq_shape c eq_refl eq_refl s Hr) as [He Ht Hs|He Hs].
      + rewrite Ht. simpl in Hs. rewrite take_stopped in Hs by exact Hn. apply Z.leb_gt in Hs. lia.
      + simpl in Hs. rewrite take_stopped in Hs by exact Hn. apply Z.leb_gt in Hs.
        destruct (list_snoc_cases (wtaken (ws s 0))) as [E|(ys & a & E)]; rewrite E in *; [simpl; lia|].
        rewrite removelast_app_one in Hs. rewrite app_length. simpl. lia.
    - destruct (prefalse_reachable c s Hr 0) as (A & _).
      + simpl. unfold pre_take. apply Z.ltb_ge. exact Hn.
      + rewrite A. simpl. lia. }
  split; [exact Hlen|].
  eapply prefix_trans; [apply (seq_delivered_prefix c eq_refl s 0 Hr)|]. rewrite take_full_spec.
  pose proof (seq_taken_prefix c eq_refl eq_refl s Hr) as [r Hp]. rewrite Hp.
  rewrite firstn_app. exists (firstn (Z.to_nat n - length (wtaken (ws s 0))) r ++ []).
  rewrite app_nil_r. f_equal. apply firstn_all2. exact Hlen.
Qed.

Theorem take_complete s :
  reachable c s -> cancelled s = false -> quiescent c s -> no_receive c s -> cclosed (ins s 0) = true ->
  delivered s 0 = firstn (Z.to_nat n) (sent s 0) /\ wc (ws s 0) = WDone /\ cclosed (outs s 0) = true.
Proof.
  intros Hr Hcn Hq Hnr Hin.
  destruct (seq_complete c eq_refl eq_refl take_wf take_simple eq_refl s Hr Hcn Hq Hnr Hin) as (Hd & Hcl & Hdel & Hsh).
  split; [|split; [exact Hd|apply Hcl; simpl; auto]].
  rewrite Hdel, take_full_spec.
  destruct Hsh as [He Ht Hs|He Hs Hb [r Hp]|He Ht Hp].
  - destruct (Z.ltb_spec 0 n) as [Hn|Hn].
    + simpl in Hs. rewrite take_stopped in Hs by exact Hn. apply Z.leb_gt in Hs.
      rewrite Ht. symmetry. apply firstn_all2. lia.
    + exfalso. destruct (prefalse_reachable c s Hr 0) as (_ & B & _); [|congruence].
      simpl. unfold pre_take. apply Z.ltb_ge. exact Hn.
  - destruct (Z.ltb_spec 0 n) as [Hn|Hn].
    + simpl in Hs, Hb. rewrite take_stopped in Hs, Hb by exact Hn.
      apply Z.leb_le in Hs. apply Z.leb_gt in Hb.
      destruct (list_snoc_cases (wtaken (ws s 0))) as [E|(ys & a & E)]; rewrite E in *; [simpl in Hs; lia|].
      rewrite removelast_app_one in Hb. rewrite app_length in Hs. simpl in Hs.
      rewrite Hp. rewrite firstn_app.
      assert (Hl : length (ys ++ [a]) = Z.to_nat n) by (rewrite app_length; simpl; lia).
      rewrite Hl, Nat.sub_diag. simpl. rewrite app_nil_r. symmetry. apply firstn_all2. lia.
    + exfalso. simpl in Hs.
      destruct (prefalse_reachable c s Hr 0) as (A & _); [simpl; unfold pre_take; apply Z.ltb_ge; exact Hn|].
      rewrite A in Hs. discriminate.
  - rewrite Ht. simpl in Hp. unfold pre_take in Hp. apply Z.ltb_ge in Hp.
    replace (Z.to_nat n) with 0%nat by lia. reflexivity.
Qed.
End TakeStage.

(* ---------- Fold ---------- *)
Section FoldStage.
Variables (combine : Z -> Z -> Z) (empty : Z) (icaps ocaps : list nat).
Definition fold_cfg : cfg := seq_stage (plan_fold combine) eof_fold always empty [0%nat] icaps ocaps.
Let c := fold_cfg.

Lemma fold_wf : wf_cfg c.
Proof. apply seq_wf. repeat constructor; simpl; intuition. Qed.
Lemma fold_simple : simple_cfg c.
Proof. apply seq_simple; intros; simpl; repeat constructor. Qed.

Lemma fold_spec k l xs : spec c 0 k l xs = [].
Proof. revert l. induction xs as [|x xs IH]; intros l; simpl; auto. Qed.
Lemma fold_lafter l xs : lafter c 0 l xs = fold_left combine xs l.
Proof. revert l. induction xs as [|x xs IH]; intros l; simpl; auto. Qed.
Lemma fold_stopped l xs : stopped c 0 l xs = false.
Proof. revert l. induction xs as [|x xs IH]; intros l; simpl; auto. Qed.
Lemma fold_full_spec x :
  full_spec c 0 0 x = if weof x then [fold_left combine (wtaken x) empty] else [].
Proof. unfold full_spec. rewrite fold_spec, fold_lafter. simpl. destruct (weof x); reflexivity. Qed.

(* SAFETY: nothing, or the left fold of the whole input from the monoid's empty element - and that
   only after the end of the input has been seen (never a partial accumulator, cancelled or not) *)
Theorem fold_safe s :
  reachable c s ->
  delivered s 0 = [] \/ (delivered s 0 = [fold_left combine (sent s 0) empty] /\ cclosed (ins s 0) = true).
Proof.
  intros Hr. pose proof (seq_delivered_prefix c eq_refl s 0 Hr) as [r Hp]. rewrite fold_full_spec in Hp.
  destruct (weof (ws s 0)) eqn:He.
  - rewrite (seq_eof_all c eq_refl eq_refl s Hr He) in Hp.
    destruct (delivered s 0) as [|d [|d' l]]; auto; inversion Hp; subst. right. split; auto.
    apply (k_input c s 0%nat (Kinv_reachable c s Hr 0%nat) He 0%nat eq_refl).
  - destruct (delivered s 0); auto. discriminate.
Qed.

Theorem fold_complete s :
  reachable c s -> cancelled s = false -> quiescent c s -> no_receive c s -> cclosed (ins s 0) = true ->
  delivered s 0 = [fold_left combine (sent s 0) empty] /\ wc (ws s 0) = WDone /\ cclosed (outs s 0) = true.
Proof.
  intros Hr Hcn Hq Hnr Hin.
  destruct (seq_complete c eq_refl eq_refl fold_wf fold_simple eq_refl s Hr Hcn Hq Hnr Hin) as (Hd & Hcl & Hdel & Hsh).
  split; [|split; [exact Hd|apply Hcl; simpl; auto]].
  rewrite Hdel, fold_full_spec.
  destruct Hsh as [He Ht Hs|He Hs Hb Hp|He Ht Hp].
  - rewrite He, Ht. reflexivity.
  - rewrite fold_stopped in Hs. discriminate.
  - simpl in Hp. discriminate.
Qed.
End FoldStage.
