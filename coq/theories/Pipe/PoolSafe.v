(* NOPANIC for the Pool machine: in every reachable state of a well-formed stage nobody has
   sent on a closed channel or closed a channel twice - for every schedule, with or without
   cancel.  Also: outputs are closed only by their owner's exit / by the closer after every
   worker has finished. *)
From Coq Require Import List ZArith NArith Bool Arith PeanoNat Lia.
From Golem Require Import Pipe.Pool Pipe.PoolEffects Pipe.PoolSteps Pipe.PoolInv.
Import ListNotations.

Section Safe.
Variable c : cfg.

(* worker w may send on channel k: nobody else closes k *)
Definition own (w k : nat) : Prop :=
  closer c = true \/ (forall w', w' < par c -> In k (wcloses c w') -> w' = w).
Definition acts_own (w : nat) (acts : list act) : Prop :=
  forall a k v, In a acts -> sends_on a k v -> own w k.

Record wf_cfg : Prop := mkWf {
  wf_closes : closer c = true -> NoDup (closes c);
  wf_wcloses : closer c = false -> forall w, w < par c -> NoDup (wcloses c w);
  wf_disjoint : closer c = false -> forall w w' k, w < par c -> w' < par c ->
                In k (wcloses c w) -> In k (wcloses c w') -> w = w';
  wf_plan : forall w l a, w < par c -> acts_own w (fst (plan c w l a));
  wf_eof : forall w l, w < par c -> acts_own w (on_eof c w l)
}.

Hypothesis WF : wf_cfg.

Lemma take_not_done s w a : wc (take c s w a) <> WDone.
Proof. apply (take_fields c s w a). Qed.

Definition closed_by (s : state) (k : nat) : Prop :=
  if closer c then closer_done s = true /\ In k (closes c)
  else exists w, w < par c /\ In k (wcloses c w) /\ wc (ws s w) = WDone.

Record safe (s : state) : Prop := mkSafe {
  sf_nopanic : panicked s = false;
  sf_own : forall w, w < par c -> acts_own w (todo_of (wc (ws s w)));
  sf_closed : forall k, cclosed (outs s k) = true -> closed_by s k;
  sf_done : closer_done s = true -> closer c = true /\ forall w, w < par c -> wc (ws s w) = WDone
}.

Lemma all_done_spec s : all_done c s = true <-> forall w, w < par c -> wc (ws s w) = WDone.
Proof.
  unfold all_done. rewrite forallb_forall. split.
  - intros H w Hw. specialize (H w). rewrite in_seq in H. specialize (H ltac:(lia)).
    unfold is_done in H. destruct (wc (ws s w)); try discriminate; reflexivity.
  - intros H w Hw. rewrite in_seq in Hw. unfold is_done. rewrite H by lia. reflexivity.
Qed.

(* closing distinct open channels does not panic *)
Lemma close_all_ok ks : forall s,
  NoDup ks -> (forall k, In k ks -> cclosed (outs s k) = false) ->
  panicked (close_all s ks) = panicked s /\
  forall k, cclosed (outs (close_all s ks) k) = true <-> (In k ks \/ cclosed (outs s k) = true).
Proof.
  induction ks as [|k0 ks IH]; intros s Hnd Hop; simpl.
  - split; auto. intros k. tauto.
  - rewrite (Hop k0) by (left; reflexivity).
    inversion Hnd as [|? ? Hni Hnd']; subst.
    destruct (IH (set_out s k0 (close (outs s k0))) Hnd') as [P Q].
    { intros k Hk. simpl. destruct (Nat.eq_dec k k0) as [->|Hne]; [contradiction|].
      upd_simpl. apply Hop. right; auto. }
    split; [exact P|].
    intros k. rewrite Q. simpl. destruct (Nat.eq_dec k k0) as [->|Hne]; upd_simpl; simpl.
    + tauto.
    + split; intros [H|H]; auto. destruct H; [congruence|auto].
Qed.

Lemma safe_init : safe (init c).
Proof.
  constructor; simpl; auto.
  - intros w Hw. unfold init_worker. simpl. destruct (pre c w (l0 c w)); simpl.
    + intros a k v [].
    + intros a k v [Ha|[]] [Hs|Hs]; subst; discriminate.
  - discriminate.
  - discriminate.
Qed.

Lemma closed_by_mono s s' k :
  closer_done s' = closer_done s \/ closer_done s' = true ->
  (forall w, wc (ws s w) = WDone -> wc (ws s' w) = WDone) ->
  closed_by s k -> closed_by s' k.
Proof.
  unfold closed_by. intros Hcd Hd. destruct (closer c).
  - intros [A B]. split; auto. destruct Hcd as [->| ->]; auto.
  - intros (w & Hw & Hin & Hc). exists w. auto.
Qed.

(* a state that differs from a safe one only outside of control, channels' closed flags and panic *)
Lemma safe_frame s s' :
  panicked s' = panicked s -> ws s' = ws s -> closer_done s' = closer_done s ->
  (forall k, cclosed (outs s' k) = cclosed (outs s k)) -> safe s -> safe s'.
Proof.
  intros Hp Hw Hc Ho [A B C D]. constructor.
  - congruence.
  - intros w Hlt. rewrite Hw. auto.
  - intros k Hk. rewrite Ho in Hk. apply closed_by_mono with s; [left; auto| |auto].
    intros w. now rewrite Hw.
  - rewrite Hc, Hw. auto.
Qed.

(* worker w changes its control to ctl' whose statements are among the old ones *)
Lemma safe_ctl s w ctl' :
  w < par c -> safe s -> wc (ws s w) <> WDone -> ctl' <> WDone ->
  acts_own w (todo_of ctl') ->
  forall s', panicked s' = panicked s -> closer_done s' = closer_done s ->
  (forall k, cclosed (outs s' k) = cclosed (outs s k)) ->
  (forall w', w' <> w -> ws s' w' = ws s w') -> wc (ws s' w) = ctl' ->
  safe s'.
Proof.
  intros Hw [A B C D] Hnd Hnd' Hown s' Hp Hcd Ho Hother Hc'. constructor.
  - congruence.
  - intros w' Hlt. destruct (Nat.eq_dec w' w) as [->|Hne]; [rewrite Hc'; auto|rewrite Hother; auto].
  - intros k Hk. rewrite Ho in Hk. apply closed_by_mono with s; [left; auto| |auto].
    intros w' Hd. destruct (Nat.eq_dec w' w) as [->|Hne]; [congruence|rewrite Hother; auto].
  - rewrite Hcd. intros Hx. destruct (D Hx) as [D1 D2]. exfalso. apply Hnd. auto.
Qed.

Lemma acts_own_incl w a b : incl a b -> acts_own w b -> acts_own w a.
Proof. intros Hi H x k v Hin Hs. eapply H; eauto. Qed.

Lemma sending_not_closed s w eof a k v rest :
  w < par c -> safe s -> wc (ws s w) = WRun eof (a :: rest) -> sends_on a k v ->
  cclosed (outs s k) = false.
Proof.
  intros Hw [A B C D] Hc Hs. destruct (cclosed (outs s k)) eqn:Ecl; auto. exfalso.
  specialize (C k Ecl). unfold closed_by in C.
  assert (Hown : own w k).
  { eapply (B w Hw); [rewrite Hc; simpl; left; reflexivity|eauto]. }
  destruct (closer c) eqn:Ecloser.
  - destruct C as [C1 _]. destruct (D C1) as [_ D2]. rewrite (D2 w Hw) in Hc. discriminate.
  - destruct C as (w' & Hw' & Hin & Hd). destruct Hown as [?|Hown]; [congruence|].
    rewrite (Hown w' Hw' Hin) in Hd. congruence.
Qed.

Lemma safe_weffect s w s' : w < par c -> safe s -> weffect c s w s' -> safe s'.
Proof.
  intros Hw HS He. destruct WF as [W1 W2 W3 W4 W5].
  destruct He as [i a t rest Hsrc Hc Hb | Hsrc Hc | i Hsrc Hc Hb Hcl | ctl' Hcn Hdue Hsl Hsls
                 | eof a k0 v rest Hc Hs Hcl | eof k0 t r rest Hc Hb | dropped Hp Hnd Hnr Hnc Hwhy | eof a k0 v rest Hc Hs Hcl].
  - eapply (safe_ctl s w (wc (take c s w a))); simpl; auto; try congruence.
    + apply take_not_done.
    + unfold take. destruct (plan c w (wl (ws s w)) a) as [acts l'] eqn:E.
      specialize (W4 w (wl (ws s w)) a Hw). rewrite E in W4. destruct (gated c); simpl; auto.
    + intros w' Hne. upd_simpl. reflexivity.
    + upd_simpl. reflexivity.
  - eapply (safe_ctl s w (wc (take c s w 0%Z))); simpl; auto; try congruence.
    + apply take_not_done.
    + unfold take. destruct (plan c w (wl (ws s w)) 0%Z) as [acts l'] eqn:E.
      specialize (W4 w (wl (ws s w)) 0%Z Hw). rewrite E in W4. destruct (gated c); simpl; auto.
    + intros w' Hne. upd_simpl. reflexivity.
    + upd_simpl. reflexivity.
  - eapply (safe_ctl s w (WRun true (on_eof c w (wl (ws s w))))); simpl; auto; try congruence.
    + intros w' Hne. upd_simpl. reflexivity.
    + upd_simpl. reflexivity.
  - destruct (ctl_next_not_done _ _ Hcn) as (N1 & N2 & N3).
    eapply (safe_ctl s w ctl'); simpl; auto.
    + eapply acts_own_incl; [eapply ctl_next_incl; eauto|]. apply (sf_own s HS w Hw).
    + intros w' Hne. upd_simpl. reflexivity.
    + upd_simpl. reflexivity.
  - eapply (safe_ctl s w (WRun eof rest)); simpl; auto; try congruence.
    + eapply acts_own_incl; [|apply (sf_own s HS w Hw)]. rewrite Hc. simpl. apply incl_tl, incl_refl.
    + intros k. destruct (Nat.eq_dec k k0) as [->|Hne]; upd_simpl; reflexivity.
    + intros w' Hne. upd_simpl. reflexivity.
    + upd_simpl. reflexivity.
  - eapply (safe_ctl s w (WRun eof rest)); simpl; auto; try congruence.
    + eapply acts_own_incl; [|apply (sf_own s HS w Hw)]. rewrite Hc. simpl. apply incl_tl, incl_refl.
    + intros k. destruct (Nat.eq_dec k k0) as [->|Hne]; upd_simpl; reflexivity.
    + intros w' Hne. upd_simpl. reflexivity.
    + upd_simpl. reflexivity.
  - (* finish *)
    unfold finish. set (x' := mkW _ WDone _ _ _). set (s1 := set_w s w x').
    destruct HS as [A B C D].
    assert (Hcd : closer_done s = false).
    { destruct (closer_done s) eqn:E; auto. destruct (D eq_refl) as [_ D2]. exfalso. apply Hnd. auto. }
    assert (S1 : safe s1).
    { constructor; unfold s1; simpl; auto.
      - intros w' Hlt. destruct (Nat.eq_dec w' w) as [->|Hne]; upd_simpl; simpl; auto. intros a k v [].
      - intros k Hk. apply closed_by_mono with s; [left; reflexivity| |auto].
        intros w' Hd. simpl. destruct (Nat.eq_dec w' w) as [->|Hne]; upd_simpl; auto.
      - rewrite Hcd. discriminate. }
    destruct (closer c) eqn:Ecloser; [exact S1|].
    assert (Hopen : forall k, In k (wcloses c w) -> cclosed (outs s1 k) = false).
    { intros k Hin. unfold s1. simpl. destruct (cclosed (outs s k)) eqn:Ecl; auto. exfalso.
      specialize (C k Ecl). unfold closed_by in C. rewrite Ecloser in C.
      destruct C as (w' & Hw' & Hin' & Hd).
      assert (w = w') by (eapply W3; eauto). subst. contradiction. }
    destruct (close_all_ok (wcloses c w) s1 (W2 eq_refl w Hw) Hopen) as [P Q].
    destruct (close_all_frame s1 (wcloses c w)) as (_ & Hws & _ & Hcd' & _). simpl in Hws, Hcd'.
    constructor.
    + rewrite P. apply S1.
    + intros w' Hlt. rewrite Hws. apply S1; auto.
    + intros k Hk. apply Q in Hk. unfold closed_by. rewrite Ecloser. destruct Hk as [Hk|Hk].
      * exists w. repeat split; auto. rewrite Hws. unfold s1. simpl. upd_simpl. reflexivity.
      * apply (sf_closed s1 S1) in Hk. unfold closed_by in Hk. rewrite Ecloser in Hk.
        destruct Hk as (w' & ? & ? & ?). exists w'. repeat split; auto. now rewrite Hws.
    + rewrite Hcd'. unfold s1. simpl. rewrite Hcd. discriminate.
  - (* panic: impossible *)
    exfalso. rewrite (sending_not_closed s w eof a k0 v rest Hw HS Hc Hs) in Hcl. discriminate.
Qed.

Theorem safe_step s e s' : safe s -> step c s e = Some s' -> safe s'.
Proof.
  intros HS Hs. destruct (step_effect c s e s' Hs) as [_ He]. destruct WF as [W1 W2 W3 W4 W5].
  destruct He as [i x Hi Hcl | i Hi Hcl | k t v rest Hb | k v w eof a rest Hb Hcap Hcl Hw Hc Hs0 | | | w s' Hw He
                 | w a todo Hw Hc | Hcl Had Hcd | t Ht];
    try (apply safe_frame with s; auto; fail).
  - apply safe_frame with s; auto. intros k'. simpl.
    destruct (Nat.eq_dec k' k) as [->|Hne]; upd_simpl; reflexivity.
  - eapply (safe_ctl s w (WRun eof rest)); simpl; auto; try congruence.
    + eapply acts_own_incl; [|apply (sf_own s HS w Hw)]. rewrite Hc. simpl. apply incl_tl, incl_refl.
    + intros w' Hne. upd_simpl. reflexivity.
    + upd_simpl. reflexivity.
  - eapply safe_weffect; eauto.
  - eapply (safe_ctl s w (WRun false todo)); simpl; auto; try congruence.
    + generalize (sf_own s HS w Hw). rewrite Hc. simpl. auto.
    + intros w' Hne. upd_simpl. reflexivity.
    + upd_simpl. reflexivity.
  - (* closer *)
    destruct HS as [A B C D].
    assert (Hopen : forall k, In k (closes c) -> cclosed (outs s k) = false).
    { intros k Hin. destruct (cclosed (outs s k)) eqn:Ecl; auto. exfalso.
      specialize (C k Ecl). unfold closed_by in C. rewrite Hcl in C. destruct C. congruence. }
    destruct (close_all_ok (closes c) s (W1 Hcl) Hopen) as [P Q].
    destruct (close_all_frame s (closes c)) as (_ & Hws & _ & _). simpl in Hws.
    constructor; simpl.
    + rewrite P. exact A.
    + intros w' Hlt. rewrite Hws. auto.
    + intros k Hk. apply Q in Hk. unfold closed_by. rewrite Hcl. simpl. split; auto.
      destruct Hk as [Hk|Hk]; auto. specialize (C k Hk). unfold closed_by in C. rewrite Hcl in C. tauto.
    + intros _. split; auto. rewrite Hws. apply all_done_spec. exact Had.
Qed.

Theorem safe_reachable s : reachable c s -> safe s.
Proof. apply reachable_inv; [apply safe_init|apply safe_step]. Qed.

(* NOPANIC, and "outputs are closed only after every worker that may send on them has finished" *)
Theorem nopanic s : reachable c s -> panicked s = false.
Proof. intros H. apply (sf_nopanic s (safe_reachable s H)). Qed.

Theorem closed_after_done s k :
  reachable c s -> cclosed (outs s k) = true ->
  if closer c then forall w, w < par c -> wc (ws s w) = WDone
  else exists w, w < par c /\ In k (wcloses c w) /\ wc (ws s w) = WDone.
Proof.
  intros H Hk. destruct (safe_reachable s H) as [A B C D]. specialize (C k Hk).
  unfold closed_by in C. destruct (closer c); auto. destruct C as [C1 _]. apply D. exact C1.
Qed.

End Safe.
