(* The Pool machine: one generic interpreter for the goroutine structure of every
   pipe / fork stage of fogfish/golem (pipe/pipe.go, pipe/fork/fork.go), over a
   Go-lite channel kernel (DESIGN.md 2.1).  Definitions only - executable - no proofs.

   Values are Z.  An execution is a list of COMPLETED events; [step] returns None when
   the event is not enabled.  Ghost fields (sent, rcvd, consumed, taken, dropped, tags)
   record history for the theorems and never influence control flow. *)
From Coq Require Import List ZArith NArith Bool Arith PeanoNat.
Import ListNotations.

Definition val := Z.

(* ---------- channels ---------- *)
Record chan := mkChan { cbuf : list (nat * val) (* (producer tag, value) *); ccap : nat; cclosed : bool }.

Definition upd {A} (f : nat -> A) (i : nat) (v : A) : nat -> A :=
  fun j => if Nat.eqb j i then v else f j.

Definition push (c : chan) (x : nat * val) : chan := mkChan (cbuf c ++ [x]) (ccap c) (cclosed c).
Definition pop (c : chan) : chan := mkChan (tl (cbuf c)) (ccap c) (cclosed c).
Definition close (c : chan) : chan := mkChan (cbuf c) (ccap c) true.
Definition has_room (c : chan) : bool := Nat.ltb (length (cbuf c)) (ccap c).
Definition empty_chan (cap : nat) : chan := mkChan [] cap false.

(* ---------- micro-actions of a worker (one Go statement each) ---------- *)
Inductive act :=
| ASend (k : nat) (v : val)   (* select { case out_k <- v:  case <-ctx.Done(): return } *)
| APlain (k : nat) (v : val)  (* out_k <- v                                              *)
| APoll                       (* select { case <-ctx.Done(): return  default: }           *)
| ATok (c : nat)              (* select { case <-out_c:  case <-ctx.Done(): return }      *)
| ASleep (d : N)              (* time.Sleep(d)                                            *)
| ASleepSel (d : N)           (* select { case <-time.After(d): case <-ctx.Done(): return } *)
| AStop.                      (* return                                                   *)

(* values a list of actions puts on channel k, cut at the first return *)
Fixpoint emits (k : nat) (acts : list act) : list val :=
  match acts with
  | [] => []
  | ASend k' v :: r => if Nat.eqb k' k then v :: emits k r else emits k r
  | APlain k' v :: r => if Nat.eqb k' k then v :: emits k r else emits k r
  | AStop :: _ => []
  | _ :: r => emits k r
  end.

Inductive source := SIn (i : nat) | SGen.

Inductive wctl :=
| WRecv                                  (* at `for a = range in` / top of a generator loop *)
| WCall (a : val) (todo : list act)      (* inside the (gated) user function applied to a  *)
| WRun (eof : bool) (todo : list act)    (* executing the plan of an element / the code after the loop *)
| WSleep (until : N) (sel : bool) (eof : bool) (todo : list act)
| WDone.

(* ---------- a stage ---------- *)
Record cfg := mkCfg {
  par : nat;                              (* number of worker goroutines *)
  src : nat -> source;                    (* what worker w iterates over *)
  plan : nat -> Z -> val -> list act * Z; (* worker, local state, element -> statements, new local state *)
  on_eof : nat -> Z -> list act;          (* statements after the loop when the input ended *)
  pre : nat -> Z -> bool;                 (* false: the goroutine returns before its loop *)
  l0 : nat -> Z;                          (* initial local state *)
  gated : bool;                           (* harness parks user functions on a gate (C09) *)
  closer : bool;                          (* true: a wg.Wait() goroutine closes [closes]; false: worker w closes [wcloses w] on exit *)
  closes : list nat;
  wcloses : nat -> list nat;
  nins : nat;
  in_caps : nat -> nat;
  out_caps : nat -> nat                   (* as observed with cap() on the real channels *)
}.

Record worker := mkW {
  wl : Z; wc : wctl;
  wtaken : list val;               (* ghost: elements dequeued (0 for each generator round) *)
  weof : bool;                     (* ghost: the loop ended because the input ended *)
  wdropped : nat -> list val       (* ghost: sends abandoned when leaving through a Done arm *)
}.

Record state := mkS {
  ins : nat -> chan;
  outs : nat -> chan;
  cancelled : bool;
  ws : nat -> worker;
  closer_done : bool;
  panicked : bool;
  now : N;
  sent : nat -> list val;              (* ghost: completed sends per input *)
  consumed : nat -> list (nat * val);  (* ghost: (worker, element) in dequeue order per input *)
  rcvd : nat -> list (nat * val)       (* ghost: everything ever removed from out k, tagged by producer *)
}.

Definition init_worker (c : cfg) (w : nat) : worker :=
  mkW (l0 c w) (if pre c w (l0 c w) then WRecv else WRun false [AStop]) [] false (fun _ => []).

Definition init (c : cfg) : state :=
  mkS (fun i => empty_chan (in_caps c i)) (fun k => empty_chan (out_caps c k)) false
      (init_worker c) false false 0%N (fun _ => []) (fun _ => []) (fun _ => []).

(* ---------- state updates ---------- *)
Definition set_w (s : state) (w : nat) (x : worker) : state :=
  mkS (ins s) (outs s) (cancelled s) (upd (ws s) w x) (closer_done s) (panicked s) (now s) (sent s) (consumed s) (rcvd s).
Definition set_out (s : state) (k : nat) (c : chan) : state :=
  mkS (ins s) (upd (outs s) k c) (cancelled s) (ws s) (closer_done s) (panicked s) (now s) (sent s) (consumed s) (rcvd s).
Definition set_panic (s : state) : state :=
  mkS (ins s) (outs s) (cancelled s) (ws s) (closer_done s) true (now s) (sent s) (consumed s) (rcvd s).
Definition with_ctl (x : worker) (c : wctl) : worker := mkW (wl x) c (wtaken x) (weof x) (wdropped x).

(* close the channels of list ks; closing a closed channel panics *)
Fixpoint close_all (s : state) (ks : list nat) : state :=
  match ks with
  | [] => s
  | k :: r =>
      if cclosed (outs s k) then set_panic s
      else close_all (set_out s k (close (outs s k))) r
  end.

(* worker w leaves its goroutine; [dropped] are the statements it abandons *)
Definition finish (c : cfg) (s : state) (w : nat) (dropped : list act) : state :=
  let x := ws s w in
  let s1 := set_w s w (mkW (wl x) WDone (wtaken x) (weof x) (fun k => wdropped x k ++ emits k dropped)) in
  if closer c then s1 else close_all s1 (wcloses c w).

(* is some worker blocked in `range in_i` ? (gives an unbuffered input its rendezvous partner) *)
Fixpoint any_waiting (c : cfg) (s : state) (i : nat) (n : nat) : bool :=
  match n with
  | 0 => false
  | S m => (match wc (ws s m), src c m with
            | WRecv, SIn j => Nat.eqb j i
            | _, _ => false
            end) || any_waiting c s i m
  end.

Definition in_room (c : cfg) (s : state) (i : nat) : bool :=
  let ch := ins s i in
  Nat.ltb (length (cbuf ch)) (ccap ch + (if any_waiting c s i (par c) then 1 else 0)).

Definition is_done (x : worker) : bool := match wc x with WDone => true | _ => false end.
Definition all_done (c : cfg) (s : state) : bool := forallb (fun w => is_done (ws s w)) (seq 0 (par c)).

(* ---------- one step of worker w ---------- *)
Definition take (c : cfg) (s : state) (w : nat) (a : val) : worker :=
  let x := ws s w in
  let '(acts, l') := plan c w (wl x) a in
  mkW l' (if gated c then WCall a acts else WRun false acts) (wtaken x ++ [a]) (weof x) (wdropped x).

Definition step_worker (c : cfg) (s : state) (w : nat) (choice : bool) : option state :=
  let x := ws s w in
  match wc x with
  | WRecv =>
      match src c w with
      | SIn i =>
          let ch := ins s i in
          match cbuf ch with
          | (_, a) :: _ =>
              Some (mkS (upd (ins s) i (pop ch)) (outs s) (cancelled s) (upd (ws s) w (take c s w a))
                        (closer_done s) (panicked s) (now s) (sent s)
                        (upd (consumed s) i (consumed s i ++ [(w, a)])) (rcvd s))
          | [] =>
              if cclosed ch
              then Some (set_w s w (mkW (wl x) (WRun true (on_eof c w (wl x))) (wtaken x) true (wdropped x)))
              else None
          end
      | SGen => Some (set_w s w (take c s w 0%Z))
      end
  | WCall _ _ => None                                  (* waits for ERet *)
  | WRun eof [] =>
      if eof then Some (finish c s w []) else Some (set_w s w (with_ctl x WRecv))
  | WRun eof (ASend k v :: rest) =>
      let ch := outs s k in
      let can_send := has_room ch || cclosed ch in     (* a send on a closed channel is "ready": it panics *)
      let can_done := cancelled s in
      if can_send && (negb can_done || choice) then
        if cclosed ch then Some (set_panic s)
        else Some (set_w (set_out s k (push ch (w, v))) w (with_ctl x (WRun eof rest)))
      else if can_done then Some (finish c s w (ASend k v :: rest))
      else None
  | WRun eof (APlain k v :: rest) =>
      let ch := outs s k in
      if cclosed ch then Some (set_panic s)
      else if has_room ch then Some (set_w (set_out s k (push ch (w, v))) w (with_ctl x (WRun eof rest)))
      else None
  | WRun eof (APoll :: rest) =>
      if cancelled s then Some (finish c s w rest) else Some (set_w s w (with_ctl x (WRun eof rest)))
  | WRun eof (ATok k :: rest) =>
      let ch := outs s k in
      let can_recv := negb (match cbuf ch with [] => true | _ => false end) || cclosed ch in
      let can_done := cancelled s in
      if can_recv && (negb can_done || choice) then
        match cbuf ch with
        | t :: _ =>
            Some (mkS (ins s) (upd (outs s) k (pop ch)) (cancelled s) (upd (ws s) w (with_ctl x (WRun eof rest)))
                      (closer_done s) (panicked s) (now s) (sent s) (consumed s)
                      (upd (rcvd s) k (rcvd s k ++ [t])))
        | [] => Some (set_w s w (with_ctl x (WRun eof rest)))   (* closed and empty: zero value *)
        end
      else if can_done then Some (finish c s w (ATok k :: rest))
      else None
  | WRun eof (ASleep d :: rest) => Some (set_w s w (with_ctl x (WSleep (now s + d) false eof rest)))
  | WRun eof (ASleepSel d :: rest) => Some (set_w s w (with_ctl x (WSleep (now s + d) true eof rest)))
  | WRun eof (AStop :: rest) => Some (finish c s w [])
  | WSleep until sel eof rest =>
      let can_wake := N.leb until (now s) in
      let can_done := sel && cancelled s in
      if can_wake && (negb can_done || choice) then Some (set_w s w (with_ctl x (WRun eof rest)))
      else if can_done then Some (finish c s w rest)
      else None
  | WDone => None
  end.

(* which worker (lowest index >= from, searching downwards from n) is blocked sending v on out k *)
Fixpoint find_sender (s : state) (k : nat) (v : val) (n : nat) : option nat :=
  match n with
  | 0 => None
  | S m =>
      match wc (ws s m) with
      | WRun _ (ASend k' v' :: _) | WRun _ (APlain k' v' :: _) =>
          if Nat.eqb k' k && Z.eqb v' v then Some m else find_sender s k v m
      | _ => find_sender s k v m
      end
  end.

Definition after_send (x : worker) : worker :=
  match wc x with
  | WRun eof (_ :: rest) => with_ctl x (WRun eof rest)
  | _ => x
  end.

(* earliest pending wake-up *)
Fixpoint min_wake (s : state) (n : nat) : option N :=
  match n with
  | 0 => None
  | S m =>
      match wc (ws s m), min_wake s m with
      | WSleep u _ _ _, Some t => Some (N.min u t)
      | WSleep u _ _ _, None => Some u
      | _, r => r
      end
  end.

(* ---------- events ---------- *)
Inductive ev :=
| ESent (i : nat) (x : val)      (* a producer's send on input i completes *)
| ECloseIn (i : nat)             (* the producer closes input i *)
| ERcvd (k : nat) (v : val)      (* a consumer's receive on output k completes with v *)
| ERcvdClosed (k : nat)          (* a consumer's receive on output k reports closed *)
| ECancel
| EW (w : nat) (choice : bool)   (* worker w takes one step; the bit resolves a select with two ready arms *)
| ERet (w : nat)                 (* the gated user function of worker w returns *)
| ECloser                        (* the wg.Wait() goroutine closes the outputs *)
| EAdvance (t : N).              (* the clock moves to t *)

Definition step_ok (c : cfg) (s : state) (e : ev) : option state :=
  match e with
  | ESent i x =>
      if negb (Nat.ltb i (nins c)) then None
      else if cclosed (ins s i) then None          (* the environment never sends on a channel it closed *)
      else if in_room c s i then
        Some (mkS (upd (ins s) i (push (ins s i) (0, x))) (outs s) (cancelled s) (ws s)
                  (closer_done s) (panicked s) (now s) (upd (sent s) i (sent s i ++ [x])) (consumed s) (rcvd s))
      else None
  | ECloseIn i =>
      if negb (Nat.ltb i (nins c)) then None
      else if cclosed (ins s i) then None
      else Some (mkS (upd (ins s) i (close (ins s i))) (outs s) (cancelled s) (ws s)
                     (closer_done s) (panicked s) (now s) (sent s) (consumed s) (rcvd s))
  | ERcvd k v =>
      match cbuf (outs s k) with
      | (t, v') :: _ =>
          if Z.eqb v v' then
            Some (mkS (ins s) (upd (outs s) k (pop (outs s k))) (cancelled s) (ws s)
                      (closer_done s) (panicked s) (now s) (sent s) (consumed s)
                      (upd (rcvd s) k (rcvd s k ++ [(t, v')])))
          else None
      | [] =>
          if Nat.eqb (ccap (outs s k)) 0 && negb (cclosed (outs s k)) then
            match find_sender s k v (par c) with
            | Some w =>
                Some (mkS (ins s) (outs s) (cancelled s) (upd (ws s) w (after_send (ws s w)))
                          (closer_done s) (panicked s) (now s) (sent s) (consumed s)
                          (upd (rcvd s) k (rcvd s k ++ [(w, v)])))
            | None => None
            end
          else None
      end
  | ERcvdClosed k =>
      match cbuf (outs s k) with
      | [] => if cclosed (outs s k) then Some s else None
      | _ => None
      end
  | ECancel =>
      Some (mkS (ins s) (outs s) true (ws s) (closer_done s) (panicked s) (now s) (sent s) (consumed s) (rcvd s))
  | EW w ch => if Nat.ltb w (par c) then step_worker c s w ch else None
  | ERet w =>
      if Nat.ltb w (par c) then
        match wc (ws s w) with
        | WCall _ todo => Some (set_w s w (with_ctl (ws s w) (WRun false todo)))
        | _ => None
        end
      else None
  | ECloser =>
      if closer c && all_done c s && negb (closer_done s) then
        let s1 := close_all s (closes c) in
        Some (mkS (ins s1) (outs s1) (cancelled s1) (ws s1) true (panicked s1) (now s1) (sent s1) (consumed s1) (rcvd s1))
      else None
  | EAdvance t =>
      if N.ltb (now s) t then
        Some (mkS (ins s) (outs s) (cancelled s) (ws s) (closer_done s) (panicked s) t (sent s) (consumed s) (rcvd s))
      else None
  end.

(* a panicked program has crashed: nothing happens any more *)
Definition step (c : cfg) (s : state) (e : ev) : option state :=
  if panicked s then None else step_ok c s e.

Definition exec_from (c : cfg) (s : state) (tr : list ev) : option state :=
  fold_left (fun o e => match o with Some s => step c s e | None => None end) tr (Some s).
Definition exec (c : cfg) (tr : list ev) : option state := exec_from c (init c) tr.

(* ---------- the list image a worker owes: per-worker specification ---------- *)
Fixpoint spec (c : cfg) (w k : nat) (l : Z) (xs : list val) : list val :=
  match xs with
  | [] => []
  | x :: r => let '(acts, l') := plan c w l x in emits k acts ++ spec c w k l' r
  end.

Fixpoint lafter (c : cfg) (w : nat) (l : Z) (xs : list val) : Z :=
  match xs with
  | [] => l
  | x :: r => lafter c w (snd (plan c w l x)) r
  end.

(* does the plan sequence return before consuming all of xs ? (AStop / fail-fast) *)
Fixpoint has_stop (acts : list act) : bool :=
  match acts with [] => false | AStop :: _ => true | _ :: r => has_stop r end.

Definition mine (w : nat) (l : list (nat * val)) : list val :=
  map snd (filter (fun p => Nat.eqb (fst p) w) l).

Definition pend (k : nat) (ctl : wctl) : list val :=
  match ctl with
  | WCall _ todo | WRun _ todo | WSleep _ _ _ todo => emits k todo
  | _ => []
  end.

Definition in_loop (ctl : wctl) : bool := match ctl with WDone => false | _ => true end.

Definition full_spec (c : cfg) (w k : nat) (x : worker) : list val :=
  spec c w k (l0 c w) (wtaken x) ++
  (if weof x then emits k (on_eof c w (lafter c w (l0 c w) (wtaken x))) else []).
