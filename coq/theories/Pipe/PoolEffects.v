(* Case analysis of the Pool machine's steps, once and for all: every enabled worker step
   has one of eight effects.  All invariant proofs go through [step_worker_effect]. *)
From Coq Require Import List ZArith NArith Bool Arith PeanoNat Lia.
From Golem Require Import Pipe.Pool.
Import ListNotations.

Lemma upd_same {A} (f : nat -> A) i v : upd f i v i = v.
Proof. unfold upd. now rewrite Nat.eqb_refl. Qed.
Lemma upd_other {A} (f : nat -> A) i j v : j <> i -> upd f i v j = f j.
Proof. unfold upd. intros H. destruct (Nat.eqb_spec j i); congruence. Qed.

Ltac upd_simpl :=
  repeat first [ rewrite upd_same | rewrite upd_other by congruence ].

Ltac upd_simpl_in H :=
  repeat first [ rewrite upd_same in H | rewrite upd_other in H by congruence ].

Definition todo_of (ctl : wctl) : list act :=
  match ctl with
  | WCall _ t | WRun _ t | WSleep _ _ _ t => t
  | _ => []
  end.
Definition eof_of (ctl : wctl) : bool := match ctl with WRun e _ | WSleep _ _ e _ => e | _ => false end.

Definition sends_on (a : act) (k : nat) (v : val) : Prop := a = ASend k v \/ a = APlain k v.

(* silent changes of a worker's control *)
Definition skippable (a : act) : Prop :=
  a = APoll \/ (exists k, a = ATok k) \/ (exists d, a = ASleep d) \/ (exists d, a = ASleepSel d).

Definition sleepy (a : act) : Prop := (exists d, a = ASleep d) \/ (exists d, a = ASleepSel d).
Lemma sleepy_skippable a : sleepy a -> skippable a.
Proof. unfold skippable. intros [H|H]; auto. Qed.

Inductive ctl_next : wctl -> wctl -> Prop :=
| CN_loop : ctl_next (WRun false []) WRecv
| CN_skip eof h rest : skippable h -> ctl_next (WRun eof (h :: rest)) (WRun eof rest)
| CN_sleep eof h rest u sel : sleepy h -> ctl_next (WRun eof (h :: rest)) (WSleep u sel eof rest)
| CN_wake u sel eof rest : ctl_next (WSleep u sel eof rest) (WRun eof rest).

Lemma skippable_emits k h rest : skippable h -> emits k (h :: rest) = emits k rest.
Proof. intros [->|[[x ->]|[[d ->]|[d ->]]]]; reflexivity. Qed.

Lemma ctl_next_pend ctl ctl' k : ctl_next ctl ctl' -> pend k ctl' = pend k ctl.
Proof. intros H; destruct H; simpl; auto; symmetry; apply skippable_emits; auto using sleepy_skippable. Qed.
Lemma ctl_next_incl ctl ctl' : ctl_next ctl ctl' -> incl (todo_of ctl') (todo_of ctl).
Proof. intros H; destruct H; simpl; auto using incl_refl, incl_tl, incl_nil_l. Qed.
Lemma ctl_next_eof ctl ctl' :
  ctl_next ctl ctl' -> eof_of ctl' = eof_of ctl \/ (ctl' = WRecv /\ eof_of ctl = false).
Proof. intros H; destruct H; simpl; auto. Qed.
Lemma ctl_next_not_done ctl ctl' : ctl_next ctl ctl' -> ctl' <> WDone /\ ctl <> WRecv /\ ctl <> WDone.
Proof. intros H; destruct H; repeat split; discriminate. Qed.

Section Effects.
Variable c : cfg.

Inductive weffect (s : state) (w : nat) : state -> Prop :=
| WE_take i a t rest :
    src c w = SIn i -> wc (ws s w) = WRecv -> cbuf (ins s i) = (t, a) :: rest ->
    weffect s w (mkS (upd (ins s) i (pop (ins s i))) (outs s) (cancelled s) (upd (ws s) w (take c s w a))
                     (closer_done s) (panicked s) (now s) (sent s)
                     (upd (consumed s) i (consumed s i ++ [(w, a)])) (rcvd s))
| WE_gen :
    src c w = SGen -> wc (ws s w) = WRecv -> weffect s w (set_w s w (take c s w 0%Z))
| WE_eof i :
    src c w = SIn i -> wc (ws s w) = WRecv -> cbuf (ins s i) = [] -> cclosed (ins s i) = true ->
    weffect s w (set_w s w (mkW (wl (ws s w)) (WRun true (on_eof c w (wl (ws s w)))) (wtaken (ws s w)) true (wdropped (ws s w))))
| WE_ctl ctl' :
    ctl_next (wc (ws s w)) ctl' ->
    (forall u sel eof rest, wc (ws s w) = WSleep u sel eof rest -> (u <= now s)%N) ->   (* a timer fires only when due *)
    (forall eof d rest, wc (ws s w) = WRun eof (ASleep d :: rest) -> ctl' = WSleep (now s + d) false eof rest) ->
    (forall eof d rest, wc (ws s w) = WRun eof (ASleepSel d :: rest) -> ctl' = WSleep (now s + d) true eof rest) ->
    weffect s w (set_w s w (with_ctl (ws s w) ctl'))
| WE_push eof a k v rest :
    wc (ws s w) = WRun eof (a :: rest) -> sends_on a k v -> cclosed (outs s k) = false ->
    weffect s w (set_w (set_out s k (push (outs s k) (w, v))) w (with_ctl (ws s w) (WRun eof rest)))
| WE_tok eof k t r rest :
    wc (ws s w) = WRun eof (ATok k :: rest) -> cbuf (outs s k) = t :: r ->
    weffect s w (mkS (ins s) (upd (outs s) k (pop (outs s k))) (cancelled s)
                     (upd (ws s) w (with_ctl (ws s w) (WRun eof rest)))
                     (closer_done s) (panicked s) (now s) (sent s) (consumed s)
                     (upd (rcvd s) k (rcvd s k ++ [t])))
| WE_finish dropped :
    (forall k, pend k (wc (ws s w)) = emits k dropped) ->
    wc (ws s w) <> WDone -> wc (ws s w) <> WRecv -> (forall a t, wc (ws s w) <> WCall a t) ->
    (* why the goroutine returns: through a Done arm, at the end of the code after the loop, or at a return *)
    (cancelled s = true \/ wc (ws s w) = WRun true [] \/ exists eof rest, wc (ws s w) = WRun eof (AStop :: rest) /\ dropped = []) ->
    weffect s w (finish c s w dropped)
| WE_panic eof a k v rest :
    wc (ws s w) = WRun eof (a :: rest) -> sends_on a k v -> cclosed (outs s k) = true ->
    weffect s w (set_panic s).

Lemma step_worker_effect s w ch s' :
  step_worker c s w ch = Some s' -> weffect s w s'.
Proof.
  unfold step_worker. intros H.
  destruct (wc (ws s w)) as [|a0 t0|eof todo|until sel eof todo|] eqn:Ec.
  - (* WRecv *)
    destruct (src c w) as [i|] eqn:Es.
    + destruct (cbuf (ins s i)) as [|[t a] rest] eqn:Eb.
      * destruct (cclosed (ins s i)) eqn:Ecl; [|discriminate]. inversion H; subst. eapply WE_eof; eauto.
      * inversion H; subst. eapply WE_take; eauto.
    + inversion H; subst. apply WE_gen; auto.
  - discriminate.
  - destruct todo as [|a rest].
    + destruct eof.
      * inversion H; subst. apply WE_finish; rewrite ?Ec; simpl; auto; try congruence; eauto 6.
      * inversion H; subst. apply WE_ctl; rewrite ?Ec; try (constructor; unfold skippable, sleepy; eauto; fail); intros; try discriminate; try (match goal with H : _ = _ |- _ => inversion H; subst; auto end).
    + destruct a as [k v|k v| |k|d|d|].
      * (* ASend *)
        destruct ((has_room (outs s k) || cclosed (outs s k)) && (negb (cancelled s) || ch)) eqn:E1.
        -- destruct (cclosed (outs s k)) eqn:Ecl; inversion H; subst.
           ++ eapply WE_panic; eauto. left; reflexivity.
           ++ eapply WE_push; eauto. left; reflexivity.
        -- destruct (cancelled s) eqn:Ecn; [|discriminate]. inversion H; subst.
           apply WE_finish; rewrite ?Ec; simpl; auto; try congruence; eauto 6.
      * (* APlain *)
        destruct (cclosed (outs s k)) eqn:Ecl.
        -- inversion H; subst. eapply WE_panic; eauto. right; reflexivity.
        -- destruct (has_room (outs s k)); [|discriminate]. inversion H; subst.
           eapply WE_push; eauto. right; reflexivity.
      * (* APoll *)
        destruct (cancelled s) eqn:Ecn; inversion H; subst.
        -- apply WE_finish; rewrite ?Ec; simpl; auto; try congruence; eauto 6.
        -- apply WE_ctl; rewrite ?Ec; try (constructor; unfold skippable, sleepy; eauto; fail); intros; try discriminate; try (match goal with H : _ = _ |- _ => inversion H; subst; auto end).
      * (* ATok *)
        destruct ((negb match cbuf (outs s k) with [] => true | _ :: _ => false end || cclosed (outs s k))
                  && (negb (cancelled s) || ch)) eqn:E1.
        -- destruct (cbuf (outs s k)) as [|t r] eqn:Eb; inversion H; subst.
           ++ apply WE_ctl; rewrite ?Ec; try (constructor; unfold skippable, sleepy; eauto; fail); intros; try discriminate; try (match goal with H : _ = _ |- _ => inversion H; subst; auto end).
           ++ eapply WE_tok; eauto.
        -- destruct (cancelled s) eqn:Ecn; [|discriminate]. inversion H; subst.
           apply WE_finish; rewrite ?Ec; simpl; auto; try congruence; eauto 6.
      * inversion H; subst. apply WE_ctl; rewrite ?Ec; try (constructor; unfold skippable, sleepy; eauto; fail); intros; try discriminate; try (match goal with H : _ = _ |- _ => inversion H; subst; auto end).
      * inversion H; subst. apply WE_ctl; rewrite ?Ec; try (constructor; unfold skippable, sleepy; eauto; fail); intros; try discriminate; try (match goal with H : _ = _ |- _ => inversion H; subst; auto end).
      * inversion H; subst. apply WE_finish; rewrite ?Ec; simpl; auto; try congruence; eauto 6.
  - (* WSleep *)
    destruct (N.leb until (now s) && (negb (sel && cancelled s) || ch)) eqn:E1.
    + inversion H; subst. apply WE_ctl; rewrite ?Ec; try (constructor; fail); intros; try discriminate.
      match goal with H : WSleep _ _ _ _ = WSleep _ _ _ _ |- _ => inversion H; subst end.
      apply andb_prop in E1. destruct E1 as [E1 _]. apply N.leb_le. exact E1.
    + destruct (sel && cancelled s) eqn:Esc; [|discriminate]. inversion H; subst.
      apply andb_prop in Esc. destruct Esc as [_ Ecn].
      apply WE_finish; rewrite ?Ec; simpl; auto; try congruence; eauto 6.
  - discriminate.
Qed.

End Effects.
