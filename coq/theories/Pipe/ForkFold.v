(* C10 - model of fork.Fold (pipe/fork/fork.go, func Fold) as a small machine of its own.
   Executable definitions only; the proofs are in ForkFoldProofs.v.

     vals := make(chan A, par) ; done := make(chan A, 1)
     pfold: acc := m.Empty(); for x = range in { acc = m.Combine(acc, x) ; poll ctx }  ; defer { vals <- acc ; wg.Done() }
     collector: wg.Wait(); acc := m.Empty(); for i := 1..par { acc = m.Combine(acc, <-vals) } ; done <- acc ; close(vals) ; close(done)

   The environment is not a process: an execution is a list of completed events.
   [ETake w k] lets worker [w] take the k-th buffered element of the input: k = 0 is what a Go channel
   does (FIFO hand-out, any worker); other k over-approximate it, so that a theorem over all event
   lists covers every distribution AND every order in which elements may reach the workers.
   No cancel event: the property is about uncancelled runs. *)
From Coq Require Import List Arith Bool.
Import ListNotations.

Section Machine.
Context {A : Type}.
Variable combine : A -> A -> A.
Variable empty : A.      (* m.Empty() *)
Variable acc0 : A.       (* what the collector starts from: m.Empty() in the code as it stands (fork.go:196) *)
Variable par : nat.

(* a worker: in its loop / leaving (deferred vals <- acc pending) / gone; [t] is ghost: what it took, in order *)
Inductive wst := WLoop (t : list A) (acc : A) | WSend (t : list A) (acc : A) | WDone (t : list A).
(* the collector: before wg.Wait returns / i partials combined / done <- acc performed / channels closed *)
Inductive cst := CWait | CLoop (i : nat) (acc : A) | CSent | CDone.

Record state := mkst {
  sent : list A;          (* ghost: everything the producer sent, in order *)
  inbuf : list A;         (* sent and not yet taken by a worker *)
  in_closed : bool;
  ws : list wst;
  vals : list A;          (* buffer of the internal channel, capacity par *)
  vals_closed : bool;
  got : list A;           (* ghost: the partials the collector received, in order *)
  col : cst;
  dbuf : list A;          (* buffer of the result channel, capacity 1 *)
  d_closed : bool;
  rcvd : list A;          (* what the consumer received from the result channel *)
  seen_closed : bool;     (* the consumer observed the closed result channel *)
  panic : bool            (* send on a closed channel / double close *)
}.

Inductive ev :=
| EIn (x : A)             (* a producer's send completes *)
| ECloseIn                (* the producer closes the input *)
| ETake (w k : nat)       (* worker w receives the k-th buffered element and combines it *)
| EExit (w : nat)         (* worker w finds the input closed and empty: leaves the loop *)
| EHand (w : nat)         (* deferred: vals <- acc ; wg.Done() *)
| ECol                    (* one step of the collector goroutine *)
| ERcvd                   (* the consumer receives a value from the result channel *)
| ERcvdClosed.            (* the consumer observes that the result channel is closed (recorded once) *)

Definition upd {X} (w : nat) (x : X) (l : list X) : list X := firstn w l ++ x :: skipn (S w) l.
Definition remove_nth {X} (k : nat) (l : list X) : list X := firstn k l ++ skipn (S k) l.

Definition taken (w : wst) : list A := match w with WLoop t _ | WSend t _ | WDone t => t end.
Definition is_done (w : wst) : bool := match w with WDone _ => true | _ => false end.
Definition is_nil {X} (l : list X) : bool := match l with [] => true | _ => false end.

Definition init : state :=
  mkst [] [] false (repeat (WLoop [] empty) par) [] false [] CWait [] false [] false false.

Definition set_panic (s : state) : state :=
  mkst (sent s) (inbuf s) (in_closed s) (ws s) (vals s) (vals_closed s) (got s) (col s) (dbuf s) (d_closed s)
       (rcvd s) (seen_closed s) true.

Definition step (s : state) (e : ev) : option state :=
  if panic s then None else
  match e with
  | EIn x =>
      if in_closed s then None      (* the producer does not send after its own close *)
      else Some (mkst (sent s ++ [x]) (inbuf s ++ [x]) (in_closed s) (ws s) (vals s) (vals_closed s) (got s) (col s)
                      (dbuf s) (d_closed s) (rcvd s) (seen_closed s) false)
  | ECloseIn =>
      if in_closed s then None
      else Some (mkst (sent s) (inbuf s) true (ws s) (vals s) (vals_closed s) (got s) (col s)
                      (dbuf s) (d_closed s) (rcvd s) (seen_closed s) false)
  | ETake w k =>
      match nth_error (ws s) w, nth_error (inbuf s) k with
      | Some (WLoop t acc), Some x =>
          Some (mkst (sent s) (remove_nth k (inbuf s)) (in_closed s)
                     (upd w (WLoop (t ++ [x]) (combine acc x)) (ws s))
                     (vals s) (vals_closed s) (got s) (col s) (dbuf s) (d_closed s) (rcvd s) (seen_closed s) false)
      | _, _ => None
      end
  | EExit w =>
      match nth_error (ws s) w with
      | Some (WLoop t acc) =>
          if in_closed s && is_nil (inbuf s)
          then Some (mkst (sent s) (inbuf s) (in_closed s) (upd w (WSend t acc) (ws s))
                          (vals s) (vals_closed s) (got s) (col s) (dbuf s) (d_closed s) (rcvd s) (seen_closed s) false)
          else None
      | _ => None
      end
  | EHand w =>
      match nth_error (ws s) w with
      | Some (WSend t acc) =>
          if vals_closed s then Some (set_panic s)
          else if length (vals s) <? par
          then Some (mkst (sent s) (inbuf s) (in_closed s) (upd w (WDone t) (ws s))
                          (vals s ++ [acc]) (vals_closed s) (got s) (col s) (dbuf s) (d_closed s) (rcvd s) (seen_closed s) false)
          else None                                  (* the buffer is full: the send waits *)
      | _ => None
      end
  | ECol =>
      match col s with
      | CWait =>
          if forallb is_done (ws s)                   (* wg.Wait() *)
          then Some (mkst (sent s) (inbuf s) (in_closed s) (ws s) (vals s) (vals_closed s) (got s) (CLoop 0 acc0)
                          (dbuf s) (d_closed s) (rcvd s) (seen_closed s) false)
          else None
      | CLoop i acc =>
          if i <? par
          then match vals s with
               | v :: r => Some (mkst (sent s) (inbuf s) (in_closed s) (ws s) r (vals_closed s) (got s ++ [v])
                                      (CLoop (S i) (combine acc v)) (dbuf s) (d_closed s) (rcvd s) (seen_closed s) false)
               | [] => None                            (* <-vals waits *)
               end
          else if d_closed s then Some (set_panic s)
          else if length (dbuf s) <? 1
          then Some (mkst (sent s) (inbuf s) (in_closed s) (ws s) (vals s) (vals_closed s) (got s) CSent
                          (dbuf s ++ [acc]) (d_closed s) (rcvd s) (seen_closed s) false)
          else None
      | CSent =>
          if vals_closed s || d_closed s then Some (set_panic s)
          else Some (mkst (sent s) (inbuf s) (in_closed s) (ws s) (vals s) true (got s) CDone
                          (dbuf s) true (rcvd s) (seen_closed s) false)
      | CDone => None
      end
  | ERcvd =>
      match dbuf s with
      | v :: r => Some (mkst (sent s) (inbuf s) (in_closed s) (ws s) (vals s) (vals_closed s) (got s) (col s)
                             r (d_closed s) (rcvd s ++ [v]) (seen_closed s) false)
      | [] => None
      end
  | ERcvdClosed =>
      if d_closed s && is_nil (dbuf s) && negb (seen_closed s)
      then Some (mkst (sent s) (inbuf s) (in_closed s) (ws s) (vals s) (vals_closed s) (got s) (col s)
                      (dbuf s) (d_closed s) (rcvd s) true false)
      else None
  end.

Fixpoint exec_from (s : state) (tr : list ev) : option state :=
  match tr with
  | [] => Some s
  | e :: r => match step s e with Some s' => exec_from s' r | None => None end
  end.
Definition exec (tr : list ev) : option state := exec_from init tr.

(* events of the producer: everything else is a step of the library's goroutines or of the consumer *)
Definition is_input (e : ev) : bool := match e with EIn _ | ECloseIn => true | _ => false end.

(* the state in which everything is over *)
Definition final (s : state) : Prop :=
  seen_closed s = true /\ dbuf s = [] /\ col s = CDone.

(* termination measure (decreases at every step that is not the producer's) *)
Definition wrank (w : wst) : nat := match w with WLoop _ _ => 2 | WSend _ _ => 1 | WDone _ => 0 end.
Definition crank (c : cst) : nat :=
  match c with CWait => 2 * par + 5 | CLoop i _ => 2 * (par - i) + 4 | CSent => 1 | CDone => 0 end.
Definition mu (s : state) : nat :=
  length (inbuf s) + list_sum (map wrank (ws s)) + crank (col s) + length (dbuf s)
  + (if seen_closed s then 0 else 1).

(* ---- canonical schedules, used to RUN the model (Check/C10.v) -------------------------------- *)
(* distribution [d i] = the worker that takes the i-th element; elements are taken in FIFO order *)
Definition sched (d : nat -> nat) (order : list nat) (xs : list A) : list ev :=
  map EIn xs ++ [ECloseIn]
  ++ map (fun i => ETake (d i) 0) (seq 0 (length xs))
  ++ map EExit order ++ map EHand order
  ++ repeat ECol (par + 3) ++ [ERcvd; ERcvdClosed].

End Machine.

Arguments WLoop {A}. Arguments WSend {A}. Arguments WDone {A}.
Arguments CWait {A}. Arguments CLoop {A}. Arguments CSent {A}. Arguments CDone {A}.
Arguments EIn {A}. Arguments ECloseIn {A}. Arguments ETake {A}. Arguments EExit {A}. Arguments EHand {A}.
Arguments ECol {A}. Arguments ERcvd {A}. Arguments ERcvdClosed {A}.
