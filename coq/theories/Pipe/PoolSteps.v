(* Case analysis of [step] (environment events + worker effects) and the induction principle
   over executions. *)
From Coq Require Import List ZArith NArith Bool Arith PeanoNat Lia.
From Golem Require Import Pipe.Pool Pipe.PoolEffects.
Import ListNotations.

Section Steps.
Variable c : cfg.

(* ---------- executions ---------- *)
Lemma exec_from_none tr :
  fold_left (fun o e => match o with Some s => step c s e | None => None end) tr None = None.
Proof. induction tr as [|e tr IH]; simpl; auto. Qed.

Lemma exec_from_cons s e tr :
  exec_from c s (e :: tr) = match step c s e with Some s1 => exec_from c s1 tr | None => None end.
Proof.
  unfold exec_from. simpl. destruct (step c s e); [reflexivity|apply exec_from_none].
Qed.

Lemma exec_from_app s tr1 tr2 :
  exec_from c s (tr1 ++ tr2) = match exec_from c s tr1 with Some s1 => exec_from c s1 tr2 | None => None end.
Proof.
  revert s. induction tr1 as [|e tr1 IH]; intros s; [reflexivity|].
  simpl app. rewrite !exec_from_cons. destruct (step c s e); auto.
Qed.

Lemma exec_from_inv (P : state -> Prop) :
  (forall s e s', P s -> step c s e = Some s' -> P s') ->
  forall tr s s', P s -> exec_from c s tr = Some s' -> P s'.
Proof.
  intros Hstep tr. induction tr as [|e tr IH]; intros s s' Hs Hex.
  - unfold exec_from in Hex. simpl in Hex. inversion Hex; subst; auto.
  - rewrite exec_from_cons in Hex. destruct (step c s e) as [s1|] eqn:E; [|discriminate].
    eapply IH; [|exact Hex]. eapply Hstep; eauto.
Qed.

Definition reachable (s : state) : Prop := exists tr, exec c tr = Some s.

Lemma reachable_inv (P : state -> Prop) :
  P (init c) ->
  (forall s e s', P s -> step c s e = Some s' -> P s') ->
  forall s, reachable s -> P s.
Proof. intros H0 Hs s [tr Htr]. eapply exec_from_inv; eauto. Qed.

(* the same, with reachability of the pre-state available in the step case *)
Lemma reachable_inv_strong (P : state -> Prop) :
  P (init c) ->
  (forall s e s', reachable s -> P s -> step c s e = Some s' -> P s') ->
  forall s, reachable s -> P s.
Proof.
  intros H0 Hs s [tr Htr]. revert s Htr. induction tr as [|e tr IH] using rev_ind; intros s Htr.
  - unfold exec, exec_from in Htr. simpl in Htr. inversion Htr; subst. exact H0.
  - unfold exec in Htr. rewrite exec_from_app in Htr.
    destruct (exec_from c (init c) tr) as [s1|] eqn:E1; [|discriminate].
    rewrite exec_from_cons in Htr. destruct (step c s1 e) as [s2|] eqn:E2; [|discriminate].
    unfold exec_from in Htr. simpl in Htr. inversion Htr; subst.
    eapply Hs; [exists tr; exact E1| |exact E2]. apply IH. exact E1.
Qed.

Lemma reachable_step s e s' : reachable s -> step c s e = Some s' -> reachable s'.
Proof.
  intros [tr Htr] Hs. exists (tr ++ [e]). unfold exec in *. rewrite exec_from_app, Htr.
  rewrite exec_from_cons, Hs. reflexivity.
Qed.

Lemma reachable_init : reachable (init c).
Proof. exists []. reflexivity. Qed.

(* ---------- close_all only flips closed flags (or panics) ---------- *)
Lemma close_all_frame s ks :
  let s' := close_all s ks in
  ins s' = ins s /\ ws s' = ws s /\ cancelled s' = cancelled s /\ closer_done s' = closer_done s /\
  now s' = now s /\ sent s' = sent s /\ consumed s' = consumed s /\ rcvd s' = rcvd s /\
  (forall k, cbuf (outs s' k) = cbuf (outs s k)) /\ (forall k, ccap (outs s' k) = ccap (outs s k)).
Proof.
  revert s. induction ks as [|k ks IH]; intros s; simpl.
  - repeat split; auto.
  - destruct (cclosed (outs s k)).
    + simpl. repeat split; auto.
    + specialize (IH (set_out s k (close (outs s k)))). simpl in IH.
      destruct IH as (A & B & C & D & E & F & G & H & I & J).
      repeat split; auto.
      * intros k'. rewrite I. unfold upd. destruct (Nat.eqb k' k) eqn:Ek; auto.
        apply Nat.eqb_eq in Ek. subst. reflexivity.
      * intros k'. rewrite J. unfold upd. destruct (Nat.eqb k' k) eqn:Ek; auto.
        apply Nat.eqb_eq in Ek. subst. reflexivity.
Qed.

(* ---------- rendezvous partner ---------- *)
Lemma find_sender_spec s k v n w :
  find_sender s k v n = Some w ->
  w < n /\ exists eof a rest, wc (ws s w) = WRun eof (a :: rest) /\ sends_on a k v.
Proof.
  induction n as [|m IH]; simpl; [discriminate|].
  intros H.
  destruct (wc (ws s m)) as [|a0 t0|eof [|a rest]|u sl e t|] eqn:Ec;
    try (destruct (IH H) as (Hl & Hx); split; [lia|exact Hx]).
  destruct a as [k' v'|k' v'| | | | |];
    try (destruct (IH H) as (Hl & Hx); split; [lia|exact Hx]).
  - destruct (Nat.eqb k' k && Z.eqb v' v) eqn:E.
    + inversion H; subst. apply andb_prop in E. destruct E as [E1 E2].
      apply Nat.eqb_eq in E1. apply Z.eqb_eq in E2. subst.
      split; [lia|]. exists eof, (ASend k v), rest. split; auto. left; reflexivity.
    + destruct (IH H) as (Hl & Hx); split; [lia|exact Hx].
  - destruct (Nat.eqb k' k && Z.eqb v' v) eqn:E.
    + inversion H; subst. apply andb_prop in E. destruct E as [E1 E2].
      apply Nat.eqb_eq in E1. apply Z.eqb_eq in E2. subst.
      split; [lia|]. exists eof, (APlain k v), rest. split; auto. right; reflexivity.
    + destruct (IH H) as (Hl & Hx); split; [lia|exact Hx].
Qed.

(* ---------- all effects of one step ---------- *)
Inductive seffect (s : state) : state -> Prop :=
| SE_sent i x :
    i < nins c -> cclosed (ins s i) = false ->
    seffect s (mkS (upd (ins s) i (push (ins s i) (0, x))) (outs s) (cancelled s) (ws s)
                   (closer_done s) (panicked s) (now s) (upd (sent s) i (sent s i ++ [x])) (consumed s) (rcvd s))
| SE_closein i :
    i < nins c -> cclosed (ins s i) = false ->
    seffect s (mkS (upd (ins s) i (close (ins s i))) (outs s) (cancelled s) (ws s)
                   (closer_done s) (panicked s) (now s) (sent s) (consumed s) (rcvd s))
| SE_rcvd k t v rest :
    cbuf (outs s k) = (t, v) :: rest ->
    seffect s (mkS (ins s) (upd (outs s) k (pop (outs s k))) (cancelled s) (ws s)
                   (closer_done s) (panicked s) (now s) (sent s) (consumed s)
                   (upd (rcvd s) k (rcvd s k ++ [(t, v)])))
| SE_rdv k v w eof a rest :
    cbuf (outs s k) = [] -> ccap (outs s k) = 0 -> cclosed (outs s k) = false ->
    w < par c -> wc (ws s w) = WRun eof (a :: rest) -> sends_on a k v ->
    seffect s (mkS (ins s) (outs s) (cancelled s) (upd (ws s) w (with_ctl (ws s w) (WRun eof rest)))
                   (closer_done s) (panicked s) (now s) (sent s) (consumed s)
                   (upd (rcvd s) k (rcvd s k ++ [(w, v)])))
| SE_same : seffect s s
| SE_cancel :
    seffect s (mkS (ins s) (outs s) true (ws s) (closer_done s) (panicked s) (now s) (sent s) (consumed s) (rcvd s))
| SE_worker w s' : w < par c -> weffect c s w s' -> seffect s s'
| SE_ret w a todo :
    w < par c -> wc (ws s w) = WCall a todo ->
    seffect s (set_w s w (with_ctl (ws s w) (WRun false todo)))
| SE_closer :
    closer c = true -> all_done c s = true -> closer_done s = false ->
    seffect s (let s1 := close_all s (closes c) in
               mkS (ins s1) (outs s1) (cancelled s1) (ws s1) true (panicked s1) (now s1) (sent s1) (consumed s1) (rcvd s1))
| SE_advance t :
    (now s < t)%N ->
    seffect s (mkS (ins s) (outs s) (cancelled s) (ws s) (closer_done s) (panicked s) t (sent s) (consumed s) (rcvd s)).

Lemma step_effect s e s' : step c s e = Some s' -> panicked s = false /\ seffect s s'.
Proof.
  unfold step. destruct (panicked s) eqn:Ep; [discriminate|]. intros H. split; [reflexivity|].
  clear Ep. unfold step_ok in H.
  destruct e as [i x|i|k v|k| |w ch|w| |t].
  - destruct (Nat.ltb i (nins c)) eqn:Ei; simpl in H; [|discriminate]. apply Nat.ltb_lt in Ei.
    destruct (cclosed (ins s i)) eqn:Ecl; [discriminate|].
    destruct (in_room c s i); [|discriminate]. inversion H; subst. apply SE_sent; auto.
  - destruct (Nat.ltb i (nins c)) eqn:Ei; simpl in H; [|discriminate]. apply Nat.ltb_lt in Ei.
    destruct (cclosed (ins s i)) eqn:Ecl; [discriminate|]. inversion H; subst. apply SE_closein; auto.
  - destruct (cbuf (outs s k)) as [|[t v'] rest] eqn:Eb.
    + destruct (Nat.eqb (ccap (outs s k)) 0 && negb (cclosed (outs s k))) eqn:E0; [|discriminate].
      apply andb_prop in E0. destruct E0 as [E1 E2]. apply Nat.eqb_eq in E1. apply negb_true_iff in E2.
      destruct (find_sender s k v (par c)) as [w|] eqn:Ef; [|discriminate].
      destruct (find_sender_spec _ _ _ _ _ Ef) as (Hw & eof & a & rest & Hc & Hs).
      inversion H; subst. unfold after_send. rewrite Hc. eapply SE_rdv; eauto.
    + destruct (Z.eqb v v') eqn:Ev; [|discriminate]. apply Z.eqb_eq in Ev. subst.
      inversion H; subst. eapply SE_rcvd; eauto.
  - destruct (cbuf (outs s k)); [|discriminate]. destruct (cclosed (outs s k)); [|discriminate].
    inversion H; subst. apply SE_same.
  - inversion H; subst. apply SE_cancel.
  - destruct (Nat.ltb w (par c)) eqn:Ew; [|discriminate]. apply Nat.ltb_lt in Ew.
    eapply SE_worker; eauto. eapply step_worker_effect; eauto.
  - destruct (Nat.ltb w (par c)) eqn:Ew; [|discriminate]. apply Nat.ltb_lt in Ew.
    destruct (wc (ws s w)) eqn:Ec; try discriminate. inversion H; subst. eapply SE_ret; eauto.
  - destruct (closer c && all_done c s && negb (closer_done s)) eqn:E0; [|discriminate].
    apply andb_prop in E0. destruct E0 as [E0 E3]. apply andb_prop in E0. destruct E0 as [E1 E2].
    apply negb_true_iff in E3. inversion H; subst. apply SE_closer; auto.
  - destruct (N.ltb (now s) t) eqn:Et; [|discriminate]. apply N.ltb_lt in Et.
    inversion H; subst. apply SE_advance; auto.
Qed.

End Steps.
