(* C08 layer 2 - proofs about the pump machine of Unbound.v in its [repaired] setting, for every pair of
   capacities and every event list. *)
From Coq Require Import List Arith ZArith Bool Lia.
From Golem Require Import Pipe.Chan08 Pipe.Unbound.
Import ListNotations.

Section Proofs.
Variable cin ceg : nat.

Notation stepr := (step cin ceg repaired).

(* the stream is ending: cancelled, or closed by the sender with nothing left in the input buffer *)
Definition ending (s : state) : Prop := cancelled s = true \/ (in_closed s = true /\ inbuf s = []).

Definition pc_ok (s : state) : Prop :=
  match pc s with
  | PMain => eg_closed s = false
  | PDrain => eg_closed s = false /\ cancelled s = true
  | PFlush => eg_closed s = false /\ ending s
  | PRet => False
  | PDone => eg_closed s = true /\ q s = [] /\ ending s
  end.

(* once the pump has decided to flush, what it will still deliver starts with everything sent before the cancel *)
Definition kprefix (s : state) : Prop :=
  match pc s with
  | PFlush | PDone => forall l, at_cancel s = Some l -> exists r, rcvd s ++ egbuf s ++ q s = l ++ r
  | _ => True
  end.

Record Inv (s : state) : Prop := mkInv {
  I_np : panic s = false;
  I_fifo : rcvd s ++ egbuf s ++ q s ++ inbuf s = sent s;
  I_in : length (inbuf s) <= cin;
  I_eg : length (egbuf s) <= ceg;
  I_pc : pc_ok s;
  I_k : kprefix s;
  I_cl : in_closed s = snd_closed s;
  I_ac : forall l, at_cancel s = Some l -> cancelled s = true /\ exists r, sent s = l ++ r;
  I_ca : cancelled s = true -> at_cancel s <> None;
  I_seen : seen_closed s = true -> eg_closed s = true /\ egbuf s = []
}.

Lemma inv_init : Inv init.
Proof.
  constructor; cbn; auto; try lia; try discriminate.
Qed.

Ltac inv_some H := inversion H; subst; clear H.

Lemma nil_of_is_nil {X} (l : list X) : is_nil l = true -> l = [].
Proof. destruct l; [reflexivity|discriminate]. Qed.

Ltac t_fifo H := rewrite <- H; cbn; rewrite <- ?app_assoc; cbn; reflexivity.
Ltac t_len := rewrite ?app_length; cbn in *; lia.
Ltac t_ac Hac :=
  first [ exact Hac
        | let l := fresh "l" in let Hl := fresh "Hl" in
          intros l Hl; destruct (Hac l Hl) as [? ?]; split; [congruence|assumption] ].
Ltac t_cat Hcat := first [ exact Hcat | intros ?; apply Hcat; congruence ].

Lemma inv_step s e s' : Inv s -> stepr s e = Some s' -> Inv s'.
Proof.
  intros [Hnp Hfifo Hin Heg Hpc Hk Hcl Hac Hcat Hseen] Hst. unfold pc_ok, kprefix, ending in Hpc, Hk.
  unfold step in Hst. rewrite Hnp in Hst.
  destruct e as [x|v| | | |a].
  - (* ESent *)
    destruct (snd_closed s) eqn:Hsc; [discriminate|].
    destruct (in_closed s) eqn:Hic; [congruence|].
    assert (Hac' : forall l, at_cancel s = Some l -> cancelled s = true /\ exists r, sent s ++ [x] = l ++ r).
    { intros l Hl. destruct (Hac l Hl) as (Hc & r & Hr). split; [exact Hc|].
      exists (r ++ [x]). rewrite Hr, app_assoc. reflexivity. }
    assert (Hpc' : forall ib : list Z, match pc s with
                              | PMain => eg_closed s = false
                              | PDrain => eg_closed s = false /\ cancelled s = true
                              | PFlush => eg_closed s = false /\ (cancelled s = true \/ false = true /\ ib = [])
                              | PRet => False
                              | PDone => eg_closed s = true /\ q s = [] /\ (cancelled s = true \/ false = true /\ ib = [])
                              end).
    { intros ib. unfold pc_ok, ending in Hpc. destruct (pc s); auto.
      - destruct Hpc as (He & [Hc|[Hc _]]); [auto|congruence].
      - destruct Hpc as (He & Hq & [Hc|[Hc _]]); [auto|congruence]. }
    destruct (has_room (inbuf s) cin) eqn:Hroom.
    + inv_some Hst. unfold has_room in Hroom. apply Nat.ltb_lt in Hroom.
      constructor; cbn;
        [ reflexivity | rewrite <- Hfifo, <- !app_assoc; reflexivity | t_len | exact Heg
        | unfold pc_ok, ending; cbn; apply Hpc' | exact Hk | first [reflexivity | exact Hcl | congruence] | exact Hac' | exact Hcat | exact Hseen ].
    + destruct ((cin =? 0) && at_recv_select (pc s) && negb (busy s)) eqn:Hrv; [|discriminate].
      inv_some Hst. apply andb_prop in Hrv as [Hrv _]. apply andb_prop in Hrv as [Hc0 Hat].
      apply Nat.eqb_eq in Hc0.
      assert (Hib : inbuf s = []) by (destruct (inbuf s); [reflexivity|cbn in Hin; lia]).
      constructor; cbn;
        [ reflexivity | rewrite <- Hfifo, Hib, !app_nil_r, <- !app_assoc; reflexivity | exact Hin | exact Heg
        | unfold pc_ok, ending in *; cbn; destruct (pc s); auto; discriminate
        | unfold kprefix in *; cbn; destruct (pc s); auto; discriminate
        | first [reflexivity | exact Hcl | congruence] | exact Hac' | exact Hcat | exact Hseen ].
  - (* ERcvd *)
    destruct (egbuf s) as [|y r] eqn:Hb.
    + destruct (negb (eg_closed s) && (ceg =? 0) && at_send (pc s) && negb (busy s)) eqn:Hc; [|discriminate].
      destruct (q s) as [|y r] eqn:Hq; [discriminate|].
      destruct (Z.eqb v y) eqn:Hv; [|discriminate]. apply Z.eqb_eq in Hv. subst y.
      inv_some Hst.
      apply andb_prop in Hc as [Hc _]. apply andb_prop in Hc as [Hc Hat]. apply andb_prop in Hc as [Hec _].
      apply negb_true_iff in Hec.
      constructor; cbn;
        [ reflexivity | t_fifo Hfifo | exact Hin | t_len | | | first [reflexivity | exact Hcl | congruence] | t_ac Hac | t_cat Hcat | ].
      * unfold pc_ok, ending in *; cbn. destruct (pc s); auto.
        destruct Hpc as (_ & Hn & _). discriminate.
      * unfold kprefix in *; cbn. rewrite ?Hb. destruct (pc s); auto;
          intros l Hl; destruct (Hk l Hl) as (r' & Hr'); exists r'; rewrite <- Hr'; cbn; rewrite <- !app_assoc; reflexivity.
      * intros Hs. apply Hseen in Hs as [Hs _]. congruence.
    + destruct (Z.eqb v y) eqn:Hv; [|discriminate]. apply Z.eqb_eq in Hv. subst y.
      inv_some Hst.
      constructor; cbn;
        [ reflexivity | t_fifo Hfifo | exact Hin | t_len | exact Hpc | | first [reflexivity | exact Hcl | congruence] | t_ac Hac | t_cat Hcat | ].
      * unfold kprefix in *; cbn. destruct (pc s); auto;
          intros l Hl; destruct (Hk l Hl) as (r' & Hr'); exists r'; rewrite <- Hr'; cbn; rewrite <- !app_assoc; reflexivity.
      * intros Hs. apply Hseen in Hs as [_ Hs]. discriminate.
  - (* ERcvdClosed *)
    destruct (eg_closed s && is_nil (egbuf s)) eqn:Hc; [|discriminate].
    inv_some Hst. apply andb_prop in Hc as [Hc1 Hc2]. apply nil_of_is_nil in Hc2.
    constructor; cbn; auto.
  - (* ECloseSnd *)
    destruct (snd_closed s) eqn:Hsc; [discriminate|].
    destruct (in_closed s) eqn:Hic; [congruence|]. inv_some Hst.
    constructor; cbn;
      [ reflexivity | exact Hfifo | exact Hin | exact Heg | | exact Hk | reflexivity | t_ac Hac | t_cat Hcat | exact Hseen ].
    unfold pc_ok, ending in *; cbn. destruct (pc s); auto.
    + destruct Hpc as (He & [Hc|[Hc _]]); [auto|congruence].
    + destruct Hpc as (He & Hq & [Hc|[Hc _]]); [auto|congruence].
  - (* ECancel *)
    destruct (cancelled s) eqn:Hca; [discriminate|]. inv_some Hst.
    constructor; cbn;
      [ reflexivity | exact Hfifo | exact Hin | exact Heg | | | first [reflexivity | exact Hcl | congruence] | | discriminate | exact Hseen ].
    + unfold pc_ok, ending in *; cbn. destruct (pc s); auto.
      * destruct Hpc as (He & Hc). discriminate.
      * destruct Hpc as (He & _). auto.
      * destruct Hpc as (He & Hq & _). auto.
    + unfold kprefix, pc_ok, ending in *; cbn. destruct (pc s); auto.
      * intros l Hl. inv_some Hl. destruct Hpc as (_ & [Hc|[_ Hib]]); [discriminate|].
        exists []. rewrite <- Hfifo, Hib. rewrite !app_nil_r. reflexivity.
      * intros l Hl. inv_some Hl. destruct Hpc as (_ & _ & [Hc|[_ Hib]]); [discriminate|].
        exists []. rewrite <- Hfifo, Hib. rewrite !app_nil_r. reflexivity.
    + intros l Hl. inv_some Hl. split; [reflexivity|]. exists []. rewrite app_nil_r. reflexivity.
  - (* EPump *)
    unfold pump in Hst.
    destruct (busy s) eqn:Hbusy.
    { destruct a; try discriminate. inv_some Hst. constructor; cbn; auto. }
    assert (Hkfl : inbuf s = [] -> forall l, at_cancel s = Some l -> exists r, rcvd s ++ egbuf s ++ q s = l ++ r).
    { intros Hib l Hl. destruct (Hac l Hl) as (_ & r & Hr). exists r.
      rewrite <- Hr, <- Hfifo, Hib. rewrite !app_nil_r. reflexivity. }
    unfold pc_ok in Hpc. unfold kprefix in Hk.
    destruct (pc s) eqn:Hpcs; destruct a; try discriminate;
      cbn [drain_on_cancel flush_on_sender_close pump_closes_in repaired] in Hst.
    + (* PMain ADone *)
      destruct (cancelled s) eqn:Hca; [|discriminate]. inv_some Hst.
      constructor; cbn;
        [ reflexivity | exact Hfifo | exact Hin | exact Heg | unfold pc_ok; cbn; auto | unfold kprefix; cbn; exact I
        | first [reflexivity | exact Hcl | congruence] | t_ac Hac | t_cat Hcat | exact Hseen ].
    + (* PMain ARecv *)
      destruct (inbuf s) as [|x r] eqn:Hib.
      * destruct (in_closed s) eqn:Hic; [|discriminate]. inv_some Hst.
        constructor; cbn;
          [ reflexivity | rewrite Hib; exact Hfifo | rewrite Hib; exact Hin | exact Heg
          | unfold pc_ok, ending; cbn; rewrite Hib; auto | unfold kprefix; cbn; auto
          | first [reflexivity | exact Hcl | congruence] | t_ac Hac | t_cat Hcat | exact Hseen ].
      * inv_some Hst.
        constructor; cbn;
          [ reflexivity | t_fifo Hfifo | t_len | exact Heg
          | unfold pc_ok; cbn; rewrite Hpcs; exact Hpc | unfold kprefix; cbn; rewrite Hpcs; exact I
          | first [reflexivity | exact Hcl | congruence] | t_ac Hac | t_cat Hcat | exact Hseen ].
    + (* PMain ASend *)
      destruct (q s) as [|y r] eqn:Hq; [discriminate|]. rewrite Hpc in Hst.
      destruct (has_room (egbuf s) ceg) eqn:Hroom; [|discriminate]. inv_some Hst.
      unfold has_room in Hroom. apply Nat.ltb_lt in Hroom.
      constructor; cbn;
        [ reflexivity | t_fifo Hfifo | exact Hin | t_len
        | unfold pc_ok; cbn; rewrite Hpcs; exact Hpc | unfold kprefix; cbn; rewrite Hpcs; exact I
        | first [reflexivity | exact Hcl | congruence] | t_ac Hac | t_cat Hcat | ].
      intros Hs. apply Hseen in Hs as [Hs _]. congruence.
    + (* PDrain ARecv *)
      destruct Hpc as (Hec & Hca).
      destruct (inbuf s) as [|x r] eqn:Hib.
      * destruct (in_closed s) eqn:Hic; [|discriminate]. inv_some Hst.
        constructor; cbn;
          [ reflexivity | rewrite Hib; exact Hfifo | rewrite Hib; exact Hin | exact Heg
          | unfold pc_ok, ending; cbn; auto | unfold kprefix; cbn; auto
          | first [reflexivity | exact Hcl | congruence] | t_ac Hac | t_cat Hcat | exact Hseen ].
      * inv_some Hst.
        constructor; cbn;
          [ reflexivity | t_fifo Hfifo | t_len | exact Heg
          | unfold pc_ok; cbn; rewrite Hpcs; auto | unfold kprefix; cbn; rewrite Hpcs; exact I
          | first [reflexivity | exact Hcl | congruence] | t_ac Hac | t_cat Hcat | exact Hseen ].
    + (* PDrain ADefault *)
      destruct Hpc as (Hec & Hca).
      destruct (is_nil (inbuf s) && negb (in_closed s)) eqn:Hc; [|discriminate]. inv_some Hst.
      apply andb_prop in Hc as [Hc _]. apply nil_of_is_nil in Hc.
      constructor; cbn;
        [ reflexivity | exact Hfifo | exact Hin | exact Heg
        | unfold pc_ok, ending; cbn; auto | unfold kprefix; cbn; auto
        | first [reflexivity | exact Hcl | congruence] | t_ac Hac | t_cat Hcat | exact Hseen ].
    + (* PFlush ASend *)
      destruct Hpc as (Hec & Hen).
      destruct (q s) as [|y r] eqn:Hq; [discriminate|]. rewrite Hec in Hst.
      destruct (has_room (egbuf s) ceg) eqn:Hroom; [|discriminate]. inv_some Hst.
      unfold has_room in Hroom. apply Nat.ltb_lt in Hroom.
      constructor; cbn;
        [ reflexivity | t_fifo Hfifo | exact Hin | t_len
        | unfold pc_ok; cbn; rewrite Hpcs; unfold ending in *; cbn; auto |
        | first [reflexivity | exact Hcl | congruence] | t_ac Hac | t_cat Hcat | ].
      * unfold kprefix; cbn. rewrite Hpcs. intros l Hl. destruct (Hk l Hl) as (r' & Hr'). exists r'.
        rewrite <- Hr'. rewrite <- !app_assoc. reflexivity.
      * intros Hs. apply Hseen in Hs as [Hs _]. congruence.
    + (* PFlush AReturn *)
      destruct Hpc as (Hec & Hen).
      destruct (is_nil (q s)) eqn:Hq; [|discriminate]. apply nil_of_is_nil in Hq.
      unfold do_return in Hst. cbn [pump_closes_in repaired andb orb] in Hst. rewrite Hec in Hst. inv_some Hst.
      constructor; cbn;
        [ reflexivity | exact Hfifo | exact Hin | exact Heg
        | unfold pc_ok, ending in *; cbn; auto | unfold kprefix; cbn; exact Hk
        | first [reflexivity | exact Hcl | congruence] | t_ac Hac | t_cat Hcat | ].
      intros Hs. apply Hseen in Hs as [Hs _]. congruence.
    + (* PRet *) destruct Hpc.
Qed.

Lemma inv_exec_from tr : forall s s', Inv s -> exec_from cin ceg repaired s tr = Some s' -> Inv s'.
Proof.
  induction tr as [|e tr IH]; intros s s' HI He; cbn in He.
  - inv_some He. exact HI.
  - destruct (stepr s e) as [s1|] eqn:Hs; [|discriminate].
    eapply IH; [|exact He]. eapply inv_step; eauto.
Qed.

Lemma inv_exec tr s : exec cin ceg repaired tr = Some s -> Inv s.
Proof. apply inv_exec_from. apply inv_init. Qed.

(* ---------------------------------------------------------------------------------------------- *)
Theorem fifo_lossless : forall tr s,
  exec cin ceg repaired tr = Some s ->
  panic s = false /\ rcvd s ++ egbuf s ++ q s ++ inbuf s = sent s.
Proof. intros tr s He. destruct (inv_exec _ _ He). auto. Qed.

(* steps that need no sender: the pump's own and the receiver's *)
Definition no_sender (e : ev) : bool := match e with EPump _ | ERcvd _ => true | _ => false end.

Lemma nu_decreases s e s' :
  Inv s -> no_sender e = true -> stepr s e = Some s' -> nu s' < nu s.
Proof.
  intros [Hnp Hfifo Hin Heg Hpc Hk Hcl Hac Hcat Hseen] Hns Hst.
  unfold step in Hst. rewrite Hnp in Hst.
  destruct e as [x|v| | | |a]; try discriminate.
  - destruct (egbuf s) as [|y r] eqn:Hb.
    + destruct (negb (eg_closed s) && (ceg =? 0) && at_send (pc s) && negb (busy s)) eqn:Hc; [|discriminate].
      destruct (q s) as [|y r] eqn:Hq; [discriminate|].
      destruct (Z.eqb v y); [|discriminate]. inv_some Hst.
      unfold nu; cbn. rewrite Hb, Hq. cbn. destruct (busy s); lia.
    + destruct (Z.eqb v y); [|discriminate]. inv_some Hst.
      unfold nu; cbn. rewrite Hb. cbn. destruct (busy s); lia.
  - unfold pump in Hst.
    destruct (busy s) eqn:Hbusy.
    { destruct a; try discriminate. inv_some Hst. unfold nu; cbn. rewrite Hbusy. lia. }
    unfold pc_ok in Hpc.
    destruct (pc s) eqn:Hpcs; destruct a; try discriminate;
      cbn [drain_on_cancel flush_on_sender_close pump_closes_in repaired] in Hst.
    + destruct (cancelled s); [|discriminate]. inv_some Hst. unfold nu; cbn. rewrite Hpcs, Hbusy. cbn. lia.
    + destruct (inbuf s) as [|x r] eqn:Hib.
      * destruct (in_closed s); [|discriminate]. inv_some Hst. unfold nu; cbn. rewrite Hpcs, Hbusy, Hib. cbn. lia.
      * inv_some Hst. unfold nu; cbn. rewrite Hpcs, Hbusy, Hib, app_length. cbn. lia.
    + destruct (q s) as [|y r] eqn:Hq; [discriminate|]. rewrite Hpc in Hst.
      destruct (has_room (egbuf s) ceg); [|discriminate]. inv_some Hst.
      unfold nu; cbn. rewrite Hpcs, Hbusy, Hq, app_length. cbn. lia.
    + destruct (inbuf s) as [|x r] eqn:Hib.
      * destruct (in_closed s); [|discriminate]. inv_some Hst. unfold nu; cbn. rewrite Hpcs, Hbusy, Hib. cbn. lia.
      * inv_some Hst. unfold nu; cbn. rewrite Hpcs, Hbusy, Hib, app_length. cbn. lia.
    + destruct (is_nil (inbuf s) && negb (in_closed s)); [|discriminate]. inv_some Hst.
      unfold nu; cbn. rewrite Hpcs, Hbusy. cbn. lia.
    + destruct Hpc as (Hec & _).
      destruct (q s) as [|y r] eqn:Hq; [discriminate|]. rewrite Hec in Hst.
      destruct (has_room (egbuf s) ceg); [|discriminate]. inv_some Hst.
      unfold nu; cbn. rewrite Hpcs, Hbusy, Hq, app_length. cbn. lia.
    + destruct Hpc as (Hec & _).
      destruct (is_nil (q s)); [|discriminate].
      unfold do_return in Hst. cbn [pump_closes_in repaired andb orb] in Hst. rewrite Hec in Hst. inv_some Hst.
      unfold nu; cbn. rewrite Hpcs, Hbusy. cbn. lia.
    + destruct Hpc.
Qed.

(* what quiescence means *)
Lemma quiescent_facts s :
  Inv s -> quiescent cin ceg repaired s ->
  busy s = false
  /\ (pc s = PMain -> cancelled s = false /\ (inbuf s = [] /\ in_closed s = false)
                      /\ (q s = [] \/ has_room (egbuf s) ceg = false))
  /\ pc s <> PDrain
  /\ (pc s = PFlush -> q s <> [] /\ has_room (egbuf s) ceg = false).
Proof.
  intros [Hnp Hfifo Hin Heg Hpc Hk Hcl Hac Hcat Hseen] Hq.
  unfold quiescent, step in Hq. setoid_rewrite Hnp in Hq. unfold pump in Hq.
  destruct (busy s) eqn:Hbusy.
  { specialize (Hq AWake). discriminate. }
  split; [reflexivity|].
  unfold pc_ok in Hpc.
  destruct (pc s) eqn:Hpcs; cbn [drain_on_cancel flush_on_sender_close pump_closes_in repaired] in Hq.
  - split; [|split; [discriminate|discriminate]]. intros _.
    pose proof (Hq ADone) as H1. pose proof (Hq ARecv) as H2. pose proof (Hq ASend) as H3.
    cbv beta iota in H1, H2, H3. rewrite Hpc in H3.
    destruct (cancelled s); [discriminate|]. split; [reflexivity|].
    split.
    + destruct (inbuf s); [|discriminate]. destruct (in_closed s); [discriminate|]. auto.
    + destruct (q s); [left; reflexivity|]. right. destruct (has_room (egbuf s) ceg); [discriminate|reflexivity].
  - exfalso. pose proof (Hq ARecv) as H2. pose proof (Hq ADefault) as H3. cbv beta iota in H2, H3.
    destruct (inbuf s); [|discriminate]. destruct (in_closed s); discriminate.
  - split; [discriminate|]. split; [discriminate|]. intros _.
    destruct Hpc as (Hec & _).
    pose proof (Hq ASend) as H2. pose proof (Hq AReturn) as H3. cbv beta iota in H2, H3. rewrite Hec in H2.
    destruct (q s); [discriminate|]. split; [discriminate|].
    destruct (has_room (egbuf s) ceg); [discriminate|reflexivity].
  - destruct Hpc.
  - split; [discriminate|]. split; discriminate.
Qed.

Theorem never_blocks_sender : forall tr s,
  exec cin ceg repaired tr = Some s ->
  (* the pump is parked, nobody cancelled, the sender has not closed: a send completes at once,
     whatever the receiver does or does not do *)
  (quiescent cin ceg repaired s -> cancelled s = false -> snd_closed s = false ->
   forall x, exists s', stepr s (ESent x) = Some s' /\ sent s' = sent s ++ [x])
  (* and the pump cannot run forever between two such states: every step of the pump (and of the receiver)
     decreases [nu], which is at most 4|inbuf| + 3|queue| + 2|egbuf| + 9 *)
  /\ (forall e s', no_sender e = true -> stepr s e = Some s' -> nu s' < nu s).
Proof.
  intros tr s He. pose proof (inv_exec _ _ He) as HI. split.
  - intros Hq Hca Hsc x.
    destruct (quiescent_facts s HI Hq) as (Hbusy & Hmain & Hnd & Hfl).
    destruct HI as [Hnp Hfifo Hin Heg Hpc Hk Hcl Hac Hcat Hseen].
    assert (Hpm : pc s = PMain).
    { unfold pc_ok, ending in Hpc. rewrite Hcl, Hsc, Hca in Hpc.
      destruct (pc s); auto.
      - congruence.
      - destruct Hpc as (_ & [Hc|[Hc _]]); discriminate.
      - destruct Hpc.
      - destruct Hpc as (_ & _ & [Hc|[Hc _]]); discriminate. }
    destruct (Hmain Hpm) as (_ & (Hib & Hic) & _).
    unfold step. rewrite Hnp, Hsc, Hic, Hib, Hpm, Hbusy. unfold has_room. cbn.
    destruct cin as [|n]; cbn; eexists; split; reflexivity.
  - intros e s' Hns Hst. eapply nu_decreases; eauto.
Qed.

Theorem cancel_delivers : forall tr s l,
  exec cin ceg repaired tr = Some s ->
  at_cancel s = Some l ->                 (* l = the values whose send had completed when ECancel happened *)
  (* they stay ahead of everything sent later ... *)
  (exists r, sent s = l ++ r)
  (* ... and when the receiver sees the receive side closed it has received all of them, in order, first *)
  /\ (seen_closed s = true -> exists r, rcvd s = l ++ r).
Proof.
  intros tr s l He Hl. destruct (inv_exec _ _ He) as [Hnp Hfifo Hin Heg Hpc Hk Hcl Hac Hcat Hseen].
  split; [apply (Hac l Hl)|].
  intros Hs. destruct (Hseen Hs) as (Hec & Hb).
  unfold pc_ok in Hpc. unfold kprefix in Hk.
  destruct (pc s); try (destruct Hpc; congruence); try congruence.
  destruct Hpc as (_ & Hq & _). destruct (Hk l Hl) as (r & Hr). exists r.
  rewrite Hb, Hq in Hr. cbn in Hr. rewrite app_nil_r in Hr. exact Hr.
Qed.

Theorem sender_close_clean : forall tr s,
  exec cin ceg repaired tr = Some s ->
  (* no crash: neither the sender's close nor anything else reaches the Panic state *)
  panic s = false
  (* the sender closed, no send completed after a cancel: once the receive side is seen closed,
     everything sent has been received, in order *)
  /\ (snd_closed s = true -> (at_cancel s = None \/ at_cancel s = Some (sent s)) ->
      seen_closed s = true -> rcvd s = sent s)
  (* and the stream does end: after a cancel or a sender close, a state in which neither the pump nor the
     receiver can move is the finished one: everything handed over, receive side closed *)
  /\ ((cancelled s = true \/ snd_closed s = true) ->
      quiescent cin ceg repaired s -> (forall v, stepr s (ERcvd v) = None) ->
      pc s = PDone /\ q s = [] /\ egbuf s = [] /\ eg_closed s = true
      /\ exists s', stepr s ERcvdClosed = Some s').
Proof.
  intros tr s He. pose proof (inv_exec _ _ He) as HI.
  pose proof HI as [Hnp Hfifo Hin Heg Hpc Hk Hcl Hac Hcat Hseen].
  split; [exact Hnp|]. split.
  - intros Hsc Hat Hs. destruct (Hseen Hs) as (Hec & Hb).
    unfold pc_ok, ending in Hpc. unfold kprefix in Hk.
    destruct (pc s); try (destruct Hpc; congruence); try congruence.
    destruct Hpc as (_ & Hq & Hen).
    rewrite Hb, Hq in Hfifo. cbn in Hfifo.
    destruct Hat as [Hat|Hat].
    + destruct Hen as [Hc|[_ Hib]].
      * (* cancelled but at_cancel = None: impossible *)
        exfalso. apply (Hcat Hc). exact Hat.
      * rewrite Hib, app_nil_r in Hfifo. exact Hfifo.
    + destruct (Hk _ Hat) as (r & Hr). rewrite Hb, Hq in Hr. cbn in Hr. rewrite app_nil_r in Hr.
      (* rcvd = sent ++ r and rcvd ++ inbuf = sent *)
      rewrite Hr in Hfifo. rewrite <- app_assoc in Hfifo.
      assert (Hl : length (sent s ++ r ++ inbuf s) = length (sent s)) by (rewrite Hfifo; reflexivity).
      rewrite !app_length in Hl. destruct r; [|cbn in Hl; lia].
      rewrite Hr, app_nil_r. reflexivity.
  - intros Hend Hq Hnr.
    destruct (quiescent_facts s HI Hq) as (Hbusy & Hmain & Hnd & Hfl).
    unfold pc_ok, ending in Hpc.
    assert (Hrc : forall y r, egbuf s = y :: r -> False).
    { intros y r Hb. specialize (Hnr y). unfold step in Hnr. rewrite Hnp, Hb, Z.eqb_refl in Hnr. discriminate. }
    destruct (pc s) eqn:Hpcs.
    + exfalso. destruct (Hmain eq_refl) as (Hca & (Hib & Hic) & _).
      destruct Hend as [Hc|Hc]; [congruence|]. rewrite Hcl in Hic. congruence.
    + exfalso. apply Hnd. reflexivity.
    + exfalso. destruct (Hfl eq_refl) as (Hqn & Hroom). destruct Hpc as (Hec & _).
      destruct (egbuf s) as [|y r] eqn:Hb; [|eapply Hrc; eauto].
      unfold has_room in Hroom. cbn in Hroom. destruct ceg as [|n] eqn:Hceg; [|discriminate].
      destruct (q s) as [|y r] eqn:Hqq; [congruence|].
      specialize (Hnr y). unfold step in Hnr. rewrite Hnp, Hb, Hec, Hpcs, Hbusy, Hqq, Z.eqb_refl in Hnr.
      cbn in Hnr. discriminate.
    + destruct Hpc.
    + destruct Hpc as (Hec & Hqq & _).
      destruct (egbuf s) as [|y r] eqn:Hb; [|exfalso; eapply Hrc; eauto].
      repeat split; auto.
      unfold step. rewrite Hnp, Hec, Hb. cbn. eexists; reflexivity.
Qed.

End Proofs.

(* ---------------------------------------------------------------------------------------------- *)
(* witnesses (vm_compute): the hypotheses of the theorems are reachable, and the setting shipped    *)
(* before the repair commit is refuted by the traces of DESIGN section 6 / F3                       *)
(* ---------------------------------------------------------------------------------------------- *)
Local Open Scope Z_scope.

(* capacity 1: a value is still parked in the input buffer when the cancel arrives; it is delivered, then closed *)
Definition tr_cancel_parked : list ev :=
  [ESent 1; ECancel; EPump AWake; EPump ADone; EPump ARecv; EPump ADefault; EPump ASend; EPump AReturn;
   ERcvd 1; ERcvdClosed].
Lemma cancel_parked_run :
  exists s, exec 1 1 repaired tr_cancel_parked = Some s
            /\ at_cancel s = Some [1] /\ seen_closed s = true /\ rcvd s = [1] /\ panic s = false.
Proof. eexists. split; [vm_compute; reflexivity|]. repeat split. Qed.

(* capacity 0: send (rendezvous), sender close, the backlog is flushed to the receiver, then closed *)
Definition tr_close_backlog : list ev :=
  [ESent 1; EPump AWake; ECloseSnd; EPump AWake; EPump ARecv; ERcvd 1; EPump AWake; EPump AReturn; ERcvdClosed].
Lemma close_backlog_run :
  exists s, exec 0 0 repaired tr_close_backlog = Some s
            /\ snd_closed s = true /\ at_cancel s = None /\ seen_closed s = true /\ rcvd s = [1] /\ sent s = [1]
            /\ panic s = false.
Proof. eexists. split; [vm_compute; reflexivity|]. repeat split. Qed.

(* the initial state is quiescent, for any capacities: never_blocks_sender is not vacuous *)
Lemma init_quiescent cin ceg : quiescent cin ceg repaired init.
Proof. intros a. destruct a; reflexivity. Qed.

(* the SHIPPED setting (defer close(in), no drain on cancel, no flush on sender close), same traces: *)
Lemma shipped_close_crashes :
  exists s, exec 0 0 shipped [ESent 1; EPump AWake; ECloseSnd; EPump AWake; EPump ARecv; EPump AReturn] = Some s
            /\ panic s = true /\ rcvd s = [] /\ sent s = [1].
Proof. eexists. split; [vm_compute; reflexivity|]. repeat split. Qed.

Lemma shipped_cancel_loses :
  exists s, exec 1 1 shipped [ESent 1; ECancel; EPump AWake; EPump ADone; EPump AReturn; ERcvdClosed] = Some s
            /\ at_cancel s = Some [1] /\ seen_closed s = true /\ rcvd s = [] /\ inbuf s = [1].
Proof. eexists. split; [vm_compute; reflexivity|]. repeat split. Qed.
