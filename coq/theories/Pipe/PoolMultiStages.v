(* fork.* and Join as instances of the multi-goroutine theorems. *)
From Coq Require Import List ZArith NArith Bool Arith PeanoNat Lia Permutation.
From Golem Require Import Base.Lists Pipe.Pool Pipe.Stages Pipe.PoolEffects Pipe.PoolSteps Pipe.PoolInv Pipe.PoolInv2
     Pipe.PoolSafe Pipe.PoolClosed Pipe.PoolStop Pipe.PoolLive Pipe.PoolSimple Pipe.PoolSeq Pipe.PoolMulti.
Import ListNotations.
Open Scope Z_scope.

Section ForkStage.
Variables (n : nat) (g : Z -> list act) (cl icaps ocaps : list nat).
(* n goroutines running the stateless per-element code g; the real code is not gated *)
Definition fork_cfg : cfg := fork_stage n false (fun l a => (g a, l)) cl icaps ocaps.
Let c := fork_cfg.
Hypothesis Hcl : NoDup cl.
Hypothesis Hsimple : forall a, Forall simple_act (g a).

Lemma fork_wf : wf_cfg c.
Proof.
  constructor; simpl; auto; try discriminate.
  - intros w l a Hw x k v _ _. left. reflexivity.
  - intros w l Hw x k v [].
Qed.
Lemma fork_simple : simple_cfg c.
Proof. constructor; simpl; auto. intros. constructor. Qed.

(* SAFETY, any schedule, cancelled or not: each element handed over is taken by at most one worker;
   what is on output k (delivered, buffered, in a worker's hands or dropped on cancel) is a
   permutation of the image of what the workers took: nothing lost, duplicated or invented *)
Theorem fork_safe s k :
  reachable c s ->
  Permutation (concat (map (fun w => wtaken (ws s w)) (seq 0 n)) ++ map snd (cbuf (ins s 0))) (sent s 0) /\
  Permutation
    (delivered s k ++ map snd (cbuf (outs s k)) ++
     concat (map (fun w => pend k (wc (ws s w)) ++ wdropped (ws s w) k) (seq 0 n)))
    (img g k (concat (map (fun w => wtaken (ws s w)) (seq 0 n)))).
Proof.
  intros Hr. split.
  - apply (fork_taken c); auto.
  - apply (fork_stream c g (fun _ _ _ => eq_refl) (fun _ _ => eq_refl)); auto.
Qed.

(* nothing is ever sent on a closed channel / closed twice; outputs close only after every worker returned *)
Theorem fork_nopanic s : reachable c s -> panicked s = false.
Proof. apply nopanic. apply fork_wf. Qed.
Theorem fork_closed_after_all_done s k :
  reachable c s -> cclosed (outs s k) = true -> forall w, (w < n)%nat -> wc (ws s w) = WDone.
Proof. intros Hr Hk. apply (closed_after_done c fork_wf s k Hr Hk). Qed.

(* COMPLETION: exactly the multiset of the list image; every element processed exactly once *)
Hypothesis Hn : (1 <= n)%nat.
Hypothesis Hnostop : forall a, has_stop (g a) = false.

Lemma fork_stopped w l xs : stopped c w l xs = false.
Proof. revert l. induction xs as [|x xs IH]; intros l; simpl; auto. rewrite Hnostop. simpl. apply IH. Qed.

Theorem fork_complete_perm s :
  reachable c s -> cancelled s = false -> quiescent c s -> no_receive c s -> cclosed (ins s 0) = true ->
  (forall k, Permutation (delivered s k) (img g k (sent s 0))) /\
  Permutation (concat (map (fun w => wtaken (ws s w)) (seq 0 n))) (sent s 0) /\
  (forall w, (w < n)%nat -> wc (ws s w) = WDone) /\
  (forall k, In k cl -> cclosed (outs s k) = true).
Proof.
  intros Hr Hcn Hq Hnr Hin.
  destruct (fork_complete c g (fun _ => eq_refl) (fun _ _ _ => eq_refl) (fun _ _ => eq_refl) fork_wf fork_simple eq_refl
              s Hr Hcn Hq Hnr Hin) as (Hd & Hc & HP).
  assert (Hbuf : cbuf (ins s 0) = []).
  { pose proof (Kinv_reachable c s Hr 0%nat) as K.
    destruct (k_done c s 0%nat K Hcn (Hd 0%nat ltac:(simpl; lia))) as [He|[Hs|[_ Hp]]].
    - apply (k_input c s 0%nat K He 0%nat eq_refl).
    - rewrite fork_stopped in Hs. discriminate.
    - simpl in Hp. discriminate. }
  pose proof (fork_taken c (fun _ => eq_refl) s Hr) as HT. rewrite Hbuf in HT. simpl in HT. rewrite app_nil_r in HT.
  repeat split; auto.
  intros k. eapply Permutation_trans; [apply HP|]. unfold img. apply Permutation_flat_map. exact HT.
Qed.
End ForkStage.

Section JoinStage.
Variables (n : nat) (icaps ocaps : list nat).
Let c := join_stage n icaps ocaps.

Lemma join_wf : wf_cfg c.
Proof.
  constructor; simpl; auto; try discriminate.
  - intros _. repeat constructor. simpl. tauto.
  - intros w l a Hw x k v _ _. left. reflexivity.
  - intros w l Hw x k v [].
Qed.
Lemma join_simple : simple_cfg c.
Proof. constructor; simpl; auto; intros; repeat constructor. Qed.

Theorem join_safe s :
  reachable c s ->
  panicked s = false /\
  (forall (t : nat) (v : val), In (t, v) (rcvd s 0) -> (t < n)%nat) /\
  (forall i, prefix (mine i (rcvd s 0)) (sent s i)) /\
  Permutation (delivered s 0) (concat (map (fun i => mine i (rcvd s 0)) (seq 0 n))).
Proof.
  intros Hr. split; [apply (nopanic c join_wf s Hr)|].
  destruct (join_interleaving c (fun _ => eq_refl) (fun _ _ _ => eq_refl) (fun _ _ => eq_refl) s Hr) as (_ & A & B & C).
  auto.
Qed.

Theorem join_closes_only_after_inputs s :
  reachable c s -> cancelled s = false -> cclosed (outs s 0) = true ->
  forall i, (i < n)%nat -> cclosed (ins s i) = true /\ cbuf (ins s i) = [] /\ wtaken (ws s i) = sent s i.
Proof.
  intros Hr Hcn Hcl.
  apply (join_close_only_after c (fun _ => eq_refl) (fun _ _ _ => eq_refl) (fun _ => eq_refl)
           join_wf eq_refl s Hr Hcn); simpl; auto.
Qed.

Theorem join_completes s :
  reachable c s -> cancelled s = false -> quiescent c s -> no_receive c s ->
  (forall i, (i < n)%nat -> cclosed (ins s i) = true) ->
  (forall i, (i < n)%nat -> mine i (rcvd s 0) = sent s i) /\
  Permutation (delivered s 0) (concat (map (fun i => sent s i) (seq 0 n))) /\
  cclosed (outs s 0) = true /\
  (forall w, (w < n)%nat -> wc (ws s w) = WDone).
Proof.
  intros Hr Hcn Hq Hnr Hin.
  destruct (join_complete c (fun _ => eq_refl) (fun _ _ _ => eq_refl) (fun _ _ => eq_refl) (fun _ => eq_refl)
              join_wf join_simple eq_refl s Hr Hcn Hq Hnr Hin) as (A & B & C & D).
  repeat split; auto. apply C. simpl. auto.
Qed.

(* zero inputs: the output closes without any input event *)
Theorem join_zero_closes :
  n = 0%nat -> exists s, exec c [ECloser] = Some s /\ cclosed (outs s 0) = true.
Proof. intros ->. eexists. split; [reflexivity|]. reflexivity. Qed.
End JoinStage.

(* ---------- the fork stages of pipe/fork/fork.go as instances of fork_cfg ---------- *)
From Golem Require Import Pipe.PoolStateless Pipe.PoolStages.

Lemma fork_map_is (f : Z -> res) (try : bool) n icaps ocaps :
  fork_stage n false (plan_map f try) [0%nat; 1%nat] icaps ocaps = fork_cfg n (map_code f try) [0%nat; 1%nat] icaps ocaps.
Proof. reflexivity. Qed.
Lemma fork_filter_is (p : Z -> bool) n icaps ocaps :
  fork_stage n false (plan_filter p) [0%nat] icaps ocaps = fork_cfg n (filter_code p) [0%nat] icaps ocaps.
Proof. reflexivity. Qed.
Lemma fork_partition_is (p : Z -> bool) n icaps ocaps :
  fork_stage n false (plan_partition p) [0%nat; 1%nat] icaps ocaps = fork_cfg n (partition_code p) [0%nat; 1%nat] icaps ocaps.
Proof. reflexivity. Qed.
Lemma fork_visit_is n icaps ocaps :
  fork_stage n false plan_poll [0%nat] icaps ocaps = fork_cfg n visit_code [0%nat] icaps ocaps.
Proof. reflexivity. Qed.

(* images of the Try-mode / non-failing codes (no `return` in them) *)
Lemma img_map_try f k xs :
  img (map_code f true) k xs = match k with 0%nat => ok_vals f xs | 1%nat => err_vals f xs | _ => [] end.
Proof.
  unfold img, ok_vals, err_vals. destruct k as [|[|k]]; try (apply flat_map_ext; intros a; unfold map_code, catch; destruct (f a); reflexivity).
  induction xs as [|x xs IH]; simpl; auto. rewrite IH. unfold map_code, catch. destruct (f x); reflexivity.
Qed.
Lemma map_try_nostop f a : has_stop (map_code f true a) = false.
Proof. unfold map_code, catch. destruct (f a); reflexivity. Qed.
Lemma map_try_simple f a : Forall simple_act (map_code f true a).
Proof. unfold map_code, catch. destruct (f a); repeat constructor. Qed.
Lemma img_filter p xs : img (filter_code p) 0 xs = filter p xs.
Proof. unfold img. induction xs as [|x xs IH]; simpl; auto. unfold filter_code at 1. destruct (p x); simpl; now rewrite IH. Qed.

(* fork.Map in Try mode (or with a function that never fails): exactly the multiset of results and of errors *)
Theorem fork_map_try_complete (f : Z -> res) n icaps ocaps s :
  let c := fork_stage n false (plan_map f true) [0%nat; 1%nat] icaps ocaps in
  (1 <= n)%nat ->
  reachable c s -> cancelled s = false -> quiescent c s -> no_receive c s -> cclosed (ins s 0) = true ->
  Permutation (delivered s 0) (ok_vals f (sent s 0)) /\
  Permutation (delivered s 1) (err_vals f (sent s 0)) /\
  Permutation (concat (map (fun w => wtaken (ws s w)) (seq 0 n))) (sent s 0) /\
  cclosed (outs s 0) = true /\ cclosed (outs s 1) = true.
Proof.
  intros c Hn Hr Hcn Hq Hnr Hin. unfold c in *. rewrite fork_map_is in *.
  assert (Hnd : NoDup [0%nat; 1%nat]) by (repeat constructor; simpl; intuition discriminate).
  destruct (fork_complete_perm n (map_code f true) [0%nat; 1%nat] icaps ocaps Hnd (map_try_simple f) Hn (map_try_nostop f)
              s Hr Hcn Hq Hnr Hin) as (A & B & C & D).
  pose proof (A 0%nat) as A0. pose proof (A 1%nat) as A1. rewrite img_map_try in A0, A1.
  repeat split; auto; apply D; simpl; auto.
Qed.
