(* How and when a worker leaves its loop: invariants that tie a worker's control state to the
   `return` statements (AStop) in the plans of the elements it took, to the end of its input,
   and to cancellation.  Used for Take / TakeWhile / fail-fast and for completeness at the end. *)
From Coq Require Import List ZArith NArith Bool Arith PeanoNat Lia.
From Golem Require Import Pipe.Pool Pipe.PoolEffects Pipe.PoolSteps Pipe.PoolInv.
Import ListNotations.

Section Stop.
Variable c : cfg.

(* did some element of xs have a plan that returns ? *)
Fixpoint stopped (w : nat) (l : Z) (xs : list val) : bool :=
  match xs with
  | [] => false
  | x :: r => let '(acts, l') := plan c w l x in has_stop acts || stopped w l' r
  end.

Lemma stopped_app w l xs ys :
  stopped w l (xs ++ ys) = stopped w l xs || stopped w (lafter c w l xs) ys.
Proof.
  revert l. induction xs as [|x xs IH]; intros l; simpl; [reflexivity|].
  destruct (plan c w l x) as [acts l'] eqn:E. simpl. rewrite IH, orb_assoc. reflexivity.
Qed.

Lemma stopped_snoc w l xs a :
  stopped w l (xs ++ [a]) = stopped w l xs || has_stop (fst (plan c w (lafter c w l xs) a)).
Proof.
  rewrite stopped_app. simpl. destruct (plan c w (lafter c w l xs) a); simpl. now rewrite orb_false_r.
Qed.

Definition in_plan (ctl : wctl) : bool :=
  match ctl with WCall _ _ | WRun false _ | WSleep _ _ false _ => true | _ => false end.

Record kinv (s : state) (w : nat) : Prop := mkK {
  k_recv : wc (ws s w) = WRecv -> stopped w (l0 c w) (wtaken (ws s w)) = false;
  k_eof : weof (ws s w) = true -> stopped w (l0 c w) (wtaken (ws s w)) = false;
  k_plan : in_plan (wc (ws s w)) = true ->
           (wtaken (ws s w) = [] /\ pre c w (l0 c w) = false /\ todo_of (wc (ws s w)) = [AStop]) \/
           (exists xs a, wtaken (ws s w) = xs ++ [a] /\ stopped w (l0 c w) xs = false /\
                         has_stop (todo_of (wc (ws s w))) = has_stop (fst (plan c w (lafter c w (l0 c w) xs) a)));
  k_before : stopped w (l0 c w) (removelast (wtaken (ws s w))) = false;
  k_done : cancelled s = false -> wc (ws s w) = WDone ->
           weof (ws s w) = true \/ stopped w (l0 c w) (wtaken (ws s w)) = true \/
           (wtaken (ws s w) = [] /\ pre c w (l0 c w) = false);
  k_dropped : cancelled s = false -> forall k, wdropped (ws s w) k = [];
  k_weof : weof (ws s w) = true -> eof_of (wc (ws s w)) = true \/ wc (ws s w) = WDone;
  k_eofrun : eof_of (wc (ws s w)) = true -> weof (ws s w) = true;
  k_input : weof (ws s w) = true -> forall i, src c w = SIn i -> cbuf (ins s i) = [] /\ cclosed (ins s i) = true;
  k_local : wl (ws s w) = lafter c w (l0 c w) (wtaken (ws s w))
}.

Definition Kinv (s : state) : Prop := forall w, kinv s w.

Lemma Kinv_init : Kinv (init c).
Proof.
  intros w. unfold init, init_worker. constructor; simpl; auto; try discriminate.
  - destruct (pre c w (l0 c w)) eqn:Ep; simpl; intros H; [discriminate|left; auto].
  - destruct (pre c w (l0 c w)); simpl; discriminate.
  - destruct (pre c w (l0 c w)); simpl; discriminate.
Qed.

Lemma removelast_snoc {A} (l : list A) a : removelast (l ++ [a]) = l.
Proof. apply removelast_last. Qed.

(* the worker's record is unchanged; inputs it has seen the end of are unchanged; cancel only grows *)
Lemma kinv_frame s s' w :
  ws s' w = ws s w ->
  (cancelled s' = cancelled s \/ cancelled s' = true) ->
  (weof (ws s w) = true -> forall i, src c w = SIn i -> cbuf (ins s' i) = cbuf (ins s i) /\ cclosed (ins s' i) = cclosed (ins s i)) ->
  kinv s w -> kinv s' w.
Proof.
  intros Hw Hc Hi [K1 K2 K3 K4 K5 K6 K7 K8 K9 K10].
  constructor; rewrite ?Hw; auto.
  - intros Hcn. apply K5. destruct Hc as [Hc|Hc]; congruence.
  - intros Hcn. apply K6. destruct Hc as [Hc|Hc]; congruence.
  - intros He i Hs. destruct (Hi He i Hs) as [-> ->]. auto.
Qed.

Lemma has_stop_skip h rest : h <> AStop -> has_stop (h :: rest) = has_stop rest.
Proof. destruct h; simpl; auto; congruence. Qed.
Lemma skippable_not_stop h : skippable h -> h <> AStop.
Proof. intros [->|[[x ->]|[[d ->]|[d ->]]]]; discriminate. Qed.
Lemma sends_not_stop a k v : sends_on a k v -> a <> AStop.
Proof. intros [->| ->]; discriminate. Qed.

(* worker w moves within the plan of its current element: same taken, eof flags, dropped; the
   remaining statements lost a head that is not a return *)
Lemma kinv_advance s w ctl ctl' :
  wc (ws s w) = ctl ->
  (exists h, todo_of ctl = h :: todo_of ctl' /\ h <> AStop) \/ todo_of ctl' = todo_of ctl ->
  in_plan ctl' = in_plan ctl -> eof_of ctl' = eof_of ctl ->
  ctl <> WRecv -> ctl' <> WRecv -> ctl <> WDone -> ctl' <> WDone ->
  kinv s w ->
  forall s', ws s' w = with_ctl (ws s w) ctl' -> cancelled s' = cancelled s -> ins s' = ins s ->
  kinv s' w.
Proof.
  intros Hc Htodo Hip Heof N1 N2 N3 N4 [K1 K2 K3 K4 K5 K6 K7 K8 K9 K10] s' Hw Hcn Hins.
  constructor; rewrite ?Hw, ?Hcn, ?Hins; simpl; auto; try congruence.
  - rewrite Hip, <- Hc. intros Hp. destruct (K3 Hp) as [(A & B & C)|(xs & a & A & B & C)].
    + rewrite Hc in C. destruct Htodo as [(h & Hh & Hns)|Hh].
      * exfalso. rewrite C in Hh. inversion Hh; subst. congruence.
      * left. repeat split; auto. congruence.
    + right. exists xs, a. repeat split; auto. rewrite <- C, Hc.
      destruct Htodo as [(h & Hh & Hns)|Hh]; [rewrite Hh; symmetry; apply has_stop_skip; auto|now rewrite Hh].
  - intros He. destruct (K7 He) as [D|D]; [left; congruence|congruence].
  - rewrite Heof, <- Hc. auto.
Qed.


Lemma close_all_ins s ks : ins (close_all s ks) = ins s.
Proof. apply (close_all_frame s ks). Qed.
Lemma close_all_cancelled s ks : cancelled (close_all s ks) = cancelled s.
Proof. apply (close_all_frame s ks). Qed.
Lemma close_all_ws s ks : ws (close_all s ks) = ws s.
Proof. apply (close_all_frame s ks). Qed.

Lemma kinv_take s w a :
  wc (ws s w) = WRecv -> kinv s w ->
  forall s', ws s' w = take c s w a -> cancelled s' = cancelled s ->
  kinv s' w.
Proof.
  intros Hc [K1 K2 K3 K4 K5 K6 K7 K8 K9 K10] s' Hw Hcn.
  destruct (take_fields c s w a) as (T1 & T2 & T3 & T4 & T5 & T6 & T7).
  assert (Hweof : weof (ws s w) = false).
  { destruct (weof (ws s w)) eqn:E; auto. destruct (K7 eq_refl) as [D|D]; rewrite Hc in D; discriminate. }
  assert (Hctl : wc (take c s w a) <> WRecv /\ in_plan (wc (take c s w a)) = true /\
                 todo_of (wc (take c s w a)) = fst (plan c w (wl (ws s w)) a)).
  { unfold take. destruct (plan c w (wl (ws s w)) a) as [acts l']. destruct (gated c); simpl; repeat split; auto; discriminate. }
  destruct Hctl as (Hnr & Hip & Htodo).
  constructor; rewrite ?Hw, ?Hcn, ?T1, ?T2, ?T3; auto; try congruence.
  - intros _. right. exists (wtaken (ws s w)), a. repeat split; auto. rewrite Htodo, K10. reflexivity.
  - rewrite removelast_snoc. auto.
  - rewrite T4, lafter_app, <- K10. reflexivity.
Qed.


Lemma kinv_other s s' w :
  ws s' w = ws s w -> (cancelled s' = cancelled s \/ cancelled s' = true) -> ins s' = ins s ->
  kinv s w -> kinv s' w.
Proof. intros Hw Hc Hi. apply kinv_frame; auto. intros _ i _. rewrite Hi. auto. Qed.

Lemma Kinv_weffect s w s' : Kinv s -> weffect c s w s' -> Kinv s'.
Proof.
  intros HK He w'. specialize (HK w') as K.
  destruct He as [i a t rest Hsrc Hc Hb | Hsrc Hc | i Hsrc Hc Hb Hcl | ctl' Hcn Hdue Hsl Hsls
                 | eof a k0 v rest Hc Hs Hcl | eof k0 t r rest Hc Hb | dropped Hp Hnd Hnr Hnc Hwhy | eof a k0 v rest Hc Hs Hcl].
  - (* take from input i *)
    destruct (Nat.eq_dec w' w) as [->|Hw].
    + eapply kinv_take; eauto; simpl; upd_simpl; reflexivity.
    + apply kinv_frame with s; simpl; upd_simpl; auto.
      intros He i' Hs'. destruct (Nat.eq_dec i' i) as [->|Hi]; upd_simpl; auto.
      (* w' has seen the end of input i: it is empty, nothing can be taken from it *)
      exfalso. destruct (k_input s w' K He i Hs') as [E _]. rewrite E in Hb. discriminate.
  - destruct (Nat.eq_dec w' w) as [->|Hw].
    + eapply kinv_take; eauto; simpl; upd_simpl; reflexivity.
    + apply kinv_other with s; simpl; upd_simpl; auto.
  - (* end of input *)
    destruct (Nat.eq_dec w' w) as [->|Hw].
    + destruct K as [K1 K2 K3 K4 K5 K6 K7 K8 K9 K10].
      constructor; simpl; upd_simpl; simpl; auto; try discriminate.
      * intros _ i' Hs'. assert (i' = i) by congruence. subst. auto.
    + apply kinv_other with s; simpl; upd_simpl; auto.
  - (* silent control change *)
    destruct (Nat.eq_dec w' w) as [->|Hw]; [|apply kinv_other with s; simpl; upd_simpl; auto].
    inversion Hcn as [E1 E2|eof h rest Hsk E1 E2|eof h rest u sel Hsk E1 E2|u sel eof rest E1 E2]; subst ctl'; symmetry in E1; rename E1 into Hc.
    + (* back to the top of the loop: the plan of the last element is exhausted without a return *)
      destruct K as [K1 K2 K3 K4 K5 K6 K7 K8 K9 K10].
      constructor; simpl; upd_simpl; simpl; auto; try discriminate; try (rewrite Hc in *; simpl in *; auto; fail).
      * intros _. rewrite Hc in K3. destruct (K3 eq_refl) as [(A & B & C)|(xs & a & A & B & C)]; [discriminate|].
        rewrite A, stopped_snoc, B, <- C. reflexivity.
      * intros He. destruct (K7 He) as [D|D]; rewrite Hc in D; discriminate.
    + eapply (kinv_advance s w _ (WRun eof rest) Hc); simpl; auto; try discriminate; upd_simpl; auto.
      left. exists h. split; auto. apply skippable_not_stop; auto.
    + eapply (kinv_advance s w _ (WSleep u sel eof rest) Hc); simpl; auto; try discriminate; upd_simpl; auto.
      left. exists h. split; auto. apply skippable_not_stop. apply sleepy_skippable. auto.
    + eapply (kinv_advance s w _ (WRun eof rest) Hc); simpl; auto; try discriminate; upd_simpl; auto.
  - (* push *)
    destruct (Nat.eq_dec w' w) as [->|Hw]; [|apply kinv_other with s; simpl; upd_simpl; auto].
    eapply (kinv_advance s w _ (WRun eof rest) Hc); simpl; auto; try discriminate; upd_simpl; auto.
    left. exists a. split; auto. eapply sends_not_stop; eauto.
  - (* token *)
    destruct (Nat.eq_dec w' w) as [->|Hw]; [|apply kinv_other with s; simpl; upd_simpl; auto].
    eapply (kinv_advance s w _ (WRun eof rest) Hc); simpl; auto; try discriminate; upd_simpl; auto.
    left. exists (ATok k0). split; auto. discriminate.
  - (* finish *)
    unfold finish. set (x' := mkW _ WDone _ _ _). set (s1 := set_w s w x').
    assert (K1' : kinv s1 w').
    { destruct (Nat.eq_dec w' w) as [->|Hw]; [|apply kinv_other with s; unfold s1; simpl; upd_simpl; auto].
      destruct K as [K1 K2 K3 K4 K5 K6 K7 K8 K9 K10].
      constructor; unfold s1, x'; simpl; upd_simpl; simpl; auto; try discriminate.
      - intros Hcn _. destruct Hwhy as [Hy|[Hy|(eof & rest & Hy & Hd)]]; [congruence| |].
        + left. apply K8. rewrite Hy. reflexivity.
        + destruct eof.
          * left. apply K8. rewrite Hy. reflexivity.
          * rewrite Hy in K3. destruct (K3 eq_refl) as [(A & B & C)|(xs & a & A & B & C)]; [auto|].
            right. left. rewrite A, stopped_snoc, B, <- C. reflexivity.
      - intros Hcn k. rewrite (K6 Hcn). simpl. rewrite <- Hp.
        destruct Hwhy as [Hy|[Hy|(eof & rest & Hy & Hd)]]; [congruence|rewrite Hy; reflexivity|rewrite Hy; reflexivity]. }
    destruct (closer c); [exact K1'|].
    apply kinv_other with s1; auto using close_all_ins, close_all_cancelled.
    rewrite close_all_ws. reflexivity.
  - apply kinv_other with s; auto.
Qed.

Theorem Kinv_step s e s' : Kinv s -> step c s e = Some s' -> Kinv s'.
Proof.
  intros HK Hs. destruct (step_effect c s e s' Hs) as [_ He].
  destruct He as [i x Hi Hcl | i Hi Hcl | k t v rest Hb | k v w eof a rest Hb Hcap Hcl Hw Hc Hs0 | | | w s' Hw He
                 | w a todo Hw Hc | Hcl Had Hcd | t Ht].
  - (* a send completes on input i: not an input whose end somebody has seen (it is closed) *)
    intros w'. apply kinv_frame with s; auto. simpl. intros He i' Hs'.
    destruct (Nat.eq_dec i' i) as [->|Hne]; upd_simpl; auto.
    exfalso. destruct (k_input s w' (HK w') He i Hs') as [_ E]. congruence.
  - intros w'. apply kinv_frame with s; auto. simpl. intros He i' Hs'.
    destruct (Nat.eq_dec i' i) as [->|Hne]; upd_simpl; auto.
    exfalso. destruct (k_input s w' (HK w') He i Hs') as [_ E]. congruence.
  - intros w'. apply kinv_other with s; auto.
  - (* rendezvous *)
    intros w'. destruct (Nat.eq_dec w' w) as [->|Hne]; [|apply kinv_other with s; simpl; upd_simpl; auto].
    eapply (kinv_advance s w _ (WRun eof rest) Hc); simpl; auto; try discriminate; upd_simpl; auto.
    left. exists a. split; auto. eapply sends_not_stop; eauto.
  - exact HK.
  - intros w'. apply kinv_other with s; simpl; auto.
  - eapply Kinv_weffect; eauto.
  - intros w'. destruct (Nat.eq_dec w' w) as [->|Hne]; [|apply kinv_other with s; simpl; upd_simpl; auto].
    eapply (kinv_advance s w _ (WRun false todo) Hc); simpl; auto; try discriminate; upd_simpl; auto.
  - intros w'. simpl. apply kinv_other with s; simpl; auto using close_all_ins, close_all_cancelled.
    rewrite close_all_ws. reflexivity.
  - intros w'. apply kinv_other with s; auto.
Qed.

Theorem Kinv_reachable s : reachable c s -> Kinv s.
Proof. apply reachable_inv; [apply Kinv_init|apply Kinv_step]. Qed.


(* a goroutine that returns before its loop never takes anything *)
Definition prefalse (s : state) (w : nat) : Prop :=
  pre c w (l0 c w) = false -> wtaken (ws s w) = [] /\ weof (ws s w) = false /\
                               (wc (ws s w) = WRun false [AStop] \/ wc (ws s w) = WDone).

Lemma prefalse_same s s' w : ws s' w = ws s w -> prefalse s w -> prefalse s' w.
Proof. unfold prefalse. intros ->. auto. Qed.

Lemma prefalse_close s ks w : prefalse s w -> prefalse (close_all s ks) w.
Proof. apply prefalse_same. now rewrite close_all_ws. Qed.

Lemma prefalse_weffect s w s' : (forall w', prefalse s w') -> weffect c s w s' -> forall w', prefalse s' w'.
Proof.
  intros HP He w'. specialize (HP w') as P.
  destruct (Nat.eq_dec w' w) as [->|Hne].
  2:{ destruct He; try (apply prefalse_same with s; simpl; upd_simpl; auto; fail).
      unfold finish. destruct (closer c); [|apply prefalse_close]; apply prefalse_same with s; simpl; upd_simpl; auto. }
  intros Hpre. destruct (P Hpre) as (A & B & C).
  destruct He as [i a t rest Hsrc Hc Hb | Hsrc Hc | i Hsrc Hc Hb Hcl | ctl' Hcn Hdue Hsl Hsls
                 | eof a k0 v rest Hc Hs Hcl | eof k0 t r rest Hc Hb | dropped Hp Hnd Hnr Hnc Hwhy | eof a k0 v rest Hc Hs Hcl];
    try (exfalso; destruct C as [C|C]; congruence).
  - exfalso. destruct C as [C|C]; rewrite C in Hcn; inversion Hcn as [|? ? ? Hsk|? ? ? ? ? Hsk|]; subst.
    + apply skippable_not_stop in Hsk. congruence.
    + apply sleepy_skippable, skippable_not_stop in Hsk. congruence.
  - exfalso. destruct C as [C|C]; rewrite C in Hc; inversion Hc; subst. apply sends_not_stop in Hs. congruence.
  - unfold finish. destruct (closer c); [|rewrite close_all_ws]; simpl; upd_simpl; simpl; auto.
  - exfalso. destruct C as [C|C]; rewrite C in Hc; inversion Hc; subst. apply sends_not_stop in Hs. congruence.
Qed.

Theorem prefalse_reachable s : reachable c s -> forall w, prefalse s w.
Proof.
  revert s. apply (reachable_inv c (fun s => forall w, prefalse s w)).
  - intros w Hpre. unfold init, init_worker. simpl. rewrite Hpre. auto.
  - intros s0 e s' HP Hs. destruct (step_effect c s0 e s' Hs) as [_ He].
    destruct He as [i x Hi Hcl | i Hi Hcl | k t v rest Hb | k v w eof a rest Hb Hcap Hcl Hw Hc Hs0 | | | w s'' Hw He
                   | w a todo Hw Hc | Hcl Had Hcd | t Ht];
      try (intros w'; apply prefalse_same with s0; auto; fail).
    + intros w' Hpre. destruct (Nat.eq_dec w' w) as [->|Hne]; [|simpl; upd_simpl; apply HP; auto].
      exfalso. destruct (HP w Hpre) as (_ & _ & [C|C]); rewrite C in Hc; inversion Hc; subst.
      apply sends_not_stop in Hs0. congruence.
    + eapply prefalse_weffect; eauto.
    + intros w' Hpre. destruct (Nat.eq_dec w' w) as [->|Hne]; [|simpl; upd_simpl; apply HP; auto].
      exfalso. destruct (HP w Hpre) as (_ & _ & [C|C]); congruence.
    + intros w'. apply prefalse_same with (close_all s0 (closes c)); auto. apply prefalse_close. auto.
Qed.


(* a generator never sees an end of input *)
Definition noeof (s : state) : Prop := forall w, src c w = SGen -> weof (ws s w) = false.

Theorem noeof_reachable s : reachable c s -> noeof s.
Proof.
  apply reachable_inv; [intros w _; reflexivity|].
  intros s0 e s' HI Hs. destruct (step_effect c s0 e s' Hs) as [_ He].
  assert (Hsame : (forall w, weof (ws s' w) = weof (ws s0 w)) -> noeof s').
  { intros E w Hg. rewrite E. apply HI; auto. }
  destruct He as [i x Hi Hcl | i Hi Hcl | k t v rest Hb | k v w eof a rest Hb Hcap Hcl Hw Hc Hs0 | | | w s'' Hw He
                 | w a todo Hw Hc | Hcl Had Hcd | t Ht]; try (apply Hsame; reflexivity).
  - apply Hsame. intros w'. simpl. destruct (Nat.eq_dec w' w) as [->|Hne]; upd_simpl; auto.
  - destruct He as [i a t rest Hsrc Hc Hb | Hsrc Hc | i Hsrc Hc Hb Hcl | ctl' Hcn Hdue Hsl Hsls
                   | eof a k0 v rest Hc Hs0 Hcl | eof k0 t r rest Hc Hb | dropped Hp Hnd Hnr Hnc Hwhy | eof a k0 v rest Hc Hs0 Hcl].
    + apply Hsame. intros w'. simpl. destruct (Nat.eq_dec w' w) as [->|Hne]; upd_simpl; auto.
      destruct (take_fields c s0 w a) as (_ & T2 & _). exact T2.
    + apply Hsame. intros w'. simpl. destruct (Nat.eq_dec w' w) as [->|Hne]; upd_simpl; auto.
      destruct (take_fields c s0 w 0%Z) as (_ & T2 & _). exact T2.
    + intros w' Hg. simpl. destruct (Nat.eq_dec w' w) as [->|Hne]; upd_simpl; [congruence|apply HI; auto].
    + apply Hsame. intros w'. simpl. destruct (Nat.eq_dec w' w) as [->|Hne]; upd_simpl; auto.
    + apply Hsame. intros w'. simpl. destruct (Nat.eq_dec w' w) as [->|Hne]; upd_simpl; auto.
    + apply Hsame. intros w'. simpl. destruct (Nat.eq_dec w' w) as [->|Hne]; upd_simpl; auto.
    + apply Hsame. intros w'. unfold finish. destruct (closer c); [|rewrite close_all_ws]; simpl;
        destruct (Nat.eq_dec w' w) as [->|Hne]; upd_simpl; auto.
    + apply Hsame. reflexivity.
  - apply Hsame. intros w'. simpl. destruct (Nat.eq_dec w' w) as [->|Hne]; upd_simpl; auto.
  - apply Hsame. intros w'. simpl. now rewrite close_all_ws.
Qed.

End Stop.
