(* Emit is paced: its function is applied at most once per frequency tick, so the k-th result
   (value or error) is never available before k ticks have elapsed - for ANY way the clock
   advances (no maximal-progress assumption), any capacity, any consumer, any cancel point. *)
From Coq Require Import List ZArith NArith Bool Arith PeanoNat Lia.
From Golem Require Import Base.Lists Pipe.Pool Pipe.Stages Pipe.PoolEffects Pipe.PoolSteps Pipe.PoolInv
     Pipe.PoolSimple Pipe.PoolSeq Pipe.PoolStages Pipe.PoolGen.
Import ListNotations.
Open Scope nat_scope.

Definition nsends (l : list act) : nat := length (emits 0 l) + length (emits 1 l).
Definition no_sleep (a : act) : Prop := match a with ASleep _ | ASleepSel _ => False | _ => True end.

(* results made available so far on the value and the error channel (received or still buffered) *)
Definition avail (s : state) : nat :=
  length (rcvd s 0) + length (cbuf (outs s 0)) + length (rcvd s 1) + length (cbuf (outs s 1)).

Lemma nsends_sends a k v rest : sends_on a k v -> nsends (a :: rest) = (if Nat.ltb k 2 then 1 else 0) + nsends rest.
Proof.
  unfold nsends. intros [->| ->]; simpl; destruct k as [|[|k]]; simpl; lia.
Qed.
Lemma nsends_skip h rest : skippable h -> nsends (h :: rest) = nsends rest.
Proof. unfold nsends. intros H. now rewrite !(skippable_emits _ h rest H). Qed.

Section EmitTime.
Variables (freq : N) (f : Z -> res) (try : bool) (ocaps : list nat).
Let c := emit_cfg freq f try ocaps.

Definition tail_of (l : Z) : list act := match f l with Ok v => [ASend 0 v] | Err e => catch try e end.
Lemma tail_sends l : nsends (tail_of l) <= 1.
Proof. unfold tail_of, nsends, catch. destruct (f l); simpl; auto. destruct try; simpl; auto. Qed.
Lemma tail_nosleep l : Forall no_sleep (tail_of l).
Proof. unfold tail_of, catch. destruct (f l); [repeat constructor|]. destruct try; repeat constructor. Qed.

Definition J (s : state) : N := N.of_nat (length (wtaken (ws s 0))).
Definition A (s : state) : N := N.of_nat (avail s).

Inductive tinv (s : state) : Prop :=
| TI_recv : wc (ws s 0) = WRecv -> (A s <= J s)%N -> (J s * freq <= now s)%N -> tinv s
| TI_pre rest : wc (ws s 0) = WRun false (ASleep freq :: rest) -> nsends rest <= 1 -> Forall no_sleep rest ->
    (1 <= J s)%N -> (A s <= J s - 1)%N -> ((J s - 1) * freq <= now s)%N -> tinv s
| TI_sleep u rest : wc (ws s 0) = WSleep u false false rest -> nsends rest <= 1 -> Forall no_sleep rest ->
    (1 <= J s)%N -> (A s <= J s - 1)%N -> ((J s - 1) * freq <= now s)%N -> (J s * freq <= u)%N -> tinv s
| TI_post rest : wc (ws s 0) = WRun false rest -> Forall no_sleep rest ->
    (A s + N.of_nat (nsends rest) <= J s)%N -> (J s * freq <= now s)%N -> tinv s
| TI_done : wc (ws s 0) = WDone -> (A s * freq <= now s)%N -> tinv s.

Lemma tinv_bound s : tinv s -> (A s * freq <= now s)%N.
Proof.
  intros [Hc H1 H2|rest Hc _ _ H0 H1 H2|u rest Hc _ _ H0 H1 H2 _|rest Hc _ H1 H2|Hc H1]; auto.
  - eapply N.le_trans; [apply N.mul_le_mono_r; exact H1|exact H2].
  - eapply N.le_trans; [apply N.mul_le_mono_r; exact H1|exact H2].
  - eapply N.le_trans; [apply N.mul_le_mono_r; exact H1|exact H2].
  - eapply N.le_trans; [apply N.mul_le_mono_r|exact H2]. lia.
Qed.

Lemma avail_close_all s ks : avail (close_all s ks) = avail s.
Proof.
  destruct (close_all_frame s ks) as (_ & _ & _ & _ & _ & _ & _ & Hr & Hb & _). unfold avail. simpl in *.
  now rewrite Hr, !Hb.
Qed.

(* the same goroutine record, the same streams, a clock that did not go back *)
Lemma tinv_frame s s' :
  ws s' 0 = ws s 0 -> avail s' = avail s -> (now s <= now s')%N -> tinv s -> tinv s'.
Proof.
  intros Hw Ha Hn H. unfold J, A in *.
  destruct H as [Hc H1 H2|rest Hc S1 S2 H0 H1 H2|u rest Hc S1 S2 H0 H1 H2 H3|rest Hc S2 H1 H2|Hc H1]; unfold J, A in *.
  - apply TI_recv; unfold J, A; rewrite ?Hw, ?Ha; auto. lia.
  - eapply TI_pre; unfold J, A; rewrite ?Hw, ?Ha; eauto. lia.
  - eapply TI_sleep; unfold J, A; rewrite ?Hw, ?Ha; eauto. lia.
  - eapply TI_post; unfold J, A; rewrite ?Hw, ?Ha; eauto. lia.
  - apply TI_done; unfold J, A; rewrite ?Hw, ?Ha; auto. lia.
Qed.

Lemma len_upd_snoc {T} (g : nat -> list T) k x j :
  length (upd g k (g k ++ [x]) j) = length (g j) + (if Nat.eqb j k then 1 else 0).
Proof.
  unfold upd. destruct (Nat.eqb j k) eqn:E; [|lia]. apply Nat.eqb_eq in E. subst. rewrite app_length. simpl. lia.
Qed.

(* moving the head of a buffer to the received list does not change what is available *)
Lemma avail_move s k t r :
  cbuf (outs s k) = t :: r ->
  length (upd (rcvd s) k (rcvd s k ++ [t]) 0) + length (cbuf (upd (outs s) k (pop (outs s k)) 0)) +
  length (upd (rcvd s) k (rcvd s k ++ [t]) 1) + length (cbuf (upd (outs s) k (pop (outs s k)) 1)) = avail s.
Proof.
  intros Hb. unfold avail. rewrite !len_upd_snoc. unfold upd.
  destruct k as [|[|k]]; simpl; rewrite ?Hb; simpl; lia.
Qed.

Lemma emit_take s : wc (take c s 0 0%Z) = WRun false (ASleep freq :: tail_of (wl (ws s 0))) /\
                    wtaken (take c s 0 0%Z) = wtaken (ws s 0) ++ [0%Z].
Proof. unfold take. simpl. unfold plan_emit, tail_of. split; reflexivity. Qed.

Theorem tinv_step s e s' : tinv s -> step c s e = Some s' -> tinv s'.
Proof.
  intros HI Hs. destruct (step_effect c s e s' Hs) as [_ He].
  destruct He as [i x Hi Hcl | i Hi Hcl | k t v rest Hb | k v w eof a rest Hb Hcap Hcl Hw Hc Hs0 | | | w s' Hw He
                 | w a todo Hw Hc | Hcl Had Hcd | t Ht].
  - simpl in Hi. lia.
  - simpl in Hi. lia.
  - (* a consumer receives: buffered -> received *)
    apply tinv_frame with s; simpl; auto; [|lia]. unfold avail. simpl. apply (avail_move s k (t, v) rest Hb).
  - (* rendezvous *)
    assert (w = 0) by (simpl in Hw; lia). subst w.
    assert (Hav : avail (mkS (ins s) (outs s) (cancelled s) (upd (ws s) 0 (with_ctl (ws s 0) (WRun eof rest)))
                             (closer_done s) (panicked s) (now s) (sent s) (consumed s) (upd (rcvd s) k (rcvd s k ++ [(0, v)])))
                  = avail s + (if Nat.ltb k 2 then 1 else 0)).
    { unfold avail. simpl. rewrite !len_upd_snoc. destruct k as [|[|k]]; simpl; lia. }
    destruct HI as [Hc' H1 H2|rest' Hc' S1 S2 H0 H1 H2|u rest' Hc' S1 S2 H0 H1 H2 H3|rest' Hc' S2 H1 H2|Hc' H1]; try congruence.
    + rewrite Hc in Hc'. inversion Hc'; subst. destruct Hs0 as [Hx|Hx]; discriminate.
    + rewrite Hc in Hc'. inversion Hc'; subst. inversion S2; subst.
      eapply TI_post; unfold J, A; simpl; upd_simpl; simpl; eauto.
      rewrite Hav. rewrite (nsends_sends a k v rest Hs0) in H1. unfold J, A in *. lia.
  - exact HI.
  - apply tinv_frame with s; simpl; auto. lia.
  - assert (w = 0) by (simpl in Hw; lia). subst w.
    destruct He as [i a t rest Hsrc Hc Hb | Hsrc Hc | i Hsrc Hc Hb Hcl | ctl' Hcn Hdue Hsl Hsls
                   | eof a k0 v rest Hc Hs0 Hcl | eof k0 t r rest Hc Hb | dropped Hp Hnd Hnr Hnc Hwhy | eof a k0 v rest Hc Hs0 Hcl].
    + simpl in Hsrc. discriminate.
    + (* a new round starts *)
      destruct HI as [Hc' H1 H2|rest' Hc' S1 S2 H0 H1 H2|u rest' Hc' S1 S2 H0 H1 H2 H3|rest' Hc' S2 H1 H2|Hc' H1]; try congruence.
      destruct (emit_take s) as [T1 T2].
      eapply TI_pre; unfold J, A, avail in *; simpl; upd_simpl; rewrite ?T1, ?T2; eauto using tail_sends, tail_nosleep;
        rewrite ?app_length; simpl; try lia.
    + simpl in Hsrc. discriminate.
    + (* silent control change *)
      assert (Hav : avail (set_w s 0 (with_ctl (ws s 0) ctl')) = avail s) by reflexivity.
      destruct HI as [Hc' H1 H2|rest' Hc' S1 S2 H0 H1 H2|u rest' Hc' S1 S2 H0 H1 H2 H3|rest' Hc' S2 H1 H2|Hc' H1].
      * rewrite Hc' in Hcn. inversion Hcn.
      * (* going to sleep *)
        rewrite (Hsl false freq rest' Hc').
        eapply TI_sleep; unfold J, A in *; simpl; upd_simpl; simpl; rewrite ?Hav; eauto.
        replace (N.of_nat (length (wtaken (ws s 0))))%N with (N.of_nat (length (wtaken (ws s 0))) - 1 + 1)%N at 1 by lia.
        rewrite N.mul_add_distr_r. lia.
      * (* the timer fires: only when due *)
        rewrite Hc' in Hcn. inversion Hcn; subst.
        pose proof (Hdue u false false rest' Hc') as Hd.
        eapply TI_post; unfold J, A in *; simpl; upd_simpl; simpl; rewrite ?Hav; eauto; lia.
      * rewrite Hc' in Hcn. inversion Hcn as [E1 E2|eof h r Hsk E1 E2|eof h r u sel Hsk E1 E2|]; subst.
        -- apply TI_recv; unfold J, A in *; simpl; upd_simpl; simpl; rewrite ?Hav; auto. simpl in H1. lia.
        -- inversion S2; subst. eapply TI_post; unfold J, A in *; simpl; upd_simpl; simpl; rewrite ?Hav; eauto.
           rewrite (nsends_skip h r Hsk) in H1. exact H1.
        -- exfalso. inversion S2 as [|? ? Hh _]; subst. destruct Hsk as [[d ->]|[d ->]]; exact Hh.
      * rewrite Hc' in Hcn. inversion Hcn.
    + (* a send completes into the buffer *)
      assert (Hav : avail (set_w (set_out s k0 (push (outs s k0) (0, v))) 0 (with_ctl (ws s 0) (WRun eof rest)))
                    = avail s + (if Nat.ltb k0 2 then 1 else 0)).
      { unfold avail. simpl. unfold upd. destruct k0 as [|[|k0]]; simpl; rewrite ?app_length; simpl; lia. }
      destruct HI as [Hc' H1 H2|rest' Hc' S1 S2 H0 H1 H2|u rest' Hc' S1 S2 H0 H1 H2 H3|rest' Hc' S2 H1 H2|Hc' H1]; try congruence.
      * rewrite Hc in Hc'. inversion Hc'; subst. destruct Hs0 as [Hx|Hx]; discriminate.
      * rewrite Hc in Hc'. inversion Hc'; subst. inversion S2; subst.
        eapply TI_post; unfold J, A; simpl; upd_simpl; simpl; eauto.
        rewrite Hav. rewrite (nsends_sends a k0 v rest Hs0) in H1. unfold J, A in *. lia.
    + (* a token is taken: buffered -> received *)
      assert (Hav : avail (mkS (ins s) (upd (outs s) k0 (pop (outs s k0))) (cancelled s)
                               (upd (ws s) 0 (with_ctl (ws s 0) (WRun eof rest))) (closer_done s) (panicked s) (now s)
                               (sent s) (consumed s) (upd (rcvd s) k0 (rcvd s k0 ++ [t]))) = avail s).
      { unfold avail. simpl. apply (avail_move s k0 t r Hb). }
      destruct HI as [Hc' H1 H2|rest' Hc' S1 S2 H0 H1 H2|u rest' Hc' S1 S2 H0 H1 H2 H3|rest' Hc' S2 H1 H2|Hc' H1]; try congruence.
      rewrite Hc in Hc'. inversion Hc'; subst. inversion S2; subst.
        rewrite nsends_skip in H1 by (right; left; eauto).
        eapply TI_post; unfold J, A in *; simpl; upd_simpl; simpl; rewrite ?Hav; eauto.
    + (* the goroutine returns *)
      pose proof (tinv_bound s HI) as Hb.
      assert (Ef : finish c s 0 dropped =
                   close_all (set_w s 0 (mkW (wl (ws s 0)) WDone (wtaken (ws s 0)) (weof (ws s 0))
                                             (fun k => wdropped (ws s 0) k ++ emits k dropped))) [0; 1]) by reflexivity.
      rewrite Ef. apply TI_done.
      * rewrite close_all_ws'. simpl. upd_simpl. reflexivity.
      * unfold A. rewrite avail_close_all.
        destruct (close_all_frame (set_w s 0 (mkW (wl (ws s 0)) WDone (wtaken (ws s 0)) (weof (ws s 0))
                   (fun k => wdropped (ws s 0) k ++ emits k dropped))) [0; 1]) as (_ & _ & _ & _ & Hn & _).
        cbv zeta in Hn. rewrite Hn. exact Hb.
    + apply tinv_frame with s; simpl; auto. lia.
  - assert (w = 0) by (simpl in Hw; lia). subst w.
    destruct HI as [Hc' H1 H2|rest' Hc' S1 S2 H0 H1 H2|u rest' Hc' S1 S2 H0 H1 H2 H3|rest' Hc' S2 H1 H2|Hc' H1]; congruence.
  - simpl in Hcl. discriminate.
  - apply tinv_frame with s; simpl; auto. lia.
Qed.

Theorem tinv_reachable s : reachable c s -> tinv s.
Proof.
  apply reachable_inv; [|apply tinv_step].
  apply TI_recv; unfold J, A, avail; simpl; auto; lia.
Qed.

(* EMIT_NOT_EARLY: k results available => at least k * frequency virtual time has passed *)
Theorem emit_not_early s :
  reachable c s ->
  (N.of_nat (length (delivered s 0) + length (cbuf (outs s 0)) + length (delivered s 1) + length (cbuf (outs s 1))) * freq
   <= now s)%N.
Proof.
  intros Hr. pose proof (tinv_bound s (tinv_reachable s Hr)) as H. unfold A, avail in H.
  unfold delivered. rewrite !map_length. exact H.
Qed.

End EmitTime.
