(* Stages whose goroutines only send, poll and return (no gate, no timer, no token): their
   workers are never parked on a gate, a timer or a token. *)
From Coq Require Import List ZArith NArith Bool Arith PeanoNat Lia.
From Golem Require Import Pipe.Pool Pipe.PoolEffects Pipe.PoolSteps Pipe.PoolInv.
Import ListNotations.

Definition simple_act (a : act) : Prop :=
  match a with ASend _ _ | APlain _ _ | APoll | AStop => True | _ => False end.

Section Simple.
Variable c : cfg.

Record simple_cfg : Prop := mkSimple {
  sc_gate : gated c = false;
  sc_plan : forall w l a, Forall simple_act (fst (plan c w l a));
  sc_eof : forall w l, Forall simple_act (on_eof c w l)
}.
Hypothesis SC : simple_cfg.

Definition simple_ctl (ctl : wctl) : Prop :=
  match ctl with
  | WRecv | WDone => True
  | WRun _ todo => Forall simple_act todo
  | _ => False
  end.
Definition simple_state (s : state) : Prop := forall w, simple_ctl (wc (ws s w)).

Lemma simple_init : simple_state (init c).
Proof.
  intros w. unfold init, init_worker. simpl. destruct (pre c w (l0 c w)); simpl; auto.
  constructor; simpl; auto.
Qed.

Lemma simple_take s w a : simple_ctl (wc (take c s w a)).
Proof.
  unfold take. pose proof (sc_plan SC w (wl (ws s w)) a) as H.
  destruct (plan c w (wl (ws s w)) a) as [acts l']. rewrite (sc_gate SC). simpl. exact H.
Qed.

Lemma simple_other s s' w : (forall w', w' <> w -> ws s' w' = ws s w') -> simple_ctl (wc (ws s' w)) ->
  simple_state s -> simple_state s'.
Proof.
  intros Ho Hw HS w'. destruct (Nat.eq_dec w' w) as [->|Hne]; auto. rewrite Ho; auto.
Qed.

Lemma close_all_ws' s ks : ws (close_all s ks) = ws s.
Proof. apply (close_all_frame s ks). Qed.

Lemma simple_weffect s w s' : simple_state s -> weffect c s w s' -> simple_state s'.
Proof.
  intros HS He. pose proof (HS w) as Hw.
  destruct He as [i a t rest Hsrc Hc Hb | Hsrc Hc | i Hsrc Hc Hb Hcl | ctl' Hcn Hdue Hsl Hsls
                 | eof a k0 v rest Hc Hs Hcl | eof k0 t r rest Hc Hb | dropped Hp Hnd Hnr Hnc Hwhy | eof a k0 v rest Hc Hs Hcl].
  - apply simple_other with s w; simpl; intros; upd_simpl; auto. apply simple_take.
  - apply simple_other with s w; simpl; intros; upd_simpl; auto. apply simple_take.
  - apply simple_other with s w; simpl; intros; upd_simpl; auto. simpl. apply (sc_eof SC).
  - apply simple_other with s w; simpl; intros; upd_simpl; auto. simpl.
    inversion Hcn as [E1 E2|eof h rest Hsk E1 E2|eof h rest u sel Hsk E1 E2|u sel eof rest E1 E2]; subst ctl';
      rewrite <- E1 in Hw; simpl in Hw; simpl.
    + exact I.
    + inversion Hw; auto.
    + inversion Hw as [|? ? Hh _]; subst.
      destruct Hsk as [[d ->]|[d ->]]; simpl in Hh; contradiction.
    + contradiction.
  - apply simple_other with s w; simpl; intros; upd_simpl; auto. simpl.
    rewrite Hc in Hw. simpl in Hw. inversion Hw; auto.
  - exfalso. rewrite Hc in Hw. simpl in Hw. inversion Hw as [|? ? Hh _]. contradiction.
  - unfold finish. set (s1 := set_w s w _).
    assert (H1 : simple_state s1) by (apply simple_other with s w; unfold s1; simpl; intros; upd_simpl; simpl; auto).
    destruct (closer c); auto. intros w'. rewrite close_all_ws'. apply H1.
  - exact HS.
Qed.


Theorem simple_step s e s' : simple_state s -> step c s e = Some s' -> simple_state s'.
Proof.
  intros HS Hs. destruct (step_effect c s e s' Hs) as [_ He].
  destruct He as [i x Hi Hcl | i Hi Hcl | k t v rest Hb | k v w eof a rest Hb Hcap Hcl Hw Hc Hs0 | | | w s' Hw He
                 | w a todo Hw Hc | Hcl Had Hcd | t Ht]; try exact HS.
  - apply simple_other with s w; simpl; intros; upd_simpl; auto. simpl.
    pose proof (HS w) as H. rewrite Hc in H. simpl in H. inversion H; auto.
  - eapply simple_weffect; eauto.
  - exfalso. pose proof (HS w) as H. rewrite Hc in H. exact H.
  - intros w. simpl. rewrite close_all_ws'. apply HS.
Qed.

Theorem simple_reachable s : reachable c s -> simple_state s.
Proof. apply reachable_inv; [apply simple_init|apply simple_step]. Qed.

End Simple.
