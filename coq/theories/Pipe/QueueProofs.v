(* C08 layer 1 - the pointer-level queue of Queue.v refines a FIFO list, for EVERY choice sync.Pool may make. *)
From Coq Require Import List Arith ZArith Bool Lia.
From Golem Require Import Pipe.Queue.
Import ListNotations.


Lemma exists_last_or_nil {X} (l : list X) : l = [] \/ exists l' t, l = l' ++ [t].
Proof.
  destruct l as [|x l]; [left; reflexivity|right].
  destruct (@exists_last _ (x :: l)) as (l' & t & H); [discriminate|]. eauto.
Qed.

Lemma NoDup_app_snoc {X} (l : list X) v : NoDup l -> ~ In v l -> NoDup (l ++ [v]).
Proof.
  induction l as [|x l IH]; intros Hn Hv; cbn.
  - constructor; [intros []|constructor].
  - inversion Hn as [|? ? Hx Hl]; subst. constructor.
    + intros Hin. apply in_app_or in Hin. destruct Hin as [Hin|[<-|[]]]; [contradiction|].
      apply Hv. left. reflexivity.
    + apply IH; [exact Hl|]. intros Hin. apply Hv. right. exact Hin.
Qed.

(* ---------------------------------------------------------------------------------------------- *)
(* heap access                                                                                      *)
(* ---------------------------------------------------------------------------------------------- *)
Lemma hset_length h : forall i n, length (hset h i n) = length h.
Proof. induction h as [|x h IH]; intros [|i] n; cbn; auto. Qed.

Lemma hget_hset_eq h : forall i n, i < length h -> hget (hset h i n) i = n.
Proof.
  unfold hget. induction h as [|x h IH]; intros [|i] n Hi; cbn in *; try lia; auto.
  apply IH. lia.
Qed.

Lemma hget_hset_neq h : forall i j n, i <> j -> hget (hset h i n) j = hget h j.
Proof.
  unfold hget. induction h as [|x h IH]; intros [|i] [|j] n Hij; cbn; auto; try congruence.
Qed.

Lemma hget_app1 h n i : i < length h -> hget (h ++ [n]) i = hget h i.
Proof. intros Hi. unfold hget. apply app_nth1. exact Hi. Qed.

Lemma hget_app2 h n : hget (h ++ [n]) (length h) = n.
Proof. unfold hget. apply nth_middle. Qed.

(* ---------------------------------------------------------------------------------------------- *)
(* the invariant                                                                                    *)
(* ---------------------------------------------------------------------------------------------- *)
Local Arguments hget : simpl never.
Local Arguments hset : simpl never.
(* ---------------------------------------------------------------------------------------------- *)
(* [l] is the list of nodes met following [next] from [o] until nil *)
Fixpoint chain (h : list node) (o : option id) (l : list id) : Prop :=
  match l with
  | [] => o = None
  | i :: r => o = Some i /\ i < length h /\ chain h (next (hget h i)) r
  end.
Definition last_opt (l : list id) : option id := match l with [] => None | _ => Some (last l 0) end.
Definition vals (h : list node) (l : list id) : list Z := map (fun i => value (hget h i)) l.

Record wfq_with (q : queue) (l : list id) : Prop := mkwf {
  W_chain : chain (heap q) (qhead q) l;        (* the chain from head ends in nil (so tail.next = nil) ... *)
  W_nodup : NoDup l;                           (* ... and is acyclic *)
  W_tail : qtail q = last_opt l;               (* tail is its last node; tail = nil <-> head = nil *)
  W_disj : forall i, In i l -> ~ In i (pool q);    (* pooled nodes are not on the chain *)
  W_pool : NoDup (pool q);
  W_alloc : forall i, In i (pool q) -> i < length (heap q)
}.
Definition wfq (q : queue) : Prop := exists l, wfq_with q l.

Lemma chain_bound h : forall l o, chain h o l -> forall i, In i l -> i < length h.
Proof.
  induction l as [|j r IH]; intros o Hc i Hi; cbn in *; [contradiction|].
  destruct Hc as (_ & Hj & Hr). destruct Hi as [->|Hi]; [exact Hj|]. eapply IH; eauto.
Qed.

Lemma chain_len h l o : chain h o l -> NoDup l -> length l <= length h.
Proof.
  intros Hc Hn. rewrite <- (seq_length (length h) 0).
  apply NoDup_incl_length; [exact Hn|].
  intros i Hi. apply in_seq. pose proof (chain_bound h l o Hc i Hi). lia.
Qed.

Lemma walk_chain h : forall l fuel o, chain h o l -> length l <= fuel -> walk fuel h o = vals h l.
Proof.
  induction l as [|i r IH]; intros fuel o Hc Hf; cbn in *.
  - subst o. destruct fuel; reflexivity.
  - destruct Hc as (-> & Hi & Hr). destruct fuel as [|f]; [lia|]. cbn. f_equal. apply IH; [exact Hr|lia].
Qed.

Lemma absq_vals q l : wfq_with q l -> absq q = vals (heap q) l.
Proof.
  intros [Hc Hn _ _ _ _]. unfold absq. apply walk_chain; [exact Hc|]. eapply chain_len; eauto.
Qed.

(* the chain only depends on the nodes on it *)
Lemma chain_frame h h' : forall l o,
  chain h o l -> length h <= length h' -> (forall i, In i l -> hget h' i = hget h i) -> chain h' o l.
Proof.
  induction l as [|j r IH]; intros o Hc Hlen Hsame; cbn in *; [exact Hc|].
  destruct Hc as (Ho & Hj & Hr). split; [exact Ho|]. split; [lia|].
  rewrite (Hsame j (or_introl eq_refl)). apply IH; auto.
Qed.

Lemma vals_frame h h' l : (forall i, In i l -> value (hget h' i) = value (hget h i)) -> vals h' l = vals h l.
Proof. intros Hs. unfold vals. apply map_ext_in. exact Hs. Qed.

(* linking a node behind the last one *)
Lemma chain_snoc h v : forall l t o,
  chain h o (l ++ [t]) -> NoDup (l ++ [t]) -> ~ In v (l ++ [t]) -> v < length h -> next (hget h v) = None ->
  chain (hset h t (mknode (value (hget h t)) (Some v))) o ((l ++ [t]) ++ [v]).
Proof.
  induction l as [|j r IH]; intros t o Hc Hn Hv Hvl Hvn; cbn in *.
  - destruct Hc as (Ho & Ht & Hnx). rewrite hset_length.
    split; [exact Ho|]. split; [exact Ht|].
    rewrite hget_hset_eq by exact Ht. cbn.
    split; [reflexivity|]. split; [exact Hvl|].
    rewrite hget_hset_neq by (intros ->; apply Hv; left; reflexivity). exact Hvn.
  - destruct Hc as (Ho & Hj & Hr). rewrite hset_length.
    split; [exact Ho|]. split; [exact Hj|].
    inversion Hn as [|? ? Hnj Hnr]; subst.
    assert (Hjt : t <> j).
    { intros ->. apply Hnj. apply in_or_app. right. left. reflexivity. }
    rewrite hget_hset_neq by exact Hjt.
    apply IH; auto.
Qed.

(* ---------------------------------------------------------------------------------------------- *)
(* newq, enq, deq, head, emit                                                                       *)
(* ---------------------------------------------------------------------------------------------- *)
Lemma newq_wf : wfq newq /\ absq newq = [].
Proof.
  split; [|reflexivity]. exists []. constructor; cbn; auto.
  - constructor.
  - constructor.
  - intros i [].
Qed.

Lemma last_opt_snoc l t : last_opt (l ++ [t]) = Some t.
Proof. unfold last_opt. rewrite last_last. destruct l; reflexivity. Qed.

(* pool.Get(): whatever it returns is a node that is neither on the chain nor (any longer) in the pool *)
Lemma pool_get_spec q l c v q1 :
  wfq_with q l -> pool_get c q = (v, q1) ->
  wfq_with q1 l /\ v < length (heap q1) /\ ~ In v l /\ ~ In v (pool q1)
  /\ vals (heap q1) l = vals (heap q) l /\ qhead q1 = qhead q /\ qtail q1 = qtail q.
Proof.
  intros [Hc Hn Ht Hd Hp Ha] Hg.
  assert (Hfresh : forall q', (length (heap q), mkq (heap q ++ [mknode 0 None]) (qhead q) (qtail q) (pool q)) = (v, q') ->
            wfq_with q' l /\ v < length (heap q') /\ ~ In v l /\ ~ In v (pool q')
            /\ vals (heap q') l = vals (heap q) l /\ qhead q' = qhead q /\ qtail q' = qtail q).
  { intros q' Heq. inversion Heq; subst; clear Heq. cbn.
    assert (Hb : forall i, In i l -> i < length (heap q)) by (eapply chain_bound; eauto).
    split; [|split; [|split; [|split; [|split; [|split]]]]]; auto.
    - constructor; cbn; auto.
      + eapply chain_frame; [exact Hc|rewrite app_length; lia|].
        intros i Hi. apply hget_app1. auto.
      + intros i Hi. rewrite app_length. specialize (Ha i Hi). lia.
    - rewrite app_length; cbn; lia.
    - intros Hi. apply Hb in Hi. lia.
    - intros Hi. apply Ha in Hi. lia.
    - apply vals_frame. intros i Hi. rewrite hget_app1; auto. }
  destruct c as [|k]; cbn in Hg; [apply Hfresh; exact Hg|].
  destruct (nth_error (pool q) k) as [i|] eqn:Hk; [|apply Hfresh; exact Hg].
  inversion Hg; subst; clear Hg. cbn.
  destruct (nth_error_split _ _ Hk) as (a & b & Hpl & Hlen).
  assert (Hrm : remove_at k (pool q) = a ++ b).
  { unfold remove_at. rewrite Hpl. subst k.
    rewrite firstn_app, Nat.sub_diag, firstn_all, firstn_O, app_nil_r.
    rewrite skipn_app, skipn_all2 by lia.
    replace (S (length a) - length a) with 1 by lia. reflexivity. }
  rewrite Hrm. rewrite Hpl in Hp, Hd, Ha.
  pose proof (NoDup_remove_1 _ _ _ Hp) as Hp1. pose proof (NoDup_remove_2 _ _ _ Hp) as Hp2.
  split; [|split; [|split; [|split; [|split; [|split]]]]]; auto.
  - constructor; cbn; auto.
    + intros j Hj Hin. apply (Hd j Hj). apply in_app_or in Hin. apply in_or_app.
      destruct Hin as [Hin|Hin]; [left; exact Hin|right; right; exact Hin].
    + intros j Hin. apply Ha. apply in_app_or in Hin. apply in_or_app.
      destruct Hin as [Hin|Hin]; [left; exact Hin|right; right; exact Hin].
  - apply Ha. apply in_or_app. right. left. reflexivity.
  - intros Hv. apply (Hd v Hv). apply in_or_app. right. left. reflexivity.
Qed.

Lemma enq_refines_with q l x c :
  wfq_with q l ->
  exists v, wfq_with (enq x c q) (l ++ [v]) /\ vals (heap (enq x c q)) (l ++ [v]) = vals (heap q) l ++ [x].
Proof.
  intros Hw. unfold enq.
  destruct (pool_get c q) as [v q1] eqn:Hg.
  destruct (pool_get_spec q l c v q1 Hw Hg) as (Hw1 & Hvl & Hvn & Hvp & Hvals & Hh & Ht).
  destruct Hw1 as [Hc Hn Htl Hd Hp Ha].
  exists v.
  remember (hset (heap q1) v (mknode x None)) as h1 eqn:Hh1.
  assert (Hlen1 : length h1 = length (heap q1)) by (subst h1; apply hset_length).
  assert (Hc1 : chain h1 (qhead q1) l).
  { eapply chain_frame; [exact Hc|lia|]. intros i Hi. subst h1. apply hget_hset_neq. intros ->. contradiction. }
  assert (Hv1 : hget h1 v = mknode x None) by (subst h1; apply hget_hset_eq; exact Hvl).
  assert (Hvals1 : vals h1 l = vals (heap q) l).
  { rewrite <- Hvals. apply vals_frame. intros i Hi. subst h1. rewrite hget_hset_neq; [reflexivity|].
    intros ->. contradiction. }
  destruct (exists_last_or_nil l) as [->|(l' & t & ->)].
  - (* empty queue: head = tail = nil *)
    cbn in Hc. cbn in Htl. rewrite Htl, Hc. cbn.
    split.
    + constructor; cbn; auto.
      * rewrite Hlen1. split; [reflexivity|]. split; [exact Hvl|]. rewrite Hv1. reflexivity.
      * constructor; [intros []|constructor].
      * intros i [<-|[]]. exact Hvp.
      * intros i Hi. rewrite Hlen1. auto.
    + rewrite Hv1. reflexivity.
  - (* tail = t *)
    rewrite last_opt_snoc in Htl. rewrite Htl.
    assert (Hhd : exists i, qhead q1 = Some i).
    { destruct l'; cbn in Hc1; destruct Hc1 as (Ho & _); eauto. }
    destruct Hhd as (i0 & Hi0). rewrite Hi0. cbn [heap qhead qtail pool].
    assert (Htlen : t < length h1).
    { rewrite Hlen1. eapply chain_bound; [exact Hc|]. apply in_or_app. right. left. reflexivity. }
    assert (Hvt : v <> t).
    { intros ->. apply Hvn. apply in_or_app. right. left. reflexivity. }
    split.
    + constructor; cbn [heap qhead qtail pool].
      * rewrite <- Hi0. apply chain_snoc; auto.
        -- rewrite Hlen1. exact Hvl.
        -- rewrite Hv1. reflexivity.
      * apply NoDup_app_snoc; auto.
      * symmetry. apply last_opt_snoc.
      * intros i Hi. apply in_app_or in Hi. destruct Hi as [Hi|[<-|[]]]; [apply Hd; exact Hi|exact Hvp].
      * exact Hp.
      * intros i Hi. rewrite hset_length, Hlen1. auto.
    + unfold vals. rewrite map_app. cbn.
      rewrite hget_hset_neq by (intros Heq; apply Hvt; symmetry; exact Heq). rewrite Hv1. cbn.
      f_equal. transitivity (vals h1 (l' ++ [t])); [|exact Hvals1].
      apply (vals_frame h1 (hset h1 t (mknode (value (hget h1 t)) (Some v)))). intros i Hi.
      destruct (Nat.eq_dec t i) as [<-|Hne].
      * rewrite hget_hset_eq by exact Htlen. reflexivity.
      * rewrite hget_hset_neq by exact Hne. reflexivity.
Qed.

Theorem enq_refines q x c :
  wfq q -> wfq (enq x c q) /\ absq (enq x c q) = absq q ++ [x].
Proof.
  intros (l & Hw). destruct (enq_refines_with q l x c Hw) as (v & Hw' & Hv).
  split; [exists (l ++ [v]); exact Hw'|].
  rewrite (absq_vals _ _ Hw'), (absq_vals _ _ Hw). exact Hv.
Qed.

Lemma deq_refines_with q i r :
  wfq_with q (i :: r) ->
  exists q', deq q = Some (value (hget (heap q) i), q') /\ wfq_with q' r /\ heap q' = heap q.
Proof.
  intros [Hc Hn Ht Hd Hp Ha]. cbn in Hc. destruct Hc as (Hh & Hi & Hr).
  inversion Hn as [|? ? Hir Hnr]; subst.
  unfold deq. rewrite Hh, Ht.
  eexists. split; [reflexivity|]. split; [|reflexivity].
  constructor; cbn [heap qhead qtail pool].
  - exact Hr.
  - exact Hnr.
  - destruct r as [|j r'].
    + cbn. rewrite Nat.eqb_refl. reflexivity.
    + assert (Hne : i <> last (j :: r') 0).
      { intros Heq. apply Hir. rewrite Heq.
        destruct (@exists_last _ (j :: r')) as (l' & t & He); [discriminate|].
        rewrite He, last_last. apply in_or_app. right. left. reflexivity. }
      change (last_opt (i :: j :: r')) with (Some (last (j :: r') 0)).
      destruct (Nat.eqb i (last (j :: r') 0)) eqn:He; [apply Nat.eqb_eq in He; contradiction|].
      cbv beta iota. rewrite ?He. reflexivity.
  - intros j Hj [<-|Hin]; [contradiction|]. apply (Hd j); [right; exact Hj|exact Hin].
  - constructor; [|exact Hp]. apply Hd. left. reflexivity.
  - intros j [<-|Hj]; [exact Hi|apply Ha; exact Hj].
Qed.

Theorem deq_refines q :
  wfq q ->
  match absq q with
  | v :: r => exists q', deq q = Some (v, q') /\ wfq q' /\ absq q' = r      (* returns the head value, leaves the tail *)
  | [] => deq q = None                                                       (* nil dereference: never reached by the pump *)
  end.
Proof.
  intros (l & Hw). rewrite (absq_vals _ _ Hw). destruct l as [|i r]; cbn.
  - destruct Hw as [Hc _ _ _ _ _]. cbn in Hc. unfold deq. rewrite Hc. reflexivity.
  - destruct (deq_refines_with q i r Hw) as (q' & Hdq & Hw' & Hheap).
    exists q'. split; [exact Hdq|]. split; [exists r; exact Hw'|].
    rewrite (absq_vals _ _ Hw'), Hheap. reflexivity.
Qed.

Theorem head_refines q : wfq q -> headv q = hd 0%Z (absq q).
Proof.
  intros (l & Hw). rewrite (absq_vals _ _ Hw). destruct Hw as [Hc _ _ _ _ _].
  unfold headv. destruct l as [|i r]; cbn in *.
  - rewrite Hc. reflexivity.
  - destruct Hc as (-> & _). reflexivity.
Qed.

Theorem emit_nil_iff_empty q : wfq q -> (emit q = false <-> absq q = []).
Proof.
  intros (l & Hw). rewrite (absq_vals _ _ Hw). destruct Hw as [Hc _ _ _ _ _].
  unfold emit. destruct l as [|i r]; cbn in *.
  - rewrite Hc. split; reflexivity.
  - destruct Hc as (-> & _). split; discriminate.
Qed.

(* tail = nil <-> head = nil: a consequence of wfq *)
Lemma wfq_tail_head q : wfq q -> (qtail q = None <-> qhead q = None).
Proof.
  intros (l & [Hc _ Ht _ _ _]). rewrite Ht. destruct l as [|i r]; cbn in *.
  - rewrite Hc. split; reflexivity.
  - destruct Hc as (-> & _). split; discriminate.
Qed.

(* every history, whatever sync.Pool hands out at each enq - including draining to empty and refilling:
   the answers of the pointer structure are those of the list *)
Theorem qrun_refines : forall ops q, wfq q -> qrun q ops = lrun (absq q) ops.
Proof.
  induction ops as [|o ops IH]; intros q Hw; [reflexivity|].
  destruct o as [x c| | |]; cbn [qrun lrun qstep lstep].
  - destruct (enq_refines q x c Hw) as (Hw' & Ha). rewrite <- Ha. f_equal. apply IH. exact Hw'.
  - pose proof (deq_refines q Hw) as Hd. destruct (absq q) as [|v r] eqn:Hab.
    + rewrite Hd. f_equal. rewrite <- Hab. apply IH. exact Hw.
    + destruct Hd as (q' & -> & Hw' & Ha'). f_equal. rewrite <- Ha'. apply IH. exact Hw'.
  - rewrite (head_refines q Hw). f_equal. apply IH. exact Hw.
  - f_equal.
    + f_equal. destruct (emit_nil_iff_empty q Hw) as [H1 H2].
      destruct (absq q) as [|v r]; cbn.
      * apply H2. reflexivity.
      * destruct (emit q); [reflexivity|]. specialize (H1 eq_refl). discriminate.
    + apply IH. exact Hw.
Qed.

Corollary qrun_newq ops : qrun newq ops = lrun [] ops.
Proof. apply (qrun_refines ops newq). apply newq_wf. Qed.
