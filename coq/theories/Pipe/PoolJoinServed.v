(* pipe.Join: NO INPUT IS EVER STARVED BY ANOTHER ONE.  Each input has its own goroutine
   (`for x := range c { select { case out <- x: case <-ctx.Done(): return } }`), so whenever the
   stage has come to rest, the goroutine of every single input w is in one of three places:
   it has returned (its input was closed and drained), it is parked in `range c` on an empty
   open input - and then the next send on input w is accepted at once, even on an unbuffered
   channel, whatever the other inputs do -, or it holds one element that the OUTPUT cannot
   take.  Only back-pressure from the consumer keeps an input from being served; a closed,
   an empty or a slow other input never does.  (A Join rewritten as a sequential concatenation
   - input i+1 served only after input i has closed - violates exactly this.) *)
From Coq Require Import List ZArith NArith Bool Arith PeanoNat Lia.
From Golem Require Import Base.Lists Pipe.Pool Pipe.Stages Pipe.PoolEffects Pipe.PoolSteps Pipe.PoolInv Pipe.PoolInv2
     Pipe.PoolSafe Pipe.PoolClosed Pipe.PoolStop Pipe.PoolLive Pipe.PoolSimple Pipe.PoolSeq Pipe.PoolMulti
     Pipe.PoolMultiStages.
Import ListNotations.
Open Scope nat_scope.

(* some worker below n parked in `range in_i` gives input i its rendezvous partner *)
Lemma any_waiting_witness (c : cfg) s i n w :
  w < n -> wc (ws s w) = WRecv -> src c w = SIn i -> any_waiting c s i n = true.
Proof.
  induction n as [|m IH]; [lia|]. intros Hw Hc Hs. simpl.
  destruct (Nat.eq_dec w m) as [->|Hne].
  - rewrite Hc, Hs, Nat.eqb_refl. reflexivity.
  - rewrite IH by (auto; lia). apply orb_true_r.
Qed.

(* a worker event of a program that has not crashed is the worker's step *)
Lemma step_EW (c : cfg) s w ch : panicked s = false -> w < par c -> step c s (EW w ch) = step_worker c s w ch.
Proof.
  intros Hp Hw. unfold step. rewrite Hp. unfold step_ok.
  destruct (Nat.ltb_spec w (par c)) as [_|Hge]; [reflexivity|lia].
Qed.

Section JoinServed.
Variables (n : nat) (icaps ocaps : list nat).
Let c := join_stage n icaps ocaps.

(* ---------- where a Join goroutine can be ---------- *)
(* at `range c`, holding the element it took (about to send it on out 0), at the end of the loop body,
   after the loop, returned *)
Definition jshape (ctl : wctl) : Prop :=
  match ctl with
  | WRecv | WRun _ [] | WDone => True
  | WRun false [ASend 0 _] => True
  | _ => False
  end.
Definition jshape_state (s : state) : Prop := forall w, jshape (wc (ws s w)).

Lemma jshape_other s s' w :
  (forall w', w' <> w -> ws s' w' = ws s w') -> jshape (wc (ws s' w)) -> jshape_state s -> jshape_state s'.
Proof.
  intros Ho Hw HS w'. destruct (Nat.eq_dec w' w) as [->|Hne]; auto. rewrite Ho; auto.
Qed.

(* a goroutine that still has a statement to run holds exactly one send on out 0 *)
Lemma jshape_cons eof a rest : jshape (WRun eof (a :: rest)) -> eof = false /\ rest = [] /\ exists v, a = ASend 0 v.
Proof.
  unfold jshape. destruct eof; [tauto|]. destruct a as [k v|k v| |k|d|d|]; try tauto.
  destruct k; [|tauto]. destruct rest; [|tauto]. intros _. repeat split. exists v. reflexivity.
Qed.

Lemma jshape_weffect s w s' : jshape_state s -> weffect c s w s' -> jshape_state s'.
Proof.
  intros HS He. pose proof (HS w) as Hw.
  destruct He as [i a t rest Hsrc Hc Hb | Hsrc Hc | i Hsrc Hc Hb Hcl | ctl' Hcn Hdue Hsl Hsls
                 | eof a k0 v rest Hc Hs Hcl | eof k0 t r rest Hc Hb | dropped Hp Hnd Hnr Hnc Hwhy | eof a k0 v rest Hc Hs Hcl].
  - apply jshape_other with s w; simpl; intros; upd_simpl; auto. unfold take. simpl. exact I.
  - discriminate Hsrc.
  - apply jshape_other with s w; simpl; intros; upd_simpl; auto. simpl. exact I.
  - apply jshape_other with s w; simpl; intros; upd_simpl; auto. simpl.
    inversion Hcn as [E1 E2|eof h rest Hsk E1 E2|eof h rest u sel Hsk E1 E2|u sel eof rest E1 E2]; subst ctl';
      rewrite <- E1 in Hw.
    + exact I.
    + destruct (jshape_cons _ _ _ Hw) as (_ & _ & v & ->).
      destruct Hsk as [Hx|[[x Hx]|[[d Hx]|[d Hx]]]]; discriminate Hx.
    + destruct (jshape_cons _ _ _ Hw) as (_ & _ & v & ->).
      destruct Hsk as [[d Hx]|[d Hx]]; discriminate Hx.
    + contradiction.
  - apply jshape_other with s w; simpl; intros; upd_simpl; auto. simpl.
    rewrite Hc in Hw. destruct (jshape_cons _ _ _ Hw) as (-> & -> & _). exact I.
  - exfalso. rewrite Hc in Hw. destruct (jshape_cons _ _ _ Hw) as (_ & _ & v & Hx). discriminate Hx.
  - unfold finish. change (closer c) with true. cbv iota.
    apply jshape_other with s w; simpl; intros; upd_simpl; auto. simpl. exact I.
  - exact HS.
Qed.

Lemma jshape_step s e s' : jshape_state s -> step c s e = Some s' -> jshape_state s'.
Proof.
  intros HS Hs. destruct (step_effect c s e s' Hs) as [_ He].
  destruct He as [i x Hi Hcl | i Hi Hcl | k t v rest Hb | k v w eof a rest Hb Hcap Hcl Hw Hc Hs0 | | | w s' Hw He
                 | w a todo Hw Hc | Hcl Had Hcd | t Ht]; try exact HS.
  - apply jshape_other with s w; simpl; intros; upd_simpl; auto. simpl.
    pose proof (HS w) as H. rewrite Hc in H. destruct (jshape_cons _ _ _ H) as (-> & -> & _). exact I.
  - eapply jshape_weffect; eauto.
  - exfalso. pose proof (HS w) as H. rewrite Hc in H. exact H.
  - intros w. cbv zeta. cbn [ws]. rewrite close_all_ws'. apply HS.
Qed.

Theorem jshape_reachable s : reachable c s -> jshape_state s.
Proof.
  apply reachable_inv; [|apply jshape_step].
  intros w. unfold init, init_worker. simpl. exact I.
Qed.

(* ---------- every input is served ---------- *)
(* the three places a goroutine can rest in *)
Definition served_done (s : state) (w : nat) : Prop :=
  wc (ws s w) = WDone /\ cclosed (ins s w) = true /\ cbuf (ins s w) = [] /\ wtaken (ws s w) = sent s w.
Definition served_parked (s : state) (w : nat) : Prop :=
  wc (ws s w) = WRecv /\ cbuf (ins s w) = [] /\ cclosed (ins s w) = false /\
  forall x, step c s (ESent w x) <> None.
Definition served_holding (s : state) (w : nat) : Prop :=
  exists eof x rest, wc (ws s w) = WRun eof (ASend 0 x :: rest) /\
                     has_room (outs s 0) = false /\ cclosed (outs s 0) = false.

(* parked on an empty open input: the environment's next send on it completes at once *)
Lemma join_parked_accepts s w x :
  reachable c s -> w < n -> wc (ws s w) = WRecv -> cbuf (ins s w) = [] -> cclosed (ins s w) = false ->
  step c s (ESent w x) <> None.
Proof.
  intros Hr Hw Hc Hb Hcl.
  assert (Hp : panicked s = false) by (apply (nopanic c (join_wf n icaps ocaps) s Hr)).
  unfold step. rewrite Hp. unfold step_ok.
  change (nins c) with n. destruct (Nat.ltb_spec w n) as [_|Hge]; [|lia]. cbn [negb].
  rewrite Hcl. unfold in_room. rewrite Hb. change (par c) with n.
  rewrite (any_waiting_witness c s w n w Hw Hc eq_refl).
  destruct (Nat.ltb_spec (length (@nil (nat * val))) (ccap (ins s w) + 1)) as [_|Hge]; [discriminate|].
  simpl in Hge. lia.
Qed.

Theorem join_every_input_served s :
  reachable c s -> cancelled s = false -> quiescent c s ->
  forall w, w < n -> served_done s w \/ served_parked s w \/ served_holding s w.
Proof.
  intros Hr Hcn [Hq _] w Hw.
  pose proof (jshape_reachable s Hr w) as Hsh.
  destruct (stuck_waits c s w (Hq w Hw)) as [Hd|i Hc Hs Hb Hcl|a t Hc|eof k v rest Hc Hro Hcl _
                                            |eof k v rest Hc Hro Hcl|eof k rest Hc Hb Hcl _|u sel eof rest Hc Ht Hsel].
  - left. split; [exact Hd|].
    apply (join_done_eof c (fun _ => eq_refl) (fun _ _ _ => eq_refl) (fun _ => eq_refl) s w Hr Hcn Hd).
  - right; left. change (src c w) with (SIn w) in Hs. inversion Hs; subst i.
    split; [exact Hc|]. split; [exact Hb|]. split; [exact Hcl|].
    intros x. apply join_parked_accepts; auto.
  - exfalso. rewrite Hc in Hsh. exact Hsh.
  - right; right. rewrite Hc in Hsh. destruct (jshape_cons _ _ _ Hsh) as (_ & _ & v' & Hx).
    inversion Hx; subst. exists eof, v', rest. auto.
  - exfalso. rewrite Hc in Hsh. destruct (jshape_cons _ _ _ Hsh) as (_ & _ & v' & Hx). discriminate Hx.
  - exfalso. rewrite Hc in Hsh. destruct (jshape_cons _ _ _ Hsh) as (_ & _ & v' & Hx). discriminate Hx.
  - exfalso. rewrite Hc in Hsh. exact Hsh.
Qed.

(* the three places exclude each other: exactly one of them holds *)
Lemma join_served_exclusive s w :
  ~ (served_done s w /\ served_parked s w) /\ ~ (served_done s w /\ served_holding s w) /\
  ~ (served_parked s w /\ served_holding s w).
Proof.
  unfold served_done, served_parked, served_holding. repeat split.
  - intros [(A & _) (B & _)]. congruence.
  - intros [(A & _) (eof & x & rest & B & _)]. congruence.
  - intros [(A & _) (eof & x & rest & B & _)]. congruence.
Qed.

(* the consumer keeps up (room in the output): nobody holds anything, nothing that was handed over
   on any input is held back *)
Theorem join_room_nothing_held s :
  reachable c s -> cancelled s = false -> quiescent c s -> has_room (outs s 0) = true ->
  forall w, w < n ->
    (wc (ws s w) = WDone \/
     (wc (ws s w) = WRecv /\ cclosed (ins s w) = false /\ forall x, step c s (ESent w x) <> None)) /\
    cbuf (ins s w) = [] /\ wtaken (ws s w) = sent s w.
Proof.
  intros Hr Hcn Hq Hro w Hw.
  assert (Hb : forall A : Prop, A -> cbuf (ins s w) = [] -> A /\ cbuf (ins s w) = [] /\ wtaken (ws s w) = sent s w).
  { intros A HA Hb. split; [exact HA|]. split; [exact Hb|].
    rewrite (join_taken c (fun _ => eq_refl) s w Hr), Hb. simpl. now rewrite app_nil_r. }
  destruct (join_every_input_served s Hr Hcn Hq w Hw) as [Hd|[Hp|(eof & x & rest & _ & Hf & _)]].
  - apply Hb; [left; apply Hd|apply Hd].
  - destruct Hp as (A & B & C & D). apply Hb; [right; auto|exact B].
  - congruence.
Qed.

(* ... and the element a parked goroutine is handed next goes straight through to the output when
   there is room: three steps that involve no other input and no other goroutine *)
Theorem join_parked_forwards s w x :
  reachable c s -> cancelled s = false -> w < n ->
  wc (ws s w) = WRecv -> cbuf (ins s w) = [] -> cclosed (ins s w) = false -> has_room (outs s 0) = true ->
  exists s', exec_from c s [ESent w x; EW w false; EW w false] = Some s' /\
             cbuf (outs s' 0) = cbuf (outs s 0) ++ [(w, x)] /\ cbuf (ins s' w) = [] /\
             sent s' w = sent s w ++ [x] /\ wtaken (ws s' w) = wtaken (ws s w) ++ [x].
Proof.
  intros Hr Hcn Hw Hc Hb Hcl Hro.
  assert (Hp : panicked s = false) by (apply (nopanic c (join_wf n icaps ocaps) s Hr)).
  assert (Hoc : cclosed (outs s 0) = false).
  { destruct (cclosed (outs s 0)) eqn:E; [|reflexivity].
    pose proof (closed_after_done c (join_wf n icaps ocaps) s 0 Hr E) as Hd.
    change (closer c) with true in Hd. cbv iota in Hd. rewrite (Hd w Hw) in Hc. discriminate. }
  destruct (step c s (ESent w x)) as [s1|] eqn:E1; [|exfalso; eapply join_parked_accepts; eauto].
  rewrite exec_from_cons, E1.
  (* the state after the send *)
  assert (Es1 : s1 = mkS (upd (ins s) w (push (ins s w) (0, x))) (outs s) (cancelled s) (ws s)
                         (closer_done s) (panicked s) (now s) (upd (sent s) w (sent s w ++ [x])) (consumed s) (rcvd s)).
  { unfold step in E1. rewrite Hp in E1. unfold step_ok in E1.
    destruct (negb (w <? nins c)); [discriminate|]. rewrite Hcl in E1.
    destruct (in_room c s w); [|discriminate]. inversion E1. reflexivity. }
  subst s1.
  (* the goroutine takes the element *)
  set (s1 := mkS _ _ _ _ _ _ _ _ _ _) in *.
  assert (E2 : step c s1 (EW w false) =
               Some (mkS (upd (ins s1) w (pop (ins s1 w))) (outs s1) (cancelled s1) (upd (ws s1) w (take c s1 w x))
                         (closer_done s1) (panicked s1) (now s1) (sent s1)
                         (upd (consumed s1) w (consumed s1 w ++ [(w, x)])) (rcvd s1))).
  { rewrite step_EW by (auto; exact Hp).
    unfold step_worker. replace (wc (ws s1 w)) with WRecv by (symmetry; exact Hc).
    change (src c w) with (SIn w). cbv iota zeta.
    replace (cbuf (ins s1 w)) with [(0, x)]; [reflexivity|].
    unfold s1. cbn [ins]. rewrite upd_same. unfold push. cbn [cbuf]. rewrite Hb. reflexivity. }
  rewrite exec_from_cons, E2. clear E2. set (s2 := mkS _ _ _ _ _ _ _ _ _ _).
  (* ... and sends it *)
  assert (Hw2 : wc (ws s2 w) = WRun false [ASend 0 x]).
  { unfold s2. cbn [ws]. rewrite upd_same. reflexivity. }
  assert (E3 : step c s2 (EW w false) =
               Some (set_w (set_out s2 0 (push (outs s2 0) (w, x))) w (with_ctl (ws s2 w) (WRun false [])))).
  { rewrite step_EW by (auto; exact Hp).
    unfold step_worker. rewrite Hw2. change (outs s2 0) with (outs s 0). change (cancelled s2) with (cancelled s).
    rewrite Hro, Hoc, Hcn. reflexivity. }
  rewrite exec_from_cons, E3. eexists. split; [reflexivity|].
  cbn [outs set_w set_out ins sent ws]. rewrite !upd_same. cbn [wtaken with_ctl].
  unfold s2 at 1. cbn [outs]. unfold s1 at 1. cbn [outs].
  split; [reflexivity|].
  unfold s2. cbn [ins ws sent]. rewrite !upd_same. unfold s1. cbn [ins ws sent]. rewrite !upd_same.
  unfold pop, push. cbn [cbuf]. rewrite Hb. unfold take. cbn [wtaken]. cbn.
  repeat split; reflexivity.
Qed.

End JoinServed.

(* ---------- non-vacuity ---------- *)
(* two UNBUFFERED inputs, out := make(chan A, 2).  Input 1 hands over 7 - accepted although nothing was
   ever sent on input 0, which stays open and empty - goroutine 1 forwards it, the consumer receives it.
   The stage is then at rest, not cancelled, and both goroutines are parked on empty open inputs: the
   situation in which a sequential rewrite (input 1 only after input 0 has closed) is stuck with 7 undelivered *)
Definition ex_join_cfg : cfg := join_stage 2 [0; 0] [2].
Definition ex_join_trace : list ev := [ESent 1 7%Z; EW 1 false; EW 1 false; EW 1 false; ERcvd 0 7%Z].
Definition ex_join_state : state :=
  match exec ex_join_cfg ex_join_trace with Some s => s | None => init ex_join_cfg end.

Lemma ex_join_reachable : reachable ex_join_cfg ex_join_state.
Proof. exists ex_join_trace. vm_compute. reflexivity. Qed.

Lemma ex_join_quiescent : quiescent ex_join_cfg ex_join_state.
Proof.
  split.
  - intros w Hw ch. change (par ex_join_cfg) with 2 in Hw.
    assert (Hw' : w = 0 \/ w = 1) by lia. destruct Hw' as [-> | ->]; destruct ch; vm_compute; reflexivity.
  - vm_compute. reflexivity.
Qed.

Lemma ex_join_hyps :
  cancelled ex_join_state = false /\ has_room (outs ex_join_state 0) = true /\
  delivered ex_join_state 0 = [7%Z] /\ sent ex_join_state 0 = [] /\ cclosed (ins ex_join_state 0) = false /\
  wc (ws ex_join_state 0) = WRecv /\ wc (ws ex_join_state 1) = WRecv.
Proof.
  split; [|split; [|split; [|split; [|split; [|split]]]]]; vm_compute; reflexivity.
Qed.

(* the theorem applied there: both inputs are in case "parked", the next send on either is accepted *)
Example ex_join_served :
  served_parked 2 [0; 0] [2] ex_join_state 0 /\ served_parked 2 [0; 0] [2] ex_join_state 1.
Proof.
  destruct ex_join_hyps as (Hcn & _ & _ & _ & _ & H0 & H1).
  pose proof (join_every_input_served 2 [0; 0] [2] ex_join_state ex_join_reachable Hcn ex_join_quiescent) as H.
  split.
  - destruct (H 0 ltac:(lia)) as [(A & _)|[Hp|(eof & x & rest & A & _)]]; [congruence|exact Hp|congruence].
  - destruct (H 1 ltac:(lia)) as [(A & _)|[Hp|(eof & x & rest & A & _)]]; [congruence|exact Hp|congruence].
Qed.
