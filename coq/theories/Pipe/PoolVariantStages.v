(* NO LIVELOCK for the generator stages: every round of Unfold and Emit contains a send on out 0 / out 1,
   every round of Throttling's pacer a token send (ops >= 1) or its timer (interval > 0). *)
From Coq Require Import List ZArith NArith Bool Arith PeanoNat Lia.
From Golem Require Import Pipe.Pool Pipe.Stages Pipe.PoolGen Pipe.PoolVariant Pipe.PoolVariantGen.
Import ListNotations.
Open Scope nat_scope.

Theorem unfold_internal_steps_terminate (f : Z -> res) (try : bool) (seed : Z) (ocaps : list nat) (s : state) :
  Acc (fun s' s0 => istep (unfold_cfg f try seed ocaps) s0 s') s.
Proof.
  apply internal_steps_terminate_gen with (K := 2).
  intros w l a Hw _. simpl in Hw. assert (w = 0) by lia. subst w. simpl. unfold plan_unfold.
  destruct (f l); simpl; [auto|]. destruct try; simpl; auto.
Qed.

Theorem emit_internal_steps_terminate (freq : N) (f : Z -> res) (try : bool) (ocaps : list nat) (s : state) :
  Acc (fun s' s0 => istep (emit_cfg freq f try ocaps) s0 s') s.
Proof.
  apply internal_steps_terminate_gen with (K := 2).
  intros w l a Hw _. simpl in Hw. assert (w = 0) by lia. subst w. simpl. unfold hasb, ntokl. simpl.
  destruct (f l); simpl; [rewrite orb_true_r; auto|]. destruct try; simpl; rewrite orb_true_r; auto.
Qed.

Lemma pacer_no_tok ops interval : ntokl (repeat (ASend 1 0%Z) ops ++ [ASleepSel interval]) = 0.
Proof. unfold ntokl. induction ops as [|m IH]; simpl; auto. Qed.

Lemma pacer_blocks ops interval :
  1 <= ops \/ (0 < interval)%N -> hasb 2 (repeat (ASend 1 0%Z) ops ++ [ASleepSel interval]) = true.
Proof.
  intros H. unfold hasb. rewrite existsb_app. destruct ops as [|m]; simpl; auto.
  destruct H as [H|H]; [lia|]. apply N.ltb_lt in H. rewrite H. reflexivity.
Qed.

Theorem throttle_internal_steps_terminate (ops : nat) (interval : N) (icaps ocaps : list nat) (s : state) :
  1 <= ops \/ (0 < interval)%N ->
  Acc (fun s' s0 => istep (throttle_stage ops interval icaps ocaps) s0 s') s.
Proof.
  intros H. apply internal_steps_terminate_gen with (K := 2).
  intros w l a Hw Hsrc. destruct w as [|w]; [|simpl in Hsrc; discriminate].
  simpl. unfold plan_pacer. simpl. split; [apply pacer_blocks; auto|apply pacer_no_tok].
Qed.

Theorem generator_stages_terminate
  (f : Z -> res) (try : bool) (seed : Z) (freq : N) (ops : nat) (interval : N) (icaps ocaps : list nat) (s : state) :
  Acc (fun s' s0 => istep (unfold_cfg f try seed ocaps) s0 s') s /\
  Acc (fun s' s0 => istep (emit_cfg freq f try ocaps) s0 s') s /\
  (1 <= ops \/ (0 < interval)%N -> Acc (fun s' s0 => istep (throttle_stage ops interval icaps ocaps) s0 s') s).
Proof.
  split; [apply unfold_internal_steps_terminate|split; [apply emit_internal_steps_terminate|]].
  apply throttle_internal_steps_terminate.
Qed.

(* the hypothesis is needed: without a blocker a generator does spin - a pacer with ops = 0 and
   interval = 0 loops through WRecv -> WRun [sleep 0] -> WSleep now -> WRun [] -> WRecv for ever *)
Example pacer_without_blocker_spins :
  let c := throttle_stage 0 0 [] [] in ~ Acc (fun s' s0 => istep c s0 s') (init c).
Proof.
  intros c.
  set (Q := fun s => panicked s = false /\
                     (wc (ws s 0) = WRecv \/ wc (ws s 0) = WRun false [ASleepSel 0] \/
                      wc (ws s 0) = WSleep (now s) true false [] \/ wc (ws s 0) = WRun false [])).
  assert (Hstep : forall s s', panicked s = false -> step_worker c s 0 true = Some s' -> istep c s s').
  { intros s s' Hp H. left. exists 0, true. unfold step, step_ok. rewrite Hp. exact H. }
  assert (Hprog : forall s, Q s -> exists s', istep c s s' /\ Q s').
  { intros s [Hp [Hc|[Hc|[Hc|Hc]]]].
    - exists (set_w s 0 (take c s 0 0%Z)). split.
      + apply Hstep; auto. unfold step_worker. rewrite Hc. reflexivity.
      + split; [exact Hp|]. right; left. reflexivity.
    - exists (set_w s 0 (with_ctl (ws s 0) (WSleep (now s + 0) true false []))). split.
      + apply Hstep; auto. unfold step_worker. rewrite Hc. reflexivity.
      + split; [exact Hp|]. right; right; left. simpl. rewrite N.add_0_r. reflexivity.
    - exists (set_w s 0 (with_ctl (ws s 0) (WRun false []))). split.
      + apply Hstep; auto. unfold step_worker. rewrite Hc, N.leb_refl. simpl. rewrite orb_true_r. reflexivity.
      + split; [exact Hp|]. right; right; right. reflexivity.
    - exists (set_w s 0 (with_ctl (ws s 0) WRecv)). split.
      + apply Hstep; auto. unfold step_worker. rewrite Hc. reflexivity.
      + split; [exact Hp|]. left. reflexivity. }
  assert (H : forall s, Acc (fun s' s0 => istep c s0 s') s -> Q s -> False).
  { intros s Hacc. induction Hacc as [s _ IH]. intros HQ.
    destruct (Hprog s HQ) as (s' & Hs & HQ'). exact (IH s' Hs HQ'). }
  intros Hacc. apply (H _ Hacc). split; [reflexivity|left; reflexivity].
Qed.
