(* Throttling, the rate: the pacer pushes at most [ops] tokens per [interval] - counted from the
   start: tokens pushed by time t <= ops * (t / interval + 1) for ANY way the clock advances - and
   (before cancel) every delivery has consumed a token, so the same bound holds for deliveries. *)
From Coq Require Import List ZArith NArith Bool Arith PeanoNat Lia.
From Golem Require Import Base.Lists Pipe.Pool Pipe.Stages Pipe.PoolEffects Pipe.PoolSteps Pipe.PoolInv Pipe.PoolInv2
     Pipe.PoolSafe Pipe.PoolStop Pipe.PoolLive Pipe.PoolSimple Pipe.PoolActs Pipe.PoolSeq Pipe.PoolThrottle.
Import ListNotations.
Open Scope nat_scope.

Section Rate.
Variables (ops : nat) (interval : N) (icaps ocaps : list nat).
Let c := throttle_stage ops interval icaps ocaps.

(* tokens pushed so far (received by anybody or still in the token channel), batches started, deliveries *)
Definition tokens (s : state) : nat := length (rcvd s 1) + length (cbuf (outs s 1)).
Definition batches (s : state) : nat := length (wtaken (ws s 0)).
Definition made (s : state) : nat := length (rcvd s 0) + length (cbuf (outs s 0)).

Definition pushes (m : nat) : list act := repeat (ASend 1 0%Z) m ++ [ASleepSel interval].

Let T (s : state) : N := N.of_nat (tokens s).
Let B (s : state) : N := N.of_nat (batches s).
Let O : N := N.of_nat ops.

Inductive pinv (s : state) : Prop :=
| PI_recv : wc (ws s 0) = WRecv -> T s = (B s * O)%N -> (B s * interval <= now s)%N -> pinv s
| PI_push m : wc (ws s 0) = WRun false (pushes m) -> m <= ops -> (1 <= B s)%N ->
    (T s + N.of_nat m = B s * O)%N -> ((B s - 1) * interval <= now s)%N -> pinv s
| PI_sleep u : wc (ws s 0) = WSleep u true false [] -> (1 <= B s)%N -> T s = (B s * O)%N ->
    ((B s - 1) * interval <= now s)%N -> (B s * interval <= u)%N -> pinv s
| PI_post : wc (ws s 0) = WRun false [] -> T s = (B s * O)%N -> (B s * interval <= now s)%N -> pinv s
| PI_done : wc (ws s 0) = WDone -> (T s <= B s * O)%N -> (B s = 0 \/ (B s - 1) * interval <= now s)%N -> pinv s.

Lemma pinv_bound s : pinv s -> (T s <= B s * O)%N /\ (B s = 0 \/ (B s - 1) * interval <= now s)%N.
Proof.
  assert (Hmono : forall b, (b <> 0 -> b * interval <= now s -> (b - 1) * interval <= now s)%N).
  { intros b Hb H. eapply N.le_trans; [apply N.mul_le_mono_r|exact H]. lia. }
  intros [Hc H1 H2|m Hc Hm H0 H1 H2|u Hc H0 H1 H2 H3|Hc H1 H2|Hc H1 H2].
  - split; [lia|]. destruct (N.eq_dec (B s) 0) as [E|E]; [left; auto|right; auto].
  - split; [lia|right; auto].
  - split; [lia|right; auto].
  - split; [lia|]. destruct (N.eq_dec (B s) 0) as [E|E]; [left; auto|right; auto].
  - split; auto.
Qed.

Lemma tokens_close_all s ks : tokens (close_all s ks) = tokens s.
Proof.
  destruct (close_all_frame s ks) as (_ & _ & _ & _ & _ & _ & _ & Hr & Hb & _). unfold tokens. simpl in *.
  now rewrite Hr, Hb.
Qed.

Lemma finish_frame (cc : cfg) s w d :
  now (finish cc s w d) = now s /\ tokens (finish cc s w d) = tokens s /\
  (forall w', w' <> w -> ws (finish cc s w d) w' = ws s w').
Proof.
  unfold finish. destruct (closer cc).
  - simpl. repeat split; auto. intros w' Hne. upd_simpl. reflexivity.
  - set (s1 := set_w s w _). destruct (close_all_frame s1 (wcloses cc w)) as (_ & Hws & _ & _ & Hn & _).
    cbv zeta in Hn, Hws. rewrite Hn, tokens_close_all, Hws. unfold s1. simpl. repeat split; auto.
    intros w' Hne. upd_simpl. reflexivity.
Qed.

Lemma pinv_frame s s' :
  ws s' 0 = ws s 0 -> tokens s' = tokens s -> (now s <= now s')%N -> pinv s -> pinv s'.
Proof.
  intros Hw Ht Hn H. unfold T, B, batches in *.
  destruct H as [Hc H1 H2|m Hc Hm H0 H1 H2|u Hc H0 H1 H2 H3|Hc H1 H2|Hc H1 H2]; unfold T, B, batches in *.
  - apply PI_recv; unfold T, B, batches; rewrite ?Hw, ?Ht; auto. lia.
  - eapply PI_push; unfold T, B, batches; rewrite ?Hw, ?Ht; eauto. lia.
  - eapply PI_sleep; unfold T, B, batches; rewrite ?Hw, ?Ht; eauto. lia.
  - apply PI_post; unfold T, B, batches; rewrite ?Hw, ?Ht; auto. lia.
  - apply PI_done; unfold T, B, batches; rewrite ?Hw, ?Ht; auto. destruct H2 as [H2|H2]; [left; auto|right; lia].
Qed.

Lemma len_upd_snoc' {X} (g : nat -> list X) k x j :
  length (upd g k (g k ++ [x]) j) = length (g j) + (if Nat.eqb j k then 1 else 0).
Proof.
  unfold upd. destruct (Nat.eqb j k) eqn:E; [|lia]. apply Nat.eqb_eq in E. subst. rewrite app_length. simpl. lia.
Qed.

Lemma tokens_move s k t r :
  cbuf (outs s k) = t :: r ->
  length (upd (rcvd s) k (rcvd s k ++ [t]) 1) + length (cbuf (upd (outs s) k (pop (outs s k)) 1)) = tokens s.
Proof.
  intros Hb. unfold tokens. rewrite len_upd_snoc'. unfold upd.
  destruct (Nat.eqb 1 k) eqn:E; simpl; [|lia]. apply Nat.eqb_eq in E. subst. rewrite Hb. simpl. lia.
Qed.

Lemma pushes_S m : pushes (S m) = ASend 1 0%Z :: pushes m.
Proof. reflexivity. Qed.

(* the data goroutine (and any index >= 1) sends on the output only *)
Lemma data_sends_out s w eof a k v rest :
  reachable c s -> w <> 0 -> wc (ws s w) = WRun eof (a :: rest) -> sends_on a k v -> k = 0.
Proof.
  intros Hr Hw Hc Hs.
  pose proof (actsw_reachable c (fun w x => forall k v, sends_on x k v -> sendsto w k)
                (fun w k v H => match H with or_introl E => ltac:(discriminate) | or_intror E => ltac:(discriminate) end)
                (throttle_sendsto_plan ops interval icaps ocaps) (fun _ _ => Forall_nil _) s Hr w) as H.
  rewrite Hc in H. simpl in H. inversion H as [|? ? Hh _]. destruct (Hh k v Hs) as [[E _]|[_ E]]; [contradiction|auto].
Qed.

Lemma tokens_push_out s w v x :
  tokens (set_w (set_out s 0 (push (outs s 0) (w, v))) w x) = tokens s.
Proof. reflexivity. Qed.

Theorem pinv_step s e s' : reachable c s -> pinv s -> step c s e = Some s' -> pinv s'.
Proof.
  intros Hr HI Hs. destruct (step_effect c s e s' Hs) as [_ He].
  destruct He as [i x Hi Hcl | i Hi Hcl | k t v rest Hb | k v w eof a rest Hb Hcap Hcl Hw Hc Hs0 | | | w s'' Hw He
                 | w a todo Hw Hc | Hcl Had Hcd | t Ht].
  - apply pinv_frame with s; simpl; auto. lia.
  - apply pinv_frame with s; simpl; auto. lia.
  - apply pinv_frame with s; simpl; auto; [|lia]. unfold tokens at 1. simpl. apply (tokens_move s k (t, v) rest Hb).
  - (* rendezvous *)
    destruct (Nat.eq_dec w 0) as [->|Hne].
    + destruct HI as [Hc' H1 H2|m Hc' Hm H0 H1 H2|u Hc' H0 H1 H2 H3|Hc' H1 H2|Hc' H1 H2]; try congruence.
      rewrite Hc in Hc'. inversion Hc' as [[E1 E2]]. destruct m as [|m].
      * exfalso. unfold pushes in E2. simpl in E2. inversion E2; subst. destruct Hs0 as [Hx|Hx]; discriminate.
      * rewrite pushes_S in E2. inversion E2; subst. destruct Hs0 as [Hx|Hx]; inversion Hx; subst.
        eapply (PI_push _ m); unfold T, B, batches, tokens in *; simpl; upd_simpl; simpl; auto; try lia.
        rewrite app_length. simpl. lia.
    + assert (k = 0) by (eapply data_sends_out; eauto). subst k.
      apply pinv_frame with s; simpl; upd_simpl; auto; try lia.
  - exact HI.
  - apply pinv_frame with s; simpl; auto. lia.
  - destruct (Nat.eq_dec w 0) as [->|Hne].
    + (* the pacer moves *)
      destruct He as [i a t rest Hsrc Hc Hb | Hsrc Hc | i Hsrc Hc Hb Hcl | ctl' Hcn Hdue Hsl Hsls
                     | eof a k0 v rest Hc Hs0 Hcl | eof k0 t r rest Hc Hb | dropped Hp Hnd Hnr Hnc Hwhy | eof a k0 v rest Hc Hs0 Hcl].
      * simpl in Hsrc. discriminate.
      * (* a new batch *)
        destruct HI as [Hc' H1 H2|m Hc' Hm H0 H1 H2|u Hc' H0 H1 H2 H3|Hc' H1 H2|Hc' H1 H2]; try congruence.
        eapply (PI_push _ ops); unfold T, B, batches, tokens in *; simpl; upd_simpl; auto.
        -- rewrite app_length. simpl. lia.
        -- rewrite app_length. simpl. rewrite H1. lia.
        -- rewrite app_length. simpl.
           replace (N.of_nat (length (wtaken (ws s 0)) + 1) - 1)%N with (N.of_nat (length (wtaken (ws s 0)))) by lia. exact H2.
      * simpl in Hsrc. discriminate.
      * (* silent control change *)
        assert (Htk : tokens (set_w s 0 (with_ctl (ws s 0) ctl')) = tokens s) by reflexivity.
        destruct HI as [Hc' H1 H2|m Hc' Hm H0 H1 H2|u Hc' H0 H1 H2 H3|Hc' H1 H2|Hc' H1 H2].
        -- rewrite Hc' in Hcn. inversion Hcn.
        -- destruct m as [|m].
           ++ (* going to sleep *)
              rewrite (Hsls false interval [] Hc').
              eapply PI_sleep; unfold T, B, batches in *; simpl; upd_simpl; simpl; auto.
              ** change (tokens (set_w s 0 (with_ctl (ws s 0) (WSleep (now s + interval) true false [])))) with (tokens s). lia.
              ** assert (E : (N.of_nat (length (wtaken (ws s 0))) = N.of_nat (length (wtaken (ws s 0))) - 1 + 1)%N) by lia.
                 rewrite E, N.mul_add_distr_r. lia.
           ++ exfalso. rewrite Hc', pushes_S in Hcn.
              inversion Hcn as [|? ? ? Hsk|? ? ? ? ? Hsk|]; subst.
              ** destruct Hsk as [Hx|[[x Hx]|[[d Hx]|[d Hx]]]]; discriminate.
              ** destruct Hsk as [[d Hx]|[d Hx]]; discriminate.
        -- rewrite Hc' in Hcn. inversion Hcn; subst. pose proof (Hdue u true false [] Hc') as Hd.
           apply PI_post; unfold T, B, batches in *; simpl; upd_simpl; simpl; rewrite ?Htk; auto. lia.
        -- rewrite Hc' in Hcn. inversion Hcn as [E1 E2| | |]; subst.
           apply PI_recv; unfold T, B, batches in *; simpl; upd_simpl; simpl; rewrite ?Htk; auto.
        -- rewrite Hc' in Hcn. inversion Hcn.
      * (* a token is pushed *)
        destruct HI as [Hc' H1 H2|m Hc' Hm H0 H1 H2|u Hc' H0 H1 H2 H3|Hc' H1 H2|Hc' H1 H2]; try congruence.
        rewrite Hc in Hc'. inversion Hc' as [[E1 E2]]. destruct m as [|m].
        -- exfalso. unfold pushes in E2. simpl in E2. inversion E2; subst. destruct Hs0 as [Hx|Hx]; discriminate.
        -- rewrite pushes_S in E2. inversion E2; subst. destruct Hs0 as [Hx|Hx]; inversion Hx; subst.
           eapply (PI_push _ m); unfold T, B, batches, tokens in *; simpl; upd_simpl; simpl; auto; try lia.
           rewrite app_length. simpl. lia.
      * (* the pacer never takes tokens *)
        exfalso. destruct HI as [Hc' H1 H2|m Hc' Hm H0 H1 H2|u Hc' H0 H1 H2 H3|Hc' H1 H2|Hc' H1 H2]; try congruence.
        rewrite Hc in Hc'. inversion Hc' as [[E1 E2]]. destruct m; unfold pushes in E2; simpl in E2; discriminate.
      * (* the pacer returns *)
        destruct (pinv_bound s HI) as [B1 B2].
        assert (Ef : finish c s 0 dropped =
                     close_all (set_w s 0 (mkW (wl (ws s 0)) WDone (wtaken (ws s 0)) (weof (ws s 0))
                                               (fun k => wdropped (ws s 0) k ++ emits k dropped))) [1]) by reflexivity.
        rewrite Ef. apply PI_done.
        -- rewrite close_all_ws'. simpl. upd_simpl. reflexivity.
        -- unfold T, B, batches. rewrite tokens_close_all, close_all_ws'. simpl. upd_simpl. simpl. exact B1.
        -- unfold B, batches. rewrite close_all_ws'.
           destruct (close_all_frame (set_w s 0 (mkW (wl (ws s 0)) WDone (wtaken (ws s 0)) (weof (ws s 0))
                       (fun k => wdropped (ws s 0) k ++ emits k dropped))) [1]) as (_ & _ & _ & _ & Hn & _).
           cbv zeta in Hn. rewrite Hn. simpl. upd_simpl. simpl. exact B2.
      * apply pinv_frame with s; simpl; auto. lia.
    + (* the data goroutine moves: the pacer's record is untouched, tokens only move *)
      destruct He as [i a t rest Hsrc Hc Hb | Hsrc Hc | i Hsrc Hc Hb Hcl | ctl' Hcn Hdue Hsl Hsls
                     | eof a k0 v rest Hc Hs0 Hcl | eof k0 t r rest Hc Hb | dropped Hp Hnd Hnr Hnc Hwhy | eof a k0 v rest Hc Hs0 Hcl];
        try (apply pinv_frame with s; simpl; upd_simpl; auto; lia).
      * assert (k0 = 0) by (eapply data_sends_out; eauto). subst k0.
        apply pinv_frame with s; simpl; upd_simpl; auto. lia.
      * apply pinv_frame with s; simpl; upd_simpl; auto; [|lia]. unfold tokens at 1. simpl. apply (tokens_move s k0 t r Hb).
      * destruct (finish_frame c s w dropped) as (F1 & F2 & F3).
        apply pinv_frame with s; auto; try lia.
  - destruct (Nat.eq_dec w 0) as [->|Hne].
    + destruct HI as [Hc' H1 H2|m Hc' Hm H0 H1 H2|u Hc' H0 H1 H2 H3|Hc' H1 H2|Hc' H1 H2]; congruence.
    + apply pinv_frame with s; simpl; upd_simpl; auto. lia.
  - simpl in Hcl. discriminate.
  - apply pinv_frame with s; simpl; auto. lia.
Qed.

Theorem pinv_reachable s : reachable c s -> pinv s.
Proof.
  apply (reachable_inv_strong c pinv); [|intros; eapply pinv_step; eauto].
  apply PI_recv; unfold T, B, batches, tokens; simpl; auto; lia.
Qed.

(* TOKENS_CUMULATIVE: at most ops tokens per interval, counted from the start, for any clock advance policy *)
Theorem tokens_rate s :
  reachable c s -> (0 < interval)%N ->
  (N.of_nat (tokens s) <= N.of_nat ops * (now s / interval + 1))%N.
Proof.
  intros Hr Hiv. destruct (pinv_bound s (pinv_reachable s Hr)) as [H1 H2]. unfold T, B, O in *.
  eapply N.le_trans; [exact H1|]. rewrite N.mul_comm. apply N.mul_le_mono_l.
  assert (Hq : (N.of_nat (batches s) = 0 \/ N.of_nat (batches s) - 1 <= now s / interval)%N).
  { destruct H2 as [H2|H2]; [left; exact H2|right]. apply N.div_le_lower_bound; [lia|]. rewrite N.mul_comm. exact H2. }
  revert Hq. generalize (now s / interval)%N. generalize (N.of_nat (batches s)). intros b q Hq. lia.
Qed.

End Rate.
