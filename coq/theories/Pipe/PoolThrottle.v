(* Throttling: two goroutines - the pacer (worker 0) pushes [ops] tokens per [interval] into the
   token channel (out 1), the data goroutine (worker 1) takes one token per element and forwards
   the element to out 0.  Content (exactly the input, in order, once), closure, and the rate:
   tokens pushed by time t <= ops * (t / interval + 1), deliveries <= tokens pushed (before cancel). *)
From Coq Require Import List ZArith NArith Bool Arith PeanoNat Lia.
From Golem Require Import Base.Lists Pipe.Pool Pipe.Stages Pipe.PoolEffects Pipe.PoolSteps Pipe.PoolInv Pipe.PoolInv2
     Pipe.PoolSafe Pipe.PoolClosed Pipe.PoolStop Pipe.PoolLive Pipe.PoolSimple Pipe.PoolActs Pipe.PoolSeq Pipe.PoolErr.
Import ListNotations.
Open Scope nat_scope.

Section Throttle.
Variables (ops : nat) (interval : N) (icaps ocaps : list nat).
Let c := throttle_stage ops interval icaps ocaps.

Lemma throttle_wf : wf_cfg c.
Proof.
  constructor; simpl; try discriminate.
  - intros _ w Hw. destruct w as [|[|w]]; [repeat constructor; simpl; tauto|repeat constructor; simpl; tauto|lia].
  - intros _ w w' k Hw Hw' H1 H2.
    destruct w as [|[|w]]; destruct w' as [|[|w']]; try lia; simpl in *; intuition; subst; discriminate.
  - intros w l a Hw x k v Hin Hs. right. simpl. intros w' Hw' Hk.
    destruct w as [|[|w]]; [|clear Hw|lia].
    + (* pacer sends only on the token channel 1 *)
      unfold plan_pacer in Hin. simpl in Hin. apply in_app_or in Hin. destruct Hin as [Hin|[Hin|[]]].
      * apply repeat_spec in Hin. subst x. destruct Hs as [Hs|Hs]; inversion Hs; subst.
        destruct w' as [|[|w']]; simpl in Hk; intuition; discriminate.
      * subst x. destruct Hs as [Hs|Hs]; discriminate.
    + simpl in Hin. destruct Hin as [Hin|[Hin|[]]]; subst x; destruct Hs as [Hs|Hs]; inversion Hs; subst.
      destruct w' as [|[|w']]; simpl in Hk; intuition; discriminate.
  - intros w l Hw x k v [].
Qed.

(* who may send where: the pacer only on the token channel, the data goroutine only on the output *)
Definition sendsto (w k : nat) : Prop := (w = 0 /\ k = 1) \/ (w <> 0 /\ k = 0).

Lemma throttle_sendsto_plan w l a :
  Forall (fun x => forall k v, sends_on x k v -> sendsto w k) (fst (plan c w l a)).
Proof.
  destruct w as [|w]; simpl.
  - unfold plan_pacer. simpl. apply Forall_app. split.
    + apply Forall_forall. intros x Hin. apply repeat_spec in Hin. subst. intros k v [H|H]; inversion H; subst. left. auto.
    + constructor; [|constructor]. intros k0 v0 [H|H]; discriminate.
  - constructor; [|constructor; [|constructor]]; intros k0 v0 [H|H]; inversion H; subst. right. auto.
Qed.

Lemma throttle_tags s : reachable c s ->
  (forall t v, In (t, v) (rcvd s 0 ++ cbuf (outs s 0)) -> t = 1) /\
  (forall t v, In (t, v) (rcvd s 1 ++ cbuf (outs s 1)) -> t = 0).
Proof.
  intros Hr.
  pose proof (chan_tags_reachable c sendsto throttle_sendsto_plan (fun _ _ => Forall_nil _) s Hr) as Hc.
  pose proof (tags_reachable c s Hr) as Ht.
  split; intros t v Hin.
  - destruct (Hc 0 t v Hin) as [[_ H]|[H _]]; [discriminate|]. specialize (Ht 0 t v Hin). simpl in Ht. lia.
  - destruct (Hc 1 t v Hin) as [[H _]|[_ H]]; [auto|discriminate].
Qed.

(* ---------- content: exactly the input elements, in order, once each ---------- *)
Lemma th_spec0 l xs : spec c 1 0 l xs = xs.
Proof. revert l. induction xs as [|x xs IH]; intros l; simpl; auto. now rewrite IH. Qed.
Lemma th_full_spec x : full_spec c 1 0 x = wtaken x.
Proof. unfold full_spec. rewrite th_spec0. simpl. destruct (weof x); apply app_nil_r. Qed.
Lemma th_stopped l xs : stopped c 1 l xs = false.
Proof. revert l. induction xs as [|x xs IH]; intros l; simpl; auto. Qed.

Theorem throttle_stream s :
  reachable c s ->
  delivered s 0 ++ map snd (cbuf (outs s 0)) ++ pend 0 (wc (ws s 1)) ++ wdropped (ws s 1) 0 = wtaken (ws s 1) /\
  sent s 0 = wtaken (ws s 1) ++ map snd (cbuf (ins s 0)).
Proof.
  intros Hr. split.
  - destruct (Inv1_reachable c s Hr 1 0) as (A & _). destruct (throttle_tags s Hr) as [T0 _].
    rewrite mine_all in A by exact T0. rewrite th_full_spec in A.
    unfold delivered. rewrite map_app, <- app_assoc in A. exact A.
  - destruct (inv2_reachable c s Hr) as [A B]. pose proof (csrc_reachable c s Hr) as Hs.
    pose proof (ctags_reachable c s Hr) as Ht.
    rewrite (B 1 0 eq_refl), mine_all; [apply A|].
    intros t v Hin. specialize (Hs 0 t v Hin). specialize (Ht 0 t v Hin). simpl in Ht.
    destruct t as [|[|t]]; [discriminate|reflexivity|lia].
Qed.

Theorem throttle_prefix s : reachable c s -> prefix (delivered s 0) (sent s 0).
Proof.
  intros Hr. destruct (throttle_stream s Hr) as [A B].
  eapply prefix_trans; [eapply prefix_of_app; exact A|]. eapply prefix_of_app. symmetry. exact B.
Qed.

(* the data goroutine has returned without cancel: it has seen the end of the input, forwarded everything,
   and its output is closed: "closes when the input closes" *)
Theorem throttle_complete s :
  reachable c s -> cancelled s = false -> wc (ws s 1) = WDone ->
  delivered s 0 ++ map snd (cbuf (outs s 0)) = sent s 0 /\ cclosed (ins s 0) = true /\ cclosed (outs s 0) = true.
Proof.
  intros Hr Hcn Hd. pose proof (Kinv_reachable c s Hr 1) as K.
  destruct (throttle_stream s Hr) as [A B].
  rewrite Hd in A. simpl in A. rewrite (k_dropped c s 1 K Hcn 0), !app_nil_r in A.
  destruct (k_done c s 1 K Hcn Hd) as [He|[Hs|[_ Hp]]].
  - destruct (k_input c s 1 K He 0 eq_refl) as [Hb Hcl]. rewrite Hb in B. simpl in B. rewrite app_nil_r in B.
    repeat split; auto; [congruence|].
    destruct (done_closed_reachable c throttle_wf s Hr) as [D _]. apply (D eq_refl 1); simpl; auto.
  - change (stopped c 1 0%Z (wtaken (ws s 1)) = true) in Hs. rewrite th_stopped in Hs. discriminate.
  - simpl in Hp. discriminate.
Qed.

Theorem throttle_nopanic s : reachable c s -> panicked s = false.
Proof. apply nopanic. apply throttle_wf. Qed.

Lemma th_pacer_plan_all (P : act -> Prop) :
  P (ASend 1 0%Z) -> P (ASleepSel interval) -> Forall P (repeat (ASend 1 0%Z) ops ++ [ASleepSel interval]).
Proof.
  intros H1 H2. apply Forall_app. split; [|repeat constructor; auto].
  apply Forall_forall. intros x Hx. apply repeat_spec in Hx. subst. exact H1.
Qed.

(* only the pacer ever waits for a timer *)
Lemma sleep_only_pacer s : reachable c s -> forall w u sel eof rest, wc (ws s w) = WSleep u sel eof rest -> w = 0.
Proof.
  assert (Hacts : forall s0, reachable c s0 -> forall w, Forall (fun x => sleepy x -> w = 0) (todo_of (wc (ws s0 w)))).
  { intros s0 H0. apply (actsw_reachable c (fun w x => sleepy x -> w = 0)); auto.
    - intros w [[d H]|[d H]]; discriminate.
    - intros w l a. destruct w; simpl.
      + apply (th_pacer_plan_all (fun x => sleepy x -> 0 = 0)); auto.
      + constructor; [|constructor; [|constructor]]; intros [[d H]|[d H]]; discriminate.
    - intros w l. constructor. }
  apply (reachable_inv_strong c (fun s => forall w u sel eof rest, wc (ws s w) = WSleep u sel eof rest -> w = 0)).
  - intros w u sel eof rest H. unfold init, init_worker in H. simpl in H. destruct (pre c w (l0 c w)); discriminate.
  - intros s0 e s' Hr HI Hs. destruct (step_effect c s0 e s' Hs) as [_ He].
    assert (Hother : forall w0 x, (forall u sel eof rest, wc x = WSleep u sel eof rest -> w0 = 0) ->
                     forall w u sel eof rest, wc (upd (ws s0) w0 x w) = WSleep u sel eof rest -> w = 0).
    { intros w0 x Hx w u1 sel1 eof1 rest1 H. destruct (Nat.eq_dec w w0) as [->|Hne]; upd_simpl_in H; eauto. }
    destruct He as [i x Hi Hcl | i Hi Hcl | k t v rest Hb | k v w eof a rest Hb Hcap Hcl Hw Hc Hs0 | | | w s'' Hw He
                   | w a todo Hw Hc | Hcl Had Hcd | t Ht];
      try (intros w0 u1 sel1 eof1 rest1 H; eapply HI; exact H).
    + apply Hother. simpl. discriminate.
    + destruct He as [i a t rest Hsrc Hc Hb | Hsrc Hc | i Hsrc Hc Hb Hcl | ctl' Hcn Hdue Hsl Hsls
                     | eof a k0 v rest Hc Hs0 Hcl | eof k0 t r rest Hc Hb | dropped Hp Hnd Hnr Hnc Hwhy | eof a k0 v rest Hc Hs0 Hcl];
        try (intros w0 u1 sel1 eof1 rest1 H; eapply HI; exact H); try (apply Hother; simpl; discriminate).
      * apply Hother. intros u1 sel1 eof1 rest1 H. destruct (take_fields c s0 w a) as (_ & _ & _ & _ & _ & _ & _).
        unfold take in H. destruct (plan c w (wl (ws s0 w)) a). simpl in H. discriminate.
      * apply Hother. intros u1 sel1 eof1 rest1 H. unfold take in H. destruct (plan c w (wl (ws s0 w)) 0%Z). simpl in H. discriminate.
      * apply Hother. simpl. intros u1 sel1 eof1 rest1 H. subst ctl'.
        inversion Hcn as [E1 E2|eof' h r Hsk E1 E2|eof' h r u' sel' Hsk E1 E2|u' sel' eof' r E1 E2]; subst.
        pose proof (Hacts s0 Hr w) as Ha. rewrite <- E1 in Ha. simpl in Ha. inversion Ha as [|? ? Hh _]. auto.
      * intros w0 u1 sel1 eof1 rest1 H.
        assert (Hf : ws (finish c s0 w dropped) = upd (ws s0) w (mkW (wl (ws s0 w)) WDone (wtaken (ws s0 w)) (weof (ws s0 w))
                                                        (fun k => wdropped (ws s0 w) k ++ emits k dropped))).
        { unfold finish. destruct (closer c); [|rewrite close_all_ws']; reflexivity. }
        rewrite Hf in H. eapply Hother; [|exact H]. simpl. intros; discriminate.
    + apply Hother. simpl. discriminate.
Qed.

(* only time can unblock a throttled stage: if nothing is enabled, the input is closed, nothing can be
   received from the output and the stage is not cancelled, then either the data goroutine has returned or
   the pacer is waiting for its timer - there is no deadlock *)
Theorem throttle_no_deadlock s :
  reachable c s -> cancelled s = false -> quiescent c s -> (forall v, step c s (ERcvd 0 v) = None) ->
  cclosed (ins s 0) = true -> (1 <= nth_cap ocaps 1) ->
  wc (ws s 1) = WDone \/ exists u sel eof rest, wc (ws s 0) = WSleep u sel eof rest.
Proof.
  intros Hr Hcn [Hq _] Hnr Hin Hops.
  pose proof (nopanic c throttle_wf s Hr) as Hp.
  assert (Hg : forall w, not_call (wc (ws s w))) by (apply (gated_never c eq_refl s Hr)).
  destruct (stuck_waits c s 1 (Hq 1 ltac:(simpl; lia))) as [Hd|i Hc Hs Hb Hcl'|a t Hc|eof k v rest Hc Hr' Hcl' Hcn'
                                            |eof k v rest Hc Hr' Hcl'|eof k rest Hc Hb Hcl' Hcn'|u sel eof rest Hc Ht Hsel]; auto.
  - simpl in Hs. inversion Hs; subst. congruence.
  - specialize (Hg 1). rewrite Hc in Hg. contradiction.
  - (* blocked sending on the output: then a receive would be possible *)
    exfalso.
    assert (k = 0).
    { pose proof (actsw_reachable c (fun w x => forall k v, sends_on x k v -> sendsto w k)
                    (fun w k v H => match H with or_introl E => ltac:(discriminate) | or_intror E => ltac:(discriminate) end)
                    throttle_sendsto_plan (fun _ _ => Forall_nil _) s Hr 1) as H.
      rewrite Hc in H. simpl in H. inversion H as [|? ? Hh _]. destruct (Hh k v (or_introl eq_refl)) as [[E _]|[_ E]]; [discriminate|auto]. }
    subst k. unfold has_room in Hr'. apply Nat.ltb_ge in Hr'.
    destruct (cbuf (outs s 0)) as [|[t0 v0] r] eqn:Eb.
    + simpl in Hr'. assert (Hcap : ccap (outs s 0) = 0) by lia.
      specialize (Hnr v). unfold step, step_ok in Hnr. rewrite Hp, Eb, Hcap, Hcl' in Hnr.
      change (Nat.eqb 0 0 && negb false) with true in Hnr. cbv iota in Hnr.
      destruct (find_sender s 0 v (par c)) eqn:Ef; [discriminate|].
      eapply (find_sender_complete s 0 v (par c) 1); eauto; try (simpl; lia); left; reflexivity.
    + specialize (Hnr v0). unfold step, step_ok in Hnr. rewrite Hp, Eb, Z.eqb_refl in Hnr. discriminate.
  - exfalso. pose proof (actsw_reachable c (fun w x => match x with APlain _ _ => False | _ => True end)
                    (fun _ => I)) as H.
    assert (Hpl : forall w l a, Forall (fun x => match x with APlain _ _ => False | _ => True end) (fst (plan c w l a))).
    { intros w l a. destruct w; simpl; [|repeat constructor]. unfold plan_pacer. apply Forall_app. split; [|repeat constructor].
      apply Forall_forall. intros x Hx. apply repeat_spec in Hx. subst. exact I. }
    specialize (H Hpl (fun _ _ => Forall_nil _) s Hr 1). rewrite Hc in H. inversion H as [|? ? Hh _]. exact Hh.
  - (* waiting for a token: the pacer is not stuck on a full token channel (it is empty), so it sleeps *)
    right.
    assert (k = 1).
    { pose proof (actsw_reachable c (fun w x => match x with ATok k => k = 1 | _ => True end) (fun _ => I)) as H.
      assert (Hpl : forall w l a, Forall (fun x => match x with ATok k => k = 1 | _ => True end) (fst (plan c w l a))).
      { intros w l a. destruct w; simpl; [|repeat constructor]. unfold plan_pacer. apply Forall_app. split; [|repeat constructor].
        apply Forall_forall. intros x Hx. apply repeat_spec in Hx. subst. exact I. }
      specialize (H Hpl (fun _ _ => Forall_nil _) s Hr 1). rewrite Hc in H. inversion H as [|? ? Hh _]. exact Hh. }
    subst k.
    destruct (stuck_waits c s 0 (Hq 0 ltac:(simpl; lia))) as [Hd0|i0 Hc0 Hs0 Hb0 Hcl0|a0 t0 Hc0|eof0 k0 v0 rest0 Hc0 Hr0 Hcl0 Hcn0
                                            |eof0 k0 v0 rest0 Hc0 Hr0 Hcl0|eof0 k0 rest0 Hc0 Hb0 Hcl0 Hcn0|u0 sel0 eof1 rest0 Hc0 Ht0 Hsel0].
    + (* the pacer returns only on cancel *)
      exfalso. pose proof (Kinv_reachable c s Hr 0) as K0.
      destruct (k_done c s 0 K0 Hcn Hd0) as [He|[Hs0|[_ Hp0]]].
      * rewrite (noeof_reachable c s Hr 0 eq_refl) in He. discriminate.
      * assert (Hns : forall l xs, stopped c 0 l xs = false).
        { intros l xs. revert l. induction xs as [|x xs IH]; intros l; simpl; auto.
          assert (has_stop (repeat (ASend 1 0%Z) ops ++ [ASleepSel interval]) = false).
          { clear. induction ops; simpl; auto. }
          rewrite H. simpl. apply IH. }
        rewrite Hns in Hs0. discriminate.
      * simpl in Hp0. discriminate.
    + simpl in Hs0. discriminate.
    + specialize (Hg 0). rewrite Hc0 in Hg. contradiction.
    + (* the pacer blocked on a full token channel: impossible, the channel is empty and has capacity ops >= 1 *)
      exfalso.
      assert (k0 = 1).
      { pose proof (actsw_reachable c (fun w x => forall k v, sends_on x k v -> sendsto w k)
                      (fun w k v H => match H with or_introl E => ltac:(discriminate) | or_intror E => ltac:(discriminate) end)
                      throttle_sendsto_plan (fun _ _ => Forall_nil _) s Hr 0) as H.
        rewrite Hc0 in H. simpl in H. inversion H as [|? ? Hh _].
        destruct (Hh k0 v0 (or_introl eq_refl)) as [[_ E]|[E _]]; [auto|congruence]. }
      subst k0. unfold has_room in Hr0. rewrite Hb in Hr0. simpl in Hr0. apply Nat.ltb_ge in Hr0.
      pose proof (caps_reachable c s Hr 1) as Hcap. simpl in Hcap. lia.
    + exfalso. pose proof (actsw_reachable c (fun w x => match x with APlain _ _ => False | _ => True end) (fun _ => I)) as H.
      assert (Hpl : forall w l a, Forall (fun x => match x with APlain _ _ => False | _ => True end) (fst (plan c w l a))).
      { intros w l a. destruct w; simpl; [|repeat constructor]. unfold plan_pacer. apply Forall_app. split; [|repeat constructor].
        apply Forall_forall. intros x Hx. apply repeat_spec in Hx. subst. exact I. }
      specialize (H Hpl (fun _ _ => Forall_nil _) s Hr 0). rewrite Hc0 in H. inversion H as [|? ? Hh _]. exact Hh.
    + exfalso. pose proof (actsw_reachable c (fun w x => match x with ATok _ => w <> 0 | _ => True end) (fun _ => I)) as H.
      assert (Hpl : forall w l a, Forall (fun x => match x with ATok _ => w <> 0 | _ => True end) (fst (plan c w l a))).
      { intros w l a. destruct w; simpl; [|repeat constructor; discriminate]. unfold plan_pacer. apply Forall_app. split; [|repeat constructor].
        apply Forall_forall. intros x Hx. apply repeat_spec in Hx. subst. exact I. }
      specialize (H Hpl (fun _ _ => Forall_nil _) s Hr 0). rewrite Hc0 in H. inversion H as [|? ? Hh _]. apply Hh. reflexivity.
    + eauto.
  - (* the data goroutine never sleeps *)
    exfalso. pose proof (sleep_only_pacer s Hr 1 u sel eof rest Hc). discriminate.
Qed.

End Throttle.
