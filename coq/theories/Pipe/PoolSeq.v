(* Sequential stages (one goroutine reading one input): what the invariants of the Pool
   machine say about the observable streams, for every schedule.  Stage-independent part. *)
From Coq Require Import List ZArith NArith Bool Arith PeanoNat Lia.
From Golem Require Import Base.Lists Pipe.Pool Pipe.PoolEffects Pipe.PoolSteps Pipe.PoolInv Pipe.PoolInv2
     Pipe.PoolSafe Pipe.PoolClosed Pipe.PoolStop Pipe.PoolLive Pipe.PoolSimple.
Import ListNotations.

(* values delivered to the consumer of output k so far, values handed over by the producer of input i *)
Definition delivered (s : state) (k : nat) : list val := map snd (rcvd s k).

Lemma mine_all w l : (forall t v, In (t, v) l -> t = w) -> mine w l = map snd l.
Proof.
  unfold mine. induction l as [|[t v] l IH]; intros H; simpl; auto.
  rewrite (H t v (or_introl eq_refl)). rewrite Nat.eqb_refl. simpl. f_equal.
  apply IH. intros t' v' Hin. apply (H t' v'). right. exact Hin.
Qed.

Section Seq.
Variable c : cfg.
Hypothesis Hpar : par c = 1.
Hypothesis Hsrc : src c 0 = SIn 0.

Let x (s : state) := ws s 0.

(* everything on the outputs comes from worker 0 *)
Theorem seq_stream s k :
  reachable c s ->
  delivered s k ++ map snd (cbuf (outs s k)) ++ pend k (wc (x s)) ++ wdropped (x s) k = full_spec c 0 k (x s).
Proof.
  intros Hr. destruct (Inv1_reachable c s Hr 0 k) as (A & _).
  pose proof (tags_reachable c s Hr) as Ht.
  rewrite mine_all in A.
  - unfold delivered. rewrite map_app, <- app_assoc in A. exact A.
  - intros t v Hin. specialize (Ht k t v Hin). lia.
Qed.

Theorem seq_delivered_prefix s k : reachable c s -> prefix (delivered s k) (full_spec c 0 k (x s)).
Proof. intros Hr. eapply prefix_of_app. apply seq_stream. exact Hr. Qed.

(* what worker 0 took is exactly the elements handed over, in order, minus what is still buffered *)
Theorem seq_taken s : reachable c s -> sent s 0 = wtaken (x s) ++ map snd (cbuf (ins s 0)).
Proof.
  intros Hr. destruct (inv2_reachable c s Hr) as [A B].
  pose proof (ctags_reachable c s Hr) as Ht.
  unfold x. rewrite (B 0 0 Hsrc), mine_all; [apply A|].
  intros t v Hin. specialize (Ht 0 t v Hin). lia.
Qed.

Theorem seq_taken_prefix s : reachable c s -> prefix (wtaken (x s)) (sent s 0).
Proof. intros Hr. eapply prefix_of_app. symmetry. apply seq_taken. exact Hr. Qed.

(* once the goroutine has seen the end of its input it has taken everything *)
Theorem seq_eof_all s : reachable c s -> weof (x s) = true -> wtaken (x s) = sent s 0.
Proof.
  intros Hr He. rewrite (seq_taken s Hr).
  destruct (k_input c s 0 (Kinv_reachable c s Hr 0) He 0 Hsrc) as [-> _]. simpl. now rewrite app_nil_r.
Qed.

(* the shape of what was taken, in terms of the `return`s in the plans *)
Inductive taken_shape (s : state) : Prop :=
| TS_eof : weof (x s) = true -> wtaken (x s) = sent s 0 -> stopped c 0 (l0 c 0) (sent s 0) = false -> taken_shape s
| TS_run : weof (x s) = false -> stopped c 0 (l0 c 0) (removelast (wtaken (x s))) = false -> taken_shape s.

Theorem seq_shape s : reachable c s -> taken_shape s.
Proof.
  intros Hr. pose proof (Kinv_reachable c s Hr 0) as K.
  destruct (weof (x s)) eqn:He.
  - apply TS_eof; auto; [apply seq_eof_all; auto|]. rewrite <- (seq_eof_all s Hr He). apply (k_eof c s 0 K He).
  - apply TS_run; auto. apply (k_before c s 0 K).
Qed.

(* ---------- completion (no cancel): DRAIN for a simple sequential stage ---------- *)
Hypothesis WF : wf_cfg c.
Hypothesis SC : simple_cfg c.
Hypothesis Hcloser : closer c = false.

Inductive final_shape (s : state) : Prop :=
| FS_eof : weof (x s) = true -> wtaken (x s) = sent s 0 -> stopped c 0 (l0 c 0) (sent s 0) = false -> final_shape s
| FS_stop : weof (x s) = false -> stopped c 0 (l0 c 0) (wtaken (x s)) = true ->
            stopped c 0 (l0 c 0) (removelast (wtaken (x s))) = false -> prefix (wtaken (x s)) (sent s 0) -> final_shape s
| FS_pre : weof (x s) = false -> wtaken (x s) = [] -> pre c 0 (l0 c 0) = false -> final_shape s.

Theorem seq_complete s :
  reachable c s -> cancelled s = false -> quiescent c s -> no_receive c s -> cclosed (ins s 0) = true ->
  wc (x s) = WDone /\
  (forall k, In k (wcloses c 0) -> cclosed (outs s k) = true) /\
  (forall k, delivered s k = full_spec c 0 k (x s)) /\
  final_shape s.
Proof.
  intros Hr Hcn Hq Hnr Hin.
  pose proof (nopanic c WF s Hr) as Hp.
  assert (Hdone : wc (x s) = WDone).
  { apply (drain c s Hp Hq Hnr).
    - intros w Hw i Hs. assert (w = 0) by lia. subst. rewrite Hsrc in Hs. inversion Hs; subst. exact Hin.
    - intros w Hw. pose proof (simple_reachable c SC s Hr w) as Hs.
      destruct (wc (ws s w)) as [| | ? [|[] ?] | |]; simpl in Hs; auto; inversion Hs; auto.
    - lia. }
  pose proof (Kinv_reachable c s Hr 0) as K.
  split; [exact Hdone|]. split; [|split].
  - intros k Hk. destruct (done_closed_reachable c WF s Hr) as [A _]. eapply (A Hcloser 0); eauto. lia.
  - intros k. pose proof (seq_stream s k Hr) as A. unfold x in *.
    rewrite (no_receive_empty c s k Hp Hnr), (k_dropped c s 0 K Hcn k) in A.
    rewrite Hdone in A. simpl in A. now rewrite !app_nil_r in A.
  - destruct (weof (x s)) eqn:He.
    + pose proof (seq_eof_all s Hr He) as Ht. apply FS_eof; auto. rewrite <- Ht. apply (k_eof c s 0 K He).
    + destruct (k_done c s 0 K Hcn Hdone) as [D|[D|[D1 D2]]].
      * unfold x in He. congruence.
      * apply FS_stop; auto; [apply (k_before c s 0 K)|apply seq_taken_prefix; auto].
      * apply FS_pre; auto.
Qed.

End Seq.
