(* C10 - proofs about the fork.Fold machine of ForkFold.v.
   The monoid laws are SECTION hypotheses (no axioms): the closed theorems quantify over them. *)
From Coq Require Import List Arith Bool Lia Permutation.
From Golem Require Import Pipe.ForkFold.
Import ListNotations.

(* ---------------------------------------------------------------------------------------------- *)
(* list surgery                                                                                     *)
(* ---------------------------------------------------------------------------------------------- *)
Lemma upd_split {X} (l : list X) (w : nat) (x : X) :
  nth_error l w = Some x ->
  exists l1 l2, l = l1 ++ x :: l2 /\ forall y, upd w y l = l1 ++ y :: l2.
Proof.
  intros Hn. destruct (nth_error_split l w Hn) as (l1 & l2 & Hl & Hlen).
  exists l1, l2. split; [exact Hl|]. intros y. unfold upd. subst l w.
  rewrite firstn_app, Nat.sub_diag, firstn_all, firstn_O, app_nil_r.
  rewrite skipn_app. rewrite skipn_all2 by lia.
  replace (S (length l1) - length l1) with 1 by lia. reflexivity.
Qed.

Lemma remove_split {X} (l : list X) (k : nat) (x : X) :
  nth_error l k = Some x ->
  exists a b, l = a ++ x :: b /\ remove_nth k l = a ++ b.
Proof.
  intros Hn. destruct (nth_error_split l k Hn) as (a & b & Hl & Hlen).
  exists a, b. split; [exact Hl|]. unfold remove_nth. subst l k.
  rewrite firstn_app, Nat.sub_diag, firstn_all, firstn_O, app_nil_r.
  rewrite skipn_app. rewrite skipn_all2 by lia.
  replace (S (length a) - length a) with 1 by lia. reflexivity.
Qed.

Lemma flat_map_mid {X Y} (f : X -> list Y) l1 x l2 :
  flat_map f (l1 ++ x :: l2) = flat_map f l1 ++ f x ++ flat_map f l2.
Proof. rewrite flat_map_app. reflexivity. Qed.

Lemma forallb_mid {X} (p : X -> bool) l1 x l2 :
  forallb p (l1 ++ x :: l2) = forallb p l1 && (p x && forallb p l2).
Proof. rewrite forallb_app. reflexivity. Qed.

Lemma list_sum_mid l1 x l2 : list_sum (l1 ++ x :: l2) = list_sum l1 + x + list_sum l2.
Proof. rewrite list_sum_app. change (list_sum (x :: l2)) with (x + list_sum l2). lia. Qed.

(* ---------------------------------------------------------------------------------------------- *)
(* the pure lemma: folds of any partition of any permutation                                        *)
(* ---------------------------------------------------------------------------------------------- *)
Section Pure.
Context {A : Type}.
Variable combine : A -> A -> A.
Variable empty : A.
Hypothesis assoc : forall a b c, combine (combine a b) c = combine a (combine b c).
Hypothesis comm : forall a b, combine a b = combine b a.
Hypothesis idl : forall a, combine empty a = a.

Definition foldm (l : list A) : A := fold_left combine l empty.

Lemma idr a : combine a empty = a.
Proof. rewrite comm. apply idl. Qed.

Lemma fold_left_acc l : forall a, fold_left combine l a = combine a (foldm l).
Proof.
  unfold foldm. induction l as [|x l IH]; intros a; cbn.
  - symmetry. apply idr.
  - rewrite IH. rewrite (IH (combine empty x)). rewrite idl. apply assoc.
Qed.

Lemma fold_left_perm l l' : Permutation l l' -> forall a, fold_left combine l a = fold_left combine l' a.
Proof.
  induction 1 as [|x l l' HP IH|x y l|l l' l'' HP1 IH1 HP2 IH2]; intros a; cbn.
  - reflexivity.
  - apply IH.
  - f_equal. rewrite !assoc. f_equal. apply comm.
  - rewrite IH1. apply IH2.
Qed.

Lemma fold_concat parts : forall a,
  fold_left combine (map foldm parts) a = fold_left combine (concat parts) a.
Proof.
  induction parts as [|p parts IH]; intros a; cbn.
  - reflexivity.
  - rewrite IH. rewrite fold_left_app. f_equal. symmetry. apply fold_left_acc.
Qed.

(* combining the folds of ANY partition [parts] of ANY permutation of [xs], in ANY order [got] *)
Lemma fold_partition parts got xs :
  Permutation (concat parts) xs -> Permutation got (map foldm parts) -> foldm got = foldm xs.
Proof.
  intros Hx Hg. unfold foldm.
  rewrite (fold_left_perm _ _ Hg). rewrite fold_concat. apply fold_left_perm. exact Hx.
Qed.

(* ---------------------------------------------------------------------------------------------- *)
(* the machine                                                                                      *)
(* ---------------------------------------------------------------------------------------------- *)
Variable par : nat.

Notation stepm := (step combine empty par).
Notation state := (@state A).
Notation wst := (@wst A).

Definition partial_of (w : wst) : list A := match w with WDone t => [foldm t] | _ => [] end.
Definition acc_ok (w : wst) : Prop := match w with WLoop t a | WSend t a => a = foldm t | WDone _ => True end.
Definition is_loop (w : wst) : bool := match w with WLoop _ _ => true | _ => false end.
Definition flags0 (s : state) : Prop :=
  vals_closed s = false /\ d_closed s = false /\ dbuf s = [] /\ rcvd s = [] /\ seen_closed s = false.
Definition col_ok (s : state) : Prop :=
  match col s with
  | CWait => got s = [] /\ flags0 s
  | CLoop i acc => i = length (got s) /\ acc = foldm (got s) /\ forallb is_done (ws s) = true /\ i <= par /\ flags0 s
  | CSent => length (got s) = par /\ forallb is_done (ws s) = true /\ vals_closed s = false /\ d_closed s = false
             /\ rcvd s ++ dbuf s = [foldm (got s)] /\ seen_closed s = false
  | CDone => length (got s) = par /\ forallb is_done (ws s) = true /\ vals_closed s = true /\ d_closed s = true
             /\ rcvd s ++ dbuf s = [foldm (got s)] /\ (seen_closed s = true -> dbuf s = [])
  end.

Record Inv (s : state) : Prop := mkInv {
  I_len : length (ws s) = par;
  I_np : panic s = false;
  I_perm : Permutation (flat_map taken (ws s) ++ inbuf s) (sent s);      (* every element: one worker or still queued *)
  I_acc : Forall acc_ok (ws s);
  I_exit : forallb is_loop (ws s) = true \/ (in_closed s = true /\ inbuf s = []);
  I_part : Permutation (got s ++ vals s) (flat_map partial_of (ws s));    (* every finished worker's partial: once *)
  I_col : col_ok s
}.

Lemma repeat_props n :
  flat_map taken (repeat (WLoop [] empty) n) = [] /\ Forall acc_ok (repeat (WLoop [] empty) n)
  /\ forallb is_loop (repeat (WLoop [] empty) n) = true /\ flat_map partial_of (repeat (WLoop [] empty) n) = [].
Proof.
  induction n as [|n (H1 & H2 & H3 & H4)]; cbn.
  - repeat split; constructor.
  - repeat split; auto. constructor; [reflexivity|exact H2].
Qed.

Lemma inv_init : Inv (init empty par).
Proof.
  destruct (repeat_props par) as (H1 & H2 & H3 & H4).
  constructor; cbn.
  - apply repeat_length.
  - reflexivity.
  - rewrite H1. constructor.
  - exact H2.
  - left. exact H3.
  - rewrite H4. constructor.
  - unfold col_ok, flags0; cbn. repeat split.
Qed.

Lemma done_mid (l1 l2 : list wst) x : forallb is_done (l1 ++ x :: l2) = true -> is_done x = true.
Proof. rewrite forallb_mid. intros H. apply andb_prop in H as [_ H]. apply andb_prop in H as [H _]. exact H. Qed.

Lemma loop_mid (l1 l2 : list wst) x : forallb is_loop (l1 ++ x :: l2) = true -> is_loop x = true.
Proof. rewrite forallb_mid. intros H. apply andb_prop in H as [_ H]. apply andb_prop in H as [H _]. exact H. Qed.

(* a worker that is not done keeps the collector waiting *)
Lemma col_wait (s : state) l1 l2 x :
  col_ok s -> ws s = l1 ++ x :: l2 -> is_done x = false -> col s = CWait.
Proof.
  unfold col_ok. intros Hc Hws Hx.
  assert (Hnd : forallb is_done (ws s) = true -> False).
  { intros Hd. rewrite Hws in Hd. apply done_mid in Hd. congruence. }
  destruct (col s) as [|i acc| |]; [reflexivity| | |]; exfalso; apply Hnd.
  - destruct Hc as (_ & _ & Hd & _). exact Hd.
  - destruct Hc as (_ & Hd & _). exact Hd.
  - destruct Hc as (_ & Hd & _). exact Hd.
Qed.

Lemma inv_step s e s' : Inv s -> stepm s e = Some s' -> Inv s'.
Proof.
  intros [Hlen Hnp Hperm Hacc Hexit Hpart Hcol] Hst.
  unfold step in Hst. rewrite Hnp in Hst.
  destruct e as [x| |w k|w|w| | | ].
  - (* EIn *)
    destruct (in_closed s) eqn:Hic; [discriminate|]. inversion Hst; subst s'; clear Hst.
    constructor; cbn; auto.
    + rewrite app_assoc. apply Permutation_app_tail. exact Hperm.
    + destruct Hexit as [Hl|[Hc _]]; [left; exact Hl | congruence].
  - (* ECloseIn *)
    destruct (in_closed s) eqn:Hic; [discriminate|]. inversion Hst; subst s'; clear Hst.
    constructor; cbn; auto.
    destruct Hexit as [Hl|[Hc _]]; [left; exact Hl | congruence].
  - (* ETake *)
    destruct (nth_error (ws s) w) as [[t acc|t acc|t]|] eqn:Hw; try discriminate.
    destruct (nth_error (inbuf s) k) as [x|] eqn:Hk; try discriminate.
    inversion Hst; subst s'; clear Hst.
    destruct (upd_split _ _ _ Hw) as (l1 & l2 & Hws & Hupd).
    destruct (remove_split _ _ _ Hk) as (a & b & Hin & Hrm).
    assert (Hcw : col s = CWait) by (eapply col_wait; eauto).
    constructor; cbn; rewrite ?Hupd, ?Hrm.
    + rewrite <- Hlen, Hws, !app_length. reflexivity.
    + reflexivity.
    + rewrite Hws, Hin in Hperm. rewrite flat_map_mid in *. cbn [taken] in *.
      etransitivity; [|exact Hperm].
      rewrite <- !app_assoc. apply Permutation_app_head. apply Permutation_app_head.
      cbn. rewrite !app_assoc. apply Permutation_middle.
    + rewrite Hws in Hacc. apply Forall_app in Hacc as [Ha1 Ha2]. apply Forall_app; split; [exact Ha1|].
      inversion Ha2 as [|? ? Hx Ha3]; subst. constructor; [|exact Ha3].
      cbn in *. subst acc. unfold foldm. rewrite fold_left_app. reflexivity.
    + destruct Hexit as [Hl|[_ Hn]].
      * left. rewrite Hws in Hl. rewrite forallb_mid in *. exact Hl.
      * rewrite Hin in Hn. destruct a; discriminate.
    + rewrite Hws in Hpart. rewrite flat_map_mid in *. exact Hpart.
    + unfold col_ok, flags0 in *; cbn. rewrite Hcw in *. intuition auto.
  - (* EExit *)
    destruct (nth_error (ws s) w) as [[t acc|t acc|t]|] eqn:Hw; try discriminate.
    destruct (in_closed s && is_nil (inbuf s)) eqn:Hc; try discriminate.
    inversion Hst; subst s'; clear Hst.
    apply andb_prop in Hc as [Hc1 Hc2].
    assert (Hnil : inbuf s = []) by (destruct (inbuf s); [reflexivity|discriminate]).
    destruct (upd_split _ _ _ Hw) as (l1 & l2 & Hws & Hupd).
    assert (Hcw : col s = CWait) by (eapply col_wait; eauto).
    constructor; cbn; rewrite ?Hupd.
    + rewrite <- Hlen, Hws, !app_length. reflexivity.
    + reflexivity.
    + rewrite Hws in Hperm. rewrite flat_map_mid in *. exact Hperm.
    + rewrite Hws in Hacc. apply Forall_app in Hacc as [Ha1 Ha2]. apply Forall_app; split; [exact Ha1|].
      inversion Ha2 as [|? ? Hx Ha3]; subst. constructor; [exact Hx|exact Ha3].
    + right. split; assumption.
    + rewrite Hws in Hpart. rewrite flat_map_mid in *. exact Hpart.
    + unfold col_ok, flags0 in *; cbn. rewrite Hcw in *. intuition auto.
  - (* EHand *)
    destruct (nth_error (ws s) w) as [[t acc|t acc|t]|] eqn:Hw; try discriminate.
    destruct (upd_split _ _ _ Hw) as (l1 & l2 & Hws & Hupd).
    assert (Hcw : col s = CWait) by (eapply col_wait; eauto).
    assert (Hvc : vals_closed s = false).
    { unfold col_ok in Hcol. rewrite Hcw in Hcol. destruct Hcol as (_ & Hf & _). exact Hf. }
    rewrite Hvc in Hst.
    destruct (length (vals s) <? par) eqn:Hlt; try discriminate.
    inversion Hst; subst s'; clear Hst.
    constructor; cbn; rewrite ?Hupd.
    + rewrite <- Hlen, Hws, !app_length. reflexivity.
    + reflexivity.
    + rewrite Hws in Hperm. rewrite flat_map_mid in *. exact Hperm.
    + rewrite Hws in Hacc. apply Forall_app in Hacc as [Ha1 Ha2]. apply Forall_app; split; [exact Ha1|].
      inversion Ha2 as [|? ? Hx Ha3]; subst. constructor; [exact I|exact Ha3].
    + destruct Hexit as [Hl|Hr]; [|right; exact Hr].
      rewrite Hws in Hl. apply loop_mid in Hl. discriminate.
    + rewrite Hws in Hpart, Hacc. rewrite flat_map_mid in *. cbn [partial_of] in *.
      apply Forall_app in Hacc as [_ Ha2]. inversion Ha2 as [|? ? Hx _]; subst. cbn in Hx. subst acc.
      rewrite app_assoc. etransitivity; [symmetry; apply Permutation_cons_append|].
      cbn. apply Permutation_cons_app. exact Hpart.
    + unfold col_ok, flags0 in *; cbn. rewrite Hcw in *. intuition auto.
  - (* ECol *)
    unfold col_ok in Hcol.
    destruct (col s) as [|i acc| |] eqn:Hcs.
    + destruct (forallb is_done (ws s)) eqn:Hd; try discriminate.
      inversion Hst; subst s'; clear Hst.
      destruct Hcol as (Hg & Hf).
      constructor; cbn; auto.
      unfold col_ok; cbn. rewrite Hg. cbn. repeat split; try apply Hf; auto. lia.
    + destruct Hcol as (Hi & Ha & Hd & Hle & Hf). destruct Hf as (Hf1 & Hf2 & Hf3 & Hf4 & Hf5).
      destruct (i <? par) eqn:Hlt.
      * destruct (vals s) as [|v r] eqn:Hv; try discriminate.
        inversion Hst; subst s'; clear Hst.
        apply Nat.ltb_lt in Hlt.
        constructor; cbn; auto.
        -- rewrite <- app_assoc. exact Hpart.
        -- unfold col_ok, flags0; cbn. rewrite app_length; cbn.
           repeat split; auto; try lia.
           subst acc. unfold foldm. rewrite fold_left_app. reflexivity.
      * rewrite Hf2, Hf3 in Hst. cbn in Hst.
        inversion Hst; subst s'; clear Hst.
        apply Nat.ltb_ge in Hlt.
        constructor; cbn; auto.
        unfold col_ok; cbn. rewrite Hf4. cbn. repeat split; auto; try lia. subst acc. reflexivity.
    + destruct Hcol as (Hl & Hd & Hf1 & Hf2 & Hr & Hsn).
      rewrite Hf1, Hf2 in Hst. cbn in Hst.
      inversion Hst; subst s'; clear Hst.
      constructor; cbn; auto.
      unfold col_ok; cbn. repeat split; auto. congruence.
    + discriminate.
  - (* ERcvd *)
    destruct (dbuf s) as [|v r] eqn:Hdb; try discriminate.
    inversion Hst; subst s'; clear Hst.
    constructor; cbn; auto.
    unfold col_ok, flags0 in *; cbn. destruct (col s) as [|i acc| |].
    + destruct Hcol as (_ & _ & _ & Hf & _). congruence.
    + destruct Hcol as (_ & _ & _ & _ & _ & _ & Hf & _). congruence.
    + destruct Hcol as (Hl & Hd & Hf1 & Hf2 & Hr & Hsn).
      repeat split; auto. rewrite <- app_assoc. rewrite Hdb in Hr. exact Hr.
    + destruct Hcol as (Hl & Hd & Hf1 & Hf2 & Hr & Hsn).
      repeat split; auto.
      * rewrite <- app_assoc. rewrite Hdb in Hr. exact Hr.
      * intros Hs. apply Hsn in Hs. congruence.
  - (* ERcvdClosed *)
    destruct (d_closed s && is_nil (dbuf s) && negb (seen_closed s)) eqn:Hc; try discriminate.
    inversion Hst; subst s'; clear Hst.
    apply andb_prop in Hc as [Hc Hc3]. apply andb_prop in Hc as [Hc1 Hc2].
    assert (Hnil : dbuf s = []) by (destruct (dbuf s); [reflexivity|discriminate]).
    constructor; cbn; auto.
    unfold col_ok, flags0 in *; cbn. destruct (col s) as [|i acc| |].
    + destruct Hcol as (_ & _ & Hf & _). congruence.
    + destruct Hcol as (_ & _ & _ & _ & _ & Hf & _). congruence.
    + destruct Hcol as (_ & _ & _ & Hf & _). congruence.
    + destruct Hcol as (Hl & Hd & Hf1 & Hf2 & Hr & Hsn). repeat split; auto.
Qed.

Lemma inv_exec_from tr : forall s s', Inv s -> exec_from combine empty par s tr = Some s' -> Inv s'.
Proof.
  induction tr as [|e tr IH]; intros s s' HI He; cbn in He.
  - inversion He; subst; exact HI.
  - destruct (stepm s e) as [s1|] eqn:Hs; [|discriminate].
    eapply IH; [|exact He]. eapply inv_step; eauto.
Qed.

Lemma inv_exec tr s : exec combine empty empty par tr = Some s -> Inv s.
Proof. unfold exec. apply inv_exec_from. apply inv_init. Qed.

(* ---- what the invariant says once the collector is through ---- *)
Lemma all_done_partials (l : list wst) :
  forallb is_done l = true ->
  flat_map partial_of l = map foldm (map taken l) /\ (forallb is_loop l = true -> l = []).
Proof.
  intros Hd. split.
  - induction l as [|[t a|t a|t] l IH]; cbn in *; try discriminate; [reflexivity|].
    f_equal. apply IH. exact Hd.
  - destruct l as [|[t a|t a|t] l]; cbn in *; try discriminate; auto.
Qed.

Lemma flat_map_concat_map {X Y} (f : X -> list Y) l : flat_map f l = concat (map f l).
Proof. induction l; cbn; congruence. Qed.

Lemma collected (s : state) :
  1 <= par -> Inv s -> length (got s) = par -> forallb is_done (ws s) = true ->
  foldm (got s) = foldm (sent s) /\ inbuf s = [] /\ in_closed s = true /\ vals s = []
  /\ Permutation (concat (map taken (ws s))) (sent s).
Proof.
  intros Hpar [Hlen Hnp Hperm Hacc Hexit Hpart Hcol] Hg Hd.
  destruct (all_done_partials _ Hd) as [Hp Hl].
  assert (Hin : in_closed s = true /\ inbuf s = []).
  { destruct Hexit as [Hlo|Hr]; [|exact Hr]. apply Hl in Hlo. rewrite Hlo in Hlen. cbn in Hlen. lia. }
  destruct Hin as [Hic Hib].
  assert (Hv : vals s = []).
  { apply Permutation_length in Hpart. rewrite Hp, app_length, !map_length in Hpart.
    destruct (vals s); [reflexivity|cbn in Hpart; lia]. }
  rewrite Hv, app_nil_r, Hp in Hpart. rewrite Hib, app_nil_r, flat_map_concat_map in Hperm.
  repeat split; auto.
  eapply fold_partition; eauto.
Qed.

(* ---------------------------------------------------------------------------------------------- *)
(* fork_fold_eq                                                                                     *)
(* ---------------------------------------------------------------------------------------------- *)
Theorem fork_fold_eq :
  1 <= par ->
  forall (tr : list ev) (s : state),
    exec combine empty empty par tr = Some s ->
    (* nothing crashes *)
    panic s = false
    (* at most one value, and it is the sequential left fold of everything sent *)
    /\ (rcvd s = [] \/ rcvd s = [fold_left combine (sent s) empty])
    (* once the consumer has seen the channel closed it holds exactly that one value,
       and the workers' shares are a partition of a permutation of the input (every element exactly once) *)
    /\ (seen_closed s = true ->
        rcvd s = [fold_left combine (sent s) empty] /\ dbuf s = []
        /\ Permutation (concat (map taken (ws s))) (sent s))
    (* at any time: every element sent is held by exactly one worker or still queued,
       and each worker's accumulator is the fold of its own share *)
    /\ Permutation (concat (map taken (ws s)) ++ inbuf s) (sent s)
    /\ Forall acc_ok (ws s)
    (* the only state without any enabled step, once the input is closed, is the finished one *)
    /\ (in_closed s = true -> (forall e, stepm s e = None) -> final s)
    (* every step of the library or of the consumer decreases the measure: no livelock *)
    /\ (forall e s', is_input e = false -> stepm s e = Some s' -> mu par s' < mu par s).
Proof.
  intros Hpar tr s He. pose proof (inv_exec _ _ He) as HI.
  pose proof HI as [Hlen Hnp Hperm Hacc Hexit Hpart Hcol].
  split; [exact Hnp|].
  assert (Hres : match col s with CSent | CDone => rcvd s ++ dbuf s = [foldm (sent s)] | _ => rcvd s = [] end).
  { unfold col_ok, flags0 in Hcol. destruct (col s) as [|i acc| |].
    - apply Hcol.
    - apply Hcol.
    - destruct Hcol as (Hl & Hd & _ & _ & Hr & _).
      destruct (collected s Hpar HI Hl Hd) as (Hf & _). rewrite <- Hf. exact Hr.
    - destruct Hcol as (Hl & Hd & _ & _ & Hr & _).
      destruct (collected s Hpar HI Hl Hd) as (Hf & _). rewrite <- Hf. exact Hr. }
  split.
  { assert (Hone : forall (l d : list A) x, l ++ d = [x] -> l = [] \/ l = [x]).
    { intros l d x H. destruct l as [|y [|z l]]; [left; reflexivity| |discriminate].
      cbn in H. inversion H; subst. right; reflexivity. }
    destruct (col s); [left; exact Hres|left; exact Hres| |]; exact (Hone _ _ _ Hres). }
  split.
  { intros Hs. unfold col_ok, flags0 in Hcol. destruct (col s) as [|i acc| |].
    - destruct Hcol as (_ & _ & _ & _ & _ & Hf). congruence.
    - destruct Hcol as (_ & _ & _ & _ & _ & _ & _ & _ & Hf). congruence.
    - destruct Hcol as (_ & _ & _ & _ & _ & Hf). congruence.
    - destruct Hcol as (Hl & Hd & _ & _ & Hr & Hsn).
      destruct (collected s Hpar HI Hl Hd) as (Hf & _ & _ & _ & Hp).
      specialize (Hsn Hs). rewrite Hsn, app_nil_r in Hres. auto. }
  split; [rewrite <- flat_map_concat_map; exact Hperm|].
  split; [exact Hacc|].
  split.
  { (* progress *)
    intros Hic Hstuck. unfold final.
    assert (Hs : forall e, stepm s e = None) by exact Hstuck.
    unfold step in Hs. setoid_rewrite Hnp in Hs.
    (* some worker still in its loop? *)
    destruct (forallb is_done (ws s)) eqn:Hd.
    - unfold col_ok, flags0 in Hcol. pose proof (Hs ECol) as Hc. cbv beta iota in Hc.
      destruct (col s) as [|i acc| |] eqn:Hcs; rewrite ?Hcs in Hc.
      + rewrite ?Hd in Hc. discriminate.
      + destruct Hcol as (Hi & Ha & _ & Hle & Hf1 & Hf2 & Hf3 & _).
        destruct (i <? par) eqn:Hlt.
        * apply Nat.ltb_lt in Hlt. destruct (vals s) eqn:Hv; [|discriminate].
          destruct (all_done_partials _ Hd) as [Hp _].
          apply Permutation_length in Hpart. rewrite ?Hv, Hp, app_length, !map_length in Hpart.
          cbn in Hpart. lia.
        * rewrite Hf2, Hf3 in Hc. discriminate.
      + destruct Hcol as (_ & _ & Hf1 & Hf2 & _). rewrite Hf1, Hf2 in Hc. discriminate.
      + destruct Hcol as (_ & _ & _ & Hf2 & Hr & Hsn).
        pose proof (Hs ERcvd) as Hr1. cbv beta iota in Hr1.
        destruct (dbuf s) eqn:Hdb; [|discriminate].
        pose proof (Hs ERcvdClosed) as Hr2. cbv beta iota in Hr2. rewrite ?Hf2, ?Hdb in Hr2. cbn in Hr2.
        destruct (seen_closed s); [auto|discriminate].
    - (* a worker is not done: it can move *)
      exfalso.
      assert (Hex : exists w x, nth_error (ws s) w = Some x /\ is_done x = false).
      { clear - Hd. induction (ws s) as [|x l IH]; cbn in Hd; [discriminate|].
        destruct (is_done x) eqn:Hx.
        - destruct (IH Hd) as (w & y & Hn & Hy). exists (S w), y. auto.
        - exists 0, x. auto. }
      destruct Hex as (w & x & Hw & Hx).
      destruct (upd_split _ _ _ Hw) as (l1 & l2 & Hws & _).
      pose proof (col_wait s l1 l2 x Hcol Hws Hx) as Hcw.
      destruct x as [t a|t a|t]; [| |discriminate].
      + destruct (inbuf s) as [|y r] eqn:Hib.
        * pose proof (Hs (EExit w)) as H1. cbv beta iota in H1. rewrite Hw, Hic, ?Hib in H1. discriminate.
        * pose proof (Hs (ETake w 0)) as H1. cbv beta iota in H1. rewrite Hw, ?Hib in H1. discriminate.
      + pose proof (Hs (EHand w)) as H1. cbv beta iota in H1. rewrite Hw in H1.
        unfold col_ok, flags0 in Hcol. rewrite Hcw in Hcol. destruct Hcol as (Hg & Hvc & _).
        rewrite Hvc in H1.
        destruct (length (vals s) <? par) eqn:Hlt; [discriminate|].
        apply Nat.ltb_ge in Hlt.
        apply Permutation_length in Hpart. rewrite Hg in Hpart. cbn in Hpart.
        rewrite Hws, flat_map_mid, !app_length in Hpart. cbn in Hpart.
        assert (Hb : forall l : list wst, length (flat_map partial_of l) <= length l).
        { induction l as [|[? ?|? ?|?] l IH]; cbn; lia. }
        pose proof (Hb l1). pose proof (Hb l2).
        rewrite Hws, app_length in Hlen. cbn in Hlen. lia. }
  { (* variant *)
    intros e s' Hin Hst. unfold step in Hst. rewrite Hnp in Hst. unfold mu.
    destruct e as [x| |w k|w|w| | | ]; try discriminate.
    - destruct (nth_error (ws s) w) as [[t acc|t acc|t]|] eqn:Hw; try discriminate.
      destruct (nth_error (inbuf s) k) as [x|] eqn:Hk; try discriminate.
      inversion Hst; subst s'; clear Hst. cbn.
      destruct (upd_split _ _ _ Hw) as (l1 & l2 & Hws & Hupd).
      destruct (remove_split _ _ _ Hk) as (a & b & Hib & Hrm).
      rewrite Hupd, Hrm, Hws, Hib, !map_app, !app_length. cbn. rewrite !list_sum_mid. cbn. lia.
    - destruct (nth_error (ws s) w) as [[t acc|t acc|t]|] eqn:Hw; try discriminate.
      destruct (in_closed s && is_nil (inbuf s)); try discriminate.
      inversion Hst; subst s'; clear Hst. cbn.
      destruct (upd_split _ _ _ Hw) as (l1 & l2 & Hws & Hupd).
      rewrite Hupd, Hws, !map_app. cbn. rewrite !list_sum_mid. cbn. lia.
    - destruct (nth_error (ws s) w) as [[t acc|t acc|t]|] eqn:Hw; try discriminate.
      destruct (upd_split _ _ _ Hw) as (l1 & l2 & Hws & Hupd).
      assert (Hcw : col s = CWait) by (eapply col_wait; eauto).
      unfold col_ok, flags0 in Hcol. rewrite Hcw in Hcol. destruct Hcol as (_ & Hvc & _).
      rewrite Hvc in Hst.
      destruct (length (vals s) <? par); try discriminate.
      inversion Hst; subst s'; clear Hst. cbn.
      rewrite Hupd, Hws, !map_app. cbn. rewrite !list_sum_mid. cbn. lia.
    - unfold col_ok, flags0 in Hcol.
      destruct (col s) as [|i acc| |] eqn:Hcs.
      + destruct (forallb is_done (ws s)); try discriminate.
        inversion Hst; subst s'; clear Hst. cbn. unfold list_sum. lia.
      + destruct Hcol as (Hi & Ha & _ & Hle & Hf1 & Hf2 & Hf3 & _).
        destruct (i <? par) eqn:Hlt.
        * apply Nat.ltb_lt in Hlt. destruct (vals s); try discriminate.
          inversion Hst; subst s'; clear Hst. cbn. unfold list_sum. lia.
        * rewrite Hf2, Hf3 in Hst. cbn in Hst.
          inversion Hst; subst s'; clear Hst. cbn. rewrite Hf3. cbn. unfold list_sum. lia.
      + destruct Hcol as (_ & _ & Hf1 & Hf2 & _). rewrite Hf1, Hf2 in Hst. cbn in Hst.
        inversion Hst; subst s'; clear Hst. cbn. unfold list_sum. lia.
      + discriminate.
    - destruct (dbuf s) as [|v r] eqn:Hdb; try discriminate.
      inversion Hst; subst s'; clear Hst. cbn. unfold list_sum. lia.
    - destruct (d_closed s && is_nil (dbuf s) && negb (seen_closed s)) eqn:Hc; try discriminate.
      inversion Hst; subst s'; clear Hst. cbn.
      apply andb_prop in Hc as [_ Hc]. destruct (seen_closed s); [discriminate|]. unfold list_sum. lia. }
Qed.

End Pure.

(* ---------------------------------------------------------------------------------------------- *)
(* closed instances and witnesses                                                                   *)
(* ---------------------------------------------------------------------------------------------- *)
From Coq Require Import ZArith.
Local Open Scope Z_scope.

(* why the repaired line (collector starts from m.Empty(), fork.go) matters: with the product monoid and a
   collector starting from the zero value 0, a complete run over [1;2;3;4] with two workers delivers 0, not 24 *)
Lemma fork_fold_acc0_matters :
  exists (tr : list ev) s,
    exec Z.mul 1 0 2 tr = Some s /\ sent s = [1; 2; 3; 4] /\ seen_closed s = true
    /\ rcvd s = [0] /\ fold_left Z.mul [1; 2; 3; 4] 1 = 24.
Proof.
  exists (sched 2 (fun i => Nat.modulo i 2) [0%nat; 1%nat] [1; 2; 3; 4]).
  eexists. split; [vm_compute; reflexivity|]. repeat split.
Qed.

(* non-vacuity: the hypotheses of fork_fold_eq are satisfiable by a monoid whose identity is not the zero
   value, and complete runs exist (input shorter than par, empty input) *)
Lemma fork_fold_product_run :
  exists s, exec Z.mul 1 1 3 (sched 3 (fun i => Nat.modulo i 3) [2%nat; 0%nat; 1%nat] [5; -7]) = Some s
            /\ seen_closed s = true /\ rcvd s = [-35] /\ panic s = false.
Proof. eexists. split; [vm_compute; reflexivity|]. repeat split. Qed.

Lemma fork_fold_empty_run :
  exists s, exec Z.mul 1 1 4 (sched 4 (fun i => i) [3%nat; 2%nat; 1%nat; 0%nat] []) = Some s
            /\ seen_closed s = true /\ rcvd s = [1] /\ panic s = false.
Proof. eexists. split; [vm_compute; reflexivity|]. repeat split. Qed.

Lemma product_is_commutative_monoid :
  (forall a b c : Z, a * b * c = a * (b * c)) /\ (forall a b : Z, a * b = b * a) /\ (forall a : Z, 1 * a = a).
Proof. repeat split; intros; ring. Qed.
