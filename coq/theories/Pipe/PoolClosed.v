(* A finished stage has closed its channels: every worker that is done has closed the channels
   it owns, and the closer - once it has run - has closed all of [closes]. *)
From Coq Require Import List ZArith NArith Bool Arith PeanoNat Lia.
From Golem Require Import Pipe.Pool Pipe.PoolEffects Pipe.PoolSteps Pipe.PoolInv Pipe.PoolSafe.
Import ListNotations.

Section Closed.
Variable c : cfg.
Hypothesis WF : wf_cfg c.

Definition done_closed (s : state) : Prop :=
  (closer c = false -> forall w k, w < par c -> wc (ws s w) = WDone -> In k (wcloses c w) -> cclosed (outs s k) = true) /\
  (closer_done s = true -> forall k, In k (closes c) -> cclosed (outs s k) = true).

Definition sinv (s : state) : Prop := safe c s /\ done_closed s.

Lemma done_closed_frame s s' :
  (forall k, cclosed (outs s k) = true -> cclosed (outs s' k) = true) ->
  (forall w, w < par c -> wc (ws s' w) = WDone -> wc (ws s w) = WDone) ->
  (closer_done s' = true -> closer_done s = true) ->
  done_closed s -> done_closed s'.
Proof.
  intros Hk Hw Hc [A B]. split.
  - intros Hcl w k Hlt Hd Hin. apply Hk. eapply A; eauto.
  - intros Hcd k Hin. apply Hk. apply B; auto.
Qed.

Lemma sinv_init : sinv (init c).
Proof.
  split; [apply safe_init|]. split.
  - intros _ w k _ Hd. unfold init, init_worker in Hd. simpl in Hd. destruct (pre c w (l0 c w)); discriminate.
  - simpl. discriminate.
Qed.

Lemma sinv_weffect s w s' : w < par c -> sinv s -> weffect c s w s' -> sinv s'.
Proof.
  intros Hw [HS HD] He. split; [eapply safe_weffect; eauto|].
  destruct He as [i a t rest Hsrc Hc Hb | Hsrc Hc | i Hsrc Hc Hb Hcl | ctl' Hcn Hdue Hsl Hsls
                 | eof a k0 v rest Hc Hs Hcl | eof k0 t r rest Hc Hb | dropped Hp Hnd Hnr Hnc Hwhy | eof a k0 v rest Hc Hs Hcl].
  - apply done_closed_frame with s; simpl; auto. intros w' Hlt.
    destruct (Nat.eq_dec w' w) as [->|Hne]; upd_simpl; auto. intros Hd. exfalso. eapply take_not_done; eauto.
  - apply done_closed_frame with s; simpl; auto. intros w' Hlt.
    destruct (Nat.eq_dec w' w) as [->|Hne]; upd_simpl; auto. intros Hd. exfalso. eapply take_not_done; eauto.
  - apply done_closed_frame with s; simpl; auto. intros w' Hlt.
    destruct (Nat.eq_dec w' w) as [->|Hne]; upd_simpl; auto. discriminate.
  - destruct (ctl_next_not_done _ _ Hcn) as (N1 & N2 & N3).
    apply done_closed_frame with s; simpl; auto. intros w' Hlt.
    destruct (Nat.eq_dec w' w) as [->|Hne]; upd_simpl; auto. simpl. congruence.
  - apply done_closed_frame with s; simpl; auto.
    + intros k. destruct (Nat.eq_dec k k0) as [->|Hne]; upd_simpl; auto.
    + intros w' Hlt. destruct (Nat.eq_dec w' w) as [->|Hne]; upd_simpl; auto. discriminate.
  - apply done_closed_frame with s; simpl; auto.
    + intros k. destruct (Nat.eq_dec k k0) as [->|Hne]; upd_simpl; auto.
    + intros w' Hlt. destruct (Nat.eq_dec w' w) as [->|Hne]; upd_simpl; auto. discriminate.
  - (* finish *)
    unfold finish. set (x' := mkW _ WDone _ _ _). set (s1 := set_w s w x').
    destruct (closer c) eqn:Ecloser.
    + destruct HD as [A B]. split; [congruence|]. unfold s1. simpl. exact B.
    + destruct WF as [W1 W2 W3 W4 W5]. destruct HS as [SA SB SC SD].
      assert (Hopen : forall k, In k (wcloses c w) -> cclosed (outs s1 k) = false).
      { intros k Hin. unfold s1. simpl. destruct (cclosed (outs s k)) eqn:Ecl; auto. exfalso.
        specialize (SC k Ecl). unfold closed_by in SC. rewrite Ecloser in SC.
        destruct SC as (w' & Hw' & Hin' & Hd).
        assert (w = w') by (eapply W3; eauto). subst. contradiction. }
      destruct (close_all_ok (wcloses c w) s1 (W2 Ecloser w Hw) Hopen) as [P Q].
      destruct (close_all_frame s1 (wcloses c w)) as (_ & Hws & _ & Hcd' & _). simpl in Hws, Hcd'.
      destruct HD as [A B]. split.
      * intros _ w' k Hlt Hd Hin. apply Q. rewrite Hws in Hd. unfold s1 in Hd. simpl in Hd.
        destruct (Nat.eq_dec w' w) as [->|Hne]; [left; auto|]. upd_simpl_in Hd.
        right. unfold s1. simpl. eapply A; eauto.
      * rewrite Hcd'. unfold s1. simpl. intros Hcd k Hin. apply Q. right. unfold s1. simpl. apply B; auto.
  - apply done_closed_frame with s; simpl; auto.
Qed.

Theorem sinv_step s e s' : sinv s -> step c s e = Some s' -> sinv s'.
Proof.
  intros [HS HD] Hs. split; [eapply safe_step; eauto|].
  destruct (step_effect c s e s' Hs) as [_ He].
  destruct He as [i x Hi Hcl | i Hi Hcl | k t v rest Hb | k v w eof a rest Hb Hcap Hcl Hw Hc Hs0 | | | w s' Hw He
                 | w a todo Hw Hc | Hcl Had Hcd | t Ht].
  - apply done_closed_frame with s; simpl; auto.
  - apply done_closed_frame with s; simpl; auto.
  - apply done_closed_frame with s; simpl; auto.
    intros k'. destruct (Nat.eq_dec k' k) as [->|Hne]; upd_simpl; auto.
  - apply done_closed_frame with s; simpl; auto.
    intros w' Hlt. destruct (Nat.eq_dec w' w) as [->|Hne]; upd_simpl; auto. discriminate.
  - exact HD.
  - apply done_closed_frame with s; simpl; auto.
  - eapply sinv_weffect; eauto. split; auto.
  - apply done_closed_frame with s; simpl; auto.
    intros w' Hlt. destruct (Nat.eq_dec w' w) as [->|Hne]; upd_simpl; auto. discriminate.
  - (* closer *)
    destruct WF as [W1 W2 W3 W4 W5]. destruct HS as [SA SB SC SD].
    assert (Hopen : forall k, In k (closes c) -> cclosed (outs s k) = false).
    { intros k Hin. destruct (cclosed (outs s k)) eqn:Ecl; auto. exfalso.
      specialize (SC k Ecl). unfold closed_by in SC. rewrite Hcl in SC. destruct SC. congruence. }
    destruct (close_all_ok (closes c) s (W1 Hcl) Hopen) as [P Q].
    split; simpl; [congruence|]. intros _ k Hin. apply Q. left. auto.
  - apply done_closed_frame with s; simpl; auto.
Qed.

Theorem sinv_reachable s : reachable c s -> sinv s.
Proof. apply reachable_inv; [apply sinv_init|apply sinv_step]. Qed.

Theorem done_closed_reachable s : reachable c s -> done_closed s.
Proof. intros H. apply (sinv_reachable s H). Qed.

End Closed.
