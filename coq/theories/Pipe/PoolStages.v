(* The sequential stages of pipe/pipe.go as instances: Map, FMap, Filter, Partition,
   TakeWhile, ForEach, Void (stateless), Take, Fold (with local state).  For each: the stage
   is well-formed, and its delivered streams are always a prefix of - and on completion equal
   to - the list function the documentation promises. *)
From Coq Require Import List ZArith NArith Bool Arith PeanoNat Lia.
From Golem Require Import Base.Lists Pipe.Pool Pipe.Stages Pipe.PoolEffects Pipe.PoolSteps Pipe.PoolInv Pipe.PoolInv2
     Pipe.PoolSafe Pipe.PoolClosed Pipe.PoolStop Pipe.PoolLive Pipe.PoolSimple Pipe.PoolSeq Pipe.PoolStateless.
Import ListNotations.
Open Scope Z_scope.

(* ---------- every seq_stage is a well-formed one-goroutine stage ---------- *)
Section SeqStage.
Variables (pl : Z -> Z -> list act * Z) (eof : Z -> list act) (pr : Z -> bool) (init : Z).
Variables (cl icaps ocaps : list nat).
Let c := seq_stage pl eof pr init cl icaps ocaps.

Lemma seq_par : par c = 1%nat. Proof. reflexivity. Qed.
Lemma seq_src : src c 0 = SIn 0. Proof. reflexivity. Qed.
Lemma seq_closer : closer c = false. Proof. reflexivity. Qed.

Lemma seq_wf : NoDup cl -> wf_cfg c.
Proof.
  intros Hnd. constructor; simpl; try discriminate; auto.
  - intros _ w w' k Hw Hw' _ _. lia.
  - intros w l a Hw x k v _ _. right. simpl. intros w' Hw' _. lia.
  - intros w l Hw x k v _ _. right. simpl. intros w' Hw' _. lia.
Qed.

Lemma seq_simple :
  (forall l a, Forall simple_act (fst (pl l a))) -> (forall l, Forall simple_act (eof l)) -> simple_cfg c.
Proof. intros H1 H2. constructor; simpl; auto. Qed.
End SeqStage.

(* ---------- readable list functions ---------- *)
Definition ok_vals (f : Z -> res) (xs : list Z) : list Z :=
  flat_map (fun a => match f a with Ok v => [v] | Err _ => [] end) xs.
Definition err_vals (f : Z -> res) (xs : list Z) : list Z :=
  flat_map (fun a => match f a with Ok _ => [] | Err e => [e] end) xs.
(* the elements up to and including the first one on which f fails *)
Fixpoint upto_err (f : Z -> res) (xs : list Z) : list Z :=
  match xs with
  | [] => []
  | x :: r => match f x with Ok _ => x :: upto_err f r | Err _ => [x] end
  end.

Lemma ok_vals_total (h : Z -> Z) xs : ok_vals (fun a => Ok (h a)) xs = map h xs.
Proof. induction xs as [|x xs IH]; simpl; auto; try now rewrite IH. Qed.
Lemma err_vals_total (h : Z -> Z) xs : err_vals (fun a => Ok (h a)) xs = [].
Proof. induction xs as [|x xs IH]; simpl; auto. Qed.
Lemma upto_err_total (h : Z -> Z) xs : upto_err (fun a => Ok (h a)) xs = xs.
Proof. induction xs as [|x xs IH]; simpl; auto; try now rewrite IH. Qed.

(* ---------- Map ---------- *)
Section MapStage.
Variables (f : Z -> res) (try : bool) (icaps ocaps : list nat).
Definition map_code (a : Z) : list act := match f a with Ok v => [ASend 0 v] | Err e => catch try e end.
Definition map_cfg : cfg := seq_stage (plan_map f try) no_eof always 0 [0%nat; 1%nat] icaps ocaps.

Lemma map_plan l a : plan map_cfg 0 l a = (map_code a, l). Proof. reflexivity. Qed.
Lemma map_wf : wf_cfg map_cfg.
Proof. apply seq_wf. repeat constructor; simpl; intuition discriminate. Qed.
Lemma map_simple : simple_cfg map_cfg.
Proof.
  apply seq_simple; [|constructor]. intros l a. simpl. destruct (f a); [repeat constructor|].
  unfold catch. destruct try; repeat constructor.
Qed.

(* which elements are reached: all of them under Try, up to the first failure under Lift *)
Definition map_reach (xs : list Z) : list Z := if try then xs else upto_err f xs.

Lemma map_cut xs : cut map_code xs = map_reach xs.
Proof.
  unfold map_reach, map_code, catch. induction xs as [|x xs IH]; simpl; [destruct try; auto|].
  destruct (f x) eqn:E; destruct try; simpl; rewrite ?IH; auto.
Qed.
Lemma map_image0 xs : image map_code 0 xs = ok_vals f (map_reach xs).
Proof.
  unfold image. rewrite map_cut. unfold ok_vals. apply flat_map_ext. intros a.
  unfold map_code, catch. destruct (f a); auto. destruct try; reflexivity.
Qed.
Lemma map_image1 xs : image map_code 1 xs = err_vals f (map_reach xs).
Proof.
  unfold image. rewrite map_cut. unfold err_vals. apply flat_map_ext. intros a.
  unfold map_code, catch. destruct (f a); auto. destruct try; reflexivity.
Qed.

(* values on output 0, errors on output 1: always a prefix of what the documentation promises *)
Theorem map_prefix s :
  reachable map_cfg s ->
  prefix (delivered s 0) (ok_vals f (map_reach (sent s 0))) /\
  prefix (delivered s 1) (err_vals f (map_reach (sent s 0))) /\
  prefix (wtaken (ws s 0)) (map_reach (sent s 0)).
Proof.
  intros Hr. rewrite <- map_image0, <- map_image1, <- map_cut.
  repeat split; [apply (stateless_prefix map_cfg map_code) | apply (stateless_prefix map_cfg map_code)
                | apply (stateless_consumed map_cfg map_code)]; auto using map_plan.
Qed.

Theorem map_complete s :
  reachable map_cfg s -> cancelled s = false -> quiescent map_cfg s -> no_receive map_cfg s ->
  cclosed (ins s 0) = true ->
  delivered s 0 = ok_vals f (map_reach (sent s 0)) /\
  delivered s 1 = err_vals f (map_reach (sent s 0)) /\
  wtaken (ws s 0) = map_reach (sent s 0) /\
  wc (ws s 0) = WDone /\ cclosed (outs s 0) = true /\ cclosed (outs s 1) = true.
Proof.
  intros Hr Hcn Hq Hnr Hin.
  destruct (stateless_complete map_cfg map_code eq_refl eq_refl map_plan (fun _ => eq_refl) map_wf map_simple
              eq_refl eq_refl s Hr Hcn Hq Hnr Hin) as (A & B & C & D).
  rewrite <- map_image0, <- map_image1, <- map_cut. repeat split; auto; apply D; simpl; auto.
Qed.
End MapStage.

(* ---------- FMap ---------- *)
Section FMapStage.
Variables (f : Z -> list Z * option Z) (try : bool) (icaps ocaps : list nat).
Definition fmap_code (a : Z) : list act :=
  let '(vs, oe) := f a in map (ASend 0) vs ++ match oe with None => [APoll] | Some e => catch try e end.
Definition fmap_cfg : cfg := seq_stage (plan_fmap f try) no_eof always 0 [0%nat; 1%nat] icaps ocaps.

Definition arrow_fails (a : Z) : bool := match snd (f a) with Some _ => true | None => false end.
Fixpoint upto_fail (xs : list Z) : list Z :=
  match xs with [] => [] | x :: r => if arrow_fails x then [x] else x :: upto_fail r end.
Definition fmap_reach (xs : list Z) : list Z := if try then xs else upto_fail xs.
Definition fmap_vals (xs : list Z) : list Z := flat_map (fun a => fst (f a)) xs.
Definition fmap_errs (xs : list Z) : list Z :=
  flat_map (fun a => match snd (f a) with Some e => [e] | None => [] end) xs.

Lemma fmap_plan l a : plan fmap_cfg 0 l a = (fmap_code a, l).
Proof. simpl. unfold plan_fmap, fmap_code. destruct (f a). reflexivity. Qed.
Lemma fmap_wf : wf_cfg fmap_cfg.
Proof. apply seq_wf. repeat constructor; simpl; intuition discriminate. Qed.

Lemma emits_sends0 k vs rest :
  emits k (map (ASend 0) vs ++ rest) = (if Nat.eqb 0 k then vs else []) ++ emits k rest.
Proof. induction vs as [|v vs IH]; simpl; destruct k; simpl in *; auto. now rewrite IH. Qed.
Lemma has_stop_sends0 vs rest : has_stop (map (ASend 0) vs ++ rest) = has_stop rest.
Proof. induction vs; simpl; auto. Qed.
Lemma simple_sends0 vs rest : Forall simple_act rest -> Forall simple_act (map (ASend 0) vs ++ rest).
Proof. intros H. induction vs as [|v vs IH]; simpl; auto. constructor; simpl; auto. Qed.

Lemma fmap_simple : simple_cfg fmap_cfg.
Proof.
  apply seq_simple; [|constructor]. intros l a. simpl. unfold plan_fmap. destruct (f a) as [vs oe]. simpl.
  apply simple_sends0. destruct oe; [|repeat constructor]. unfold catch. destruct try; repeat constructor.
Qed.

Lemma fmap_cut xs : cut fmap_code xs = fmap_reach xs.
Proof.
  unfold fmap_reach. induction xs as [|x xs IH]; simpl; [destruct try; auto|].
  unfold fmap_code at 1, arrow_fails. destruct (f x) as [vs oe] eqn:E. simpl. rewrite has_stop_sends0.
  destruct oe; unfold catch; destruct try; simpl; rewrite ?IH; auto.
Qed.
Lemma fmap_image0 xs : image fmap_code 0 xs = fmap_vals (fmap_reach xs).
Proof.
  unfold image. rewrite fmap_cut. unfold fmap_vals. apply flat_map_ext. intros a.
  unfold fmap_code. destruct (f a) as [vs oe]. rewrite emits_sends0. simpl.
  destruct oe; unfold catch; try destruct try; simpl; apply app_nil_r.
Qed.
Lemma fmap_image1 xs : image fmap_code 1 xs = fmap_errs (fmap_reach xs).
Proof.
  unfold image. rewrite fmap_cut. unfold fmap_errs. apply flat_map_ext. intros a.
  unfold fmap_code. destruct (f a) as [vs oe]. rewrite emits_sends0. simpl.
  destruct oe; unfold catch; try destruct try; reflexivity.
Qed.

Theorem fmap_prefix s :
  reachable fmap_cfg s ->
  prefix (delivered s 0) (fmap_vals (fmap_reach (sent s 0))) /\
  prefix (delivered s 1) (fmap_errs (fmap_reach (sent s 0))) /\
  prefix (wtaken (ws s 0)) (fmap_reach (sent s 0)).
Proof.
  intros Hr. rewrite <- fmap_image0, <- fmap_image1, <- fmap_cut.
  repeat split; [apply (stateless_prefix fmap_cfg fmap_code) | apply (stateless_prefix fmap_cfg fmap_code)
                | apply (stateless_consumed fmap_cfg fmap_code)]; auto using fmap_plan.
Qed.

Theorem fmap_complete s :
  reachable fmap_cfg s -> cancelled s = false -> quiescent fmap_cfg s -> no_receive fmap_cfg s ->
  cclosed (ins s 0) = true ->
  delivered s 0 = fmap_vals (fmap_reach (sent s 0)) /\
  delivered s 1 = fmap_errs (fmap_reach (sent s 0)) /\
  wtaken (ws s 0) = fmap_reach (sent s 0) /\
  wc (ws s 0) = WDone /\ cclosed (outs s 0) = true /\ cclosed (outs s 1) = true.
Proof.
  intros Hr Hcn Hq Hnr Hin.
  destruct (stateless_complete fmap_cfg fmap_code eq_refl eq_refl fmap_plan (fun _ => eq_refl) fmap_wf fmap_simple
              eq_refl eq_refl s Hr Hcn Hq Hnr Hin) as (A & B & C & D).
  rewrite <- fmap_image0, <- fmap_image1, <- fmap_cut. repeat split; auto; apply D; simpl; auto.
Qed.
End FMapStage.

(* ---------- Filter, Partition, TakeWhile, ForEach / Void ---------- *)
Section PredStages.
Variables (p : Z -> bool) (icaps ocaps : list nat).

Definition filter_code (a : Z) : list act := if p a then [ASend 0 a] else [].
Definition filter_cfg : cfg := seq_stage (plan_filter p) no_eof always 0 [0%nat] icaps ocaps.
Lemma filter_wf : wf_cfg filter_cfg.
Proof. apply seq_wf. repeat constructor; simpl; intuition. Qed.
Lemma filter_simple : simple_cfg filter_cfg.
Proof. apply seq_simple; [|constructor]. intros l a. simpl. destruct (p a); repeat constructor. Qed.
Lemma filter_nostop xs : existsb (fun a => has_stop (filter_code a)) xs = false.
Proof. induction xs as [|x xs IH]; simpl; auto. unfold filter_code at 1. destruct (p x); simpl; auto. Qed.
Lemma filter_image xs : image filter_code 0 xs = filter p xs.
Proof.
  unfold image. rewrite cut_nostop by apply filter_nostop.
  induction xs as [|x xs IH]; simpl; auto. unfold filter_code at 1. destruct (p x); simpl; now rewrite IH.
Qed.

Theorem filter_prefix s : reachable filter_cfg s -> prefix (delivered s 0) (filter p (sent s 0)).
Proof. intros Hr. rewrite <- filter_image. apply (stateless_prefix filter_cfg filter_code); auto. Qed.
Theorem filter_complete s :
  reachable filter_cfg s -> cancelled s = false -> quiescent filter_cfg s -> no_receive filter_cfg s ->
  cclosed (ins s 0) = true ->
  delivered s 0 = filter p (sent s 0) /\ wtaken (ws s 0) = sent s 0 /\ wc (ws s 0) = WDone /\ cclosed (outs s 0) = true.
Proof.
  intros Hr Hcn Hq Hnr Hin.
  destruct (stateless_complete filter_cfg filter_code eq_refl eq_refl (fun _ _ => eq_refl) (fun _ => eq_refl)
              filter_wf filter_simple eq_refl eq_refl s Hr Hcn Hq Hnr Hin) as (A & B & C & D).
  rewrite <- filter_image. rewrite cut_nostop in B by apply filter_nostop. repeat split; auto. apply D; simpl; auto.
Qed.

Definition partition_code (a : Z) : list act := [ASend (if p a then 0%nat else 1%nat) a].
Definition partition_cfg : cfg := seq_stage (plan_partition p) no_eof always 0 [0%nat; 1%nat] icaps ocaps.
Lemma partition_wf : wf_cfg partition_cfg.
Proof. apply seq_wf. repeat constructor; simpl; intuition discriminate. Qed.
Lemma partition_simple : simple_cfg partition_cfg.
Proof. apply seq_simple; [|constructor]. intros l a. simpl. repeat constructor. Qed.
Lemma partition_nostop xs : existsb (fun a => has_stop (partition_code a)) xs = false.
Proof. induction xs as [|x xs IH]; simpl; auto. Qed.
Lemma partition_image0 xs : image partition_code 0 xs = filter p xs.
Proof.
  unfold image. rewrite cut_nostop by apply partition_nostop.
  induction xs as [|x xs IH]; simpl; auto. rewrite <- IH. destruct (p x); reflexivity.
Qed.
Lemma partition_image1 xs : image partition_code 1 xs = filter (fun a => negb (p a)) xs.
Proof.
  unfold image. rewrite cut_nostop by apply partition_nostop.
  induction xs as [|x xs IH]; simpl; auto. rewrite <- IH. destruct (p x); reflexivity.
Qed.

Theorem partition_prefix s :
  reachable partition_cfg s ->
  prefix (delivered s 0) (filter p (sent s 0)) /\ prefix (delivered s 1) (filter (fun a => negb (p a)) (sent s 0)).
Proof.
  intros Hr. rewrite <- partition_image0, <- partition_image1.
  split; apply (stateless_prefix partition_cfg partition_code); auto.
Qed.
Theorem partition_complete s :
  reachable partition_cfg s -> cancelled s = false -> quiescent partition_cfg s -> no_receive partition_cfg s ->
  cclosed (ins s 0) = true ->
  delivered s 0 = filter p (sent s 0) /\ delivered s 1 = filter (fun a => negb (p a)) (sent s 0) /\
  wtaken (ws s 0) = sent s 0 /\ wc (ws s 0) = WDone /\ cclosed (outs s 0) = true /\ cclosed (outs s 1) = true.
Proof.
  intros Hr Hcn Hq Hnr Hin.
  destruct (stateless_complete partition_cfg partition_code eq_refl eq_refl (fun _ _ => eq_refl) (fun _ => eq_refl)
              partition_wf partition_simple eq_refl eq_refl s Hr Hcn Hq Hnr Hin) as (A & B & C & D).
  rewrite <- partition_image0, <- partition_image1. rewrite cut_nostop in B by apply partition_nostop.
  repeat split; auto; apply D; simpl; auto.
Qed.

Definition takewhile_code (a : Z) : list act := if p a then [ASend 0 a] else [AStop].
Definition takewhile_cfg : cfg := seq_stage (plan_takewhile p) no_eof always 0 [0%nat] icaps ocaps.
Lemma takewhile_wf : wf_cfg takewhile_cfg.
Proof. apply seq_wf. repeat constructor; simpl; intuition. Qed.
Lemma takewhile_simple : simple_cfg takewhile_cfg.
Proof. apply seq_simple; [|constructor]. intros l a. simpl. destruct (p a); repeat constructor. Qed.
Lemma tw_stop a : has_stop (takewhile_code a) = negb (p a).
Proof. unfold takewhile_code. destruct (p a); reflexivity. Qed.
Lemma tw_emit a : emits 0 (takewhile_code a) = if p a then [a] else [].
Proof. unfold takewhile_code. destruct (p a); reflexivity. Qed.
Lemma takewhile_image xs : image takewhile_code 0 xs = take_while p xs.
Proof.
  unfold image. induction xs as [|x xs IH]; simpl; auto. rewrite tw_stop.
  destruct (p x) eqn:E; simpl; rewrite tw_emit, E; simpl; auto. now rewrite IH.
Qed.
(* the goroutine consumes the longest prefix satisfying p and the first element that does not *)
Lemma takewhile_cut xs : cut takewhile_code xs = take_while p xs ++ firstn 1 (skipn (length (take_while p xs)) xs).
Proof.
  induction xs as [|x xs IH]; simpl; auto. rewrite tw_stop. destruct (p x); simpl; auto. now rewrite IH.
Qed.

Theorem takewhile_prefix s : reachable takewhile_cfg s -> prefix (delivered s 0) (take_while p (sent s 0)).
Proof. intros Hr. rewrite <- takewhile_image. apply (stateless_prefix takewhile_cfg takewhile_code); auto. Qed.
Theorem takewhile_complete s :
  reachable takewhile_cfg s -> cancelled s = false -> quiescent takewhile_cfg s -> no_receive takewhile_cfg s ->
  cclosed (ins s 0) = true ->
  delivered s 0 = take_while p (sent s 0) /\
  wtaken (ws s 0) = take_while p (sent s 0) ++ firstn 1 (skipn (length (take_while p (sent s 0))) (sent s 0)) /\
  wc (ws s 0) = WDone /\ cclosed (outs s 0) = true.
Proof.
  intros Hr Hcn Hq Hnr Hin.
  destruct (stateless_complete takewhile_cfg takewhile_code eq_refl eq_refl (fun _ _ => eq_refl) (fun _ => eq_refl)
              takewhile_wf takewhile_simple eq_refl eq_refl s Hr Hcn Hq Hnr Hin) as (A & B & C & D).
  rewrite <- takewhile_cut, <- takewhile_image. repeat split; auto. apply D; simpl; auto.
Qed.
End PredStages.

Section VisitStages.
Variables (icaps ocaps : list nat).
(* ForEach and Void: one visit per element, in order; the done channel carries nothing and closes *)
Definition visit_code (a : Z) : list act := [APoll].
Definition visit_cfg : cfg := seq_stage plan_poll no_eof always 0 [0%nat] icaps ocaps.
Lemma visit_wf : wf_cfg visit_cfg.
Proof. apply seq_wf. repeat constructor; simpl; intuition. Qed.
Lemma visit_simple : simple_cfg visit_cfg.
Proof. apply seq_simple; [|constructor]. intros l a. simpl. repeat constructor. Qed.
Lemma visit_nostop xs : existsb (fun a => has_stop (visit_code a)) xs = false.
Proof. induction xs as [|x xs IH]; simpl; auto. Qed.
Lemma visit_image k xs : image visit_code k xs = [].
Proof. unfold image. rewrite cut_nostop by apply visit_nostop. induction xs; simpl; auto. Qed.

Theorem visit_prefix s :
  reachable visit_cfg s -> delivered s 0 = [] /\ prefix (wtaken (ws s 0)) (sent s 0).
Proof.
  intros Hr. split.
  - pose proof (stateless_prefix visit_cfg visit_code eq_refl eq_refl (fun _ _ => eq_refl) (fun _ => eq_refl) s 0 Hr) as [r H].
    rewrite visit_image in H. destruct (delivered s 0); auto. discriminate.
  - apply (seq_taken_prefix visit_cfg); auto.
Qed.
Theorem visit_complete s :
  reachable visit_cfg s -> cancelled s = false -> quiescent visit_cfg s -> no_receive visit_cfg s ->
  cclosed (ins s 0) = true ->
  wtaken (ws s 0) = sent s 0 /\ delivered s 0 = [] /\ wc (ws s 0) = WDone /\ cclosed (outs s 0) = true.
Proof.
  intros Hr Hcn Hq Hnr Hin.
  destruct (stateless_complete visit_cfg visit_code eq_refl eq_refl (fun _ _ => eq_refl) (fun _ => eq_refl)
              visit_wf visit_simple eq_refl eq_refl s Hr Hcn Hq Hnr Hin) as (A & B & C & D).
  rewrite cut_nostop in B by apply visit_nostop. repeat split; auto.
  - rewrite A. apply visit_image.
  - apply D; simpl; auto.
Qed.
End VisitStages.

(* ---------- corollaries for functions that do not fail (C05) ---------- *)
Section Total.
Variables (h : Z -> Z) (g : Z -> list Z) (try : bool) (icaps ocaps : list nat).

Definition map_total_cfg : cfg := map_cfg (fun a => Ok (h a)) try icaps ocaps.
Lemma map_reach_total xs : map_reach (fun a => Ok (h a)) try xs = xs.
Proof. unfold map_reach. destruct try; auto. apply upto_err_total. Qed.

Theorem map_total_prefix s :
  reachable map_total_cfg s ->
  prefix (delivered s 0) (map h (sent s 0)) /\ delivered s 1 = [] /\ prefix (wtaken (ws s 0)) (sent s 0).
Proof.
  intros Hr. destruct (map_prefix _ _ _ _ s Hr) as (A & B & C).
  rewrite map_reach_total, ?ok_vals_total, ?err_vals_total in *. repeat split; auto.
  destruct B as [r B]. destruct (delivered s 1); auto. discriminate.
Qed.
Theorem map_total_complete s :
  reachable map_total_cfg s -> cancelled s = false -> quiescent map_total_cfg s -> no_receive map_total_cfg s ->
  cclosed (ins s 0) = true ->
  delivered s 0 = map h (sent s 0) /\ delivered s 1 = [] /\ wtaken (ws s 0) = sent s 0 /\
  wc (ws s 0) = WDone /\ cclosed (outs s 0) = true /\ cclosed (outs s 1) = true.
Proof.
  intros Hr Hcn Hq Hnr Hin. destruct (map_complete _ _ _ _ s Hr Hcn Hq Hnr Hin) as (A & B & C & D).
  rewrite map_reach_total, ?ok_vals_total, ?err_vals_total in *. repeat split; auto; apply D.
Qed.

Definition fmap_total_cfg : cfg := fmap_cfg (fun a => (g a, None)) try icaps ocaps.
Lemma fmap_reach_total xs : fmap_reach (fun a => (g a, None)) try xs = xs.
Proof. unfold fmap_reach. destruct try; auto. induction xs as [|x xs IH]; simpl; auto. unfold arrow_fails. simpl. now rewrite IH. Qed.
Lemma fmap_vals_total xs : fmap_vals (fun a => (g a, None)) xs = flat_map g xs.
Proof. reflexivity. Qed.
Lemma fmap_errs_total xs : fmap_errs (fun a => (g a, None)) xs = [].
Proof. induction xs; simpl; auto. Qed.

Theorem fmap_total_prefix s :
  reachable fmap_total_cfg s ->
  prefix (delivered s 0) (flat_map g (sent s 0)) /\ delivered s 1 = [] /\ prefix (wtaken (ws s 0)) (sent s 0).
Proof.
  intros Hr. destruct (fmap_prefix _ _ _ _ s Hr) as (A & B & C).
  rewrite fmap_reach_total, ?fmap_vals_total, ?fmap_errs_total in *. repeat split; auto.
  destruct B as [r B]. destruct (delivered s 1); auto. discriminate.
Qed.
Theorem fmap_total_complete s :
  reachable fmap_total_cfg s -> cancelled s = false -> quiescent fmap_total_cfg s -> no_receive fmap_total_cfg s ->
  cclosed (ins s 0) = true ->
  delivered s 0 = flat_map g (sent s 0) /\ delivered s 1 = [] /\ wtaken (ws s 0) = sent s 0 /\
  wc (ws s 0) = WDone /\ cclosed (outs s 0) = true /\ cclosed (outs s 1) = true.
Proof.
  intros Hr Hcn Hq Hnr Hin. destruct (fmap_complete _ _ _ _ s Hr Hcn Hq Hnr Hin) as (A & B & C & D).
  rewrite fmap_reach_total, ?fmap_vals_total, ?fmap_errs_total in *. repeat split; auto; apply D.
Qed.
End Total.
